/-!
# M-Src / check — executable model of the static rules of `front/typecheck.c` (+ tcmatch.c,
tcforin.c, tcheckarr.c, param.c `param_cmp`) for a CORE of the language.

`check : Prog → Except Diag Unit` returns the FIRST diagnostic the real type checker prints
(line + rule kind) or `ok`.  The C checker keeps going after an error (types become
`COMB_TYPE_ERR`); everything it prints after the first `error:` line is a consequence of the
first one or of a second fault, and is not modelled — the `Except` monad stops at the first.
The traversal ORDER is the C order (e.g. catch clauses before the body, all declarations of a
run of consecutive functions before their bodies), because it decides which error is first.

Tie: correspondence (`checks/c06_corr.py`, `harness/h_tc.c`, `Driver/TcDrv.lean`).
Mirrors the pinned code INCLUDING its oddities, each marked `-- C:`.

In the core since D11: tuples `(e, …) : (T, …)` and constant-index projection `t[i]`, ranges
`[a .. b, …]`, slices `a[i .. j]`, multi-dimensional array literals (shape: `tcRows` /
`wellFormed`, tcheckarr.c), for-in over arrays / ranges / slices, the pipe `x |> f(args)` (scalar and
tuple form), the shared-`mark` exhaustiveness algorithm of tcmatch.c (`exhaustiveM`).

Outside the core (not modelled): modules/`use`, FFI (`extern`), `{[n]}` arrays, `nil`, `c_ptr`,
enum records (`Some { v : int; }`) with `match` binds and `if let`, explicit enumerator values,
`do while`, C-style `for`, range / slice PARAMETER syntax (`r[a..b]`), constant folding of a tuple
index (only literal indices: `Expr.proj`), top-level `let`/`var`, later passes (constant reduction
"division by zero", emitter errors).
-/
namespace Never.Tc

abbrev Ln := Nat

/-- `param_const_type`: as written in the source -/
inductive PCst | dflt | const | var
  deriving DecidableEq, Repr, Inhabited

/-- `comb_const_type` -/
inductive Cst | const | var | temp
  deriving DecidableEq, Repr, Inhabited

/-- `param_expr_cmp_init`: DEFAULT and CONST give CONST, VAR gives VAR -/
def PCst.toCst : PCst → Cst
  | .var => .var
  | _ => .const

/-- `param_check_type`: DEFAULT becomes CONST (function parameters, results, nested ones) -/
def PCst.normConst : PCst → PCst
  | .dflt => .const
  | c => c

/-- array element / record field / comprehension result: DEFAULT becomes VAR -/
def PCst.normVar : PCst → PCst
  | .dflt => .var
  | c => c

mutual
/-- `param` as a type.  `named` is what the parser builds for `x : R` (PARAM_RECORD with an
unresolved name, line of the parameter); `param_enum_record_check_type` turns it into `record`
or `enum` -/
inductive Ty
  | bool | int | long | float | double | char | string
  | named (ln : Ln) (s : String)
  | record (s : String)
  | enum (s : String)
  | func (ps : TyList) (rc : PCst) (r : Ty)
  /-- `[D1, …, Dn] : ec e` -/
  | array (n : Nat) (ec : PCst) (e : Ty)
  /-- `(c1 T1, …, cn Tn)` -/
  | tuple (ms : TyList)
  /-- a range of `n` dimensions (elements are `let int`) -/
  | range (n : Nat)
  /-- a slice of `n` dimensions over elements `ec e` -/
  | slice (n : Nat) (ec : PCst) (e : Ty)
inductive TyList
  | nil
  | cons (c : PCst) (t : Ty) (rest : TyList)
end

instance : Inhabited Ty := ⟨.int⟩

def TyList.toList : TyList → List (PCst × Ty)
  | .nil => []
  | .cons c t r => (c, t) :: r.toList

def TyList.ofList : List (PCst × Ty) → TyList
  | [] => .nil
  | (c, t) :: r => .cons c t (TyList.ofList r)

def TyList.length : TyList → Nat
  | .nil => 0
  | .cons _ _ r => r.length + 1

/-- `param_list_set_default_var` (members of a tuple LITERAL) -/
def TyList.defaultVar : TyList → TyList
  | .nil => .nil
  | .cons c t r => .cons c.normVar t r.defaultVar

def TyList.get? : TyList → Nat → Option (PCst × Ty)
  | .nil, _ => none
  | .cons c t _, 0 => some (c, t)
  | .cons _ _ r, n + 1 => r.get? n

/-- `comb_type` of a checked expression (without `COMB_TYPE_ERR`: the model stops before) -/
inductive CT
  | val (t : Ty)
  | recordId (s : String)
  | enumId (s : String)

structure Comb where
  ct : CT
  cst : Cst

structure Param where
  ln : Ln
  name : String
  cst : PCst
  ty : Ty
  /-- the bound names of a range / slice parameter (`r[a .. b] : range`, `s[f .. t] : int`):
  `param_new_range_dim` makes each a `var int` of the function's table (C: VAR whatever the
  parameter's own constness — they are assignable: known finding) -/
  bnames : List (Ln × String)

inductive Rule
  | undefId | undefAttr | attrNonRecord | undefEnumItem | enumOnNonEnum
  | undefType | notAType | redefined
  | assignConst | assignType | varFromConst
  | callMismatch | paramKind | constToVarParam | recordCreate | enumCreate | notCallable
  | arith | modOp | compare | notOp | negOp | binNot | binOp
  | condNotBool | whileNotBool | condBranches | branchArrays | branchFuncs | branchRanges | branchSlices
  | tupleForm | tupleDerefDims | tupleDerefType | tupleIndex | tupleIndexProper
  | arrayShape | rangeFrom | rangeTo | sliceDims | pipeNotFunc
  | funcNoName | emptyMainUnit
  | guardBinds
  | returnType
  | matchNotEnum | matchExprNotEnum | matchGuardEnum | matchGuardItem | matchGuardNotEnum
  | matchGuardDiffers | matchMissing
  | unknownException
  | arrayElem | derefDims | derefIndex | derefNonArray
  | genNotArray | filterNotBool | listcompRet | forinNotArray
  | seqLast
  deriving DecidableEq, Repr, Inhabited

structure Diag where
  line : Ln
  rule : Rule
  deriving DecidableEq, Repr

inductive UnOp | neg | not | bnot
  deriving DecidableEq, Repr

inductive BinOp
  | add | sub | mul | div | mod | lt | gt | lte | gte | eq | neq | and | or
  | band | bor | bxor | shl | shr
  deriving DecidableEq, Repr

mutual
inductive Expr
  | litBool (ln : Ln) | litInt (ln : Ln) | litLong (ln : Ln) | litFloat (ln : Ln)
  | litDouble (ln : Ln) | litChar (ln : Ln) | litString (ln : Ln)
  | id (ln : Ln) (x : String)
  | enumVal (ln : Ln) (e : Expr) (item : String)
  | un (ln : Ln) (op : UnOp) (e : Expr)
  | bin (ln : Ln) (op : BinOp) (l r : Expr)
  | sup (ln : Ln) (e : Expr)
  | cond (ln : Ln) (c t e : Expr)
  | ass (ln : Ln) (l r : Expr)
  | while_ (ln : Ln) (c b : Expr)
  | forIn (ln : Ln) (x : String) (a b : Expr)
  | call (ln : Ln) (f : Expr) (args : ExprList)
  | funcLit (f : Func)
  | seq (ln : Ln) (items : SeqList)
  | attr (ln : Ln) (r : Expr) (fld : String)
  | match_ (ln : Ln) (s : Expr) (gs : GuardList)
  | array (ln : Ln) (elems : ExprList) (ec : PCst) (ety : Ty)
  | deref (ln : Ln) (a : Expr) (idx : ExprList)
  | listcomp (ln : Ln) (e : Expr) (qs : QualList) (rc : PCst) (rty : Ty)
  /-- a row `[ … ]` inside an array literal (ARRAY_SUB); the parser gives it no line -/
  | sub (elems : ExprList)
  /-- `(e1, …, en) : (T1, …, Tn)` -/
  | tuple (ln : Ln) (elems : ExprList) (ms : TyList)
  /-- `e[i]` with a literal index `i` (at line `iln`): the only index a tuple accepts -/
  | proj (ln : Ln) (e : Expr) (iln : Ln) (i : Nat)
  /-- `[f1 .. t1, …]`: the bounds flattened, `f1, t1, f2, t2, …` -/
  | range (ln : Ln) (bounds : ExprList)
  /-- `a[f1 .. t1, …]` -/
  | slice (ln : Ln) (a : Expr) (bounds : ExprList)
  /-- `l |> f(args)` -/
  | pipe (ln : Ln) (l : Expr) (f : Expr) (args : ExprList)
  /-- `if let (En::it = e) t else f` (item guard; `gln` is the guard's line) -/
  | ifLet (ln gln : Ln) (en it : String) (e t f : Expr)
  /-- `if let (En::it(x, y) = e) t else f` (record guard: the binds are visible in `t`) -/
  | ifLetRec (ln gln : Ln) (en it : String) (binds : List (Ln × String)) (e t f : Expr)
  /-- `En::it(args)`: an enumerator that is a record, constructed (`e` is the enum's name) -/
  | ctor (ln : Ln) (e : Expr) (it : String) (args : ExprList)
inductive ExprList
  | nil
  | cons (e : Expr) (rest : ExprList)
inductive SeqItem
  | bind (ln : Ln) (isVar : Bool) (x : String) (e : Expr)
  /-- a maximal run of consecutive functions (grouped by the reader) -/
  | funcs (fs : FuncList)
  | expr (e : Expr)
inductive SeqList
  | nil
  | cons (i : SeqItem) (rest : SeqList)
inductive Guard
  | item (ln : Ln) (en : String) (it : String) (e : Expr)
  /-- `En::it(x, y) -> e`: a record guard, its binds visible in the arm -/
  | recd (ln : Ln) (en : String) (it : String) (binds : List (Ln × String)) (e : Expr)
  | else_ (ln : Ln) (e : Expr)
inductive GuardList
  | nil
  | cons (g : Guard) (rest : GuardList)
inductive Qual
  | gen (ln : Ln) (x : String) (e : Expr)
  | filter (ln : Ln) (e : Expr)
inductive QualList
  | nil
  | cons (q : Qual) (rest : QualList)
/-- `func name(params) -> rc rty body excs`; `name = ""` for an anonymous literal -/
inductive Func
  | mk (ln : Ln) (name : String) (params : List Param) (rc : PCst) (rty : Ty) (body : Expr)
       (excs : ExcList)
inductive FuncList
  | nil
  | cons (f : Func) (rest : FuncList)
/-- `catch (name) body` / `catch body` (`name = ""`) -/
inductive Exc
  | mk (ln : Ln) (name : String) (body : Expr)
inductive ExcList
  | nil
  | cons (x : Exc) (rest : ExcList)
end

instance : Inhabited Expr := ⟨.litInt 0⟩

/-- `expr->line_no` as the parser sets it (a function literal has none: 0) -/
def Expr.ln : Expr → Ln
  | .litBool l | .litInt l | .litLong l | .litFloat l | .litDouble l | .litChar l
  | .litString l => l
  | .id l _ | .enumVal l _ _ | .un l _ _ | .bin l _ _ _ | .sup l _ | .cond l _ _ _
  | .ass l _ _ | .while_ l _ _ | .forIn l _ _ _ | .call l _ _ | .seq l _ | .attr l _ _
  | .match_ l _ _ | .array l _ _ _ | .deref l _ _ | .listcomp l _ _ _ _ => l
  | .tuple l _ _ | .proj l _ _ _ | .range l _ | .slice l _ _ | .pipe l _ _ _ => l
  | .ifLet l _ _ _ _ _ _ | .ifLetRec l _ _ _ _ _ _ _ | .ctor l _ _ _ => l
  | .funcLit _ => 0
  | .sub _ => 0

def ExprList.length : ExprList → Nat
  | .nil => 0
  | .cons _ r => r.length + 1

def Func.ln : Func → Ln | .mk l _ _ _ _ _ _ => l
def Func.name : Func → String | .mk _ n _ _ _ _ _ => n
def Func.params : Func → List Param | .mk _ _ p _ _ _ _ => p
def Func.rc : Func → PCst | .mk _ _ _ c _ _ _ => c
def Func.rty : Func → Ty | .mk _ _ _ _ t _ _ => t
def Func.body : Func → Expr | .mk _ _ _ _ _ b _ => b
def Func.excs : Func → ExcList | .mk _ _ _ _ _ _ x => x

/-! ## symbol tables -/

inductive Entry
  | func (ps : TyList) (rc : PCst) (r : Ty)
  | param (c : PCst) (t : Ty)
  | bind (isVar : Bool) (ct : CT)
  | qual (c : Comb)
  | forin (c : Comb)
  | record
  | enum

abbrev Scope := List (String × Entry)

structure Field where
  name : String
  cst : PCst
  ty : Ty

/-- `symtab` chain (innermost first) + the global declarations reached through pointers
(`comb_enumtype`, `comb_record`), which no local name can shadow -/
structure Env where
  enums : List (String × List String)
  records : List (String × List Field)
  scopes : List Scope

def Scope.find (s : Scope) (x : String) : Option Entry :=
  match s with
  | [] => none
  | (y, e) :: r => if y = x then some e else Scope.find r x

def lookupScopes : List Scope → String → Option Entry
  | [], _ => none
  | s :: r, x =>
    match s.find x with
    | some e => some e
    | none => lookupScopes r x

/-- `symtab_lookup(tab, id, SYMTAB_LOOKUP_GLOBAL)` -/
def Env.lookup (Γ : Env) (x : String) : Option Entry := lookupScopes Γ.scopes x

def Env.push (Γ : Env) (s : Scope := []) : Env := { Γ with scopes := s :: Γ.scopes }

/-- `symtab_add_*_from_*`: `SYMTAB_LOOKUP_BLOCK` duplicate test in the innermost table only -/
def Env.add (Γ : Env) (ln : Ln) (x : String) (e : Entry) : Except Diag Env :=
  match Γ.scopes with
  | [] => .ok { Γ with scopes := [[(x, e)]] }
  | s :: r =>
    match s.find x with
    | some _ => .error ⟨ln, .redefined⟩
    | none => .ok { Γ with scopes := ((x, e) :: s) :: r }

def listFind {α} (l : List (String × α)) (x : String) : Option α :=
  match l with
  | [] => none
  | (y, a) :: r => if y = x then some a else listFind r x

def Env.enumItems (Γ : Env) (s : String) : List String := (listFind Γ.enums s).getD []
def Env.recordFields (Γ : Env) (s : String) : List Field := (listFind Γ.records s).getD []
/-- `enumtype_find_enumerator` -/
def Env.hasItem (Γ : Env) (en it : String) : Bool := (Γ.enumItems en).contains it

def findField : List Field → String → Option Field
  | [], _ => none
  | f :: r, x => if f.name = x then some f else findField r x

/-- `expr_set_comb_type_symtab` -/
def idComb (x : String) : Entry → Comb
  | .func ps rc r => ⟨.val (.func ps rc r), .temp⟩
  | .param c t => ⟨.val t, c.toCst⟩
  | .bind v ct => ⟨ct, if v then .var else .const⟩
  | .qual c => c
  | .forin c => c
  | .record => ⟨.recordId x, .temp⟩
  | .enum => ⟨.enumId x, .temp⟩

/-! ## types: resolution and comparison -/

mutual
/-- `param_check_type`: resolves record/enum names (error at the parameter's line) and the
DEFAULT constness of every nested parameter -/
def resolveTy (Γ : Env) : Ty → Except Diag Ty
  | .named ln s =>
    match Γ.lookup s with
    | none => .error ⟨ln, .undefType⟩
    | some .record => .ok (.record s)
    | some .enum => .ok (.enum s)
    | some _ => .error ⟨ln, .notAType⟩
  | .func ps rc r => do
    let ps' ← resolveTys Γ ps
    let r' ← resolveTy Γ r
    pure (.func ps' rc.normConst r')
  | .array n ec e => do
    let e' ← resolveTy Γ e
    pure (.array n ec.normVar e')
  | .tuple ms => do
    let ms' ← resolveTys Γ ms
    pure (.tuple ms')
  | .range n => .ok (.range n)
  | .slice n ec e => do
    let e' ← resolveTy Γ e
    pure (.slice n ec.normConst e')
  | .bool => .ok .bool
  | .int => .ok .int
  | .long => .ok .long
  | .float => .ok .float
  | .double => .ok .double
  | .char => .ok .char
  | .string => .ok .string
  | .record s => .ok (.record s)
  | .enum s => .ok (.enum s)
def resolveTys (Γ : Env) : TyList → Except Diag TyList
  | .nil => .ok .nil
  | .cons c t rest => do
    let t' ← resolveTy Γ t
    let rest' ← resolveTys Γ rest
    pure (.cons c.normConst t' rest')
end

mutual
/-- `param_cmp` (param.c).  C: there is NO case for `long` and none for `double`.  For two
function types: `func_cmp(one.params, one.ret, two.params, two.ret)` (as repaired in 186dfd9;
the pinned tree passed `one.ret` twice — `Lemmas/CheckRules.lean`, `paramCmpPinned`) -/
def paramCmp (constCmp : Bool) (c1 : PCst) (t1 : Ty) (c2 : PCst) (t2 : Ty) : Bool :=
  if constCmp && c1 != c2 then false else
  match t1, t2 with
  | .bool, .bool => true
  | .int, .int => true
  | .float, .float => true
  | .char, .char => true
  | .string, .string => true
  | .array n1 ec1 e1, .array n2 ec2 e2 => n1 == n2 && paramCmp false ec1 e1 ec2 e2
  | .range n1, .range n2 => n1 == n2
  | .slice n1 ec1 e1, .slice n2 ec2 e2 => n1 == n2 && paramCmp false ec1 e1 ec2 e2
  | .enum a, .enum b => a == b
  | .record a, .record b => a == b
  | .func ps1 rc1 r1, .func ps2 rc2 r2 => paramListCmp true ps1 ps2 && paramCmp false rc1 r1 rc2 r2
  | .tuple ms1, .tuple ms2 => paramListCmp false ms1 ms2
  | _, _ => false
/-- `param_list_cmp` -/
def paramListCmp (constCmp : Bool) : TyList → TyList → Bool
  | .nil, .nil => true
  | .cons c1 t1 r1, .cons c2 t2 r2 => paramCmp constCmp c1 t1 c2 t2 && paramListCmp constCmp r1 r2
  | _, _ => false
end

/-- `func_cmp`: parameters with constness, results without -/
def funcCmp (ps1 : TyList) (rc1 : PCst) (r1 : Ty) (ps2 : TyList) (rc2 : PCst) (r2 : Ty) : Bool :=
  paramListCmp true ps1 ps2 && paramCmp false rc1 r1 rc2 r2

inductive CmpRes
  | ok
  /-- TYPECHECK_FAIL, with the message `param_expr_cmp` printed itself, if any -/
  | fail (d : Option Diag)

def isNum : Ty → Bool
  | .int | .long | .float | .double => true
  | _ => false

/-- `param_expr_cmp`: may a value of comb `c` (at line `eln`) be passed where `(pc, pt)` is
expected.  Numeric kinds convert into each other freely. -/
def paramExprCmp (constCmp : Bool) (pc : PCst) (pt : Ty) (eln : Ln) (c : Comb) : CmpRes :=
  if constCmp && pc == .var && c.cst == .const then .fail (some ⟨eln, .constToVarParam⟩) else
  match pt, c.ct with
  | .bool, .val .bool => .ok
  | .int, .val t => if isNum t then .ok else
      match t with
      | .enum _ => .ok          -- C: falls out of the chain, `return 0` = SUCC
      | _ => .fail (some ⟨eln, .paramKind⟩)
  | .long, .val t => if isNum t then .ok else .fail (some ⟨eln, .paramKind⟩)
  | .float, .val t => if isNum t then .ok else .fail (some ⟨eln, .paramKind⟩)
  | .double, .val t => if isNum t then .ok else .fail (some ⟨eln, .paramKind⟩)
  | .char, .val .char => .ok
  | .string, .val .string => .ok
  | .array n1 _ e1, .val (.array n2 ec2 e2) =>
      if n1 == n2 && paramCmp false ec2 e1 ec2 e2 then .ok else .fail none
  | .range n1, .val (.range n2) => if n1 == n2 then .ok else .fail none
  | .slice n1 _ e1, .val (.slice n2 ec2 e2) =>
      if n1 == n2 && paramCmp false ec2 e1 ec2 e2 then .ok else .fail none
  | .tuple ms1, .val (.tuple ms2) => if paramListCmp false ms1 ms2 then .ok else .fail none
  | .record a, .val (.record b) => if a == b then .ok else .fail none
  | .record a, .recordId b => if a == b then .ok else .fail none
  | .enum a, .val (.enum b) => if a == b then .ok else .fail none
  | .func ps1 rc1 r1, .val (.func ps2 rc2 r2) =>
      if funcCmp ps1 rc1 r1 ps2 rc2 r2 then .ok else .fail none
  | _, _ => .fail (some ⟨eln, .paramKind⟩)

def paramExprListGo (constCmp : Bool) : List (PCst × Ty) → List (Ln × Comb) → CmpRes
  | (pc, pt) :: ps, (eln, c) :: as =>
    match paramExprCmp constCmp pc pt eln c with
    | .ok => paramExprListGo constCmp ps as
    | r => r
  | _, _ => .ok

/-- `param_expr_list_cmp`: the count is compared first, silently -/
def paramExprListCmp (constCmp : Bool) (ps : List (PCst × Ty)) (as : List (Ln × Comb)) : CmpRes :=
  if ps.length != as.length then .fail none else paramExprListGo constCmp ps as

/-- turn a failed comparison into the first diagnostic: its own message, else the caller's -/
def CmpRes.toExcept (r : CmpRes) (dflt : Diag) : Except Diag Unit :=
  match r with
  | .ok => .ok ()
  | .fail (some d) => .error d
  | .fail none => .error dflt

/-! ## operators -/

/-- `expr_conv_basic_type`: int → long → float → double, the join of the two kinds -/
def convBasic : Ty → Ty → Option Ty
  | .int, .int => some .int
  | .int, .long => some .long
  | .int, .float => some .float
  | .int, .double => some .double
  | .long, .int => some .long
  | .long, .long => some .long
  | .long, .float => some .float
  | .long, .double => some .double
  | .float, .int => some .float
  | .float, .long => some .float
  | .float, .float => some .float
  | .float, .double => some .double
  | .double, .int => some .double
  | .double, .long => some .double
  | .double, .float => some .double
  | .double, .double => some .double
  | _, _ => none

/-- `expr_conv_enumtype` (any two enums, also different ones) -/
def convEnum : Ty → Ty → Bool
  | .int, .enum _ => true
  | .enum _, .int => true
  | .enum _, .enum _ => true
  | _, _ => false

/-- `expr_conv_string_type` -/
def convString : Ty → Ty → Bool
  | .string, .string => true
  | .string, t => isNum t || (match t with | .char => true | _ => false)
  | t, .string => isNum t || (match t with | .char => true | _ => false)
  | _, _ => false

def sameNumKind : Ty → Ty → Bool
  | .int, .int | .long, .long | .float, .float | .double, .double => true
  | _, _ => false

def intLong : Ty → Ty → Option Ty
  | .int, .int => some .int
  | .int, .long | .long, .int | .long, .long => some .long
  | _, _ => none

def binRule : BinOp → Rule
  | .add | .sub | .mul | .div => .arith
  | .mod => .modOp
  | .lt | .gt | .lte | .gte | .eq | .neq | .and | .or => .compare
  | .band | .bor | .bxor | .shl | .shr => .binOp

/-- result type of a binary operator on two VALUE types (`expr_*_check_type`) -/
def binTy (op : BinOp) (l r : Ty) : Option Ty :=
  match op with
  | .add | .sub =>
    match convBasic l r with
    | some t => some t
    | none =>
      if convEnum l r then some .int
      else if op == .add && convString l r then some .string
      else match l, r with
        | .array n1 _ e1, .array n2 ec2 e2 =>
            if n1 == n2 && sameNumKind e1 e2 then some (.array n2 ec2 e2) else none
        | _, _ => none
  | .mul =>
    match convBasic l r with
    | some t => some t
    | none =>
      if convEnum l r then some .int
      else match l, r with
        | .array n1 ec1 e1, .array n2 _ e2 =>
            -- matrix product: two-dimensional arrays of the same numeric kind
            if n1 == 2 && n2 == 2 && sameNumKind e1 e2 then some (.array n1 ec1 e1) else none
        | t, .array n2 ec2 e2 => if isNum t && isNum e2 then some (.array n2 ec2 e2) else none
        | _, _ => none
  | .div =>
    match convBasic l r with
    | some t => some t
    | none => if convEnum l r then some .int else none
  | .mod =>
    match intLong l r with
    | some t => some t
    | none => if convEnum l r then some .int else none
  | .lt | .gt | .lte | .gte =>
    if (convBasic l r).isSome || convEnum l r then some .bool
    else match l, r with
      | .char, .char => some .bool
      | _, _ => none
  | .eq | .neq =>
    match l, r with
    | .bool, .bool => some .bool
    | .char, .char => some .bool
    | .string, .string => some .bool
    | _, _ => if (convBasic l r).isSome || convEnum l r then some .bool else none
  | .and | .or =>
    match l, r with
    | .bool, .bool => some .bool
    | _, _ => none
  | .band | .bor | .bxor | .shl | .shr =>
    match intLong l r with
    | some t => some t
    | none => if convEnum l r then some .int else none

def unTy (op : UnOp) (t : Ty) : Option Ty :=
  match op, t with
  | .neg, .int => some .int
  | .neg, .long => some .long
  | .neg, .float => some .float
  | .neg, .double => some .double
  | .neg, .enum _ => some .int
  | .neg, .array n ec e => if isNum e then some (.array n ec e) else none
  | .not, .bool => some .bool
  | .bnot, .int => some .int
  | .bnot, .long => some .long
  | .bnot, .enum _ => some .int
  | _, _ => none

def unRule : UnOp → Rule
  | .neg => .negOp
  | .not => .notOp
  | .bnot => .binNot

/-- the type cells of `expr_ass_check_type` / `expr_conv_ass_type`: the result has the LEFT
kind (the cell (int, double), DOUBLE in the pinned tree, was repaired in 8e26181) -/
def assTy : CT → CT → Option CT
  | .val l, .val r =>
    match l, r with
    | .bool, .bool => some (.val .bool)
    | .char, .char => some (.val .char)
    | .int, .enum _ => some (.val .int)
    | .string, .string => some (.val .string)
    | .enum a, .enum b => if a == b then some (.val (.enum a)) else none
    | .record a, .record b => if a == b then some (.val (.record a)) else none
    | .func ps1 rc1 r1, .func ps2 rc2 r2 =>
        if funcCmp ps1 rc1 r1 ps2 rc2 r2 then some (.val (.func ps1 rc1 r1)) else none
    | .array n1 ec1 e1, .array n2 ec2 e2 =>
        if n1 == n2 && paramCmp false ec1 e1 ec2 e2 then some (.val (.array n1 ec1 e1)) else none
    | .tuple ms1, .tuple ms2 => if paramListCmp false ms1 ms2 then some (.val (.tuple ms1)) else none
    | .range n1, .range n2 => if n1 == n2 then some (.val (.range n1)) else none
    | .slice n1 ec1 e1, .slice n2 ec2 e2 =>
        if n1 == n2 && paramCmp false ec1 e1 ec2 e2 then some (.val (.slice n1 ec1 e1)) else none
    | l, r => if isNum l && isNum r then some (.val l) else none
  | .val (.record a), .recordId b => if a == b then some (.val (.record a)) else none
  | .recordId a, .val (.record b) => if a == b then some (.val (.record a)) else none
  | .recordId a, .recordId b => if a == b then some (.val (.record a)) else none
  | _, _ => none

/-- `expr_comb_cmp_and_set` (branches of a conditional, arms of a match): identical kinds only -/
def combCmp : CT → CT → Except Rule CT
  | .val l, .val r =>
    match l, r with
    | .bool, .bool => .ok (.val .bool)
    | .int, .int => .ok (.val .int)
    | .long, .long => .ok (.val .long)
    | .float, .float => .ok (.val .float)
    | .double, .double => .ok (.val .double)
    | .char, .char => .ok (.val .char)
    | .string, .string => .ok (.val .string)
    | .array n1 ec1 e1, .array n2 ec2 e2 =>
        if n1 == n2 && paramCmp false ec1 e1 ec2 e2 then .ok (.val (.array n1 ec1 e1))
        else .error .branchArrays
    -- as repaired in b996419 (the pinned tree read the CONDITION's comb here)
    | .range n1, .range n2 => if n1 == n2 then .ok (.val (.range n1)) else .error .branchRanges
    | .slice n1 ec1 e1, .slice n2 ec2 e2 =>
        if n1 == n2 && paramCmp false ec1 e1 ec2 e2 then .ok (.val (.slice n1 ec1 e1))
        else .error .branchSlices
    -- as repaired in b235435 (the pinned tree did not compare the member lists)
    | .tuple ms1, .tuple ms2 =>
        if paramListCmp false ms1 ms2 then .ok (.val (.tuple ms1)) else .error .condBranches
    | .func ps1 rc1 r1, .func ps2 rc2 r2 =>
        if funcCmp ps1 rc1 r1 ps2 rc2 r2 then .ok (.val (.func ps1 rc1 r1)) else .error .branchFuncs
    | .enum a, .enum b => if a == b then .ok (.val (.enum a)) else .error .condBranches
    | .record a, .record b => if a == b then .ok (.val (.record a)) else .error .condBranches
    | _, _ => .error .condBranches
  | .val (.record a), .recordId b => if a == b then .ok (.val (.record a)) else .error .condBranches
  | .recordId a, .val (.record b) => if a == b then .ok (.val (.record a)) else .error .condBranches
  | .recordId a, .recordId b => if a == b then .ok (.val (.record a)) else .error .condBranches
  | _, _ => .error .condBranches

def isBool : CT → Bool
  | .val .bool => true
  | _ => false

/-- `except_check_id` -/
def knownExceptions : List String :=
  ["index_out_of_bounds", "wrong_array_size", "division_by_zero", "invalid_domain", "overflow",
   "underflow", "inexact", "nil_pointer", "ffi_fail"]

/-- `except_check_id` fails -/
def unknownExc (name : String) : Bool := name != "" && !knownExceptions.contains name

/-- a `var` binding initialised with a CONST expression (`bind_check_type`) -/
def varOfConst (v : Bool) (c : Comb) : Bool := v && c.cst == .const

def isVarCst (c : Comb) : Bool := c.cst == .var

def lenNot1 {α} (l : List α) : Bool := l.length != 1

/-- `array_dims_check_type_expr`: int, float (converted) or enum index -/
def indexOk : CT → Bool
  | .val .int | .val .float | .val (.enum _) => true
  | _ => false

def checkIndices : List (Ln × Comb) → Except Diag Unit
  | [] => .ok ()
  | (ln, c) :: r => if indexOk c.ct then checkIndices r else .error ⟨ln, .derefIndex⟩

/-- `array_depth_list_well_formed` for a one-dimensional literal -/
def checkElems (ec : PCst) (et : Ty) : List (Ln × Comb) → Except Diag Unit
  | [] => .ok ()
  | (ln, c) :: r =>
    match paramExprCmp false ec et ln c with
    | .ok => checkElems ec et r
    | .fail (some d) => .error d
    | .fail none => .error ⟨ln, .arrayElem⟩

/-! ## array literal shape (tcheckarr.c) -/

/-- a node of `array_to_depth_list`: an element expression (line, comb) or a row with its
element count (`elements->count`, 0 for `[ ]`) -/
inductive Item
  | leaf (ln : Ln) (c : Comb)
  | sub (cnt : Nat)

/-- the nodes by distance from the literal: `levels[0]` are its own elements -/
abbrev Levels := List (List Item)

/-- breadth-first order = level-wise concatenation in source order -/
def zipLevels : Levels → Levels → Levels
  | [], b => b
  | a, [] => a
  | x :: a, y :: b => (x ++ y) :: zipLevels a b

/-- the nodes at the greatest distance, walked from the last to the first: elements are compared
with the declared element type, empty rows pass -/
def checkDeepest (ec : PCst) (et : Ty) : List Item → Except Diag Unit
  | [] => .ok ()
  | .leaf ln c :: r =>
    match paramExprCmp false ec et ln c with
    | .ok => checkDeepest ec et r
    | .fail (some d) => .error d
    | .fail none => .error ⟨ln, .arrayElem⟩
  | .sub _ :: r => checkDeepest ec et r

/-- the remaining nodes of a shallower level: rows with as many elements as the first one seen
(`first_comb_elems`); C: as repaired, an EMPTY row is compared too (seeds C01-6 / C12-7) -/
def checkRowsSame (n : Nat) : List Item → Except Diag Unit
  | [] => .ok ()
  | .leaf ln _ :: _ => .error ⟨ln, .arrayElem⟩
  | .sub m :: r => if m == n then checkRowsSame n r else .error ⟨0, .arrayShape⟩

/-- a shallower level, walked from the last node to the first -/
def checkRows : List Item → Except Diag Unit
  | [] => .ok ()
  | .leaf ln _ :: _ => .error ⟨ln, .arrayElem⟩
  | .sub n :: r => checkRowsSame n r

def checkShallow : List (List Item) → Except Diag Unit
  | [] => .ok ()
  | l :: r => do checkRows l.reverse; checkShallow r

/-- `array_depth_list_well_formed`: the depth list is walked from its tail (deepest level, last
node) to the head -/
def wellFormed (ec : PCst) (et : Ty) (lv : Levels) : Except Diag Unit :=
  match lv.reverse with
  | [] => .ok ()
  | deepest :: shallower => do
    checkDeepest ec et deepest.reverse
    checkShallow shallower

def lastIsSub : List Item → Bool
  | [] => false
  | [.sub _] => true
  | [.leaf _ _] => false
  | _ :: r => lastIsSub r

/-- `array_set_dims`: one dimension per level whose first visited node is a row, plus the literal -/
def dimsOf (lv : Levels) : Nat := (lv.filter lastIsSub).length + 1

/-! ## for-in, ranges, pipes -/

/-- `symtab_add_param_from_forin` after the one-dimension test of `expr_forin_check_type`: the
iterator of an ARRAY takes the constness of the array, that of a slice the constness of the
element type (the array's own constness is lost: known finding), that of a range is `let int` -/
def forinIter (c : Comb) : Option Comb :=
  match c.ct with
  | .val (.array n _ et) => if n == 1 then some ⟨.val et, c.cst⟩ else none
  | .val (.range n) => if n == 1 then some ⟨.val .int, .const⟩ else none
  | .val (.slice n ec et) => if n == 1 then some ⟨.val et, ec.toCst⟩ else none
  | _ => none

/-- `expr_qualifier_set_comb_type` -/
def qualIter (c : Comb) : Option Comb :=
  match c.ct with
  | .val (.array n ec et) => if n == 1 then some ⟨.val et, ec.toCst⟩ else none
  | .val (.range n) => if n == 1 then some ⟨.val .int, .temp⟩ else none
  | .val (.slice n ec et) => if n == 1 then some ⟨.val et, ec.toCst⟩ else none
  | _ => none

/-- a bound of a range: int or enum -/
def boundOk : CT → Bool
  | .val .int | .val (.enum _) => true
  | _ => false

/-- `param_list_expr_expr_list_cmp` (scalar pipe `l |> f(args)`, `const_cmp` on): the first
parameter against the piped value FIRST, then the counts, then the explicit arguments -/
def pipeCmp (ps : List (PCst × Ty)) (l : Ln × Comb) (as : List (Ln × Comb)) : CmpRes :=
  match ps with
  | [] => .fail none
  | (pc, pt) :: rest =>
    match paramExprCmp true pc pt l.1 l.2 with
    | .ok => if rest.length != as.length then .fail none else paramExprListGo true rest as
    | r => r

def pipeTupleGo : List (PCst × Ty) → List (PCst × Ty) → List (Ln × Comb) → CmpRes
  | (pc, pt) :: ps, (mc, mt) :: ms, as =>
    if paramCmp false pc pt mc mt then pipeTupleGo ps ms as else .fail none
  | ps, [], as => paramExprListGo false ps as
  | [], _ :: _, _ => .ok

/-- `param_list_param_list_expr_list_cmp` (tuple pipe `t |> f(args)`): C: every comparison is
made with `const_cmp = false` — `let` members reach `var` parameters (known finding) -/
def pipeTupleCmp (ps ms : List (PCst × Ty)) (as : List (Ln × Comb)) : CmpRes :=
  if ps.isEmpty then .fail none
  else if ps.length != ms.length + as.length then .fail none
  else pipeTupleGo ps ms as

/-- dereference of anything but a tuple (`expr_array_deref_*_check_type`), the indices checked -/
def derefComb (ln : Ln) (ca : Comb) (cs : List (Ln × Comb)) : Except Diag Comb :=
  match ca.ct with
  | .val (.array n ec et) =>
    if cs.length != n then .error ⟨ln, .derefDims⟩ else do
      checkIndices cs
      pure ⟨.val et, if ca.cst == .const then .const else ec.toCst⟩
  | .val (.slice n ec et) =>
    if cs.length != n then .error ⟨ln, .derefDims⟩ else do
      checkIndices cs
      pure ⟨.val et, if ca.cst == .const then .const else ec.toCst⟩
  | .val (.range n) =>
    -- C: the result is tagged COMB_TYPE_ARRAY (one dimension of `let int`)
    if cs.length != n then .error ⟨ln, .derefDims⟩ else do
      checkIndices cs
      pure ⟨.val (.array 1 .const .int), .temp⟩
  | .val .string =>
    if lenNot1 cs then .error ⟨ln, .derefDims⟩ else do
      checkIndices cs
      pure ⟨.val .char, .const⟩
  | _ => .error ⟨ln, .derefNonArray⟩

/-! ## function signatures -/

structure Sig where
  ps : List Param      -- resolved
  rc : PCst
  r : Ty

def paramTys : List Param → TyList
  | [] => .nil
  | p :: r => .cons p.cst p.ty (paramTys r)

def Sig.entry (s : Sig) : Entry := .func (paramTys s.ps) s.rc s.r

/-- `symtab_add_param_from_range_list` -/
def addBounds (Γ : Env) : List (Ln × String) → Except Diag Env
  | [] => .ok Γ
  | (ln, x) :: r => do
    let Γ' ← Γ.add ln x (.param .var .int)
    addBounds Γ' r

/-- `symtab_add_param_from_param_list` -/
def addParams (Γ : Env) : List Param → Except Diag Env
  | [] => .ok Γ
  | p :: r => do
    -- `symtab_add_param_from_basic_param`: a parameter without a name is not entered
    let Γ1 ← (if p.name = "" then .ok Γ else Γ.add p.ln p.name (.param p.cst p.ty))
    let Γ' ← addBounds Γ1 p.bnames
    addParams Γ' r

def resolveParams (Γ : Env) : List Param → Except Diag (List Param)
  | [] => .ok []
  | p :: r => do
    let t ← resolveTy Γ p.ty
    let r' ← resolveParams Γ r
    pure ({ p with cst := p.cst.normConst, ty := t } :: r')

/-- scope of a function: itself (if named), then its parameters -/
def funcScope0 (Γ : Env) (name : String) (self : Entry) (ps : List Param) : Except Diag Env :=
  let Γ0 := Γ.push (if name = "" then [] else [(name, self)])
  addParams Γ0 ps

/-- `func_decl_check_type`: own table, the function itself, the parameters (duplicates), then
`func_param_check_type` (parameter types, result type) -/
def declFunc (Γ : Env) (name : String) (ps : List Param) (rc : PCst) (rty : Ty) :
    Except Diag Sig := do
  let Γf ← funcScope0 Γ name (.func .nil .dflt .int) ps
  let ps' ← resolveParams Γf ps
  let r ← resolveTy Γf rty
  pure ⟨ps', rc.normConst, r⟩

/-- table in which body and catch clauses of a function are checked -/
def funcEnv (Γ : Env) (name : String) (s : Sig) : Env :=
  match funcScope0 Γ name s.entry s.ps with
  | .ok Γf => Γf
  | .error _ => Γ.push

/-- `symtab_add_func_from_func`: a function ITEM (top level or in a block) needs a name
(0b116cb: the NULL name used to be hashed) -/
def addFunc (Γ : Env) (ln : Ln) (name : String) (e : Entry) : Except Diag Env :=
  if name = "" then .error ⟨ln, .funcNoName⟩ else Γ.add ln name e

/-- first loop of `seq_list_check_type` over a run of functions: add to the enclosing table
(duplicate → error at the function), check the declaration -/
def declFuncs (Γ : Env) : FuncList → Except Diag (Env × List Sig)
  | .nil => .ok (Γ, [])
  | .cons f rest => do
    let Γ1 ← addFunc Γ f.ln f.name (.func .nil .dflt .int)
    let s ← declFunc Γ1 f.name f.params f.rc f.rty
    let Γ2 ← Γ.add f.ln f.name s.entry
    let (Γ3, ss) ← declFuncs Γ2 rest
    pure (Γ3, s :: ss)

/-! ## match helpers (tcmatch.c), on the guard list only -/

/-- `expr_match_guard_list_left_cmp`: every item guard names the enum of the matched value -/
def guardsSameEnum (en : String) : GuardList → Except Diag Unit
  | .nil => .ok ()
  | .cons (.item ln en' _ _) rest =>
    if en' == en then guardsSameEnum en rest else .error ⟨ln, .matchGuardDiffers⟩
  | .cons (.recd ln en' _ _ _) rest =>
    if en' == en then guardsSameEnum en rest else .error ⟨ln, .matchGuardDiffers⟩
  | .cons (.else_ _ _) rest => guardsSameEnum en rest

/-- `expr_match_gaurd_list_last_cnt > 0` -/
def hasElse : GuardList → Bool
  | .nil => false
  | .cons (.item _ _ _ _) rest => hasElse rest
  | .cons (.recd _ _ _ _ _) rest => hasElse rest
  | .cons (.else_ _ _) _ => true

/-- the enumerator `it` is marked by `expr_match_guard_list_mark_items` -/
def coversItem (it : String) : GuardList → Bool
  | .nil => false
  | .cons (.item _ _ it' _) rest => it' == it || coversItem it rest
  | .cons (.recd _ _ it' _ _) rest => it' == it || coversItem it rest
  | .cons (.else_ _ _) rest => coversItem it rest

/-- `expr_match_guard_list_right_cmp`: the first arm against each later one -/
def armsCmp (a : CT) : List Comb → Except Rule CT
  | [] => .ok a
  | [b] => combCmp a b.ct
  | b :: rest =>
    match combCmp a b.ct with
    | .ok _ => armsCmp a rest
    | .error r => .error r

/-- `expr_match_guard_list_exhaustive`: an `else` guard, or every enumerator marked -/
def exhaustive (Γ : Env) (en : String) (gs : GuardList) : Bool :=
  hasElse gs || (Γ.enumItems en).all (fun it => coversItem it gs)

/-! ### the same test as tcmatch.c computes it, on the `mark` flag of the enumerators

`enumerator.mark` lives in the enum DECLARATION: it is shared by every `match` over that enum in
the module.  `expr_match_guard_list_exhaustive`: a match with an `else` guard does not touch the
marks; one without clears the marks of the matched enum, marks the enumerators named by the
guards, tests that all are marked, and clears them again.  `Marks` = the set of (enum,
enumerator) whose flag is 1.  `exhaustiveM_fst` (Lemmas/CheckRules.lean): whatever marks earlier
matches left, the verdict is `exhaustive` — which is why `tc` can use the state-free test. -/

abbrev Marks := List (String × String)

/-- `expr_match_guard_unmark_items` -/
def unmarkEnum (m : Marks) (en : String) : Marks := m.filter (fun p => p.1 != en)

/-- `expr_match_guard_list_mark_items` -/
def markGuards (en : String) : GuardList → Marks → Marks
  | .nil, m => m
  | .cons (.item _ _ it _) rest, m => markGuards en rest ((en, it) :: m)
  | .cons (.recd _ _ it _ _) rest, m => markGuards en rest ((en, it) :: m)
  | .cons (.else_ _ _) rest, m => markGuards en rest m

/-- `expr_match_guard_are_all_mark_items` -/
def allMarked (en : String) (items : List String) (m : Marks) : Bool :=
  items.all (fun it => m.contains (en, it))

/-- `expr_match_guard_list_exhaustive` with the marks it finds and the marks it leaves -/
def exhaustiveM (Γ : Env) (en : String) (gs : GuardList) (m : Marks) : Bool × Marks :=
  if hasElse gs then (true, m)
  else
    let m2 := markGuards en gs (unmarkEnum m en)
    (allMarked en (Γ.enumItems en) m2, unmarkEnum m2 en)

/-- the marks after a sequence of earlier exhaustiveness checks (any enums, any guards) -/
def runMatches (Γ : Env) : List (String × GuardList) → Marks → Marks
  | [], m => m
  | (en, gs) :: rest, m => runMatches Γ rest (exhaustiveM Γ en gs m).2

/-- the enumerator field table: the fields of the record enumerator `en::it` are kept in
`Env.records` under the key `en::it` (no identifier contains `::`); `none` = a plain enumerator -/
def Env.enumRecFields (Γ : Env) (en it : String) : Option (List Field) :=
  listFind Γ.records (en ++ "::" ++ it)

/-- `expr_match_guard_record_check_type_n`: as many binds as the enumerator has fields (52cb4aa:
diagnosed without walking the missing list) -/
def guardBindsOk (Γ : Env) (ln : Ln) (en it : String) (binds : List (Ln × String)) : Except Diag Unit :=
  match Γ.enumRecFields en it with
  | none => if binds.isEmpty then .ok () else .error ⟨ln, .guardBinds⟩
  | some fs => if fs.length == binds.length then .ok () else .error ⟨ln, .guardBinds⟩

/-- `symtab_add_matchbind_from_matchbind_list`: each bind takes type and constness of its field -/
def addBinds (Γ : Env) : List (Ln × String) → List Field → Except Diag Env
  | (ln, x) :: bs, f :: fs => do
    let Γ' ← Γ.add ln x (.param f.cst f.ty)
    addBinds Γ' bs fs
  | _, _ => .ok Γ

/-- the table of the arm of a record guard: a new block with the binds (none: the same table) -/
def bindsEnv (Γ : Env) (en it : String) (binds : List (Ln × String)) : Except Diag Env :=
  if binds.isEmpty then .ok Γ else addBinds Γ.push binds ((Γ.enumRecFields en it).getD [])

/-- `expr_match_guard_item_check_type`: the guard `En::it` resolves (match guards, if-let) -/
def guardItemPre (Γ : Env) (ln : Ln) (en it : String) : Except Diag Unit :=
  match Γ.lookup en with
  | none => .error ⟨ln, .matchGuardEnum⟩
  | some .enum => if Γ.hasItem en it then .ok () else .error ⟨ln, .matchGuardItem⟩
  | some _ => .error ⟨ln, .matchGuardNotEnum⟩

/-! ## the checker -/

def litComb (t : Ty) : Except Diag Comb := .ok ⟨.val t, .temp⟩

/-- constness of an array literal.  C: `tcheckarr.c` stores the element's `param_const_type`
(DEFAULT=0, CONST=1, VAR=2) into a `comb_const_type` field (CONST=0, VAR=1, TEMP=2) without
conversion: `: let T` elements make the literal VAR, `: var T` / default make it TEMP.  (The
elements themselves keep their declared constness through `expr_set_comb_type`.) -/
def arrayLitCst : PCst → Cst
  | .const => .var
  | _ => .temp

mutual
/-- `expr_check_type` -/
def tc (Γ : Env) : Expr → Except Diag Comb
  | .litBool _ => litComb .bool
  | .litInt _ => litComb .int
  | .litLong _ => litComb .long
  | .litFloat _ => litComb .float
  | .litDouble _ => litComb .double
  | .litChar _ => litComb .char
  | .litString _ => litComb .string
  | .id ln x =>
    match Γ.lookup x with
    | none => .error ⟨ln, .undefId⟩
    | some e => .ok (idComb x e)
  | .enumVal ln e item => do
    let c ← tc Γ e
    match c.ct with
    | .enumId s =>
      if Γ.hasItem s item then pure ⟨.val (.enum s), .temp⟩
      else .error ⟨ln, .undefEnumItem⟩
    | _ => .error ⟨ln, .enumOnNonEnum⟩
  | .un ln op e => do
    let c ← tc Γ e
    match c.ct with
    | .val t =>
      match unTy op t with
      | some t' => pure ⟨.val t', .temp⟩
      | none => .error ⟨ln, unRule op⟩
    | _ => .error ⟨ln, unRule op⟩
  | .bin ln op l r => do
    let cl ← tc Γ l
    let cr ← tc Γ r
    match cl.ct, cr.ct with
    | .val tl, .val tr =>
      match binTy op tl tr with
      | some t => pure ⟨.val t, .temp⟩
      | none => .error ⟨ln, binRule op⟩
    | _, _ => .error ⟨ln, binRule op⟩
  | .sup _ e => tc Γ e
  | .cond ln c t e => do
    let cc ← tc Γ c
    let ct ← tc Γ t
    let ce ← tc Γ e
    if isBool cc.ct then
      match combCmp ct.ct ce.ct with
      | .ok t' => pure ⟨t', .temp⟩
      | .error r => .error ⟨ln, r⟩
    else .error ⟨ln, .condNotBool⟩
  | .ass ln l r => do
    let cl ← tc Γ l
    let cr ← tc Γ r
    if isVarCst cl then
      match assTy cl.ct cr.ct with
      | some t => pure ⟨t, cr.cst⟩
      | none => .error ⟨ln, .assignType⟩
    else .error ⟨ln, .assignConst⟩
  | .while_ ln c b => do
    let cc ← tc Γ c
    let _ ← tc Γ b
    if isBool cc.ct then pure ⟨.val .int, .const⟩ else .error ⟨ln, .whileNotBool⟩
  | .forIn ln x a b => do
    let ca ← tc Γ a
    match forinIter ca with
    | some it =>
      let _ ← tc (Γ.push [(x, .forin it)]) b
      pure ⟨.val .int, .temp⟩
    | none => .error ⟨ln, .forinNotArray⟩
  | .call ln f args => do
    let cf ← tc Γ f
    let cs ← tcArgs Γ args
    match cf.ct with
    | .val (.func ps rc r) =>
      (paramExprListCmp true ps.toList cs).toExcept ⟨ln, .callMismatch⟩
      pure ⟨.val r, rc.toCst⟩
    | .recordId s =>
      (paramExprListCmp false ((Γ.recordFields s).map fun f => (f.cst, f.ty)) cs).toExcept
        ⟨ln, .recordCreate⟩
      pure ⟨.val (.record s), .temp⟩
    | .val (.enum _) => .error ⟨ln, .enumCreate⟩
    | _ => .error ⟨ln, .notCallable⟩
  | .funcLit f => do
    -- `func_check_type` on a function that is in no enclosing table
    let s ← declFunc Γ f.name f.params f.rc f.rty
    tcRest (funcEnv Γ f.name s) s f
    pure ⟨.val (.func (paramTys s.ps) s.rc s.r), .temp⟩
  | .seq ln items => do
    let r ← tcSeq Γ.push items
    match r with
    | some c => pure c
    | none => .error ⟨ln, .seqLast⟩
  | .attr ln r fld => do
    let cr ← tc Γ r
    match cr.ct with
    | .val (.record s) =>
      match findField (Γ.recordFields s) fld with
      | some f => pure ⟨.val f.ty, f.cst.toCst⟩
      | none => .error ⟨ln, .undefAttr⟩
    | .recordId s =>
      match findField (Γ.recordFields s) fld with
      | some f => pure ⟨.val f.ty, f.cst.toCst⟩
      | none => .error ⟨ln, .undefAttr⟩
    | _ => .error ⟨ln, .attrNonRecord⟩
  | .match_ ln s gs => do
    let cs ← tc Γ s
    match cs.ct with
    | .val (.enum en) =>
      match gs with
      | .nil => pure ⟨.val (.enum en), .temp⟩   -- C: `match e { }`: no guard list, nothing checked
      | gs => do
        let arms ← tcGuards Γ gs
        -- `expr_match_guard_list_left_cmp`
        guardsSameEnum en gs
        -- `expr_match_guard_list_exhaustive`
        if exhaustive Γ en gs then
          -- `expr_match_guard_list_right_cmp`
          match arms with
          | [] => pure ⟨.val (.enum en), .temp⟩
          | a :: rest =>
            match armsCmp a.ct rest with
            | .ok t => pure ⟨t, .temp⟩
            | .error r => .error ⟨ln, r⟩
        else .error ⟨ln, .matchMissing⟩
    | _ => .error ⟨s.ln, .matchNotEnum⟩
  | .array _ elems ec ety => do
    let lv ← tcRows Γ elems
    let et ← resolveTy Γ ety
    -- C: `array_depth_list_well_formed` walks the depth list from the LAST node to the first, so
    -- the first diagnostic is about the last offending element of the deepest level
    wellFormed ec.normVar et lv
    pure ⟨.val (.array (dimsOf lv) ec.normVar et), arrayLitCst ec.normVar⟩
  | .sub elems => do
    -- only inside an array literal (grammar); there it is `tcRows` that looks at it
    let _ ← tcRows Γ elems
    pure ⟨.val .int, .temp⟩
  | .deref ln a idx => do
    let ca ← tc Γ a
    let cs ← tcArgs Γ idx
    match ca.ct with
    | .val (.tuple _) =>
      -- `expr_array_deref_touple_check_type`: a literal index is `Expr.proj`; anything else of
      -- int kind would have to be folded by the constant reducer (not modelled: "not proper")
      if lenNot1 cs then .error ⟨ln, .tupleDerefDims⟩
      else if cs.all (fun c => boundOk c.2.ct) then .error ⟨ln, .tupleIndexProper⟩
      else .error ⟨ln, .tupleDerefType⟩
    | _ => derefComb ln ca cs
  | .proj ln e iln i => do
    let c ← tc Γ e
    match c.ct with
    | .val (.tuple ms) =>
      match ms.get? i with
      | some (pc, t) => pure ⟨.val t, if c.cst == .const then .const else pc.toCst⟩
      | none => .error ⟨ln, .tupleIndex⟩
    | _ => derefComb ln c [(iln, ⟨.val .int, .temp⟩)]
  | .tuple ln elems ms => do
    let cs ← tcArgs Γ elems
    let ms' ← resolveTys Γ ms.defaultVar
    (paramExprListCmp false ms'.toList cs).toExcept ⟨ln, .tupleForm⟩
    pure ⟨.val (.tuple ms'), .temp⟩
  | .range _ bounds => do
    let n ← tcBounds Γ bounds
    pure ⟨.val (.range n), .temp⟩
  | .slice ln a bounds => do
    let ca ← tc Γ a
    let n ← tcBounds Γ bounds
    -- C: the slice is TEMP whatever the constness of the array (known finding)
    match ca.ct with
    | .val (.array m ec et) =>
      if m == n then pure ⟨.val (.slice m ec et), .temp⟩ else .error ⟨ln, .sliceDims⟩
    | .val (.range m) =>
      if m == n then pure ⟨.val (.range m), .temp⟩ else .error ⟨ln, .sliceDims⟩
    | .val (.slice m ec et) =>
      if m == n then pure ⟨.val (.slice m ec et), .temp⟩ else .error ⟨ln, .sliceDims⟩
    | .val .string =>
      if n == 1 then pure ⟨.val .string, .temp⟩ else .error ⟨ln, .sliceDims⟩
    | _ => .error ⟨ln, .derefNonArray⟩
  | .pipe ln l f args => do
    -- `expr_complr_check_type`
    let cl ← tc Γ l
    let cf ← tc Γ f
    let cs ← tcArgs Γ args
    match cf.ct with
    | .val (.func ps rc r) =>
      match cl.ct with
      | .val (.tuple ms) =>
        (pipeTupleCmp ps.toList ms.toList cs).toExcept ⟨ln, .callMismatch⟩
        pure ⟨.val r, rc.toCst⟩
      | _ =>
        (pipeCmp ps.toList (l.ln, cl) cs).toExcept ⟨ln, .callMismatch⟩
        pure ⟨.val r, rc.toCst⟩
    | _ => .error ⟨ln, .pipeNotFunc⟩
  | .ifLet ln gln en it e t f => do
    -- `iflet_check_type` (item guard), then `expr_comb_cmp_and_set` on the two branches
    let ce ← tc Γ e
    match ce.ct with
    | .val (.enum en') =>
      guardItemPre Γ gln en it
      let ct ← tc Γ t
      let cf ← tc Γ f
      if en' == en then
        match combCmp ct.ct cf.ct with
        | .ok t' => pure ⟨t', .temp⟩
        | .error r => .error ⟨ln, r⟩
      else .error ⟨ln, .matchGuardDiffers⟩
    | _ => .error ⟨e.ln, .matchNotEnum⟩
  | .ifLetRec ln gln en it binds e t f => do
    let ce ← tc Γ e
    match ce.ct with
    | .val (.enum en') =>
      guardItemPre Γ gln en it
      guardBindsOk Γ gln en it binds
      let Γb ← bindsEnv Γ en it binds
      let ct ← tc Γb t
      let cf ← tc Γ f
      if en' == en then
        match combCmp ct.ct cf.ct with
        | .ok t' => pure ⟨t', .temp⟩
        | .error r => .error ⟨ln, r⟩
      else .error ⟨ln, .matchGuardDiffers⟩
    | _ => .error ⟨e.ln, .matchNotEnum⟩
  | .ctor ln e it args => do
    -- `expr_call_check_type`, COMB_TYPE_ENUMTYPE: the callee `En::it`, then the arguments
    let ce ← tc Γ e
    match ce.ct with
    | .enumId s =>
      if Γ.hasItem s it then do
        let cs ← tcArgs Γ args
        match Γ.enumRecFields s it with
        | some fs =>
          (paramExprListCmp false (fs.map fun f => (f.cst, f.ty)) cs).toExcept ⟨ln, .enumCreate⟩
          pure ⟨.val (.enum s), .temp⟩
        | none => .error ⟨ln, .enumCreate⟩
      else .error ⟨ln, .undefEnumItem⟩
    | _ => .error ⟨ln, .enumOnNonEnum⟩
  | .listcomp ln e qs rc rty => do
    let Γq ← tcQuals Γ.push qs
    let ce ← tc Γq e
    let rt ← resolveTy Γq rty
    (paramExprCmp false rc.normVar rt e.ln ce).toExcept ⟨ln, .listcompRet⟩
    pure ⟨.val (.array 1 rc.normVar rt), .temp⟩
/-- `expr_list_check_type`, keeping each argument's line -/
def tcArgs (Γ : Env) : ExprList → Except Diag (List (Ln × Comb))
  | .nil => .ok []
  | .cons e rest => do
    let c ← tc Γ e
    let cs ← tcArgs Γ rest
    pure ((e.ln, c) :: cs)
/-- the elements of an array literal or of one of its rows, in source order (depth first, as
`expr_list_check_type` visits them), collected by distance -/
def tcRows (Γ : Env) : ExprList → Except Diag Levels
  | .nil => .ok []
  | .cons e rest => do
    let (i, below) ← (match e with
      | .sub es => do
        let lv ← tcRows Γ es
        pure (Item.sub es.length, lv)
      | e' => do
        let c ← tc Γ e'
        pure (Item.leaf e'.ln c, ([] : Levels)))
    let lr ← tcRows Γ rest
    pure (zipLevels ([i] :: below) lr)
/-- `expr_range_list_check_type`: per dimension both bounds are checked, then their kinds; the
number of dimensions -/
def tcBounds (Γ : Env) : ExprList → Except Diag Nat
  | .cons f (.cons t rest) => do
    let cf ← tc Γ f
    let ct ← tc Γ t
    if boundOk cf.ct then
      if boundOk ct.ct then do
        let n ← tcBounds Γ rest
        pure (n + 1)
      else .error ⟨t.ln, .rangeTo⟩
    else .error ⟨f.ln, .rangeFrom⟩
  | _ => .ok 0
/-- `seq_list_check_type`; the result is the comb of the last item when it is an expression -/
def tcSeq (Γ : Env) : SeqList → Except Diag (Option Comb)
  | .nil => .ok none
  | .cons (.bind ln v x e) rest => do
    let c ← tc Γ e
    if varOfConst v c then .error ⟨ln, .varFromConst⟩ else do
      let Γ' ← Γ.add ln x (.bind v c.ct)
      tcSeq Γ' rest
  | .cons (.funcs fs) rest => do
    let (Γ', ss) ← declFuncs Γ fs
    tcBodies Γ' fs ss
    tcSeq Γ' rest
  | .cons (.expr e) rest => do
    let c ← tc Γ e
    let r ← tcSeq Γ rest
    match rest with
    | .nil => pure (some c)
    | _ => pure r
/-- second loop of `seq_list_check_type`: the bodies, in order -/
def tcBodies (Γ : Env) : FuncList → List Sig → Except Diag Unit
  | .cons f rest, s :: ss => do
    tcRest (funcEnv Γ f.name s) s f
    tcBodies Γ rest ss
  | _, _ => .ok ()
/-- `func_native_check_type` after the declaration, in the function's own table `Γf`: catch
clauses FIRST, then the body, then the result type (`const_cmp` on) -/
def tcRest (Γf : Env) (s : Sig) : Func → Except Diag Unit
  | .mk ln _ _ _ _ body excs => do
    tcExcs Γf s excs
    let c ← tc Γf body
    (paramExprCmp true s.rc s.r body.ln c).toExcept ⟨ln, .returnType⟩
/-- `except_check_type` for each clause in source order -/
def tcExcs (Γf : Env) (s : Sig) : ExcList → Except Diag Unit
  | .nil => .ok ()
  | .cons (.mk ln name body) rest => do
    if unknownExc name then .error ⟨ln, .unknownException⟩ else do
      let c ← tc Γf body
      (paramExprCmp false s.rc s.r body.ln c).toExcept ⟨ln, .returnType⟩
      tcExcs Γf s rest
/-- `expr_match_guard_list_check_type`: resolve each guard, check each arm; combs of the arms -/
def tcGuards (Γ : Env) : GuardList → Except Diag (List Comb)
  | .nil => .ok []
  | .cons (.item ln en it e) rest => do
    match Γ.lookup en with
    | none => .error ⟨ln, .matchGuardEnum⟩
    | some .enum =>
      if Γ.hasItem en it then
        let c ← tc Γ e
        let cs ← tcGuards Γ rest
        pure (c :: cs)
      else .error ⟨ln, .matchGuardItem⟩
    | some _ => .error ⟨ln, .matchGuardNotEnum⟩
  | .cons (.recd ln en it binds e) rest => do
    guardItemPre Γ ln en it
    guardBindsOk Γ ln en it binds
    let Γb ← bindsEnv Γ en it binds
    let c ← tc Γb e
    let cs ← tcGuards Γ rest
    pure (c :: cs)
  | .cons (.else_ _ e) rest => do
    let c ← tc Γ e
    let cs ← tcGuards Γ rest
    pure (c :: cs)
/-- `qualifier_list_check_type` -/
def tcQuals (Γ : Env) : QualList → Except Diag Env
  | .nil => .ok Γ
  | .cons (.gen ln x e) rest => do
    let c ← tc Γ e
    match qualIter c with
    | some it =>
      let Γ' ← Γ.add ln x (.qual it)
      tcQuals Γ' rest
    | none => .error ⟨ln, .genNotArray⟩
  | .cons (.filter ln e) rest => do
    let c ← tc Γ e
    if isBool c.ct then tcQuals Γ rest else .error ⟨ln, .filterNotBool⟩
end

/-! ## programs -/

inductive Decl
  | enum (ln : Ln) (name : String) (items : List (Ln × String))
  /-- the enumerator `it` of the enum `en` (declared by the `enum` entry before) is a record -/
  | enumRec (ln : Ln) (en it : String) (fields : List Param)
  | record (ln : Ln) (name : String) (fields : List Param)

structure Prog where
  decls : List Decl
  funcs : FuncList

def fty (ps : List Ty) (r : Ty) : Entry :=
  .func (TyList.ofList (ps.map fun t => (PCst.const, t))) .var r

/-- `libmath_add_funcs`: the built-in functions (results are `var`); the `c_*_ptr` family is
outside the core -/
def stdlibScope : Scope :=
  [("sin", fty [.float] .float), ("cos", fty [.float] .float), ("tan", fty [.float] .float),
   ("exp", fty [.float] .float), ("log", fty [.float] .float), ("sqrt", fty [.float] .float),
   ("pow", fty [.float, .float] .float), ("str", fty [.int] .string), ("strf", fty [.float] .string),
   ("ord", fty [.char] .int), ("chr", fty [.int] .char), ("read", fty [] .int),
   ("printb", fty [.bool] .bool), ("print", fty [.int] .int), ("printl", fty [.long] .long),
   ("printf", fty [.float] .float), ("printd", fty [.double] .double), ("printc", fty [.char] .char),
   ("prints", fty [.string] .string), ("length", fty [.string] .int), ("assert", fty [.bool] .bool),
   ("assertf", fty [.float, .float] .int)]

def dupItem : List (Ln × String) → List String → Except Diag Unit
  | [], _ => .ok ()
  | (ln, x) :: r, seen => if seen.contains x then .error ⟨ln, .redefined⟩ else dupItem r (x :: seen)

/-- `never_add_decl_list`: names of enums and records into the module table; duplicates are
looked up through the whole chain (`SYMTAB_LOOKUP_GLOBAL`, so also against the built-ins) -/
def addDecls (Γ : Env) : List Decl → Except Diag Env
  | [] => .ok Γ
  | .enum ln name items :: rest => do
    dupItem items []
    match Γ.lookup name with
    | some _ => .error ⟨ln, .redefined⟩
    | none =>
      let Γ' ← Γ.add ln name .enum
      addDecls Γ' rest
  | .enumRec _ _ _ _ :: rest => addDecls Γ rest
  | .record ln name _ :: rest =>
    match Γ.lookup name with
    | some _ => .error ⟨ln, .redefined⟩
    | none => do
      let Γ' ← Γ.add ln name .record
      addDecls Γ' rest

def dupField : List Param → List String → Except Diag Unit
  | [], _ => .ok ()
  | p :: r, seen => if seen.contains p.name then .error ⟨p.ln, .redefined⟩ else dupField r (p.name :: seen)

def resolveFields (Γ : Env) : List Param → Except Diag (List Field)
  | [] => .ok []
  | p :: r => do
    let t ← resolveTy Γ p.ty
    let r' ← resolveFields Γ r
    pure (⟨p.name, p.cst.normVar, t⟩ :: r')

/-- `decl_list_check_type`: field types of every record (names may refer to later records) -/
def checkDecls (Γ : Env) : List Decl → Except Diag (List (String × List Field))
  | [] => .ok []
  | .enum _ _ _ :: rest => checkDecls Γ rest
  | .enumRec _ en it fields :: rest => do
    let fs ← resolveFields Γ fields
    dupField fields []
    let r ← checkDecls Γ rest
    pure ((en ++ "::" ++ it, fs) :: r)
  | .record _ name fields :: rest => do
    let fs ← resolveFields Γ fields
    dupField fields []
    let r ← checkDecls Γ rest
    pure ((name, fs) :: r)

def enumsOf : List Decl → List (String × List String)
  | [] => []
  | .enum _ name items :: rest => (name, items.map (·.2)) :: enumsOf rest
  | .record _ _ _ :: rest => enumsOf rest
  | .enumRec _ _ _ _ :: rest => enumsOf rest

/-- table in which the module's functions are declared (after the declarations) -/
def globalEnv (ds : List Decl) : Except Diag Env := do
  let Γ0 : Env := ⟨enumsOf ds, [], [[], stdlibScope]⟩
  let Γ1 ← addDecls Γ0 ds
  let recs ← checkDecls Γ1 ds
  pure { Γ1 with records := recs }

/-- `main_check_type`: a main unit of declarations only has nothing to compile to (bad4904:
the NULL list used to be walked); the diagnostic is at line 1 -/
def nonEmptyUnit : FuncList → Except Diag Unit
  | .nil => .error ⟨1, .emptyMainUnit⟩
  | .cons _ _ => .ok ()

/-- `never_check_type` for the main module: the first diagnostic, or `ok` -/
def check (p : Prog) : Except Diag Unit := do
  let Γ ← globalEnv p.decls
  nonEmptyUnit p.funcs
  let (Γ', ss) ← declFuncs Γ p.funcs
  tcBodies Γ' p.funcs ss

end Never.Tc
