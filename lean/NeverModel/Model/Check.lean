/-!
# M-Src / check — executable model of the static rules of `front/typecheck.c` (+ tcmatch.c,
tcforin.c, tcheckarr.c, param.c `param_cmp`) for a CORE of the language.

`check : Prog → Except Diag Unit` returns the FIRST diagnostic the real type checker prints
(line + rule kind) or `ok`.  The C checker keeps going after an error (types become
`COMB_TYPE_ERR`); everything it prints after the first `error:` line is a consequence of the
first one or of a second fault, and is not modelled — the `Except` monad stops at the first.
The traversal ORDER is the C order (e.g. catch clauses before the body, all declarations of a
run of consecutive functions before their bodies), because it decides which error is first.

Tie: correspondence (`checks/c06_corr.py`, `harness/h_tc.c`, `Driver/TcDrv.lean`).
Mirrors the pinned code INCLUDING its oddities, each marked `-- C:`.

Outside the core (not modelled): modules/`use`, FFI (`extern`), tuples, ranges, slices,
multi-dimensional and `{[n]}` arrays, `nil`, `c_ptr`, enum records (`Some { v : int; }`) with
`match` binds and `if let`, explicit enumerator values, `do while`, C-style `for`, `|>`,
top-level `let`/`var`, later passes (constant reduction "division by zero", emitter errors).
-/
namespace Never.Tc

abbrev Ln := Nat

/-- `param_const_type`: as written in the source -/
inductive PCst | dflt | const | var
  deriving DecidableEq, Repr, Inhabited

/-- `comb_const_type` -/
inductive Cst | const | var | temp
  deriving DecidableEq, Repr, Inhabited

/-- `param_expr_cmp_init`: DEFAULT and CONST give CONST, VAR gives VAR -/
def PCst.toCst : PCst → Cst
  | .var => .var
  | _ => .const

/-- `param_check_type`: DEFAULT becomes CONST (function parameters, results, nested ones) -/
def PCst.normConst : PCst → PCst
  | .dflt => .const
  | c => c

/-- array element / record field / comprehension result: DEFAULT becomes VAR -/
def PCst.normVar : PCst → PCst
  | .dflt => .var
  | c => c

mutual
/-- `param` as a type.  `named` is what the parser builds for `x : R` (PARAM_RECORD with an
unresolved name, line of the parameter); `param_enum_record_check_type` turns it into `record`
or `enum` -/
inductive Ty
  | bool | int | long | float | double | char | string
  | named (ln : Ln) (s : String)
  | record (s : String)
  | enum (s : String)
  | func (ps : TyList) (rc : PCst) (r : Ty)
  | array (ec : PCst) (e : Ty)
inductive TyList
  | nil
  | cons (c : PCst) (t : Ty) (rest : TyList)
end

instance : Inhabited Ty := ⟨.int⟩

def TyList.toList : TyList → List (PCst × Ty)
  | .nil => []
  | .cons c t r => (c, t) :: r.toList

def TyList.ofList : List (PCst × Ty) → TyList
  | [] => .nil
  | (c, t) :: r => .cons c t (TyList.ofList r)

def TyList.length : TyList → Nat
  | .nil => 0
  | .cons _ _ r => r.length + 1

/-- `comb_type` of a checked expression (without `COMB_TYPE_ERR`: the model stops before) -/
inductive CT
  | val (t : Ty)
  | recordId (s : String)
  | enumId (s : String)

structure Comb where
  ct : CT
  cst : Cst

structure Param where
  ln : Ln
  name : String
  cst : PCst
  ty : Ty

inductive Rule
  | undefId | undefAttr | attrNonRecord | undefEnumItem | enumOnNonEnum
  | undefType | notAType | redefined
  | assignConst | assignType | varFromConst
  | callMismatch | paramKind | constToVarParam | recordCreate | enumCreate | notCallable
  | arith | modOp | compare | notOp | negOp | binNot | binOp
  | condNotBool | whileNotBool | condBranches | branchArrays | branchFuncs
  | returnType
  | matchNotEnum | matchExprNotEnum | matchGuardEnum | matchGuardItem | matchGuardNotEnum
  | matchGuardDiffers | matchMissing
  | unknownException
  | arrayElem | derefDims | derefIndex | derefNonArray
  | genNotArray | filterNotBool | listcompRet | forinNotArray
  | seqLast
  deriving DecidableEq, Repr, Inhabited

structure Diag where
  line : Ln
  rule : Rule
  deriving DecidableEq, Repr

inductive UnOp | neg | not | bnot
  deriving DecidableEq, Repr

inductive BinOp
  | add | sub | mul | div | mod | lt | gt | lte | gte | eq | neq | and | or
  | band | bor | bxor | shl | shr
  deriving DecidableEq, Repr

mutual
inductive Expr
  | litBool (ln : Ln) | litInt (ln : Ln) | litLong (ln : Ln) | litFloat (ln : Ln)
  | litDouble (ln : Ln) | litChar (ln : Ln) | litString (ln : Ln)
  | id (ln : Ln) (x : String)
  | enumVal (ln : Ln) (e : Expr) (item : String)
  | un (ln : Ln) (op : UnOp) (e : Expr)
  | bin (ln : Ln) (op : BinOp) (l r : Expr)
  | sup (ln : Ln) (e : Expr)
  | cond (ln : Ln) (c t e : Expr)
  | ass (ln : Ln) (l r : Expr)
  | while_ (ln : Ln) (c b : Expr)
  | forIn (ln : Ln) (x : String) (a b : Expr)
  | call (ln : Ln) (f : Expr) (args : ExprList)
  | funcLit (f : Func)
  | seq (ln : Ln) (items : SeqList)
  | attr (ln : Ln) (r : Expr) (fld : String)
  | match_ (ln : Ln) (s : Expr) (gs : GuardList)
  | array (ln : Ln) (elems : ExprList) (ec : PCst) (ety : Ty)
  | deref (ln : Ln) (a : Expr) (idx : ExprList)
  | listcomp (ln : Ln) (e : Expr) (qs : QualList) (rc : PCst) (rty : Ty)
inductive ExprList
  | nil
  | cons (e : Expr) (rest : ExprList)
inductive SeqItem
  | bind (ln : Ln) (isVar : Bool) (x : String) (e : Expr)
  /-- a maximal run of consecutive functions (grouped by the reader) -/
  | funcs (fs : FuncList)
  | expr (e : Expr)
inductive SeqList
  | nil
  | cons (i : SeqItem) (rest : SeqList)
inductive Guard
  | item (ln : Ln) (en : String) (it : String) (e : Expr)
  | else_ (ln : Ln) (e : Expr)
inductive GuardList
  | nil
  | cons (g : Guard) (rest : GuardList)
inductive Qual
  | gen (ln : Ln) (x : String) (e : Expr)
  | filter (ln : Ln) (e : Expr)
inductive QualList
  | nil
  | cons (q : Qual) (rest : QualList)
/-- `func name(params) -> rc rty body excs`; `name = ""` for an anonymous literal -/
inductive Func
  | mk (ln : Ln) (name : String) (params : List Param) (rc : PCst) (rty : Ty) (body : Expr)
       (excs : ExcList)
inductive FuncList
  | nil
  | cons (f : Func) (rest : FuncList)
/-- `catch (name) body` / `catch body` (`name = ""`) -/
inductive Exc
  | mk (ln : Ln) (name : String) (body : Expr)
inductive ExcList
  | nil
  | cons (x : Exc) (rest : ExcList)
end

instance : Inhabited Expr := ⟨.litInt 0⟩

/-- `expr->line_no` as the parser sets it (a function literal has none: 0) -/
def Expr.ln : Expr → Ln
  | .litBool l | .litInt l | .litLong l | .litFloat l | .litDouble l | .litChar l
  | .litString l => l
  | .id l _ | .enumVal l _ _ | .un l _ _ | .bin l _ _ _ | .sup l _ | .cond l _ _ _
  | .ass l _ _ | .while_ l _ _ | .forIn l _ _ _ | .call l _ _ | .seq l _ | .attr l _ _
  | .match_ l _ _ | .array l _ _ _ | .deref l _ _ | .listcomp l _ _ _ _ => l
  | .funcLit _ => 0

def Func.ln : Func → Ln | .mk l _ _ _ _ _ _ => l
def Func.name : Func → String | .mk _ n _ _ _ _ _ => n
def Func.params : Func → List Param | .mk _ _ p _ _ _ _ => p
def Func.rc : Func → PCst | .mk _ _ _ c _ _ _ => c
def Func.rty : Func → Ty | .mk _ _ _ _ t _ _ => t
def Func.body : Func → Expr | .mk _ _ _ _ _ b _ => b
def Func.excs : Func → ExcList | .mk _ _ _ _ _ _ x => x

/-! ## symbol tables -/

inductive Entry
  | func (ps : TyList) (rc : PCst) (r : Ty)
  | param (c : PCst) (t : Ty)
  | bind (isVar : Bool) (ct : CT)
  | qual (c : Comb)
  | forin (c : Comb)
  | record
  | enum

abbrev Scope := List (String × Entry)

structure Field where
  name : String
  cst : PCst
  ty : Ty

/-- `symtab` chain (innermost first) + the global declarations reached through pointers
(`comb_enumtype`, `comb_record`), which no local name can shadow -/
structure Env where
  enums : List (String × List String)
  records : List (String × List Field)
  scopes : List Scope

def Scope.find (s : Scope) (x : String) : Option Entry :=
  match s with
  | [] => none
  | (y, e) :: r => if y = x then some e else Scope.find r x

def lookupScopes : List Scope → String → Option Entry
  | [], _ => none
  | s :: r, x =>
    match s.find x with
    | some e => some e
    | none => lookupScopes r x

/-- `symtab_lookup(tab, id, SYMTAB_LOOKUP_GLOBAL)` -/
def Env.lookup (Γ : Env) (x : String) : Option Entry := lookupScopes Γ.scopes x

def Env.push (Γ : Env) (s : Scope := []) : Env := { Γ with scopes := s :: Γ.scopes }

/-- `symtab_add_*_from_*`: `SYMTAB_LOOKUP_BLOCK` duplicate test in the innermost table only -/
def Env.add (Γ : Env) (ln : Ln) (x : String) (e : Entry) : Except Diag Env :=
  match Γ.scopes with
  | [] => .ok { Γ with scopes := [[(x, e)]] }
  | s :: r =>
    match s.find x with
    | some _ => .error ⟨ln, .redefined⟩
    | none => .ok { Γ with scopes := ((x, e) :: s) :: r }

def listFind {α} (l : List (String × α)) (x : String) : Option α :=
  match l with
  | [] => none
  | (y, a) :: r => if y = x then some a else listFind r x

def Env.enumItems (Γ : Env) (s : String) : List String := (listFind Γ.enums s).getD []
def Env.recordFields (Γ : Env) (s : String) : List Field := (listFind Γ.records s).getD []
/-- `enumtype_find_enumerator` -/
def Env.hasItem (Γ : Env) (en it : String) : Bool := (Γ.enumItems en).contains it

def findField : List Field → String → Option Field
  | [], _ => none
  | f :: r, x => if f.name = x then some f else findField r x

/-- `expr_set_comb_type_symtab` -/
def idComb (x : String) : Entry → Comb
  | .func ps rc r => ⟨.val (.func ps rc r), .temp⟩
  | .param c t => ⟨.val t, c.toCst⟩
  | .bind v ct => ⟨ct, if v then .var else .const⟩
  | .qual c => c
  | .forin c => c
  | .record => ⟨.recordId x, .temp⟩
  | .enum => ⟨.enumId x, .temp⟩

/-! ## types: resolution and comparison -/

mutual
/-- `param_check_type`: resolves record/enum names (error at the parameter's line) and the
DEFAULT constness of every nested parameter -/
def resolveTy (Γ : Env) : Ty → Except Diag Ty
  | .named ln s =>
    match Γ.lookup s with
    | none => .error ⟨ln, .undefType⟩
    | some .record => .ok (.record s)
    | some .enum => .ok (.enum s)
    | some _ => .error ⟨ln, .notAType⟩
  | .func ps rc r => do
    let ps' ← resolveTys Γ ps
    let r' ← resolveTy Γ r
    pure (.func ps' rc.normConst r')
  | .array ec e => do
    let e' ← resolveTy Γ e
    pure (.array ec.normVar e')
  | .bool => .ok .bool
  | .int => .ok .int
  | .long => .ok .long
  | .float => .ok .float
  | .double => .ok .double
  | .char => .ok .char
  | .string => .ok .string
  | .record s => .ok (.record s)
  | .enum s => .ok (.enum s)
def resolveTys (Γ : Env) : TyList → Except Diag TyList
  | .nil => .ok .nil
  | .cons c t rest => do
    let t' ← resolveTy Γ t
    let rest' ← resolveTys Γ rest
    pure (.cons c.normConst t' rest')
end

mutual
/-- `param_cmp` (param.c).  C: there is NO case for `long` and none for `double`.  For two
function types: `func_cmp(one.params, one.ret, two.params, two.ret)` (as repaired in 186dfd9;
the pinned tree passed `one.ret` twice — `Lemmas/CheckRules.lean`, `paramCmpPinned`) -/
def paramCmp (constCmp : Bool) (c1 : PCst) (t1 : Ty) (c2 : PCst) (t2 : Ty) : Bool :=
  if constCmp && c1 != c2 then false else
  match t1, t2 with
  | .bool, .bool => true
  | .int, .int => true
  | .float, .float => true
  | .char, .char => true
  | .string, .string => true
  | .array ec1 e1, .array ec2 e2 => paramCmp false ec1 e1 ec2 e2
  | .enum a, .enum b => a == b
  | .record a, .record b => a == b
  | .func ps1 rc1 r1, .func ps2 rc2 r2 => paramListCmp true ps1 ps2 && paramCmp false rc1 r1 rc2 r2
  | _, _ => false
/-- `param_list_cmp` -/
def paramListCmp (constCmp : Bool) : TyList → TyList → Bool
  | .nil, .nil => true
  | .cons c1 t1 r1, .cons c2 t2 r2 => paramCmp constCmp c1 t1 c2 t2 && paramListCmp constCmp r1 r2
  | _, _ => false
end

/-- `func_cmp`: parameters with constness, results without -/
def funcCmp (ps1 : TyList) (rc1 : PCst) (r1 : Ty) (ps2 : TyList) (rc2 : PCst) (r2 : Ty) : Bool :=
  paramListCmp true ps1 ps2 && paramCmp false rc1 r1 rc2 r2

inductive CmpRes
  | ok
  /-- TYPECHECK_FAIL, with the message `param_expr_cmp` printed itself, if any -/
  | fail (d : Option Diag)

def isNum : Ty → Bool
  | .int | .long | .float | .double => true
  | _ => false

/-- `param_expr_cmp`: may a value of comb `c` (at line `eln`) be passed where `(pc, pt)` is
expected.  Numeric kinds convert into each other freely. -/
def paramExprCmp (constCmp : Bool) (pc : PCst) (pt : Ty) (eln : Ln) (c : Comb) : CmpRes :=
  if constCmp && pc == .var && c.cst == .const then .fail (some ⟨eln, .constToVarParam⟩) else
  match pt, c.ct with
  | .bool, .val .bool => .ok
  | .int, .val t => if isNum t then .ok else
      match t with
      | .enum _ => .ok          -- C: falls out of the chain, `return 0` = SUCC
      | _ => .fail (some ⟨eln, .paramKind⟩)
  | .long, .val t => if isNum t then .ok else .fail (some ⟨eln, .paramKind⟩)
  | .float, .val t => if isNum t then .ok else .fail (some ⟨eln, .paramKind⟩)
  | .double, .val t => if isNum t then .ok else .fail (some ⟨eln, .paramKind⟩)
  | .char, .val .char => .ok
  | .string, .val .string => .ok
  | .array _ e1, .val (.array ec2 e2) => if paramCmp false ec2 e1 ec2 e2 then .ok else .fail none
  | .record a, .val (.record b) => if a == b then .ok else .fail none
  | .record a, .recordId b => if a == b then .ok else .fail none
  | .enum a, .val (.enum b) => if a == b then .ok else .fail none
  | .func ps1 rc1 r1, .val (.func ps2 rc2 r2) =>
      if funcCmp ps1 rc1 r1 ps2 rc2 r2 then .ok else .fail none
  | _, _ => .fail (some ⟨eln, .paramKind⟩)

def paramExprListGo (constCmp : Bool) : List (PCst × Ty) → List (Ln × Comb) → CmpRes
  | (pc, pt) :: ps, (eln, c) :: as =>
    match paramExprCmp constCmp pc pt eln c with
    | .ok => paramExprListGo constCmp ps as
    | r => r
  | _, _ => .ok

/-- `param_expr_list_cmp`: the count is compared first, silently -/
def paramExprListCmp (constCmp : Bool) (ps : List (PCst × Ty)) (as : List (Ln × Comb)) : CmpRes :=
  if ps.length != as.length then .fail none else paramExprListGo constCmp ps as

/-- turn a failed comparison into the first diagnostic: its own message, else the caller's -/
def CmpRes.toExcept (r : CmpRes) (dflt : Diag) : Except Diag Unit :=
  match r with
  | .ok => .ok ()
  | .fail (some d) => .error d
  | .fail none => .error dflt

/-! ## operators -/

/-- `expr_conv_basic_type`: int → long → float → double, the join of the two kinds -/
def convBasic : Ty → Ty → Option Ty
  | .int, .int => some .int
  | .int, .long => some .long
  | .int, .float => some .float
  | .int, .double => some .double
  | .long, .int => some .long
  | .long, .long => some .long
  | .long, .float => some .float
  | .long, .double => some .double
  | .float, .int => some .float
  | .float, .long => some .float
  | .float, .float => some .float
  | .float, .double => some .double
  | .double, .int => some .double
  | .double, .long => some .double
  | .double, .float => some .double
  | .double, .double => some .double
  | _, _ => none

/-- `expr_conv_enumtype` (any two enums, also different ones) -/
def convEnum : Ty → Ty → Bool
  | .int, .enum _ => true
  | .enum _, .int => true
  | .enum _, .enum _ => true
  | _, _ => false

/-- `expr_conv_string_type` -/
def convString : Ty → Ty → Bool
  | .string, .string => true
  | .string, t => isNum t || (match t with | .char => true | _ => false)
  | t, .string => isNum t || (match t with | .char => true | _ => false)
  | _, _ => false

def sameNumKind : Ty → Ty → Bool
  | .int, .int | .long, .long | .float, .float | .double, .double => true
  | _, _ => false

def intLong : Ty → Ty → Option Ty
  | .int, .int => some .int
  | .int, .long | .long, .int | .long, .long => some .long
  | _, _ => none

def binRule : BinOp → Rule
  | .add | .sub | .mul | .div => .arith
  | .mod => .modOp
  | .lt | .gt | .lte | .gte | .eq | .neq | .and | .or => .compare
  | .band | .bor | .bxor | .shl | .shr => .binOp

/-- result type of a binary operator on two VALUE types (`expr_*_check_type`) -/
def binTy (op : BinOp) (l r : Ty) : Option Ty :=
  match op with
  | .add | .sub =>
    match convBasic l r with
    | some t => some t
    | none =>
      if convEnum l r then some .int
      else if op == .add && convString l r then some .string
      else match l, r with
        | .array _ e1, .array ec2 e2 => if sameNumKind e1 e2 then some (.array ec2 e2) else none
        | _, _ => none
  | .mul =>
    match convBasic l r with
    | some t => some t
    | none =>
      if convEnum l r then some .int
      else match l, r with
        | t, .array ec2 e2 => if isNum t && isNum e2 then some (.array ec2 e2) else none
        | _, _ => none
  | .div =>
    match convBasic l r with
    | some t => some t
    | none => if convEnum l r then some .int else none
  | .mod =>
    match intLong l r with
    | some t => some t
    | none => if convEnum l r then some .int else none
  | .lt | .gt | .lte | .gte =>
    if (convBasic l r).isSome || convEnum l r then some .bool
    else match l, r with
      | .char, .char => some .bool
      | _, _ => none
  | .eq | .neq =>
    match l, r with
    | .bool, .bool => some .bool
    | .char, .char => some .bool
    | .string, .string => some .bool
    | _, _ => if (convBasic l r).isSome || convEnum l r then some .bool else none
  | .and | .or =>
    match l, r with
    | .bool, .bool => some .bool
    | _, _ => none
  | .band | .bor | .bxor | .shl | .shr =>
    match intLong l r with
    | some t => some t
    | none => if convEnum l r then some .int else none

def unTy (op : UnOp) (t : Ty) : Option Ty :=
  match op, t with
  | .neg, .int => some .int
  | .neg, .long => some .long
  | .neg, .float => some .float
  | .neg, .double => some .double
  | .neg, .enum _ => some .int
  | .neg, .array ec e => if isNum e then some (.array ec e) else none
  | .not, .bool => some .bool
  | .bnot, .int => some .int
  | .bnot, .long => some .long
  | .bnot, .enum _ => some .int
  | _, _ => none

def unRule : UnOp → Rule
  | .neg => .negOp
  | .not => .notOp
  | .bnot => .binNot

/-- the type cells of `expr_ass_check_type` / `expr_conv_ass_type`: the result has the LEFT
kind (the cell (int, double), DOUBLE in the pinned tree, was repaired in 8e26181) -/
def assTy : CT → CT → Option CT
  | .val l, .val r =>
    match l, r with
    | .bool, .bool => some (.val .bool)
    | .char, .char => some (.val .char)
    | .int, .enum _ => some (.val .int)
    | .string, .string => some (.val .string)
    | .enum a, .enum b => if a == b then some (.val (.enum a)) else none
    | .record a, .record b => if a == b then some (.val (.record a)) else none
    | .func ps1 rc1 r1, .func ps2 rc2 r2 =>
        if funcCmp ps1 rc1 r1 ps2 rc2 r2 then some (.val (.func ps1 rc1 r1)) else none
    | .array ec1 e1, .array ec2 e2 =>
        if paramCmp false ec1 e1 ec2 e2 then some (.val (.array ec1 e1)) else none
    | l, r => if isNum l && isNum r then some (.val l) else none
  | .val (.record a), .recordId b => if a == b then some (.val (.record a)) else none
  | .recordId a, .val (.record b) => if a == b then some (.val (.record a)) else none
  | .recordId a, .recordId b => if a == b then some (.val (.record a)) else none
  | _, _ => none

/-- `expr_comb_cmp_and_set` (branches of a conditional, arms of a match): identical kinds only -/
def combCmp : CT → CT → Except Rule CT
  | .val l, .val r =>
    match l, r with
    | .bool, .bool => .ok (.val .bool)
    | .int, .int => .ok (.val .int)
    | .long, .long => .ok (.val .long)
    | .float, .float => .ok (.val .float)
    | .double, .double => .ok (.val .double)
    | .char, .char => .ok (.val .char)
    | .string, .string => .ok (.val .string)
    | .array ec1 e1, .array ec2 e2 =>
        if paramCmp false ec1 e1 ec2 e2 then .ok (.val (.array ec1 e1)) else .error .branchArrays
    | .func ps1 rc1 r1, .func ps2 rc2 r2 =>
        if funcCmp ps1 rc1 r1 ps2 rc2 r2 then .ok (.val (.func ps1 rc1 r1)) else .error .branchFuncs
    | .enum a, .enum b => if a == b then .ok (.val (.enum a)) else .error .condBranches
    | .record a, .record b => if a == b then .ok (.val (.record a)) else .error .condBranches
    | _, _ => .error .condBranches
  | .val (.record a), .recordId b => if a == b then .ok (.val (.record a)) else .error .condBranches
  | .recordId a, .val (.record b) => if a == b then .ok (.val (.record a)) else .error .condBranches
  | .recordId a, .recordId b => if a == b then .ok (.val (.record a)) else .error .condBranches
  | _, _ => .error .condBranches

def isBool : CT → Bool
  | .val .bool => true
  | _ => false

/-- `except_check_id` -/
def knownExceptions : List String :=
  ["index_out_of_bounds", "wrong_array_size", "division_by_zero", "invalid_domain", "overflow",
   "underflow", "inexact", "nil_pointer", "ffi_fail"]

/-- `except_check_id` fails -/
def unknownExc (name : String) : Bool := name != "" && !knownExceptions.contains name

/-- a `var` binding initialised with a CONST expression (`bind_check_type`) -/
def varOfConst (v : Bool) (c : Comb) : Bool := v && c.cst == .const

def isVarCst (c : Comb) : Bool := c.cst == .var

def lenNot1 {α} (l : List α) : Bool := l.length != 1

/-- `array_dims_check_type_expr`: int, float (converted) or enum index -/
def indexOk : CT → Bool
  | .val .int | .val .float | .val (.enum _) => true
  | _ => false

def checkIndices : List (Ln × Comb) → Except Diag Unit
  | [] => .ok ()
  | (ln, c) :: r => if indexOk c.ct then checkIndices r else .error ⟨ln, .derefIndex⟩

/-- `array_depth_list_well_formed` for a one-dimensional literal -/
def checkElems (ec : PCst) (et : Ty) : List (Ln × Comb) → Except Diag Unit
  | [] => .ok ()
  | (ln, c) :: r =>
    match paramExprCmp false ec et ln c with
    | .ok => checkElems ec et r
    | .fail (some d) => .error d
    | .fail none => .error ⟨ln, .arrayElem⟩

/-! ## function signatures -/

structure Sig where
  ps : List Param      -- resolved
  rc : PCst
  r : Ty

def paramTys : List Param → TyList
  | [] => .nil
  | p :: r => .cons p.cst p.ty (paramTys r)

def Sig.entry (s : Sig) : Entry := .func (paramTys s.ps) s.rc s.r

/-- `symtab_add_param_from_param_list` -/
def addParams (Γ : Env) : List Param → Except Diag Env
  | [] => .ok Γ
  | p :: r => do
    let Γ' ← Γ.add p.ln p.name (.param p.cst p.ty)
    addParams Γ' r

def resolveParams (Γ : Env) : List Param → Except Diag (List Param)
  | [] => .ok []
  | p :: r => do
    let t ← resolveTy Γ p.ty
    let r' ← resolveParams Γ r
    pure ({ p with cst := p.cst.normConst, ty := t } :: r')

/-- scope of a function: itself (if named), then its parameters -/
def funcScope0 (Γ : Env) (name : String) (self : Entry) (ps : List Param) : Except Diag Env :=
  let Γ0 := Γ.push (if name = "" then [] else [(name, self)])
  addParams Γ0 ps

/-- `func_decl_check_type`: own table, the function itself, the parameters (duplicates), then
`func_param_check_type` (parameter types, result type) -/
def declFunc (Γ : Env) (name : String) (ps : List Param) (rc : PCst) (rty : Ty) :
    Except Diag Sig := do
  let Γf ← funcScope0 Γ name (.func .nil .dflt .int) ps
  let ps' ← resolveParams Γf ps
  let r ← resolveTy Γf rty
  pure ⟨ps', rc.normConst, r⟩

/-- table in which body and catch clauses of a function are checked -/
def funcEnv (Γ : Env) (name : String) (s : Sig) : Env :=
  match funcScope0 Γ name s.entry s.ps with
  | .ok Γf => Γf
  | .error _ => Γ.push

/-- first loop of `seq_list_check_type` over a run of functions: add to the enclosing table
(duplicate → error at the function), check the declaration -/
def declFuncs (Γ : Env) : FuncList → Except Diag (Env × List Sig)
  | .nil => .ok (Γ, [])
  | .cons f rest => do
    let Γ1 ← Γ.add f.ln f.name (.func .nil .dflt .int)
    let s ← declFunc Γ1 f.name f.params f.rc f.rty
    let Γ2 ← Γ.add f.ln f.name s.entry
    let (Γ3, ss) ← declFuncs Γ2 rest
    pure (Γ3, s :: ss)

/-! ## match helpers (tcmatch.c), on the guard list only -/

/-- `expr_match_guard_list_left_cmp`: every item guard names the enum of the matched value -/
def guardsSameEnum (en : String) : GuardList → Except Diag Unit
  | .nil => .ok ()
  | .cons (.item ln en' _ _) rest =>
    if en' == en then guardsSameEnum en rest else .error ⟨ln, .matchGuardDiffers⟩
  | .cons (.else_ _ _) rest => guardsSameEnum en rest

/-- `expr_match_gaurd_list_last_cnt > 0` -/
def hasElse : GuardList → Bool
  | .nil => false
  | .cons (.item _ _ _ _) rest => hasElse rest
  | .cons (.else_ _ _) _ => true

/-- the enumerator `it` is marked by `expr_match_guard_list_mark_items` -/
def coversItem (it : String) : GuardList → Bool
  | .nil => false
  | .cons (.item _ _ it' _) rest => it' == it || coversItem it rest
  | .cons (.else_ _ _) rest => coversItem it rest

/-- `expr_match_guard_list_right_cmp`: the first arm against each later one -/
def armsCmp (a : CT) : List Comb → Except Rule CT
  | [] => .ok a
  | [b] => combCmp a b.ct
  | b :: rest =>
    match combCmp a b.ct with
    | .ok _ => armsCmp a rest
    | .error r => .error r

/-- `expr_match_guard_list_exhaustive`: an `else` guard, or every enumerator marked -/
def exhaustive (Γ : Env) (en : String) (gs : GuardList) : Bool :=
  hasElse gs || (Γ.enumItems en).all (fun it => coversItem it gs)

/-! ## the checker -/

def litComb (t : Ty) : Except Diag Comb := .ok ⟨.val t, .temp⟩

/-- constness of an array literal.  C: `tcheckarr.c` stores the element's `param_const_type`
(DEFAULT=0, CONST=1, VAR=2) into a `comb_const_type` field (CONST=0, VAR=1, TEMP=2) without
conversion: `: let T` elements make the literal VAR, `: var T` / default make it TEMP.  (The
elements themselves keep their declared constness through `expr_set_comb_type`.) -/
def arrayLitCst : PCst → Cst
  | .const => .var
  | _ => .temp

mutual
/-- `expr_check_type` -/
def tc (Γ : Env) : Expr → Except Diag Comb
  | .litBool _ => litComb .bool
  | .litInt _ => litComb .int
  | .litLong _ => litComb .long
  | .litFloat _ => litComb .float
  | .litDouble _ => litComb .double
  | .litChar _ => litComb .char
  | .litString _ => litComb .string
  | .id ln x =>
    match Γ.lookup x with
    | none => .error ⟨ln, .undefId⟩
    | some e => .ok (idComb x e)
  | .enumVal ln e item => do
    let c ← tc Γ e
    match c.ct with
    | .enumId s =>
      if Γ.hasItem s item then pure ⟨.val (.enum s), .temp⟩
      else .error ⟨ln, .undefEnumItem⟩
    | _ => .error ⟨ln, .enumOnNonEnum⟩
  | .un ln op e => do
    let c ← tc Γ e
    match c.ct with
    | .val t =>
      match unTy op t with
      | some t' => pure ⟨.val t', .temp⟩
      | none => .error ⟨ln, unRule op⟩
    | _ => .error ⟨ln, unRule op⟩
  | .bin ln op l r => do
    let cl ← tc Γ l
    let cr ← tc Γ r
    match cl.ct, cr.ct with
    | .val tl, .val tr =>
      match binTy op tl tr with
      | some t => pure ⟨.val t, .temp⟩
      | none => .error ⟨ln, binRule op⟩
    | _, _ => .error ⟨ln, binRule op⟩
  | .sup _ e => tc Γ e
  | .cond ln c t e => do
    let cc ← tc Γ c
    let ct ← tc Γ t
    let ce ← tc Γ e
    if isBool cc.ct then
      match combCmp ct.ct ce.ct with
      | .ok t' => pure ⟨t', .temp⟩
      | .error r => .error ⟨ln, r⟩
    else .error ⟨ln, .condNotBool⟩
  | .ass ln l r => do
    let cl ← tc Γ l
    let cr ← tc Γ r
    if isVarCst cl then
      match assTy cl.ct cr.ct with
      | some t => pure ⟨t, cr.cst⟩
      | none => .error ⟨ln, .assignType⟩
    else .error ⟨ln, .assignConst⟩
  | .while_ ln c b => do
    let cc ← tc Γ c
    let _ ← tc Γ b
    if isBool cc.ct then pure ⟨.val .int, .const⟩ else .error ⟨ln, .whileNotBool⟩
  | .forIn ln x a b => do
    let ca ← tc Γ a
    match ca.ct with
    | .val (.array _ et) =>
      let _ ← tc (Γ.push [(x, .forin ⟨.val et, ca.cst⟩)]) b
      pure ⟨.val .int, .temp⟩
    | _ => .error ⟨ln, .forinNotArray⟩
  | .call ln f args => do
    let cf ← tc Γ f
    let cs ← tcArgs Γ args
    match cf.ct with
    | .val (.func ps rc r) =>
      (paramExprListCmp true ps.toList cs).toExcept ⟨ln, .callMismatch⟩
      pure ⟨.val r, rc.toCst⟩
    | .recordId s =>
      (paramExprListCmp false ((Γ.recordFields s).map fun f => (f.cst, f.ty)) cs).toExcept
        ⟨ln, .recordCreate⟩
      pure ⟨.val (.record s), .temp⟩
    | .val (.enum _) => .error ⟨ln, .enumCreate⟩
    | _ => .error ⟨ln, .notCallable⟩
  | .funcLit f => do
    -- `func_check_type` on a function that is in no enclosing table
    let s ← declFunc Γ f.name f.params f.rc f.rty
    tcRest (funcEnv Γ f.name s) s f
    pure ⟨.val (.func (paramTys s.ps) s.rc s.r), .temp⟩
  | .seq ln items => do
    let r ← tcSeq Γ.push items
    match r with
    | some c => pure c
    | none => .error ⟨ln, .seqLast⟩
  | .attr ln r fld => do
    let cr ← tc Γ r
    match cr.ct with
    | .val (.record s) =>
      match findField (Γ.recordFields s) fld with
      | some f => pure ⟨.val f.ty, f.cst.toCst⟩
      | none => .error ⟨ln, .undefAttr⟩
    | .recordId s =>
      match findField (Γ.recordFields s) fld with
      | some f => pure ⟨.val f.ty, f.cst.toCst⟩
      | none => .error ⟨ln, .undefAttr⟩
    | _ => .error ⟨ln, .attrNonRecord⟩
  | .match_ ln s gs => do
    let cs ← tc Γ s
    match cs.ct with
    | .val (.enum en) =>
      match gs with
      | .nil => pure ⟨.val (.enum en), .temp⟩   -- C: `match e { }`: no guard list, nothing checked
      | gs => do
        let arms ← tcGuards Γ gs
        -- `expr_match_guard_list_left_cmp`
        guardsSameEnum en gs
        -- `expr_match_guard_list_exhaustive`
        if exhaustive Γ en gs then
          -- `expr_match_guard_list_right_cmp`
          match arms with
          | [] => pure ⟨.val (.enum en), .temp⟩
          | a :: rest =>
            match armsCmp a.ct rest with
            | .ok t => pure ⟨t, .temp⟩
            | .error r => .error ⟨ln, r⟩
        else .error ⟨ln, .matchMissing⟩
    | _ => .error ⟨s.ln, .matchNotEnum⟩
  | .array _ elems ec ety => do
    let cs ← tcArgs Γ elems
    let et ← resolveTy Γ ety
    -- C: `array_to_depth_list` walks the elements from the LAST to the first, so the first
    -- diagnostic of `array_depth_list_well_formed` is about the last offending element
    checkElems ec.normVar et cs.reverse
    pure ⟨.val (.array ec.normVar et), arrayLitCst ec.normVar⟩
  | .deref ln a idx => do
    let ca ← tc Γ a
    let cs ← tcArgs Γ idx
    match ca.ct with
    | .val (.array ec et) =>
      if lenNot1 cs then .error ⟨ln, .derefDims⟩ else do
        checkIndices cs
        pure ⟨.val et, if ca.cst == .const then .const else ec.toCst⟩
    | .val .string =>
      if lenNot1 cs then .error ⟨ln, .derefDims⟩ else do
        checkIndices cs
        pure ⟨.val .char, .const⟩
    | _ => .error ⟨ln, .derefNonArray⟩
  | .listcomp ln e qs rc rty => do
    let Γq ← tcQuals Γ.push qs
    let ce ← tc Γq e
    let rt ← resolveTy Γq rty
    (paramExprCmp false rc.normVar rt e.ln ce).toExcept ⟨ln, .listcompRet⟩
    pure ⟨.val (.array rc.normVar rt), .temp⟩
/-- `expr_list_check_type`, keeping each argument's line -/
def tcArgs (Γ : Env) : ExprList → Except Diag (List (Ln × Comb))
  | .nil => .ok []
  | .cons e rest => do
    let c ← tc Γ e
    let cs ← tcArgs Γ rest
    pure ((e.ln, c) :: cs)
/-- `seq_list_check_type`; the result is the comb of the last item when it is an expression -/
def tcSeq (Γ : Env) : SeqList → Except Diag (Option Comb)
  | .nil => .ok none
  | .cons (.bind ln v x e) rest => do
    let c ← tc Γ e
    if varOfConst v c then .error ⟨ln, .varFromConst⟩ else do
      let Γ' ← Γ.add ln x (.bind v c.ct)
      tcSeq Γ' rest
  | .cons (.funcs fs) rest => do
    let (Γ', ss) ← declFuncs Γ fs
    tcBodies Γ' fs ss
    tcSeq Γ' rest
  | .cons (.expr e) rest => do
    let c ← tc Γ e
    let r ← tcSeq Γ rest
    match rest with
    | .nil => pure (some c)
    | _ => pure r
/-- second loop of `seq_list_check_type`: the bodies, in order -/
def tcBodies (Γ : Env) : FuncList → List Sig → Except Diag Unit
  | .cons f rest, s :: ss => do
    tcRest (funcEnv Γ f.name s) s f
    tcBodies Γ rest ss
  | _, _ => .ok ()
/-- `func_native_check_type` after the declaration, in the function's own table `Γf`: catch
clauses FIRST, then the body, then the result type (`const_cmp` on) -/
def tcRest (Γf : Env) (s : Sig) : Func → Except Diag Unit
  | .mk ln _ _ _ _ body excs => do
    tcExcs Γf s excs
    let c ← tc Γf body
    (paramExprCmp true s.rc s.r body.ln c).toExcept ⟨ln, .returnType⟩
/-- `except_check_type` for each clause in source order -/
def tcExcs (Γf : Env) (s : Sig) : ExcList → Except Diag Unit
  | .nil => .ok ()
  | .cons (.mk ln name body) rest => do
    if unknownExc name then .error ⟨ln, .unknownException⟩ else do
      let c ← tc Γf body
      (paramExprCmp false s.rc s.r body.ln c).toExcept ⟨ln, .returnType⟩
      tcExcs Γf s rest
/-- `expr_match_guard_list_check_type`: resolve each guard, check each arm; combs of the arms -/
def tcGuards (Γ : Env) : GuardList → Except Diag (List Comb)
  | .nil => .ok []
  | .cons (.item ln en it e) rest => do
    match Γ.lookup en with
    | none => .error ⟨ln, .matchGuardEnum⟩
    | some .enum =>
      if Γ.hasItem en it then
        let c ← tc Γ e
        let cs ← tcGuards Γ rest
        pure (c :: cs)
      else .error ⟨ln, .matchGuardItem⟩
    | some _ => .error ⟨ln, .matchGuardNotEnum⟩
  | .cons (.else_ _ e) rest => do
    let c ← tc Γ e
    let cs ← tcGuards Γ rest
    pure (c :: cs)
/-- `qualifier_list_check_type` -/
def tcQuals (Γ : Env) : QualList → Except Diag Env
  | .nil => .ok Γ
  | .cons (.gen ln x e) rest => do
    let c ← tc Γ e
    match c.ct with
    | .val (.array ec et) =>
      let Γ' ← Γ.add ln x (.qual ⟨.val et, ec.toCst⟩)
      tcQuals Γ' rest
    | _ => .error ⟨ln, .genNotArray⟩
  | .cons (.filter ln e) rest => do
    let c ← tc Γ e
    if isBool c.ct then tcQuals Γ rest else .error ⟨ln, .filterNotBool⟩
end

/-! ## programs -/

inductive Decl
  | enum (ln : Ln) (name : String) (items : List (Ln × String))
  | record (ln : Ln) (name : String) (fields : List Param)

structure Prog where
  decls : List Decl
  funcs : FuncList

def fty (ps : List Ty) (r : Ty) : Entry :=
  .func (TyList.ofList (ps.map fun t => (PCst.const, t))) .var r

/-- `libmath_add_funcs`: the built-in functions (results are `var`); the `c_*_ptr` family is
outside the core -/
def stdlibScope : Scope :=
  [("sin", fty [.float] .float), ("cos", fty [.float] .float), ("tan", fty [.float] .float),
   ("exp", fty [.float] .float), ("log", fty [.float] .float), ("sqrt", fty [.float] .float),
   ("pow", fty [.float, .float] .float), ("str", fty [.int] .string), ("strf", fty [.float] .string),
   ("ord", fty [.char] .int), ("chr", fty [.int] .char), ("read", fty [] .int),
   ("printb", fty [.bool] .bool), ("print", fty [.int] .int), ("printl", fty [.long] .long),
   ("printf", fty [.float] .float), ("printd", fty [.double] .double), ("printc", fty [.char] .char),
   ("prints", fty [.string] .string), ("length", fty [.string] .int), ("assert", fty [.bool] .bool),
   ("assertf", fty [.float, .float] .int)]

def dupItem : List (Ln × String) → List String → Except Diag Unit
  | [], _ => .ok ()
  | (ln, x) :: r, seen => if seen.contains x then .error ⟨ln, .redefined⟩ else dupItem r (x :: seen)

/-- `never_add_decl_list`: names of enums and records into the module table; duplicates are
looked up through the whole chain (`SYMTAB_LOOKUP_GLOBAL`, so also against the built-ins) -/
def addDecls (Γ : Env) : List Decl → Except Diag Env
  | [] => .ok Γ
  | .enum ln name items :: rest => do
    dupItem items []
    match Γ.lookup name with
    | some _ => .error ⟨ln, .redefined⟩
    | none =>
      let Γ' ← Γ.add ln name .enum
      addDecls Γ' rest
  | .record ln name _ :: rest =>
    match Γ.lookup name with
    | some _ => .error ⟨ln, .redefined⟩
    | none => do
      let Γ' ← Γ.add ln name .record
      addDecls Γ' rest

def dupField : List Param → List String → Except Diag Unit
  | [], _ => .ok ()
  | p :: r, seen => if seen.contains p.name then .error ⟨p.ln, .redefined⟩ else dupField r (p.name :: seen)

def resolveFields (Γ : Env) : List Param → Except Diag (List Field)
  | [] => .ok []
  | p :: r => do
    let t ← resolveTy Γ p.ty
    let r' ← resolveFields Γ r
    pure (⟨p.name, p.cst.normVar, t⟩ :: r')

/-- `decl_list_check_type`: field types of every record (names may refer to later records) -/
def checkDecls (Γ : Env) : List Decl → Except Diag (List (String × List Field))
  | [] => .ok []
  | .enum _ _ _ :: rest => checkDecls Γ rest
  | .record _ name fields :: rest => do
    let fs ← resolveFields Γ fields
    dupField fields []
    let r ← checkDecls Γ rest
    pure ((name, fs) :: r)

def enumsOf : List Decl → List (String × List String)
  | [] => []
  | .enum _ name items :: rest => (name, items.map (·.2)) :: enumsOf rest
  | .record _ _ _ :: rest => enumsOf rest

/-- table in which the module's functions are declared (after the declarations) -/
def globalEnv (ds : List Decl) : Except Diag Env := do
  let Γ0 : Env := ⟨enumsOf ds, [], [[], stdlibScope]⟩
  let Γ1 ← addDecls Γ0 ds
  let recs ← checkDecls Γ1 ds
  pure { Γ1 with records := recs }

/-- `never_check_type` for the main module: the first diagnostic, or `ok` -/
def check (p : Prog) : Except Diag Unit := do
  let Γ ← globalEnv p.decls
  let (Γ', ss) ← declFuncs Γ p.funcs
  tcBodies Γ' p.funcs ss

end Never.Tc
