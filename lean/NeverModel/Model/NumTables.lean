/-
The tables regenerated from /repo's C source (NeverModel/Gen/*.lean, written by gen/numtab.py on
every check run) assembled into one `Tables` value.  Data only.
-/
import NeverModel.Model.CExpr
import NeverModel.Gen.VmArith
import NeverModel.Gen.ConstRed
import NeverModel.Gen.ConvMatrix
import NeverModel.Gen.EmitSelect
namespace Never.NumTables
open Never.CExpr

def T : Tables :=
  { vmRows := Never.Gen.VmArith.rows, opcodes := Never.Gen.VmArith.opcodes, assOpcodes := Never.Gen.VmArith.assOpcodes,
    foldRows := Never.Gen.ConstRed.rows,
    basic := Never.Gen.ConvMatrix.basic, ass := Never.Gen.ConvMatrix.ass, enumtype := Never.Gen.ConvMatrix.enumtype,
    param := Never.Gen.ConvMatrix.param, convComb := Never.Gen.ConvMatrix.convComb,
    rules := Never.Gen.EmitSelect.rules, convOpcode := Never.Gen.EmitSelect.convOpcode }

end Never.NumTables
