/-!
# M-Diag — the three pieces of *logic* behind "the compiler is total" (C05)

Core Lean only (linked into `nmdrv`).  Mirrors, line by line:

* `back/utils.c` `print_msg`: the buffer arithmetic of the 1024-byte diagnostic buffer and the
  growth of the message array;
* `front/scanner.l`: the `use` stack (`use_stack[MAX_USE_DEPTH]`, `use_stack_ptr`), the `<USE>`
  rule, the `<<EOF>>` rule, `scanner_destroy`, and the module table (`moduletab`) as a set of names;
* `back/nev.c` `nev_compile` / `nev_compile_prog` / `nev_compile_prog_modules`: the stage pipeline
  as a short-circuiting fold over per-stage results.
-/
namespace Never.Diag

/-! ## 1. `print_msg` -/

/-- `#define MAX_MSG_SIZE 1024` -/
def MAX_MSG_SIZE : Nat := 1024

/-- number of characters `%d` prints for an `int` -/
def decLen (line : Int) : Nat :=
  (if line < 0 then 1 else 0) + (Nat.toDigits 10 line.natAbs).length

/-- length of `"%s:%d: %s: "` for a file name of `F` characters and a type word of `T` characters
(`"error"` = 5, `"warning"` = 7) -/
def prefixLen (F : Nat) (line : Int) (T : Nat) : Nat := F + 1 + decLen line + 2 + T + 2

/-- an inclusive range of byte offsets, relative to `msg_buf[0]` -/
structure Range where
  lo : Nat
  hi : Nat
deriving Repr, DecidableEq

/-- `snprintf(buf + off, n, …)` whose formatted output has `len` characters: C writes
`min(len, n-1)` characters and a NUL, nothing when `n = 0`; it *returns* `len` -/
def snprintfWrites (off n len : Nat) : List Range :=
  if n = 0 then [] else [⟨off, off + min len (n - 1)⟩]

/-- which size the second call passes.  `full` is the pinned text
`vsnprintf(msg_buf + msg_len, MAX_MSG_SIZE, …)`; `remaining` is `MAX_MSG_SIZE - msg_len`
(evaluated in `unsigned int`, so it wraps); `clamped` first clamps `msg_len` to
`MAX_MSG_SIZE - 1` (what `snprintf` really left in the buffer) -/
inductive SizeArg | full | remaining | clamped
deriving Repr, DecidableEq

/-- `msg_len` after the first `snprintf` (its return value; clamped only in mode `clamped`) -/
def msgLenAfterPrefix (M : Nat) (m : SizeArg) (p : Nat) : Nat :=
  match m with
  | .clamped => min p (M - 1)
  | _ => p

/-- the size argument of the second call (`unsigned int` arithmetic for `remaining`) -/
def secondSize (M : Nat) (m : SizeArg) (p : Nat) : Nat :=
  match m with
  | .full => M
  | .remaining => (M + 4294967296 - p % 4294967296) % 4294967296
  | .clamped => M - min p (M - 1)

/-- every byte range `print_msg` writes into `char msg_buf[M]` (`M` = `MAX_MSG_SIZE`, a parameter so
that the theorems survive a change of the constant) for a file name of `F`
characters, line number `line`, type word of `T` characters and a formatted message of `L` characters -/
def printMsgWrites (M : Nat) (m : SizeArg) (F : Nat) (line : Int) (T L : Nat) : List Range :=
  let p := prefixLen F line T
  snprintfWrites 0 M p ++ snprintfWrites (msgLenAfterPrefix M m p) (secondSize M m p) L

/-- all writes stay inside `msg_buf[0 .. MAX_MSG_SIZE-1]` -/
def inBounds (M : Nat) (rs : List Range) : Bool := rs.all (fun r => r.hi < M)

/-- `strlen` of what `strdup(msg_buf)` stores, when the writes were in bounds -/
def storedLen (M : Nat) (m : SizeArg) (F : Nat) (line : Int) (T L : Nat) : Nat :=
  let p := prefixLen F line T
  if p ≥ M then M - 1
  else
    let n := secondSize M m p
    if n = 0 then p else msgLenAfterPrefix M m p + min L (n - 1)

/-- the growable message array: `(msg_count, msg_array_size)` -/
structure MsgArr where
  count : Nat
  size : Nat
deriving Repr, DecidableEq

/-- `*utils_msg_array_size = *utils_msg_array_size + 10` -/
def MSG_ARRAY_GROW : Nat := 10

/-- one `print_msg`: grow by 10 when `count >= size`, store at `[count]`, `count++`.
Returns the new state and the index written together with the capacity at that moment -/
def MsgArr.push (grow : Nat) (a : MsgArr) : MsgArr × Nat × Nat :=
  let size := if a.count ≥ a.size then a.size + grow else a.size
  (⟨a.count + 1, size⟩, a.count, size)

/-- `program_new`: `msg_count = 0; msg_array_size = 0` -/
def MsgArr.init : MsgArr := ⟨0, 0⟩

def MsgArr.pushN (grow : Nat) : Nat → MsgArr → MsgArr
  | 0, a => a
  | k + 1, a => MsgArr.pushN grow k (a.push grow).1

/-! ## 2. the `use` stack -/

/-- `#define MAX_USE_DEPTH 16`, also the dimension of `use_stack[]` -/
def MAX_USE_DEPTH : Nat := 16

/-- `use_descr`, resources only: the outer `FILE *` (NULL for `scan_string`) and the outer flex buffer -/
structure Descr where
  yyin : Option Nat
  buf : Nat
deriving Repr, DecidableEq

inductive Ev
  /-- the lexer matched `<USE>[a-zA-Z_./]+` with this text; `exists_` = `fopen_path` succeeds -/
  | use (name : String) (exists_ : Bool)
  /-- the lexer hit `<<EOF>>` of the current buffer -/
  | eof
deriving Repr, DecidableEq

structure St where
  /-- `use_stack_ptr` -/
  ptr : Int
  /-- `use_stack[0 .. ptr)`, top first -/
  stack : List Descr
  /-- `yyin` -/
  yyin : Option Nat
  /-- `YY_CURRENT_BUFFER` -/
  cur : Nat
  /-- `modtab` as the list of names added -/
  modtab : List String
  /-- next fresh resource id (files and buffers share the numbering) -/
  fresh : Nat
  /-- every `fclose` / `yy_delete_buffer`, in order -/
  released : List Nat
  /-- every index used to read or write `use_stack[…]` -/
  acc : List Int
  /-- module names whose file was opened and switched to (parsed) -/
  opens : List String
  /-- `print_error_msg` calls made by the `<USE>` rule -/
  errs : Nat
  npush : Nat
  npop : Nat
  ndestroy : Nat
  /-- the `<<EOF>>` rule ran `yyterminate()` (token `YYEOF` returned to bison) -/
  terminated : Bool
  /-- the lexer was entered again after that -/
  calledAfterEof : Bool
  /-- a `<USE>` rule ran after that (impossible: the input is exhausted; kept as an explicit event) -/
  useAfterEof : Bool
  /-- the outermost buffer reads from a `FILE *` (`scan_file`); a `yy_scan_string` buffer is never refilled -/
  fileMode : Bool
  /-- flex refilled the outermost buffer through `yyin` after the `<<EOF>>` rule had closed it and set
  it to NULL (`fread(…, NULL)`): what re-entering the lexer after `YYEOF` does in file mode -/
  nullRead : Bool
deriving Repr, DecidableEq

/-- `scan_string` (no file, no module-table entry) / `scan_file` (main file is `yyin`, its *path*
is entered in the module table) followed by the first buffer flex creates -/
def St.init (mainFile : Option String) : St :=
  { ptr := 0, stack := [], yyin := mainFile.map (fun _ => 1), cur := 0,
    modtab := mainFile.toList, fresh := (match mainFile with | none => 1 | some _ => 2), released := [], acc := [], opens := [], errs := 0,
    npush := 0, npop := 0, ndestroy := 0, terminated := false, calledAfterEof := false, useAfterEof := false,
    fileMode := mainFile.isSome, nullRead := false }

/-- the `<USE>` rule; `lim` is the bound of its guard `use_stack_ptr >= MAX_USE_DEPTH` (a parameter:
the theorems need `lim ≤` the dimension of `use_stack[]`) -/
def stepUse (lim : Nat) (s : St) (name : String) (ex : Bool) : St :=
  if s.ptr ≥ (lim : Int) then { s with errs := s.errs + 1 }   -- "module uses are nested too deep"
  else if name ∈ s.modtab then s                                        -- already known: plain reference
  else if !ex then { s with errs := s.errs + 1 }                         -- "cannot open module"
  else if s.ptr < 0 then { s with acc := s.acc ++ [s.ptr] }              -- C: write below the array (UB); frozen here
  else
    { s with
      acc := s.acc ++ [s.ptr]
      stack := ⟨s.yyin, s.cur⟩ :: s.stack
      ptr := s.ptr + 1
      yyin := some s.fresh
      cur := s.fresh + 1
      fresh := s.fresh + 2
      modtab := s.modtab ++ [name]
      opens := s.opens ++ [name]
      npush := s.npush + 1 }

/-- `if (yyin) { fclose(yyin); yyin = NULL; }` (first statement of `<<EOF>>` and of `scanner_destroy`) -/
def closeYyin (s : St) : St :=
  match s.yyin with
  | some f => { s with released := s.released ++ [f], yyin := none }
  | none => s

/-- the `<<EOF>>` rule -/
def stepEof (s : St) : St :=
  let s1 := closeYyin s
  let p := s1.ptr - 1
  if p < 0 then { s1 with ptr := p, terminated := true }
  else
    match s1.stack with
    | d :: rest =>
      { s1 with ptr := p, acc := s1.acc ++ [p], released := s1.released ++ [s1.cur],
                cur := d.buf, yyin := d.yyin, stack := rest, npop := s1.npop + 1 }
    | [] => { s1 with ptr := p, acc := s1.acc ++ [p] }   -- stale slot (unreachable, see `Inv`)

/-- entering the lexer although `YYEOF` had been returned: remembered in `calledAfterEof`; flex restarts
the exhausted outermost buffer, which in file mode reads through the closed, NULL `yyin` -/
def markCalled (isUse : Bool) (s : St) : St :=
  if s.terminated then
    { s with calledAfterEof := true, useAfterEof := s.useAfterEof || isUse, nullRead := s.nullRead || s.fileMode }
  else s

def step (lim : Nat) (s : St) (e : Ev) : St :=
  match e with
  | .use n ex => stepUse lim (markCalled true s) n ex
  | .eof => stepEof (markCalled false s)

def run (lim : Nat) (s : St) (evs : List Ev) : St := evs.foldl (step lim) s

/-- resources named by one stack entry -/
def resOf (d : Descr) : List Nat := d.yyin.toList ++ [d.buf]

/-- one iteration of the loop in `scanner_destroy`: `fclose` the entry's file if any,
`yy_flush_buffer`/`yy_delete_buffer` its buffer -/
def destroyEntry (d : Descr) (rest : List Descr) (s : St) : St :=
  { s with ptr := s.ptr - 1, acc := s.acc ++ [s.ptr - 1], released := s.released ++ resOf d,
           stack := rest, ndestroy := s.ndestroy + 1 }

/-- the `while (--use_stack_ptr >= 0)` loop of `scanner_destroy`, driven by the entries below `ptr` -/
def destroyLoop : List Descr → St → St
  | [], s => { s with ptr := s.ptr - 1 }
  | d :: rest, s =>
    if s.ptr - 1 < 0 then { s with ptr := s.ptr - 1 }
    else destroyLoop rest (destroyEntry d rest s)

/-- `scanner_destroy` -/
def destroy (s : St) : St :=
  let s1 := closeYyin s
  let s2 := destroyLoop s1.stack s1
  -- moduletab_delete; yylex_destroy deletes the current buffer
  { s2 with modtab := [], released := s2.released ++ [s2.cur] }

/-- a whole scanning session -/
def session (lim : Nat) (mainFile : Option String) (evs : List Ev) : St :=
  destroy (run lim (St.init mainFile) evs)

/-! ## 3. the stage pipeline -/

/-- what one stage did: how many `error:` lines it printed and what it returned -/
structure StageOut where
  errs : Nat
  rc : Int
deriving Repr, DecidableEq

/-- `nev_compile` → `nev_compile_prog` → `nev_compile_prog_modules`: every stage runs only when all
earlier ones returned 0; the value returned is that of the first stage that did not.
Result: (total `error:` lines printed, return value) -/
def pipeline : List StageOut → Nat × Int
  | [] => (0, 0)
  | s :: rest =>
    if s.rc ≠ 0 then (s.errs, s.rc)
    else let r := pipeline rest; (s.errs + r.1, r.2)

/-- the stages that actually ran: everything up to and including the first one that failed -/
def ran : List StageOut → List StageOut
  | [] => []
  | s :: rest => if s.rc ≠ 0 then [s] else s :: ran rest

/-- the `yyparse` stage seen from `nev_compile_prog`: lexer rules call `print_error_msg` directly
(`lexErrs`), `yyerror` prints and sets `parse_result = 1` (`yyErrs`), the recovery rule
`func: TOK_FUNC TOK_ID error` prints once more per recovery (`recov ≤ yyErrs`);
the stage's value is `parse_result`, the return value of `yyparse` itself is ignored -/
def parseStage (lexErrs yyErrs recov : Nat) : StageOut :=
  ⟨lexErrs + yyErrs + recov, if yyErrs > 0 then 1 else 0⟩

/-- "reports an error ⇒ returns non-zero" -/
def StageOut.sound (s : StageOut) : Prop := s.errs > 0 → s.rc ≠ 0
/-- "returns non-zero ⇒ has reported an error" -/
def StageOut.complete (s : StageOut) : Prop := s.rc ≠ 0 → s.errs > 0

instance (s : StageOut) : Decidable s.sound := by unfold StageOut.sound; infer_instance
instance (s : StageOut) : Decidable s.complete := by unfold StageOut.complete; infer_instance

end Never.Diag
