/-
M-Src, syntactic side (C08): renaming of bound names, lexical resolution.

A renaming is a function `ν : Name → Nat → Name`: the binder named `x` that is pushed when the
static name stack has depth `d` becomes `ν x d`; a use is renamed like its innermost binder.
`ν x d = σ x` is a global renaming, `ν x d = x ++ "_" ++ d` removes all shadowing,
`ν x d = "v" ++ d` (de Bruijn levels) maps every two alpha-equivalent programs to the same text.
-/
import NeverModel.Model.Src
namespace Never.Src

abbrev Ren := Name → Nat → Name

/-- rename a use against the static stack (innermost first); `L` = full depth, used for a name
that is not bound at all -/
def rnVarD (ν : Ren) (L : Nat) : List Name → Name → Name
  | [], x => ν x L
  | y :: bs, x => if x = y then ν y bs.length else rnVarD ν L bs x

def rnVar (ν : Ren) (bs : List Name) (x : Name) : Name := rnVarD ν bs.length bs x

def rnStack (ν : Ren) : List Name → List Name
  | [] => []
  | y :: bs => ν y bs.length :: rnStack ν bs

def rnEnv (ν : Ren) : Env → Env
  | [] => []
  | (y, l) :: env => (ν y env.length, l) :: rnEnv ν env

/-- names bound in order at depths d, d+1, … -/
def rnNames (ν : Ren) : Nat → List Name → List Name
  | _, [] => []
  | d, x :: xs => ν x d :: rnNames ν (d + 1) xs

def rnParams (ν : Ren) : Nat → List Param → List Param
  | _, [] => []
  | d, p :: ps =>
    { name := ν p.name d, ty := p.ty, dims := rnNames ν (d + 1) p.dims } ::
      rnParams ν (d + 1 + p.dims.length) ps

mutual
def rnE (ν : Ren) (bs : List Name) : Expr → Expr
  | .lit l => .lit l
  | .var x => .var (rnVar ν bs x)
  | .dimVar x => .dimVar (rnVar ν bs x)
  | .un op a => .un op (rnE ν bs a)
  | .bin op a b => .bin op (rnE ν bs a) (rnE ν bs b)
  | .and a b => .and (rnE ν bs a) (rnE ν bs b)
  | .or a b => .or (rnE ν bs a) (rnE ν bs b)
  | .cond c t e => .cond (rnE ν bs c) (rnE ν bs t) (rnE ν bs e)
  | .assign l r => .assign (rnE ν bs l) (rnE ν bs r)
  | .seq items => .seq (rnItems ν bs items)
  | .while c b => .while (rnE ν bs c) (rnE ν bs b)
  | .doWhile b c => .doWhile (rnE ν bs b) (rnE ν bs c)
  | .for i c s b => .for (rnE ν bs i) (rnE ν bs c) (rnE ν bs s) (rnE ν bs b)
  | .forIn x coll b => .forIn (ν x bs.length) (rnE ν bs coll) (rnE ν (x :: bs) b)
  | .call f args => .call (rnE ν bs f) (rnEs ν bs args)
  | .pipe l f args => .pipe (rnE ν bs l) (rnE ν bs f) (rnEs ν bs args)
  | .builtin b args => .builtin b (rnEs ν bs args)
  | .lam (.mk id n ps r body cs) =>
    if n = "" then .lam (rnF ν bs "" (.mk id n ps r body cs))
    else .lam (rnF ν (n :: bs) (ν n bs.length) (.mk id n ps r body cs))
  | .arrLit dims elems ty => .arrLit dims (rnEs ν bs elems) ty
  | .arrNew dims ty => .arrNew (rnEs ν bs dims) ty
  | .index a idx => .index (rnE ν bs a) (rnEs ν bs idx)
  | .record rn args => .record rn (rnEs ν bs args)
  | .tuple args => .tuple (rnEs ν bs args)
  | .field e f => .field (rnE ν bs e) f
  | .enumVal en it => .enumVal en it
  | .enumRec en it args => .enumRec en it (rnEs ν bs args)
  | .matchE e gs => .matchE (rnE ν bs e) (rnGuards ν bs gs)
  | .ifLet g e els => .ifLet (rnGuard ν bs g) (rnE ν bs e) (rnE ν bs els)
  | .listcomp body quals ty => .listcomp (rnE ν (qualBinders quals ++ bs) body) (rnQuals ν bs quals) ty
  | .range bounds => .range (rnEs ν bs bounds)
  | .slice a bounds => .slice (rnE ν bs a) (rnEs ν bs bounds)
def rnEs (ν : Ren) (bs : List Name) : List Expr → List Expr
  | [] => []
  | e :: es => rnE ν bs e :: rnEs ν bs es
def rnItems (ν : Ren) (bs : List Name) : List Item → List Item
  | [] => []
  | .expr e :: rest => .expr (rnE ν bs e) :: rnItems ν bs rest
  | .bind v x e :: rest => .bind v (ν x bs.length) (rnE ν bs e) :: rnItems ν (x :: bs) rest
  | .funcs fs :: rest =>
    .funcs (rnFs ν ((funcNames fs).reverse ++ bs) bs.length fs) :: rnItems ν ((funcNames fs).reverse ++ bs) rest
/-- the functions of a group: the i-th one is named at depth `d + i` -/
def rnFs (ν : Ren) (bs : List Name) : Nat → List Func → List Func
  | _, [] => []
  | d, .mk id n ps r body cs :: fs => rnF ν bs (ν n d) (.mk id n ps r body cs) :: rnFs ν bs (d + 1) fs
/-- `bs` = stack at the definition (own group / own name included), `nn` = the new name -/
def rnF (ν : Ren) (bs : List Name) (nn : Name) : Func → Func
  | .mk id _ ps r body cs =>
    .mk id nn (rnParams ν bs.length ps) r (rnE ν ((paramBinders ps).reverse ++ bs) body)
      (rnCatches ν ((paramBinders ps).reverse ++ bs) cs)
def rnCatches (ν : Ren) (bs : List Name) : List Catch → List Catch
  | [] => []
  | .mk ex b :: cs => .mk ex (rnE ν bs b) :: rnCatches ν bs cs
def rnGuard (ν : Ren) (bs : List Name) : Guard → Guard
  | .item en it b => .item en it (rnE ν bs b)
  | .els b => .els (rnE ν bs b)
  | .recd en it binds b => .recd en it (rnNames ν bs.length binds) (rnE ν (binds.reverse ++ bs) b)
def rnGuards (ν : Ren) (bs : List Name) : List Guard → List Guard
  | [] => []
  | g :: gs => rnGuard ν bs g :: rnGuards ν bs gs
def rnQuals (ν : Ren) (bs : List Name) : List Qual → List Qual
  | [] => []
  | .filter e :: qs => .filter (rnE ν bs e) :: rnQuals ν bs qs
  | .gen x coll :: qs => .gen (ν x bs.length) (rnE ν bs coll) :: rnQuals ν (x :: bs) qs
end

def rnEntry (ν : Ren) (e : FunEntry) : FunEntry :=
  { id := e.id, bs := rnStack ν e.bs, params := rnParams ν e.bs.length e.params, ret := e.ret,
    body := rnE ν ((paramBinders e.params).reverse ++ e.bs) e.body,
    catches := rnCatches ν ((paramBinders e.params).reverse ++ e.bs) e.catches }

def rnCtx (ν : Ren) (c : Ctx) : Ctx := { c with funs := c.funs.map (rnEntry ν) }

/-- the renamed program: top-level functions form a group pushed on the empty stack -/
def rnP (ν : Ren) (p : Prog) : Prog := { p with funcs := rnFs ν p.topNames 0 p.funcs }

/-- admissible renamings: never identify two binders that can be in scope together, keep
anonymous functions anonymous, keep the entry point's name -/
structure Adm (ν : Ren) : Prop where
  inj : ∀ x y d d', ν x d = ν y d' → x = y ∨ d = d'
  nonempty : ∀ x d, ν x d ≠ ""
  main : ∀ d, ν "main" d = "main"

/-! ### lexical resolution -/

/-- index (0 = innermost) of the binder a use of `x` refers to -/
def resolveIdx (x : Name) : List Name → Option Nat
  | [] => none
  | y :: bs => if x = y then some 0 else (resolveIdx x bs).map (· + 1)

mutual
/-- every identifier use of an expression together with the static stack at the use -/
def usesE (bs : List Name) : Expr → List (Name × List Name)
  | .lit _ | .enumVal _ _ => []
  | .var x | .dimVar x => [(x, bs)]
  | .un _ a => usesE bs a
  | .bin _ a b | .and a b | .or a b | .assign a b | .while a b | .doWhile a b => usesE bs a ++ usesE bs b
  | .cond c t e => usesE bs c ++ usesE bs t ++ usesE bs e
  | .seq items => usesItems bs items
  | .for i c s b => usesE bs i ++ usesE bs c ++ usesE bs s ++ usesE bs b
  | .forIn x coll b => usesE bs coll ++ usesE (x :: bs) b
  | .call f args => usesEs bs args ++ usesE bs f
  | .pipe l f args => usesEs bs args ++ usesE bs l ++ usesE bs f
  | .builtin _ args | .arrLit _ args _ | .arrNew args _ | .record _ args | .tuple args
  | .enumRec _ _ args | .range args => usesEs bs args
  | .lam (.mk id n ps r body cs) => usesF (if n = "" then bs else n :: bs) (.mk id n ps r body cs)
  | .index a idx | .slice a idx => usesE bs a ++ usesEs bs idx
  | .field e _ => usesE bs e
  | .matchE e gs => usesE bs e ++ usesGuards bs gs
  | .ifLet g e els => usesE bs e ++ usesGuard bs g ++ usesE bs els
  | .listcomp body quals _ => usesQuals bs quals ++ usesE (qualBinders quals ++ bs) body
def usesEs (bs : List Name) : List Expr → List (Name × List Name)
  | [] => []
  | e :: es => usesE bs e ++ usesEs bs es
def usesItems (bs : List Name) : List Item → List (Name × List Name)
  | [] => []
  | .expr e :: rest => usesE bs e ++ usesItems bs rest
  | .bind _ x e :: rest => usesE bs e ++ usesItems (x :: bs) rest
  | .funcs fs :: rest => usesFs ((funcNames fs).reverse ++ bs) fs ++ usesItems ((funcNames fs).reverse ++ bs) rest
def usesFs (bs : List Name) : List Func → List (Name × List Name)
  | [] => []
  | fn :: fs => usesF bs fn ++ usesFs bs fs
def usesF (bs : List Name) : Func → List (Name × List Name)
  | .mk _ _ ps _ body cs =>
    usesE ((paramBinders ps).reverse ++ bs) body ++ usesCatches ((paramBinders ps).reverse ++ bs) cs
def usesCatches (bs : List Name) : List Catch → List (Name × List Name)
  | [] => []
  | .mk _ b :: cs => usesE bs b ++ usesCatches bs cs
def usesGuard (bs : List Name) : Guard → List (Name × List Name)
  | .item _ _ b | .els b => usesE bs b
  | .recd _ _ binds b => usesE (binds.reverse ++ bs) b
def usesGuards (bs : List Name) : List Guard → List (Name × List Name)
  | [] => []
  | g :: gs => usesGuard bs g ++ usesGuards bs gs
def usesQuals (bs : List Name) : List Qual → List (Name × List Name)
  | [] => []
  | .filter e :: qs => usesE bs e ++ usesQuals bs qs
  | .gen x coll :: qs => usesE bs coll ++ usesQuals (x :: bs) qs
end

/-- the resolution of a program: every use with the index of its binder (`none` = unbound) -/
def resolve (p : Prog) : List (Name × Option Nat) :=
  (usesFs p.topNames p.funcs).map (fun u => (u.1, resolveIdx u.1 u.2))

end Never.Src
