/-
M-ExcTab: executable model of back/exctab.c (`exctab_between`, `exctab_search`,
`exception_tab_search`).

The C table has `count` real entries tab[0..count-1] plus a sentinel
tab[count] = {UINT_MAX, UINT_MAX}.  The model table is an `Array ExcEntry`; the C array is
valid exactly for the indices the model array has, so an out-of-bounds read is `tab[i]? = none`
(or a negative index).

C `int` variables `from`/`to`/`middle` are modelled as `Int` (`from` is a Lean keyword, hence
`frm`).  `(to - from) / 2` is only evaluated when `from <= to`, so C truncating division and
Lean's `Int` division agree.  Not modelled: `tab == NULL` (an `Array` is never NULL) and the
`unsigned -> int` conversion of `value->count` (a count above INT_MAX).

Core Lean only (the driver links this file).
-/
namespace Never

/-- `exctab_entry` -/
structure ExcEntry where
  block : Nat
  handler : Nat
  deriving Repr, DecidableEq, Inhabited

/-- `exctab_between` -/
def excBetween (first second : ExcEntry) (ip : Nat) : Int :=
  if ip < first.block then -1
  else if ip ≥ second.block then 1
  else 0

/-- the read `tab[i]` (`*(tab + i)`) for a C `int` index; `none` = out of bounds -/
def excAt (tab : Array ExcEntry) (i : Int) : Option ExcEntry :=
  if i < 0 then none else tab[i.toNat]?

/-- the `while (from <= to)` loop of `exctab_search`.
    outer `none` = out-of-bounds read, `some none` = loop left with `found == NULL`,
    `some (some i)` = `found == tab + i`. -/
def excSearchLoop (tab : Array ExcEntry) (ip : Nat) (frm to : Int) : Option (Option Nat) :=
  if frm ≤ to then
    let middle : Int := frm + (to - frm) / 2
    match excAt tab middle, excAt tab (middle + 1) with
    | some e1, some e2 =>
      let cmp := excBetween e1 e2 ip
      if cmp < 0 then
        excSearchLoop tab ip frm (middle - 1)
      else if cmp > 0 then
        excSearchLoop tab ip (middle + 1) to
      else
        some (some middle.toNat)
    | _, _ => none
  else
    some none
termination_by (to - frm + 1).toNat
decreasing_by
  all_goals omega

/-- `exctab_search(tab, count, ip)` -/
def excSearch (tab : Array ExcEntry) (count : Nat) (ip : Nat) : Option (Option Nat) :=
  if count = 0 then some none
  else excSearchLoop tab ip 0 ((count : Int) - 1)

/-- `exception_tab_search`: `none` when `assert(res != NULL)` would fail or on an
    out-of-bounds read -/
def excHandler (tab : Array ExcEntry) (count ip : Nat) : Option Nat :=
  match excSearch tab count ip with
  | some (some i) => tab[i]?.map (·.handler)
  | _ => none

/-- the table invariant the emitter establishes -/
def ExcWF (tab : Array ExcEntry) (count : Nat) : Bool :=
  tab.size == count + 1
  && decide (0 < count)
  && tab[0]?.map (·.block) == some 0
  && (List.range count).all (fun i =>
        match tab[i]?, tab[i + 1]? with
        | some a, some b => decide (a.block < b.block)
        | _, _ => false)
  && tab[count]?.map (·.block) == some 4294967295

/-- line protocol of the driver: `h <handler>`, `null` or `oob` -/
def excAnswer (tab : Array ExcEntry) (count ip : Nat) : String :=
  match excSearch tab count ip with
  | none => "oob"
  | some none => "null"
  | some (some i) =>
    match tab[i]? with
    | some e => "h " ++ toString e.handler
    | none => "oob"

end Never
