import NeverModel.Model.Verify
/-
M-Ver, run-time side: the definitions with which the soundness of the verifier over executions is STATED (Props/C07, Lemmas/Ver*.lean)
and with which its side conditions are CHECKED on every replayed run (Driver/VmDrv.lean): the parameter count of the running
function, the frame records MARK pushes followed as a list beside the machine, and the decidable form of the per-step side conditions
(`stepOkB`: a CALL finds a function value of the right arity, no word of a live frame record is overwritten, MK_INIT_ARRAY finds the
extents the verifier recorded).  Core Lean only.
-/
namespace Never.Ver
open Never Never.Vm

/-- parameter count of the function whose code contains address `a` (0 in the top region) -/
def fnParamsAt (md : Module) (a : Nat) : Nat := npAt md (funcStarts md) a

/-- `a` lies inside a function body (not in the global initialisation / entry stub) -/
def inFunction (md : Module) (a : Nat) : Bool := !topAt (funcStarts md) a

end Never.Ver

namespace Never.Vm
open Never

/-- the integers the top `n` stack slots (from `sp` downwards) point at, top first: what `popInts n` reads -/
def stackInts (vm : Vm) : Nat → Int → Option (List Int)
  | 0, _ => some []
  | n+1, sp =>
    if sp < 0 ∨ sp ≥ vm.stackSize then none else
    let a := (vm.stack[sp.toNat]?.getD .unknown).asAddr
    if a > vm.gc.mem.size then none else
    match vm.gc.mem.objAt a with
    | some (.int v) => (stackInts vm n (sp - 1)).map (v.toInt :: ·)
    | _ => none

end Never.Vm

namespace Never.Ver
open Never Never.Vm

/-- a frame record on the VM stack, as MARK wrote it: `F` = index of its return-address word (the value of `fp` after the MARK),
the saved `pp` (word `F − 4`), the saved `fp` (word `F − 1`), the return address (word `F`) -/
structure Rec where
  F : Int
  pp : Int
  fp : Int
  ra : Nat
  deriving DecidableEq

/-- `fp` as the list of live records says: the innermost record, or the value at the bottom of the run -/
def topF (bot : Int) : List Rec → Int
  | [] => bot
  | r :: _ => r.F

/-- how one step changes the list of live records: MARK pushes one, RET / RETHROW pop one, CLEAR_STACK (`fp := pp`) drops the
records of calls that were being prepared in the running function when the exception was raised -/
def ghostNext (md : Module) (vm : Vm) (recs : List Rec) : List Rec :=
  match md.code[vm.ip]? with
  | some i =>
    match i.op with
    | .MARK => { F := vm.sp + 5, pp := vm.pp, fp := vm.fp, ra := i.w0 } :: recs
    | .RET | .RETHROW => recs.tail
    | .CLEAR_STACK => recs.dropWhile (fun r => decide (r.F ≠ vm.pp))
    | _ => recs
  | none => recs

/-- the function object a CALL would find on top of the stack: (environment, address) -/
def calleeOf (vm : Vm) : Option (Nat × Nat) :=
  if vm.sp < 0 ∨ vm.sp ≥ vm.stackSize then none else
  match vm.gc.mem.objAt ((vm.stack[vm.sp.toNat]?.getD .unknown).asAddr) with
  | some (.func env fip) => some (env, fip)
  | _ => none

/-- the number of arguments the CALL at address `c` passes, read off the certificate: what lies between the frame record of the call
(the innermost one in preparation: MARK at height `m`, record up to `m + 5`) and the function value on top; for a last call
(no MARK: the running function's own parameter block is reused) the slots above `pp` -/
def callArgs (md : Module) (hm : HMap) (c : Nat) : Nat :=
  match hm[c]? with
  | some (some st) =>
    match st.marks with
    | m :: _ => st.h - (m + 5) - 1
    | [] => fnParamsAt md c + st.h - 1
  | _ => 0

def callOkB (md : Module) (hm : HMap) (vm : Vm) : Bool :=
  match calleeOf vm with
  | some (_, fip) => fip == 0 || (decide (fip ∈ funcStarts md) && fnParamsAt md fip == callArgs md hm vm.ip)
  | none => true

/-- the cell the allocator hands out next is a free cell inside the heap (or the heap is exhausted: the allocation then fails) -/
def allocFreshB (vm : Vm) : Bool :=
  vm.gc.free == 0 || (decide (vm.gc.free < vm.gc.mem.size) && (vm.gc.mem.objAt vm.gc.free).isNone)

/-- the decidable per-step check run on every replayed step (Driver/VmDrv.lean).  The CALL and RET conjuncts are the side conditions
`StepOk` of `verify_sound_partial` that remain assumptions (the function value at a CALL has the arity of its call site; a RET finds a
live record); the others re-validate on the run what is PROVED: no word of a live frame record is overwritten and MK_INIT_ARRAY finds the
constants of the `INT`s before it (Props/C07, verified modules), the allocator hands an `INT` a free cell (Props/C09, any module). -/
def stepOkB (md : Module) (hm : HMap) (vm vm' : Vm) (recs : List Rec) : Bool :=
  (recs.all fun r => !(decide (r ∈ ghostNext md vm recs)) ||
    (slot vm' (r.F - 4) == slot vm (r.F - 4) && slot vm' (r.F - 1) == slot vm (r.F - 1) && slot vm' r.F == slot vm r.F)) &&
  (match md.code[vm.ip]? with
   | some i =>
     (i.op != .CALL || callOkB md hm vm) && (!(i.op == .RET || i.op == .RETHROW) || !recs.isEmpty) &&
     (i.op != .INT || allocFreshB vm) &&
     (i.op != .MK_INIT_ARRAY || (match hm[vm.ip]? with | some (some st) => stackInts vm i.w0 vm.sp == initExts st i.w0 | _ => true))
   | none => true)

end Never.Ver
