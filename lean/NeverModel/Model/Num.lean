/-
M-Num: the numeric semantics of the VM's arithmetic / compare / bitwise / conversion
handlers (back/vmexec.c macro families) on bit patterns.

`int` = BitVec 32, `long` = BitVec 64 (two's complement, wrap-around: harness builds use
-fwrapv, the pinned build relies on gcc not exploiting signed overflow), `char` = BitVec 8
(signed char), `float`/`double` = IEEE single/double carried as bit patterns and computed
with Lean's native `Float32`/`Float` (opaque to the kernel: theorems about them are
structural).  C-level outcomes that are not values are values of the model:
`exc e` (language exception number of include/vm.h) and `crash` (SIGFPE on MIN / -1,
shift count outside [0,width): undefined behaviour).
The tables regenerated from the C source (Gen/VmArith.lean) are proved equal to these
definitions in Props/C11.lean; the VM model (Model/Vm.lean) executes these definitions.
Core Lean only.
-/
namespace Never.Num

inductive NTy where | int | long | float | double | char
  deriving DecidableEq, Repr, Inhabited

/-- a scalar as the VM holds it -/
inductive NVal where
  | int (v : BitVec 32)
  | long (v : BitVec 64)
  | float (bits : BitVec 32)
  | double (bits : BitVec 64)
  | char (v : BitVec 8)
  deriving DecidableEq, Repr, Inhabited

def NVal.ty : NVal → NTy
  | .int _ => .int | .long _ => .long | .float _ => .float | .double _ => .double | .char _ => .char

inductive NRes where
  | ok (v : NVal)
  | exc (e : Nat)        -- 1 = division_by_zero
  | crash (why : String) -- the C code is outside defined behaviour / traps
  | tag                  -- operand of the wrong object type (gc_get_* assertion)
  deriving DecidableEq, Repr, Inhabited

def f32 (b : BitVec 32) : Float32 := Float32.ofBits (UInt32.ofNat b.toNat)
def f64 (b : BitVec 64) : Float := Float.ofBits (UInt64.ofNat b.toNat)
def b32 (x : Float32) : BitVec 32 := BitVec.ofNat 32 x.toBits.toNat
def b64 (x : Float) : BitVec 64 := BitVec.ofNat 64 x.toBits.toNat

def ofBool (b : Bool) : NVal := .int (if b then 1 else 0)

inductive BinOp where
  | add | sub | mul | div | mod
  | lt | gt | lte | gte | eq | neq
  | band | bor | bxor | shl | shr
  deriving DecidableEq, Repr, Inhabited

inductive UnOp where
  | neg | not | bnot
  deriving DecidableEq, Repr, Inhabited

def intMin32 : BitVec 32 := BitVec.ofNat 32 0x80000000
def intMin64 : BitVec 64 := BitVec.ofNat 64 0x8000000000000000

/-- `vm_execute_op_<op>_int` on the two operand values (a = sp-1, b = sp) -/
def binInt (op : BinOp) (a b : BitVec 32) : NRes :=
  match op with
  | .add => .ok (.int (a + b))
  | .sub => .ok (.int (a - b))
  | .mul => .ok (.int (a * b))
  | .div => if b = 0 then .exc 1 else if a = intMin32 ∧ b = -1 then .crash "SIGFPE: INT_MIN / -1" else .ok (.int (a.sdiv b))
  | .mod => if b = 0 then .exc 1 else if a = intMin32 ∧ b = -1 then .crash "SIGFPE: INT_MIN % -1" else .ok (.int (a.srem b))
  | .lt => .ok (ofBool (a.slt b))
  | .gt => .ok (ofBool (b.slt a))
  | .lte => .ok (ofBool (a.sle b))
  | .gte => .ok (ofBool (b.sle a))
  | .eq => .ok (ofBool (a == b))
  | .neq => .ok (ofBool (a != b))
  | .band => .ok (.int (a &&& b))
  | .bor => .ok (.int (a ||| b))
  | .bxor => .ok (.int (a ^^^ b))
  | .shl => if b.toInt < 0 ∨ b.toInt ≥ 32 then .crash "shift count out of range" else .ok (.int (a <<< b.toNat))
  | .shr => if b.toInt < 0 ∨ b.toInt ≥ 32 then .crash "shift count out of range" else .ok (.int (a.sshiftRight b.toNat))

def binLong (op : BinOp) (a b : BitVec 64) : NRes :=
  match op with
  | .add => .ok (.long (a + b))
  | .sub => .ok (.long (a - b))
  | .mul => .ok (.long (a * b))
  | .div => if b = 0 then .exc 1 else if a = intMin64 ∧ b = -1 then .crash "SIGFPE: LLONG_MIN / -1" else .ok (.long (a.sdiv b))
  | .mod => if b = 0 then .exc 1 else if a = intMin64 ∧ b = -1 then .crash "SIGFPE: LLONG_MIN % -1" else .ok (.long (a.srem b))
  | .lt => .ok (ofBool (a.slt b))
  | .gt => .ok (ofBool (b.slt a))
  | .lte => .ok (ofBool (a.sle b))
  | .gte => .ok (ofBool (b.sle a))
  | .eq => .ok (ofBool (a == b))
  | .neq => .ok (ofBool (a != b))
  | .band => .ok (.long (a &&& b))
  | .bor => .ok (.long (a ||| b))
  | .bxor => .ok (.long (a ^^^ b))
  | .shl => if b.toInt < 0 ∨ b.toInt ≥ 64 then .crash "shift count out of range" else .ok (.long (a <<< b.toNat))
  | .shr => if b.toInt < 0 ∨ b.toInt ≥ 64 then .crash "shift count out of range" else .ok (.long (a.sshiftRight b.toNat))

def binChar (op : BinOp) (a b : BitVec 8) : NRes :=
  match op with
  | .lt => .ok (ofBool (a.slt b))
  | .gt => .ok (ofBool (b.slt a))
  | .lte => .ok (ofBool (a.sle b))
  | .gte => .ok (ofBool (b.sle a))
  | .eq => .ok (ofBool (a == b))
  | .neq => .ok (ofBool (a != b))
  | _ => .tag

def binFloat (op : BinOp) (a b : BitVec 32) : NRes :=
  let x := f32 a; let y := f32 b
  match op with
  | .add => .ok (.float (b32 (x + y)))
  | .sub => .ok (.float (b32 (x - y)))
  | .mul => .ok (.float (b32 (x * y)))
  | .div => if y == 0 then .exc 1 else .ok (.float (b32 (x / y)))
  | .lt => .ok (ofBool (x < y))
  | .gt => .ok (ofBool (x > y))
  | .lte => .ok (ofBool (x ≤ y))
  | .gte => .ok (ofBool (x ≥ y))
  | .eq => .ok (ofBool (x == y))
  | .neq => .ok (ofBool (x != y))
  | _ => .tag

def binDouble (op : BinOp) (a b : BitVec 64) : NRes :=
  let x := f64 a; let y := f64 b
  match op with
  | .add => .ok (.double (b64 (x + y)))
  | .sub => .ok (.double (b64 (x - y)))
  | .mul => .ok (.double (b64 (x * y)))
  | .div => if y == 0 then .exc 1 else .ok (.double (b64 (x / y)))
  | .lt => .ok (ofBool (x < y))
  | .gt => .ok (ofBool (x > y))
  | .lte => .ok (ofBool (x ≤ y))
  | .gte => .ok (ofBool (x ≥ y))
  | .eq => .ok (ofBool (x == y))
  | .neq => .ok (ofBool (x != y))
  | _ => .tag

/-- a typed binary handler applied to two heap scalars; `.tag` if an operand has another type -/
def bin (ty : NTy) (op : BinOp) (a b : NVal) : NRes :=
  match ty, a, b with
  | .int, .int x, .int y => binInt op x y
  | .long, .long x, .long y => binLong op x y
  | .float, .float x, .float y => binFloat op x y
  | .double, .double x, .double y => binDouble op x y
  | .char, .char x, .char y => binChar op x y
  | _, _, _ => .tag

def un (ty : NTy) (op : UnOp) (a : NVal) : NRes :=
  match ty, op, a with
  | .int, .neg, .int x => .ok (.int (-x))
  | .long, .neg, .long x => .ok (.long (-x))
  | .float, .neg, .float x => .ok (.float (b32 (-(f32 x))))
  | .double, .neg, .double x => .ok (.double (b64 (-(f64 x))))
  | .int, .not, .int x => .ok (ofBool (x == 0))
  | .int, .bnot, .int x => .ok (.int (~~~x))
  | .long, .bnot, .long x => .ok (.long (~~~x))
  | _, _, _ => .tag

/-- `(int)x` for a double as x86-64 `cvttsd2si` computes it (out of range / NaN = "integer indefinite") -/
def f64ToI32 (x : Float) : BitVec 32 :=
  if x.isNaN then intMin32 else
  let t := x.toInt64.toInt
  if t < -2147483648 ∨ t > 2147483647 then intMin32 else BitVec.ofInt 32 t
def f64ToI64 (x : Float) : BitVec 64 :=
  if x.isNaN ∨ x ≥ 9223372036854775808.0 ∨ x < -9223372036854775808.0 then intMin64 else BitVec.ofInt 64 x.toInt64.toInt

/-- the twelve `vm_execute_<a>_to_<b>` conversions -/
def conv (src dst : NTy) (a : NVal) : NRes :=
  match src, dst, a with
  | .int, .long, .int x => .ok (.long (x.signExtend 64))
  | .int, .float, .int x => .ok (.float (b32 (Float32.ofInt x.toInt)))
  | .int, .double, .int x => .ok (.double (b64 (Float.ofInt x.toInt)))
  | .long, .int, .long x => .ok (.int (x.truncate 32))
  | .long, .float, .long x => .ok (.float (b32 (Float32.ofInt x.toInt)))
  | .long, .double, .long x => .ok (.double (b64 (Float.ofInt x.toInt)))
  | .float, .int, .float x => .ok (.int (f64ToI32 (f32 x).toFloat))
  | .float, .long, .float x => .ok (.long (f64ToI64 (f32 x).toFloat))
  | .float, .double, .float x => .ok (.double (b64 (f32 x).toFloat))
  | .double, .int, .double x => .ok (.int (f64ToI32 (f64 x)))
  | .double, .long, .double x => .ok (.long (f64ToI64 (f64 x)))
  | .double, .float, .double x => .ok (.float (b32 (f64 x).toFloat32))
  | _, _, _ => .tag

end Never.Num
