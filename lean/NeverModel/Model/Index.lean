/-!
# Never.Idx — executable model of the never-lang VM index arithmetic

Mirrors (faithfully, defects included):
* back/object.c : object_arr_dim_mult, object_arr_dim_addr, object_arr_can_add, object_arr_can_mult
* back/vmexec.c : vm_get_slice_range, vm_execute_array_deref_univ, vm_execute_range_deref,
                  vm_execute_slice_deref, vm_execute_string_deref, vm_execute_slice_string

Core library only; everything is computable and structurally recursive on lists.
-/

namespace Never.Idx

/-- `Except` has no `DecidableEq` instance in core; the property file uses `decide` on results.
    Declared under this namespace (name `Never.Idx.decEqExcept`) so that it cannot clash with a
    `deriving instance` in another module of the driver. -/
instance decEqExcept {ε α : Type} [DecidableEq ε] [DecidableEq α] : DecidableEq (Except ε α)
  | .ok a, .ok b =>
    if h : a = b then isTrue (by rw [h]) else isFalse (by intro h'; injection h' with h'; exact h h')
  | .error a, .error b =>
    if h : a = b then isTrue (by rw [h]) else isFalse (by intro h'; injection h' with h'; exact h h')
  | .ok _, .error _ => isFalse (by intro h; cases h)
  | .error _, .ok _ => isFalse (by intro h; cases h)

/-- C `unsigned int` modulus. -/
def U32 : Nat := 4294967296

/-! ## object_arr_dim_mult -/

/-- first loop of object_arr_dim_mult: `e *= dv[d].elems` in `unsigned int`. -/
def prodWrap : List Nat → Nat → Nat
  | [], e => e
  | x :: xs, e => prodWrap xs ((e * x) % U32)

/-- second loop of object_arr_dim_mult: `if (elems != 0) { e /= elems; mult = e; } else mult = 1;` -/
def multPass : List Nat → Nat → List (Nat × Nat)
  | [], _ => []
  | x :: xs, e =>
    if x ≠ 0 then (x, e / x) :: multPass xs (e / x)
    else (x, 1) :: multPass xs e

/-- object_arr_dim_mult: returns the filled `dv` (extent, mult) and `*elems`. -/
def dimMult (exts : List Nat) : List (Nat × Nat) × Nat :=
  let e := prodWrap exts 1
  (multPass exts e, e)

/-! ## object_arr_dim_addr -/

/-- loop of object_arr_dim_addr; `m` = current dimension, `acc` = addr_int. -/
def dimAddrAux : List (Nat × Nat) → List Nat → Nat → Nat → Except Nat Nat
  | (el, mu) :: dv, i :: idx, m, acc =>
    if el ≤ i then .error m
    else dimAddrAux dv idx (m + 1) ((acc + mu * i) % U32)
  | _, _, _, acc => .ok acc

/-- object_arr_dim_addr: `.error m` is `*oobounds = m`, `.ok a` is `*oobounds = -1; return a`. -/
def dimAddr (dv : List (Nat × Nat)) (idx : List Nat) : Except Nat Nat :=
  dimAddrAux dv idx 0 0

/-! ## vm_get_slice_range -/

/-- vm_get_slice_range as in the pinned tree (only one end tested, only against `b`); kept for the record
and as the body of the repaired function -/
def sliceRangePinned (a b c d : Int) : Option (Int × Int) :=
  if a < b then
    let resFrom := a + c
    let resTo := a + d
    if c < d then
      if resTo > b then none else some (resFrom, resTo)
    else
      if resFrom > b then none else some (resFrom, resTo)
  else
    let resFrom := a - c
    let resTo := a - d
    if c < d then
      if resTo < b then none else some (resFrom, resTo)
    else
      if resFrom < b then none else some (resFrom, resTo)

/-- vm_get_slice_range on mathematical integers; `none` is `*oob = 1`.  Since the `fix:` commit 3ebfaa3 the function
first rejects a negative inner bound (`if (range2_from < 0 || range2_to < 0) { *oob = 1; return; }`) -/
def sliceRange (a b c d : Int) : Option (Int × Int) :=
  if c < 0 ∨ d < 0 then none else sliceRangePinned a b c d

/-! ## vm_execute_array_deref_univ (index part) -/

/-- the `if (e < 0)` loop popping the indices: position of the first negative index. -/
def firstNeg : List Int → Nat → Option Nat
  | [], _ => none
  | e :: es, d => if e < 0 then some d else firstNeg es (d + 1)

def derefIndices (dv : List (Nat × Nat)) (idx : List Int) : Except Nat Nat :=
  match firstNeg idx 0 with
  | some d => .error d
  | none => dimAddr dv (idx.map Int.toNat)

/-! ## vm_execute_slice_deref (index part) -/

/-- C assignment of an `int` to an `unsigned int` field (`addr[d].mult = res_from`). -/
def toU32 (x : Int) : Nat := (x % 4294967296).toNat

/-- second loop of vm_execute_slice_deref: per dimension
    `vm_get_slice_range(from, to, e, e)`; oob → `.error d`; `addr[d].mult = res_from`. -/
def sliceAddrs : List (Int × Int) → List Int → Nat → Except Nat (List Nat)
  | (fr, t) :: rs, e :: es, d =>
    match sliceRange fr t e e with
    | none => .error d
    | some (resFrom, _) =>
      match sliceAddrs rs es (d + 1) with
      | .error d' => .error d'
      | .ok rest => .ok (toU32 resFrom :: rest)
  | _, _, _ => .ok []

def sliceDerefIndices (dv : List (Nat × Nat)) (ranges : List (Int × Int)) (idx : List Int) :
    Except Nat Nat :=
  match firstNeg idx 0 with
  | some d => .error d
  | none =>
    match sliceAddrs ranges idx 0 with
    | .error d => .error d
    | .ok addr => dimAddr dv addr

/-! ## vm_execute_range_deref (one dimension) -/

def rangeDerefIndex (fr t i : Int) : Except Unit Int :=
  if i < 0 then .error ()
  else
    match sliceRange fr t i i with
    | none => .error ()
    | some (resFrom, _) => .ok resFrom

/-! ## vm_execute_string_deref -/

/-- the guard exactly as written: `if (index < 0 || index >= (int)strlen(str)) → oob`
(the `index < 0` half was added by the `fix:` commit 3ebfaa3 f8907f0; the pinned tree lacked it) -/
def stringDerefOk (len : Nat) (i : Int) : Bool :=
  !(decide (i < 0) || decide (i ≥ (len : Int)))

/-- the guard of the pinned tree (before the fix): no lower-bound test; kept for the record -/
def stringDerefOkPinned (len : Nat) (i : Int) : Bool :=
  !(decide (i ≥ (len : Int)))

/-! ## vm_execute_slice_string -/

def sliceString (s : List UInt8) (fr t : Int) : Option (List UInt8) :=
  let len : Int := s.length
  if fr < 0 || t < 0 || fr ≥ len || t ≥ len then none
  else if fr < t then
    let sl := (t - fr + 1).toNat
    some ((s.drop fr.toNat).take sl)
  else
    let sl := (fr - t + 1).toNat
    some ((s.drop t.toNat).take sl).reverse

/-! ## object_arr_can_add / object_arr_can_mult -/

/-- `for (d = 0; d < arr1->dims; d++) if (arr1->dv[d].elems != arr2->dv[d].elems) return 0;` -/
def extsEq : List (Nat × Nat) → List (Nat × Nat) → Bool
  | (e1, _) :: r1, (e2, _) :: r2 => if e1 ≠ e2 then false else extsEq r1 r2
  | _, _ => true

def canAdd (dv1 dv2 : List (Nat × Nat)) : Bool :=
  if dv1.length ≠ dv2.length then false
  else extsEq dv1 dv2

def canMult (dv1 dv2 : List (Nat × Nat)) : Bool :=
  if dv1.length ≠ 2 || dv2.length ≠ 2 then false
  else
    match dv1, dv2 with
    | [_, (cols1, _)], (rows2, _) :: _ => if cols1 = rows2 then true else false
    | _, _ => false

/-! ## Specification side (S) -/

/-- Π of a list of extents. -/
def prod : List Nat → Nat
  | [] => 1
  | x :: xs => x * prod xs

/-- row-major address: Σ_k idx_k · Π_{j>k} ext_j. -/
def rowMajor : List Nat → List Nat → Nat
  | _ :: es, i :: is => i * prod es + rowMajor es is
  | _, _ => 0

/-- position `k` of the range `[a..b]`. -/
def rangePos (a b : Int) (k : Int) : Int :=
  if a < b then a + k else a - k

/-- number of positions of the range `[a..b]`. -/
def rangeLen (a b : Int) : Nat := (a - b).natAbs + 1

end Never.Idx
