import NeverModel.Model.Index
/-
M-Src — source-level reference evaluator of the modelled core of Never (C02, C08).

Core Lean only; executable; linked into `nmdrv` (`nmdrv src`).  Names are bound to SHARED
MUTABLE CELLS of an explicit store: every expression evaluates to a *location*; binding
(`let`/`var`, parameter passing, record/array construction, `for … in`) never copies.

What is in / out is listed in DESIGN.add.md (C02).
-/
namespace Never.Src

abbrev Name := String
abbrev Loc := Nat
abbrev Bytes := List UInt8

/-- run-time exceptions, names of `except_to_str` -/
inductive Exc
  | division_by_zero | wrong_array_size | index_out_of_bounds | invalid_domain
  | overflow | underflow | inexact | nil_pointer | ffi_fail | unknown
  deriving DecidableEq, Repr, Inhabited

def Exc.name : Exc → String
  | .division_by_zero => "division_by_zero" | .wrong_array_size => "wrong_array_size"
  | .index_out_of_bounds => "index_out_of_bounds" | .invalid_domain => "invalid_domain"
  | .overflow => "overflow" | .underflow => "underflow" | .inexact => "inexact"
  | .nil_pointer => "nil_pointer" | .ffi_fail => "ffi_fail" | .unknown => "unknown_exception"

def Exc.ofName : String → Option Exc
  | "division_by_zero" => some .division_by_zero | "wrong_array_size" => some .wrong_array_size
  | "index_out_of_bounds" => some .index_out_of_bounds | "invalid_domain" => some .invalid_domain
  | "overflow" => some .overflow | "underflow" => some .underflow | "inexact" => some .inexact
  | "nil_pointer" => some .nil_pointer | "ffi_fail" => some .ffi_fail
  | "unknown_exception" => some .unknown | _ => none

/-- declared types, as far as evaluation needs them (implicit numeric conversion at
parameter passing / return / element and field initialisation; default cells of `{[n]} : T`) -/
inductive Ty
  | bool | int | long | float | double | char | string | enumT | arr | rcd | func
  | rng | slc          -- `[..] : range`, `[..] : T` (slice)
  deriving DecidableEq, Repr, Inhabited

inductive Lit
  | int (v : Int) | long (v : Int) | float (bits : Nat) | double (bits : Nat)
  | char (c : Nat) | str (s : Bytes) | bool (b : Bool) | nil
  deriving Repr, Inhabited

inductive BinOp
  | add | sub | mul | div | mod | lt | gt | le | ge | eq | ne | band | bor | bxor | shl | shr
  deriving DecidableEq, Repr, Inhabited

inductive UnOp | neg | not | bnot
  deriving DecidableEq, Repr, Inhabited

inductive Builtin
  | print | printl | printb | printf | printd | printc | prints
  | assert | assertf | length | ord | chr | sqrt | str | strf
  deriving DecidableEq, Repr, Inhabited

/-- a parameter: its name, declared type, and (array parameters) the names bound to the extents -/
structure Param where
  name : Name
  ty : Ty
  dims : List Name := []
  deriving Repr, Inhabited

mutual
inductive Expr
  | lit (l : Lit)
  | var (x : Name)
  | un (op : UnOp) (a : Expr)
  | bin (op : BinOp) (a b : Expr)
  | and (a b : Expr)
  | or (a b : Expr)
  | cond (c t e : Expr)                      -- `c ? t : e`, `if (c) t else e`, `if (c) t` (e = 0)
  | assign (l r : Expr)
  | seq (items : List Item)
  | while (c b : Expr)
  | doWhile (b c : Expr)
  | for (i c s b : Expr)
  | forIn (x : Name) (coll b : Expr)
  | call (f : Expr) (args : List Expr)
  | builtin (b : Builtin) (args : List Expr)
  | lam (f : Func)                           -- `let func …`
  | arrLit (dims : List Nat) (elems : List Expr) (ty : Ty)   -- elements row-major
  | arrNew (dims : List Expr) (ty : Ty)      -- `{[e1, e2]} : T`
  | index (a : Expr) (idx : List Expr)       -- array element / string character / tuple component
  | record (rname : Name) (args : List Expr) -- `R(e1, …)`
  | tuple (args : List Expr)                 -- `(e1, …) : (T1, …)`
  | field (e : Expr) (fname : Name)
  | enumVal (ename : Name) (item : Name)                       -- `E::a`
  | enumRec (ename : Name) (item : Name) (args : List Expr)    -- `E::A(e1, …)`
  | matchE (e : Expr) (guards : List Guard)
  | ifLet (g : Guard) (e : Expr) (els : Expr)  -- guard body = then-branch
  | listcomp (body : Expr) (quals : List Qual) (ty : Ty)
  | range (bounds : List Expr)               -- `[f1 .. t1, f2 .. t2]`: bounds = f1, t1, f2, t2 (source order)
  | slice (a : Expr) (bounds : List Expr)    -- `a[f1 .. t1, …]` on an array, a slice, a range or a string
  | pipe (l : Expr) (f : Expr) (args : List Expr)   -- `l |> f(args)` = `f(l, args)`; a tuple `l` is unpacked
  | dimVar (x : Name)                        -- a use of an extent / bound name of a parameter (`D` of `a[D]`, `f` of `r[f .. t]`)
inductive Item
  | bind (isVar : Bool) (x : Name) (e : Expr)
  | funcs (fs : List Func)                   -- a maximal run of consecutive function items
  | expr (e : Expr)
inductive Func
  | mk (id : Nat) (name : Name) (params : List Param) (ret : Ty) (body : Expr) (catches : List Catch)
inductive Catch
  | mk (exc : Option Exc) (body : Expr)      -- `none` = catch-all
inductive Guard
  | item (ename : Name) (item : Name) (body : Expr)                       -- `E::a -> body`
  | recd (ename : Name) (item : Name) (binds : List Name) (body : Expr)   -- `E::A(x, y) -> body`
  | els (body : Expr)
inductive Qual
  | gen (x : Name) (coll : Expr)
  | filter (e : Expr)
end

instance : Inhabited Expr := ⟨.lit .nil⟩

def Func.id : Func → Nat | .mk i _ _ _ _ _ => i
def Func.name : Func → Name | .mk _ n _ _ _ _ => n
def Func.params : Func → List Param | .mk _ _ p _ _ _ => p
def Func.ret : Func → Ty | .mk _ _ _ r _ _ => r
def Func.body : Func → Expr | .mk _ _ _ _ b _ => b
def Func.catches : Func → List Catch | .mk _ _ _ _ _ c => c
def Catch.exc : Catch → Option Exc | .mk e _ => e
def Catch.body : Catch → Expr | .mk _ b => b

structure RecDecl where
  name : Name
  fields : List (Name × Ty)
  deriving Repr, Inhabited

/-- enum item: name, constant value (plain items), payload fields (record items) -/
structure EnumItem where
  name : Name
  value : Int
  fields : Option (List (Name × Ty))
  deriving Repr, Inhabited

structure EnumDecl where
  name : Name
  items : List EnumItem
  deriving Repr, Inhabited

structure Prog where
  recs : List RecDecl
  enums : List EnumDecl
  funcs : List Func            -- top level functions (one mutually recursive group)
  deriving Inhabited

/-! ### free variables (mirror of `freevar_list_add`: first occurrence order, no duplicates) -/

def paramBinders : List Param → List Name
  | [] => []
  | p :: ps => p.name :: (p.dims ++ paramBinders ps)

def funcNames : List Func → List Name
  | [] => []
  | fn :: fs => fn.name :: funcNames fs

/-- generator variables of a qualifier list, innermost first -/
def qualBinders : List Qual → List Name
  | [] => []
  | .gen x _ :: qs => qualBinders qs ++ [x]
  | .filter _ :: qs => qualBinders qs

def addFv (acc : List Name) (x : Name) : List Name := if x ∈ acc then acc else acc ++ [x]

mutual
/-- `fvE bound acc e`: `acc` extended with the names used in `e` that are not in `bound`
(the binders between the use and the function whose list is being built) -/
def fvE (bound : List Name) (acc : List Name) : Expr → List Name
  | .lit _ | .enumVal _ _ => acc
  | .var x | .dimVar x => if x ∈ bound then acc else addFv acc x
  | .un _ a => fvE bound acc a
  | .bin _ a b | .and a b | .or a b | .assign a b | .while a b | .doWhile a b => fvE bound (fvE bound acc a) b
  | .cond c t e => fvE bound (fvE bound (fvE bound acc c) t) e
  | .seq items => fvItems bound acc items
  | .for i c s b => fvE bound (fvE bound (fvE bound (fvE bound acc i) c) s) b
  | .forIn x coll b => fvE (x :: bound) (fvE bound acc coll) b
  | .call f args => fvE bound (fvEs bound acc args) f
  | .pipe l f args => fvE bound (fvE bound (fvEs bound acc args) l) f
  | .builtin _ args | .arrLit _ args _ | .arrNew args _ | .record _ args | .tuple args
  | .enumRec _ _ args | .range args => fvEs bound acc args
  | .lam fn => fvF bound acc fn
  | .index a idx | .slice a idx => fvEs bound (fvE bound acc a) idx
  | .field e _ => fvE bound acc e
  | .matchE e gs => fvGuards bound (fvE bound acc e) gs
  | .ifLet g e els => fvE bound (fvGuard bound (fvE bound acc e) g) els
  | .listcomp body quals _ => fvE (qualBinders quals ++ bound) (fvQuals bound acc quals) body
def fvEs (bound : List Name) (acc : List Name) : List Expr → List Name
  | [] => acc
  | e :: es => fvEs bound (fvE bound acc e) es
def fvItems (bound : List Name) (acc : List Name) : List Item → List Name
  | [] => acc
  | .expr e :: rest => fvItems bound (fvE bound acc e) rest
  | .bind _ x e :: rest => fvItems (x :: bound) (fvE bound acc e) rest
  | .funcs fs :: rest =>
    let bound' := funcNames fs ++ bound
    fvItems bound' (fvFs bound' acc fs) rest
def fvFs (bound : List Name) (acc : List Name) : List Func → List Name
  | [] => acc
  | fn :: fs => fvFs bound (fvF bound acc fn) fs
/-- a nested function contributes the names it uses that neither it nor the enclosing
function binds (so free variables propagate transitively) -/
def fvF (bound : List Name) (acc : List Name) : Func → List Name
  | .mk _ n ps _ body cs =>
    let bound' := paramBinders ps ++ (n :: bound)
    fvCatches bound' (fvE bound' acc body) cs
def fvCatches (bound : List Name) (acc : List Name) : List Catch → List Name
  | [] => acc
  | .mk _ b :: cs => fvCatches bound (fvE bound acc b) cs
def fvGuard (bound : List Name) (acc : List Name) : Guard → List Name
  | .item _ _ b | .els b => fvE bound acc b
  | .recd _ _ binds b => fvE (binds ++ bound) acc b
def fvGuards (bound : List Name) (acc : List Name) : List Guard → List Name
  | [] => acc
  | g :: gs => fvGuards bound (fvGuard bound acc g) gs
def fvQuals (bound : List Name) (acc : List Name) : List Qual → List Name
  | [] => acc
  | .filter e :: qs => fvQuals bound (fvE bound acc e) qs
  | .gen x coll :: qs => fvQuals (x :: bound) (fvE bound acc coll) qs
end

/-- the free-variable list of a function -/
def fv (f : Func) : List Name := fvF [] [] f

/-! ### values, store, outcome -/

inductive Val
  | int (v : Int32) | long (v : Int64) | float (v : Float32) | double (v : Float) | char (v : UInt8)
  | str (s : Option Bytes)
  | arr (r : Option Loc)                    -- reference to an `arrObj`
  | rcd (r : Option Loc)                    -- reference to a `recObj` (records, tuples, enum records, ranges, slices)
  | clo (c : Option (Nat × List Loc))       -- function id, cells of the defining environment
  | arrObj (dims : List Nat) (elems : Array Loc)
  | recObj (tag : Name) (fields : Array Loc)
  | rng (r : Option Loc)                    -- reference to a `rngObj`
  | slc (r : Option Loc)                    -- reference to a `slcObj`
  | rngObj (bounds : Array Loc)             -- the CELLS from1, to1, from2, to2, … (those the bound expressions evaluated to: shared)
  | slcObj (arr : Loc) (rng : Loc)          -- a slice: the array OBJECT and the range OBJECT
  | dimRef (param : Loc) (k : Nat)          -- what an extent / bound name is bound to: the parameter's cell, the name's position
  deriving Inhabited

abbrev Env := List (Name × Loc)

def lookup (x : Name) : Env → Option Loc
  | [] => none
  | (y, l) :: env => if x = y then some l else lookup x env

def names (env : Env) : List Name := env.map (·.1)
def locs (env : Env) : List Loc := env.map (·.2)

/-- rebuild a closure's environment from the static name stack and the captured cells -/
def mkEnv : List Name → List Loc → Env
  | [], _ => []
  | x :: bs, [] => (x, 0) :: mkEnv bs []
  | x :: bs, l :: ls => (x, l) :: mkEnv bs ls

structure St where
  mem : Array Val := #[]
  out : Bytes := []
  clos : List Nat := []        -- trace: ids of the functions whose closures were created (most recent first)
  raised : List Exc := []      -- trace: every exception raised, handled or not (most recent first)
  deriving Inhabited

inductive Stop
  | assertFailed | outOfFuel | crash (msg : String) | stuck (msg : String)
  deriving Repr, Inhabited, DecidableEq

inductive Res (α : Type)
  | ok (a : α) (s : St)
  | exc (e : Exc) (s : St)
  | stop (k : Stop) (s : St)

def M (α : Type) := St → Res α

@[inline] def M.pure (a : α) : M α := fun s => .ok a s
@[inline] def M.bind (m : M α) (f : α → M β) : M β := fun s =>
  match m s with
  | .ok a s' => f a s'
  | .exc e s' => .exc e s'
  | .stop k s' => .stop k s'

instance : Monad M where
  pure := M.pure
  bind := M.bind

def throwE (e : Exc) : M α := fun s => .exc e { s with raised := e :: s.raised }
def stopM (k : Stop) : M α := fun s => .stop k s
def stuck (msg : String) : M α := stopM (.stuck msg)
def oof : M α := stopM .outOfFuel

def tryCatch (m : M α) (h : Exc → M α) : M α := fun s =>
  match m s with
  | .exc e s' => h e s'
  | r => r

def alloc (v : Val) : M Loc := fun s => .ok s.mem.size { s with mem := s.mem.push v }
def load (l : Loc) : M Val := fun s =>
  match s.mem[l]? with
  | some v => .ok v s
  | none => .stop (.stuck "bad location") s
def store (l : Loc) (v : Val) : M Unit := fun s => .ok () { s with mem := s.mem.setIfInBounds l v }
def emit (b : Bytes) : M Unit := fun s => .ok () { s with out := s.out ++ b }
def logClo (n : Nat) : M Unit := fun s => .ok () { s with clos := n :: s.clos }

/-! ### formatting (printf `%d`, `%lld`, `%.2f`) -/

/-- decimal digits of a natural number (most significant first), with fuel = an upper bound of the digit count -/
def natDigitsAux : Nat → Nat → Bytes → Bytes
  | 0, _, acc => acc
  | fuel + 1, n, acc =>
    let acc' := (UInt8.ofNat (48 + n % 10)) :: acc
    if n / 10 = 0 then acc' else natDigitsAux fuel (n / 10) acc'

def natBytes (n : Nat) : Bytes := natDigitsAux (n + 1) n []

def fmtInt (i : Int) : Bytes :=
  match i with
  | .ofNat n => natBytes n
  | .negSucc n => 45 :: natBytes (n + 1)

/-- `printf("%.2f", (double)x)`: exact decimal expansion, round-half-even at 2 digits -/
def fmt2 (d : Float) : Bytes :=
  let bits := d.toBits.toNat
  let sign := bits / 2^63
  let ex : Nat := (bits / 2^52) % 2048
  let frac := bits % 2^52
  let sgn : Bytes := if sign = 1 then [45] else []
  if ex = 2047 then
    sgn ++ (if frac = 0 then [105, 110, 102] else [110, 97, 110])
  else
    let m := if ex = 0 then frac else frac + 2^52
    let e : Int := if ex = 0 then -1074 else (ex : Int) - 1075
    let n : Nat :=
      if e ≥ 0 then m * 2^e.toNat * 100
      else
        let den := 2^(-e).toNat
        let num := m * 100
        let q := num / den
        let r := num % den
        if 2 * r > den ∨ (2 * r = den ∧ q % 2 = 1) then q + 1 else q
    let ip := n / 100
    let fp := n % 100
    sgn ++ natBytes ip ++ [46] ++ (if fp < 10 then 48 :: natBytes fp else natBytes fp)

/-- C cast `(int)x` / `(long long)x` on x86-64: truncation, "integer indefinite" when out of range -/
def truncBits (d : Float) (width : Nat) : Int :=
  let bits := d.toBits.toNat
  let sign := bits / 2^63
  let ex : Nat := (bits / 2^52) % 2048
  let frac := bits % 2^52
  let indef : Int := -(2^(width-1) : Int)
  if ex = 2047 then indef
  else
    let m := if ex = 0 then frac else frac + 2^52
    let e : Int := if ex = 0 then -1074 else (ex : Int) - 1075
    let mag : Nat := if e ≥ 0 then (if e > 70 then 2^200 else m * 2^e.toNat) else m / 2^(-e).toNat
    let v : Int := if sign = 1 then -(mag : Int) else mag
    if v < indef ∨ v ≥ -indef then indef else v

def f2i (x : Float32) : Int32 := Int32.ofInt (truncBits x.toFloat 32)
def f2l (x : Float32) : Int64 := Int64.ofInt (truncBits x.toFloat 64)
def d2i (x : Float) : Int32 := Int32.ofInt (truncBits x 32)
def d2l (x : Float) : Int64 := Int64.ofInt (truncBits x 64)

/-! ### scalar operations (dynamic dispatch on the run-time tag = the static type) -/

def bool2v (b : Bool) : Val := .int (if b then 1 else 0)

def litVal : Lit → Val
  | .int v => .int (Int32.ofInt v)
  | .long v => .long (Int64.ofInt v)
  | .float b => .float (Float32.ofBits (UInt32.ofNat b))
  | .double b => .double (Float.ofBits (UInt64.ofNat b))
  | .char c => .char (UInt8.ofNat c)
  | .str s => .str (some s)
  | .bool b => bool2v b
  | .nil => .rcd none

/-- numeric conversion to a declared type; `none` = no conversion applies (value kept, cell shared) -/
def convTo (t : Ty) (v : Val) : Option Val :=
  match t, v with
  | .long, .int i => some (.long i.toInt64)
  | .float, .int i => some (.float i.toFloat32)
  | .double, .int i => some (.double i.toFloat)
  | .int, .long i => some (.int i.toInt32)
  | .float, .long i => some (.float i.toFloat32)
  | .double, .long i => some (.double i.toFloat)
  | .int, .float x => some (.int (f2i x))
  | .long, .float x => some (.long (f2l x))
  | .double, .float x => some (.double x.toFloat)
  | .int, .double x => some (.int (d2i x))
  | .long, .double x => some (.long (d2l x))
  | .float, .double x => some (.float x.toFloat32)
  | _, _ => none

def tyOfVal : Val → Option Ty
  | .int _ => some .int | .long _ => some .long | .float _ => some .float | .double _ => some .double
  | _ => none

def rank : Val → Nat
  | .int _ => 1 | .long _ => 2 | .float _ => 3 | .double _ => 4 | _ => 0

/-- usual promotion: the operand of lower rank is converted to the other's type -/
def promote (a b : Val) : Val × Val :=
  if rank a = 0 ∨ rank b = 0 ∨ rank a = rank b then (a, b)
  else if rank a < rank b then
    match tyOfVal b with
    | some t => ((convTo t a).getD a, b)
    | none => (a, b)
  else
    match tyOfVal a with
    | some t => (a, (convTo t b).getD b)
    | none => (a, b)

def signedChar (c : UInt8) : Int := if c.toNat ≥ 128 then (c.toNat : Int) - 256 else c.toNat

def bytesLt : Bytes → Bytes → Bool
  | [], [] => false
  | [], _ :: _ => true
  | _ :: _, [] => false
  | a :: as, b :: bs => if a < b then true else if a > b then false else bytesLt as bs

def isNil : Val → Option Bool
  | .str s => some s.isNone | .arr r => some r.isNone | .rcd r => some r.isNone
  | .clo c => some c.isNone | _ => none

inductive OpRes | val (v : Val) | exc (e : Exc) | crash (m : String) | stuck (m : String)

def cmpOp (op : BinOp) (lt eq : Bool) : Bool :=
  match op with
  | .lt => lt | .gt => !lt && !eq | .le => lt || eq | .ge => !lt
  | .eq => eq | .ne => !eq | _ => false

def isCmp : BinOp → Bool
  | .lt | .gt | .le | .ge | .eq | .ne => true | _ => false

def strOf (v : Val) : Option Bytes :=
  match v with
  | .int i => some (fmtInt i.toInt)
  | .long i => some (fmtInt i.toInt)
  | .float x => some (fmt2 x.toFloat)
  | .double x => some (fmt2 x)
  | .char c => some [c]
  | _ => none

def binop (op : BinOp) (a0 b0 : Val) : OpRes :=
  let (a, b) := promote a0 b0
  match a, b with
  | .int x, .int y =>
    if isCmp op then .val (bool2v (cmpOp op (x < y) (x == y))) else
    match op with
    | .add => .val (.int (x + y)) | .sub => .val (.int (x - y)) | .mul => .val (.int (x * y))
    | .div => if y == 0 then .exc .division_by_zero
              else if x == Int32.minValue && y == -1 then .crash "SIGFPE int MIN / -1" else .val (.int (x / y))
    | .mod => if y == 0 then .exc .division_by_zero
              else if x == Int32.minValue && y == -1 then .crash "SIGFPE int MIN % -1" else .val (.int (x % y))
    | .band => .val (.int (x &&& y)) | .bor => .val (.int (x ||| y)) | .bxor => .val (.int (x ^^^ y))
    | .shl => if y < 0 || y ≥ 32 || x < 0 then .crash "shift UB" else .val (.int (x <<< y))
    | .shr => if y < 0 || y ≥ 32 then .crash "shift UB" else .val (.int (x >>> y))
    | _ => .stuck "int op"
  | .long x, .long y =>
    if isCmp op then .val (bool2v (cmpOp op (x < y) (x == y))) else
    match op with
    | .add => .val (.long (x + y)) | .sub => .val (.long (x - y)) | .mul => .val (.long (x * y))
    | .div => if y == 0 then .exc .division_by_zero
              else if x == Int64.minValue && y == -1 then .crash "SIGFPE long MIN / -1" else .val (.long (x / y))
    | .mod => if y == 0 then .exc .division_by_zero
              else if x == Int64.minValue && y == -1 then .crash "SIGFPE long MIN % -1" else .val (.long (x % y))
    | .band => .val (.long (x &&& y)) | .bor => .val (.long (x ||| y)) | .bxor => .val (.long (x ^^^ y))
    | .shl => if y < 0 || y ≥ 64 || x < 0 then .crash "shift UB" else .val (.long (x <<< y))
    | .shr => if y < 0 || y ≥ 64 then .crash "shift UB" else .val (.long (x >>> y))
    | _ => .stuck "long op"
  | .float x, .float y =>
    if isCmp op then .val (bool2v (cmpOp op (x < y) (x == y))) else
    match op with
    | .add => .val (.float (x + y)) | .sub => .val (.float (x - y)) | .mul => .val (.float (x * y))
    | .div => if y == 0 then .exc .division_by_zero else .val (.float (x / y))
    | _ => .stuck "float op"
  | .double x, .double y =>
    if isCmp op then .val (bool2v (cmpOp op (x < y) (x == y))) else
    match op with
    | .add => .val (.double (x + y)) | .sub => .val (.double (x - y)) | .mul => .val (.double (x * y))
    | .div => if y == 0 then .exc .division_by_zero else .val (.double (x / y))
    | _ => .stuck "double op"
  | .char x, .char y =>
    if isCmp op then .val (bool2v (cmpOp op (signedChar x < signedChar y) (x == y))) else .stuck "char op"
  | .str (some x), .str (some y) =>
    match op with
    | .add => .val (.str (some (x ++ y)))
    | .eq => .val (bool2v (x == y)) | .ne => .val (bool2v (x != y))
    | _ => .stuck "string op"
  | .str none, .str _ | .str (some _), .str none =>
    match op with
    | .add | .eq | .ne => .exc .nil_pointer
    | _ => .stuck "string op"
  | .str s, v =>
    match op, s, strOf v with
    | .add, some x, some y => .val (.str (some (x ++ y)))
    | .add, none, some _ => .exc .nil_pointer
    | _, _, _ =>
      match op, isNil a, b with
      | .eq, some n, .rcd none => .val (bool2v n)
      | .ne, some n, .rcd none => .val (bool2v (!n))
      | _, _, _ => .stuck "string/other op"
  | v, .str s =>
    match op, strOf v, s with
    | .add, some x, some y => .val (.str (some (x ++ y)))
    | .add, some _, none => .exc .nil_pointer
    | _, _, _ =>
      match op, a, isNil b with
      | .eq, .rcd none, some n => .val (bool2v n)
      | .ne, .rcd none, some n => .val (bool2v (!n))
      | _, _, _ => .stuck "other/string op"
  | _, _ =>
    -- comparisons with `nil` (the literal evaluates to `rec none`)
    match op, isNil a, isNil b, a, b with
    | .eq, some na, some nb, _, .rcd none => .val (bool2v (na && nb))
    | .ne, some na, some nb, _, .rcd none => .val (bool2v (!(na && nb)))
    | .eq, some na, some nb, .rcd none, _ => .val (bool2v (na && nb))
    | .ne, some na, some nb, .rcd none, _ => .val (bool2v (!(na && nb)))
    | _, _, _, _, _ => .stuck "binop on these operands"

def unop (op : UnOp) (a : Val) : OpRes :=
  match op, a with
  | .neg, .int x => .val (.int (-x)) | .neg, .long x => .val (.long (-x))
  | .neg, .float x => .val (.float (-x)) | .neg, .double x => .val (.double (-x))
  | .not, .int x => .val (bool2v (x == 0))
  | .bnot, .int x => .val (.int (~~~x)) | .bnot, .long x => .val (.long (~~~x))
  | _, _ => .stuck "unop"

def liftOp : OpRes → M Val
  | .val v => pure v
  | .exc e => throwE e
  | .crash m => stopM (.crash m)
  | .stuck m => stuck m

/-! ### element-wise array arithmetic (`OP_{NEG,ADD,SUB,MUL}_ARR_*`, `OP_MUL_ARR_ARR_*`; shape guards `object_arr_can_add`,
`object_arr_can_mult` = `Idx.canAdd`, `Idx.canMult` of C12): `-a`, `a + b`, `a - b`, `k * a` (scalar on the LEFT), `a * b`
(matrix product).  The result is a fresh array of fresh cells; a nil operand raises `nil_pointer`, shapes that do not
conform raise `wrong_array_size`. -/

def loadVals : List Loc → M (List Val)
  | [] => pure []
  | l :: ls => do
    let v ← load l
    let r ← loadVals ls
    pure (v :: r)

/-- fresh cells for a list of element results (the first failing one decides) -/
def allocRes : List OpRes → M (List Loc)
  | [] => pure []
  | r :: rs => do
    let v ← liftOp r
    let c ← alloc v
    let rest ← allocRes rs
    pure (c :: rest)

def arrObjOf (o : Loc) : M (List Nat × Array Loc) := do
  match (← load o) with
  | .arrObj dims elems => pure (dims, elems)
  | _ => stuck "array reference to a non-array"

/-- the (extent, mult) vector the shape guards of C12 look at (they read the extents only) -/
def extDv (dims : List Nat) : List (Nat × Nat) := dims.map fun n => (n, 1)

def newArr (dims : List Nat) (cells : List Loc) : M Val := do
  let o ← alloc (.arrObj dims cells.toArray)
  pure (.arr (some o))

def arrMap (f : Val → OpRes) (a : Option Loc) : M Val :=
  match a with
  | none => throwE .nil_pointer
  | some o => do
    let de ← arrObjOf o
    let vs ← loadVals de.2.toList
    let cells ← allocRes (vs.map f)
    newArr de.1 cells

/-- `a + b`, `a - b`: same number of dimensions and the same extents, else `wrong_array_size`; element by element -/
def arrZip (op : BinOp) (a b : Option Loc) : M Val :=
  match a, b with
  | some o1, some o2 => do
    let de1 ← arrObjOf o1
    let de2 ← arrObjOf o2
    if Idx.canAdd (extDv de1.1) (extDv de2.1) then do
      let v1 ← loadVals de1.2.toList
      let v2 ← loadVals de2.2.toList
      let cells ← allocRes (List.zipWith (binop op) v1 v2)
      newArr de2.1 cells
    else throwE .wrong_array_size
  | _, _ => throwE .nil_pointer

def zeroLike : Val → Val
  | .long _ => .long 0
  | .float _ => .float (Float32.ofBits 0)
  | .double _ => .double (Float.ofBits 0)
  | _ => .int 0

/-- `sum = 0; sum += x_k * y_k` in the element type -/
def dotRes : Val → List Val → List Val → OpRes
  | acc, x :: xs, y :: ys =>
    match binop .mul x y with
    | .val p =>
      match binop .add acc p with
      | .val s => dotRes s xs ys
      | r => r
    | r => r
  | acc, _, _ => .val acc

/-- the entries of the matrix product, row-major: rows of the `r1 × c1` matrix `v1` with columns of the `c1 × c2` matrix `v2` -/
def matEntries (r1 c1 c2 : Nat) (v1 v2 : List Val) : List OpRes :=
  let zero := zeroLike (v1.headD (.int 0))
  (List.range r1).flatMap fun i => (List.range c2).map fun j =>
    dotRes zero ((v1.drop (i * c1)).take c1) ((List.range c1).map fun k => (v2[k * c2 + j]?).getD zero)

/-- `a * b` on two arrays: both 2-dimensional with columns(a) = rows(b), else `wrong_array_size` -/
def matMul (a b : Option Loc) : M Val :=
  match a, b with
  | some o1, some o2 => do
    let de1 ← arrObjOf o1
    let de2 ← arrObjOf o2
    if Idx.canMult (extDv de1.1) (extDv de2.1) then
      match de1.1, de2.1 with
      | [r1, c1], [_, c2] => do
        let v1 ← loadVals de1.2.toList
        let v2 ← loadVals de2.2.toList
        let cells ← allocRes (matEntries r1 c1 c2 v1 v2)
        newArr [r1, c2] cells
      | _, _ => stuck "matrix product of arrays that are not 2-dimensional"
    else throwE .wrong_array_size
  | _, _ => throwE .nil_pointer

/-- unary operation on a loaded operand: `-a` on an array negates element by element -/
def unopM (op : UnOp) (va : Val) : M Val :=
  match op, va with
  | .neg, .arr a => arrMap (unop .neg) a
  | _, _ => liftOp (unop op va)

/-- binary operation on two loaded operands; two non-nil enum-record values compare by item -/
def binopM (op : BinOp) (va vb : Val) : M Val :=
  match op, va, vb with
  | .eq, .rcd (some oa), .rcd (some ob) => do
    match (← load oa), (← load ob) with
    | .recObj ta _, .recObj tb _ => pure (bool2v (ta == tb))
    | _, _ => stuck "record comparison"
  | .ne, .rcd (some oa), .rcd (some ob) => do
    match (← load oa), (← load ob) with
    | .recObj ta _, .recObj tb _ => pure (bool2v (ta != tb))
    | _, _ => stuck "record comparison"
  | .add, .arr a, .arr b => arrZip .add a b
  | .sub, .arr a, .arr b => arrZip .sub a b
  | .mul, .arr a, .arr b => matMul a b
  | .mul, .int k, .arr b => arrMap (binop .mul (.int k)) b
  | .mul, .long k, .arr b => arrMap (binop .mul (.long k)) b
  | .mul, .float k, .arr b => arrMap (binop .mul (.float k)) b
  | .mul, .double k, .arr b => arrMap (binop .mul (.double k)) b
  | _, _, _ => liftOp (binop op va vb)

def truthy (v : Val) : M Bool :=
  match v with
  | .int x => pure (x != 0)
  | _ => stuck "condition is not int/bool"

def defaultVal : Ty → Val
  | .bool | .int | .enumT => .int 0
  | .long => .long 0
  | .float => .float (Float32.ofBits 0)
  | .double => .double (Float.ofBits 0)
  | .char => .char 0
  | .string => .str none
  | .arr => .arr none
  | .rcd => .rcd none
  | .func => .clo none
  | .rng => .rng none
  | .slc => .slc none

/-- the cell to bind/store for a value of declared type `t`: the same cell unless a numeric
conversion applies (then a fresh cell) -/
def convCell (t : Ty) (l : Loc) : M Loc := do
  let v ← load l
  match convTo t v with
  | some v' => alloc v'
  | none => pure l

def convCells : List Ty → List Loc → M (List Loc)
  | t :: ts, l :: ls => do
    let l' ← convCell t l
    let r ← convCells ts ls
    pure (l' :: r)
  | _, ls => pure ls

def allocN : Nat → Val → M (List Loc)
  | 0, _ => pure []
  | n + 1, v => do
    let l ← alloc v
    let r ← allocN n v
    pure (l :: r)

def prod : List Nat → Nat
  | [] => 1
  | d :: ds => d * prod ds

/-- row-major address; `none` = some index ≥ its extent -/
def rowMajor : List Nat → List Nat → Option Nat
  | [], [] => some 0
  | d :: ds, i :: is =>
    if i < d then (rowMajor ds is).map (fun r => i * prod ds + r) else none
  | _, _ => none

def getInt (l : Loc) : M Int := do
  match (← load l) with
  | .int i => pure i.toInt
  | _ => stuck "int expected"

def getInts : List Loc → M (List Int)
  | [] => pure []
  | l :: ls => do
    let i ← getInt l
    let r ← getInts ls
    pure (i :: r)

/-- `a[i1,…,in]` on an array reference cell -/
def arrDeref (va : Val) (idx : List Int) : M Loc := do
  if idx.any (· < 0) then throwE .index_out_of_bounds else
  match va with
  | .arr none => throwE .nil_pointer
  | .arr (some o) =>
    match (← load o) with
    | .arrObj dims elems =>
      match rowMajor dims (idx.map Int.toNat) with
      | some k =>
        match elems[k]? with
        | some l => pure l
        | none => stuck "array object shorter than its extents"
      | none => throwE .index_out_of_bounds
    | _ => stuck "array reference to a non-array"
  | _ => stuck "indexing a non-array"

/-! ### ranges and slices (`vm_execute_mk_range`, `vm_get_slice_range`, `vm_execute_slice_*`, `*_deref`)

A range object holds the CELLS its bound expressions evaluated to (`MK_RANGE` stores the addresses found on the
stack): `var n = 3; let r = [0 .. n]; n = 5` makes `r` the range `[0 .. 5]`.  A slice holds the array OBJECT (not the
reference cell it was taken from) and a range object.  The index arithmetic is `Never.Idx` (Model/Index.lean, C12). -/

def inInt32 (i : Int) : Bool := decide (-2147483648 ≤ i) && decide (i ≤ 2147483647)

def pairUp : List Int → List (Int × Int)
  | a :: b :: rest => (a, b) :: pairUp rest
  | _ => []

def unpair : List (Int × Int) → List Int
  | [] => []
  | (a, b) :: rest => a :: b :: unpair rest

def allocInts : List Int → M (List Loc)
  | [] => pure []
  | i :: is => do
    let l ← alloc (.int (Int32.ofInt i))
    let r ← allocInts is
    pure (l :: r)

/-- the current values of the bound cells of range object `o`, one (from, to) pair per dimension -/
def rngBounds (o : Loc) : M (List (Int × Int)) := do
  match (← load o) with
  | .rngObj bs => do
    let is ← getInts bs.toList
    pure (pairUp is)
  | _ => stuck "range reference to a non-range"

/-- `vm_get_slice_range` on C `int`s: positions `c`, `d` of the range `[a..b]`.  Negative positions and positions
beyond `b` raise `index_out_of_bounds`; where the C additions `a ± c`, `a ± d` leave `int` the run is flagged -/
def sliceRangeM (a b c d : Int) : M (Int × Int) :=
  if c < 0 ∨ d < 0 then throwE .index_out_of_bounds
  else if !(inInt32 (a + c) && inInt32 (a + d) && inInt32 (a - c) && inInt32 (a - d)) then
    stopM (.crash "range arithmetic overflows int")
  else
    match Idx.sliceRange a b c d with
    | some r => pure r
    | none => throwE .index_out_of_bounds

/-- `[a1..b1, …][c1..d1, …]` dimension by dimension -/
def composeDims : List (Int × Int) → List (Int × Int) → M (List (Int × Int))
  | [], [] => pure []
  | (a, b) :: r1, (c, d) :: r2 => do
    let x ← sliceRangeM a b c d
    let rest ← composeDims r1 r2
    pure (x :: rest)
  | _, _ => stuck "range dimension mismatch"

/-- a fresh range object with fresh bound cells -/
def allocRng (ps : List (Int × Int)) : M Loc := do
  let ls ← allocInts (unpair ps)
  alloc (.rngObj ls.toArray)

/-- `v[f1 .. t1, …]` where `rb` is the range object just built from the bound cells.
array: no check at all (`SLICE_ARRAY`), the slice aliases the array object; range / slice: composition, fresh bound
cells; string: a new string (`SLICE_STRING`, descending bounds reverse) -/
def sliceOf (v : Val) (rb : Loc) : M Loc :=
  match v with
  | .arr none | .rng none | .slc none | .str none => throwE .nil_pointer
  | .arr (some ao) => do
    let s ← alloc (.slcObj ao rb)
    alloc (.slc (some s))
  | .rng (some ro) => do
    let r1 ← rngBounds ro
    let r2 ← rngBounds rb
    let r ← composeDims r1 r2
    let o ← allocRng r
    alloc (.rng (some o))
  | .slc (some so) => do
    match (← load so) with
    | .slcObj ao ro => do
      let r1 ← rngBounds ro
      let r2 ← rngBounds rb
      let r ← composeDims r1 r2
      let o ← allocRng r
      let s ← alloc (.slcObj ao o)
      alloc (.slc (some s))
    | _ => stuck "slice reference to a non-slice"
  | .str (some bs) => do
    match (← rngBounds rb) with
    | [(fr, t)] =>
      match Idx.sliceString bs fr t with
      | some r => alloc (.str (some r))
      | none => throwE .index_out_of_bounds
    | _ => stuck "string slice arity"
  | _ => stuck "slice of something that is not an array, range, slice or string"

/-- position `i_k` of dimension `k` of a range, for every dimension -/
def rangePositions : List (Int × Int) → List Int → M (List Int)
  | [], [] => pure []
  | (a, b) :: rs, i :: is => do
    let x ← sliceRangeM a b i i
    let rest ← rangePositions rs is
    pure (x.1 :: rest)
  | _, _ => stuck "range index arity"

/-- `r[i1, …, in]` on a range: a fresh 1-dimensional int array holding the n positions (`RANGE_DEREF`) -/
def rangeDeref (r : Option Loc) (idx : List Int) : M Loc :=
  match r with
  | none => throwE .nil_pointer
  | some o => do
    let bs ← rngBounds o
    let vs ← rangePositions bs idx
    let cells ← allocInts vs
    let ao ← alloc (.arrObj [vs.length] cells.toArray)
    alloc (.arr (some ao))

/-- `s[i1, …, in]` on a slice: the element CELL of the underlying array (`SLICE_DEREF`) -/
def sliceDeref (r : Option Loc) (idx : List Int) : M Loc :=
  if idx.any (· < 0) then throwE .index_out_of_bounds else
  match r with
  | none => throwE .nil_pointer
  | some so => do
    match (← load so) with
    | .slcObj ao ro => do
      let bs ← rngBounds ro
      let vs ← rangePositions bs idx
      arrDeref (.arr (some ao)) vs
    | _ => stuck "slice reference to a non-slice"

/-- start of a loop over a 1-dimensional range object: (counter := from, ascending := from < to, the cell of `to`).
The range object is looked at once; `to` is re-read before every iteration -/
def rngLoopInit (ro : Loc) : M (Int × Bool × Loc) := do
  match (← load ro) with
  | .rngObj bs =>
    if bs.size ≠ 2 then stuck "loop over a range that is not 1-dimensional" else
    match bs[0]?, bs[1]? with
    | some lf, some lt => do
      let a ← getInt lf
      let b ← getInt lt
      pure (a, decide (a < b), lt)
    | _, _ => stuck "range without bounds"
  | _ => stuck "range reference to a non-range"

def inRange (asc : Bool) (cur t : Int) : Bool := if asc then decide (cur ≤ t) else decide (t ≤ cur)

def stepRange (asc : Bool) (cur : Int) : Int := if asc then cur + 1 else cur - 1

/-- the cell the loop variable is bound to: a fresh int (range), the element cell of the array object (slice) -/
def rngElem (ao : Option Loc) (cur : Int) : M Loc :=
  match ao with
  | none => alloc (.int (Int32.ofInt cur))
  | some a => arrDeref (.arr (some a)) [cur]

/-- what a loop / generator over the collection in cell `lc` runs on: `none` = an array (loops by index),
`some (array object?, from, ascending, cell of to)` = a range or a slice -/
def slcLoopInit (so : Loc) : M (Option Loc × Int × Bool × Loc) := do
  match (← load so) with
  | .slcObj ao ro => do
    let r ← rngLoopInit ro
    pure (some ao, r)
  | _ => stuck "slice reference to a non-slice"

/-- the leading arguments a piped value contributes: a tuple is unpacked into its component CELLS (`RECORD_UNPACK`),
anything else is one argument -/
def pipeArgs (l : Loc) : M (List Loc) := do
  match (← load l) with
  | .rcd (some o) =>
    match (← load o) with
    | .recObj tag fields => if tag = "" then pure fields.toList else pure [l]
    | _ => stuck "record reference to a non-record"
  | .rcd none => stopM (.crash "pipe of nil: a nil tuple raises nil_pointer, a nil record is passed on; the value does not say which")
  | _ => pure [l]

/-! ### declarations context -/

/-- a function of the program as `callClo` needs it: the static name stack at its definition
(innermost first; includes the function's own group / its own name) and its parts -/
structure FunEntry where
  id : Nat
  bs : List Name
  params : List Param
  ret : Ty
  body : Expr
  catches : List Catch

structure Ctx where
  funs : List FunEntry := []
  recs : List RecDecl := []
  enums : List EnumDecl := []

def Ctx.findFun (c : Ctx) (fid : Nat) : Option FunEntry := c.funs.find? (fun e => e.id == fid)

def Ctx.findRec (c : Ctx) (n : Name) : Option RecDecl := c.recs.find? (fun r => r.name == n)

def Ctx.findItem (c : Ctx) (en item : Name) : Option (Nat × EnumItem) :=
  match c.enums.find? (fun e => e.name == en) with
  | some e =>
    match e.items.findIdx? (fun it => it.name == item) with
    | some i => match e.items[i]? with
      | some it => some (i, it)
      | none => none
    | none => none
  | none => none

/-- an enum one of whose items carries a payload: ALL its values are records -/
def Ctx.enumIsRec (c : Ctx) (en : Name) : Bool :=
  match c.enums.find? (fun e => e.name == en) with
  | some e => e.items.any (fun it => it.fields.isSome)
  | none => false

def fieldIndex (fs : List (Name × Ty)) (f : Name) : Option Nat := fs.findIdx? (fun p => p.1 == f)

/-! ### builtins -/

def builtinTys : Builtin → List Ty
  | .print => [.int] | .printl => [.long] | .printb => [.bool] | .printf => [.float] | .printd => [.double]
  | .printc => [.char] | .prints => [.string] | .assert => [.bool] | .assertf => [.float, .float]
  | .length => [.string] | .ord => [.char] | .chr => [.int] | .sqrt => [.float]
  | .str => [.int] | .strf => [.float]

def crlf : Bytes := [13, 10]

def runBuiltin (b : Builtin) (args : List Val) : M Val :=
  match b, args with
  | .print, [.int x] => do emit (fmtInt x.toInt ++ crlf); pure (.int x)
  | .printb, [.int x] => do emit (fmtInt x.toInt ++ crlf); pure (.int x)
  | .printl, [.long x] => do emit (fmtInt x.toInt ++ crlf); pure (.long x)
  | .printf, [.float x] => do emit (fmt2 x.toFloat ++ crlf); pure (.float x)
  | .printd, [.double x] => do emit (fmt2 x ++ crlf); pure (.double x)
  | .printc, [.char c] => do emit [c]; pure (.char c)
  | .prints, [.str (some s)] => do emit s; pure (.str (some s))
  | .prints, [.str none] => throwE .nil_pointer
  | .length, [.str (some s)] => pure (.int (Int32.ofNat s.length))
  | .length, [.str none] => throwE .nil_pointer
  | .assert, [.int x] => if x == 0 then stopM .assertFailed else pure (.int 1)
  | .assertf, [.float x, .float d] => if (-d > x) || (x > d) then stopM .assertFailed else pure (.int 1)
  | .ord, [.char c] => pure (.int (Int32.ofInt (signedChar c)))
  | .chr, [.int x] => pure (.char (UInt8.ofNat (x.toInt % 256).toNat))
  | .sqrt, [.float x] => if x < 0 then throwE .invalid_domain else pure (.float x.sqrt)
  | .str, [.int x] => pure (.str (some (fmtInt x.toInt)))
  | .strf, [.float x] => pure (.str (some (fmt2 x.toFloat)))
  | _, _ => stuck "builtin applied to wrong arguments"

def loadAll : List Loc → M (List Val)
  | [] => pure []
  | l :: ls => do
    let v ← load l
    let r ← loadAll ls
    pure (v :: r)

/-- assignment `l = r`: the LEFT cell is updated in place (numeric values converted to the
left cell's type; reference kinds copy the reference) -/
def assignVal (vl vr : Val) : M Val :=
  match vl, vr with
  | .str _, .str none => throwE .nil_pointer
  | .str _, .str s => pure (.str s)
  | .arr _, .arr none => throwE .nil_pointer
  | .arr _, .arr r => pure (.arr r)
  | .rcd _, .rcd r => pure (.rcd r)
  | .rng _, .rng r => pure (.rng r)
  | .slc _, .slc r => pure (.slc r)
  | .clo _, .clo none => throwE .nil_pointer
  | .clo _, .clo c => pure (.clo c)
  | .char _, .char c => pure (.char c)
  | _, _ =>
    match tyOfVal vl with
    | some t =>
      if rank vr = 0 then stuck "assignment of incompatible values" else
      pure ((convTo t vr).getD vr)
    | none => stuck "assignment of incompatible values"

/-- bind names to cells in order (innermost = last); missing cells are cell 0 -/
def bindNames : List Name → List Loc → Env → Env
  | [], _, env => env
  | x :: xs, [], env => bindNames xs [] ((x, 0) :: env)
  | x :: xs, l :: ls, env => bindNames xs ls ((x, l) :: env)

/-- the value of the `k`-th extent / bound name of the parameter in cell `p`, computed WHERE THE NAME IS USED, from what
the parameter holds then (`ID_DIM_LOCAL`, `VECREF_VEC_DEREF`, `ID_DIM_SLICE`): array — a fresh int holding the extent;
range — the range's OWN bound cell (an alias); slice — a fresh int, 0 for a `from` name and |to − from| for a `to` name;
a nil array / range / slice raises `nil_pointer` (here, not at the call) -/
def dimValue (p : Loc) (k : Nat) : M Loc := do
  match (← load p) with
  | .arr none | .rng none | .slc none => throwE .nil_pointer
  | .arr (some o) =>
    match (← load o) with
    | .arrObj dims _ =>
      match dims[k]? with
      | some n => alloc (.int (Int32.ofNat n))
      | none => stuck "extent name beyond the array's dimensions"
    | _ => stuck "array reference to a non-array"
  | .rng (some o) =>
    match (← load o) with
    | .rngObj bs =>
      match bs[k]? with
      | some c => pure c
      | none => stuck "bound name beyond the range's dimensions"
    | _ => stuck "range reference to a non-range"
  | .slc (some so) =>
    match (← load so) with
    | .slcObj _ ro =>
      if k % 2 = 0 then alloc (.int 0) else do
        let r ← rngBounds ro
        match r[k / 2]? with
        | some ab => alloc (.int (Int32.ofInt (if ab.2 > ab.1 then ab.2 - ab.1 else ab.1 - ab.2)))
        | none => stuck "bound name beyond the slice's dimensions"
    | _ => stuck "slice reference to a non-slice"
  | _ => stuck "extent name of something that is not an array, range or slice"

/-- the names a parameter declares besides its own (`a[D1, D2]`, `r[f .. t] : range`, `s[f .. t] : T`): each is bound to a
fresh cell holding a REFERENCE `(parameter cell, position of the name)`; nothing is looked at here (a nil argument is
fine until a name is used), the value is `dimValue` at every use (`Expr.dimVar`) -/
def bindDimRefs : List Name → Loc → Nat → Env → M Env
  | [], _, _, env => pure env
  | d :: ds, l, k, env => do
    let c ← alloc (.dimRef l k)
    bindDimRefs ds l (k + 1) ((d, c) :: env)

def bindDimsOf (ds : List Name) (l : Loc) (env : Env) : M Env := bindDimRefs ds l 0 env

/-- bind the parameters (converted to their declared scalar types) and, for array / range / slice
parameters, the extent / bound names — innermost = last parameter -/
def bindParams : List Param → List Loc → Env → M Env
  | [], _, env => pure env
  | _ :: _, [], _ => stuck "arity mismatch"
  | p :: ps, l :: ls, env => do
    let l' ← convCell p.ty l
    if p.dims.isEmpty then bindParams ps ls ((p.name, l') :: env)
    else do
      let env2 ← bindDimsOf p.dims l' ((p.name, l') :: env)
      bindParams ps ls env2

def excMatches (c : Option Exc) (e : Exc) : Bool :=
  match c with
  | none => true
  | some e' => e' == e

/-- the functions of a group are bound, in order, to consecutive fresh cells `l, l+1, …` -/
def pushFuncs : List Func → Loc → Env → Env
  | [], _, env => env
  | f :: fs, l, env => pushFuncs fs (l + 1) ((f.name, l) :: env)

def fillFuncs (cells : List Loc) : List Func → Loc → M Unit
  | [], _ => pure ()
  | f :: fs, l => do
    logClo f.id
    store l (.clo (some (f.id, cells)))
    fillFuncs cells fs (l + 1)

/-- a group of mutually visible functions: cells first (so that every closure of the group
captures every member's cell), then the closures -/
def allocGroup (fs : List Func) (env : Env) : M Env := fun st =>
  let base := st.mem.size
  let env' := pushFuncs fs base env
  (do
    let _ ← allocN fs.length (.clo none)
    fillFuncs (locs env') fs base
    pure env') st

/-! ### the evaluator -/

mutual
def evalE : Nat → Ctx → Env → Expr → M Loc
  | 0, _, _, _ => oof
  | f + 1, ctx, env, e =>
    match e with
    | .lit l => alloc (litVal l)
    | .var x =>
      match lookup x env with
      | some l => pure l
      | none => stuck "unbound identifier"
    | .dimVar x =>
      match lookup x env with
      | some l => do
        match (← load l) with
        | .dimRef p k => dimValue p k
        | _ => pure l
      | none => stuck "unbound identifier"
    | .un op a => do
      let la ← evalE f ctx env a
      let va ← load la
      let r ← unopM op va
      alloc r
    | .bin op a b => do
      let la ← evalE f ctx env a
      let lb ← evalE f ctx env b
      let va ← load la
      let vb ← load lb
      let r ← binopM op va vb
      alloc r
    | .and a b => do
      let la ← evalE f ctx env a
      if (← truthy (← load la)) then
        let lb ← evalE f ctx env b
        if (← truthy (← load lb)) then alloc (.int 1) else alloc (.int 0)
      else alloc (.int 0)
    | .or a b => do
      let la ← evalE f ctx env a
      if (← truthy (← load la)) then alloc (.int 1)
      else
        let lb ← evalE f ctx env b
        if (← truthy (← load lb)) then alloc (.int 1) else alloc (.int 0)
    | .cond c t e => do
      let lc ← evalE f ctx env c
      if (← truthy (← load lc)) then evalE f ctx env t else evalE f ctx env e
    | .assign l r => do
      let ll ← evalE f ctx env l
      let lr ← evalE f ctx env r
      let vr ← load lr
      let vl ← load ll
      let v ← assignVal vl vr
      store ll v
      pure ll
    | .seq items => evalSeq f ctx env items
    | .while c b => evalWhile f ctx env c b
    | .doWhile b c => evalDoWhile f ctx env b c
    | .for i c s b => do
      let _ ← evalE f ctx env i
      evalFor f ctx env c s b
    | .forIn x coll b => do
      let lc ← evalE f ctx env coll
      evalForIn f ctx env x lc 0 b
    | .call fe args => do
      let ls ← evalArgs f ctx env args
      let lf ← evalE f ctx env fe
      match (← load lf) with
      | .clo (some (fid, cells)) => callClo f ctx fid cells ls
      | .clo none => throwE .nil_pointer
      | _ => stuck "call of a non-function"
    | .pipe l fe args => do
      let ls ← evalArgs f ctx env args
      let ll ← evalE f ctx env l
      let first ← pipeArgs ll
      let lf ← evalE f ctx env fe
      match (← load lf) with
      | .clo (some (fid, cells)) => callClo f ctx fid cells (first ++ ls)
      | .clo none => throwE .nil_pointer
      | _ => stuck "call of a non-function"
    | .builtin b args => do
      let ls ← evalArgs f ctx env args
      let ls' ← convCells (builtinTys b) ls
      let vs ← loadAll ls'
      let r ← runBuiltin b vs
      alloc r
    | .lam fn =>
      if fn.name = "" then do
        logClo fn.id
        alloc (.clo (some (fn.id, locs env)))
      else do
        let l ← alloc (.clo none)
        logClo fn.id
        store l (.clo (some (fn.id, l :: locs env)))
        pure l
    | .arrLit dims elems ty => do
      let ls ← evalArgs f ctx env elems
      let ls' ← convCells (ls.map (fun _ => ty)) ls
      let o ← alloc (.arrObj dims ls'.toArray)
      alloc (.arr (some o))
    | .arrNew dimEs ty => do
      let ls ← evalArgs f ctx env dimEs
      let ds ← getInts ls
      if ds.any (· ≤ 0) then throwE .index_out_of_bounds else
      let dims := ds.map Int.toNat
      if prod dims > 1000000 then stopM (.crash "array larger than any heap the harness uses") else
      let cells ← allocN (prod dims) (defaultVal ty)
      let o ← alloc (.arrObj dims cells.toArray)
      alloc (.arr (some o))
    | .index a idx => do
      let la ← evalE f ctx env a
      let lis ← evalArgs f ctx env idx
      let is ← getInts lis
      match (← load la) with
      | .str s =>
        match is, s with
        | [i], some bs =>
          if i < 0 then throwE .index_out_of_bounds else
          match bs[i.toNat]? with
          | some c => alloc (.char c)
          | none => throwE .index_out_of_bounds
        | [_], none => throwE .nil_pointer
        | _, _ => stuck "string index arity"
      | .rcd r =>
        match is, r with
        | [i], some o =>
          match (← load o) with
          | .recObj _ fields =>
            match fields[i.toNat]? with
            | some l => pure l
            | none => throwE .index_out_of_bounds
          | _ => stuck "tuple reference to a non-record"
        | [_], none => throwE .nil_pointer
        | _, _ => stuck "tuple index arity"
      | .rng r => rangeDeref r is
      | .slc r => sliceDeref r is
      | va => arrDeref va is
    | .record rn args => do
      let ls ← evalArgs f ctx env args
      match ctx.findRec rn with
      | some d =>
        let ls' ← convCells (d.fields.map (·.2)) ls
        let o ← alloc (.recObj rn ls'.toArray)
        alloc (.rcd (some o))
      | none => stuck ("unknown record " ++ rn)
    | .tuple args => do
      let ls ← evalArgs f ctx env args
      let o ← alloc (.recObj "" ls.toArray)
      alloc (.rcd (some o))
    | .field e fname => do
      let l ← evalE f ctx env e
      match (← load l) with
      | .rcd none => throwE .nil_pointer
      | .rcd (some o) =>
        match (← load o) with
        | .recObj rn fields =>
          match ctx.findRec rn with
          | some d =>
            match fieldIndex d.fields fname with
            | some i =>
              match fields[i]? with
              | some fl => pure fl
              | none => stuck "record object shorter than its declaration"
            | none => stuck ("no field " ++ fname)
          | none => stuck ("unknown record " ++ rn)
        | _ => stuck "record reference to a non-record"
      | _ => stuck "field of a non-record"
    | .enumVal en item =>
      match ctx.findItem en item with
      | some (_, it) =>
        if ctx.enumIsRec en then do
          let o ← alloc (.recObj (en ++ "::" ++ item) #[])
          alloc (.rcd (some o))
        else alloc (.int (Int32.ofInt it.value))
      | none => stuck ("unknown enum item " ++ en ++ "::" ++ item)
    | .enumRec en item args => do
      let ls ← evalArgs f ctx env args
      match ctx.findItem en item with
      | some (_, it) =>
        match it.fields with
        | some fs =>
          let ls' ← convCells (fs.map (·.2)) ls
          let o ← alloc (.recObj (en ++ "::" ++ item) ls'.toArray)
          alloc (.rcd (some o))
        | none => stuck "enum item has no payload"
      | none => stuck ("unknown enum item " ++ en ++ "::" ++ item)
    | .matchE e guards => do
      let l ← evalE f ctx env e
      evalGuards f ctx env l guards
    | .ifLet g e els => do
      let l ← evalE f ctx env e
      evalGuards f ctx env l [g, .els els]
    | .listcomp body quals ty => do
      let o ← alloc (.arrObj [0] #[])
      evalQuals f ctx env quals body ty o
      alloc (.arr (some o))
    | .range bounds => do
      let ls ← evalArgs f ctx env bounds
      let o ← alloc (.rngObj ls.toArray)
      alloc (.rng (some o))
    | .slice a bounds => do
      let la ← evalE f ctx env a
      let ls ← evalArgs f ctx env bounds
      let rb ← alloc (.rngObj ls.toArray)
      sliceOf (← load la) rb

/-- arguments are evaluated RIGHT-TO-LEFT; result in source order -/
def evalArgs : Nat → Ctx → Env → List Expr → M (List Loc)
  | 0, _, _, _ => oof
  | _ + 1, _, _, [] => pure []
  | f + 1, ctx, env, e :: es => do
    let ls ← evalArgs f ctx env es
    let l ← evalE f ctx env e
    pure (l :: ls)

def evalSeq : Nat → Ctx → Env → List Item → M Loc
  | 0, _, _, _ => oof
  | _ + 1, _, _, [] => stuck "empty sequence"
  | f + 1, ctx, env, [.expr e] => evalE f ctx env e
  | f + 1, ctx, env, .expr e :: rest => do
    let _ ← evalE f ctx env e
    evalSeq f ctx env rest
  | f + 1, ctx, env, .bind _ x e :: rest => do
    let l ← evalE f ctx env e
    evalSeq f ctx ((x, l) :: env) rest
  | f + 1, ctx, env, .funcs fs :: rest => do
    let env' ← allocGroup fs env
    evalSeq f ctx env' rest

def evalWhile : Nat → Ctx → Env → Expr → Expr → M Loc
  | 0, _, _, _, _ => oof
  | f + 1, ctx, env, c, b => do
    let lc ← evalE f ctx env c
    if (← truthy (← load lc)) then
      let _ ← evalE f ctx env b
      evalWhile f ctx env c b
    else alloc (.int 0)

def evalDoWhile : Nat → Ctx → Env → Expr → Expr → M Loc
  | 0, _, _, _, _ => oof
  | f + 1, ctx, env, b, c => do
    let _ ← evalE f ctx env b
    let lc ← evalE f ctx env c
    if (← truthy (← load lc)) then evalDoWhile f ctx env b c else alloc (.int 0)

def evalFor : Nat → Ctx → Env → Expr → Expr → Expr → M Loc
  | 0, _, _, _, _, _ => oof
  | f + 1, ctx, env, c, s, b => do
    let lc ← evalE f ctx env c
    if (← truthy (← load lc)) then
      let _ ← evalE f ctx env b
      let _ ← evalE f ctx env s
      evalFor f ctx env c s b
    else alloc (.int 0)

/-- `for (x in a) b`: `x` is bound to the element CELL; the array reference cell is re-read
at every iteration -/
def evalForIn : Nat → Ctx → Env → Name → Loc → Nat → Expr → M Loc
  | 0, _, _, _, _, _, _ => oof
  | f + 1, ctx, env, x, lc, i, b => do
    match (← load lc) with
    | .arr (some o) =>
      match (← load o) with
      | .arrObj dims elems =>
        if i < dims.headD 0 then
          match elems[i]? with
          | some l =>
            let _ ← evalE f ctx ((x, l) :: env) b
            evalForIn f ctx env x lc (i + 1) b
          | none => stuck "array object shorter than its extents"
        else alloc (.int 0)
      | _ => stuck "array reference to a non-array"
    | .arr none => throwE .nil_pointer
    | .rng none | .slc none => throwE .nil_pointer
    | .rng (some ro) => do
      let r ← rngLoopInit ro
      evalForRng f ctx env x none r.1 r.2.1 r.2.2 b
    | .slc (some so) => do
      let r ← slcLoopInit so
      evalForRng f ctx env x r.1 r.2.1 r.2.2.1 r.2.2.2 b
    | _ => stuck "for-in over a non-array"

/-- `for (x in [a..b]) body` / `for (x in s) body` (s a slice): the counter starts at `from`, moves towards `to`
(direction fixed at the start), `to` is re-read before every iteration; `x` is bound to a FRESH int cell (range) or
to the element cell of the underlying array (slice; out of the array: `index_out_of_bounds`) -/
def evalForRng : Nat → Ctx → Env → Name → Option Loc → Int → Bool → Loc → Expr → M Loc
  | 0, _, _, _, _, _, _, _, _ => oof
  | f + 1, ctx, env, x, ao, cur, asc, lt, b => do
    let t ← getInt lt
    if inRange asc cur t then
      let l ← rngElem ao cur
      let _ ← evalE f ctx ((x, l) :: env) b
      if inInt32 (stepRange asc cur) then evalForRng f ctx env x ao (stepRange asc cur) asc lt b
      else stopM (.crash "range counter overflows int")
    else alloc (.int 0)

/-- call of a closure: parameters bound to the argument cells, body evaluated under the
function's catch clauses, result converted to the declared return type -/
def callClo : Nat → Ctx → Nat → List Loc → List Loc → M Loc
  | 0, _, _, _, _ => oof
  | f + 1, ctx, fid, cells, args =>
    match ctx.findFun fid with
    | none => stuck "unknown function id"
    | some fn =>
      if fn.params.length ≠ args.length then stuck "arity mismatch" else do
      let env ← bindParams fn.params args (mkEnv fn.bs cells)
      let r ← tryCatch (evalE f ctx env fn.body) (fun e => handle f ctx env fn.catches e)
      convCell fn.ret r

/-- the first clause matching the exception runs with the PARAMETER environment; an exception
raised by a clause body is offered to the clauses after it; no clause left = propagate -/
def handle : Nat → Ctx → Env → List Catch → Exc → M Loc
  | 0, _, _, _, _ => oof
  | _ + 1, _, _, [], e => throwE e
  | f + 1, ctx, env, c :: cs, e =>
    if excMatches c.exc e then
      tryCatch (evalE f ctx env c.body) (fun e' => handle f ctx env cs e')
    else handle f ctx env cs e

def evalGuards : Nat → Ctx → Env → Loc → List Guard → M Loc
  | 0, _, _, _, _ => oof
  | _ + 1, _, _, _, [] => stuck "no match guard applies"
  | f + 1, ctx, env, l, g :: gs =>
    match g with
    | .els body => evalE f ctx env body
    | .item en item body => do
      match ctx.findItem en item with
      | none => stuck "unknown enum item in guard"
      | some (_, it) =>
        match (← load l) with
        | .int v => if v.toInt = it.value then evalE f ctx env body else evalGuards f ctx env l gs
        | .rcd none => throwE .nil_pointer
        | .rcd (some o) =>
          match (← load o) with
          | .recObj tag _ => if tag = en ++ "::" ++ item then evalE f ctx env body else evalGuards f ctx env l gs
          | _ => stuck "enum reference to a non-record"
        | _ => stuck "match on a non-enum"
    | .recd en item binds body => do
      match (← load l) with
      | .rcd none => throwE .nil_pointer
      | .rcd (some o) =>
        match (← load o) with
        | .recObj tag fields =>
          if tag = en ++ "::" ++ item then
            evalE f ctx (bindNames binds fields.toList env) body
          else evalGuards f ctx env l gs
        | _ => stuck "enum reference to a non-record"
      | .int _ => evalGuards f ctx env l gs
      | _ => stuck "match on a non-enum"

/-- list comprehension qualifiers, left to right (leftmost generator outermost); the
body's result CELLS are appended to the array object `o` -/
def evalQuals : Nat → Ctx → Env → List Qual → Expr → Ty → Loc → M Unit
  | 0, _, _, _, _, _, _ => oof
  | f + 1, ctx, env, [], body, ty, o => do
    let l ← evalE f ctx env body
    let l' ← convCell ty l
    match (← load o) with
    | .arrObj _ elems => store o (.arrObj [elems.size + 1] (elems.push l'))
    | _ => stuck "comprehension target"
  | f + 1, ctx, env, .filter e :: qs, body, ty, o => do
    let l ← evalE f ctx env e
    if (← truthy (← load l)) then evalQuals f ctx env qs body ty o else pure ()
  | f + 1, ctx, env, .gen x coll :: qs, body, ty, o => do
    let lc ← evalE f ctx env coll
    evalGen f ctx env x lc 0 qs body ty o

def evalGen : Nat → Ctx → Env → Name → Loc → Nat → List Qual → Expr → Ty → Loc → M Unit
  | 0, _, _, _, _, _, _, _, _, _ => oof
  | f + 1, ctx, env, x, lc, i, qs, body, ty, o => do
    match (← load lc) with
    | .arr (some a) =>
      match (← load a) with
      | .arrObj dims elems =>
        if i < dims.headD 0 then
          match elems[i]? with
          | some l =>
            evalQuals f ctx ((x, l) :: env) qs body ty o
            evalGen f ctx env x lc (i + 1) qs body ty o
          | none => stuck "array object shorter than its extents"
        else pure ()
      | _ => stuck "array reference to a non-array"
    | .arr none => throwE .nil_pointer
    | .rng none | .slc none => throwE .nil_pointer
    | .rng (some ro) => do
      let r ← rngLoopInit ro
      evalGenRng f ctx env x none r.1 r.2.1 r.2.2 qs body ty o
    | .slc (some so) => do
      let r ← slcLoopInit so
      evalGenRng f ctx env x r.1 r.2.1 r.2.2.1 r.2.2.2 qs body ty o
    | _ => stuck "generator over a non-array"

/-- a comprehension generator over a range or a slice (same loop as `evalForRng`) -/
def evalGenRng : Nat → Ctx → Env → Name → Option Loc → Int → Bool → Loc → List Qual → Expr → Ty → Loc → M Unit
  | 0, _, _, _, _, _, _, _, _, _, _, _ => oof
  | f + 1, ctx, env, x, ao, cur, asc, lt, qs, body, ty, o => do
    let t ← getInt lt
    if inRange asc cur t then
      let l ← rngElem ao cur
      evalQuals f ctx ((x, l) :: env) qs body ty o
      if inInt32 (stepRange asc cur) then evalGenRng f ctx env x ao (stepRange asc cur) asc lt qs body ty o
      else stopM (.crash "range counter overflows int")
    else pure ()
end

/-! ### programs -/

mutual
/-- every function of the program with the static name stack at its definition -/
def collectE (bs : List Name) : Expr → List FunEntry
  | .lit _ | .var _ | .enumVal _ _ | .dimVar _ => []
  | .un _ a => collectE bs a
  | .bin _ a b | .and a b | .or a b | .assign a b | .while a b | .doWhile a b => collectE bs a ++ collectE bs b
  | .cond c t e => collectE bs c ++ collectE bs t ++ collectE bs e
  | .seq items => collectItems bs items
  | .for i c s b => collectE bs i ++ collectE bs c ++ collectE bs s ++ collectE bs b
  | .forIn x coll b => collectE bs coll ++ collectE (x :: bs) b
  | .call f args => collectEs bs args ++ collectE bs f
  | .pipe l f args => collectEs bs args ++ collectE bs l ++ collectE bs f
  | .builtin _ args | .arrLit _ args _ | .arrNew args _ | .record _ args | .tuple args
  | .enumRec _ _ args | .range args => collectEs bs args
  | .lam fn => collectF (if fn.name = "" then bs else fn.name :: bs) fn
  | .index a idx | .slice a idx => collectE bs a ++ collectEs bs idx
  | .field e _ => collectE bs e
  | .matchE e gs => collectE bs e ++ collectGuards bs gs
  | .ifLet g e els => collectE bs e ++ collectGuard bs g ++ collectE bs els
  | .listcomp body quals _ => collectQuals bs quals ++ collectE (qualBinders quals ++ bs) body
def collectEs (bs : List Name) : List Expr → List FunEntry
  | [] => []
  | e :: es => collectE bs e ++ collectEs bs es
def collectItems (bs : List Name) : List Item → List FunEntry
  | [] => []
  | .expr e :: rest => collectE bs e ++ collectItems bs rest
  | .bind _ x e :: rest => collectE bs e ++ collectItems (x :: bs) rest
  | .funcs fs :: rest =>
    let bs' := (funcNames fs).reverse ++ bs
    collectFs bs' fs ++ collectItems bs' rest
def collectFs (bs : List Name) : List Func → List FunEntry
  | [] => []
  | fn :: fs => collectF bs fn ++ collectFs bs fs
def collectF (bs : List Name) : Func → List FunEntry
  | .mk id _ ps r body cs =>
    let bs' := (paramBinders ps).reverse ++ bs
    { id := id, bs := bs, params := ps, ret := r, body := body, catches := cs } :: (collectE bs' body ++ collectCatches bs' cs)
def collectCatches (bs : List Name) : List Catch → List FunEntry
  | [] => []
  | .mk _ b :: cs => collectE bs b ++ collectCatches bs cs
def collectGuard (bs : List Name) : Guard → List FunEntry
  | .item _ _ b | .els b => collectE bs b
  | .recd _ _ binds b => collectE (binds.reverse ++ bs) b
def collectGuards (bs : List Name) : List Guard → List FunEntry
  | [] => []
  | g :: gs => collectGuard bs g ++ collectGuards bs gs
def collectQuals (bs : List Name) : List Qual → List FunEntry
  | [] => []
  | .filter e :: qs => collectE bs e ++ collectQuals bs qs
  | .gen x coll :: qs => collectE bs coll ++ collectQuals (x :: bs) qs
end

def Prog.topNames (p : Prog) : List Name := (funcNames p.funcs).reverse

def Prog.ctx (p : Prog) : Ctx :=
  { funs := collectFs p.topNames p.funcs, recs := p.recs, enums := p.enums }

inductive Arg | int (v : Int) | float (bits : Nat) | str (s : Bytes)
  deriving Repr, Inhabited

def Arg.val : Arg → Val
  | .int v => .int (Int32.ofInt v)
  | .float b => .float (Float32.ofBits (UInt32.ofNat b))
  | .str s => .str (some s)

def allocArgs : List Arg → M (List Loc)
  | [] => pure []
  | a :: as => do
    let r ← allocArgs as
    let l ← alloc a.val
    pure (l :: r)

/-- observable outcome of a run -/
inductive Outcome
  | result (v : Val) (out : Bytes)
  | unhandled (e : Exc) (out : Bytes)
  | assertFailed (out : Bytes)
  | outOfFuel (out : Bytes)
  | crash (msg : String) (out : Bytes)
  | stuck (msg : String) (out : Bytes)

/-- run `main(args)`: the top-level functions form one group of closures over each other -/
def runMain (p : Prog) (args : List Arg) (fuel : Nat) : Res Loc :=
  let m : M Loc := do
    let env ← allocGroup p.funcs []
    match lookup "main" env with
    | none => stuck "no main"
    | some lm =>
      let as ← allocArgs args
      match (← load lm) with
      | .clo (some (fid, cells)) => callClo fuel p.ctx fid cells as
      | _ => stuck "main is not a function"
  m {}

def outcomeOf : Res Loc → Outcome
  | .ok l s => match s.mem[l]? with
    | some v => .result v s.out
    | none => .stuck "bad result location" s.out
  | .exc e s => .unhandled e s.out
  | .stop .assertFailed s => .assertFailed s.out
  | .stop .outOfFuel s => .outOfFuel s.out
  | .stop (.crash m) s => .crash m s.out
  | .stop (.stuck m) s => .stuck m s.out

def eval (p : Prog) (args : List Arg) (fuel : Nat) : Outcome := outcomeOf (runMain p args fuel)

end Never.Src
