/-
Model of the number formatting of front/strutil.c (string_add_<t>, string_print_<t>):
`%d` / `%lld` = decimal numeral of the two's-complement value; `%.2f` / `%.2lf` = the exact binary
value rounded half-to-even to two decimals (glibc), `inf` / `nan` with a sign.  A float is promoted
to double by the variadic call (exact).  Tied to the implementation by correspondence (num_corr).
Core Lean only.
-/
import NeverModel.Model.Num
namespace Never.NumFmt
open Never.Num

def digitChar (d : Nat) : Char := Char.ofNat (48 + d)

/-- decimal digits of a natural number, most significant first (what printf's digit loop produces) -/
def natDigits (n : Nat) : List Char :=
  if _h : n < 10 then [digitChar n] else natDigits (n / 10) ++ [digitChar (n % 10)]
termination_by n
decreasing_by omega

def fmtNat (n : Nat) : String := String.ofList (natDigits n)

/-- `%d` / `%lld` -/
def fmtInt (x : Int) : String :=
  match x with
  | .ofNat n => fmtNat n
  | .negSucc n => "-" ++ fmtNat (n + 1)

def pad2 (n : Nat) : String := String.ofList [digitChar (n / 10), digitChar (n % 10)]

/-- round-half-even of num / 2^sh -/
def rhe (num sh : Nat) : Nat :=
  let q := num >>> sh
  let r := num - (q <<< sh)
  let half := 1 <<< (sh - 1)
  if sh = 0 then num
  else if r > half then q + 1
  else if r < half then q
  else if q % 2 = 0 then q else q + 1

/-- `%.2lf` of the double with these bits -/
def fmtF2 (bits : BitVec 64) : String :=
  let b := bits.toNat
  let sign := b >>> 63
  let ex := (b >>> 52) % 2048
  let man := b % (1 <<< 52)
  let sg := if sign = 1 then "-" else ""
  if ex = 2047 then (if man = 0 then sg ++ "inf" else sg ++ "nan")
  else
    let m := if ex = 0 then man else man + (1 <<< 52)
    let e : Int := (if ex = 0 then 1 else (ex : Int)) - 1075
    -- value = m * 2^e ; hundredths = m * 100 * 2^e
    let n := if e ≥ 0 then (m * 100) <<< e.toNat else rhe (m * 100) (-e).toNat
    sg ++ fmtNat (n / 100) ++ "." ++ pad2 (n % 100)

def fmtVal : NVal → String
  | .int v => fmtInt v.toInt
  | .long v => fmtInt v.toInt
  | .float v =>
    -- a NaN keeps its sign through the promotion to double (Lean's Float.toBits canonicalises NaNs, so decide here)
    if (v.toNat >>> 23) % 256 = 255 ∧ v.toNat % (1 <<< 23) ≠ 0 then (if v.toNat >>> 31 = 1 then "-nan" else "nan")
    else fmtF2 (b64 (f32 v).toFloat)
  | .double v => fmtF2 v
  | .char v => String.ofList [Char.ofNat v.toNat]

end Never.NumFmt
