import NeverModel.Model.Heap
/-!
M-Ledger: which C heap blocks (malloc/strdup/realloc results) the collector owns, and the
malloc/free events every operation of `back/gc.c` + `back/object.c` performs.

Mirrors, function by function:
  object_new_* (number of blocks per object kind), object_delete / object_arr_delete
  (the same blocks, each freed once), gc_new (4 blocks), gc_alloc_any (ownership moves to
  the cell), object_arr_append (`realloc`: a new block only when the payload was NULL),
  gc_sweep_all (`object_delete` in the branch `mark == 0 && object_value != NULL`),
  gc_delete (every cell 0..mem_size-1 that holds an object, then mem, wb_list[0],
  wb_list[1], the collector).

A block is named `(owner cell, index)`; owner 0 (the nil cell never holds an object) names
the collector's own four blocks.  Tied to the C code by correspondence: harness/h_gcl.c
(h_gc + a malloc/free counting shim) prints, per operation, the number of malloc and free
events and the number of live blocks; `nmdrv ledger` prints the same from this model.
Core Lean only (the driver links this file).
-/
namespace Never
open Mem

abbrev Block := Nat × Nat

/-- number of C blocks behind one object: `object_new_*` / `object_delete`
  * scalars, references, c_ptr: the `object` itself;
  * string: `object` + the `strdup`ed buffer;
  * vec: `object` + `object_vec` + the field array (absent when `size == 0`);
  * array: `object` + `object_arr` + `dv` + the element array (absent when `elems == 0`);
  * func: `object` + `object_func`;
  * string_arr: `object` + `object_str_arr` (never stored in the collector by the VM). -/
def blocksOf : Obj → Nat
  | .str _ => 2
  | .strArr _ => 2
  | .vec fs => if fs.isEmpty then 2 else 3
  | .arr _ es => if es.isEmpty then 3 else 4
  | .func _ _ => 2
  | _ => 1

/-- `gc_new`: the collector struct, `mem`, `wb_list[0]`, `wb_list[1]` -/
def gcBlocks : List Block := [(0, 0), (0, 1), (0, 2), (0, 3)]

/-- the blocks owned through cell `a` when it holds `o` -/
def blocksOfCell (a : Nat) : Option Obj → List Block
  | some o => (List.range (blocksOf o)).map fun k => (a, k)
  | none => []

def blocksAt (m : Mem) (a : Nat) : List Block := blocksOfCell a (m.objAt a)

/-- allocator events -/
inductive Ev where
  | malloc (b : Block)
  | free (b : Block)
  deriving Repr, DecidableEq

/-- the allocator's view: `none` = a block is freed that is not live (double free, free of
a foreign pointer) or a live name is handed out again -/
def runEvents : List Block → List Ev → Option (List Block)
  | live, [] => some live
  | live, .malloc b :: es => if b ∈ live then none else runEvents (live ++ [b]) es
  | live, .free b :: es => if b ∈ live then runEvents (live.erase b) es else none

/-- loop body of `gc_sweep_all` together with the `free`s of its `object_delete` call -/
def sweepStepL (s : (Mem × Nat × List Nat) × List Block) (idx : Nat) : (Mem × Nat × List Nat) × List Block :=
  (sweepStep s.1 idx, s.2 ++ (if s.1.1.marked idx = false then blocksAt s.1.1 idx else []))

/-- the blocks `gc_sweep_all` frees, in order -/
def Gc.sweepFrees (g : Gc) : List Block :=
  (g.cur.foldl sweepStepL ((g.mem, g.free, g.oth), [])).2

/-- the mark phase of `gc_run` (same expression as in `Gc.collect`) -/
def Gc.markOnly (g : Gc) (stack : List Slot) (gp : Nat) : Option Mem :=
  match markAccess g.fuel g.mem stack with
  | none => none
  | some m => if gp > 0 then mark g.fuel m gp else some m

/-- frees of one whole collection -/
def Gc.collectFrees (g : Gc) (stack : List Slot) (gp : Nat) : List Block :=
  match g.markOnly stack gp with
  | none => []
  | some m => ({ g with mem := m } : Gc).sweepFrees

/-- the malloc/free events the C code performs for `op` in state `g` -/
def Gc.events (g : Gc) : Op → List Ev
  | .alloc o =>
    match g.alloc o with
    | some (_, loc) => (blocksOfCell loc (some o)).map .malloc
    | none => []          -- "out of memory": the process exits
  | .append a _ =>
    match g.mem.objAt a with
    | some (.arr [_] []) => [.malloc (a, 3)]     -- realloc(NULL, ..)
    | _ => []                                    -- realloc of the existing payload
  | .collect st gp => (g.collectFrees st gp).map .free
  | .omfalos st => (g.collectFrees st 0).map .free
  | .run st gp => if g.wantsCollect then (g.collectFrees st gp).map .free else []
  | _ => []

/-- `gc_delete`: `object_delete` for every cell holding an object (index order), then
`mem`, `wb_list[0]`, `wb_list[1]`, the collector -/
def Gc.deleteEvents (g : Gc) : List Ev :=
  ((List.range g.mem.size).flatMap (blocksAt g.mem)).map .free ++
    [.free (0, 1), .free (0, 2), .free (0, 3), .free (0, 0)]

/-- collector state + the allocator's set of live blocks -/
structure LSt where
  g : Gc
  live : List Block
  deriving Repr, DecidableEq

/-- `gc_new` -/
def LSt.new (n : Nat) : LSt := ⟨Gc.new n, gcBlocks⟩

/-- run a history as `Gc.exec` does, feeding every operation's events to the allocator;
`none` = an allocator error (double / invalid free) occurred -/
def LSt.exec (s : LSt) : List Op → Option LSt
  | [] => some s
  | op :: ops =>
    if s.g.wellTyped op then
      match s.g.apply op with
      | some g' =>
        match runEvents s.live (s.g.events op) with
        | some l => LSt.exec ⟨g', l⟩ ops
        | none => none
      | none => s.exec ops
    else s.exec ops

/-- `gc_delete` at the end of a history -/
def LSt.delete (s : LSt) : Option (List Block) := runEvents s.live s.g.deleteEvents

/-- blocks the collector state accounts for: its own four + those of the allocated list -/
def Gc.owned (g : Gc) : List Block := gcBlocks ++ g.cur.flatMap (blocksAt g.mem)

/-- the sum over allocated cells -/
def Gc.ownedCount (g : Gc) : Nat :=
  4 + (g.cur.map fun a => match g.mem.objAt a with | some o => blocksOf o | none => 0).sum

end Never
