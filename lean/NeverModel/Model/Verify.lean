import NeverModel.Model.Vm
/-
M-Ver: a static checker of emitted modules (it models nothing of the compiler: it inspects
what the real emitter produced).  Forward dataflow over ALL addresses of the code array —
executed or not — computing the stack height of every instruction relative to the height at
function entry, and checking the well-formedness conditions of C07 (and the static side
conditions of C13 / C03).  `verify md = .ok summary` is the per-module certificate.
Core Lean only.
-/
namespace Never.Ver
open Never Never.Vm

/-- stack effect of the opcodes whose effect does not depend on the machine state:
(slots popped, slots pushed); `none` = handled individually below -/
def simpleEffect (i : Instr) : Option (Nat × Nat) :=
  if (binOpOf i.op).isSome then some (2, 1) else
  if (unOpOf i.op).isSome then some (1, 1) else
  if (convOf i.op).isSome then some (1, 1) else
  if (nilCmpOf i.op).isSome then some (2, 1) else
  if (strAddOf i.op).isSome then some (2, 1) else
  match arrOpOf i.op with
  | some (_, 0) => some (1, 1)
  | some _ => some (2, 1)
  | none =>
  if (mkArrayElem i.op).isSome then some (i.w0, 1) else
  match i.op with
  | .INT | .LONG | .FLOAT | .DOUBLE | .CHAR | .STRING | .C_NULL | .ID_TOP | .ID_LOCAL | .ID_DIM_LOCAL | .ID_DIM_SLICE
  | .ID_GLOBAL | .OP_DUP_INT | .COPYGLOB | .NIL_RECORD_REF | .PUSH_EXCEPT | .VEC_DEREF | .VECREF_VEC_DEREF | .DUP => some (0, 1)
  | .ID_FUNC_ADDR | .ID_FUNC_ENTRY | .ENUMTYPE_RECORD_TO_INT | .VECREF_DEREF => some (1, 1)
  | .LABEL | .LINE | .FUNC_DEF | .FUNC_OBJ | .OP_INC_INT | .OP_DEC_INT => some (0, 0)
  | .OP_ADD_STRING | .OP_EQ_STRING | .OP_NEQ_STRING | .OP_EQ_C_PTR | .OP_NEQ_C_PTR | .OP_EQ_NIL | .OP_NEQ_NIL
  | .SLICE_ARRAY | .SLICE_RANGE | .SLICE_SLICE | .SLICE_STRING | .STRING_DEREF | .VECREF_VEC_INDEX_DEREF => some (2, 1)
  | .OP_ASS_INT | .OP_ASS_LONG | .OP_ASS_FLOAT | .OP_ASS_DOUBLE | .OP_ASS_CHAR | .OP_ASS_STRING | .OP_ASS_C_PTR
  | .OP_ASS_ARRAY | .OP_ASS_RECORD | .OP_ASS_FUNC | .OP_ASS_RECORD_NIL => some (2, 1)
  | .JUMPZ | .ARRAY_APPEND | .REWRITE => some (1, 0)
  | .MK_RANGE => some (2 * i.w0, 1)
  | .ARRAY_DEREF | .ARRAYREF_DEREF | .SLICE_DEREF | .RANGE_DEREF => some (i.w0 + 1, 1)
  | .RECORD | .GLOBAL_VEC => some (i.w0, 1)
  | .RECORD_UNPACK => some (1, i.w0)
  | .ALLOC => some (0, i.w0)
  | .BUILD_IN => if i.w0 == 7 ∨ i.w0 == 22 then some (2, 1) else if i.w0 == 12 then some (0, 1) else if i.w0 == 29 then some (1, 1) else some (1, 1)
  | _ => none

/-- abstract stack: height relative to function entry + known constants of the top slots (for MK_INIT_ARRAY) -/
structure AbsSt where
  h : Nat
  consts : List (Option Int)   -- top of stack first; shorter than h = unknown below
  /-- heights at which the MARKs of the calls in preparation were executed, innermost first: the five frame words of such a MARK
  occupy the heights `m+1 … m+5` until its CALL is executed ("pending" frame records) -/
  marks : List Nat := []
  deriving Repr, DecidableEq, Inhabited

structure Summary where
  instrs : Nat := 0
  functions : Nat := 0
  calls : Nat := 0
  tailCalls : Nat := 0
  jumps : Nat := 0
  handlers : Nat := 0
  maxHeight : Nat := 0
  unreached : Nat := 0
  deriving Repr, Inhabited

def popN (s : AbsSt) (n : Nat) : Option AbsSt :=
  if n ≤ s.h then some { s with h := s.h - n, consts := s.consts.drop n } else none

def pushN (s : AbsSt) (n : Nat) (c : Option Int := none) : AbsSt :=
  { s with h := s.h + n, consts := (List.replicate n c) ++ s.consts }

/-- merge at a join: heights (and the pending MARKs) must agree; constants are intersected -/
def joinSt (a b : AbsSt) : Option AbsSt :=
  if a.h == b.h && a.marks == b.marks then
    some { h := a.h, consts := List.zipWith (fun x y => if x == y then x else none) a.consts b.consts, marks := a.marks } else none

/-- function regions: `starts[k]` = address of the k-th FUNC_DEF; region k = [starts[k], starts[k+1]) ; the code before the
first FUNC_DEF is the global initialisation + entry stub (region "top") -/
def funcStarts (md : Module) : List Nat :=
  (List.range md.code.size).filter fun a => match md.code[a]? with | some i => i.op == .FUNC_DEF | none => false

def regionOf (starts : List Nat) (a : Nat) : Nat := (starts.filter (· ≤ a)).length

/-- start address of the function containing `a` (`none` = the top region before the first function) -/
def regionStart (starts : List Nat) (a : Nat) : Option Nat := (starts.filter (· ≤ a)).getLast?

/-- parameter count of the function containing `a`, as reported by the emitter hook; the top region has none -/
def paramsAt (md : Module) (starts : List Nat) (a : Nat) : Option Nat :=
  match regionStart starts a with
  | none => some 0
  | some st => (md.fnParams.find? (·.1 == st)).map (·.2)

abbrev HMap := Array (Option AbsSt)

/-- record a state for address `a`; `.error` on a height conflict -/
def flow (hm : HMap) (work : List Nat) (a : Nat) (s : AbsSt) : Except String (HMap × List Nat) :=
  match hm[a]? with
  | none => .error s!"control transfer outside the code array to {a}"
  | some none => .ok (hm.set! a (some s), a :: work)
  | some (some old) =>
    match joinSt old s with
    | none => .error s!"stack heights (or calls in preparation) disagree at {a}: {old.h} {old.marks} vs {s.h} {s.marks}"
    | some j => if j == old then .ok (hm, work) else .ok (hm.set! a (some j), a :: work)

def isHandlerOp (o : Opc) : Bool := o == .CLEAR_STACK || o == .RETHROW || o == .UNHANDLED_EXCEPTION

/-- one abstract step at address `a` in state `s`; returns successor (address, state) pairs -/
def absStep (md : Module) (starts : List Nat) (a : Nat) (i : Instr) (s : AbsSt) : Except String (List (Nat × AbsSt)) := do
  let n := md.code.size
  let need (k : Nat) : Except String AbsSt :=
    match popN s k with | some r => .ok r | none => .error s!"{a}: needs {k} operands, the stack of this function holds {s.h}"
  let sameRegion (t : Nat) : Bool := regionOf starts t == regionOf starts a
  let np : Nat := (paramsAt md starts a).getD 0
  let topRegion := (regionStart starts a).isNone
  -- frame-relative addressing `sp - d`: the slot must lie in the function's own frame (parameters + what it pushed);
  -- in the top region (global initialisation, entry stub) everything below is the global segment
  let reachOk (d : Int) (what : String) : Except String Unit :=
    if d < 0 then .error s!"{a}: {what} addresses a slot above the top of stack (distance {d})"
    else if !topRegion ∧ d ≥ (s.h : Int) + np then .error s!"{a}: {what} reaches {d} below the top: outside the frame (height {s.h}, {np} parameters)"
    else .ok ()
  let idLocalOk (sl idx : Int) : Except String Unit := reachOk (sl - idx) "local"
  match i.op with
  | .UNKNOWN => .error s!"{a}: unknown opcode"
  | .ID_FUNC_FUNC => .error s!"{a}: unresolved function placeholder"
  | .FUNC_FFI | .FUNC_FFI_BOOL | .FUNC_FFI_INT | .FUNC_FFI_LONG | .FUNC_FFI_FLOAT | .FUNC_FFI_DOUBLE | .FUNC_FFI_CHAR
  | .FUNC_FFI_STRING | .FUNC_FFI_VOID | .FUNC_FFI_C_PTR | .FUNC_FFI_RECORD => .ok []   -- FFI stub bodies: descriptor data, not verified here
  | .JUMP => do
    let t := ((a : Int) + 1 + i32 i.w0)
    if t < 0 ∨ t ≥ n then throw s!"{a}: jump outside the code array" else
    let t := t.toNat
    if t == 0 ∨ (md.code[t - 1]?.map (·.op)) != some .LABEL then throw s!"{a}: jump to {t} which does not follow a LABEL" else
    if !sameRegion t then throw s!"{a}: jump to {t} in another function" else pure [(t, s)]
  | .JUMPZ => do
    let r ← need 1
    let t := ((a : Int) + 1 + i32 i.w0)
    if t < 0 ∨ t ≥ n then throw s!"{a}: jump outside the code array" else
    let t := t.toNat
    if t == 0 ∨ (md.code[t - 1]?.map (·.op)) != some .LABEL then throw s!"{a}: jump to {t} which does not follow a LABEL" else
    if !sameRegion t then throw s!"{a}: jump to {t} in another function" else pure [(t, r), (a + 1, r)]
  | .MARK => do
    let ra := i.w0
    if ra == 0 ∨ ra ≥ n then throw s!"{a}: MARK return address {ra} outside the code" else
    if (md.code[ra - 1]?.map (·.op)) != some .CALL then throw s!"{a}: MARK return address {ra} does not follow a CALL" else
    if !sameRegion ra then throw s!"{a}: MARK return address in another function" else
    -- the call returns to `ra` with the frame popped and one result pushed
    pure [(ra, pushN s 1), (a + 1, { pushN s 5 with marks := s.h :: s.marks })]
  | .CALL => do
    let r ← need 1
    -- a CALL that is the target of a MARK is an ordinary call: control continues in the callee and comes back at a+1
    -- (that edge was added by the MARK).  Otherwise it is a tail call: the frame must be exactly the fresh-entry frame.
    let marked := (List.range n).any fun m => match md.code[m]? with | some mi => mi.op == .MARK && mi.w0 == a + 1 | none => false
    if marked then pure [] else
    if r.h != 0 then throw s!"{a}: tail call leaves {r.h} slots above the parameters (SLIDE distance wrong)" else pure []
  | .SLIDE => do
    let q := i.w0; let m := i.w1
    if q == 0 then pure [(a + 1, s)] else
    if q + m ≤ s.h then
      pure [(a + 1, { s with h := s.h - q, consts := s.consts.take m ++ s.consts.drop (q + m) })]
    else
      -- the slide reaches into the parameter block: only the last-call sequence `args; func; SLIDE n+L n+1; CALL` may do
      -- that, and then exactly the n parameters are replaced: height = q + 1, and an unmarked CALL follows
      if s.h != q + 1 ∨ m != np + 1 ∨ q + m != s.h + np then throw s!"{a}: SLIDE {q} {m} at height {s.h} in a function of {np} parameters is not the last-call slide (n+L, n+1)" else
      if (md.code[a + 1]?.map (·.op)) != some .CALL then throw s!"{a}: SLIDE into the parameters is not followed by CALL" else
      pure [(a + 1, { h := 1, consts := [] })]
  | .RET => do
    if s.h != 1 then throw s!"{a}: function returns with {s.h} slots above its parameters (must be exactly its result)" else pure []
  | .RETHROW | .UNHANDLED_EXCEPTION | .HALT => pure []
  | .CLEAR_STACK =>
    if !topRegion ∧ i.w0 != np then throw s!"{a}: CLEAR_STACK {i.w0} in a function of {np} parameters" else pure [(a + 1, { h := 0, consts := [] })]
  | .PUSH_PARAM => pure [(a + 1, pushN s md.params.length)]
  | .MK_INIT_ARRAY => do
    let dims := i.w0
    let ds := s.consts.take dims
    if ds.length != dims ∨ ds.any (·.isNone) then throw s!"{a}: MK_INIT_ARRAY extents are not constant pushes" else
    let cnt := ds.foldl (fun acc d => acc * (d.getD 0).toNat) 1
    let r ← need (dims + cnt)
    pure [(a + 1, pushN r 1)]
  | .STRING => if i.w0 ≥ md.strtab.size then throw s!"{a}: string index {i.w0} outside the string table" else pure [(a + 1, pushN s 1)]
  | .BUILD_IN => do
    if i.w0 == 0 ∨ i.w0 > 30 then throw s!"{a}: unknown build-in {i.w0}" else
    match simpleEffect i with
    | some (p, q) => let r ← need p; pure [(a + 1, pushN r q)]
    | none => throw s!"{a}: no effect"
  | .INT => pure [(a + 1, pushN s 1 (some (i32 i.w0)))]
  | .ID_FUNC_ADDR => do
    let r ← need 1
    if (md.code[i.w0]?.map (·.op)) != some .FUNC_DEF ∧ (md.code[i.w0]?.map (·.op)) != some .FUNC_FFI then throw s!"{a}: function value points at {i.w0} which is not a function entry" else pure [(a + 1, pushN r 1)]
  | .ID_LOCAL | .ID_DIM_LOCAL | .ID_DIM_SLICE | .OP_DUP_INT => do
    idLocalOk (i32 i.w0) (i32 i.w1); pure [(a + 1, pushN s 1)]
  | .OP_INC_INT | .OP_DEC_INT => do idLocalOk (i32 i.w0) (i32 i.w1); pure [(a + 1, s)]
  | .ARRAY_APPEND => do
    idLocalOk (i32 i.w0) (i32 i.w1); let r ← need 1; pure [(a + 1, r)]
  | .VEC_DEREF | .VECREF_VEC_DEREF => do
    reachOk (i32 i.w0) "attribute base"; pure [(a + 1, pushN s 1)]
  | .DUP => do reachOk ((i.w0 : Int) - 1) "DUP"; pure [(a + 1, pushN s 1)]
  | .REWRITE => do
    let r ← need 1
    reachOk (i.w0 : Int) "REWRITE"; pure [(a + 1, r)]
  | _ =>
    match simpleEffect i with
    | some (p, q) => do let r ← need p; pure [(a + 1, pushN r q)]
    | none => throw s!"{a}: opcode without a stack effect"

/-- worklist iteration (fuel = a generous bound on the number of state changes) -/
def iterate (md : Module) (starts : List Nat) : Nat → HMap → List Nat → Except String HMap
  | 0, _, _ => .error "dataflow did not converge"
  | _, hm, [] => .ok hm
  | fuel+1, hm, a :: work =>
    match md.code[a]?, hm[a]? with
    | some i, some (some s) =>
      match absStep md starts a i s with
      | .error e => .error e
      | .ok succs =>
        let r := succs.foldlM (fun (acc : HMap × List Nat) (p : Nat × AbsSt) => flow acc.1 acc.2 p.1 p.2) (hm, work)
        match r with
        | .error e => .error e
        | .ok (hm', work') => iterate md starts fuel hm' work'
    | _, _ => iterate md starts fuel hm work

/-- certificate re-check at one address: for an instruction of the effect table the recorded height of the fall-through
successor is `h - pops + pushes` and the operands exist (`JUMPZ`: both successors).  `verifyH` re-checks the height map it
computed with this predicate at every address, so that what is proved about verified modules (Props/C07) rests on this
five-line test, not on the worklist iteration. -/
def flowOkAt (md : Module) (hm : HMap) (a : Nat) : Bool :=
  match md.code[a]?, hm[a]? with
  | some i, some (some s) =>
    match simpleEffect i with
    | some (p, q) =>
      let nextOk := match hm[a + 1]? with | some (some s') => p ≤ s.h && s'.h + p == s.h + q | _ => false
      if i.op == .JUMPZ then
        let t := ((a : Int) + 1 + i32 i.w0).toNat
        nextOk && (match hm[t]? with | some (some s') => s'.h + p == s.h + q | _ => false)
      else nextOk
    | none =>
      if i.op == .JUMP then
        let t := ((a : Int) + 1 + i32 i.w0).toNat
        (match hm[t]? with | some (some s') => s'.h == s.h | _ => false)
      else true
  | _, _ => true

/-! ### certificate re-check, second part: the frame opcodes, frame-relative addressing, function regions, handlers

`flowOkAt` re-checks the heights along the edges of the effect table.  `frameOkAt` re-checks what `absStep` decided for the
opcodes outside the table (MARK, CALL, SLIDE, RET, CLEAR_STACK, PUSH_PARAM, MK_INIT_ARRAY), the frame-relative reach of the
addressing opcodes, and that every edge stays inside one function (so that the parameter count of the running function is the
same at both ends).  It is stated on the finished height map only (no iteration), and Props/C07 rests on it. -/

/-- `a` and `t` lie in the same function region (same `FUNC_DEF` before them, or both in the top region) -/
def sameFn (starts : List Nat) (a t : Nat) : Bool := regionStart starts a == regionStart starts t

/-- parameter count the certificate uses at address `a` -/
def npAt (md : Module) (starts : List Nat) (a : Nat) : Nat := (paramsAt md starts a).getD 0

/-- `a` is in the top region (global initialisation and entry stub) -/
def topAt (starts : List Nat) (a : Nat) : Bool := (regionStart starts a).isNone

/-- the successor `t` of `a` was reached with height `k` and lies in the same function -/
def hAt (starts : List Nat) (hm : HMap) (a t k : Nat) : Bool :=
  match hm[t]? with
  | some (some s') => s'.h == k && sameFn starts a t
  | _ => false

/-- frame-relative reach `sp - d` at height `h` in a function of `np` parameters: at or below the top, above the caller's data -/
def reachB (top : Bool) (np h : Nat) (d : Int) : Bool := decide (0 ≤ d) && (top || decide (d < (h : Int) + (np : Int)))

/-- is the CALL at `a` the one a MARK returns behind? -/
def markedCall (md : Module) (a : Nat) : Bool :=
  (List.range md.code.size).any fun m => match md.code[m]? with | some mi => mi.op == .MARK && mi.w0 == a + 1 | none => false

/-- the constant extents recorded for a MK_INIT_ARRAY at abstract state `s`: `some ds` when the top `dims` slots are known
constants (top of stack first) -/
def initExts (s : AbsSt) (dims : Nat) : Option (List Int) :=
  let ds := s.consts.take dims
  if ds.length == dims && ds.all (·.isSome) then some (ds.map (·.getD 0)) else none

/-- number of elements of an array literal with these extents, as the VM computes it (`unsigned` extents) -/
def extsCount (ds : List Int) : Nat := Idx.prod (ds.map fun e => (e % 4294967296).toNat)

def frameOkAt (md : Module) (starts : List Nat) (hm : HMap) (a : Nat) : Bool :=
  match md.code[a]?, hm[a]? with
  | some i, some (some s) =>
    let np := npAt md starts a
    let top := topAt starts a
    match i.op with
    | .MARK => hAt starts hm a i.w0 (s.h + 1) && hAt starts hm a (a + 1) (s.h + 5)
    | .CALL => if markedCall md a then decide (1 ≤ s.h) else s.h == 1
    | .SLIDE =>
      if i.w0 == 0 then hAt starts hm a (a + 1) s.h
      else if i.w0 + i.w1 ≤ s.h then hAt starts hm a (a + 1) (s.h - i.w0)
      else s.h == i.w0 + 1 && i.w1 == np + 1 && (md.code[a + 1]?.map (·.op)) == some .CALL && hAt starts hm a (a + 1) 1
    | .RET => s.h == 1
    | .CLEAR_STACK => i.w0 == np && hAt starts hm a (a + 1) 0
    | .PUSH_PARAM => hAt starts hm a (a + 1) (s.h + md.params.length)
    | .MK_INIT_ARRAY =>
      match initExts s i.w0 with
      | some ds => decide (extsCount ds < 4294967296) && decide (i.w0 + extsCount ds ≤ s.h) && hAt starts hm a (a + 1) (s.h - (i.w0 + extsCount ds) + 1)
      | none => false
    | .JUMP => sameFn starts a ((a : Int) + 1 + i32 i.w0).toNat
    | .JUMPZ => sameFn starts a ((a : Int) + 1 + i32 i.w0).toNat && sameFn starts a (a + 1)
    | .ID_LOCAL | .ID_DIM_LOCAL | .ID_DIM_SLICE | .OP_DUP_INT | .OP_INC_INT | .OP_DEC_INT | .ARRAY_APPEND =>
      reachB top np s.h (i32 i.w0 - i32 i.w1) && sameFn starts a (a + 1)
    | .VEC_DEREF | .VECREF_VEC_DEREF => reachB top np s.h (i32 i.w0) && sameFn starts a (a + 1)
    | .DUP => reachB top np s.h ((i.w0 : Int) - 1) && sameFn starts a (a + 1)
    | .REWRITE => reachB top np s.h (i.w0 : Int) && sameFn starts a (a + 1)
    | _ => (simpleEffect i).isNone || sameFn starts a (a + 1)
  | _, _ => true

/-- an exception handler entry: `CLEAR_STACK` / `RETHROW` / `UNHANDLED_EXCEPTION`, possibly behind a `LABEL` -/
def handlerEntry (md : Module) (a : Nat) : Bool :=
  (match md.code[a]? with | some i => isHandlerOp i.op | none => false) ||
  ((match md.code[a]? with | some i => i.op == .LABEL | none => false) &&
   (match md.code[a + 1]? with | some i => isHandlerOp i.op | none => false))

/-- every handler of the exception table is a handler entry that the height map reached -/
def handlersOk (md : Module) (hm : HMap) : Bool :=
  (md.exctab.toList.take md.excCount).all fun e =>
    handlerEntry md e.handler && (match hm[e.handler]? with | some (some _) => true | _ => false)

/-! ### certificate re-check, third part: frame records of calls in preparation ("pending")

Between a MARK (executed at height `m`) and its CALL the five frame words lie at heights `m+1 … m+5` of the running function's frame.
`AbsSt.marks` lists these `m`, innermost first.  `pendOkAt` re-checks, on the finished map: the marks are properly nested below the
height; MARK pushes its height, its return address carries the marks without it; CLEAR_STACK drops them; every other edge keeps them;
and no instruction pops, slides or writes into the pending words: after popping its operands an instruction still stands at or above
the top word `m+5` of the innermost pending record (`pendFloor`). -/

/-- the height of the top word of the innermost pending record (0: none) -/
def pendFloor (ms : List Nat) : Nat := match ms with | [] => 0 | m :: _ => m + 5

/-- pending records are nested: each lies completely below the next inner one, the innermost below the current height -/
def marksNested (h : Nat) : List Nat → Bool
  | [] => true
  | m :: ms => decide (m + 5 ≤ h) && marksNested m ms

/-- the distance below `sp` at which a frame-relative opcode addresses the stack (`none`: not such an opcode) -/
def frameDist (i : Instr) : Option Int :=
  match i.op with
  | .ID_LOCAL | .ID_DIM_LOCAL | .ID_DIM_SLICE | .OP_DUP_INT | .OP_INC_INT | .OP_DEC_INT | .ARRAY_APPEND => some (i32 i.w0 - i32 i.w1)
  | .VEC_DEREF | .VECREF_VEC_DEREF => some (i32 i.w0)
  | .DUP => some ((i.w0 : Int) - 1)
  | .REWRITE => some (i.w0 : Int)
  | _ => none

/-- the slot at distance `d` below the top (height `h`) is not one of the five words of a pending record -/
def notPendingWord (h : Nat) (ms : List Nat) (d : Int) : Bool :=
  ms.all fun m => !(decide ((m : Int) + 1 ≤ (h : Int) - d) && decide ((h : Int) - d ≤ (m : Int) + 5))

/-- the constants pushed by the run of `INT` instructions that ends immediately before address `t` (nearest first = top of stack
first), as the VM will read them back (`int` objects).  Purely syntactic: control reaches `t` from inside such a run only by falling
through it (the re-check makes sure that no jump target, return address, function or handler entry lies behind an `INT`). -/
def intRun (md : Module) : Nat → List Int
  | 0 => []
  | t + 1 =>
    match md.code[t]? with
    | some i => if i.op == .INT then (bv32 i.w0).toInt :: intRun md t else []
    | none => []

/-- the successor `t` carries the marks `ms` -/
def mAt (hm : HMap) (t : Nat) (ms : List Nat) : Bool :=
  match hm[t]? with | some (some s') => s'.marks == ms | _ => false

def pendOkAt (md : Module) (hm : HMap) (a : Nat) : Bool :=
  match md.code[a]?, hm[a]? with
  | some i, some (some s) =>
    marksNested s.h s.marks &&
    (match frameDist i with | some d => notPendingWord s.h s.marks d | none => true) &&
    (match i.op with
     | .MARK => mAt hm (a + 1) (s.h :: s.marks) && mAt hm i.w0 s.marks && (intRun md i.w0).isEmpty
     | .SLIDE =>
       if i.w0 == 0 then mAt hm (a + 1) s.marks
       else if i.w0 + i.w1 ≤ s.h then decide (pendFloor s.marks + i.w0 + i.w1 ≤ s.h) && mAt hm (a + 1) s.marks
       else s.marks == [] && mAt hm (a + 1) []
     | .CLEAR_STACK => mAt hm (a + 1) []
     | .CALL => decide (pendFloor s.marks + 1 ≤ s.h)   -- the function value lies above the record of the call
     | .PUSH_PARAM => mAt hm (a + 1) s.marks
     | .MK_INIT_ARRAY =>
       match initExts s i.w0 with
       | some ds => decide (pendFloor s.marks + i.w0 + extsCount ds ≤ s.h) && mAt hm (a + 1) s.marks &&
                    -- the extents are the constants of the `INT` instructions immediately before
                    decide (i.w0 ≤ (intRun md a).length) && ds == (intRun md a).take i.w0
       | none => false
     | .JUMP => mAt hm ((a : Int) + 1 + i32 i.w0).toNat s.marks && (intRun md ((a : Int) + 1 + i32 i.w0).toNat).isEmpty
     | .JUMPZ => decide (pendFloor s.marks + 1 ≤ s.h) && mAt hm ((a : Int) + 1 + i32 i.w0).toNat s.marks && mAt hm (a + 1) s.marks &&
                 (intRun md ((a : Int) + 1 + i32 i.w0).toNat).isEmpty
     | _ =>
       match simpleEffect i with
       | some (p, _) => decide (pendFloor s.marks + p ≤ s.h) && mAt hm (a + 1) s.marks
       | none => true)
  | _, _ => true

/-- every function entry (`FUNC_DEF`) was reached with the empty frame: height 0 above its parameters, no call in preparation -/
def startsOk (md : Module) (starts : List Nat) (hm : HMap) : Bool :=
  starts.all fun a => (match hm[a]? with | some (some s) => s.h == 0 && s.marks == [] | _ => false) && (intRun md a).isEmpty

/-- address 0 (where the first `nev_execute` starts, with an empty stack) was reached with nothing on the stack -/
def entryOk (md : Module) (starts : List Nat) (hm : HMap) : Bool :=
  match hm[0]? with | some (some s) => npAt md starts 0 + s.h == 0 && s.marks == [] | _ => false

def flowOk (md : Module) (hm : HMap) : Bool :=
  let starts := funcStarts md
  (List.range md.code.size).all (fun a => flowOkAt md hm a && frameOkAt md starts hm a && pendOkAt md hm a) && handlersOk md hm && startsOk md starts hm &&
  entryOk md starts hm

/-- the verifier proper: summary and the height map (one abstract state per reached address) -/
def verifyCore (md : Module) : Except String (Summary × HMap) := do
  let n := md.code.size
  if n == 0 then throw "empty module" else
  if !ExcWF md.exctab md.excCount then throw "exception table is not well-formed (first block 0, strictly increasing, sentinel)" else
  let starts := funcStarts md
  for st in starts do
    if (md.fnParams.find? (·.1 == st)).isNone ∧ !md.fnParams.isEmpty then throw s!"function at {st} has no parameter count from the emitter"
  -- handler entries
  let handlers := (md.exctab.toList.take md.excCount).map (·.handler)
  for hnd in handlers do
    let o0 := md.code[hnd]?.map (·.op)
    let o1 := md.code[hnd + 1]?.map (·.op)
    let ok := (match o0 with | some o => isHandlerOp o | none => false) ||
              (o0 == some .LABEL && (match o1 with | some o => isHandlerOp o | none => false))
    if !ok then throw s!"exception handler {hnd} does not start with CLEAR_STACK / RETHROW / UNHANDLED_EXCEPTION"
  -- entry points: address 0 (global initialisation), the entry stub, every function, every handler
  let hm0 : HMap := Array.replicate n none
  let seeds : List (Nat × AbsSt) :=
    [(0, { h := 0, consts := [] })] ++
    starts.map (fun a => (a, { h := 0, consts := [] })) ++
    handlers.map (fun a => (a, { h := 0, consts := [] }))
  let (hm1, work) ← seeds.foldlM (fun (acc : HMap × List Nat) (p : Nat × AbsSt) =>
      -- a handler is entered with an arbitrary height; its first effective instruction resets it, so seed 0 without join
      match acc.1[p.1]? with
      | some none => pure (acc.1.set! p.1 (some p.2), p.1 :: acc.2)
      | _ => pure acc) (hm0, [])
  let hm ← iterate md starts (64 * n + 1024) hm1 work
  let reached := hm.toList.filter (·.isSome)
  let cnt (p : Instr → Bool) : Nat := (md.code.toList.filter p).length
  let marks := md.code.toList.filter (·.op == .MARK)
  let calls := cnt (·.op == .CALL)
  let sm : Summary := { instrs := n, functions := starts.length, calls := calls, tailCalls := calls - marks.length, jumps := cnt (fun i => i.op == .JUMP || i.op == .JUMPZ), handlers := handlers.length, maxHeight := reached.foldl (fun m s => max m (s.map (·.h) |>.getD 0)) 0, unreached := n - reached.length }
  pure (sm, hm)

/-- the verifier: `verifyCore`, then the certificate re-check of the height map it produced -/
def verifyH (md : Module) : Except String (Summary × HMap) :=
  match verifyCore md with
  | .error e => .error e
  | .ok (sm, hm) =>
    if flowOk md hm then .ok (sm, hm)
    else .error "certificate re-check failed: a recorded height is not consistent with its successor, a frame opcode / frame-relative operand / handler entry does not re-check, or an edge leaves its function"

def verify (md : Module) : Except String Summary := (verifyH md).map (·.1)

/-- the heights the verifier assigned inside function bodies, for the run-time cross-check of its table
(`sp = fp + nparams + h(ip)` before every executed instruction): `(address, height, nparams)`; handler entries
(entered with whatever the faulting instruction left) are omitted -/
def heightsOf (md : Module) (hm : HMap) : List (Nat × Nat × Nat) :=
  let starts := funcStarts md
  let handlers := (md.exctab.toList.take md.excCount).map (·.handler)
  (List.range md.code.size).filterMap fun a =>
    match hm[a]?, regionStart starts a, paramsAt md starts a with
    | some (some st), some _, some np =>
      if handlers.contains a ∨ (a > 0 ∧ handlers.contains (a - 1) ∧ (md.code[a - 1]?.map (·.op)) == some .LABEL) then none else some (a, st.h, np)
    | _, _, _ => none

end Never.Ver
