/-
M-Heap: executable model of back/gc.c + the parts of back/object.c the collector sees.
Tied to the C code by correspondence (harness/h_gc.c drives gc.c; the full collector
state is compared after every operation, free-list order included).

Mirrors, function by function:
  gc_new, gc_alloc_any, gc_sweep_all, gc_mark / gc_mark_vec / gc_mark_arr,
  gc_mark_access, gc_run_omfalos, gc_run (schedule decided by the caller),
  gc_set_vec / gc_set_arr_elem / gc_set_func_vec / gc_set_vec_ref / gc_set_arr_ref /
  gc_set_string_ref, gc_append_arr_elem, gc_delete.
Core Lean only (the driver links this file).
-/
namespace Never

/-- heap objects (include/object.h `object`); scalars carry their bit patterns -/
inductive Obj where
  | int (v : BitVec 32)
  | long (v : BitVec 64)
  | float (v : BitVec 32)
  | double (v : BitVec 64)
  | char (v : BitVec 8)
  | str (s : List UInt8)
  | strRef (p : Nat)
  | strArr (a : List (List UInt8))
  | cptr (v : Nat)
  | vec (fs : List Nat)
  | vecRef (p : Nat)
  | arr (dv : List (Nat × Nat)) (es : List Nat)
  | arrRef (p : Nat)
  | func (env : Nat) (addr : Nat)
  deriving Repr, DecidableEq, Inhabited

/-- `gc_mem` -/
structure Cell where
  mark : Bool
  obj : Option Obj
  next : Nat
  deriving Repr, DecidableEq, Inhabited

abbrev Mem := Array Cell

/-- `gc`: `wb0`/`wb1` hold the first `wb_top[i]` entries of `wb_list[i]` -/
structure Gc where
  mem : Mem
  free : Nat
  w : Bool            -- w_index (false = 0, true = 1)
  wb0 : List Nat
  wb1 : List Nat
  deriving Repr, DecidableEq, Inhabited

/-- `gc_stack` entry -/
inductive Slot where
  | unknown
  | ip (v : Nat)
  | addr (a : Nat)
  | stk (v : Int)
  deriving Repr, DecidableEq, Inhabited

namespace Mem

def objAt (m : Mem) (a : Nat) : Option Obj := match m[a]? with | some c => c.obj | none => none
def marked (m : Mem) (a : Nat) : Bool := match m[a]? with | some c => c.mark | none => false
def nextAt (m : Mem) (a : Nat) : Nat := match m[a]? with | some c => c.next | none => 0

def setMark (m : Mem) (a : Nat) (b : Bool) : Mem :=
  if h : a < m.size then m.set a { m[a] with mark := b } else m
def setObj (m : Mem) (a : Nat) (o : Option Obj) : Mem :=
  if h : a < m.size then m.set a { m[a] with obj := o } else m
def setNext (m : Mem) (a : Nat) (n : Nat) : Mem :=
  if h : a < m.size then m.set a { m[a] with next := n } else m

end Mem

open Mem

/-- the current allocated list `wb_list[w_index][0..wb_top)` -/
def Gc.cur (g : Gc) : List Nat := if g.w then g.wb1 else g.wb0
/-- the other list -/
def Gc.oth (g : Gc) : List Nat := if g.w then g.wb0 else g.wb1

/-- `gc_new(mem_size)`: cell 0 is the nil cell, the free list starts at cell 1 when there is one (a one-cell heap has an empty
free list: the first allocation reports "out of memory"; before repo fix 81ab775 the C code set `free = 1` regardless and `-m 1`
handed out a cell that does not exist) -/
def Gc.new (n : Nat) : Gc :=
  { mem := (Array.range n).map fun i =>
      { mark := false, obj := none, next := if i = 0 ∨ i + 1 = n then 0 else i + 1 }
    free := if 1 < n then 1 else 0, w := false, wb0 := [], wb1 := [] }

/-- `gc_alloc_any`: `none` = "out of memory" (the C code prints and exits) -/
def Gc.alloc (g : Gc) (o : Obj) : Option (Gc × Nat) :=
  let loc := g.free
  if loc = 0 then none else
  let mem := g.mem.setObj loc (some o)
  let g' := { g with mem := mem, free := g.mem.nextAt loc }
  some (if g.w then { g' with wb1 := g.wb1 ++ [loc] } else { g' with wb0 := g.wb0 ++ [loc] }, loc)

/-- loop body of `gc_sweep_all`, state = (mem, free, other list) -/
def sweepStep (s : Mem × Nat × List Nat) (idx : Nat) : Mem × Nat × List Nat :=
  let (m, free, bl) := s
  if m.marked idx = false ∧ (m.objAt idx).isSome then
    (((m.setObj idx none).setNext idx free), idx, bl)
  else if m.marked idx = true then
    (m.setMark idx false, free, bl ++ [idx])
  else (m, free, bl)

/-- `gc_sweep_all` -/
def Gc.sweep (g : Gc) : Gc :=
  let (m, free, bl) := g.cur.foldl sweepStep (g.mem, g.free, g.oth)
  if g.w then { mem := m, free := free, w := false, wb0 := bl, wb1 := [] }
  else { mem := m, free := free, w := true, wb0 := [], wb1 := bl }

/-- which container `gc_mark_vec` / `gc_mark_arr` expects -/
inductive CKind where | vec | arr
  deriving DecidableEq, Repr

/-
`gc_mark`, `gc_mark_vec`/`gc_mark_arr` and their field loop, as the C recursion.
`fuel` is the C recursion depth still available; `none` = fuel exhausted or the C code
would read through a NULL / wrongly-typed object or outside `mem` (undefined behaviour).
-/
mutual
def mark (f : Nat) (m : Mem) (a : Nat) : Option Mem :=
  match f with
  | 0 => none
  | f+1 =>
    if a = 0 then some m else
    match m[a]? with
    | none => none
    | some c =>
      match c.obj with
      | none => some m
      | some (.strRef p) => mark f (m.setMark a true) p
      | some (.vec _) => markC f .vec m a
      | some (.vecRef p) => markC f .vec (m.setMark a true) p
      | some (.arr _ _) => markC f .arr m a
      | some (.arrRef p) => markC f .arr (m.setMark a true) p
      | some (.func env _) => markC f .vec (m.setMark a true) env
      | some _ => some (m.setMark a true)
termination_by (f, 0)
def markC (f : Nat) (k : CKind) (m : Mem) (a : Nat) : Option Mem :=
  match f with
  | 0 => none
  | f+1 =>
    if a = 0 then some m else
    match m[a]? with
    | none => none
    | some c =>
      if c.mark then some m else
      match k, c.obj with
      | .vec, some (.vec fs) => markL f (m.setMark a true) fs
      | .arr, some (.arr _ es) => markL f (m.setMark a true) es
      | _, _ => none
termination_by (f, 0)
def markL (f : Nat) (m : Mem) (xs : List Nat) : Option Mem :=
  match xs with
  | [] => some m
  | x :: xs =>
    match mark f m x with
    | none => none
    | some m' => markL f m' xs
termination_by (f, xs.length + 1)
end

/-- `gc_mark_access`: the stack scan -/
def markAccess (f : Nat) (m : Mem) : List Slot → Option Mem
  | [] => some m
  | .addr a :: rest =>
    if a > 0 then
      match m[a]? with
      | none => none
      | some c =>
        if c.mark = false then
          match mark f m a with
          | none => none
          | some m' => markAccess f m' rest
        else markAccess f m rest
    else markAccess f m rest
  | _ :: rest => markAccess f m rest

/-- fuel that is always enough (see `mark_total`): 2·cells + 3 -/
def Gc.fuel (g : Gc) : Nat := 2 * g.mem.size + 3

/-- `gc_run_omfalos` -/
def Gc.runOmfalos (g : Gc) (stack : List Slot) : Option Gc :=
  match markAccess g.fuel g.mem stack with
  | none => none
  | some m => some ({ g with mem := m }).sweep

/-- the part of `gc_run` after the threshold test: mark stack, mark gp, sweep -/
def Gc.collect (g : Gc) (stack : List Slot) (gp : Nat) : Option Gc :=
  match markAccess g.fuel g.mem stack with
  | none => none
  | some m =>
    match (if gp > 0 then mark g.fuel m gp else some m) with
    | none => none
    | some m' => some ({ g with mem := m' }).sweep

/-- the 80 % rule of `gc_run`: the C test is `wb_top < mem_size * 0.8` evaluated in
double; for the sizes in use it coincides with the integer test `5·wb_top < 4·mem_size`
(compared against the real `gc_run` at and around every threshold by the correspondence) -/
def Gc.wantsCollect (g : Gc) : Bool := !(5 * g.cur.length < 4 * g.mem.size)

/-- `gc_run` with its own trigger -/
def Gc.run (g : Gc) (stack : List Slot) (gp : Nat) : Option Gc :=
  if g.wantsCollect then g.collect stack gp else some g

/-! typed stores (gc_set_*): `none` when the C `assert` on the object tag would fail -/

def listSet (l : List Nat) (i v : Nat) : List Nat := l.set i v

def Gc.setVec (g : Gc) (a i v : Nat) : Option Gc :=
  match g.mem.objAt a with
  | some (.vec fs) => if i < fs.length then some { g with mem := g.mem.setObj a (some (.vec (fs.set i v))) } else none
  | _ => none

def Gc.setArrElem (g : Gc) (a i v : Nat) : Option Gc :=
  match g.mem.objAt a with
  | some (.arr dv es) => if i < es.length then some { g with mem := g.mem.setObj a (some (.arr dv (es.set i v))) } else none
  | _ => none

/-- `gc_append_arr_elem` / `object_arr_append` (one-dimensional arrays) -/
def Gc.appendArrElem (g : Gc) (a v : Nat) : Option Gc :=
  match g.mem.objAt a with
  | some (.arr [(n, mult)] es) => some { g with mem := g.mem.setObj a (some (.arr [(n + 1, mult)] (es ++ [v]))) }
  | _ => none

def Gc.setFuncVec (g : Gc) (a v : Nat) : Option Gc :=
  match g.mem.objAt a with
  | some (.func _ ip) => some { g with mem := g.mem.setObj a (some (.func v ip)) }
  | _ => none

def Gc.setVecRef (g : Gc) (a v : Nat) : Option Gc :=
  match g.mem.objAt a with
  | some (.vecRef _) => some { g with mem := g.mem.setObj a (some (.vecRef v)) }
  | _ => none

def Gc.setArrRef (g : Gc) (a v : Nat) : Option Gc :=
  match g.mem.objAt a with
  | some (.arrRef _) => some { g with mem := g.mem.setObj a (some (.arrRef v)) }
  | _ => none

def Gc.setStringRef (g : Gc) (a v : Nat) : Option Gc :=
  match g.mem.objAt a with
  | some (.strRef _) => some { g with mem := g.mem.setObj a (some (.strRef v)) }
  | _ => none

/-- outgoing references of an object, as `gc_mark` follows them -/
def Obj.refs : Obj → List Nat
  | .strRef p => [p]
  | .vec fs => fs
  | .vecRef p => [p]
  | .arr _ es => es
  | .arrRef p => [p]
  | .func env _ => [env]
  | _ => []

/-! ### histories: the operations of C09's quantifier -/

inductive Op where
  | alloc (o : Obj)
  | setVec (a i v : Nat)
  | setArr (a i v : Nat)
  | append (a v : Nat)
  | setFuncVec (a v : Nat)
  | setVecRef (a v : Nat)
  | setArrRef (a v : Nat)
  | setStrRef (a v : Nat)
  | collect (stack : List Slot) (gp : Nat)
  | omfalos (stack : List Slot)
  | run (stack : List Slot) (gp : Nat)
  deriving Repr, DecidableEq

def isStr : Option Obj → Bool | some (.str _) => true | _ => false
def isVec : Option Obj → Bool | some (.vec _) => true | _ => false
def isArr : Option Obj → Bool | some (.arr _ _) => true | _ => false

/-- a reference the VM may store in a generic slot: nil or an allocated cell -/
def Mem.okRef (m : Mem) (r : Nat) : Bool := r = 0 || (m.objAt r).isSome
def Mem.okStr (m : Mem) (r : Nat) : Bool := r = 0 || isStr (m.objAt r)
def Mem.okVec (m : Mem) (r : Nat) : Bool := r = 0 || isVec (m.objAt r)
def Mem.okArr (m : Mem) (r : Nat) : Bool := r = 0 || isArr (m.objAt r)

/-- references of an object are well-kinded in `m` (what the typed VM guarantees and
what `gc_mark_vec`/`gc_mark_arr` silently rely on) -/
def Mem.okObj (m : Mem) : Obj → Bool
  | .strRef p => m.okStr p
  | .vec fs => fs.all m.okRef
  | .vecRef p => m.okVec p
  | .arr _ es => es.all m.okRef
  | .arrRef p => m.okArr p
  | .func env _ => m.okVec env
  | _ => true

def slotOk (m : Mem) : Slot → Bool
  | .addr a => a < m.size
  | _ => true

/-- precondition of an operation: stores and roots are well-typed (decidable) -/
def Gc.wellTyped (g : Gc) : Op → Bool
  | .alloc o => g.mem.okObj o
  | .setVec _ _ v => g.mem.okRef v
  | .setArr _ _ v => g.mem.okRef v
  | .append _ v => g.mem.okRef v
  | .setFuncVec _ v => g.mem.okVec v
  | .setVecRef _ v => g.mem.okVec v
  | .setArrRef _ v => g.mem.okArr v
  | .setStrRef _ v => g.mem.okStr v
  | .collect st gp => st.all (slotOk g.mem) && gp < g.mem.size
  | .omfalos st => st.all (slotOk g.mem)
  | .run st gp => st.all (slotOk g.mem) && gp < g.mem.size

/-- result of one operation: `none` = the C code is outside defined behaviour
(failed tag assertion, NULL/foreign read in the collector, recursion without end) -/
def Gc.apply (g : Gc) : Op → Option Gc
  | .alloc o => match g.alloc o with
      | some (g', _) => some g'
      | none => some g            -- "out of memory": reported, state untouched
  | .setVec a i v => g.setVec a i v
  | .setArr a i v => g.setArrElem a i v
  | .append a v => g.appendArrElem a v
  | .setFuncVec a v => g.setFuncVec a v
  | .setVecRef a v => g.setVecRef a v
  | .setArrRef a v => g.setArrRef a v
  | .setStrRef a v => g.setStringRef a v
  | .collect st gp => g.collect st gp
  | .omfalos st => g.runOmfalos st
  | .run st gp => g.run st gp

/-- run a history; operations that are not well-typed, or whose typed store would trip
the accessor's tag assertion, are not part of any history the VM produces: skipped -/
def Gc.exec (g : Gc) : List Op → Gc
  | [] => g
  | op :: ops =>
    if g.wellTyped op then
      match g.apply op with
      | some g' => g'.exec ops
      | none => g.exec ops
    else g.exec ops

end Never
