/-
Literal copies of the clauses / cells / rules of the PINNED tree that are known to be wrong, and an
executable test of which of them are still present in the regenerated tables (`nmdrv num known`).
The `_counterexample` theorems of Props/C10 and Props/C11 are about these literal copies.
Data only.
-/
import NeverModel.Model.NumTables
namespace Never.NumKnown
open Never.Num Never.CExpr Never.NumTables

/-- front/typecheck.c expr_conv_ass_type, cell (int, double): the right side IS converted double -> int, but the
    node is typed double, so the emitter selects OP_ASS_DOUBLE -/
def pinnedAssIntDouble : Cell :=
  { l := .int, r := .double, convL := none, convR := some (.double, .int), res := .double, enumL := false, enumR := false }

def pinnedAssRule (opc : Nat) : Rule :=
  { op := .ass, l := .int, r := some .double, convL := none, convR := some (.double, .int), comb := .double,
    l2 := .int, r2 := some .int, opcode := some (opc, "BYTECODE_OP_ASS_DOUBLE") }

/-- front/emit.c expr_neq_emit, clause (BOOL, BOOL) selects OP_EQ_INT -/
def pinnedNeqBoolRule (opc : Nat) : Rule :=
  { op := .neq, l := .bool, r := some .bool, convL := none, convR := none, comb := .bool, l2 := .bool, r2 := some .bool,
    opcode := some (opc, "BYTECODE_OP_EQ_INT") }

/-- front/constred.c expr_div_constred, clause (EXPR_INT, EXPR_INT) -/
def pinnedDivInt : FoldRow :=
  { table := .constred, op := .div, conv := none, kindA := .int, kindB := some .int,
    guard := some (.bin .eq .int (.opB .int) (.lit .int 0)), resKind := .int, resMember := .int,
    expr := .bin .div .int (.opA .int) (.opB .int) }

/-- front/constred.c expr_mul_constred, clause (EXPR_LONG, EXPR_LONG): reads `int_value` of long literals -/
def pinnedMulLong : FoldRow :=
  { table := .constred, op := .mul, conv := none, kindA := .long, kindB := some .long, guard := none,
    resKind := .long, resMember := .long,
    expr := .bin .mul .long (.cast .int .long (.opA .int)) (.cast .int .long (.opB .int)) }

/-- front/constred.c expr_neq_constred, clause (EXPR_BOOL, EXPR_BOOL) — correct; the emitter is wrong -/
def pinnedNeqBool : FoldRow :=
  { table := .constred, op := .neq, conv := none, kindA := .bool, kindB := some .bool, guard := none,
    resKind := .bool, resMember := .int, expr := .bin .ne .int (.opA .int) (.opB .int) }

def sameFold (x y : FoldRow) : Bool :=
  x.table == y.table && x.op == y.op && x.conv == y.conv && x.kindA == y.kindA && x.kindB == y.kindB &&
  x.guard == y.guard && x.resKind == y.resKind && x.resMember == y.resMember && x.expr == y.expr

def isCrash : FoldRes → Bool
  | .crash _ => true
  | _ => false

/-- signature -> is the defect present in the tables generated from the tree as it is now -/
def present : List (String × Bool) :=
  [ ("ass-matrix-int-double", T.ass.any (· == pinnedAssIntDouble)),
    ("constred-sigfpe-min-div-minus1",
      T.foldRows.any fun r => (r.op == .div || r.op == .mod) &&
        (isCrash (r.eval (.int intMin32) (.int (-1))) || isCrash (r.eval (.long intMin64) (.long (-1))))),
    ("constred-long-mul-int-value", T.foldRows.any (sameFold pinnedMulLong)),
    ("emit-neq-bool-uses-eq",
      match T.rule .neq .bool (some .bool) with
      | some r => (match r.opcode with
                   | some (opc, _) => (match T.handler opc with
                                       | some h => decide (h.sem = .bin .int .eq)
                                       | none => false)
                   | none => false)
      | none => false),
    ("emit-enum-compare-no-opcode",
      T.rules.any fun r => (r.l == .enumtype || r.r == some .enumtype) && r.opcode.isNone) ]

end Never.NumKnown
