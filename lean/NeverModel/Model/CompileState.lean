import NeverModel.Gen.Globals
/-!
# State that outlives one call of the compiler (C15, compile side)

`Gen/Globals.lean` is regenerated on every run from the current tree (clang AST of every translation unit of front/ and
back/, including the parser.c / scanner.c that bison and flex generate): every variable with static storage duration, whether
its type is const, the functions that write it directly, and which of those functions are reachable from the compile entry
points.  This file states, per variable, WHY it cannot carry information from one compilation into the next; the theorem in
Props/C15.lean checks the side condition of every entry against the regenerated facts.  A variable that is not listed (a new
`static` cache, say), or one whose resetting function no longer writes it or is no longer on the compile path, breaks the
theorem.
-/
namespace Never.CompileState
open Never.Gen.Globals

inductive Disc where
  /-- nothing writes it (tables with initialisers) -/
  | neverWritten
  /-- every listed function assigns it and is reached from the compile entry points before the variable is used -/
  | resetBy (fs : List String)
  /-- flex/lexer scratch: written by `f` (reachable) before each use; carries nothing between tokens, let alone compilations -/
  | scratch (f : String)
  /-- only meaningful below the index held in `v`, which is itself reset -/
  | guardedBy (v : String)
  /-- a function-local static of a function that is not on the compile path, or written only by functions that are not -/
  | offPath
  deriving Repr, DecidableEq

/-- the disciplines, keyed by (file, name) -/
def table : List (String × String × Disc) := [
  ("back/bytecode.c", "bytecode_op", .neverWritten),
  ("back/vmexec.c", "vm_execute_op", .neverWritten),
  ("back/object.c", "nil_ptr", .neverWritten),
  ("back/fficall.c", "test_Point_p1", .neverWritten),
  ("back/fficall.c", "test_conc_str.c", .offPath),
  ("back/fficall.c", "test_conc_int_str.c", .offPath),
  ("back/utils.c", "utils_file_name", .resetBy ["set_utils_file_name"]),
  ("back/utils.c", "utils_msg_count", .resetBy ["set_msg_buffer"]),
  ("back/utils.c", "utils_msg_array_size", .resetBy ["set_msg_buffer"]),
  ("back/utils.c", "utils_msg_array", .resetBy ["set_msg_buffer"]),
  ("front/parser.c", "parse_result", .resetBy ["nev_compile_prog"]),
  ("front/parser.c", "yyparse.yyval_default", .neverWritten),
  ("front/scanner.c", "line_no", .resetBy ["set_line_no"]),
  ("front/scanner.c", "use_stack_ptr", .resetBy ["scan_string", "scan_file"]),
  ("front/scanner.c", "modtab", .resetBy ["scan_string", "scan_file"]),
  ("front/scanner.c", "use_stack", .guardedBy "use_stack_ptr"),
  ("front/scanner.c", "string_value", .scratch "lex_scan"),
  ("front/scanner.c", "yy_buffer_stack", .resetBy ["yy_init_globals"]),
  ("front/scanner.c", "yy_buffer_stack_top", .resetBy ["yy_init_globals"]),
  ("front/scanner.c", "yy_buffer_stack_max", .resetBy ["yy_init_globals"]),
  ("front/scanner.c", "yy_c_buf_p", .resetBy ["yy_init_globals"]),
  ("front/scanner.c", "yy_init", .resetBy ["yy_init_globals"]),
  ("front/scanner.c", "yy_start", .resetBy ["yy_init_globals"]),
  ("front/scanner.c", "yyin", .resetBy ["yy_init_globals"]),
  ("front/scanner.c", "yyout", .resetBy ["yy_init_globals"]),
  ("front/scanner.c", "yy_hold_char", .scratch "yy_load_buffer_state"),
  ("front/scanner.c", "yy_n_chars", .scratch "yy_load_buffer_state"),
  ("front/scanner.c", "yytext", .scratch "yy_load_buffer_state"),
  ("front/scanner.c", "yy_did_buffer_switch_on_eof", .scratch "yy_switch_to_buffer"),
  ("front/scanner.c", "yyleng", .scratch "lex_scan"),
  ("front/scanner.c", "yy_last_accepting_state", .scratch "lex_scan"),
  ("front/scanner.c", "yy_last_accepting_cpos", .scratch "lex_scan"),
  ("front/scanner.c", "yy_flex_debug", .offPath),
  ("front/scanner.c", "yylineno", .offPath)
]

def lookup (v : Var) : Option Disc := (table.find? fun e => e.1 == v.file && e.2.1 == v.name).map (·.2.2)

/-- the side condition of a discipline against the regenerated facts -/
def holds (v : Var) : Disc → Bool
  | .neverWritten => v.writers.isEmpty
  | .resetBy fs => !fs.isEmpty && fs.all fun f => v.writers.contains f && compileReach.contains f
  | .scratch f => v.writers.contains f && compileReach.contains f
  | .guardedBy g =>
    (vars.find? fun w => w.file == v.file && w.name == g).any fun w =>
      match lookup w with | some (.resetBy fs) => !fs.isEmpty && fs.all fun f => w.writers.contains f && compileReach.contains f | _ => false
  | .offPath => (v.owner != "" && !compileReach.contains v.owner && v.writers.all (fun f => !compileReach.contains f)) ||
                (v.owner == "" && !v.writers.isEmpty && v.writers.all (fun f => !compileReach.contains f))

/-- a variable is accounted for: const, or listed with a discipline whose side condition holds now -/
def accounted (v : Var) : Bool := v.isConst || (match lookup v with | some d => holds v d | none => false)

end Never.CompileState
