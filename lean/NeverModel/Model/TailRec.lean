/-
M-Tail — model of the tail-call marker `front/tailrec.c` over the AST of the reference evaluator
(`Model/Src.lean`), and the SPECIFICATION of tail position (C13, C02).

tailrec.c walks every function body after type checking with a flag `op`
(`TAILREC_OP_ADD` = "the value of this expression is the value of the function", `TAILREC_OP_SKIP`
otherwise).  Every construct hands the flag to each of its children either unchanged, or as
SKIP; `func_tailrec_native` starts a body with ADD and the catch clauses with SKIP; a nested
function is a fresh context.  A call `f(args)` visited with ADD whose function expression is an
identifier that resolves (in the function's own symbol table and the block tables below it) to the
function being walked is retagged `EXPR_LAST_CALL`; emit.c then REPLACES the frame
(`Never.C13.tail_call_restores_entry`).

The model is parametrised by the table `tab : Slot → Pass` ("what does the construct hand to this
child"), so that the same definitions serve
  * the table regenerated from the C text on every run (`cTab`, from `Gen/TailTab.lean`),
  * the reference table `refTab` written here by hand.
`Slot` names the child positions of the modelled core; `Slot.key` is the designator the translator
prints for that position (case label, helper-switch labels, member path).

A node of a function body is addressed by a `Path` (list of (slot, index) steps from the body).
`markedAt tab self seen pend op body p` mirrors the propagation of `op` along `p` and the retagging
test at the end: it says whether tailrec.c retags the node at `p`.
-/
import NeverModel.Model.Src
import NeverModel.Gen.TailTab
namespace Never.Src.Tail
open Never.Src
open Never.Gen.TailTab (Pass Row)

/-- child positions (and function-level visit sites) of the modelled core, one per visit of tailrec.c -/
inductive Slot
  | unArg (op : UnOp)
  | binL (op : BinOp) | binR (op : BinOp)
  | andL | andR | orL | orR
  | condC | condT | condE
  | assignL | assignR
  | seqLastExpr | seqInitExpr          -- expression item of a block: the last item / any other
  | seqLastBind | seqInitBind          -- right side of a `let`/`var` item: last item / any other
  | seqLastFunc | seqInitFunc          -- function item of a block (fresh context)
  | whileC | whileB | doWhileB | doWhileC
  | forI | forC | forS | forB
  | forInColl | forInBody
  | callFn | callArg
  | builtinArg
  | lamFn                              -- `let func …` as an expression (fresh context)
  | arrLitElem | arrNewDim
  | indexArr | indexIdx
  | recordArg | tupleArg | fieldObj | enumRecArg
  | matchScrut | armItem | armRecd | armEls
  | ifLetScrut | ifLetThen | ifLetElse
  | compGen | compFilter | compBody
  | funcBody | catchOne | catchAll     -- func_tailrec_native: the body, a `catch (e)` clause, the `catch` of everything
  | progLastFunc | progInitFunc        -- never_tailrec: top-level function items
  deriving DecidableEq, Repr

def unName : UnOp → String
  | .neg => "EXPR_NEG" | .not => "EXPR_NOT" | .bnot => "EXPR_BIN_NOT"

def binName : BinOp → String
  | .add => "EXPR_ADD" | .sub => "EXPR_SUB" | .mul => "EXPR_MUL" | .div => "EXPR_DIV" | .mod => "EXPR_MOD"
  | .lt => "EXPR_LT" | .gt => "EXPR_GT" | .le => "EXPR_LTE" | .ge => "EXPR_GTE" | .eq => "EXPR_EQ" | .ne => "EXPR_NEQ"
  | .band => "EXPR_BIN_AND" | .bor => "EXPR_BIN_OR" | .bxor => "EXPR_BIN_XOR" | .shl => "EXPR_BIN_SHL" | .shr => "EXPR_BIN_SHR"

/-- designator of a visit as gen/tailtab.py prints it: (case label, helper-switch labels, member path of the child) -/
abbrev Key := String × List String × String

/-- where tailrec.c visits the child of this slot.  Record constructors `R(…)` and enum-record values `E::A(…)` are
`EXPR_CALL` nodes in the C AST (their "function expression" is the record / enumerator identifier, a leaf). -/
def Slot.key : Slot → Key
  | .unArg op => (unName op, [], "left")
  | .binL op => (binName op, [], "left")
  | .binR op => (binName op, [], "right")
  | .andL => ("EXPR_AND", [], "left") | .andR => ("EXPR_AND", [], "right")
  | .orL => ("EXPR_OR", [], "left") | .orR => ("EXPR_OR", [], "right")
  | .condC => ("EXPR_COND", [], "left") | .condT => ("EXPR_COND", [], "middle") | .condE => ("EXPR_COND", [], "right")
  | .assignL => ("EXPR_ASS", [], "left") | .assignR => ("EXPR_ASS", [], "right")
  | .seqLastExpr => ("EXPR_SEQ", ["SEQ_TYPE_EXPR"], "seq_value.list[head].expr_value")
  | .seqInitExpr => ("EXPR_SEQ", ["SEQ_TYPE_EXPR"], "seq_value.list[!head].expr_value")
  | .seqLastBind => ("EXPR_SEQ", ["SEQ_TYPE_BIND"], "seq_value.list[head].bind_value.expr_value")
  | .seqInitBind => ("EXPR_SEQ", ["SEQ_TYPE_BIND"], "seq_value.list[!head].bind_value.expr_value")
  | .seqLastFunc => ("EXPR_SEQ", ["SEQ_TYPE_FUNC"], "seq_value.list[head].func_value")
  | .seqInitFunc => ("EXPR_SEQ", ["SEQ_TYPE_FUNC"], "seq_value.list[!head].func_value")
  | .whileC => ("EXPR_WHILE", [], "whileloop.cond") | .whileB => ("EXPR_WHILE", [], "whileloop.do_value")
  | .doWhileB => ("EXPR_DO_WHILE", [], "whileloop.do_value") | .doWhileC => ("EXPR_DO_WHILE", [], "whileloop.cond")
  | .forI => ("EXPR_FOR", [], "forloop.init") | .forC => ("EXPR_FOR", [], "forloop.cond")
  | .forS => ("EXPR_FOR", [], "forloop.incr") | .forB => ("EXPR_FOR", [], "forloop.do_value")
  | .forInColl => ("EXPR_FORIN", [], "forin_value.in_value") | .forInBody => ("EXPR_FORIN", [], "forin_value.do_value")
  | .callFn => ("EXPR_CALL", [], "call.func_expr")
  | .callArg | .recordArg | .enumRecArg => ("EXPR_CALL", [], "call.params[]")
  | .builtinArg => ("EXPR_BUILD_IN", [], "func_build_in.param[]")
  | .lamFn => ("EXPR_FUNC", [], "func_value")
  | .arrLitElem => ("EXPR_ARRAY", ["ARRAY_INIT|ARRAY_SUB"], "array.array_value.elements[]")
  | .arrNewDim => ("EXPR_ARRAY", ["ARRAY_DIMS"], "array.array_value.dims[]")
  | .indexArr => ("EXPR_ARRAY_DEREF", [], "array_deref.array_expr")
  | .indexIdx => ("EXPR_ARRAY_DEREF", [], "array_deref.ref[]")
  | .tupleArg => ("EXPR_TOUPLE", [], "touple_value.values[]")
  | .fieldObj => ("EXPR_ATTR", [], "attr.record_value")
  | .matchScrut => ("EXPR_MATCH", [], "match.expr_value")
  | .armItem => ("EXPR_MATCH", ["MATCH_GUARD_ITEM"], "match.match_guards[].guard_item.expr_value")
  | .armRecd => ("EXPR_MATCH", ["MATCH_GUARD_RECORD", "has:match.match_guards[].guard_record.guard.matchbinds&has:match.match_guards[].guard_record.guard.stab"], "match.match_guards[].guard_record.expr_value")
  | .armEls => ("EXPR_MATCH", ["MATCH_GUARD_ELSE"], "match.match_guards[].guard_else.expr_value")
  | .ifLetScrut => ("EXPR_IFLET", [], "iflet_value.expr_value")
  | .ifLetThen => ("EXPR_IFLET", ["IFLET_TYPE_RECORD&has:iflet_value.guard_record.matchbinds&has:iflet_value.guard_record.stab"], "iflet_value.then_value")
  | .ifLetElse => ("EXPR_IFLET", [], "iflet_value.else_value")
  | .compGen => ("EXPR_LISTCOMP", ["QUALIFIER_GENERATOR"], "listcomp_value.list[].expr_value")
  | .compFilter => ("EXPR_LISTCOMP", ["QUALIFIER_FILTER"], "listcomp_value.list[].expr_value")
  | .compBody => ("EXPR_LISTCOMP", [], "listcomp_value.expr_value")
  | .funcBody => ("FUNC_TYPE_NATIVE", [], "body.exprs")
  | .catchOne => ("FUNC_TYPE_NATIVE", [], "except.list[].expr_value")
  | .catchAll => ("FUNC_TYPE_NATIVE", [], "except.all.expr_value")
  | .progLastFunc => ("NEVER", ["SEQ_TYPE_FUNC"], "exprs[head].func_value")
  | .progInitFunc => ("NEVER", ["SEQ_TYPE_FUNC"], "exprs[!head].func_value")

def _root_.Never.Gen.TailTab.Row.key (r : Row) : Key := (r.construct, r.quals, r.child)

/-- the table the language's rule prescribes for what tailrec.c DOES (see `specTail` for the pure rule):
`op` to the children whose value is the construct's value, SKIP to the others; ADD to a function
body, SKIP to its catch clauses; nested functions are fresh.  The entry `callFn ↦ op` is the C code's
choice, not the rule's (`specTail .callFn = false`): see `Props/C13.lean`. -/
def refTab : Slot → Pass
  | .condT | .condE | .seqLastExpr | .armItem | .armRecd | .armEls | .ifLetThen | .ifLetElse => .op
  | .callFn => .op
  | .funcBody => .add
  | .seqLastFunc | .seqInitFunc | .lamFn | .progLastFunc | .progInitFunc => .fresh
  | _ => .skip

/-- the symbol table a visit hands down (`inherit` = the one it received).  A block hands down ITS table,
which holds every `let`/`var`/function item of the block (whatever their order); a list comprehension its
own (the generator variables); the arm of a RECORD guard with bindings and the then-branch of a record `if let` with
bindings the GUARD's table, which holds the bound names (since fix f0e3e9c; a record guard without bindings hands down the
enclosing table: the spelled-out `else:` rows of `layout`). -/
def refScope : Slot → String
  | .seqLastExpr | .seqInitExpr | .seqLastBind | .seqInitBind => "seq_value.stab"
  | .compGen | .compFilter | .compBody => "listcomp_value.stab"
  | .armRecd => "match.match_guards[].guard_record.guard.stab"
  | .ifLetThen => "iflet_value.guard_record.stab"
  | .funcBody | .catchOne | .catchAll => "stab"
  | .seqLastFunc | .seqInitFunc | .lamFn | .progLastFunc | .progInitFunc => "-"
  | _ => "inherit"

/-! ### the table of the C code -/

def rowOf (s : Slot) : Row :=
  { construct := s.key.1, quals := s.key.2.1, child := s.key.2.2, pass := refTab s, scope := refScope s }

/-- record constructors and enum-record values are `EXPR_CALL` nodes for tailrec.c -/
def Slot.canon : Slot → Slot
  | .recordArg | .enumRecArg => .callArg
  | s => s

private def x (c : String) (q : List String) (ch : String) (p : Pass) (sc : String := "inherit") : Slot ⊕ Row :=
  .inr { construct := c, quals := q, child := ch, pass := p, scope := sc }

/-- every visit of tailrec.c in SOURCE ORDER: the visits of the modelled core by their slot, the others
(constructs outside the core: `|>`, parentheses, ranges, slices, conversions, `EXPR_LAST_CALL` = a call that is already
retagged, top-level bindings and modules) spelled out -/
def layout : List (Slot ⊕ Row) :=
  [.inl (.unArg .neg)] ++
  ([BinOp.add, .sub, .mul, .div, .mod, .lt, .gt, .le, .ge, .eq, .ne].flatMap fun o => [.inl (.binL o), .inl (.binR o)]) ++
  [.inl .andL, .inl .andR, .inl .orL, .inl .orR] ++
  ([BinOp.band, .bor, .bxor, .shl, .shr].flatMap fun o => [.inl (.binL o), .inl (.binR o)]) ++
  [x "EXPR_PIPEL" [] "left" .skip, x "EXPR_PIPEL" [] "right" .op,
   .inl (.unArg .not), .inl (.unArg .bnot),
   x "EXPR_SUP" [] "left" .op,
   .inl .condC, .inl .condT, .inl .condE,
   .inl .arrLitElem, .inl .arrNewDim, .inl .indexArr, .inl .indexIdx,
   .inl .callFn, .inl .callArg,
   x "EXPR_LAST_CALL" [] "call.func_expr" .op, x "EXPR_LAST_CALL" [] "call.params[]" .skip,
   .inl .lamFn,
   x "EXPR_RANGE_DIM" [] "range_dim.from" .skip, x "EXPR_RANGE_DIM" [] "range_dim.to" .skip,
   x "EXPR_RANGE" [] "range.range_dims[]" .skip,
   x "EXPR_SLICE" [] "slice.array_expr" .skip, x "EXPR_SLICE" [] "slice.range_dims[]" .skip,
   .inl .seqLastBind, .inl .seqLastFunc, .inl .seqLastExpr, .inl .seqInitBind, .inl .seqInitFunc, .inl .seqInitExpr,
   .inl .assignL, .inl .assignR,
   .inl .whileC, .inl .whileB, .inl .doWhileC, .inl .doWhileB,
   .inl .forI, .inl .forC, .inl .forS, .inl .forB, .inl .forInColl, .inl .forInBody,
   .inl .ifLetScrut, .inl .ifLetThen,
   x "EXPR_IFLET" ["else:IFLET_TYPE_RECORD&has:iflet_value.guard_record.matchbinds&has:iflet_value.guard_record.stab"] "iflet_value.then_value" .op,
   .inl .ifLetElse,
   .inl .matchScrut, .inl .armItem, .inl .armRecd,
   x "EXPR_MATCH" ["MATCH_GUARD_RECORD", "else:has:match.match_guards[].guard_record.guard.matchbinds&has:match.match_guards[].guard_record.guard.stab"] "match.match_guards[].guard_record.expr_value" .op,
   .inl .armEls,
   .inl .builtinArg,
   x "EXPR_CONV" [] "conv.expr_value" .skip,
   .inl .compGen, .inl .compFilter, .inl .compBody,
   .inl .fieldObj, .inl .tupleArg,
   .inl .funcBody, .inl .catchOne, .inl .catchAll,
   x "NEVER" [] "uses" .fresh "-",
   x "NEVER" ["SEQ_TYPE_BIND"] "exprs[head].bind_value.expr_value" .skip "stab",
   .inl .progLastFunc,
   x "NEVER" ["SEQ_TYPE_EXPR"] "exprs[head].expr_value" .add "stab",
   x "NEVER" ["SEQ_TYPE_BIND"] "exprs[!head].bind_value.expr_value" .skip "stab",
   .inl .progInitFunc,
   x "NEVER" ["SEQ_TYPE_EXPR"] "exprs[!head].expr_value" .skip "stab"]

/-- the table the model is built on, row by row -/
def refRows : List Row := layout.map (Sum.elim rowOf id)

/-- position of a slot's visit in the source order -/
def slotIdx (s : Slot) : Nat :=
  layout.findIdx (fun y => match y with
    | .inl t => decide (t = s.canon)
    | .inr _ => false)

/-- **the table of the C code**: what the row regenerated from front/tailrec.c at the slot's position says
(`Never.C13.tail_table_agrees`: that row has the slot's designator).  A missing row counts as ADD, the worst case. -/
def cTab (s : Slot) : Pass :=
  match Never.Gen.TailTab.rows[slotIdx s]? with
  | some r => r.pass
  | none => .add

/-! ### SPEC: tail position -/

/-- **The rule.**  The children whose value IS the value of the construct, with nothing left to do after
them: both branches of `?:`/`if`, the last expression of a block, the bodies of `match` arms, both branches of
`if let`.  Everything else — operands, arguments, conditions, scrutinees, the function expression of a call,
loop parts, right sides of bindings and assignments, elements, qualifiers — is not. -/
def specTail : Slot → Bool
  | .condT | .condE | .seqLastExpr | .armItem | .armRecd | .armEls | .ifLetThen | .ifLetElse => true
  | _ => false

/-- the rule on the C designators, for the whole generated table (modelled core or not): the constructs
outside the core that keep tail position are the parenthesised expression and the right side of `|>`
(`x |> f(y)` IS the call `f(x, y)`) -/
def specTailKeys : List Key :=
  [("EXPR_COND", [], "middle"), ("EXPR_COND", [], "right"),
   ("EXPR_SUP", [], "left"), ("EXPR_PIPEL", [], "right"),
   ("EXPR_SEQ", ["SEQ_TYPE_EXPR"], "seq_value.list[head].expr_value"),
   ("EXPR_IFLET", ["IFLET_TYPE_RECORD&has:iflet_value.guard_record.matchbinds&has:iflet_value.guard_record.stab"], "iflet_value.then_value"), ("EXPR_IFLET", ["else:IFLET_TYPE_RECORD&has:iflet_value.guard_record.matchbinds&has:iflet_value.guard_record.stab"], "iflet_value.then_value"),
   ("EXPR_IFLET", [], "iflet_value.else_value"),
   ("EXPR_MATCH", ["MATCH_GUARD_ITEM"], "match.match_guards[].guard_item.expr_value"),
   ("EXPR_MATCH", ["MATCH_GUARD_RECORD", "has:match.match_guards[].guard_record.guard.matchbinds&has:match.match_guards[].guard_record.guard.stab"], "match.match_guards[].guard_record.expr_value"),
   ("EXPR_MATCH", ["MATCH_GUARD_RECORD", "else:has:match.match_guards[].guard_record.guard.matchbinds&has:match.match_guards[].guard_record.guard.stab"], "match.match_guards[].guard_record.expr_value"),
   ("EXPR_MATCH", ["MATCH_GUARD_ELSE"], "match.match_guards[].guard_else.expr_value")]

def specTailKey (k : Key) : Bool := specTailKeys.contains k

/-! ### the children of a node -/

def _root_.Never.Src.Guard.body : Guard → Expr
  | .item _ _ b | .recd _ _ _ b | .els b => b

/-- names a block's table holds: every `let`/`var` and function item -/
def itemBinders : List Item → List Name
  | [] => []
  | .bind _ x _ :: rest => x :: itemBinders rest
  | .funcs fs :: rest => funcNames fs ++ itemBinders rest
  | .expr _ :: rest => itemBinders rest

/-- the `i`-th child of `e` at slot `s` (single children have index 0) -/
def kid (e : Expr) (s : Slot) (i : Nat) : Option Expr :=
  match e with
  | .un op a => match s with
    | .unArg op' => if op = op' ∧ i = 0 then some a else none
    | _ => none
  | .bin op a b => match s with
    | .binL op' => if op = op' ∧ i = 0 then some a else none
    | .binR op' => if op = op' ∧ i = 0 then some b else none
    | _ => none
  | .and a b => match s, i with
    | .andL, 0 => some a | .andR, 0 => some b | _, _ => none
  | .or a b => match s, i with
    | .orL, 0 => some a | .orR, 0 => some b | _, _ => none
  | .cond c t el => match s, i with
    | .condC, 0 => some c | .condT, 0 => some t | .condE, 0 => some el | _, _ => none
  | .assign l r => match s, i with
    | .assignL, 0 => some l | .assignR, 0 => some r | _, _ => none
  | .seq items => match s, items[i]? with
    | .seqLastExpr, some (.expr x) => if i + 1 = items.length then some x else none
    | .seqInitExpr, some (.expr x) => if i + 1 < items.length then some x else none
    | .seqLastBind, some (.bind _ _ x) => if i + 1 = items.length then some x else none
    | .seqInitBind, some (.bind _ _ x) => if i + 1 < items.length then some x else none
    | _, _ => none
  | .while c b => match s, i with
    | .whileC, 0 => some c | .whileB, 0 => some b | _, _ => none
  | .doWhile b c => match s, i with
    | .doWhileB, 0 => some b | .doWhileC, 0 => some c | _, _ => none
  | .for a c st b => match s, i with
    | .forI, 0 => some a | .forC, 0 => some c | .forS, 0 => some st | .forB, 0 => some b | _, _ => none
  | .forIn _ coll b => match s, i with
    | .forInColl, 0 => some coll | .forInBody, 0 => some b | _, _ => none
  | .call f args => match s with
    | .callFn => if i = 0 then some f else none
    | .callArg => args[i]?
    | _ => none
  | .builtin _ args => match s with
    | .builtinArg => args[i]?
    | _ => none
  | .arrLit _ elems _ => match s with
    | .arrLitElem => elems[i]?
    | _ => none
  | .arrNew dims _ => match s with
    | .arrNewDim => dims[i]?
    | _ => none
  | .index a idx => match s with
    | .indexArr => if i = 0 then some a else none
    | .indexIdx => idx[i]?
    | _ => none
  | .record _ args => match s with
    | .recordArg => args[i]?
    | _ => none
  | .tuple args => match s with
    | .tupleArg => args[i]?
    | _ => none
  | .field x _ => match s, i with
    | .fieldObj, 0 => some x | _, _ => none
  | .enumRec _ _ args => match s with
    | .enumRecArg => args[i]?
    | _ => none
  | .matchE x gs => match s with
    | .matchScrut => if i = 0 then some x else none
    | .armItem => match gs[i]? with
      | some (.item _ _ b) => some b | _ => none
    | .armRecd => match gs[i]? with
      | some (.recd _ _ _ b) => some b | _ => none
    | .armEls => match gs[i]? with
      | some (.els b) => some b | _ => none
    | _ => none
  | .ifLet g x els => match s, i with
    | .ifLetScrut, 0 => some x | .ifLetThen, 0 => some (Guard.body g) | .ifLetElse, 0 => some els | _, _ => none
  | .listcomp body quals _ => match s with
    | .compBody => if i = 0 then some body else none
    | .compGen => match quals[i]? with
      | some (.gen _ coll) => some coll | _ => none
    | .compFilter => match quals[i]? with
      | some (.filter x) => some x | _ => none
    | _ => none
  -- ranges, slices and `|>` (added to S after this model was written) are leaves here: their visits are the spelled-out rows of
  -- `layout` (`EXPR_RANGE*`, `EXPR_SLICE`, `EXPR_PIPEL`), compared with the regenerated table but not part of the path model
  | .lit _ | .var _ | .dimVar _ | .lam _ | .enumVal _ _ | .range _ | .slice _ _ | .pipe _ _ _ => none

/-- the names a record guard binds for this child (`match` arm by record guard, then-branch of a record `if let`) -/
def guardBinds (e : Expr) (s : Slot) (i : Nat) : List Name :=
  match e, s with
  | .matchE _ gs, .armRecd => match gs[i]? with
    | some (.recd _ _ binds _) => binds
    | _ => []
  | .ifLet (.recd _ _ binds _) _ _, .ifLetThen => binds
  | _, _ => []

/-- the slots whose visit MAY hand down a table of the construct's own (`refScope` names it) -/
def mayOpen : Slot → Bool
  | .seqLastExpr | .seqInitExpr | .seqLastBind | .seqInitBind | .compGen | .compFilter | .compBody | .armRecd | .ifLetThen => true
  | _ => false

/-- the visit of this child hands down a table of the construct's own: a block's, a list comprehension's, and — since
fix f0e3e9c — the table of a record guard that binds names (`matchbinds != NULL`).  tailrec.c's lookup then starts in THAT
table and follows its parent links, which are the true lexical chain: everything bound around it is visible. -/
def opensTable (e : Expr) (s : Slot) (i : Nat) : Bool :=
  match s with
  | .seqLastExpr | .seqInitExpr | .seqLastBind | .seqInitBind | .compGen | .compFilter | .compBody => true
  | .armRecd | .ifLetThen => !(guardBinds e s i).isEmpty
  | _ => false

/-- the names the table handed to this child holds: EVERY `let`/`var`/function item of the block (whatever their order),
the generator variables of a comprehension, the names a record guard binds -/
def cBinders (e : Expr) (s : Slot) (i : Nat) : List Name :=
  match e, s with
  | .seq items, .seqLastExpr | .seq items, .seqInitExpr | .seq items, .seqLastBind | .seq items, .seqInitBind =>
    itemBinders items
  | .listcomp _ quals _, .compGen | .listcomp _ quals _, .compFilter | .listcomp _ quals _, .compBody =>
    qualBinders quals
  | _, _ => guardBinds e s i

/-- the names a construct binds for this child in a table of its own that is NOT handed to the visit: the `for … in`
variable (the body is visited with the enclosing table — and with SKIP).  The marker's lookup does not see them until a
block below opens its table, whose parent links lead through them.  (Before fix f0e3e9c the names bound by record guards
were hidden in the same way: `hiddenBindersPinned`.) -/
def hiddenBinders (e : Expr) (s : Slot) (_i : Nat) : List Name :=
  match e, s with
  | .forIn x _ _, .forInBody => [x]
  | _, _ => []

abbrev Path := List (Slot × Nat)

/-- the node at the end of a path -/
def sub : Expr → Path → Option Expr
  | e, [] => some e
  | e, (s, i) :: p =>
    match kid e s i with
    | some c => sub c p
    | none => none

/-! ### the marker -/

/-- the flag a child receives -/
def flag (p : Pass) (op : Bool) : Bool :=
  match p with
  | .op => op
  | .skip => false
  | .add => true
  | .fresh => false

/-- the retagging test of `case EXPR_CALL` without the flag: the function expression is an identifier and
`expr_id_tailrec`'s lookup (the function's own table: its name and parameters; and the block tables handed down,
`bound`) finds the function itself — a parameter, `let`/`var` or function item of the same name found first is not it.
An anonymous function has no entry. -/
def isSelfCall (self : Name) (bound : List Name) : Expr → Bool
  | .call (.var x) _ => x == self && self != "" && !(bound.contains x)
  | _ => false

/-- **the marker**: does tailrec.c retag the node at path `p` of `e`, when `e` is visited with flag `op` in a function named
`self`?  `seen` = the names the lookup finds before the function's own name (parameters; items of the blocks on the path and
whatever is bound around those blocks); `pend` = names bound on the path since the last block by constructs that keep them in
a table of their own — invisible to the lookup until the next block is entered. -/
def markedAt (tab : Slot → Pass) (self : Name) : List Name → List Name → Bool → Expr → Path → Bool
  | seen, _, op, e, [] => op && isSelfCall self seen e
  | seen, pend, op, e, (s, i) :: p =>
    match kid e s i with
    | none => false
    | some c =>
      if opensTable e s i then markedAt tab self (cBinders e s i ++ pend ++ seen) [] (flag (tab s) op) c p
      else markedAt tab self seen (hiddenBinders e s i ++ pend) (flag (tab s) op) c p

/-- func_tailrec_native: the body -/
def markedInBody (tab : Slot → Pass) (fn : Func) (p : Path) : Bool :=
  markedAt tab fn.name (paramBinders fn.params) [] (flag (tab .funcBody) false) fn.body p

/-- func_tailrec_native: the `j`-th catch clause -/
def markedInCatch (tab : Slot → Pass) (fn : Func) (j : Nat) (p : Path) : Bool :=
  match fn.catches[j]? with
  | some c =>
    markedAt tab fn.name (paramBinders fn.params) []
      (flag (tab (if c.exc.isSome then .catchOne else .catchAll)) false) c.body p
  | none => false

/-! ### the lookup of the pinned tree (before fix f0e3e9c), kept for the record -/

/-- before f0e3e9c only blocks and comprehensions handed down their table -/
def opensTablePinned : Slot → Bool
  | .seqLastExpr | .seqInitExpr | .seqLastBind | .seqInitBind | .compGen | .compFilter | .compBody => true
  | _ => false

/-- … and the names bound by record guards stayed invisible until the next block -/
def hiddenBindersPinned (e : Expr) (s : Slot) (i : Nat) : List Name := guardBinds e s i ++ hiddenBinders e s i

/-- the marker with the pinned tree's lookup -/
def markedAtPinned (tab : Slot → Pass) (self : Name) : List Name → List Name → Bool → Expr → Path → Bool
  | seen, _, op, e, [] => op && isSelfCall self seen e
  | seen, pend, op, e, (s, i) :: p =>
    match kid e s i with
    | none => false
    | some c =>
      if opensTablePinned s then
        markedAtPinned tab self ((match e with | .seq items => itemBinders items | .listcomp _ q _ => qualBinders q | _ => []) ++ pend ++ seen) []
          (flag (tab s) op) c p
      else markedAtPinned tab self seen (hiddenBindersPinned e s i ++ pend) (flag (tab s) op) c p

def markedInBodyPinned (tab : Slot → Pass) (fn : Func) (p : Path) : Bool :=
  markedAtPinned tab fn.name (paramBinders fn.params) [] (flag (tab .funcBody) false) fn.body p

/-! ### SPEC on paths -/

/-- `p` leads from `e` to a node through tail children only -/
def TailPath (e : Expr) (p : Path) : Prop :=
  (sub e p).isSome ∧ ∀ st ∈ p, specTail st.1 = true

instance (e : Expr) (p : Path) : Decidable (TailPath e p) := by unfold TailPath; infer_instance

/-- the names a tail child has in scope in addition to its parent's, by the language's lexical rule: the `let`/`var`/function
items of the block (at its last item all of them precede), the names a `match` arm or `if let` binds -/
def scopeStep (e : Expr) (s : Slot) (i : Nat) : List Name :=
  match e, s with
  | .seq items, .seqLastExpr => itemBinders items
  | .matchE _ gs, .armRecd => match gs[i]? with
    | some (.recd _ _ binds _) => binds
    | _ => []
  | .ifLet (.recd _ _ binds _) _ _, .ifLetThen => binds
  | _, _ => []

/-- the names in scope at the end of a TAIL path, innermost first -/
def tailScope : Expr → Path → List Name
  | _, [] => []
  | e, (s, i) :: p =>
    match kid e s i with
    | none => []
    | some c => tailScope c p ++ scopeStep e s i

/-- the node at `p` is a call of the function `self` itself: the function expression is the identifier `self`,
not shadowed by a parameter or by anything in scope at `p` -/
def SelfCallAt (self : Name) (params : List Name) (body : Expr) (p : Path) : Prop :=
  self ≠ "" ∧ self ∉ params ∧ self ∉ tailScope body p ∧ ∃ args, sub body p = some (.call (.var self) args)

/-- **SPEC**: the node at `p` of the body of `fn` is a self call whose frame may be replaced -/
def SelfTailCall (fn : Func) (p : Path) : Prop :=
  TailPath fn.body p ∧ SelfCallAt fn.name (paramBinders fn.params) fn.body p

/-! ### SPEC, semantic side: "evaluation of the body reaches the node" (on the reference evaluator) -/

/-- evaluating the block `items` (fuel `f`, environment `env`, state `s`) reaches its LAST item, the expression `e`
(item index `i`), with fuel `f'`, environment `env'` (the block's bindings added) and state `s'`: every item before it
completed normally -/
inductive SeqReach (ctx : Ctx) : Nat → Env → St → List Item → Nat → Nat → Env → St → Expr → Prop
  | last {f env s e} : SeqReach ctx (f + 1) env s [.expr e] 0 f env s e
  | expr {f env s a rest l s1 i f' env' s' e} :
      evalE f ctx env a s = .ok l s1 → rest ≠ [] → SeqReach ctx f env s1 rest i f' env' s' e →
      SeqReach ctx (f + 1) env s (.expr a :: rest) (i + 1) f' env' s' e
  | bind {f env s v n a rest l s1 i f' env' s' e} :
      evalE f ctx env a s = .ok l s1 → SeqReach ctx f ((n, l) :: env) s1 rest i f' env' s' e →
      SeqReach ctx (f + 1) env s (.bind v n a :: rest) (i + 1) f' env' s' e
  | funcs {f env s fs rest env1 s1 i f' env' s' e} :
      allocGroup fs env s = .ok env1 s1 → SeqReach ctx f env1 s1 rest i f' env' s' e →
      SeqReach ctx (f + 1) env s (.funcs fs :: rest) (i + 1) f' env' s' e

/-- matching the value in cell `l` against the guards `gs` selects guard number `i` (the first that applies; the ones
before it do not apply), whose body `b` (at slot `sl`) runs with fuel `f'` in environment `env'` (payload names bound) -/
inductive GuardReach (ctx : Ctx) : Nat → Env → St → Loc → List Guard → Slot → Nat → Nat → Env → Expr → Prop
  | els {f env s l b gs} : GuardReach ctx (f + 1) env s l (.els b :: gs) .armEls 0 f env b
  | itemInt {f env s l en it b gs k item v} :
      ctx.findItem en it = some (k, item) → s.mem[l]? = some (.int v) → v.toInt = item.value →
      GuardReach ctx (f + 1) env s l (.item en it b :: gs) .armItem 0 f env b
  | itemRec {f env s l en it b gs k item o tag flds} :
      ctx.findItem en it = some (k, item) → s.mem[l]? = some (.rcd (some o)) → s.mem[o]? = some (.recObj tag flds) →
      tag = en ++ "::" ++ it →
      GuardReach ctx (f + 1) env s l (.item en it b :: gs) .armItem 0 f env b
  | recd {f env s l en it binds b gs o tag flds} :
      s.mem[l]? = some (.rcd (some o)) → s.mem[o]? = some (.recObj tag flds) → tag = en ++ "::" ++ it →
      GuardReach ctx (f + 1) env s l (.recd en it binds b :: gs) .armRecd 0 f (bindNames binds flds.toList env) b
  | skipItemInt {f env s l en it b gs k item v sl i f' env' x} :
      ctx.findItem en it = some (k, item) → s.mem[l]? = some (.int v) → v.toInt ≠ item.value →
      GuardReach ctx f env s l gs sl i f' env' x →
      GuardReach ctx (f + 1) env s l (.item en it b :: gs) sl (i + 1) f' env' x
  | skipItemRec {f env s l en it b gs k item o tag flds sl i f' env' x} :
      ctx.findItem en it = some (k, item) → s.mem[l]? = some (.rcd (some o)) → s.mem[o]? = some (.recObj tag flds) →
      tag ≠ en ++ "::" ++ it → GuardReach ctx f env s l gs sl i f' env' x →
      GuardReach ctx (f + 1) env s l (.item en it b :: gs) sl (i + 1) f' env' x
  | skipRecd {f env s l en it binds b gs o tag flds sl i f' env' x} :
      s.mem[l]? = some (.rcd (some o)) → s.mem[o]? = some (.recObj tag flds) → tag ≠ en ++ "::" ++ it →
      GuardReach ctx f env s l gs sl i f' env' x →
      GuardReach ctx (f + 1) env s l (.recd en it binds b :: gs) sl (i + 1) f' env' x
  | skipRecdInt {f env s l en it binds b gs v sl i f' env' x} :
      s.mem[l]? = some (.int v) → GuardReach ctx f env s l gs sl i f' env' x →
      GuardReach ctx (f + 1) env s l (.recd en it binds b :: gs) sl (i + 1) f' env' x

/-- **control reaches the node at path `p`**: evaluating `e` with fuel `f` in `env` from state `s` arrives, along `p`, at
the node `c` with fuel `f'`, environment `env'` and state `s'`: conditions evaluated and decided for the branch on the
path, earlier items of a block completed, scrutinee evaluated and the arm on the path selected.  There is a rule for
each TAIL child (`specTail`) and for no other. -/
inductive Reach (ctx : Ctx) : Nat → Env → St → Expr → Path → Nat → Env → St → Expr → Prop
  | here {f env s e} : Reach ctx f env s e [] f env s e
  | condT {f env s c t e lc s1 v p f' env' s' x} :
      evalE f ctx env c s = .ok lc s1 → s1.mem[lc]? = some (.int v) → (v != 0) = true →
      Reach ctx f env s1 t p f' env' s' x →
      Reach ctx (f + 1) env s (.cond c t e) ((.condT, 0) :: p) f' env' s' x
  | condE {f env s c t e lc s1 v p f' env' s' x} :
      evalE f ctx env c s = .ok lc s1 → s1.mem[lc]? = some (.int v) → (v != 0) = false →
      Reach ctx f env s1 e p f' env' s' x →
      Reach ctx (f + 1) env s (.cond c t e) ((.condE, 0) :: p) f' env' s' x
  | seqLast {f env s items i f1 env1 s1 e p f' env' s' x} :
      SeqReach ctx f env s items i f1 env1 s1 e → Reach ctx f1 env1 s1 e p f' env' s' x →
      Reach ctx (f + 1) env s (.seq items) ((.seqLastExpr, i) :: p) f' env' s' x
  | arm {f env s sc gs l s1 sl i f1 env1 b p f' env' s' x} :
      evalE f ctx env sc s = .ok l s1 → GuardReach ctx f env s1 l gs sl i f1 env1 b →
      Reach ctx f1 env1 s1 b p f' env' s' x →
      Reach ctx (f + 1) env s (.matchE sc gs) ((sl, i) :: p) f' env' s' x
  | ifLetThen {f env s g sc els l s1 sl f1 env1 b p f' env' s' x} :
      evalE f ctx env sc s = .ok l s1 → GuardReach ctx f env s1 l [g, .els els] sl 0 f1 env1 b →
      Reach ctx f1 env1 s1 b p f' env' s' x →
      Reach ctx (f + 1) env s (.ifLet g sc els) ((.ifLetThen, 0) :: p) f' env' s' x
  | ifLetElse {f env s g sc els l s1 sl f1 env1 b p f' env' s' x} :
      evalE f ctx env sc s = .ok l s1 → GuardReach ctx f env s1 l [g, .els els] sl 1 f1 env1 b →
      Reach ctx f1 env1 s1 b p f' env' s' x →
      Reach ctx (f + 1) env s (.ifLet g sc els) ((.ifLetElse, 0) :: p) f' env' s' x

end Never.Src.Tail
