/-
M-Src, modules (C02): a program is a main unit plus the units reachable through `use`.

A SEPARATE LAYER over the core evaluator: units are ELABORATED into one core program (`elaborate`), which `Never.Src.eval`
runs; the evaluator, its renaming theory (C08 `eval_alpha`) and all its theorems are untouched.  The rules, as the LANGUAGE
defines them:
* a unit is `[use …] [records / enums] [items]`; its items behave like the items of a block (bindings in order, consecutive
  functions form a group);
* a unit is loaded ONCE, however many units use it (`loadOrder`: depth-first over `use`, a unit after the units it uses —
  dependency order; the real compiler's order is the known finding module-bindings-initialised-before-used-modules);
* the module-level names of unit `m` are `m.x` everywhere (`qualItems`: the lexical renaming `rnItems` of C08 with a
  renaming that touches exactly the unit's top-level binders), records and enums are `m.R`, `m.E` (done by the reader:
  they live in their own name space); a name `m.x` therefore never resolves to an item of another unit;
* a `use` cycle is refused (`cyclic`; the real compiler: "cannot use modules in this context as they may not be yet
  initialized").
The program runs as ONE block: the items of the used units in load order, the items of the main unit, then `main(args)`.
-/
import NeverModel.Model.SrcSyn
namespace Never.Src.Mod
open Never.Src

structure Unit where
  name : Name                 -- "" = the main unit
  uses : List Name
  recs : List RecDecl
  enums : List EnumDecl
  items : List Item
  deriving Inhabited

def findUnit (us : List Unit) (n : Name) : Option Unit := us.find? (fun u => u.name == n)

mutual
/-- `visit stack acc n`: `acc` extended, in post-order, with the units reachable from `n` that are not yet in it; `stack` =
the units being visited (cuts cycles); an unknown name is skipped -/
def visit (us : List Unit) : Nat → List Name → List Name → Name → List Name
  | 0, _, acc, _ => acc
  | f + 1, stack, acc, n =>
    if n ∈ acc ∨ n ∈ stack then acc else
    match findUnit us n with
    | none => acc
    | some u =>
      let acc' := visitAll us f (n :: stack) acc u.uses
      if n ∈ acc' then acc' else acc' ++ [n]
def visitAll (us : List Unit) : Nat → List Name → List Name → List Name → List Name
  | 0, _, acc, _ => acc
  | _ + 1, _, acc, [] => acc
  | f + 1, stack, acc, n :: ns => visitAll us f stack (visit us f stack acc n) ns
end

def usesTotal : List Unit → Nat
  | [] => 0
  | u :: us => u.uses.length + usesTotal us

/-- enough fuel for every `use` edge and every nesting depth -/
def orderFuel (us : List Unit) (main : Unit) : Nat := (us.length + 2) * (usesTotal us + main.uses.length + 2)

/-- the units a program loads, in the order their items run: each once, a unit after the units it uses -/
def loadOrder (us : List Unit) (main : Unit) : List Name := visitAll us (orderFuel us main) [] [] main.uses

mutual
/-- is a unit reachable from `n` through `use` that uses a unit on the path to it? -/
def cyclicFrom (us : List Unit) : Nat → List Name → Name → Bool
  | 0, _, _ => false
  | f + 1, stack, n =>
    if n ∈ stack then true else
    match findUnit us n with
    | none => false
    | some u => cyclicAll us f (n :: stack) u.uses
def cyclicAll (us : List Unit) : Nat → List Name → List Name → Bool
  | 0, _, _ => false
  | _ + 1, _, [] => false
  | f + 1, stack, n :: ns => cyclicFrom us f stack n || cyclicAll us f stack ns
end

def cyclic (us : List Unit) (main : Unit) : Bool := cyclicAll us (orderFuel us main) [] main.uses

/-! ### qualification of the module-level names -/

/-- the top-level binders of a unit's items with the depth at which the lexical renaming (`rnItems` from the empty stack)
meets them -/
def idxFrom : Nat → List Name → List (Name × Nat)
  | _, [] => []
  | d, x :: xs => (x, d) :: idxFrom (d + 1) xs

def modDepths : Nat → List Item → List (Name × Nat)
  | _, [] => []
  | d, .bind _ x _ :: rest => (x, d) :: modDepths (d + 1) rest
  | d, .funcs fs :: rest => idxFrom d (funcNames fs) ++ modDepths (d + fs.length) rest
  | d, .expr _ :: rest => modDepths d rest

/-- qualified name of item `x` of unit `m` -/
def qdot (m x : Name) : Name := m ++ "." ++ x

/-- the renaming that qualifies exactly the top-level binders of a unit (and, lexically, their uses) -/
def qualNu (q : Name → Name → Name) (m : Name) (pairs : List (Name × Nat)) : Ren :=
  fun x d => if (x, d) ∈ pairs then q m x else x

def qualItems (q : Name → Name → Name) (m : Name) (items : List Item) : List Item :=
  rnItems (qualNu q m (modDepths 0 items)) [] items

/-- the names a list of items binds at its top level, in order -/
def itemBinders : List Item → List Name
  | [] => []
  | .bind _ x _ :: rest => x :: itemBinders rest
  | .funcs fs :: rest => funcNames fs ++ itemBinders rest
  | .expr _ :: rest => itemBinders rest

/-! ### elaboration -/

def findMainFunc : List Item → Option Func
  | [] => none
  | .funcs fs :: rest =>
    match fs.find? (fun f => f.name == "main") with
    | some f => some f
    | none => findMainFunc rest
  | _ :: rest => findMainFunc rest

def argParams : Nat → List Param → List Param
  | _, [] => []
  | i, p :: ps => { name := "arg" ++ toString i ++ "_", ty := p.ty } :: argParams (i + 1) ps

def loaded (us : List Unit) (main : Unit) : List Unit := (loadOrder us main).filterMap (findUnit us)

/-- the one block a program is: used units in load order (module-level names qualified), the main unit, `main(args)`;
it is the body of a wrapper `main` (function id 0: the units' functions are numbered from 1) -/
def elaborateWith (q : Name → Name → Name) (main : Unit) (us : List Unit) : Option Prog :=
  match findMainFunc main.items with
  | none => none
  | some mf =>
    let mods := loaded us main
    let ps := argParams 0 mf.params
    let items := (mods.map fun u => qualItems q u.name u.items).flatten ++ main.items ++
      [.expr (.call (.var "main") (ps.map fun p => .var p.name))]
    some { recs := (mods.map (·.recs)).flatten ++ main.recs, enums := (mods.map (·.enums)).flatten ++ main.enums,
           funcs := [.mk 0 "main" ps mf.ret (.seq items) []] }

def elaborate (main : Unit) (us : List Unit) : Option Prog := elaborateWith qdot main us

/-- outcome of a program given as units: a `use` cycle is refused before anything runs -/
def evalUnits (main : Unit) (us : List Unit) (args : List Arg) (fuel : Nat) : Option Outcome :=
  if cyclic us main then none else (elaborate main us).map fun p => eval p args fuel

end Never.Src.Mod
