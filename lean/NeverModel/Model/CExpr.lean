/-
CExpr: the small typed C expression language the translator (gen/numtab.py) emits for the
result expressions and guards of back/vmexec.c handlers and front/constred.c clauses, exactly as
clang types them (usual arithmetic conversions and integer promotions are explicit `cast` nodes),
and its C semantics `evalC` on the scalar values of Never.Num:

  int / long long : two's complement wrap-around (`-fwrapv`), `/` and `%` truncating; a zero divisor
                    and (MIN, -1) TRAP (SIGFPE) = `crash`; shift counts outside [0,width) = `crash`
  float / double  : IEEE single / double at the width clang reports (FLT_EVAL_METHOD 0), via Lean's
                    native Float32 / Float (opaque to the kernel)
  casts           : sign extension, truncation, int->float rounding, float->int as x86-64 cvtt*2si
                    ("integer indefinite" out of range), float<->double
This file also defines the shapes of the generated tables (VmRow, FoldRow, Cell, Rule) and how a
row is executed.  The semantics here is written independently of Never.Num's `bin/un/conv`;
Props/C11.lean proves that every generated handler row, run with `evalC`, equals them.
Core Lean only.
-/
import NeverModel.Model.Num
namespace Never.CExpr
open Never.Num

inductive CBin where
  | add | sub | mul | div | rem | lt | gt | le | ge | eq | ne | band | bor | bxor | shl | shr | land | lor
  deriving DecidableEq, Repr, Inhabited

inductive CUn where
  | neg | lnot | bnot
  deriving DecidableEq, Repr, Inhabited

/-- C types are named by the Never.Num type of the same width: int=int, long=long long, char=signed char -/
inductive CExpr where
  | opA (t : NTy)                       -- operand a read at C type t
  | opB (t : NTy)
  | lit (t : NTy) (v : Int)
  | un (op : CUn) (t : NTy) (e : CExpr)          -- t = result type
  | bin (op : CBin) (t : NTy) (l r : CExpr)      -- t = type the operation is performed at
  | cast (src dst : NTy) (e : CExpr)
  deriving DecidableEq, Repr, Inhabited

/-- values of C expressions: integers as bit vectors, floating values as Lean's native floats (so that
    intermediate results are not forced through a bit pattern) -/
inductive CVal where
  | i8 (v : BitVec 8)
  | i32 (v : BitVec 32)
  | i64 (v : BitVec 64)
  | f32 (x : Float32)
  | f64 (x : Float)
  deriving Inhabited

def CVal.ty : CVal → NTy
  | .i8 _ => .char | .i32 _ => .int | .i64 _ => .long | .f32 _ => .float | .f64 _ => .double

def CVal.ofN : NVal → CVal
  | .int v => .i32 v | .long v => .i64 v | .char v => .i8 v | .float v => .f32 (Num.f32 v) | .double v => .f64 (Num.f64 v)

/-- storing into a heap object / a literal node: floats become their bit pattern -/
def CVal.toN : CVal → NVal
  | .i32 v => .int v | .i64 v => .long v | .i8 v => .char v | .f32 x => .float (b32 x) | .f64 x => .double (b64 x)

inductive CRes where
  | ok (v : CVal)
  | crash (why : String)
  deriving Inhabited

def ill : CRes := .crash "ill-typed C expression (translator)"

def cLit (t : NTy) (v : Int) : CRes :=
  match t with
  | .int => .ok (.i32 (BitVec.ofInt 32 v))
  | .long => .ok (.i64 (BitVec.ofInt 64 v))
  | .char => .ok (.i8 (BitVec.ofInt 8 v))
  | .float => .ok (.f32 (Float32.ofInt v))
  | .double => .ok (.f64 (Float.ofInt v))

def cBool (b : Bool) : CRes := .ok (.i32 (if b then 1 else 0))

def cUn (op : CUn) (t : NTy) (x : CVal) : CRes :=
  match op, t, x with
  | .neg, .int, .i32 a => .ok (.i32 (-a))
  | .neg, .long, .i64 a => .ok (.i64 (-a))
  | .neg, .float, .f32 a => .ok (.f32 (-a))
  | .neg, .double, .f64 a => .ok (.f64 (-a))
  | .bnot, .int, .i32 a => .ok (.i32 (~~~a))
  | .bnot, .long, .i64 a => .ok (.i64 (~~~a))
  | .lnot, .int, .i32 a => cBool (a == 0)
  | .lnot, .int, .i64 a => cBool (a == 0)
  | .lnot, .int, .f32 a => cBool (a == 0)
  | .lnot, .int, .f64 a => cBool (a == 0)
  | _, _, _ => ill

def cBinInt (op : CBin) (a b : BitVec 32) : CRes :=
  match op with
  | .add => .ok (.i32 (a + b))
  | .sub => .ok (.i32 (a - b))
  | .mul => .ok (.i32 (a * b))
  | .div => if b = 0 then .crash "SIGFPE: integer division by zero" else
            if a = intMin32 ∧ b = -1 then .crash "SIGFPE: INT_MIN / -1" else .ok (.i32 (a.sdiv b))
  | .rem => if b = 0 then .crash "SIGFPE: integer division by zero" else
            if a = intMin32 ∧ b = -1 then .crash "SIGFPE: INT_MIN % -1" else .ok (.i32 (a.srem b))
  | .lt => cBool (a.slt b)
  | .gt => cBool (b.slt a)
  | .le => cBool (a.sle b)
  | .ge => cBool (b.sle a)
  | .eq => cBool (a == b)
  | .ne => cBool (a != b)
  | .band => .ok (.i32 (a &&& b))
  | .bor => .ok (.i32 (a ||| b))
  | .bxor => .ok (.i32 (a ^^^ b))
  | .shl => if b.toInt < 0 ∨ b.toInt ≥ 32 then .crash "shift count out of range" else .ok (.i32 (a <<< b.toNat))
  | .shr => if b.toInt < 0 ∨ b.toInt ≥ 32 then .crash "shift count out of range" else .ok (.i32 (a.sshiftRight b.toNat))
  | .land => cBool (a != 0 && b != 0)
  | .lor => cBool (a != 0 || b != 0)

def cBinLong (op : CBin) (a b : BitVec 64) : CRes :=
  match op with
  | .add => .ok (.i64 (a + b))
  | .sub => .ok (.i64 (a - b))
  | .mul => .ok (.i64 (a * b))
  | .div => if b = 0 then .crash "SIGFPE: integer division by zero" else
            if a = intMin64 ∧ b = -1 then .crash "SIGFPE: LLONG_MIN / -1" else .ok (.i64 (a.sdiv b))
  | .rem => if b = 0 then .crash "SIGFPE: integer division by zero" else
            if a = intMin64 ∧ b = -1 then .crash "SIGFPE: LLONG_MIN % -1" else .ok (.i64 (a.srem b))
  | .lt => cBool (a.slt b)
  | .gt => cBool (b.slt a)
  | .le => cBool (a.sle b)
  | .ge => cBool (b.sle a)
  | .eq => cBool (a == b)
  | .ne => cBool (a != b)
  | .band => .ok (.i64 (a &&& b))
  | .bor => .ok (.i64 (a ||| b))
  | .bxor => .ok (.i64 (a ^^^ b))
  | .shl => if b.toInt < 0 ∨ b.toInt ≥ 64 then .crash "shift count out of range" else .ok (.i64 (a <<< b.toNat))
  | .shr => if b.toInt < 0 ∨ b.toInt ≥ 64 then .crash "shift count out of range" else .ok (.i64 (a.sshiftRight b.toNat))
  | .land => cBool (a != 0 && b != 0)
  | .lor => cBool (a != 0 || b != 0)

def cBinF32 (op : CBin) (x y : Float32) : CRes :=
  match op with
  | .add => .ok (.f32 (x + y))
  | .sub => .ok (.f32 (x - y))
  | .mul => .ok (.f32 (x * y))
  | .div => .ok (.f32 (x / y))
  | .lt => cBool (x < y)
  | .gt => cBool (x > y)
  | .le => cBool (x ≤ y)
  | .ge => cBool (x ≥ y)
  | .eq => cBool (x == y)
  | .ne => cBool (x != y)
  | .land => cBool (x != 0 && y != 0)
  | .lor => cBool (x != 0 || y != 0)
  | _ => ill

def cBinF64 (op : CBin) (x y : Float) : CRes :=
  match op with
  | .add => .ok (.f64 (x + y))
  | .sub => .ok (.f64 (x - y))
  | .mul => .ok (.f64 (x * y))
  | .div => .ok (.f64 (x / y))
  | .lt => cBool (x < y)
  | .gt => cBool (x > y)
  | .le => cBool (x ≤ y)
  | .ge => cBool (x ≥ y)
  | .eq => cBool (x == y)
  | .ne => cBool (x != y)
  | .land => cBool (x != 0 && y != 0)
  | .lor => cBool (x != 0 || y != 0)
  | _ => ill

/-- a binary operation performed at C type `t`: both operands must already have that type
    (clang made the conversions explicit); C never computes at `char` (integer promotion) -/
def cBin (op : CBin) (t : NTy) (x y : CVal) : CRes :=
  match t, x, y with
  | .int, .i32 a, .i32 b => cBinInt op a b
  | .long, .i64 a, .i64 b => cBinLong op a b
  | .float, .f32 a, .f32 b => cBinF32 op a b
  | .double, .f64 a, .f64 b => cBinF64 op a b
  | _, _, _ => ill

/-- `(int)x`, `(long long)x` for a double as cvttsd2si computes them -/
def d2i32 (x : Float) : BitVec 32 :=
  if x.isNaN then intMin32 else
  let t := x.toInt64.toInt
  if t < -2147483648 ∨ t > 2147483647 then intMin32 else BitVec.ofInt 32 t
def d2i64 (x : Float) : BitVec 64 :=
  if x.isNaN ∨ x ≥ 9223372036854775808.0 ∨ x < -9223372036854775808.0 then intMin64 else BitVec.ofInt 64 x.toInt64.toInt

def cCast (src dst : NTy) (x : CVal) : CRes :=
  match src, dst, x with
  | .int, .int, .i32 a => .ok (.i32 a)
  | .long, .long, .i64 a => .ok (.i64 a)
  | .float, .float, .f32 a => .ok (.f32 a)
  | .double, .double, .f64 a => .ok (.f64 a)
  | .char, .char, .i8 a => .ok (.i8 a)
  | .char, .int, .i8 a => .ok (.i32 (a.signExtend 32))
  | .char, .long, .i8 a => .ok (.i64 (a.signExtend 64))
  | .int, .char, .i32 a => .ok (.i8 (a.truncate 8))
  | .long, .char, .i64 a => .ok (.i8 (a.truncate 8))
  | .int, .long, .i32 a => .ok (.i64 (a.signExtend 64))
  | .long, .int, .i64 a => .ok (.i32 (a.truncate 32))
  | .int, .float, .i32 a => .ok (.f32 (Float32.ofInt a.toInt))
  | .int, .double, .i32 a => .ok (.f64 (Float.ofInt a.toInt))
  | .long, .float, .i64 a => .ok (.f32 (Float32.ofInt a.toInt))
  | .long, .double, .i64 a => .ok (.f64 (Float.ofInt a.toInt))
  | .char, .float, .i8 a => .ok (.f32 (Float32.ofInt a.toInt))
  | .char, .double, .i8 a => .ok (.f64 (Float.ofInt a.toInt))
  | .float, .int, .f32 a => .ok (.i32 (d2i32 a.toFloat))
  | .float, .long, .f32 a => .ok (.i64 (d2i64 a.toFloat))
  | .double, .int, .f64 a => .ok (.i32 (d2i32 a))
  | .double, .long, .f64 a => .ok (.i64 (d2i64 a))
  | .float, .double, .f32 a => .ok (.f64 a.toFloat)
  | .double, .float, .f64 a => .ok (.f32 a.toFloat32)
  | _, _, _ => ill

/-- C semantics of a typed expression; `ra t` / `rb t` = reading operand a / b at C type t -/
def evalC (ra rb : NTy → CRes) : CExpr → CRes
  | .opA t => ra t
  | .opB t => rb t
  | .lit t v => cLit t v
  | .un op t e =>
    match evalC ra rb e with
    | .ok x => cUn op t x
    | r => r
  | .bin op t l r =>
    match evalC ra rb l with
    | .ok x => (match evalC ra rb r with
                | .ok y => cBin op t x y
                | r' => r')
    | r' => r'
  | .cast s d e =>
    match evalC ra rb e with
    | .ok x => cCast s d x
    | r => r

/-- guard (non-zero => exception `e`), then the result expression stored at type `out` -/
def runGE (ra rb : NTy → CRes) (guard : Option (CExpr × Nat)) (expr : CExpr) (out : NTy) : NRes :=
  let body : NRes :=
    match evalC ra rb expr with
    | .ok v => if v.ty = out then .ok v.toN else .crash "ill-typed C expression (translator)"
    | .crash w => .crash w
  match guard with
  | none => body
  | some (g, e) =>
    match evalC ra rb g with
    | .ok (.i32 x) => if x = 0 then body else .exc e
    | .ok _ => .crash "ill-typed C expression (translator)"
    | .crash w => .crash w

/-- every operand read in `e` is at type `ta` (operand a) / `tb` (operand b) -/
def readsAt (ta : NTy) (tb : Option NTy) : CExpr → Bool
  | .opA t => t == ta
  | .opB t => tb == some t
  | .lit _ _ => true
  | .un _ _ e => readsAt ta tb e
  | .bin _ _ l r => readsAt ta tb l && readsAt ta tb r
  | .cast _ _ e => readsAt ta tb e

/-! ## VM handler rows (Gen/VmArith.lean) -/

/-- which Never.Num function a handler must implement; fixed by the handler's NAME
    (vm_execute_op_add_int = bin int add, vm_execute_int_to_long = conv int long) -/
inductive Sem where
  | bin (ty : NTy) (op : BinOp)
  | un (ty : NTy) (op : UnOp)
  | conv (src dst : NTy)
  deriving DecidableEq, Repr, Inhabited

def Sem.eval : Sem → NVal → NVal → NRes
  | .bin ty op, a, b => Num.bin ty op a b
  | .un ty op, a, _ => Num.un ty op a
  | .conv s d, a, _ => Num.conv s d a

/-- the part of a handler that is executed: getters, guard (expression, exception raised when it is
    non-zero), allocator type, result expression -/
structure Core where
  getA : NTy
  getB : Option NTy
  guard : Option (CExpr × Nat)
  alloc : NTy
  expr : CExpr
  deriving DecidableEq, Repr, Inhabited

structure VmRow where
  name : String
  sem : Sem
  getA : NTy
  getB : Option NTy
  guard : Option (CExpr × Nat)
  alloc : NTy
  expr : CExpr
  deriving Repr, Inhabited

def VmRow.core (r : VmRow) : Core := ⟨r.getA, r.getB, r.guard, r.alloc, r.expr⟩

def rdVm (v : NVal) (t : NTy) : CRes := if v.ty = t then .ok (.ofN v) else ill

/-- run a handler on the two heap scalars on top of the stack (a = sp-1 / sp, b = sp):
    gc_get_<t> asserts the object tag, then the guard, then the result is allocated -/
def wrongTagB (g : Option NTy) (b : NVal) : Bool :=
  match g with
  | some tb => b.ty != tb
  | none => false

def Core.eval (c : Core) (a b : NVal) : NRes :=
  if a.ty ≠ c.getA then .tag else
  if wrongTagB c.getB b then .tag else
  runGE (rdVm a) (rdVm b) c.guard c.expr c.alloc

def VmRow.eval (r : VmRow) (a b : NVal) : NRes := r.core.eval a b

/-! ## constant-folding rows (Gen/ConstRed.lean) -/

inductive LitKind where
  | bool | int | long | float | double | char | enumtype
  deriving DecidableEq, Repr, Inhabited

/-- the union member (C type) a literal of this kind is stored in; an enumerator's value is the
    separate `int index` field -/
def LitKind.storage : LitKind → NTy
  | .bool => .int | .int => .int | .long => .long | .float => .float | .double => .double
  | .char => .char | .enumtype => .int

/-- reading member type `t` of a literal node of kind `k` holding `v` (little-endian union):
    the stored member itself, or the low half of a wider stored member; a read that extends past the
    bytes the literal's constructor wrote is indeterminate = crash -/
def rdLit (k : LitKind) (v : NVal) (t : NTy) : CRes :=
  if v.ty ≠ k.storage then ill else
  if t = k.storage then .ok (.ofN v) else
  match k, v, t with
  | .long, .long x, .int => .ok (.i32 (x.truncate 32))
  | .long, .long x, .float => .ok (.f32 (Num.f32 (x.truncate 32)))
  | .long, .long x, .double => .ok (.f64 (Num.f64 x))
  | .double, .double x, .int => .ok (.i32 (x.truncate 32))
  | .double, .double x, .float => .ok (.f32 (Num.f32 (x.truncate 32)))
  | .double, .double x, .long => .ok (.i64 x)
  | .int, .int x, .float => .ok (.f32 (Num.f32 x))
  | .float, .float x, .int => .ok (.i32 x)
  | _, _, _ => .crash "union member read beyond the bytes the literal stores"

/-- source operators (EXPR_<x> of front/expr.h) that have a folding clause; `conv` = inserted conversion node,
    `sup` = parenthesised expression, `ass` = assignment -/
inductive SrcOp where
  | neg | add | sub | mul | div | mod | lt | gt | lte | gte | eq | neq | and | or | not
  | bin_not | bin_and | bin_or | bin_xor | bin_shl | bin_shr | sup | ass | conv
  deriving DecidableEq, Repr, Inhabited

inductive FoldTable where
  | constred | enumred
  deriving DecidableEq, Repr, Inhabited

structure FoldRow where
  table : FoldTable        -- front/constred.c | front/enumred.c (enumerator value expressions)
  op : SrcOp               -- source operator (expr_<op>_constred) or conv
  conv : Option (NTy × NTy) -- CONV_x_TO_y for rows of expr_conv_constred
  kindA : LitKind
  kindB : Option LitKind
  guard : Option CExpr     -- non-zero => the reducer reports "division by zero" and fails the compilation
  resKind : LitKind        -- value->type = EXPR_<resKind>
  resMember : NTy          -- the union member the result is stored in
  expr : CExpr
  deriving Repr, Inhabited

inductive FoldRes where
  | folded (k : LitKind) (v : NVal)
  | divzero
  | crash (why : String)
  | illkinded
  deriving DecidableEq, Repr, Inhabited

def FoldRow.wellKinded (r : FoldRow) (a b : NVal) : Prop :=
  a.ty = r.kindA.storage ∧ (match r.kindB with | some kb => b.ty = kb.storage | none => True)

instance (r : FoldRow) (a b : NVal) : Decidable (r.wellKinded a b) := by
  unfold FoldRow.wellKinded; cases r.kindB <;> exact inferInstance

def FoldRow.rdB (r : FoldRow) (b : NVal) : NTy → CRes :=
  match r.kindB with
  | some kb => rdLit kb b
  | none => fun _ => ill

def FoldRes.ofNRes (k : LitKind) : NRes → FoldRes
  | .ok v => .folded k v
  | .exc _ => .divzero
  | .crash w => .crash w
  | .tag => .crash "tag"

/-- what the compiler does with `lit op lit` at this clause -/
def FoldRow.eval (r : FoldRow) (a b : NVal) : FoldRes :=
  if ¬ r.wellKinded a b then .illkinded else
  if r.resMember ≠ r.resKind.storage then .crash "result stored in another union member than its kind names" else
  FoldRes.ofNRes r.resKind (runGE (rdLit r.kindA a) (r.rdB b) (r.guard.map (·, 1)) r.expr r.resMember)

/-! ## typechecker matrices (Gen/ConvMatrix.lean) and emitter selection (Gen/EmitSelect.lean) -/

inductive Comb where
  | bool | int | long | float | double | char | enumtype
  deriving DecidableEq, Repr, Inhabited

def LitKind.comb : LitKind → Comb
  | .bool => .bool | .int => .int | .long => .long | .float => .float | .double => .double
  | .char => .char | .enumtype => .enumtype

/-- run-time representation of a value of this combined type (bool and ITEM enumerators are ints) -/
def Comb.repr : Comb → NTy
  | .bool => .int | .int => .int | .long => .long | .float => .float | .double => .double
  | .char => .char | .enumtype => .int

/-- the four numeric types in promotion order int < long < float < double -/
def Comb.rank : Comb → Option Nat
  | .int => some 0 | .long => some 1 | .float => some 2 | .double => some 3 | _ => none

def Comb.ofNTy : NTy → Comb
  | .int => .int | .long => .long | .float => .float | .double => .double | .char => .char

/-- one cell of a conversion matrix: operand types, the conversion applied to each operand, the
    combined type written to the node, whether expr_conv_enumerator is applied -/
structure Cell where
  l : Comb
  r : Comb
  convL : Option (NTy × NTy)
  convR : Option (NTy × NTy)
  res : Comb
  enumL : Bool
  enumR : Bool
  deriving DecidableEq, Repr, Inhabited

structure Rule where
  op : SrcOp
  l : Comb
  r : Option Comb
  convL : Option (NTy × NTy)
  convR : Option (NTy × NTy)
  comb : Comb                 -- value->comb.comb after typing
  l2 : Comb                   -- operand types as the emitter sees them (conversion nodes carry their target)
  r2 : Option Comb
  opcode : Option (Nat × String) -- (number, name); none = no clause in expr_<op>_emit (EMIT_FAIL, assert(0))
  deriving DecidableEq, Repr, Inhabited

/-- the tables of one tree -/
structure Tables where
  vmRows : List VmRow
  opcodes : List (Nat × String × Nat)            -- opcode number, name, index into vmRows
  assOpcodes : List (Nat × String × NTy × NTy)   -- opcode number, name, gc_get type, gc_set type
  foldRows : List FoldRow
  basic : List Cell
  ass : List Cell
  enumtype : List Cell
  param : List Cell
  convComb : List ((NTy × NTy) × Comb)
  rules : List Rule
  convOpcode : List ((NTy × NTy) × Nat × String)

/-- vm_execute_op[opcode] -/
def Tables.handler (T : Tables) (opcode : Nat) : Option VmRow :=
  match T.opcodes.find? (fun p => p.1 == opcode) with
  | some (_, _, i) => T.vmRows[i]?
  | none => none

def Tables.rule (T : Tables) (op : SrcOp) (l : Comb) (r : Option Comb) : Option Rule :=
  T.rules.find? (fun x => x.op == op && x.l == l && x.r == r)

def Tables.convHandler (T : Tables) (c : NTy × NTy) : Option VmRow :=
  match T.convOpcode.find? (fun p => p.1 == c) with
  | some (_, opc, _) => T.handler opc
  | none => none

def noOpcode : NRes := .crash "EMIT_FAIL: the emitter has no opcode for these operand types"
def rejected : NRes := .crash "rejected by the typechecker"

def Tables.applyConv (T : Tables) (c : Option (NTy × NTy)) (v : NVal) : NRes :=
  match c with
  | none => .ok v
  | some p => match T.convHandler p with
    | some h => h.eval v v
    | none => noOpcode

/-- the code the emitter produces for `&&` / `||` (JUMPZ ladder ending in INT 1 / INT 0), hand-modelled
    as a pseudo handler; tied by correspondence only -/
def andCore : Core := ⟨.int, some .int, none, .int, .bin .land .int (.opA .int) (.opB .int)⟩
def orCore : Core := ⟨.int, some .int, none, .int, .bin .lor .int (.opA .int) (.opB .int)⟩
/-- `( e )` emits nothing -/
def supCore (t : NTy) : Core := ⟨t, none, none, t, .opA t⟩

/-- the handler that runs for source operator `op` after typing at (l, r): none = no opcode -/
def Tables.opCore (T : Tables) (op : SrcOp) (rule : Rule) : Option Core :=
  match op with
  | .and => some andCore
  | .or => some orCore
  | _ => match rule.opcode with
    | none => none
    | some (opc, _) => (T.handler opc).map (·.core)

/-- run `a op b` with operands held in variables of combined types (l, r): typing rule, conversions
    inserted by the typechecker, opcode chosen by the emitter, handler of the VM -/
def Tables.runSrc (T : Tables) (op : SrcOp) (l : Comb) (r : Option Comb) (a b : NVal) : NRes :=
  match op with
  | .sup => (supCore l.repr).eval a b
  | _ =>
  match T.rule op l r with
  | none => rejected
  | some rule =>
    match T.applyConv rule.convL a with
    | .ok a' =>
      (match T.applyConv rule.convR b with
       | .ok b' => (match T.opCore op rule with
                    | some c => c.eval a' b'
                    | none => noOpcode)
       | e => e)
    | e => e

/-- the run-time counterpart of a folding row: the handler for the row's operator at the row's
    operand kinds, provided the typechecker inserts no conversion there (it never does for operands
    of one kind; a conversion IS the row for expr_conv_constred) -/
def Tables.counterpart (T : Tables) (r : FoldRow) : Option Core :=
  match r.op with
  | .conv => (match r.conv with
              | some c => (T.convHandler c).map (·.core)
              | none => none)
  | .sup => some (supCore r.kindA.storage)
  | op =>
    match T.rule op r.kindA.comb (r.kindB.map (·.comb)) with
    | none => none
    | some rule => if rule.convL.isSome || rule.convR.isSome then none else T.opCore op rule

def Tables.runRow (T : Tables) (r : FoldRow) (a b : NVal) : NRes :=
  match T.counterpart r with
  | some c => c.eval a b
  | none => noOpcode

/-- assignment `x = e` with x a variable of type l, e of type r with value b: conversion of the right
    side, then the OP_ASS_<t> handler selected by the combined type, which reads the (converted) right
    value with gc_get_<t> and stores it with gc_set_<t'> into x's object.
    Result: the new value of x, or `.tag` (object-type assertion). -/
def Tables.runAss (T : Tables) (l r : Comb) (b : NVal) : NRes :=
  match T.rule .ass l (some r) with
  | none => rejected
  | some rule =>
    match T.applyConv rule.convR b with
    | .ok b' =>
      (match rule.opcode with
       | none => noOpcode
       | some (opc, _) =>
         (match T.assOpcodes.find? (fun p => p.1 == opc) with
          | none => noOpcode
          | some (_, _, g, s) => if b'.ty = g ∧ l.repr = s ∧ g = s then .ok b' else .tag))
    | e => e

def LitKind.ofNTy : NTy → LitKind
  | .int => .int | .long => .long | .float => .float | .double => .double | .char => .char

def Tables.foldRow (T : Tables) (table : FoldTable) (op : SrcOp) (conv : Option (NTy × NTy)) (ka : LitKind) (kb : Option LitKind) :
    Option FoldRow :=
  T.foldRows.find? fun r => r.table == table && r.op == op && r.conv == conv && r.kindA == ka && r.kindB == kb

/-- a literal under an inserted conversion node: expr_conv_constred; none = the node stays (converted at run time) -/
def Tables.foldConv (T : Tables) (c : Option (NTy × NTy)) (k : LitKind) (v : NVal) : Option (LitKind × FoldRes) :=
  match c with
  | none => some (k, .folded k v)
  | some cv =>
    match T.foldRow .constred .conv (some cv) k none with
    | some r => some (r.resKind, r.eval v v)
    | none => none

/-- what the compiler does with `lit op lit` for literals of kinds (ka, kb): the typechecker's conversions are
    folded first (expr_conv_constred), then the operator's clause; none = not reduced at compile time -/
def Tables.foldSrc (T : Tables) (op : SrcOp) (ka : LitKind) (kb : Option LitKind) (a b : NVal) : Option FoldRes :=
  match op with
  | .sup => (T.foldRow .constred .sup none ka none).map (·.eval a b)
  | _ =>
  match T.rule op ka.comb (kb.map (·.comb)) with
  | none => some (.crash "rejected by the typechecker")
  | some rule =>
    match T.foldConv rule.convL ka a, T.foldConv rule.convR (kb.getD .int) b with
    | some (ka', .folded _ a'), some (kb', .folded _ b') =>
      (match T.foldRow .constred op none ka' (kb.map fun _ => kb') with
       | some r => some (r.eval a' b')
       | none => none)
    | some (_, .folded _ _), some (_, e) => some e
    | some (_, e), _ => some e
    | _, _ => none

/-! ## executable checkers used by the proofs (Props/C10, C11) and by the driver -/

def binC : BinOp → CBin
  | .add => .add | .sub => .sub | .mul => .mul | .div => .div | .mod => .rem
  | .lt => .lt | .gt => .gt | .lte => .le | .gte => .ge | .eq => .eq | .neq => .ne
  | .band => .band | .bor => .bor | .bxor => .bxor | .shl => .shl | .shr => .shr

def isCmp : BinOp → Bool
  | .lt | .gt | .lte | .gte | .eq | .neq => true
  | _ => false

def zeroOf (t : NTy) : CExpr := .lit t 0

/-- the canonical handler for each `Sem` (what the macro families of vmexec.c expand to, as clang types it);
    none = the VM has no such handler -/
def specCore : Sem → Option Core
  | .bin .char op =>
    if isCmp op then some ⟨.char, some .char, none, .int, .bin (binC op) .int (.cast .char .int (.opA .char)) (.cast .char .int (.opB .char))⟩
    else none
  | .bin ty op =>
    let isInt := ty == .int || ty == .long
    let e : CExpr := .bin (binC op) ty (.opA ty) (.opB ty)
    let g : CExpr := .bin .eq ty (.opB ty) (zeroOf ty)
    if isCmp op then some ⟨ty, some ty, none, .int, e⟩
    else match op with
      | .add | .sub | .mul => some ⟨ty, some ty, none, ty, e⟩
      | .div => some ⟨ty, some ty, some (g, 1), ty, e⟩
      | .mod => if isInt then some ⟨ty, some ty, some (g, 1), ty, e⟩ else none
      | _ => if isInt then some ⟨ty, some ty, none, ty, e⟩ else none
  | .un ty .neg => if ty == .char then none else some ⟨ty, none, none, ty, .un .neg ty (.opA ty)⟩
  | .un .int .not => some ⟨.int, none, none, .int, .un .lnot .int (.opA .int)⟩
  | .un .int .bnot => some ⟨.int, none, none, .int, .un .bnot .int (.opA .int)⟩
  | .un .long .bnot => some ⟨.long, none, none, .long, .un .bnot .long (.opA .long)⟩
  | .un _ _ => none
  | .conv s d => if s == d || s == .char || d == .char then none else some ⟨s, none, none, d, .cast s d (.opA s)⟩

def VmRow.ok (r : VmRow) : Bool := decide (specCore r.sem = some r.core)

/-- the folding clause and its run-time handler are the same guarded expression over the same operand reads -/
def FoldRow.agreesWith (r : FoldRow) (c : Core) : Bool :=
  c.getA == r.kindA.storage && c.getB == r.kindB.map (·.storage) &&
  r.expr == c.expr && readsAt c.getA c.getB r.expr &&
  r.guard.map (·, 1) == c.guard &&
  (match r.guard with | some g => readsAt c.getA c.getB g | none => true) &&
  r.resMember == c.alloc && r.resMember == r.resKind.storage

def rowAgrees (T : Tables) (r : FoldRow) : Bool :=
  match T.counterpart r with
  | some c => r.agreesWith c
  | none => false

end Never.CExpr
