import NeverModel.Gen.OwnTab
/-!
# C16 — the ownership discipline of the AST / program structures (SPEC)

`Gen/OwnTab.lean` (regenerated from /repo's source by `gen/owntab.py` on every run) says what the code DOES: which pointer
members every struct with a delete function has, what each `*_delete` releases on which switch arm, what each constructor
stores, where nodes are retagged.  This file says what it SHOULD do: which pointer members a node OWNS.

The rule is: **a pointer member is owned** — whatever is stored in it must be released exactly once by the struct's delete
function, on every arm (tag value) under which the member can hold something — **unless it is listed below** as

* `borrowed` (weak): it points into a structure that somebody else owns;
* `elsewhere fn`: it is released by the named other delete function (list links, array elements);
* `ownedCond`: owned, but only under a run-time condition that is not the tag (the delete function must test it).

So a member the tree gains tomorrow is owned until somebody classifies it here: a missing release breaks
`owned_fields_released`, a wrong classification is visible in this short list.  Members are named by the constants
`F.<struct>__<member path>` of the generated table: an entry whose member no longer exists does not compile (stale spec).

The checks in the second half are the Boolean forms of the theorems of `Props/C16.lean`; everything they compare is a
natural number (kernel evaluation of string equality is ~10 ms a pair in this Lean).
-/
namespace Never.Own
open Never.Gen.OwnTab

inductive Class where
  | owned
  | borrowed
  | elsewhere (fn : Nat)
  | ownedCond
  deriving DecidableEq, Repr

/-- `tags = []`: under every tag -/
structure Rule where
  field : Nat
  tags : List Nat
  cls : Class

/-! ## the classification -/

/-- typing results: the typechecker makes `comb` point at the `param`/`record`/`enumtype`/… nodes of the DECLARATION the
expression's type comes from (owned by that declaration's `func_decl`, `record`, …); an identifier / enum literal points at
the declaration it resolved to -/
def typeLinks : List Nat := [
  F.expr__comb_array_comb_ret, F.expr__comb_range_comb_ret, F.expr__comb_slice_comb_ret, F.expr__comb_func_comb_params,
  F.expr__comb_func_comb_ret, F.expr__comb_touple_comb_dims, F.expr__comb_comb_record, F.expr__comb_comb_enumtype,
  F.expr__comb_comb_matchbind, F.expr__comb_comb_module_decl,
  F.expr__enumtype_id_enumerator_value, F.expr__enumtype_id_enumtype_value,
  F.expr__id_id_freevar_value, F.expr__id_id_param_value, F.expr__id_id_bind_value, F.expr__id_id_matchbind_value,
  F.expr__id_id_qualifier_value, F.expr__id_id_forin_value, F.expr__id_id_func_value, F.expr__id_id_record_value,
  F.expr__id_id_enumtype_value, F.expr__id_id_module_decl_value,
  F.param__record_record_value, F.param__record_enumtype_value,
  F.match_guard_item__enumtype_value, F.match_guard_item__enumerator_value,
  F.match_guard_record__enumtype_value, F.match_guard_record__enumerator_value,
  F.matchbind__param_value, F.matchbind__enumerator_value, F.matchbind__enumtype_value]

/-- back pointers from a dimension / range bound to the array / range / slice type it belongs to -/
def backLinks : List Nat := [F.param__array_dim_array, F.param__range_dim_range, F.param__slice_dim_slice]

/-- symbol tables map names to the declaration nodes of the AST (which the AST owns); `id` is the declaration's own name;
`parent` is the enclosing scope's table (owned by the enclosing node); an `inttab` maps values to enumerators of the enum -/
def symtabLinks : List Nat := [
  F.symtab__parent, F.symtab_entry__id, F.symtab_entry__object_value, F.symtab_entry__param_value, F.symtab_entry__bind_value,
  F.symtab_entry__matchbind_value, F.symtab_entry__qualifier_value, F.symtab_entry__forin_value, F.symtab_entry__record_value,
  F.symtab_entry__enumtype_value, F.symtab_entry__enumerator_value, F.symtab_entry__func_value, F.symtab_entry__module_decl_value,
  F.inttab_entry__enumerator_value]

/-- free-variable records: `id` is the identifier expression's own string, `orig`/`src` point at the declaration captured -/
def freevarLinks : List Nat := [
  F.freevar__id,
  F.freevar__orig_param_value, F.freevar__orig_bind_value, F.freevar__orig_matchbind_value, F.freevar__orig_qualifier_value,
  F.freevar__orig_forin_value, F.freevar__orig_freevar_value, F.freevar__orig_func_value,
  F.freevar__src_param_value, F.freevar__src_bind_value, F.freevar__src_matchbind_value, F.freevar__src_qualifier_value,
  F.freevar__src_forin_value, F.freevar__src_freevar_value, F.freevar__src_func_value]

/-- doubly linked lists: `head` and `prev` are the backward links of the chain that is owned through `tail`/`next` -/
def listBackLinks : List Nat := [
  F.bytecode_list__head, F.bytecode_list_node__prev, F.decl_list__head, F.decl_list_node__prev, F.dim_list__head, F.dim_list_node__prev,
  F.enumerator_list__head, F.enumerator_list_node__prev, F.except_list__head, F.except_list_node__prev,
  F.expr_list__head, F.expr_list_node__prev, F.expr_list_weak__head, F.expr_list_weak_node__prev,
  F.freevar_list__head, F.freevar_list_node__prev, F.func_list_weak__head, F.func_list_weak_node__prev,
  F.match_guard_list__head, F.match_guard_list_node__prev, F.matchbind_list__head, F.matchbind_list_node__prev,
  F.param_list__head, F.param_list_node__prev, F.qualifier_list__head, F.qualifier_list_node__prev,
  F.range_list__head, F.range_list_node__prev, F.seq_list__head, F.seq_list_node__prev, F.use_list__head, F.use_list_node__prev]

/-- weak lists (work lists of the emitter) hold nodes of the AST; the back end refers to `func` nodes of the AST (owned by
the AST, which is deleted before the code runs: these are only read while compiling); a program's `params` are the entry's
(`functab_entry.params`); a machine runs a program it does not own; argv belongs to the process; a C pointer / a string
returned by a foreign function belongs to the foreign code; `dltab` (unused module) never closed its handles -/
def otherWeak : List Nat := [
  F.expr_list_weak_node__value, F.func_list_weak_node__value,
  F.bytecode__id_func_func_value, F.bytecode_list_node__value_id_func_func_value, F.functab_entry__func_value,
  F.program__params, F.vm__prog, F.object_str_arr__argv, F.object__c_ptr_value, F.ffi_decl__ret_string_value, F.dltab_entry__lib]

/-- the forward link of every list node is released by the LIST's delete function, which walks `tail`, `->next`, … -/
def listForwardLinks : List (Nat × Nat) := [
  (F.bytecode_list_node__next, Fn.bytecode_delete), (F.decl_list_node__next, Fn.decl_list_delete), (F.dim_list_node__next, Fn.dim_list_delete),
  (F.enumerator_list_node__next, Fn.enumerator_list_delete), (F.except_list_node__next, Fn.except_list_delete),
  (F.expr_list_node__next, Fn.expr_list_delete), (F.expr_list_weak_node__next, Fn.expr_list_weak_delete),
  (F.freevar_list_node__next, Fn.freevar_list_delete), (F.func_list_weak_node__next, Fn.func_list_weak_delete),
  (F.match_guard_list_node__next, Fn.match_guard_list_delete), (F.matchbind_list_node__next, Fn.matchbind_list_delete),
  (F.param_list_node__next, Fn.param_list_delete), (F.qualifier_list_node__next, Fn.qualifier_list_delete),
  (F.range_list_node__next, Fn.range_list_delete), (F.seq_list_node__next, Fn.seq_list_delete), (F.use_list_node__next, Fn.use_list_delete)]

/-- members that are borrowed under every tag -/
def borrowedAlways : List Nat := typeLinks ++ backLinks ++ symtabLinks ++ freevarLinks ++ listBackLinks ++ otherWeak

/-- the remaining rules -/
def specialRules : List Rule :=
  listForwardLinks.map (fun (f, g) => ⟨f, [], .elsewhere g⟩) ++ [
  -- a `use` without a module body (MODULE_DECL_TYPE_REF) shares name and tree with the declaration it refers to
  ⟨F.module_decl__id, [T.MODULE_DECL_TYPE_REF], .borrowed⟩,
  ⟨F.module_decl__nev, [T.MODULE_DECL_TYPE_REF], .borrowed⟩,
  -- the entries of a library cache are an array freed as one block; what each element holds is released by the cache
  ⟨F.dlcache_entry__dl_name, [], .elsewhere Fn.dlcache_delete⟩,
  ⟨F.dlcache_entry__handle, [], .elsewhere Fn.dlcache_delete⟩,
  -- a function-table entry owns its name only when it was rebuilt from an address (FUNCTAB_ADDR); else it is the func's
  ⟨F.functab_entry__id, [], .ownedCond⟩,
  -- libffi descriptors: only struct types are allocated (basic ones are libffi's statics); the buffer of a struct result
  ⟨F.ffi_decl__ret_type, [], .ownedCond⟩,
  ⟨F.ffi_decl__ret_void_value, [], .ownedCond⟩]

/-- members released by something other than the delete function of their pointee type: the message array is freed
element by element (deep) and then as a block; a struct-typed libffi descriptor by the project's recursive walker -/
def releaseOverride : List (Nat × Nat) := [
  (F.program__msg_array, Fn.free), (F.ffi_decl__ret_type, Fn.ffi_decl_delete_ffi_type)]

/-- retagging sites reviewed by hand (by function): the translator's block-local account does not close for them although
they are right.
* `expr_conv`: copies the whole node into a fresh one (`*ret = *expr_value`) and becomes its parent;
* `expr_sup_constred` / `expr_sup_enumred` → EXPR_ENUMTYPE: MOVE the child's `enumtype` members into the node by struct
  assignment and then `free` the emptied child (a shallow free is right there);
* `range_dim_set_range` / `range_dim_set_slice`: the bounds of a range are only ever built by `param_new_range_dim`
  (front/parser.y), which owns nothing but `id`, released on every arm -/
def reviewedRetags : List Nat := [
  Fn.expr_conv, Fn.expr_sup_constred, Fn.expr_sup_enumred, Fn.range_dim_set_range, Fn.range_dim_set_slice]

/-! ## evaluation

Sets of small numbers are kept as bit masks (`Σ 2^i`): the kernel computes on `Nat` with GMP, a membership test is one
shift, whereas a list traversal costs ~0.2 ms an element. -/

def maskOf (xs : List Nat) : Nat := xs.foldl (fun m x => m ||| (1 <<< x)) 0
def bit (m i : Nat) : Bool := Nat.beq ((m >>> i) % 2) 1
def eqN (a b : Nat) : Bool := Nat.beq a b

def borrowedMask : Nat := maskOf borrowedAlways
def specialMask : Nat := maskOf (specialRules.map (·.field))

def classify (f tag : Nat) : Class :=
  if bit borrowedMask f then .borrowed
  else if bit specialMask f then
    (match specialRules.find? (fun r => eqN r.field f && (r.tags.isEmpty || r.tags.any (eqN tag))) with
     | some r => r.cls
     | none => .owned)
  else .owned

def isOwned (f tag : Nat) : Bool := match classify f tag with | .owned => true | _ => false
def isBorrowed (f tag : Nat) : Bool := match classify f tag with | .borrowed => true | _ => false

/-- `dels[s]` is the delete function of type number `s` (checked by `table_consistent`) -/
def delOf (s : Nat) : Option Del := dels[s]?

def releaseFn (f : Field) : Nat :=
  match releaseOverride.find? (fun p => eqN p.1 f.id) with
  | some p => p.2
  | none => f.dtor

/-- tag 0 stands for "the struct has no tag" -/
def tagsOf (d : Del) : List Nat := if d.tags.isEmpty then [0] else d.tags

def armAt (d : Del) (tag : Nat) : List Rel :=
  match d.arms.find? (fun a => bit a.mask tag) with | some a => a.rels | none => []

def relsAt (d : Del) (tag : Nat) : List Rel := d.common ++ armAt d tag

def allRels (d : Del) : List Rel := d.common ++ d.arms.flatMap (·.rels)

def ctorHasTag (c : Ctor) (tag : Nat) : Bool := eqN tag 0 || bit c.mask tag

/-- the constructors of the struct of `d` that can produce a node tagged `tag` -/
def ctorsFor (d : Del) (tag : Nat) : List Ctor := d.ctors.filter fun c => ctorHasTag c tag

def isFill (s : Src) : Bool := match s with | .param | .fresh | .move | .other => true | _ => false
def isFresh (s : Src) : Bool := match s with | .fresh => true | _ => false
def isNull (s : Src) : Bool := match s with | .null => true | _ => false
def isMove (s : Src) : Bool := match s with | .move => true | _ => false

/-- some constructor of `ct` stores something other than NULL / a borrowed pointer into member `f` -/
def ctorFills (ct : List Ctor) (f : Nat) : Bool := ct.any fun c => c.inits.any fun i => eqN i.field f && isFill i.src
def ctorTouches (ct : List Ctor) (f : Nat) : Bool := ct.any fun c => c.inits.any fun i => eqN i.field f

/-- members into which a fresh allocation is stored outside constructors -/
def lateFreshMask : Nat := maskOf ((lates.filter fun l => isFresh l.src).map (·.field))
def retagTargets : Nat := maskOf (retags.map (·.tag))

/-- a node with this tag exists: a constructor (`ct` = `ctorsFor d tag`) or a retagging site produces it -/
def reachable (ct : List Ctor) (tag : Nat) : Bool := eqN tag 0 || !ct.isEmpty || bit retagTargets tag

/-- member `f` of a node tagged `tag` can hold a value that the node has to release: a constructor for that tag fills it,
or a fresh allocation is stored into it later (outside constructors) and the member belongs to that arm (it is not in a
union, or a constructor of that tag initialises it) -/
def holds (ct : List Ctor) (f : Field) : Bool :=
  ctorFills ct f.id || (bit lateFreshMask f.id && (!f.inUnion || ctorTouches ct f.id))

def releasedIn (rs : List Rel) (f : Field) : Bool :=
  rs.any fun r => eqN r.off f.off && !r.deep && eqN r.cond 0 && eqN r.fn (releaseFn f)

def releasedCondIn (rs : List Rel) (f : Field) : Bool :=
  rs.any fun r => eqN r.off f.off && !r.deep && !eqN r.cond 0 && eqN r.fn (releaseFn f)

/-- the obligation of one member under one tag: released, unless the classification excuses it -/
def fieldOk (rs : List Rel) (f : Field) (tag : Nat) : Bool :=
  releasedIn rs f ||
  (match classify f.id tag with
   | .owned => false
   | .ownedCond => releasedCondIn rs f
   | _ => true)

def ownedReleasedAt (d : Del) (tag : Nat) : Bool :=
  let ct := ctorsFor d tag
  !reachable ct tag ||
  (let rs := relsAt d tag
   d.fields.all fun f => !holds ct f || fieldOk rs f tag)

/-- **owned members are released**: for one delete function, every member of its struct, every tag -/
def ownedReleasedOk (d : Del) : Bool := d.isOpaque || (tagsOf d).all (ownedReleasedAt d)

def nodupNat : List Nat → Bool
  | [] => true
  | x :: xs => !xs.any (eqN x) && nodupNat xs

def noDoubleIn (rs : List Rel) : Bool :=
  nodupNat ((rs.filter (!·.deep)).map (·.off)) &&
  nodupNat ((rs.filter (·.deep)).map fun r => r.field * 1000000 + r.fn * 1000 + r.cond)

/-- **nothing is released twice on one path**: under every tag the members released directly are at pairwise different
offsets (members of a union that share an offset count as one), the releases inside a pointee are pairwise different -/
def noDoubleOk (d : Del) : Bool := (tagsOf d).all fun tag => noDoubleIn (relsAt d tag)

def relKeptOk (r : Rel) (tag : Nat) : Bool :=
  match classify r.field tag with
  | .borrowed => false
  | .elsewhere _ => r.deep
  | _ => true

/-- **no borrowed member is released**, and a member released elsewhere is not also released here -/
def borrowedKeptOk (d : Del) : Bool :=
  d.isOpaque || ((tagsOf d).all fun tag => (relsAt d tag).all fun r => relKeptOk r tag)

/-- every direct release names a member of the struct, at its offset, and uses the function that releases its pointee type -/
def rightFunctionOk (d : Del) : Bool :=
  d.isOpaque ||
  ((allRels d).all fun r =>
    match d.fields.find? (fun f => eqN f.id r.field) with
    | some f => eqN f.off r.off && (r.deep || eqN r.fn (releaseFn f))
    | none => false)

/-- every store of a constructor goes to a member of its struct in the table, at that member's offset -/
def ctorsKnownOk (d : Del) : Bool :=
  d.ctors.all fun c => eqN c.struct d.struct && c.inits.all fun i =>
    match d.fields.find? (fun f => eqN f.id i.field) with
    | some f => eqN f.off i.off
    | none => false

/-- a fresh allocation is only ever stored into a member that somebody releases (not a borrowed one) -/
def ctorsFreshOk (d : Del) : Bool :=
  d.ctors.all fun c => c.inits.all fun i => !isFresh i.src ||
    (if c.tags.isEmpty then [0] else c.tags).all fun tag => !isBorrowed i.field tag

def lateFreshOk (l : Late) : Bool := !isFresh l.src || !bit borrowedMask l.field

/-- `elsewhere g`: `g` is a delete function of the table and it has a release that reaches this member's struct through a
list chain or inside an array element -/
def elsewhereOk (r : Rule) : Bool :=
  match r.cls with
  | .elsewhere g =>
    (match fields.find? (fun f => eqN f.id r.field) with
     | some f => dels.any fun d => eqN d.fn g && (allRels d).any fun x => (x.chain || x.deep) &&
         (match d.fields.find? (fun h => eqN h.id x.field) with | some h => eqN h.pointee f.struct | none => false)
     | none => false)
  | _ => Nat.blt r.field nFields

/-- **a retagged node keeps the books**: for every tag `t` the node can have before and every owned member `f` it can hold
under `t`: the retagging block releases it (with the right function), or moves it to a member that the new tag's arm
releases, or leaves it in place (no store over it) where the new tag's arm releases it, or the node is copied out whole.
And everything the block stores into an owned member is released under the new tag. -/
def retagOk (r : Retag) : Bool :=
  r.fresh || r.copied ||
  (match delOf r.struct with
   | none => false
   | some d =>
     let rs := relsAt d r.tag
     (!r.frm.isEmpty) &&
     (r.frm.all fun t => let ct := ctorsFor d t; d.fields.all fun f =>
        !holds ct f || !isOwned f.id t ||
        r.released.any (fun (o, g) => eqN o f.off && eqN g (releaseFn f)) ||
        r.stored.any (fun (_, o, s, from_) => isMove s && eqN from_ f.off &&
            rs.any fun x => eqN x.off o && !x.deep && eqN x.fn (releaseFn f)) ||
        (!(r.stored.any fun (_, o, _, _) => eqN o f.off) && releasedIn rs f)) &&
     (r.stored.all fun (g, o, s, _) => !isFill s || !isOwned g r.tag ||
        rs.any fun x => eqN x.off o && !x.deep && eqN x.cond 0))

def retagReviewed (r : Retag) : Bool := reviewedRetags.any (eqN r.fn)

/-- an unguarded `T_delete(v->f)` (which dereferences `f`) is only made where no constructor of that tag stores NULL -/
def unguardedOk (d : Del) : Bool :=
  d.isOpaque ||
  ((tagsOf d).all fun tag =>
     let rs := (relsAt d tag).filter fun r => !(r.guarded || r.deep || eqN r.fn Fn.free)
     rs.isEmpty ||
     (let ct := ctorsFor d tag
      rs.all fun r => !(ct.any fun c => c.zeroed || c.inits.any fun i => eqN i.off r.off && isNull i.src)))

/-- the table is laid out as the evaluation assumes: `dels[s]` is the row of type `s`, the members of a row belong to its
struct, member ids are positions, the `dtor` column is the delete function of the pointee type, masks match label lists -/
def delRowOk (d : Del) (s : Nat) : Bool :=
  eqN d.struct s && d.freesSelf &&
  d.fields.all (fun f => eqN f.struct s &&
    eqN f.dtor (match delOf f.pointee with | some p => p.fn | none => Fn.free)) &&
  d.arms.all (fun a => eqN a.mask (maskOf a.labels)) &&
  d.ctors.all (fun c => eqN c.mask (maskOf c.tags))

def idsFrom : List Field → Nat → Bool
  | [], _ => true
  | f :: fs, n => eqN f.id n && idsFrom fs (n + 1)

def rowsFrom : List Del → Nat → Bool
  | [], _ => true
  | d :: ds, n => delRowOk d n && rowsFrom ds (n + 1)

end Never.Own
