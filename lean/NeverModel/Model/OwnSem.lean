import NeverModel.Model.Own
/-!
# C16 — what the table theorems MEAN: deleting a tree frees exactly the blocks it owns, each once

An abstract heap of nodes (`Node`: type, tag, pointer slots by byte offset) and a walk that follows a table of EDGES
`(type, tag) ↦ [(slot offset, type of the child, link)]`:

* with the edges read off the **delete functions** (`tableRels`: the direct, unconditional releases of `Gen/OwnTab.lean`;
  `link ≠ 0` = the list loop `node = v->tail; while (node) { tmp = node->next; F(node); node = tmp; }`) the walk is what
  `S_delete(v)` does: release the children, then `free(v)`; its result is the list of blocks freed, in order;
* with the edges read off the **discipline** (`tableOwned`: the members classified `owned` that can hold a value under the
  tag; a list head owns the chain through the members classified `elsewhere <list delete>`) the walk enumerates the blocks
  the node owns, transitively.

`Lemmas/OwnSem.lean` proves (for any two edge tables) that when at every node the edges with a non-NULL slot agree up to
order, the two walks agree up to order — for every heap, every fuel; `Props/C16.lean` instantiates it with the regenerated
table (`table_edges_match`, decided by the kernel).

Outside this model: elements of arrays (`isArray` rows, deep releases `mem[].object_value`), members owned under a run-time
condition (`ownedCond`), blocks that are not nodes of a struct with a delete function (strings: leaves; a `char *` member is
an edge to a block without members, see `leafOk`).
-/
namespace Never.OwnSem
open Never.Gen.OwnTab Never.Own

/-- (slot offset, type number of the child, 0 | 1 + offset of the link member of the child when the edge is a list chain) -/
structure Edge where
  off : Nat
  ty : Nat
  link : Nat
  deriving DecidableEq, Repr

structure Node where
  ty : Nat
  tag : Nat
  slot : Nat → Option Nat

abbrev Heap := Nat → Option Node
abbrev Edges := Nat → Nat → List Edge

/-- the children of node `n` along `es`, given the walk `w` (child of type τ at address a) and the chain walk `wc` -/
def kids (w : Nat → Nat → Option (List Nat)) (wc : Nat → Nat → Nat → Option (List Nat)) (n : Node) :
    List Edge → Option (List Nat)
  | [] => some []
  | e :: es =>
    match n.slot e.off with
    | none => kids w wc n es                       -- NULL: `if (v->f != NULL)` / `free(NULL)`
    | some c =>
      match (if e.link = 0 then w e.ty c else wc e.ty (e.link - 1) c), kids w wc n es with
      | some x, some y => some (x ++ y)
      | _, _ => none

/-- the walk with `fuel` levels of recursion: `.1 τ a` = blocks visited from the node of type `τ` at address `a`, children
first, the node last; `.2 τ nx c` = the same for every node of the chain that starts at `c` and is linked through the slot
at offset `nx`.  `none`: out of fuel, a dangling address, or a node of another type than the edge says. -/
def walkP (E : Edges) (h : Heap) : Nat → (Nat → Nat → Option (List Nat)) × (Nat → Nat → Nat → Option (List Nat))
  | 0 => (fun _ _ => none, fun _ _ _ => none)
  | f + 1 =>
    let w := (walkP E h f).1
    let wc := (walkP E h f).2
    (fun τ a =>
      match h a with
      | none => none
      | some n => if n.ty = τ then (kids w wc n (E n.ty n.tag)).map (· ++ [a]) else none,
     fun τ nx c =>
      match h c with
      | none => none
      | some n =>
        match w τ c, (match n.slot nx with | none => some [] | some c' => wc τ nx c') with
        | some x, some y => some (x ++ y)
        | _, _ => none)

def walk (E : Edges) (h : Heap) (fuel τ a : Nat) : Option (List Nat) := (walkP E h fuel).1 τ a

/-- both stuck, or both done with the same blocks up to order -/
def Agree (o₁ o₂ : Option (List Nat)) : Prop :=
  match o₁, o₂ with
  | none, none => True
  | some x, some y => x.Perm y
  | _, _ => False

/-! ## the two edge tables of the regenerated table -/

/-- a member of the struct of `d` at offset `o` can hold a value under `tag` -/
def heldOff (d : Del) (tag o : Nat) : Bool :=
  let ct := ctorsFor d tag
  d.fields.any fun f => eqN f.off o && holds ct f

def pointeeOf (d : Del) (field : Nat) : Nat :=
  match d.fields.find? (fun f => eqN f.id field) with | some f => f.pointee | none => 0

/-- edges of `S_delete`: the direct unconditional releases under `tag` -/
def relEdges (d : Del) (tag : Nat) : List Edge :=
  ((relsAt d tag).filter fun r => !r.deep && eqN r.cond 0).map fun r => ⟨r.off, pointeeOf d r.field, r.link⟩

/-- the link member of list nodes of type `node` whose chain the delete function `g` releases: the member classified
`elsewhere g` that points to a node of the same type (1 + offset; 0 when there is none) -/
def linkOf (node g : Nat) : Nat :=
  match delOf node with
  | none => 0
  | some nd =>
    match nd.fields.find? (fun f => eqN f.pointee node && match classify f.id 0 with | .elsewhere g' => eqN g' g | _ => false) with
    | some f => f.off + 1
    | none => 0

/-- edges of the discipline: members that can hold a value under `tag` and are classified owned -/
def ownedEdges (d : Del) (tag : Nat) : List Edge :=
  let ct := ctorsFor d tag
  (d.fields.filter fun f => holds ct f && isOwned f.id tag).map fun f => ⟨f.off, f.pointee, linkOf f.pointee d.fn⟩

def inScope (d : Del) (tag : Nat) : Bool :=
  !d.isOpaque && !d.isArray && (tagsOf d).any (eqN tag) && reachable (ctorsFor d tag) tag

def tableRels : Edges := fun s tag =>
  match delOf s with
  | some d => if inScope d tag then relEdges d tag else []
  | none => []

def tableOwned : Edges := fun s tag =>
  match delOf s with
  | some d => if inScope d tag then ownedEdges d tag else []
  | none => []

/-- heaps built by the constructors and late stores the table knows: a non-NULL slot of a node lies at an offset where a
member of its struct can hold a value under its tag -/
def WF (h : Heap) : Prop :=
  ∀ a n, h a = some n → ∀ d, delOf n.ty = some d → inScope d n.tag = true →
    ∀ o c, n.slot o = some c → heldOff d n.tag o = true

/-- Boolean form of `table_edges_match`: what `S_delete` releases at held offsets is, up to order, what the node owns -/
def edgesMatchOk (d : Del) : Bool :=
  (tagsOf d).all fun tag => !inScope d tag ||
    List.isPerm ((relEdges d tag).filter fun e => heldOff d tag e.off) (ownedEdges d tag)

end Never.OwnSem
