/-!
# M-FFI — executable model of the foreign-call marshalling of never-lang

Mirrors, function by function,

* `front/emit.c`  `func_body_emit_ffi_param`, `func_body_emit_ffi_param_list`, `func_body_emit_ffi`
  (the signature descriptor written after `BYTECODE_FUNC_FFI`, with `count` / `total_count`),
* `back/vmffi.c`  `vm_execute_func_ffi_align`, `vm_execute_func_ffi_record_type`,
  `vm_execute_func_ffi_record_value`, `vm_execute_func_ffi_record_new` and the phase logic of
  `vm_execute_func_ffi` (types → prepare → values → library → symbol → call → result),

and states the reference they are compared with: the C struct layout rule of the System V x86-64
ABI (`cAlign`, `cSize`, `cLeaves` = `_Alignof`, `sizeof`, `offsetof` of the corresponding struct
declaration).

What is *inside* the model: the offset arithmetic exactly as the C text performs it (32-bit
`unsigned int` running offset, the bit-mask align-up with its `alignment == 1` shortcut, the
re-basing of a nested record at `rec_offset` and the jump to `rec_offset + size` afterwards, the
extra align/advance that only `record_new` does), the byte-level stores and loads into the
`malloc`ed struct buffer (little endian), the descriptor stream consumed with `ip++` /
`ip += total_count - 1`, and the `prep_vals` flag as the C code computes it (`|=` since the repair
7f404f9; the pinned `=` variant is kept as `prepValuesPinned`/`ffiExecPinned` for the record).

What is *outside*: libffi. `type->elements[i]->size/alignment` of a struct type are filled in by
libffi's `ffi_prep_cif`; the model takes them to be `cSize`/`cAlign` (libffi's documented job; the
harness `h_ffi` prints the values libffi really computed and the check compares them).
Register-vs-memory classification of arguments happens inside libffi and is observed only by the
end-to-end harness.  Core Lean only (linked into `nmdrv`).
-/
namespace Never.Ffi

/-- the scalar FFI alphabet (`BYTECODE_FUNC_FFI_BOOL … _C_PTR`) -/
inductive Prim
  | bool | int | long | float | double | char | string | cptr
  deriving DecidableEq, Repr, Inhabited

mutual
/-- FFI types: scalars and (nested) records / tuples -/
inductive FTy
  | prim (p : Prim)
  | record (fs : FTys)
/-- field lists / parameter lists -/
inductive FTys
  | nil
  | cons (t : FTy) (ts : FTys)
end

deriving instance Repr for FTy
deriving instance Repr for FTys
deriving instance DecidableEq for FTy
deriving instance DecidableEq for FTys
instance : Inhabited FTy := ⟨.prim .int⟩
instance : Inhabited FTys := ⟨.nil⟩

def FTys.length : FTys → Nat
  | .nil => 0
  | .cons _ ts => ts.length + 1

def FTys.toList : FTys → List FTy
  | .nil => []
  | .cons t ts => t :: ts.toList

def FTys.ofList : List FTy → FTys
  | [] => .nil
  | t :: ts => .cons t (FTys.ofList ts)

/-! ## sizes of the libffi scalar types used by vmffi.c
`ffi_type_schar` (bool, char), `ffi_type_sint`, `ffi_type_slong`, `ffi_type_float`,
`ffi_type_double`, `ffi_type_pointer` on x86-64 -/
def primSize : Prim → Nat
  | .bool => 1 | .int => 4 | .long => 8 | .float => 4 | .double => 8
  | .char => 1 | .string => 8 | .cptr => 8

/-- all scalar alignments equal their sizes on System V x86-64 -/
def primAlign : Prim → Nat := primSize

/-! ## Reference: the C ABI struct layout rule -/

/-- round `v` up to the next multiple of `a` -/
def roundUp (v a : Nat) : Nat := (v + (a - 1)) / a * a

mutual
/-- `_Alignof` -/
def cAlign : FTy → Nat
  | .prim p => primAlign p
  | .record fs => cAlignF fs
/-- maximum alignment of the members (1 for no members) -/
def cAlignF : FTys → Nat
  | .nil => 1
  | .cons t ts => max (cAlign t) (cAlignF ts)
end

mutual
/-- `sizeof` -/
def cSize : FTy → Nat
  | .prim p => primSize p
  | .record fs => roundUp (cEnd fs 0) (cAlignF fs)
/-- end of the last member when the members `fs` are laid out starting at relative offset `rel` -/
def cEnd : FTys → Nat → Nat
  | .nil, rel => rel
  | .cons t ts, rel => cEnd ts (roundUp rel (cAlign t) + cSize t)
end

mutual
/-- `offsetof` of every scalar leaf (in declaration order) of an object of type `t` placed at
absolute offset `base` -/
def cLeaves : FTy → Nat → List (Prim × Nat)
  | .prim p, base => [(p, base)]
  | .record fs, base => cLeavesF fs base 0
/-- members `fs` of a struct that starts at `base`, the previous member having ended at relative
offset `rel`: member offset = `base + roundUp rel (alignof member)` -/
def cLeavesF : FTys → Nat → Nat → List (Prim × Nat)
  | .nil, _, _ => []
  | .cons t ts, base, rel =>
    cLeaves t (base + roundUp rel (cAlign t)) ++ cLeavesF ts base (roundUp rel (cAlign t) + cSize t)
end

/-- what `type->elements[i]->size` holds after `ffi_prep_cif` (libffi; see header) -/
abbrev elSize (t : FTy) : Nat := cSize t
/-- what `type->elements[i]->alignment` holds after `ffi_prep_cif` -/
abbrev elAlign (t : FTy) : Nat := cAlign t

/-! ## The descriptor stream (emit.c) -/

/-- one bytecode of the signature descriptor -/
inductive Desc
  | prim (p : Prim)
  | void
  | record (count total : Nat)
  | other                      -- any other opcode: the `default: assert(0)` arm
  deriving DecidableEq, Repr, Inhabited

mutual
/-- `func_body_emit_ffi_param`: returns the emitted codes; `total_count` is `codes.length`
computed the way the C code does it (1 + what the member list returned) -/
def emitParam : FTy → List Desc × Nat
  | .prim p => ([.prim p], 1)
  | .record fs =>
    let (cs, n) := emitList fs
    (.record fs.length (1 + n) :: cs, 1 + n)
/-- `func_body_emit_ffi_param_list` -/
def emitList : FTys → List Desc × Nat
  | .nil => ([], 0)
  | .cons t ts =>
    let (c1, n1) := emitParam t
    let (c2, n2) := emitList ts
    (c1 ++ c2, n1 + n2)
end

/-- return type of an extern declaration -/
inductive RetTy
  | void
  | ty (t : FTy)
  deriving Repr, DecidableEq, Inhabited

def emitRet : RetTy → List Desc
  | .void => [.void]
  | .ty t => (emitParam t).1

/-- `func_body_emit_ffi` after the `FUNC_FFI count` opcode itself: parameters, return, `RET` -/
def emitSig (ps : FTys) (r : RetTy) : List Desc :=
  (emitList ps).1 ++ emitRet r ++ [.other]

/-! ## vmffi.c — arithmetic -/

/-- `vm_execute_func_ffi_align` on `unsigned int` -/
def align32 (value alignment : BitVec 32) : BitVec 32 :=
  if alignment = 1#32 then value
  else (value + (alignment - 1#32)) &&& ~~~(alignment - 1#32)

/-- `*offset += size` / `rec_offset + size` truncated to `unsigned int` -/
def add32 (off : BitVec 32) (size : Nat) : BitVec 32 := off + BitVec.ofNat 32 size

/-! ## vmffi.c — `vm_execute_func_ffi_record_type` -/

/-- reads `count` descriptors (recursively for records) and builds the `ffi_type` tree.
`fuel` bounds the C recursion (any value ≥ `code.length` is enough); `none` = the `assert(0)`
arms or reading past the code array. -/
def recordType : Nat → Nat → List Desc → Option (FTys × List Desc)
  | _, 0, code => some (.nil, code)
  | 0, _ + 1, _ => none
  | _ + 1, _ + 1, [] => none
  | f + 1, n + 1, d :: code =>
    match d with
    | .prim p =>
      match recordType f n code with
      | some (ts, c) => some (.cons (.prim p) ts, c)
      | none => none
    | .record cnt _ =>
      match recordType f cnt code with
      | some (fs, c1) =>
        match recordType f n c1 with
        | some (ts, c2) => some (.cons (.record fs) ts, c2)
        | none => none
      | none => none
    | .void => none
    | .other => none

/-! ## Values (what the collector holds) and the struct buffer -/

mutual
/-- a Never value of FFI type, payloads as bit patterns (unsigned numbers).
`bool` is an `OBJECT_INT` (32 bits); `string none` is a nil string reference, `string (some p)`
a string whose character buffer is at address `p`; `nilrec` is a nil record reference -/
inductive FVal
  | bool (v : Nat) | int (v : Nat) | long (v : Nat) | float (v : Nat) | double (v : Nat)
  | char (v : Nat) | string (p : Option Nat) | cptr (p : Nat)
  | record (vs : FVals)
  | nilrec
inductive FVals
  | nil
  | cons (v : FVal) (vs : FVals)
end

deriving instance Repr for FVal
deriving instance Repr for FVals
deriving instance DecidableEq for FVal
deriving instance DecidableEq for FVals
instance : Inhabited FVal := ⟨.int 0⟩
instance : Inhabited FVals := ⟨.nil⟩

def FVals.toList : FVals → List FVal
  | .nil => []
  | .cons v vs => v :: vs.toList

def FVals.ofList : List FVal → FVals
  | [] => .nil
  | v :: vs => .cons v (FVals.ofList vs)

/-- the `malloc(size)`ed, zeroed C struct buffer: `size` bytes -/
structure Buf where
  size : Nat
  get : Nat → UInt8

def Buf.zero (n : Nat) : Buf := ⟨n, fun _ => 0⟩
instance : Inhabited Buf := ⟨Buf.zero 0⟩

/-- byte `k` of the little-endian representation of `v` -/
def byteOf (v k : Nat) : UInt8 := UInt8.ofNat (v / 256 ^ k % 256)

/-- store the `n` low bytes of `v` at `off` (little endian); `none` = outside the allocation -/
def Buf.write (b : Buf) (off n v : Nat) : Option Buf :=
  if off + n ≤ b.size then
    some ⟨b.size, fun i => if off ≤ i ∧ i < off + n then byteOf v (i - off) else b.get i⟩
  else none

/-- little-endian number made of the `n` bytes `g off … g (off+n-1)` -/
def readLE (g : Nat → UInt8) : Nat → Nat → Nat
  | _, 0 => 0
  | off, n + 1 => (g off).toNat + 256 * readLE g (off + 1) n

/-- load `n` bytes at `off`; `none` = outside the allocation -/
def Buf.read (b : Buf) (off n : Nat) : Option Nat :=
  if off + n ≤ b.size then some (readLE b.get off n) else none

def Buf.bytes (b : Buf) : List UInt8 := (List.range b.size).map b.get

/-- `char` → `int` conversion (sign extension) done by `gc_alloc_int(collector, bool_value)` in
`record_new` -/
def sextByte (b : Nat) : Nat := if b < 128 then b else b + 4294967040

/-! ## vmffi.c — `vm_execute_func_ffi_record_value` -/

/-- result of the packing walk: `ret` flag (a nil string / nil record was met), the rest of the
descriptor stream (`machine->ip`), the buffer, the running `*offset`, and (ghost) the list of
stores performed as `(kind, offset)` -/
structure VRes where
  ret : Bool
  code : List Desc
  buf : Buf
  off : BitVec 32
  trace : List (Prim × Nat)

/-- the store of one scalar field: kind and width come from the *descriptor*; `none` when the
collector object has another tag (the `assert` in `gc_get_*_ptr`) or the store leaves the buffer.
Returns the new buffer and whether a nil string was met. -/
def storePrim (p : Prim) (v : FVal) (buf : Buf) (o : Nat) : Option (Buf × Bool) :=
  match p, v with
  | .bool, .bool x => (buf.write o 1 x).map (·, false)      -- `*(char *)dst = *bool_value`
  | .int, .int x => (buf.write o 4 x).map (·, false)
  | .int, .bool x => (buf.write o 4 x).map (·, false)       -- both are OBJECT_INT
  | .bool, .int x => (buf.write o 1 x).map (·, false)
  | .long, .long x => (buf.write o 8 x).map (·, false)
  | .float, .float x => (buf.write o 4 x).map (·, false)
  | .double, .double x => (buf.write o 8 x).map (·, false)
  | .char, .char x => (buf.write o 1 x).map (·, false)
  | .string, .string q =>
    match q with
    | some q => (buf.write o 8 q).map (·, false)
    | none => some (buf, true)                              -- `ret = 1`, nothing stored
  | .cptr, .cptr q => (buf.write o 8 q).map (·, false)
  | _, _ => none

mutual
/-- one iteration of the `for` loop of `vm_execute_func_ffi_record_value`: the descriptor `d` has
been read (`ip++`), `t` is `type->elements[i]`, `v` the `i`-th slot of the record -/
def valueField : FTy → Desc → FVal → List Desc → Buf → BitVec 32 → Option VRes
  | t, .prim p, v, code, buf, off =>
    let o := align32 off (BitVec.ofNat 32 (elAlign t))
    match storePrim p v buf o.toNat with
    | some (buf', isNil) => some ⟨isNil, code, buf', add32 o (elSize t), if isNil then [] else [(p, o.toNat)]⟩
    | none => none
  | t, .record cnt total, v, code, buf, off =>
    let ro := align32 off (BitVec.ofNat 32 (elAlign t))
    match v with
    | .record inner =>
      match t with
      | .record fs =>
        match valueLoop fs cnt inner code buf ro with
        | some r => some { r with off := add32 ro (elSize t) }
        | none => none
      | .prim _ => none            -- `type->elements[i]->elements` of a scalar ffi_type: NULL
    | .nilrec =>
      if total = 0 then none       -- `ip += 0u - 1`
      else some ⟨true, code.drop (total - 1), buf, add32 ro (elSize t), []⟩
    | _ => none                    -- `gc_get_vec_ref` tag assertion
  | _, .void, _, _, _, _ => none
  | _, .other, _, _, _, _ => none
/-- the `for (i = 0; i < count; i++)` loop: `elems` = `type->elements`, `vals` = the record's
slots; running out of either or of code is a crash (`none`) -/
def valueLoop : FTys → Nat → FVals → List Desc → Buf → BitVec 32 → Option VRes
  | _, 0, _, code, buf, off => some ⟨false, code, buf, off, []⟩
  | .cons t ts, n + 1, .cons v vs, d :: code, buf, off =>
    match valueField t d v code buf off with
    | some r1 =>
      match valueLoop ts n vs r1.code r1.buf r1.off with
      | some r2 => some ⟨r1.ret || r2.ret, r2.code, r2.buf, r2.off, r1.trace ++ r2.trace⟩
      | none => none
    | none => none
  | _, _ + 1, _, _, _, _ => none
end

/-! ## vmffi.c — `vm_execute_func_ffi_record_new` -/

structure NRes where
  val : FVal
  code : List Desc
  off : BitVec 32
  trace : List (Prim × Nat)

/-- the load of one scalar field at `o` -/
def loadPrim (p : Prim) (buf : Buf) (o : Nat) : Option FVal :=
  match p with
  | .bool => (buf.read o 1).map fun b => .bool (sextByte b)
  | .int => (buf.read o 4).map .int
  | .long => (buf.read o 8).map .long
  | .float => (buf.read o 4).map .float
  | .double => (buf.read o 8).map .double
  | .char => (buf.read o 1).map .char
  | .string => (buf.read o 8).map fun q => .string (some q)   -- `gc_alloc_string` copies from `q`
  | .cptr => (buf.read o 8).map .cptr

structure NLoopRes where
  vals : FVals
  code : List Desc
  off : BitVec 32
  trace : List (Prim × Nat)

mutual
/-- one iteration of the `for` loop of `vm_execute_func_ffi_record_new`: the descriptor `d` has
been read, `t` is `type->elements[i]`.  The record arm contains the recursive call
`vm_execute_func_ffi_record_new(machine, bc.count, type->elements[i], data, offset)` inlined: its
own align of `*offset` with `type->alignment`, its loop, its final
`*offset = rec_offset + type->size` (then overwritten by the caller's
`*offset = record_offset + type->elements[i]->size`) -/
def newField : FTy → Desc → List Desc → Buf → BitVec 32 → Option NRes
  | t, .prim p, code, buf, off =>
    let o := align32 off (BitVec.ofNat 32 (elAlign t))
    match loadPrim p buf o.toNat with
    | some v => some ⟨v, code, add32 o (elSize t), [(p, o.toNat)]⟩
    | none => none
  | t, .record cnt _, code, buf, off =>
    let ro := align32 off (BitVec.ofNat 32 (elAlign t))
    match t with
    | .record fs =>
      let ro2 := align32 ro (BitVec.ofNat 32 (cAlignF fs))      -- callee: type->alignment
      match newLoop fs cnt code buf ro2 with
      | some r => some ⟨.record r.vals, r.code, add32 ro (elSize t), r.trace⟩
      | none => none
    | .prim _ => none
  | _, .void, _, _, _ => none
  | _, .other, _, _, _ => none
/-- the `for` loop of `vm_execute_func_ffi_record_new` -/
def newLoop : FTys → Nat → List Desc → Buf → BitVec 32 → Option NLoopRes
  | _, 0, code, _, off => some ⟨.nil, code, off, []⟩
  | .cons t ts, n + 1, d :: code, buf, off =>
    match newField t d code buf off with
    | some r1 =>
      match newLoop ts n r1.code buf r1.off with
      | some r => some ⟨.cons r1.val r.vals, r.code, r.off, r1.trace ++ r.trace⟩
      | none => none
    | none => none
  | _, _ + 1, _, _, _ => none
end

/-- `vm_execute_func_ffi_record_new(machine, count, type, data, offset)` with `type = .record fs`
(the top-level call made for a returned struct) -/
def recordNew (fs : FTys) (cnt : Nat) (code : List Desc) (buf : Buf) (off : BitVec 32) : Option NRes :=
  let ro := align32 off (BitVec.ofNat 32 (cAlignF fs))          -- type->alignment
  match newLoop fs cnt code buf ro with
  | some r => some ⟨.record r.vals, r.code, add32 ro (cSize (.record fs)), r.trace⟩
  | none => none

/-! ## vmffi.c — `vm_execute_func_ffi`: phases -/

/-- what `fd->param_values[i]` points to when `ffi_call` is reached -/
inductive Arg
  | scalar (p : Prim) (bits : Nat)        -- pointer into the collector object
  | struct (buf : Buf)                    -- the packed buffer (`malloc(size)`, zeroed, then filled)
  | unset                                 -- still NULL (from `ffi_decl_new`'s memset)
  deriving Inhabited

/-- the stage at which `EXCEPT_FFI_FAIL` is raised -/
inductive Stage
  | prepare | values | library | symbol
  deriving Repr, DecidableEq, Inhabited

inductive Outcome
  | crash                                  -- assert(0), tag assertion, out-of-bounds: not an exception
  | ffiFail (s : Stage)
  | call (args : List Arg) (ret : RetTy) (rest : List Desc)
  deriving Inhabited

/-- phase 1: parameter types (`count` descriptors) then the return descriptor -/
def parseSig (count : Nat) (code : List Desc) : Option (FTys × RetTy × List Desc) :=
  match recordType code.length count code with
  | some (ps, c) =>
    match c with
    | .prim p :: c' => some (ps, .ty (.prim p), c')
    | .void :: c' => some (ps, .void, c')
    | .record cnt _ :: c' =>
      match recordType c'.length cnt c' with
      | some (fs, c'') => some (ps, .ty (.record fs), c'')
      | none => none
    | _ => none
  | none => none

mutual
/-- libffi's `initialize_aggregate` answers FFI_BAD_TYPEDEF for a struct of size 0 -/
def prepOk : FTy → Bool
  | .prim _ => true
  | .record fs => cSize (.record fs) != 0 && prepOkF fs
def prepOkF : FTys → Bool
  | .nil => true
  | .cons t ts => prepOk t && prepOkF ts
end

/-- top-level scalar argument: `ffi_call` reads `primSize` bytes at the object's payload
(for `bool` the first byte of the `int`) -/
def scalarArg (p : Prim) (v : FVal) : Option (Arg × Bool) :=
  match p, v with
  | .bool, .bool x => some (.scalar .bool (x % 256), false)
  | .bool, .int x => some (.scalar .bool (x % 256), false)
  | .int, .int x => some (.scalar .int x, false)
  | .int, .bool x => some (.scalar .int x, false)
  | .long, .long x => some (.scalar .long x, false)
  | .float, .float x => some (.scalar .float x, false)
  | .double, .double x => some (.scalar .double x, false)
  | .char, .char x => some (.scalar .char x, false)
  | .string, .string q =>
    match q with
    | some q => some (.scalar .string q, false)
    | none => some (.unset, true)
  | .cptr, .cptr q => some (.scalar .cptr q, false)
  | _, _ => none

structure PRes where
  prep : Bool                 -- `prep_vals`
  args : List Arg
  code : List Desc

/-- phase 3, the "prepare values" loop: `ptys` = `fd->param_types`, `stack` = the operands popped
with `sp--` (first parameter on top), `prep` = current `prep_vals`.
The record arm ORs the walk's result into the flag (vmffi.c since 7f404f9:
`prep_vals |= vm_execute_func_ffi_record_value(…)`), so the flag never goes down. -/
def prepValues : FTys → Nat → FVals → List Desc → Bool → Option PRes
  | _, 0, _, code, prep => some ⟨prep, [], code⟩
  | .cons t ts, n + 1, .cons v stack, d :: code, prep =>
    match d with
    | .prim p =>
      match scalarArg p v with
      | some (a, isNil) =>
        match prepValues ts n stack code (if isNil then true else prep) with
        | some r => some { r with args := a :: r.args }
        | none => none
      | none => none
    | .record cnt total =>
      match v with
      | .record inner =>
        match t with
        | .record fs =>
          match valueLoop fs cnt inner code (Buf.zero (cSize t)) 0#32 with
          | some r1 =>
            match prepValues ts n stack r1.code (prep || r1.ret) with   -- `prep_vals |= …`
            | some r => some { r with args := .struct r1.buf :: r.args }
            | none => none
          | none => none
        | .prim _ => none
      | .nilrec =>
        if total = 0 then none
        else
          match prepValues ts n stack (code.drop (total - 1)) true with
          | some r => some { r with args := .struct (Buf.zero (cSize t)) :: r.args }
          | none => none
      | _ => none
    | .void => none
    | .other => none
  | _, _ + 1, _, _, _ => none

/-- HISTORICAL: the "prepare values" loop as it was at the pinned commit 032f4cb (before 7f404f9): `ptys` = `fd->param_types`, `stack` = the operands popped
with `sp--` (first parameter on top), `prep` = current `prep_vals`.
NOTE the record arm ASSIGNS `prep_vals` (vmffi.c: `prep_vals = vm_execute_func_ffi_record_value(…)`),
forgetting an earlier nil; the model does the same. -/
def prepValuesPinned : FTys → Nat → FVals → List Desc → Bool → Option PRes
  | _, 0, _, code, prep => some ⟨prep, [], code⟩
  | .cons t ts, n + 1, .cons v stack, d :: code, prep =>
    match d with
    | .prim p =>
      match scalarArg p v with
      | some (a, isNil) =>
        match prepValuesPinned ts n stack code (if isNil then true else prep) with
        | some r => some { r with args := a :: r.args }
        | none => none
      | none => none
    | .record cnt total =>
      match v with
      | .record inner =>
        match t with
        | .record fs =>
          match valueLoop fs cnt inner code (Buf.zero (cSize t)) 0#32 with
          | some r1 =>
            match prepValuesPinned ts n stack r1.code r1.ret with          -- `prep_vals = …` (assignment)
            | some r => some { r with args := .struct r1.buf :: r.args }
            | none => none
          | none => none
        | .prim _ => none
      | .nilrec =>
        if total = 0 then none
        else
          match prepValuesPinned ts n stack (code.drop (total - 1)) true with
          | some r => some { r with args := .struct (Buf.zero (cSize t)) :: r.args }
          | none => none
      | _ => none
    | .void => none
    | .other => none
  | _, _ + 1, _, _, _ => none

def retOk : RetTy → Bool
  | .void => true
  | .ty t => prepOk t

/-- `vm_execute_func_ffi` up to and including the decision to call: `count` = `code->ffi.count`,
`code` = the stream after the `FUNC_FFI` opcode, `stack` = operands (top first), `libOk` =
`dlcache_get_handle` ≠ NULL, `symOk` = `dlsym` ≠ NULL -/
def ffiExec (count : Nat) (code : List Desc) (stack : FVals) (libOk symOk : Bool) : Outcome :=
  match parseSig count code with
  | none => .crash
  | some (ps, r, _) =>
    if !(prepOkF ps && retOk r) then .ffiFail .prepare
    else
      match prepValues ps count stack code false with       -- `machine->ip = ip`
      | none => .crash
      | some pr =>
        if pr.prep then .ffiFail .values
        else if !libOk then .ffiFail .library
        else if !symOk then .ffiFail .symbol
        else .call pr.args r pr.code

/-- HISTORICAL (pinned commit): `vm_execute_func_ffi` up to and including the decision to call: `count` = `code->ffi.count`,
`code` = the stream after the `FUNC_FFI` opcode, `stack` = operands (top first), `libOk` =
`dlcache_get_handle` ≠ NULL, `symOk` = `dlsym` ≠ NULL -/
def ffiExecPinned (count : Nat) (code : List Desc) (stack : FVals) (libOk symOk : Bool) : Outcome :=
  match parseSig count code with
  | none => .crash
  | some (ps, r, _) =>
    if !(prepOkF ps && retOk r) then .ffiFail .prepare
    else
      match prepValuesPinned ps count stack code false with       -- `machine->ip = ip`
      | none => .crash
      | some pr =>
        if pr.prep then .ffiFail .values
        else if !libOk then .ffiFail .library
        else if !symOk then .ffiFail .symbol
        else .call pr.args r pr.code

/-- phase 7, "get result": `raw` = the 8 bytes of the return union (scalars) or the returned
struct buffer -/
def ffiResult (code : List Desc) (raw : Buf) : Option (FVal × List Desc) :=
  match code with
  | .prim .bool :: c => (raw.read 0 1).map fun b => (.bool (sextByte b), c)   -- `fd->ret_char_value`
  | .prim p :: c => (loadPrim p raw 0).map (·, c)
  | .void :: c => some (.int 0, c)
  | .record cnt _ :: c =>
    match parseSig 0 code with           -- `fd->ret_type` was built in phase 1 from the same stream
    | some (_, .ty (.record fs), _) =>
      match recordNew fs cnt c raw 0#32 with
      | some r => some (r.val, r.code)
      | none => none
    | _ => none
  | _ => none

/-! ## Well-typed values -/

mutual
/-- `v` is a value of type `t` as the typechecker guarantees it: payloads fit their width, a
`bool` is 0 or 1; nil strings / nil records allowed -/
def HasTy : FVal → FTy → Bool
  | .bool x, .prim .bool => x < 2
  | .int x, .prim .int => x < 2 ^ 32
  | .long x, .prim .long => x < 2 ^ 64
  | .float x, .prim .float => x < 2 ^ 32
  | .double x, .prim .double => x < 2 ^ 64
  | .char x, .prim .char => x < 2 ^ 8
  | .string q, .prim .string => (match q with | none => true | some q => decide (q < 2 ^ 64))
  | .cptr q, .prim .cptr => q < 2 ^ 64
  | .nilrec, .record _ => true
  | .record vs, .record fs => HasTys vs fs
  | _, _ => false
def HasTys : FVals → FTys → Bool
  | .nil, .nil => true
  | .cons v vs, .cons t ts => HasTy v t && HasTys vs ts
  | _, _ => false
end

mutual
/-- no nil string and no nil record anywhere inside -/
def NilFree : FVal → Bool
  | .string q => q.isSome
  | .nilrec => false
  | .record vs => NilFreeL vs
  | _ => true
def NilFreeL : FVals → Bool
  | .nil => true
  | .cons v vs => NilFree v && NilFreeL vs
end

mutual
/-- records are non-empty at every level (the grammar has no empty record) -/
def WfTy : FTy → Bool
  | .prim _ => true
  | .record fs => fs.length != 0 && WfTys fs
def WfTys : FTys → Bool
  | .nil => true
  | .cons t ts => WfTy t && WfTys ts
end

end Never.Ffi
