import NeverModel.Model.Heap
import NeverModel.Model.Num
import NeverModel.Model.Index
import NeverModel.Model.ExcTab
import NeverModel.Gen.Opcodes
/-
M-VM: executable small-step model of the bytecode interpreter
(back/vmexec.c, back/libvm.c, back/vm.c and the entry logic of back/nev.c).

One `step` = one iteration of the `vm_execute` loop: fetch, `ip++`, run the handler, and if the
handler raised, look the handler address up in the exception table.  The heap is M-Heap
(Model/Heap.lean): same free-list order, hence the very `mem_ptr` values of the C VM.
C-level outcomes that are not states are values: `Stop.crash` (assertion, NULL / foreign
read, out-of-bounds stack or code access: the process would die or be in undefined
behaviour) and `Stop.exit` (`exit(1)` after "stack too large" / "out of memory").
External calls are parameters (`Oracle`): libm results with their floating-point exception
flags, `read` input.  FFI opcodes are not modelled (`crash "ffi"`).
Tied to the C code by per-instruction trace correspondence (harness/h_vm.c → `nmdrv vm`).
Core Lean only.
-/
namespace Never.Vm
open Never Never.Num

/-- a `bytecode` cell: opcode and the raw 32-bit words of its operand union -/
structure Instr where
  op : Opc
  w0 : Nat
  w1 : Nat
  w2 : Nat
  deriving Repr, Inhabited, DecidableEq

inductive Param where
  | int (v : BitVec 32)
  | float (bits : BitVec 32)
  | str (s : List UInt8)
  | strArr (a : List (List UInt8))
  deriving Repr, Inhabited, DecidableEq

/-- the emitted module plus what `nev_prepare` selected -/
structure Module where
  code : Array Instr
  strtab : Array (List UInt8)
  exctab : Array ExcEntry
  excCount : Nat
  codeEntry : Nat
  entryAddr : Nat
  params : List Param
  fnParams : List (Nat × Nat) := []   -- (function entry address, parameter count) as the emitter reported them (hook)
  deriving Repr, Inhabited

inductive Stop where
  | crash (why : String)
  | exit (msg : String) (out : List UInt8)   -- `exit(1)`; `out` = what the C code printed on stdout just before
  deriving Repr, Inhabited, DecidableEq

/-- results of external calls made by the next instruction (libm, stdin) -/
structure Oracle where
  floatBits : Option (BitVec 32) := none   -- value returned by sinf/cosf/…/powf
  fe : Nat := 0                            -- fetestexcept bits: 1 divbyzero, 2 invalid, 4 overflow, 8 underflow
  readInt : BitVec 32 := 0
  deriving Repr, Inhabited

structure Vm where
  sp : Int := -1
  fp : Int := -1
  pp : Int := -1
  gp : Nat := 0
  ip : Nat := 0
  stackSize : Nat
  stack : Array Slot
  gc : Gc
  running : Nat := 1        -- vm_state: 0 HALT, 1 RUNNING, 2 EXCEPTION, 3 ERROR
  exception : Nat := 0
  line : Nat := 0
  out : Array UInt8 := #[]
  gcMode : Nat := 0         -- 0: the 80 % rule, 1: collect at every safe point, 2: never
  initialized : Bool := false
  deriving Inhabited

def Vm.new (mem stack : Nat) (gcMode : Nat := 0) : Vm :=
  { stackSize := stack, stack := Array.replicate stack .unknown, gc := Gc.new mem, gcMode := gcMode }

abbrev M := StateT Vm (Except Stop)

def crash {α} (why : String) : M α := throw (.crash why)
def exitVm {α} (msg : String) (out : List UInt8 := []) : M α := throw (.exit msg out)

/-! ### operand decoding -/
def i32 (w : Nat) : Int := if w ≥ 2147483648 then (w : Int) - 4294967296 else w
def bv32 (w : Nat) : BitVec 32 := BitVec.ofNat 32 w
def bv64 (lo hi : Nat) : BitVec 64 := BitVec.ofNat 64 (lo + hi * 4294967296)

/-! ### stack -/
def _root_.Never.Slot.asAddr : Slot → Nat
  | .addr a => a
  | .ip v => v
  | .stk v => (v % 4294967296).toNat
  | .unknown => 0
def _root_.Never.Slot.asInt : Slot → Int
  | .addr a => i32 a
  | .ip v => i32 v
  | .stk v => v
  | .unknown => 0

def rdSlot (i : Int) : M Slot := do
  let vm ← get
  if i < 0 ∨ i ≥ vm.stackSize then crash "stack read out of bounds" else
  pure (vm.stack[i.toNat]?.getD .unknown)

def wrSlot (i : Int) (s : Slot) : M Unit := do
  let vm ← get
  if i < 0 ∨ i ≥ vm.stackSize then crash "stack write out of bounds" else
  set { vm with stack := vm.stack.setIfInBounds i.toNat s }

def rdAddr (i : Int) : M Nat := do return (← rdSlot i).asAddr

def getSp : M Int := do return (← get).sp
def setSp (v : Int) : M Unit := modify fun vm => { vm with sp := v }

/-- `vm_print` (back/vm.c) -/
def vmPrintText (vm : Vm) (msg : String) : List UInt8 :=
  (s!"machine:\n\tsp: {vm.sp}\n\tfp: {vm.fp}\n\tgp: {vm.gp}\n\tip: {vm.ip}\n\texcept: {vm.exception}\n\tline_no: {vm.line}\n\tstack_size: {vm.stackSize}\n\tmem_size: {vm.gc.mem.size}\n\trunning: {vm.running}\n\tmessage: {msg}\n\n").toUTF8.toList

/-- `vm_check_stack` -/
def checkStack : M Unit := do
  let vm ← get
  if vm.sp ≥ vm.stackSize then exitVm "stack too large" (vmPrintText vm "stack too large") else pure ()

def raise (e : Nat) : M Unit := modify fun vm => { vm with running := 2, exception := e }

/-! ### heap accessors (gc_get_* / gc_set_* with their tag assertions) -/
def alloc (o : Obj) : M Nat := do
  let vm ← get
  match vm.gc.alloc o with
  | none => exitVm "out of memory"
  | some (g, loc) => set { vm with gc := g }; pure loc

def objOf (a : Nat) : M Obj := do
  let vm ← get
  if a > vm.gc.mem.size then crash "assert mem_size >= addr" else
  match vm.gc.mem.objAt a with
  | some o => pure o
  | none => crash "NULL object dereference"

def setObj (a : Nat) (o : Obj) : M Unit :=
  modify fun vm => { vm with gc := { vm.gc with mem := vm.gc.mem.setObj a (some o) } }

def getInt (a : Nat) : M (BitVec 32) := do match (← objOf a) with | .int v => pure v | _ => crash "tag: int expected"
def getLong (a : Nat) : M (BitVec 64) := do match (← objOf a) with | .long v => pure v | _ => crash "tag: long expected"
def getFloat (a : Nat) : M (BitVec 32) := do match (← objOf a) with | .float v => pure v | _ => crash "tag: float expected"
def getDouble (a : Nat) : M (BitVec 64) := do match (← objOf a) with | .double v => pure v | _ => crash "tag: double expected"
def getChar (a : Nat) : M (BitVec 8) := do match (← objOf a) with | .char v => pure v | _ => crash "tag: char expected"
def getStr (a : Nat) : M (List UInt8) := do match (← objOf a) with | .str s => pure s | _ => crash "tag: string expected"
def getStrRef (a : Nat) : M Nat := do match (← objOf a) with | .strRef p => pure p | _ => crash "tag: string ref expected"
def getVecRef (a : Nat) : M Nat := do match (← objOf a) with | .vecRef p => pure p | _ => crash "tag: vec ref expected"
def getArrRef (a : Nat) : M Nat := do match (← objOf a) with | .arrRef p => pure p | _ => crash "tag: array ref expected"
def getVecObj (a : Nat) : M (List Nat) := do match (← objOf a) with | .vec fs => pure fs | _ => crash "tag: vec expected"
def getArrObj (a : Nat) : M (List (Nat × Nat) × List Nat) := do match (← objOf a) with | .arr dv es => pure (dv, es) | _ => crash "tag: array expected"
def getFunc (a : Nat) : M (Nat × Nat) := do match (← objOf a) with | .func env ip => pure (env, ip) | _ => crash "tag: func expected"
def getCPtr (a : Nat) : M Nat := do match (← objOf a) with | .cptr v => pure v | _ => crash "tag: c_ptr expected"

/-- `gc_get_vec` (the C assert is `size >= index`, so `index = size` reads one past the end) -/
def getVec (a i : Nat) : M Nat := do
  let fs ← getVecObj a
  match fs[i]? with | some v => pure v | none => crash "vec index out of bounds"
def setVec (a i v : Nat) : M Unit := do
  let fs ← getVecObj a
  if i < fs.length then setObj a (.vec (fs.set i v)) else crash "vec index out of bounds"
def getArrElem (a i : Nat) : M Nat := do
  let (_, es) ← getArrObj a
  match es[i]? with | some v => pure v | none => crash "array element out of bounds"
def setArrElem (a i v : Nat) : M Unit := do
  let (dv, es) ← getArrObj a
  if i < es.length then setObj a (.arr dv (es.set i v)) else crash "array element out of bounds"

def scalarOf (ty : NTy) (a : Nat) : M NVal := do
  match ty with
  | .int => return .int (← getInt a)
  | .long => return .long (← getLong a)
  | .float => return .float (← getFloat a)
  | .double => return .double (← getDouble a)
  | .char => return .char (← getChar a)

def _root_.Never.Num.NVal.toObj : NVal → Obj
  | .int v => .int v | .long v => .long v | .float v => .float v | .double v => .double v | .char v => .char v

/-- `gc_alloc_arr(dims, dv)` with zero-initialised element words (the C code leaves them
uninitialised and every caller overwrites all of them before any read) -/
def allocArr (exts : List Nat) : M Nat := do
  let (dv, n) := Idx.dimMult exts
  alloc (.arr dv (List.replicate n 0))

/-! ### output and formatting (front/strutil.c) -/
def emit (bs : List UInt8) : M Unit := modify fun vm => { vm with out := vm.out ++ bs.toArray }
def bytesOf (s : String) : List UInt8 := s.toUTF8.toList
/-- a C string stops at the first NUL -/
def cstr (bs : List UInt8) : List UInt8 := bs.takeWhile (· ≠ 0)
def fmtInt (v : Int) : List UInt8 := bytesOf (toString v)

/-- `%.2f` of a double: exact binary value, round-half-even (glibc) -/
def fmtFixed2 (x : Float) : List UInt8 :=
  if x.isNaN then bytesOf (if (x.toBits >>> 63) == 1 then "-nan" else "nan") else
  if x.isInf then bytesOf (if x < 0 then "-inf" else "inf") else
  let bits := x.toBits.toNat
  let neg := bits / 9223372036854775808 == 1
  let e := (bits / 4503599627370496) % 2048
  let f := bits % 4503599627370496
  -- value = m * 2^(ex), m integer
  let m : Nat := if e == 0 then f else f + 4503599627370496
  let ex : Int := (if e == 0 then 1 else (e : Int)) - 1075
  -- q = round_half_even(m * 2^ex * 100)
  let q : Nat :=
    if ex ≥ 0 then m * 2 ^ ex.toNat * 100
    else
      let d := 2 ^ (-ex).toNat
      let n := m * 100
      let fl := n / d
      let r := n % d
      if 2 * r > d then fl + 1 else if 2 * r < d then fl else (if fl % 2 == 0 then fl else fl + 1)
  let ip := q / 100
  let fr := q % 100
  bytesOf ((if neg then "-" else "") ++ toString ip ++ "." ++ (if fr < 10 then "0" else "") ++ toString fr)

def fmtScalar : NVal → List UInt8
  | .int v => fmtInt v.toInt
  | .long v => fmtInt v.toInt
  | .float b => fmtFixed2 (f32 b).toFloat
  | .double b => fmtFixed2 (f64 b)
  | .char v => [UInt8.ofNat v.toNat]

/-! ### collection at safe points (`gc_run`) -/
/-- `gc_run(collector, stack, sp + 1, gp)` under the configured schedule, as a pure function of the machine -/
def gcRunPure (vm : Vm) : Except Stop Vm :=
  if vm.gcMode == 2 then .ok vm else
  let st := (vm.stack.extract 0 (vm.sp + 1).toNat).toList
  let r := if vm.gcMode == 1 then vm.gc.collect st vm.gp else vm.gc.run st vm.gp
  match r with
  | some g => .ok { vm with gc := g }
  | none => .error (.crash "collector reads a foreign or wrongly typed object")

def gcRun : M Unit := do
  match gcRunPure (← get) with
  | .ok vm' => set vm'
  | .error e => throw e

/-! ### frame operations as pure functions of the machine (the theorems of C03/C13/C14/C15 are stated on these) -/

def rdP (vm : Vm) (i : Int) : Except Stop Slot :=
  if i < 0 ∨ i ≥ vm.stackSize then .error (.crash "stack read out of bounds") else .ok (vm.stack[i.toNat]?.getD .unknown)

def wrP (vm : Vm) (i : Int) (s : Slot) : Except Stop Vm :=
  if i < 0 ∨ i ≥ vm.stackSize then .error (.crash "stack write out of bounds") else .ok { vm with stack := vm.stack.setIfInBounds i.toNat s }

def checkP (vm : Vm) : Except Stop Vm :=
  if vm.sp ≥ vm.stackSize then .error (.exit "stack too large" (vmPrintText vm "stack too large")) else .ok vm

/-- `sp++; vm_check_stack; stack[sp] = {ADDR, a}` -/
def pushP (vm : Vm) (a : Nat) : Except Stop Vm := do
  let vm1 ← checkP { vm with sp := vm.sp + 1 }
  wrP vm1 vm1.sp (.addr a)

/-- `vm_execute_mark`: `sp += 5; vm_check_stack;` then the five frame words, then `fp = sp`
(check-before-write since the `fix:` commit b857a09; `markPinnedP` below is the pinned order) -/
def markP (vm : Vm) (retAddr : Nat) : Except Stop Vm := do
  let sp := vm.sp
  let v ← checkP { vm with sp := sp + 5 }
  let v ← wrP v (sp + 5) (.ip retAddr)
  let v ← wrP v (sp + 4) (.stk vm.fp)
  let v ← wrP v (sp + 3) (.addr vm.gp)
  let v ← wrP v (sp + 2) (.ip vm.line)
  let v ← wrP v (sp + 1) (.stk vm.pp)
  .ok { v with fp := sp + 5 }

/-- `vm_execute_mark` as in the pinned tree: five writes above `sp`, THEN the stack check (kept for the record) -/
def markPinnedP (vm : Vm) (retAddr : Nat) : Except Stop Vm := do
  let sp := vm.sp
  let v ← wrP vm (sp + 5) (.ip retAddr)
  let v ← wrP v (sp + 4) (.stk vm.fp)
  let v ← wrP v (sp + 3) (.addr vm.gp)
  let v ← wrP v (sp + 2) (.ip vm.line)
  let v ← wrP v (sp + 1) (.stk vm.pp)
  checkP { v with fp := sp + 5, sp := sp + 5 }

/-- `vm_execute_call` given the function object's (environment, address) -/
def callP (vm : Vm) (env fip : Nat) : Vm :=
  if fip == 0 then { vm with running := 2, exception := 8 }
  else { vm with gp := env, ip := fip, pp := vm.fp, sp := vm.sp - 1 }

def slideLoopP (q : Nat) : Nat → Vm → Except Stop Vm
  | 0, vm => .ok vm
  | n+1, vm => do
    let s := vm.sp
    let v ← rdP vm (s + 1 + q)
    let vm' ← wrP { vm with sp := s + 1 } (s + 1) v
    slideLoopP q n vm'

/-- `vm_execute_slide` without its trailing `gc_run` -/
def slideP (vm : Vm) (q m : Nat) : Except Stop Vm :=
  if q == 0 then .ok vm else
  if m == 0 then .ok { vm with sp := vm.sp - q } else
  slideLoopP q m { vm with sp := vm.sp - q - m }

/-- `vm_execute_clear_stack` -/
def clearStackP (vm : Vm) (n : Nat) : Vm := { vm with fp := vm.pp, sp := vm.pp + n, running := 1 }

/-- `vm_execute_ret` without its trailing `gc_run` -/
def retP (vm : Vm) : Except Stop Vm := do
  let fp := vm.fp
  let gp ← rdP vm (fp - 2)
  let rip ← rdP vm fp
  let pp ← rdP vm (fp - 4)
  let top ← rdP vm vm.sp
  let v ← wrP vm (fp - 4) top
  let nfp ← rdP v (fp - 1)
  .ok { v with gp := gp.asAddr, ip := rip.asAddr, pp := pp.asInt, sp := fp - 4, fp := nfp.asInt }

/-- slot `j` of the stack array (used by the statements about frames; no handler calls it) -/
def slot (vm : Vm) (j : Int) : Slot := if j < 0 then .unknown else vm.stack[j.toNat]?.getD .unknown

def liftE {α} (r : Except Stop α) : M α := match r with | .ok a => pure a | .error e => throw e

/-- `sp++; vm_check_stack; stack[sp] = {ADDR, a}` -/
def pushAddr (a : Nat) : M Unit := do set (← liftE (pushP (← get) a))

/-! ### opcode families -/
def binOpOf : Opc → Option (NTy × BinOp)
  | .OP_ADD_INT => some (.int, .add) | .OP_SUB_INT => some (.int, .sub) | .OP_MUL_INT => some (.int, .mul)
  | .OP_DIV_INT => some (.int, .div) | .OP_MOD_INT => some (.int, .mod)
  | .OP_ADD_LONG => some (.long, .add) | .OP_SUB_LONG => some (.long, .sub) | .OP_MUL_LONG => some (.long, .mul)
  | .OP_DIV_LONG => some (.long, .div) | .OP_MOD_LONG => some (.long, .mod)
  | .OP_ADD_FLOAT => some (.float, .add) | .OP_SUB_FLOAT => some (.float, .sub) | .OP_MUL_FLOAT => some (.float, .mul)
  | .OP_DIV_FLOAT => some (.float, .div)
  | .OP_ADD_DOUBLE => some (.double, .add) | .OP_SUB_DOUBLE => some (.double, .sub) | .OP_MUL_DOUBLE => some (.double, .mul)
  | .OP_DIV_DOUBLE => some (.double, .div)
  | .OP_LT_INT => some (.int, .lt) | .OP_GT_INT => some (.int, .gt) | .OP_LTE_INT => some (.int, .lte)
  | .OP_GTE_INT => some (.int, .gte) | .OP_EQ_INT => some (.int, .eq) | .OP_NEQ_INT => some (.int, .neq)
  | .OP_LT_LONG => some (.long, .lt) | .OP_GT_LONG => some (.long, .gt) | .OP_LTE_LONG => some (.long, .lte)
  | .OP_GTE_LONG => some (.long, .gte) | .OP_EQ_LONG => some (.long, .eq) | .OP_NEQ_LONG => some (.long, .neq)
  | .OP_LT_FLOAT => some (.float, .lt) | .OP_GT_FLOAT => some (.float, .gt) | .OP_LTE_FLOAT => some (.float, .lte)
  | .OP_GTE_FLOAT => some (.float, .gte) | .OP_EQ_FLOAT => some (.float, .eq) | .OP_NEQ_FLOAT => some (.float, .neq)
  | .OP_LT_DOUBLE => some (.double, .lt) | .OP_GT_DOUBLE => some (.double, .gt) | .OP_LTE_DOUBLE => some (.double, .lte)
  | .OP_GTE_DOUBLE => some (.double, .gte) | .OP_EQ_DOUBLE => some (.double, .eq) | .OP_NEQ_DOUBLE => some (.double, .neq)
  | .OP_LT_CHAR => some (.char, .lt) | .OP_GT_CHAR => some (.char, .gt) | .OP_LTE_CHAR => some (.char, .lte)
  | .OP_GTE_CHAR => some (.char, .gte) | .OP_EQ_CHAR => some (.char, .eq) | .OP_NEQ_CHAR => some (.char, .neq)
  | .OP_BIN_AND_INT => some (.int, .band) | .OP_BIN_OR_INT => some (.int, .bor) | .OP_BIN_XOR_INT => some (.int, .bxor)
  | .OP_BIN_SHL_INT => some (.int, .shl) | .OP_BIN_SHR_INT => some (.int, .shr)
  | .OP_BIN_AND_LONG => some (.long, .band) | .OP_BIN_OR_LONG => some (.long, .bor) | .OP_BIN_XOR_LONG => some (.long, .bxor)
  | .OP_BIN_SHL_LONG => some (.long, .shl) | .OP_BIN_SHR_LONG => some (.long, .shr)
  | _ => none

def unOpOf : Opc → Option (NTy × UnOp)
  | .OP_NEG_INT => some (.int, .neg) | .OP_NEG_LONG => some (.long, .neg)
  | .OP_NEG_FLOAT => some (.float, .neg) | .OP_NEG_DOUBLE => some (.double, .neg)
  | .OP_NOT_INT => some (.int, .not) | .OP_BIN_NOT_INT => some (.int, .bnot) | .OP_BIN_NOT_LONG => some (.long, .bnot)
  | _ => none

def convOf : Opc → Option (NTy × NTy)
  | .INT_TO_LONG => some (.int, .long) | .INT_TO_FLOAT => some (.int, .float) | .INT_TO_DOUBLE => some (.int, .double)
  | .LONG_TO_INT => some (.long, .int) | .LONG_TO_FLOAT => some (.long, .float) | .LONG_TO_DOUBLE => some (.long, .double)
  | .FLOAT_TO_INT => some (.float, .int) | .FLOAT_TO_LONG => some (.float, .long) | .FLOAT_TO_DOUBLE => some (.float, .double)
  | .DOUBLE_TO_INT => some (.double, .int) | .DOUBLE_TO_LONG => some (.double, .long) | .DOUBLE_TO_FLOAT => some (.double, .float)
  | _ => none

/-- nil comparisons: (kind of the non-nil side: 0 string 1 array 2 record 3 func, nil on the left?, negated?) -/
def nilCmpOf : Opc → Option (Nat × Bool × Bool)
  | .OP_EQ_STRING_NIL => some (0, false, false) | .OP_EQ_ARRAY_NIL => some (1, false, false)
  | .OP_EQ_RECORD_NIL => some (2, false, false) | .OP_EQ_FUNC_NIL => some (3, false, false)
  | .OP_EQ_NIL_STRING => some (0, true, false) | .OP_EQ_NIL_ARRAY => some (1, true, false)
  | .OP_EQ_NIL_RECORD => some (2, true, false) | .OP_EQ_NIL_FUNC => some (3, true, false)
  | .OP_NEQ_STRING_NIL => some (0, false, true) | .OP_NEQ_ARRAY_NIL => some (1, false, true)
  | .OP_NEQ_RECORD_NIL => some (2, false, true) | .OP_NEQ_FUNC_NIL => some (3, false, true)
  | .OP_NEQ_NIL_STRING => some (0, true, true) | .OP_NEQ_NIL_ARRAY => some (1, true, true)
  | .OP_NEQ_NIL_RECORD => some (2, true, true) | .OP_NEQ_NIL_FUNC => some (3, true, true)
  | _ => none

/-- string concatenation with a scalar: (scalar type, scalar on the left?) -/
def strAddOf : Opc → Option (NTy × Bool)
  | .OP_ADD_INT_STRING => some (.int, true) | .OP_ADD_STRING_INT => some (.int, false)
  | .OP_ADD_LONG_STRING => some (.long, true) | .OP_ADD_STRING_LONG => some (.long, false)
  | .OP_ADD_FLOAT_STRING => some (.float, true) | .OP_ADD_STRING_FLOAT => some (.float, false)
  | .OP_ADD_DOUBLE_STRING => some (.double, true) | .OP_ADD_STRING_DOUBLE => some (.double, false)
  | .OP_ADD_CHAR_STRING => some (.char, true) | .OP_ADD_STRING_CHAR => some (.char, false)
  | _ => none

/-- element-wise array arithmetic: (element type, 0 neg / 1 add / 2 sub / 3 scalar*array / 4 matrix product) -/
def arrOpOf : Opc → Option (NTy × Nat)
  | .OP_NEG_ARR_INT => some (.int, 0) | .OP_NEG_ARR_LONG => some (.long, 0) | .OP_NEG_ARR_FLOAT => some (.float, 0) | .OP_NEG_ARR_DOUBLE => some (.double, 0)
  | .OP_ADD_ARR_INT => some (.int, 1) | .OP_ADD_ARR_LONG => some (.long, 1) | .OP_ADD_ARR_FLOAT => some (.float, 1) | .OP_ADD_ARR_DOUBLE => some (.double, 1)
  | .OP_SUB_ARR_INT => some (.int, 2) | .OP_SUB_ARR_LONG => some (.long, 2) | .OP_SUB_ARR_FLOAT => some (.float, 2) | .OP_SUB_ARR_DOUBLE => some (.double, 2)
  | .OP_MUL_ARR_INT => some (.int, 3) | .OP_MUL_ARR_LONG => some (.long, 3) | .OP_MUL_ARR_FLOAT => some (.float, 3) | .OP_MUL_ARR_DOUBLE => some (.double, 3)
  | .OP_MUL_ARR_ARR_INT => some (.int, 4) | .OP_MUL_ARR_ARR_LONG => some (.long, 4) | .OP_MUL_ARR_ARR_FLOAT => some (.float, 4) | .OP_MUL_ARR_ARR_DOUBLE => some (.double, 4)
  | _ => none

/-- default element of `MK_ARRAY_<kind>` -/
def mkArrayElem : Opc → Option Obj
  | .MK_ARRAY_INT => some (.int 0) | .MK_ARRAY_LONG => some (.long 0) | .MK_ARRAY_FLOAT => some (.float 0)
  | .MK_ARRAY_DOUBLE => some (.double 0) | .MK_ARRAY_CHAR => some (.char 0) | .MK_ARRAY_STRING => some (.strRef 0)
  | .MK_ARRAY_ARRAY => some (.arrRef 0) | .MK_ARRAY_RECORD => some (.vecRef 0) | .MK_ARRAY_FUNC => some (.func 0 0)
  | _ => none

def resOf (r : NRes) : M (Option NVal) :=
  match r with
  | .ok v => pure (some v)
  | .exc e => do raise e; pure none
  | .crash why => crash why
  | .tag => crash "tag: numeric operand of another type"

def one32 : BitVec 32 := 1
def neg1 (ty : NTy) : NVal :=
  match ty with
  | .int => .int (-1) | .long => .long (-1)
  | .float => .float (b32 (Float32.ofInt (-1))) | .double => .double (b64 (Float.ofInt (-1))) | .char => .char (-1)
def zeroOf (ty : NTy) : NVal :=
  match ty with
  | .int => .int 0 | .long => .long 0 | .float => .float 0 | .double => .double 0 | .char => .char 0

/-- pop `n` ints from the stack (`stack[sp--]`), first popped first -/
def popInts : Nat → M (List Int)
  | 0 => pure []
  | n+1 => do
    let sp ← getSp
    let v ← getInt (← rdAddr sp)
    setSp (sp - 1)
    let rest ← popInts n
    pure (v.toInt :: rest)

def popAddrs : Nat → M (List Nat)
  | 0 => pure []
  | n+1 => do
    let sp ← getSp
    let a ← rdAddr sp
    setSp (sp - 1)
    let rest ← popAddrs n
    pure (a :: rest)

def allocEach (o : Obj) : Nat → M (List Nat)
  | 0 => pure []
  | n+1 => do let a ← alloc o; let r ← allocEach o n; pure (a :: r)

/-- element-wise map with allocation in element order -/
def mapElems (ty : NTy) (f : NVal → M NVal) : List Nat → M (List Nat)
  | [] => pure []
  | e :: es => do
    let v ← scalarOf ty e
    let r ← f v
    let a ← alloc r.toObj
    let rest ← mapElems ty f es
    pure (a :: rest)

def okVal (r : NRes) : M NVal :=
  match r with
  | .ok v => pure v
  | .exc _ => crash "unexpected exception in element arithmetic"
  | .crash w => crash w
  | .tag => crash "tag: numeric operand of another type"

/-- composition of one dimension of a slice/range (`vm_get_slice_range`) on C ints -/
def sliceRange32 (a b c d : Int) : Option (Int × Int) := Idx.sliceRange a b c d

/-- read the `(from, to)` pair of dimension `d` from a range vector -/
def rangePair (range d : Nat) : M (Int × Int) := do
  let f ← getInt (← getVec range (2 * d))
  let t ← getInt (← getVec range (2 * d + 1))
  pure (f.toInt, t.toInt)

def wrap32 (x : Int) : BitVec 32 := BitVec.ofInt 32 x

/-- the per-dimension loop of SLICE_RANGE / SLICE_SLICE; `none` = index_out_of_bounds raised -/
def composeRanges (range1 range2 res : Nat) : Nat → Nat → M Bool
  | _, 0 => pure true
  | d, n+1 => do
    let (a, b) ← rangePair range1 d
    let (c, e) ← rangePair range2 d
    match sliceRange32 a b c e with
    | none => raise 3; pure false
    | some (r1, r2) =>
      let fa ← alloc (.int (wrap32 r1))
      let ta ← alloc (.int (wrap32 r2))
      setVec res (2 * d) fa
      setVec res (2 * d + 1) ta
      composeRanges range1 range2 res (d + 1) n

/-- math build-ins: value from the oracle when present, else Lean's libm binding -/
def mathResult (orc : Oracle) (dflt : Float32) : BitVec 32 :=
  match orc.floatBits with | some b => b | none => b32 dflt

/-- the `fetestexcept` chain after a build-in; `true` = an exception was raised -/
def feCheck (orc : Oracle) : M Bool := do
  if orc.fe % 16 == 0 then pure false else
  let e := if orc.fe % 2 == 1 then 1 else if (orc.fe / 2) % 2 == 1 then 4 else if (orc.fe / 4) % 2 == 1 then 5 else 6
  modify fun vm => { vm with exception := e, running := 2 }
  pure true

/-- `libvm_execute_build_in` -/
def buildIn (id : Nat) (orc : Oracle) : M Unit := do
  let sp ← getSp
  -- every build-in but `read` (12, no operand) reads its operand address from `stack[sp]`
  let top ← (if id == 12 then pure 0 else rdAddr sp : M Nat)
  let finish (a : Nat) : M Unit := do
    if (← feCheck orc) then pure () else wrSlot (← getSp) (.addr a)
  let math1 (f : Float32 → Float32) : M Unit := do
    let x ← getFloat top
    let a ← alloc (.float (mathResult orc (f (f32 x))))
    finish a
  match id with
  | 1 => math1 Float32.sin
  | 2 => math1 Float32.cos
  | 3 => math1 Float32.tan
  | 4 => math1 Float32.exp
  | 5 => math1 Float32.log
  | 6 => math1 Float32.sqrt
  | 7 => do
    let x ← getFloat top
    let y ← getFloat (← rdAddr (sp - 1))
    let a ← alloc (.float (mathResult orc (Float32.pow (f32 x) (f32 y))))
    setSp (sp - 1)
    finish a
  | 8 => do
    let x ← getInt top
    let s ← alloc (.str (fmtInt x.toInt))
    finish (← alloc (.strRef s))
  | 9 => do
    let x ← getFloat top
    let s ← alloc (.str (fmtFixed2 (f32 x).toFloat))
    finish (← alloc (.strRef s))
  | 10 => do let x ← getChar top; finish (← alloc (.int (x.signExtend 32)))
  | 11 => do let x ← getInt top; finish (← alloc (.char (x.truncate 8)))
  | 12 => do
    let a ← alloc (.int orc.readInt)
    setSp (sp + 1)
    checkStack          -- since the `fix:` commit 034394a (the pinned code stored without a check: `buildInReadPinned`)
    finish a
  | 13 => do let x ← getInt top; emit (fmtInt x.toInt ++ [13, 10]); finish (← alloc (.int x))
  | 14 => do let x ← getLong top; emit (fmtInt x.toInt ++ [13, 10]); finish (← alloc (.long x))
  | 15 => do let x ← getInt top; emit (fmtInt x.toInt ++ [13, 10]); finish (← alloc (.int x))
  | 16 => do let x ← getFloat top; emit (fmtFixed2 (f32 x).toFloat ++ [13, 10]); finish (← alloc (.float x))
  | 17 => do let x ← getDouble top; emit (fmtFixed2 (f64 x) ++ [13, 10]); finish (← alloc (.double x))
  | 18 => do let x ← getChar top; emit [UInt8.ofNat x.toNat]; finish (← alloc (.char x))
  | 19 => do
    let s ← getStrRef top
    if s == 0 then raise 8 else
    let x ← getStr s
    emit x
    finish (← alloc (.strRef s))
  | 20 => do
    let s ← getStrRef top
    if s == 0 then raise 8 else
    let x ← getStr s
    finish (← alloc (.int (BitVec.ofNat 32 x.length)))
  | 21 => do
    let x ← getInt top
    if x == 0 then modify fun vm => { vm with running := 3 } else finish (← alloc (.int 1))
  | 22 => do
    let x ← getFloat top
    let delta ← getFloat (← rdAddr (sp - 1))
    if (-(f32 delta)) > f32 x ∨ f32 x > f32 delta then modify fun vm => { vm with running := 3 } else
    let a ← alloc (.int 1)
    setSp (sp - 1)
    finish a
  | 23 => do let _ ← getInt top; finish (← alloc (.cptr 1))
  | 24 => do let _ ← getLong top; finish (← alloc (.cptr 1))
  | 25 => do let _ ← getFloat top; finish (← alloc (.cptr 1))
  | 26 => do let _ ← getDouble top; finish (← alloc (.cptr 1))
  | 27 => do let _ ← getInt top; finish (← alloc (.cptr 1))
  | 28 => do let _ ← getChar top; finish (← alloc (.cptr 1))
  | 29 => do
    -- (until the `fix:` commit d4916ed this handler read `stack[sp--]`: it popped its operand and stored the result one slot lower)
    let s ← getStrRef top
    if s != 0 then let _ ← getStr s
    finish (← alloc (.cptr (if s == 0 then 0 else 1)))
  | 30 => do let _ ← getCPtr top; finish (← alloc (.cptr 1))
  | _ => crash "unknown build-in"

/-- the `read` build-in (LIB_MATH_READ) as in the pinned tree: `sp++` and the common store after the switch, with NO
`vm_check_stack` in between (kept for the record; repaired by the `fix:` commit 034394a) -/
def buildInReadPinned (orc : Oracle) : M Unit := do
  let sp ← getSp
  let a ← alloc (.int orc.readInt)
  setSp (sp + 1)
  if (← feCheck orc) then pure () else wrSlot (← getSp) (.addr a)


/-- element-wise `a op b` over two element lists, allocating in element order -/
def zipArith (ty : NTy) (bop : BinOp) : List Nat → List Nat → M (List Nat)
  | x :: xs, y :: ys => do
    let v1 ← scalarOf ty x
    let v2 ← scalarOf ty y
    let r ← okVal (bin ty bop v1 v2)
    let a ← alloc r.toObj
    pure (a :: (← zipArith ty bop xs ys))
  | _, _ => pure []

def dotSum (ty : NTy) (es1 es2 : List Nat) (i j inner cols : Nat) : Nat → Nat → NVal → M NVal
  | _, 0, acc => pure acc
  | k, n+1, acc => do
    let x ← scalarOf ty (es1.getD (i * inner + k) 0)
    let y ← scalarOf ty (es2.getD (k * cols + j) 0)
    let p ← okVal (bin ty .mul x y)
    let acc' ← okVal (bin ty .add acc p)
    dotSum ty es1 es2 i j inner cols (k + 1) n acc'

def matCols (ty : NTy) (es1 es2 : List Nat) (mres i inner cols : Nat) : Nat → Nat → M Unit
  | _, 0 => pure ()
  | j, m+1 => do
    let s ← dotSum ty es1 es2 i j inner cols 0 inner (zeroOf ty)
    let c ← alloc s.toObj
    setArrElem mres (i * cols + j) c
    matCols ty es1 es2 mres i inner cols (j + 1) m

def matRows (ty : NTy) (es1 es2 : List Nat) (mres inner cols : Nat) : Nat → Nat → M Unit
  | _, 0 => pure ()
  | i, n+1 => do
    matCols ty es1 es2 mres i inner cols 0 cols
    matRows ty es1 es2 mres inner cols (i + 1) n

/-- extents of `MK_ARRAY_*`: `e <= 0` raises index_out_of_bounds (`none`) -/
def popExts : Nat → M (Option (List Nat))
  | 0 => pure (some [])
  | n+1 => do
    let sp ← getSp
    let e ← getInt (← rdAddr sp)
    setSp (sp - 1)
    if e.toInt ≤ 0 then raise 3; pure none else
    match (← popExts n) with
    | none => pure none
    | some r => pure (some (e.toNat :: r))

/-- indices of a deref: a negative one raises index_out_of_bounds (`none`) at once -/
def popIndices : Nat → M (Option (List Int))
  | 0 => pure (some [])
  | n+1 => do
    let sp ← getSp
    let e ← getInt (← rdAddr sp)
    setSp (sp - 1)
    if e.toInt < 0 then raise 3; pure none else
    match (← popIndices n) with
    | none => pure none
    | some r => pure (some (e.toInt :: r))

def rangeDerefLoop (range array : Nat) : Nat → Nat → M Bool
  | _, 0 => pure true
  | d, n+1 => do
    let (f, t) ← rangePair range d
    let sp ← getSp
    let i ← getInt (← rdAddr sp)
    setSp (sp - 1)
    match Idx.rangeDerefIndex f t i.toInt with
    | .error _ => raise 3; pure false
    | .ok r =>
      let ra ← alloc (.int (wrap32 r))
      setArrElem array d ra
      rangeDerefLoop range array (d + 1) n

def rangePairs (range : Nat) : Nat → Nat → M (List (Int × Int))
  | _, 0 => pure []
  | d, n+1 => do let p ← rangePair range d; pure (p :: (← rangePairs range (d + 1) n))

/-- `for (i = size; i > 0; i--) stack[sp_old + (i-1)] = vec[size - i]` (after `sp += size - 1; vm_check_stack`) -/
def unpackLoop (sp : Int) (fs : List Nat) (size : Nat) : Nat → M Unit
  | 0 => pure ()
  | i+1 => do
    wrSlot (sp + i) (.addr (fs.getD (size - (i + 1)) 0))
    unpackLoop sp fs size i

def slideLoop (q : Nat) : Nat → M Unit
  | 0 => pure ()
  | n+1 => do
    let s ← getSp
    setSp (s + 1)
    let v ← rdSlot (s + 1 + q)
    wrSlot (s + 1) v
    slideLoop q n

def allocLoop : Nat → M Unit
  | 0 => pure ()
  | n+1 => do
    let a ← alloc (.func 0 0)
    pushAddr a
    allocLoop n

def fillStrs (arr : Nat) : Nat → List (List UInt8) → M Unit
  | _, [] => pure ()
  | i, s :: rest => do
    let sa ← alloc (.str s)
    let sr ← alloc (.strRef sa)
    setArrElem arr i sr
    fillStrs arr (i + 1) rest

/-- `PUSH_PARAM` -/
def pushParams : List Param → M Unit
  | [] => pure ()
  | p :: ps => do
    let a ← match p with
      | .int v => alloc (.int v)
      | .float b => alloc (.float b)
      | .str s => do let sa ← alloc (.str s); alloc (.strRef sa)
      | .strArr ss => do
        let arr ← allocArr [ss.length]
        fillStrs arr 0 ss
        alloc (.arrRef arr)
    pushAddr a
    pushParams ps

/-- the typed binary handlers (`vm_execute_op_<op>_<type>`): operands at sp-1 and sp, result replaces sp-1 -/
def execBin (ty : NTy) (bop : BinOp) : M Unit := do
  let sp ← getSp
  let a ← scalarOf ty (← rdAddr (sp - 1))
  let b ← scalarOf ty (← rdAddr sp)
  match (← resOf (bin ty bop a b)) with
  | none => pure ()
  | some v =>
    let addr ← alloc v.toObj
    wrSlot (sp - 1) (.addr addr)
    setSp (sp - 1)

/-- the typed unary handlers: operand and result at sp -/
def execUn (ty : NTy) (uop : UnOp) : M Unit := do
  let sp ← getSp
  let a ← scalarOf ty (← rdAddr sp)
  match (← resOf (un ty uop a)) with
  | none => pure ()
  | some v => wrSlot sp (.addr (← alloc v.toObj))

/-- the twelve conversions: operand and result at sp -/
def execConv (src dst : NTy) : M Unit := do
  let sp ← getSp
  let a ← scalarOf src (← rdAddr sp)
  match (← resOf (conv src dst a)) with
  | none => pure ()
  | some v => wrSlot sp (.addr (← alloc v.toObj))

/-- the handler of one instruction (`vm_execute_op[bc->type].execute`) -/
def exec (md : Module) (ins : Instr) (orc : Oracle) : M Unit := do
  let op := ins.op
  let sp ← getSp
  -- generic families first
  if let some (ty, bop) := binOpOf op then execBin ty bop
  else if let some (ty, uop) := unOpOf op then execUn ty uop
  else if let some (src, dst) := convOf op then execConv src dst
  else if let some (kind, nilLeft, negated) := nilCmpOf op then
    let (nilSlot, valSlot) := if nilLeft then (sp - 1, sp) else (sp, sp - 1)
    -- the handlers read the typed side first when it is at sp-1, the nil side first otherwise
    let readVal : M Nat := do
      let a ← rdAddr valSlot
      match kind with
      | 0 => getStrRef a
      | 1 => getArrRef a
      | 2 => getVecRef a
      | _ => do let (_, ip) ← getFunc a; pure ip
    let readNil : M Unit := do let _ ← getVecRef (← rdAddr nilSlot)
    let v ← if nilLeft then do readNil; readVal else do let v ← readVal; readNil; pure v
    let r := if negated then v != 0 else v == 0
    let addr ← alloc (.int (if r then 1 else 0))
    wrSlot (sp - 1) (.addr addr)
    setSp (sp - 1)
  else if let some (ty, scalarLeft) := strAddOf op then
    if scalarLeft then
      let a ← scalarOf ty (← rdAddr (sp - 1))
      let sb ← getStrRef (← rdAddr sp)
      if sb == 0 then raise 8 else
      let b ← getStr sb
      let s ← alloc (.str (cstr (fmtScalar a ++ b)))
      wrSlot (sp - 1) (.addr (← alloc (.strRef s)))
      setSp (sp - 1)
    else
      let sa ← getStrRef (← rdAddr (sp - 1))
      if sa == 0 then raise 8 else
      let a ← getStr sa
      let b ← scalarOf ty (← rdAddr sp)
      let s ← alloc (.str (cstr (a ++ fmtScalar b)))
      wrSlot (sp - 1) (.addr (← alloc (.strRef s)))
      setSp (sp - 1)
  else if let some (ty, kind) := arrOpOf op then
    match kind with
    | 0 => do
      let array ← getArrRef (← rdAddr sp)
      if array == 0 then raise 8 else
      let (dv, es) ← getArrObj array
      let mres ← alloc (.arr dv (List.replicate es.length 0))
      let vals ← mapElems ty (fun v => okVal (bin ty .mul (neg1 ty) v)) es
      setObj mres (.arr dv vals)
      wrSlot sp (.addr (← alloc (.arrRef mres)))
    | 1 | 2 => do
      let a1 ← getArrRef (← rdAddr (sp - 1))
      let a2 ← getArrRef (← rdAddr sp)
      if a1 == 0 ∨ a2 == 0 then raise 8 else
      let (dv1, es1) ← getArrObj a1
      let (dv2, es2) ← getArrObj a2
      if !Idx.canAdd dv1 dv2 then raise 2 else
      let mres ← alloc (.arr dv2 (List.replicate es2.length 0))
      let vals ← zipArith ty (if kind == 1 then .add else .sub) es1 es2
      setObj mres (.arr dv2 vals)
      wrSlot (sp - 1) (.addr (← alloc (.arrRef mres)))
      setSp (sp - 1)
    | 3 => do
      let a ← scalarOf ty (← rdAddr (sp - 1))
      let array ← getArrRef (← rdAddr sp)
      if array == 0 then raise 8 else
      let (dv, es) ← getArrObj array
      let mres ← alloc (.arr dv (List.replicate es.length 0))
      let vals ← mapElems ty (fun v => okVal (bin ty .mul a v)) es
      setObj mres (.arr dv vals)
      wrSlot (sp - 1) (.addr (← alloc (.arrRef mres)))
      setSp (sp - 1)
    | _ => do
      let a1 ← getArrRef (← rdAddr (sp - 1))
      let a2 ← getArrRef (← rdAddr sp)
      if a2 == 0 ∨ a1 == 0 then raise 8 else
      let (dv1, es1) ← getArrObj a1
      let (dv2, es2) ← getArrObj a2
      if !Idx.canMult dv1 dv2 then raise 2 else
      let rows := (dv1.getD 0 (0, 0)).1
      let inner := (dv1.getD 1 (0, 0)).1
      let cols := (dv2.getD 1 (0, 0)).1
      let mres ← allocArr [rows, cols]
      matRows ty es1 es2 mres inner cols 0 rows
      wrSlot (sp - 1) (.addr (← alloc (.arrRef mres)))
      setSp (sp - 1)
  else if let some dflt := mkArrayElem op then
    -- vm_execute_mk_array_num
    let dims := ins.w0
    match (← popExts dims) with
    | none => pure ()
    | some exts =>
      let arr ← allocArr exts
      let (_, es) ← getArrObj arr
      let elems ← allocEach dflt es.length
      let (dv, _) ← getArrObj arr
      setObj arr (.arr dv elems)
      setSp ((← getSp) + 1)
      checkStack
      wrSlot (← getSp) (.addr (← alloc (.arrRef arr)))
  else
  match op with
  | .UNKNOWN => exitVm "unknown bytecode"
  | .INT => pushAddr (← alloc (.int (bv32 ins.w0)))
  | .LONG => pushAddr (← alloc (.long (bv64 ins.w0 ins.w1)))
  | .FLOAT => pushAddr (← alloc (.float (bv32 ins.w0)))
  | .DOUBLE => pushAddr (← alloc (.double (bv64 ins.w0 ins.w1)))
  | .CHAR => pushAddr (← alloc (.char (BitVec.ofNat 8 ins.w0)))
  | .STRING => do
    let s ← match md.strtab[ins.w0]? with | some s => pure s | none => crash "string index out of strtab"
    let addr ← alloc (.str s)
    setSp (sp + 1)
    checkStack
    let r ← alloc (.strRef addr)
    wrSlot (sp + 1) (.addr r)
  | .C_NULL => pushAddr (← alloc (.cptr 0))
  | .ID_TOP => do let a ← rdAddr (i32 ins.w0); pushAddr a
  | .ID_LOCAL => do let a ← rdAddr (sp - (i32 ins.w0 - i32 ins.w1)); pushAddr a
  | .ID_DIM_LOCAL => do
    let a ← rdAddr (sp - (i32 ins.w0 - i32 ins.w1))
    let array ← getArrRef a
    if array == 0 then raise 8 else   -- (nil test added by the `fix:` commit 7100a94)
    let (dv, _) ← getArrObj array
    let d ← match dv[ins.w2]? with | some (e, _) => pure e | none => crash "dimension index out of bounds"
    pushAddr (← alloc (.int (BitVec.ofNat 32 d)))
  | .ID_DIM_SLICE => do
    let sref ← rdAddr (sp - (i32 ins.w0 - i32 ins.w1))
    let slice ← getVecRef sref
    if slice == 0 then raise 8 else   -- (nil test added by the `fix:` commit 8a508e2, like 7100a94 for arrays)
    let range ← getVec slice 1
    let dim := i32 ins.w2
    let value : Int ← if dim % 2 == 0 then pure 0 else do
      let f ← getInt (← getVec range (dim - 1).toNat)
      let t ← getInt (← getVec range dim.toNat)
      pure (if t.toInt > f.toInt then t.toInt - f.toInt else f.toInt - t.toInt)
    pushAddr (← alloc (.int (wrap32 value)))
  | .ID_GLOBAL => do let a ← getVec (← get).gp ins.w0; pushAddr a
  | .ID_FUNC_FUNC => crash "assert: unresolved function placeholder"
  | .ID_FUNC_ADDR => do
    let vec ← rdAddr sp
    wrSlot sp (.addr (← alloc (.func vec ins.w0)))
  | .ID_FUNC_ENTRY => do
    let vec ← rdAddr sp
    wrSlot sp (.addr (← alloc (.func vec md.entryAddr)))
  | .OP_ADD_STRING => do
    let sa ← getStrRef (← rdAddr (sp - 1))
    let sb ← getStrRef (← rdAddr sp)
    if sa == 0 ∨ sb == 0 then raise 8 else
    let a ← getStr sa
    let b ← getStr sb
    let s ← alloc (.str (a ++ b))
    wrSlot (sp - 1) (.addr (← alloc (.strRef s)))
    setSp (sp - 1)
  | .OP_EQ_STRING | .OP_NEQ_STRING => do
    let sa ← getStrRef (← rdAddr (sp - 1))
    let sb ← getStrRef (← rdAddr sp)
    if sa == 0 ∨ sb == 0 then raise 8 else
    let a ← getStr sa
    let b ← getStr sb
    let eq := a == b
    let r := if op == .OP_EQ_STRING then eq else !eq
    wrSlot (sp - 1) (.addr (← alloc (.int (if r then 1 else 0))))
    setSp (sp - 1)
  | .OP_EQ_C_PTR | .OP_NEQ_C_PTR => do
    let a ← getCPtr (← rdAddr (sp - 1))
    let b ← getCPtr (← rdAddr sp)
    -- host pointers are abstracted to null / non-null; two non-null pointers cannot be compared
    if a != 0 ∧ b != 0 then crash "c_ptr identity not modelled" else
    let eq := a == b
    let r := if op == .OP_EQ_C_PTR then eq else !eq
    wrSlot (sp - 1) (.addr (← alloc (.int (if r then 1 else 0))))
    setSp (sp - 1)
  | .OP_EQ_NIL | .OP_NEQ_NIL => do
    let a ← getVecRef (← rdAddr (sp - 1))
    let b ← getVecRef (← rdAddr sp)
    let r := if op == .OP_EQ_NIL then a == b else a != b
    wrSlot (sp - 1) (.addr (← alloc (.int (if r then 1 else 0))))
    setSp (sp - 1)
  | .OP_INC_INT | .OP_DEC_INT => do
    let a ← rdAddr (sp - (i32 ins.w0 - i32 ins.w1))
    let v ← getInt a
    setObj a (.int (if op == .OP_INC_INT then v + 1 else v - 1))
  | .OP_DUP_INT => do
    let a ← rdAddr (sp - (i32 ins.w0 - i32 ins.w1))
    let v ← getInt a
    pushAddr (← alloc (.int v))
  | .ENUMTYPE_RECORD_TO_INT => do
    let rv ← getVecRef (← rdAddr sp)
    if rv == 0 then raise 8 else   -- (the `return` was added by fix 2bbdc72; the pinned code fell through into cell 0)
    let ia ← getVec rv 0
    let a ← getInt ia
    wrSlot sp (.addr (← alloc (.int a)))
  | .OP_ASS_INT => do let v ← getInt (← rdAddr sp); let d ← rdAddr (sp - 1); let _ ← getInt d; setObj d (.int v); setSp (sp - 1)
  | .OP_ASS_LONG => do let v ← getLong (← rdAddr sp); let d ← rdAddr (sp - 1); let _ ← getLong d; setObj d (.long v); setSp (sp - 1)
  | .OP_ASS_FLOAT => do let v ← getFloat (← rdAddr sp); let d ← rdAddr (sp - 1); let _ ← getFloat d; setObj d (.float v); setSp (sp - 1)
  | .OP_ASS_DOUBLE => do let v ← getDouble (← rdAddr sp); let d ← rdAddr (sp - 1); let _ ← getDouble d; setObj d (.double v); setSp (sp - 1)
  | .OP_ASS_CHAR => do let v ← getChar (← rdAddr sp); let d ← rdAddr (sp - 1); let _ ← getChar d; setObj d (.char v); setSp (sp - 1)
  | .OP_ASS_STRING => do
    let s ← getStrRef (← rdAddr sp)
    if s == 0 then raise 8 else
    let d ← rdAddr (sp - 1); let _ ← getStrRef d; setObj d (.strRef s); setSp (sp - 1)
  | .OP_ASS_C_PTR => do
    let v ← getCPtr (← rdAddr sp)
    let d ← rdAddr (sp - 1); let _ ← getCPtr d; setObj d (.cptr v); setSp (sp - 1)
  | .OP_ASS_ARRAY => do
    let s ← getArrRef (← rdAddr sp)
    if s == 0 then raise 8 else
    let d ← rdAddr (sp - 1); let _ ← getArrRef d; setObj d (.arrRef s); setSp (sp - 1)
  | .OP_ASS_RECORD | .OP_ASS_RECORD_NIL => do
    let s ← getVecRef (← rdAddr sp)
    let d ← rdAddr (sp - 1); let _ ← getVecRef d; setObj d (.vecRef s); setSp (sp - 1)
  | .OP_ASS_FUNC => do
    let (env, fip) ← getFunc (← rdAddr sp)
    if fip == 0 then raise 8 else
    let d ← rdAddr (sp - 1); let _ ← getFunc d; setObj d (.func env fip); setSp (sp - 1)
  | .JUMPZ => do
    let a ← getInt (← rdAddr sp)
    if a == 0 then modify fun vm => { vm with ip := ((vm.ip : Int) + i32 ins.w0).toNat }
    setSp (sp - 1)
  | .JUMP => modify fun vm => { vm with ip := ((vm.ip : Int) + i32 ins.w0).toNat }
  | .LABEL => pure ()
  | .MK_INIT_ARRAY => do
    let exts ← popInts ins.w0
    let arr ← allocArr (exts.map fun e => (e % 4294967296).toNat)
    let (dv, es) ← getArrObj arr
    let elems ← popAddrs es.length
    setObj arr (.arr dv elems)
    setSp ((← getSp) + 1)
    checkStack
    wrSlot (← getSp) (.addr (← alloc (.arrRef arr)))
  | .MK_RANGE => do
    let n := 2 * ins.w0
    let range ← alloc (.vec (List.replicate n 0))
    let vals ← popAddrs n
    setObj range (.vec vals)
    setSp ((← getSp) + 1)
    checkStack
    wrSlot (← getSp) (.addr (← alloc (.vecRef range)))
  | .SLICE_ARRAY => do
    let array ← getArrRef (← rdAddr (sp - 1))
    let range ← getVecRef (← rdAddr sp)
    if array == 0 ∨ range == 0 then raise 8 else
    let slice ← alloc (.vec [0, 0])
    setVec slice 0 array
    setVec slice 1 range
    let r ← alloc (.vecRef slice)
    setSp (sp - 1)
    wrSlot (sp - 1) (.addr r)
  | .SLICE_RANGE => do
    let r1 ← getVecRef (← rdAddr (sp - 1))
    let r2 ← getVecRef (← rdAddr sp)
    if r1 == 0 ∨ r2 == 0 then raise 8 else
    let dims := ins.w0
    let range ← alloc (.vec (List.replicate (2 * dims) 0))
    if (← composeRanges r1 r2 range 0 dims) then
      let r ← alloc (.vecRef range)
      setSp (sp - 1)
      wrSlot (sp - 1) (.addr r)
  | .SLICE_SLICE => do
    let slice ← getVecRef (← rdAddr (sp - 1))
    let range ← getVecRef (← rdAddr sp)
    if slice == 0 ∨ range == 0 then raise 8 else
    let sarr ← getVec slice 0
    let srange ← getVec slice 1
    if srange == 0 then raise 8 else
    let dims := ins.w0
    let rres ← alloc (.vec (List.replicate (2 * dims) 0))
    if (← composeRanges srange range rres 0 dims) then
      let sres ← alloc (.vec [0, 0])
      setVec sres 0 sarr
      setVec sres 1 rres
      let r ← alloc (.vecRef sres)
      setSp (sp - 1)
      wrSlot (sp - 1) (.addr r)
  | .SLICE_STRING => do
    let str ← getStrRef (← rdAddr (sp - 1))
    let range ← getVecRef (← rdAddr sp)
    if str == 0 ∨ range == 0 then raise 8 else   -- (nil test added by the `fix:` commit bd0855c; the pinned code dereferenced cell 0)
    let (f, t) ← rangePair range 0
    let s ← getStr str
    match Idx.sliceString s f t with
    | none => raise 3
    | some r =>
      let ra ← alloc (.str r)
      let rr ← alloc (.strRef ra)
      setSp (sp - 1)
      wrSlot (sp - 1) (.addr rr)
  | .ARRAY_DEREF | .ARRAYREF_DEREF => do
    let dims := ins.w0
    match (← popIndices dims) with
    | none => pure ()
    | some idx =>
      let sp ← getSp
      let ra ← rdAddr sp
      setSp (sp - 1)
      let array ← if op == .ARRAY_DEREF then (do let _ ← getArrObj ra; pure ra) else getArrRef ra
      if array == 0 then raise 8 else
      let (dv, es) ← getArrObj array
      if dv.length != dims then crash "assert: array dims" else
      match Idx.dimAddr dv (idx.map Int.toNat) with
      | .error _ => raise 3
      | .ok ei =>
        let elem ← match es[ei]? with | some v => pure v | none => crash "array element out of bounds"
        pushAddr elem
  | .RANGE_DEREF => do
    let dims := ins.w0
    let range ← getVecRef (← rdAddr (sp - dims))
    if range == 0 then raise 8 else
    let array ← alloc (.arr [(dims, 1)] (List.replicate dims 0))
    if (← rangeDerefLoop range array 0 dims) then
      wrSlot (← getSp) (.addr (← alloc (.arrRef array)))
  | .SLICE_DEREF => do
    let dims := ins.w0
    match (← popIndices dims) with
    | none => pure ()
    | some idx =>
      let sp ← getSp
      let slice ← getVecRef (← rdAddr sp)
      setSp (sp - 1)
      if slice == 0 then raise 8 else
      let array ← getVec slice 0
      let range ← getVec slice 1
      if array == 0 ∨ range == 0 then raise 8 else
      let (dv, es) ← getArrObj array
      if dv.length != dims then crash "assert: array dims" else
      -- ranges are read lazily in C (a faulting dimension stops the loop); reading all first is
      -- equivalent unless a later range vector is malformed
      let rs ← rangePairs range 0 dims
      match Idx.sliceDerefIndices dv rs idx with
      | .error _ => raise 3
      | .ok ei =>
        let elem ← match es[ei]? with | some v => pure v | none => crash "array element out of bounds"
        pushAddr elem
  | .STRING_DEREF => do
    let sref ← getStrRef (← rdAddr (sp - 1))
    let index ← getInt (← rdAddr sp)
    if sref == 0 then raise 8 else
    let s ← getStr sref
    if !Idx.stringDerefOk s.length index.toInt then raise 3 else
    let c := s.getD index.toNat 0
    let ca ← alloc (.char (BitVec.ofNat 8 c.toNat))
    setSp (sp - 1)
    wrSlot (sp - 1) (.addr ca)
  | .ARRAY_APPEND => do
    let a ← rdAddr (sp - (i32 ins.w0 - i32 ins.w1))
    let array ← getArrRef a
    if array == 0 then raise 8 else
    let obj ← rdAddr sp
    setSp (sp - 1)
    let vm ← get
    match vm.gc.appendArrElem array obj with
    | some g => set { vm with gc := g }
    | none => crash "assert: append to a non 1-dimensional array"
  | .RECORD => do
    let addr ← alloc (.vec (List.replicate ins.w0 0))
    let vals ← popAddrs ins.w0
    setObj addr (.vec vals)
    setSp ((← getSp) + 1)
    checkStack
    wrSlot (← getSp) (.addr (← alloc (.vecRef addr)))
  | .VEC_DEREF => do
    let vec ← rdAddr (sp - i32 ins.w0)
    let a ← getVec vec ins.w1
    pushAddr a
  | .VECREF_DEREF => do
    let vec ← getVecRef (← rdAddr sp)
    if vec == 0 then raise 8 else wrSlot sp (.addr vec)
  | .VECREF_VEC_DEREF => do
    let rref ← rdAddr (sp - i32 ins.w0)
    let rv ← getVecRef rref
    if rv == 0 then raise 8 else
    let fs ← getVecObj rv
    if ins.w1 ≥ fs.length then raise 3 else
    pushAddr (fs.getD ins.w1 0)
  | .VECREF_VEC_INDEX_DEREF => do
    let index ← getInt (← rdAddr sp)
    let rv ← getVecRef (← rdAddr (sp - 1))
    if rv == 0 then raise 8 else
    let fs ← getVecObj rv
    if index.toInt ≥ fs.length then raise 3 else
    if index.toInt < 0 then crash "vec read before its buffer" else
    wrSlot (sp - 1) (.addr (fs.getD index.toNat 0))
    setSp (sp - 1)
  | .RECORD_UNPACK => do
    let rv ← rdAddr sp
    let fs ← getVecObj rv
    if ins.w0 != fs.length then raise 3 else
    let size := fs.length
    -- for (i = size; i > 0; i--) stack[sp + (i-1)] = vec[size - i]
    setSp (sp + size - 1)
    checkStack
    unpackLoop sp fs size size
  | .NIL_RECORD_REF => pushAddr (← alloc (.vecRef 0))
  | .FUNC_DEF | .FUNC_OBJ => pure ()
  | .FUNC_FFI | .FUNC_FFI_BOOL | .FUNC_FFI_INT | .FUNC_FFI_LONG | .FUNC_FFI_FLOAT | .FUNC_FFI_DOUBLE
  | .FUNC_FFI_CHAR | .FUNC_FFI_STRING | .FUNC_FFI_VOID | .FUNC_FFI_C_PTR | .FUNC_FFI_RECORD => crash "ffi"
  | .DUP => do
    setSp (sp + 1)
    checkStack
    let s ← rdSlot (sp + 1 - ins.w0)
    wrSlot (sp + 1) s
  | .GLOBAL_VEC => do
    let addr ← alloc (.vec (List.replicate ins.w0 0))
    let vals ← popAddrs ins.w0
    setObj addr (.vec vals.reverse)
    pushAddr addr
  | .MARK => do set (← liftE (markP (← get) ins.w0))
  | .CALL => do
    let (gp, fip) ← getFunc (← rdAddr sp)
    modify fun vm => callP vm gp fip
  | .SLIDE => do
    -- q = 0 moves nothing but is a collection point all the same (repo fix 814fea8: a zero-parameter self tail loop whose body is one
    -- expression executes no other SLIDE / RET and ran out of memory with bounded live data)
    if ins.w0 == 0 then gcRun else
    set (← liftE (slideP (← get) ins.w0 ins.w1))
    gcRun
  | .CLEAR_STACK => modify fun vm => clearStackP vm ins.w0
  | .RET | .RETHROW => do
    set (← liftE (retP (← get)))
    gcRun
    if op == .RETHROW then modify fun vm => { vm with running := 2 }
  | .LINE => modify fun vm => { vm with line := ins.w0 }
  | .BUILD_IN => buildIn ins.w0 orc
  | .COPYGLOB => do pushAddr (← get).gp
  | .ALLOC => do
    allocLoop ins.w0
  | .REWRITE => do
    let (gp, fip) ← getFunc (← rdAddr sp)
    let d ← rdAddr (sp - ins.w0)
    let _ ← getFunc d
    setObj d (.func gp fip)
    setSp (sp - 1)
    checkStack
  | .PUSH_PARAM => pushParams md.params.reverse
  | .PUSH_EXCEPT => do pushAddr (← alloc (.int (BitVec.ofNat 32 (← get).exception)))
  | .UNHANDLED_EXCEPTION => do
    let name := match (← get).exception with
      | 1 => "division_by_zero" | 2 => "wrong_array_size" | 3 => "index_out_of_bounds" | 4 => "invalid_domain" | 5 => "overflow"
      | 6 => "underflow" | 7 => "inexact" | 8 => "nil_pointer" | 9 => "ffi_fail" | _ => "unknown_exception"
    emit (bytesOf s!"unhandled {name} exception\n")
    modify fun vm => { vm with running := 3 }
  | .HALT => modify fun vm => { vm with running := 0 }
  | _ => crash "opcode not modelled"

/-- one iteration of the `vm_execute` loop -/
def step (md : Module) (orc : Oracle) : M Unit := do
  let vm ← get
  match md.code[vm.ip]? with
  | none => crash "instruction fetch outside the code array"
  | some ins =>
    set { vm with ip := vm.ip + 1 }
    exec md ins orc
    let vm ← get
    if vm.running == 2 then
      match excHandler md.exctab md.excCount (vm.ip - 1) with
      | some h => set { vm with ip := h, running := 1 }
      | none => crash "assert: no exception table entry"

/-- `vm_print_stack_trace` -/
def stackTraceText (vm : Vm) : List UInt8 :=
  let rec go (fuel : Nat) (fp : Int) (acc : List UInt8) : List UInt8 :=
    match fuel with
    | 0 => acc
    | fuel+1 =>
      if fp > 0 then
        let rd (i : Int) : Slot := if i < 0 then .unknown else vm.stack[i.toNat]?.getD .unknown
        let line := (rd (fp - 3)).asAddr
        let ip := (rd fp).asAddr
        go fuel (rd (fp - 1)).asInt (acc ++ (s!"called from line {line} ip:{ip} fp:{fp}\n").toUTF8.toList)
      else acc
  go (vm.stackSize + 1) vm.fp []

/-- what `vm_execute` prints after the loop when the run ended in VM_ERROR -/
def errorEpilogue (vm : Vm) : Vm :=
  if vm.running == 3 then { vm with out := vm.out ++ (vmPrintText vm "VM_ERROR" ++ stackTraceText vm).toArray } else vm

/-- what `vm_execute` does after the loop when the run ended in VM_HALT: the result object is copied out and
(since the `fix:` commit 2088ed3) its slot is popped; returns the address of the result object -/
def haltEpilogue (vm : Vm) : Vm := if vm.running == 0 then { vm with sp := vm.sp - 1 } else vm

/-- what `nev_execute` does after a call on an ALREADY initialised machine that did not end in VM_HALT (unhandled exception,
failed assert): the machine's stack pointer is put back to where the call found it (since the `fix:` commit dd988fe; the
pinned code left one slot per failed call: the callee's RETHROW returns into the stub like RET, with a result slot) -/
def failEpilogue (wasInitialized : Bool) (sp0 : Int) (vm : Vm) : Vm :=
  if wasInitialized && vm.running != 0 then { vm with sp := sp0 } else vm

/-- `nev_execute` entry logic: first call starts at 0, later ones at the entry stub -/
def beginExecute (md : Module) (vm : Vm) : Vm :=
  if vm.initialized then { vm with ip := md.codeEntry, running := 1 }
  else { vm with ip := 0, initialized := true, running := 1 }

end Never.Vm
