import NeverModel.Lemmas.VmIp
set_option linter.unusedSimpArgs false
set_option linter.unusedVariables false
/-! per-opcode: the handler leaves `ip` alone and leaves the running state only by raising or stopping (generated list) -/
namespace Never.Vm
open Never Never.Num

set_option maxRecDepth 8000 in
theorem kipop_INT (md : Module) (ins : Instr) (orc : Oracle) (h : ins.op = .INT) : KeepsIp (exec md ins orc) := by exec_kip h

set_option maxRecDepth 8000 in
theorem kipop_LONG (md : Module) (ins : Instr) (orc : Oracle) (h : ins.op = .LONG) : KeepsIp (exec md ins orc) := by exec_kip h

set_option maxRecDepth 8000 in
theorem kipop_FLOAT (md : Module) (ins : Instr) (orc : Oracle) (h : ins.op = .FLOAT) : KeepsIp (exec md ins orc) := by exec_kip h

set_option maxRecDepth 8000 in
theorem kipop_DOUBLE (md : Module) (ins : Instr) (orc : Oracle) (h : ins.op = .DOUBLE) : KeepsIp (exec md ins orc) := by exec_kip h

set_option maxRecDepth 8000 in
theorem kipop_CHAR (md : Module) (ins : Instr) (orc : Oracle) (h : ins.op = .CHAR) : KeepsIp (exec md ins orc) := by exec_kip h

set_option maxRecDepth 8000 in
theorem kipop_STRING (md : Module) (ins : Instr) (orc : Oracle) (h : ins.op = .STRING) : KeepsIp (exec md ins orc) := by exec_kip h

set_option maxRecDepth 8000 in
theorem kipop_C_NULL (md : Module) (ins : Instr) (orc : Oracle) (h : ins.op = .C_NULL) : KeepsIp (exec md ins orc) := by exec_kip h

set_option maxRecDepth 8000 in
theorem kipop_ID_TOP (md : Module) (ins : Instr) (orc : Oracle) (h : ins.op = .ID_TOP) : KeepsIp (exec md ins orc) := by exec_kip h

set_option maxRecDepth 8000 in
theorem kipop_ID_LOCAL (md : Module) (ins : Instr) (orc : Oracle) (h : ins.op = .ID_LOCAL) : KeepsIp (exec md ins orc) := by exec_kip h

set_option maxRecDepth 8000 in
theorem kipop_ID_DIM_LOCAL (md : Module) (ins : Instr) (orc : Oracle) (h : ins.op = .ID_DIM_LOCAL) : KeepsIp (exec md ins orc) := by exec_kip h

set_option maxRecDepth 8000 in
theorem kipop_ID_DIM_SLICE (md : Module) (ins : Instr) (orc : Oracle) (h : ins.op = .ID_DIM_SLICE) : KeepsIp (exec md ins orc) := by exec_kip h

set_option maxRecDepth 8000 in
theorem kipop_ID_GLOBAL (md : Module) (ins : Instr) (orc : Oracle) (h : ins.op = .ID_GLOBAL) : KeepsIp (exec md ins orc) := by exec_kip h

set_option maxRecDepth 8000 in
theorem kipop_OP_DUP_INT (md : Module) (ins : Instr) (orc : Oracle) (h : ins.op = .OP_DUP_INT) : KeepsIp (exec md ins orc) := by exec_kip h

set_option maxRecDepth 8000 in
theorem kipop_COPYGLOB (md : Module) (ins : Instr) (orc : Oracle) (h : ins.op = .COPYGLOB) : KeepsIp (exec md ins orc) := by exec_kip h

set_option maxRecDepth 8000 in
theorem kipop_NIL_RECORD_REF (md : Module) (ins : Instr) (orc : Oracle) (h : ins.op = .NIL_RECORD_REF) : KeepsIp (exec md ins orc) := by exec_kip h

set_option maxRecDepth 8000 in
theorem kipop_PUSH_EXCEPT (md : Module) (ins : Instr) (orc : Oracle) (h : ins.op = .PUSH_EXCEPT) : KeepsIp (exec md ins orc) := by exec_kip h

set_option maxRecDepth 8000 in
theorem kipop_VEC_DEREF (md : Module) (ins : Instr) (orc : Oracle) (h : ins.op = .VEC_DEREF) : KeepsIp (exec md ins orc) := by exec_kip h

set_option maxRecDepth 8000 in
theorem kipop_VECREF_VEC_DEREF (md : Module) (ins : Instr) (orc : Oracle) (h : ins.op = .VECREF_VEC_DEREF) : KeepsIp (exec md ins orc) := by exec_kip h

set_option maxRecDepth 8000 in
theorem kipop_DUP (md : Module) (ins : Instr) (orc : Oracle) (h : ins.op = .DUP) : KeepsIp (exec md ins orc) := by exec_kip h

set_option maxRecDepth 8000 in
theorem kipop_ID_FUNC_ADDR (md : Module) (ins : Instr) (orc : Oracle) (h : ins.op = .ID_FUNC_ADDR) : KeepsIp (exec md ins orc) := by exec_kip h

set_option maxRecDepth 8000 in
theorem kipop_ID_FUNC_ENTRY (md : Module) (ins : Instr) (orc : Oracle) (h : ins.op = .ID_FUNC_ENTRY) : KeepsIp (exec md ins orc) := by exec_kip h

set_option maxRecDepth 8000 in
theorem kipop_ENUMTYPE_RECORD_TO_INT (md : Module) (ins : Instr) (orc : Oracle) (h : ins.op = .ENUMTYPE_RECORD_TO_INT) : KeepsIp (exec md ins orc) := by exec_kip h

end Never.Vm
