import NeverModel.Lemmas.VmFoot
import NeverModel.Lemmas.VmEffOpsF
set_option linter.unusedSimpArgs false
set_option linter.unusedVariables false
/-! write footprint of the opcode families and of the opcodes whose operand count depends on an instruction operand -/
namespace Never.Vm
open Never Never.Num

theorem FootAt.congr_lo {α} {s lo lo' : Int} {f : M α} (h : FootAt s lo' f) (hl : lo ≤ lo') : FootAt s lo f :=
  fun vm a vm' hs hr j hj => h vm a vm' hs hr j (by omega)

theorem foot_execBin (ty : NTy) (bop : BinOp) (s : Int) : FootAt s (s - 1) (execBin ty bop) := by unfold execBin; foot
theorem foot_execUn (ty : NTy) (uop : UnOp) (s : Int) : FootAt s s (execUn ty uop) := by unfold execUn; foot
theorem foot_execConv (src dst : NTy) (s : Int) : FootAt s s (execConv src dst) := by unfold execConv; foot

set_option maxRecDepth 8000 in
set_option maxHeartbeats 1000000 in
theorem foot_nilCmp (md : Module) (ins : Instr) (orc : Oracle) (s : Int) (k : Nat) (nl ng : Bool)
    (hb : binOpOf ins.op = none) (hu : unOpOf ins.op = none) (hc : convOf ins.op = none)
    (h : nilCmpOf ins.op = some (k, nl, ng)) : FootAt s (s - 1) (exec md ins orc) := by
  unfold exec
  simp only [hb, hu, hc, h]
  foot

set_option maxRecDepth 8000 in
set_option maxHeartbeats 1000000 in
theorem foot_strAdd (md : Module) (ins : Instr) (orc : Oracle) (s : Int) (ty : NTy) (sl : Bool)
    (hb : binOpOf ins.op = none) (hu : unOpOf ins.op = none) (hc : convOf ins.op = none) (hn : nilCmpOf ins.op = none)
    (h : strAddOf ins.op = some (ty, sl)) : FootAt s (s - 1) (exec md ins orc) := by
  unfold exec
  simp only [hb, hu, hc, hn, h]
  foot

set_option maxRecDepth 8000 in
set_option maxHeartbeats 2000000 in
theorem foot_arrOp (md : Module) (ins : Instr) (orc : Oracle) (s : Int) (ty : NTy) (kind : Nat)
    (hb : binOpOf ins.op = none) (hu : unOpOf ins.op = none) (hc : convOf ins.op = none) (hn : nilCmpOf ins.op = none)
    (hs : strAddOf ins.op = none)
    (h : arrOpOf ins.op = some (ty, kind)) : FootAt s (if kind = 0 then s else s - 1) (exec md ins orc) := by
  unfold exec
  simp only [hb, hu, hc, hn, hs, h]
  refine FootAt.getSp_bind ?_
  split
  · rename_i hk; subst hk
    split
    · foot
    all_goals (first | (rename_i hx; exact absurd rfl hx) | (rename_i h0 _ _ _; exact absurd rfl h0) | (rename_i hx; simp at hx))
  · rename_i hk
    split
    · exact absurd rfl hk
    all_goals foot

set_option maxHeartbeats 1000000 in
theorem foot_SLICE_RANGE (md : Module) (ins : Instr) (orc : Oracle) (s : Int) (h : ins.op = .SLICE_RANGE) : FootAt s (s - 1) (exec md ins orc) := by
  exec_fsel h
  refine FootAt.keeps_bind (by keeps) (by footk) (fun _ => ?_)
  refine FootAt.keeps_bind (by keeps) (by footk) (fun _ => ?_)
  refine FootAt.keeps_bind (by keeps) (by footk) (fun _ => ?_)
  refine FootAt.keeps_bind (by keeps) (by footk) (fun _ => ?_)
  split
  · foot
  · refine FootAt.keeps_bind (by keeps) (by footk) (fun _ => ?_)
    refine FootAt.bool_bind (keeps_composeRanges _ _ _ _ _) (by footk) ?_ ?_
    · simp only [if_true]; foot
    · intro vm b vm' hr
      simp only [Bool.false_eq_true, if_false] at hr
      exact ((run_pure_ok _ _ _ _).mp hr).2

set_option maxHeartbeats 1000000 in
theorem foot_SLICE_SLICE (md : Module) (ins : Instr) (orc : Oracle) (s : Int) (h : ins.op = .SLICE_SLICE) : FootAt s (s - 1) (exec md ins orc) := by
  exec_fsel h
  refine FootAt.keeps_bind (by keeps) (by footk) (fun _ => ?_)
  refine FootAt.keeps_bind (by keeps) (by footk) (fun _ => ?_)
  refine FootAt.keeps_bind (by keeps) (by footk) (fun _ => ?_)
  refine FootAt.keeps_bind (by keeps) (by footk) (fun _ => ?_)
  split
  · foot
  · refine FootAt.keeps_bind (by keeps) (by footk) (fun _ => ?_)
    refine FootAt.keeps_bind (by keeps) (by footk) (fun _ => ?_)
    split
    · foot
    · refine FootAt.keeps_bind (by keeps) (by footk) (fun _ => ?_)
      refine FootAt.bool_bind (keeps_composeRanges _ _ _ _ _) (by footk) ?_ ?_
      · simp only [if_true]; foot
      · intro vm b vm' hr
        simp only [Bool.false_eq_true, if_false] at hr
        exact ((run_pure_ok _ _ _ _).mp hr).2

set_option maxHeartbeats 1000000 in
set_option maxRecDepth 8000 in
theorem foot_MK_RANGE (md : Module) (ins : Instr) (orc : Oracle) (s : Int) (h : ins.op = .MK_RANGE) :
    FootAt s (s - (2 * ins.w0 : Nat) + 1) (exec md ins orc) := by
  exec_fsel h
  refine FootAt.keeps_bind (by keeps) (by footk) (fun _ => ?_)
  refine FootAt.mov_bind (popAddrs_mov _ _) (FootAt.of_foot (by footk)) (fun _ => ?_)
  foot

set_option maxHeartbeats 1000000 in
set_option maxRecDepth 8000 in
theorem foot_RECORD (md : Module) (ins : Instr) (orc : Oracle) (s : Int) (h : ins.op = .RECORD) :
    FootAt s (s - (ins.w0 : Nat) + 1) (exec md ins orc) := by
  exec_fsel h
  refine FootAt.keeps_bind (by keeps) (by footk) (fun _ => ?_)
  refine FootAt.mov_bind (popAddrs_mov _ _) (FootAt.of_foot (by footk)) (fun _ => ?_)
  foot

set_option maxHeartbeats 1000000 in
set_option maxRecDepth 8000 in
theorem foot_GLOBAL_VEC (md : Module) (ins : Instr) (orc : Oracle) (s : Int) (h : ins.op = .GLOBAL_VEC) :
    FootAt s (s - (ins.w0 : Nat) + 1) (exec md ins orc) := by
  exec_fsel h
  refine FootAt.keeps_bind (by keeps) (by footk) (fun _ => ?_)
  refine FootAt.mov_bind (popAddrs_mov _ _) (FootAt.of_foot (by footk)) (fun _ => ?_)
  refine FootAt.keeps_bind (keeps_setObj _ _) (Foot.of_nowr (nowr_setObj _ _)) (fun _ => ?_)
  exact FootAt.pushAddr _ _ _ (by omega)

theorem foot_ALLOC (md : Module) (ins : Instr) (orc : Oracle) (s : Int) (h : ins.op = .ALLOC) :
    FootAt s (s + 1) (exec md ins orc) := by
  exec_fsel h
  exact allocLoop_foot _ _ _ (by omega)

set_option maxHeartbeats 1000000 in
set_option maxRecDepth 8000 in
theorem foot_mkArray (md : Module) (ins : Instr) (orc : Oracle) (s : Int) (dflt : Obj)
    (hb : binOpOf ins.op = none) (hu : unOpOf ins.op = none) (hc : convOf ins.op = none) (hn : nilCmpOf ins.op = none)
    (hs : strAddOf ins.op = none) (ha : arrOpOf ins.op = none)
    (h : mkArrayElem ins.op = some dflt) : FootAt s (s - (ins.w0 : Nat) + 1) (exec md ins orc) := by
  unfold exec
  simp only [hb, hu, hc, hn, hs, ha, h]
  refine FootAt.getSp_bind ?_
  refine FootAt.popOpt_bind (popExts_spec _ _) (by footk) ?_ (fun exts => ?_)
  · intro vm b vm' hr; exact ((run_pure_ok _ _ _ _).mp hr).2
  · dsimp only
    foot

set_option maxHeartbeats 1000000 in
set_option maxRecDepth 8000 in
theorem foot_ARRAY_DEREF (md : Module) (ins : Instr) (orc : Oracle) (s : Int) (h : ins.op = .ARRAY_DEREF ∨ ins.op = .ARRAYREF_DEREF) :
    FootAt s (s - (ins.w0 : Nat)) (exec md ins orc) := by
  rcases h with h | h
  all_goals
    exec_fsel h
    refine FootAt.popOpt_bind (popIndices_spec _ _) (by footk) ?_ (fun idx => ?_)
    · intro vm b vm' hr; exact ((run_pure_ok _ _ _ _).mp hr).2
    · dsimp only
      foot

set_option maxHeartbeats 1000000 in
set_option maxRecDepth 8000 in
theorem foot_SLICE_DEREF (md : Module) (ins : Instr) (orc : Oracle) (s : Int) (h : ins.op = .SLICE_DEREF) :
    FootAt s (s - (ins.w0 : Nat)) (exec md ins orc) := by
  exec_fsel h
  refine FootAt.popOpt_bind (popIndices_spec _ _) (by footk) ?_ (fun idx => ?_)
  · intro vm b vm' hr; exact ((run_pure_ok _ _ _ _).mp hr).2
  · dsimp only
    foot

set_option maxHeartbeats 1000000 in
set_option maxRecDepth 8000 in
theorem foot_RANGE_DEREF (md : Module) (ins : Instr) (orc : Oracle) (s : Int) (h : ins.op = .RANGE_DEREF) :
    FootAt s (s - (ins.w0 : Nat)) (exec md ins orc) := by
  exec_fsel h
  refine FootAt.keeps_bind (by keeps) (by footk) (fun _ => ?_)
  refine FootAt.keeps_bind (by keeps) (by footk) (fun _ => ?_)
  split
  · foot
  · refine FootAt.keeps_bind (by keeps) (by footk) (fun _ => ?_)
    refine FootAt.boolmov_bind (n := ins.w0) (fun vm r vm' hs hr => rangeDerefLoop_spec _ _ _ _ _ vm r vm' hs hr) (by footk) ?_ ?_
    · simp only [if_true]; foot
    · intro vm b vm' hr
      simp only [Bool.false_eq_true, if_false] at hr
      exact ((run_pure_ok _ _ _ _).mp hr).2

set_option maxHeartbeats 1000000 in
set_option maxRecDepth 8000 in
theorem foot_RECORD_UNPACK (md : Module) (ins : Instr) (orc : Oracle) (s : Int) (h : ins.op = .RECORD_UNPACK) :
    FootAt s s (exec md ins orc) := by
  exec_fsel h
  refine FootAt.keeps_bind (by keeps) (by footk) (fun _ => ?_)
  refine FootAt.keeps_bind (by keeps) (by footk) (fun fs => ?_)
  split
  · foot
  · refine FootAt.setSp_then _ _ _ (fun _ => ?_)
    refine FootAt.of_foot (Foot.bind (by footk) (fun _ => foot_unpackLoop _ _ _ _ (by omega) _))

theorem nowr_appendTail (array obj : Nat) :
    NoWr (do let vm ← get
             match vm.gc.appendArrElem array obj with
             | some g => set { vm with gc := g }
             | none => (crash "assert: append to a non 1-dimensional array" : M PUnit)) := by
  refine NoWr.get_bind _ ?_
  intro vm a vm' hr
  split at hr
  · exact nowr_set_of _ vm (by rfl) _ _ hr
  · exact nowr_crash _ _ _ _ hr

set_option maxHeartbeats 1000000 in
set_option maxRecDepth 8000 in
theorem foot_ARRAY_APPEND (md : Module) (ins : Instr) (orc : Oracle) (s : Int) (h : ins.op = .ARRAY_APPEND) :
    FootAt s s (exec md ins orc) := by
  exec_fsel h
  refine FootAt.keeps_bind (by keeps) (by footk) (fun _ => ?_)
  refine FootAt.keeps_bind (by keeps) (by footk) (fun _ => ?_)
  split
  · foot
  · refine FootAt.keeps_bind (by keeps) (by footk) (fun _ => ?_)
    refine FootAt.setSp_then _ _ _ (fun _ => ?_)
    exact FootAt.of_foot (Foot.of_nowr (nowr_appendTail _ _))

/-- operands popped by build-in `id` (pow and assertf take two, read takes none) -/
def buildInPops (id : Nat) : Int := if id = 7 ∨ id = 22 then 2 else if id = 12 then 0 else 1

set_option maxRecDepth 16000 in
set_option maxHeartbeats 8000000 in
theorem buildIn_foot (id : Nat) (orc : Oracle) (s : Int) : FootAt s (s - buildInPops id + 1) (buildIn id orc) := by
  unfold buildIn
  refine FootAt.getSp_bind ?_
  refine FootAt.keeps_bind (by keeps) (by footk) (fun top => ?_)
  dsimp only
  split
  all_goals (first | (simp only [buildInPops]; foot) | (simp [buildInPops]; foot) | foot)

theorem foot_BUILD_IN (md : Module) (ins : Instr) (orc : Oracle) (s : Int) (h : ins.op = .BUILD_IN) :
    FootAt s (s - buildInPops ins.w0 + 1) (exec md ins orc) := by
  unfold exec
  simp only [h, binOpOf, unOpOf, convOf, nilCmpOf, strAddOf, arrOpOf, mkArrayElem]
  refine FootAt.getSp_bind ?_
  exact buildIn_foot _ _ _

end Never.Vm
