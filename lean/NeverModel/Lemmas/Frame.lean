import NeverModel.Model.Vm
set_option linter.unusedSimpArgs false
set_option linter.unusedVariables false
/-! lemmas on the pure frame operations of M-VM (`rdP`, `wrP`, `markP`, `retP`, `slideP`, …) -/
namespace Never.Vm
open Never

/-- the machine's stack array has the configured size -/
def StackOk (vm : Vm) : Prop := vm.stack.size = vm.stackSize

theorem wrP_ok {vm : Vm} {i : Int} {s : Slot} (h0 : 0 ≤ i) (h1 : i < vm.stackSize) :
    wrP vm i s = .ok { vm with stack := vm.stack.setIfInBounds i.toNat s } := by
  unfold wrP; simp; exact ⟨h0, h1⟩

theorem wrP_oob {vm : Vm} {i : Int} {s : Slot} (h : i < 0 ∨ i ≥ vm.stackSize) :
    wrP vm i s = .error (.crash "stack write out of bounds") := by
  unfold wrP; simp [h]

theorem rdP_ok {vm : Vm} {i : Int} (h0 : 0 ≤ i) (h1 : i < vm.stackSize) :
    rdP vm i = .ok (vm.stack[i.toNat]?.getD .unknown) := by
  unfold rdP; simp; exact ⟨h0, h1⟩

theorem slot_set (vm : Vm) (hs : StackOk vm) (i j : Int) (s : Slot) (h0 : 0 ≤ i) (h1 : i < vm.stackSize) :
    slot { vm with stack := vm.stack.setIfInBounds i.toNat s } j = if j = i then s else slot vm j := by
  unfold slot
  by_cases hj : j < 0
  · have : j ≠ i := by omega
    simp [hj, this]
  · simp only [hj, if_false]
    by_cases hji : j = i
    · subst hji
      have : j.toNat < vm.stack.size := by rw [hs]; omega
      simp [Array.getElem?_setIfInBounds, this]
    · have : i.toNat ≠ j.toNat := by omega
      simp [hji, Array.getElem?_setIfInBounds, this]

theorem rdP_slot {vm : Vm} {i : Int} (h0 : 0 ≤ i) (h1 : i < vm.stackSize) : rdP vm i = .ok (slot vm i) := by
  rw [rdP_ok h0 h1]; unfold slot; simp; intro h; omega

end Never.Vm

namespace Never.Vm
open Never

theorem checkP_ok {vm : Vm} (h : vm.sp < vm.stackSize) : checkP vm = .ok vm := by
  unfold checkP; simp; omega

theorem checkP_exit {vm : Vm} (h : vm.sp ≥ vm.stackSize) : ∃ t, checkP vm = .error (.exit "stack too large" t) := by
  unfold checkP; simp [h]

/-- effect of MARK when the five words fit -/
structure MarkPost (vm vm' : Vm) (retAddr : Nat) : Prop where
  sp : vm'.sp = vm.sp + 5
  fp : vm'.fp = vm.sp + 5
  pp : vm'.pp = vm.pp
  gp : vm'.gp = vm.gp
  ip : vm'.ip = vm.ip
  size : vm'.stackSize = vm.stackSize
  ok : StackOk vm'
  w1 : slot vm' (vm.sp + 1) = .stk vm.pp
  w2 : slot vm' (vm.sp + 2) = .ip vm.line
  w3 : slot vm' (vm.sp + 3) = .addr vm.gp
  w4 : slot vm' (vm.sp + 4) = .stk vm.fp
  w5 : slot vm' (vm.sp + 5) = .ip retAddr
  below : ∀ j, j ≤ vm.sp → slot vm' j = slot vm j
  gc : vm'.gc = vm.gc
  run : vm'.running = vm.running ∧ vm'.exception = vm.exception ∧ vm'.out = vm.out ∧ vm'.line = vm.line

theorem stackOk_set {vm : Vm} (hs : StackOk vm) (i : Nat) (s : Slot) :
    StackOk { vm with stack := vm.stack.setIfInBounds i s } := by
  unfold StackOk at *; simpa using hs

/-- one in-bounds write: everything but that slot is unchanged -/
structure WrPost (vm vm' : Vm) (i : Int) (s : Slot) : Prop where
  sp : vm'.sp = vm.sp
  fp : vm'.fp = vm.fp
  pp : vm'.pp = vm.pp
  gp : vm'.gp = vm.gp
  ip : vm'.ip = vm.ip
  size : vm'.stackSize = vm.stackSize
  ok : StackOk vm'
  slots : ∀ j, slot vm' j = if j = i then s else slot vm j
  gc : vm'.gc = vm.gc
  run : vm'.running = vm.running ∧ vm'.exception = vm.exception ∧ vm'.out = vm.out ∧ vm'.line = vm.line

theorem wrP_post (vm : Vm) (hs : StackOk vm) (i : Int) (s : Slot) (h0 : 0 ≤ i) (h1 : i < vm.stackSize) :
    ∃ vm', wrP vm i s = .ok vm' ∧ WrPost vm vm' i s :=
  ⟨_, wrP_ok h0 h1, rfl, rfl, rfl, rfl, rfl, rfl, stackOk_set hs _ _, fun j => slot_set vm hs i j s h0 h1, rfl, ⟨rfl, rfl, rfl, rfl⟩⟩

theorem markP_spec (vm : Vm) (retAddr : Nat) (hs : StackOk vm) (h0 : -1 ≤ vm.sp) (h1 : vm.sp + 5 < vm.stackSize) :
    ∃ vm', markP vm retAddr = .ok vm' ∧ MarkPost vm vm' retAddr := by
  let v0 : Vm := { vm with sp := vm.sp + 5 }
  have hck := checkP_ok (vm := v0) (by show vm.sp + 5 < vm.stackSize; exact h1)
  have hs0 : StackOk v0 := hs
  obtain ⟨v5, e5, p5⟩ := wrP_post v0 hs0 (vm.sp + 5) (.ip retAddr) (by omega) h1
  obtain ⟨v4, e4, p4⟩ := wrP_post v5 p5.ok (vm.sp + 4) (.stk vm.fp) (by omega) (by rw [p5.size]; show vm.sp + 4 < vm.stackSize; omega)
  obtain ⟨v3, e3, p3⟩ := wrP_post v4 p4.ok (vm.sp + 3) (.addr vm.gp) (by omega) (by rw [p4.size, p5.size]; show vm.sp + 3 < vm.stackSize; omega)
  obtain ⟨v2, e2, p2⟩ := wrP_post v3 p3.ok (vm.sp + 2) (.ip vm.line) (by omega) (by rw [p3.size, p4.size, p5.size]; show vm.sp + 2 < vm.stackSize; omega)
  obtain ⟨v1, e1, p1⟩ := wrP_post v2 p2.ok (vm.sp + 1) (.stk vm.pp) (by omega) (by rw [p2.size, p3.size, p4.size, p5.size]; show vm.sp + 1 < vm.stackSize; omega)
  have hsz : v1.stackSize = vm.stackSize := by rw [p1.size, p2.size, p3.size, p4.size, p5.size]
  refine ⟨{ v1 with fp := vm.sp + 5 }, ?_, ?_⟩
  · unfold markP
    dsimp only [bind, Except.bind]
    rw [hck]; dsimp only
    rw [e5]; dsimp only
    rw [e4]; dsimp only
    rw [e3]; dsimp only
    rw [e2]; dsimp only
    rw [e1]
  · have kk : ∀ j, slot ({ v1 with fp := vm.sp + 5 } : Vm) j = slot v1 j := fun j => rfl
    have s0 : ∀ j, slot v0 j = slot vm j := fun j => rfl
    have all : ∀ j, slot v1 j = if j = vm.sp + 1 then .stk vm.pp else if j = vm.sp + 2 then .ip vm.line else
        if j = vm.sp + 3 then .addr vm.gp else if j = vm.sp + 4 then .stk vm.fp else if j = vm.sp + 5 then .ip retAddr else slot vm j := by
      intro j; rw [p1.slots, p2.slots, p3.slots, p4.slots, p5.slots, s0]
    have hsp : v1.sp = vm.sp + 5 := by rw [p1.sp, p2.sp, p3.sp, p4.sp, p5.sp]
    refine ⟨hsp, rfl, ?_, ?_, ?_, hsz, p1.ok, ?_, ?_, ?_, ?_, ?_, ?_, ?_, ?_⟩
    · show v1.pp = vm.pp; rw [p1.pp, p2.pp, p3.pp, p4.pp, p5.pp]
    · show v1.gp = vm.gp; rw [p1.gp, p2.gp, p3.gp, p4.gp, p5.gp]
    · show v1.ip = vm.ip; rw [p1.ip, p2.ip, p3.ip, p4.ip, p5.ip]
    · rw [kk, all]; simp
    · rw [kk, all]; simp
    · rw [kk, all]; simp
    · rw [kk, all]; simp
    · rw [kk, all]; simp
    · intro j hj
      rw [kk, all]
      have a1 : j ≠ vm.sp + 1 := by omega
      have a2 : j ≠ vm.sp + 2 := by omega
      have a3 : j ≠ vm.sp + 3 := by omega
      have a4 : j ≠ vm.sp + 4 := by omega
      have a5 : j ≠ vm.sp + 5 := by omega
      simp [a1, a2, a3, a4, a5]
    · show v1.gc = vm.gc; rw [p1.gc, p2.gc, p3.gc, p4.gc, p5.gc]
    · refine ⟨?_, ?_, ?_, ?_⟩
      · show v1.running = vm.running; rw [p1.run.1, p2.run.1, p3.run.1, p4.run.1, p5.run.1]
      · show v1.exception = vm.exception; rw [p1.run.2.1, p2.run.2.1, p3.run.2.1, p4.run.2.1, p5.run.2.1]
      · show v1.out = vm.out; rw [p1.run.2.2.1, p2.run.2.2.1, p3.run.2.2.1, p4.run.2.2.1, p5.run.2.2.1]
      · show v1.line = vm.line; rw [p1.run.2.2.2, p2.run.2.2.2, p3.run.2.2.2, p4.run.2.2.2, p5.run.2.2.2]

/-- MARK on a stack that is too small: reported BEFORE any write (since the `fix:` commit b857a09) -/
theorem markP_overflow (vm : Vm) (retAddr : Nat) (h : vm.sp + 5 ≥ vm.stackSize) :
    ∃ t, markP vm retAddr = .error (.exit "stack too large" t) := by
  obtain ⟨t, ht⟩ := checkP_exit (vm := { vm with sp := vm.sp + 5 }) (by show vm.sp + 5 ≥ vm.stackSize; exact h)
  refine ⟨t, ?_⟩
  unfold markP
  dsimp only [bind, Except.bind]
  rw [ht]

/-- the pinned MARK did not report a stack that is too small: its first write already landed outside -/
theorem markPinnedP_overflow (vm : Vm) (retAddr : Nat) (h : vm.sp + 5 ≥ vm.stackSize) :
    markPinnedP vm retAddr = .error (.crash "stack write out of bounds") := by
  unfold markPinnedP
  dsimp only [bind, Except.bind]
  rw [wrP_oob (vm := vm) (i := vm.sp + 5) (s := .ip retAddr) (Or.inr h)]

/-- effect of RET (before the collection it triggers) -/
structure RetPost (vm vm' : Vm) : Prop where
  sp : vm'.sp = vm.fp - 4
  fp : vm'.fp = (slot vm (vm.fp - 1)).asInt
  pp : vm'.pp = (slot vm (vm.fp - 4)).asInt
  gp : vm'.gp = (slot vm (vm.fp - 2)).asAddr
  ip : vm'.ip = (slot vm vm.fp).asAddr
  res : slot vm' (vm.fp - 4) = slot vm vm.sp
  other : ∀ j, j ≠ vm.fp - 4 → slot vm' j = slot vm j
  ok : StackOk vm'
  size : vm'.stackSize = vm.stackSize
  gc : vm'.gc = vm.gc

theorem retP_spec (vm : Vm) (hs : StackOk vm) (hfp : 4 ≤ vm.fp) (hfp' : vm.fp < vm.stackSize)
    (hsp0 : 0 ≤ vm.sp) (hsp : vm.sp < vm.stackSize) :
    ∃ vm', retP vm = .ok vm' ∧ RetPost vm vm' := by
  unfold retP
  dsimp only [bind, Except.bind]
  rw [rdP_slot (vm := vm) (i := vm.fp - 2) (by omega) (by omega)]; dsimp only
  rw [rdP_slot (vm := vm) (i := vm.fp) (by omega) hfp']; dsimp only
  rw [rdP_slot (vm := vm) (i := vm.fp - 4) (by omega) (by omega)]; dsimp only
  rw [rdP_slot (vm := vm) (i := vm.sp) hsp0 hsp]; dsimp only
  rw [wrP_ok (vm := vm) (i := vm.fp - 4) (s := slot vm vm.sp) (by omega) (by omega)]; dsimp only
  let v : Vm := { vm with stack := vm.stack.setIfInBounds (vm.fp - 4).toNat (slot vm vm.sp) }
  have sv : StackOk v := stackOk_set hs _ _
  have kv : ∀ j, slot v j = if j = vm.fp - 4 then slot vm vm.sp else slot vm j :=
    fun j => slot_set vm hs (vm.fp - 4) j _ (by omega) (by omega)
  have hr : rdP v (vm.fp - 1) = .ok (slot v (vm.fp - 1)) := rdP_slot (vm := v) (by omega) (by show vm.fp - 1 < vm.stackSize; omega)
  rw [hr]; dsimp only
  refine ⟨_, rfl, ?_⟩
  have h1 : slot v (vm.fp - 1) = slot vm (vm.fp - 1) := by
    have hne : vm.fp - 1 ≠ vm.fp - 4 := by omega
    rw [kv, if_neg hne]
  refine ⟨rfl, by simp [h1], rfl, rfl, rfl, ?_, ?_, sv, rfl, rfl⟩
  · show slot v (vm.fp - 4) = _; rw [kv]; simp
  · intro j hj; show slot v j = _; rw [kv]; simp [hj]

/-- PUSH of an address: in bounds or reported, never a wild write -/
theorem pushP_spec (vm : Vm) (a : Nat) (hs : StackOk vm) (h0 : -1 ≤ vm.sp) :
    (vm.sp + 1 ≥ vm.stackSize → ∃ t, pushP vm a = .error (.exit "stack too large" t)) ∧
    (vm.sp + 1 < vm.stackSize → ∃ vm', pushP vm a = .ok vm' ∧ vm'.sp = vm.sp + 1 ∧ slot vm' (vm.sp + 1) = .addr a ∧
        (∀ j, j ≠ vm.sp + 1 → slot vm' j = slot vm j) ∧ vm'.fp = vm.fp ∧ vm'.pp = vm.pp ∧ StackOk vm' ∧ vm'.stackSize = vm.stackSize) := by
  constructor
  · intro h
    unfold pushP
    obtain ⟨t, ht⟩ := checkP_exit (vm := { vm with sp := vm.sp + 1 }) (by show vm.sp + 1 ≥ vm.stackSize; exact h)
    exact ⟨t, by dsimp only [bind, Except.bind]; rw [ht]⟩
  · intro h
    unfold pushP
    have hc := checkP_ok (vm := { vm with sp := vm.sp + 1 }) (by show vm.sp + 1 < vm.stackSize; exact h)
    dsimp only [bind, Except.bind]
    rw [hc]; dsimp only
    let v : Vm := { vm with sp := vm.sp + 1 }
    have hw := wrP_ok (vm := v) (i := vm.sp + 1) (s := .addr a) (by omega) (by show vm.sp + 1 < vm.stackSize; exact h)
    have kv : ∀ j, slot ({ v with stack := v.stack.setIfInBounds (vm.sp + 1).toNat (.addr a) } : Vm) j = if j = vm.sp + 1 then .addr a else slot vm j := by
      intro j
      have := slot_set v hs (vm.sp + 1) j (.addr a) (by omega) (by show vm.sp + 1 < vm.stackSize; exact h)
      rw [this]; rfl
    refine ⟨_, hw, rfl, ?_, ?_, rfl, rfl, stackOk_set (vm := v) hs _ _, rfl⟩
    · rw [kv]; simp
    · intro j hj; rw [kv]; simp [hj]

end Never.Vm

namespace Never.Vm
open Never

structure SlidePost (vm vm' : Vm) (q n : Nat) : Prop where
  sp : vm'.sp = vm.sp + n
  fp : vm'.fp = vm.fp
  pp : vm'.pp = vm.pp
  gp : vm'.gp = vm.gp
  size : vm'.stackSize = vm.stackSize
  ok : StackOk vm'
  moved : ∀ i : Nat, i < n → slot vm' (vm.sp + 1 + i) = slot vm (vm.sp + 1 + i + q)
  below : ∀ j, j ≤ vm.sp → slot vm' j = slot vm j
  above : ∀ j, j > vm.sp + n → slot vm' j = slot vm j

theorem slideLoopP_spec (q : Nat) (hq : 0 < q) : ∀ (n : Nat) (vm : Vm), StackOk vm → -1 ≤ vm.sp →
    vm.sp + n + q < vm.stackSize → ∃ vm', slideLoopP q n vm = .ok vm' ∧ SlidePost vm vm' q n := by
  intro n
  induction n with
  | zero =>
    intro vm hs _ _
    exact ⟨vm, rfl, by simp, rfl, rfl, rfl, rfl, hs, by intro i hi; omega, fun _ _ => rfl, fun _ _ => rfl⟩
  | succ n ih =>
    intro vm hs h0 h1
    unfold slideLoopP
    dsimp only [bind, Except.bind]
    rw [rdP_slot (vm := vm) (i := vm.sp + 1 + q) (by omega) (by omega)]; dsimp only
    obtain ⟨v1, e1, p1⟩ := wrP_post { vm with sp := vm.sp + 1 } hs (vm.sp + 1) (slot vm (vm.sp + 1 + q)) (by omega) (by show vm.sp + 1 < vm.stackSize; omega)
    rw [e1]; dsimp only
    have hsp1 : v1.sp = vm.sp + 1 := p1.sp
    obtain ⟨v2, e2, p2⟩ := ih v1 p1.ok (by omega) (by rw [p1.size, hsp1]; show vm.sp + 1 + n + q < vm.stackSize; omega)
    refine ⟨v2, e2, ?_⟩
    have s1 : ∀ j, slot v1 j = if j = vm.sp + 1 then slot vm (vm.sp + 1 + q) else slot vm j := by
      intro j; rw [p1.slots]; rfl
    refine ⟨by rw [p2.sp, hsp1]; omega, by rw [p2.fp, p1.fp], by rw [p2.pp, p1.pp], by rw [p2.gp, p1.gp],
      by rw [p2.size, p1.size], p2.ok, ?_, ?_, ?_⟩
    · intro i hi
      cases i with
      | zero =>
        have h := p2.below (vm.sp + 1) (by omega)
        have e0 : vm.sp + 1 + ((0 : Nat) : Int) = vm.sp + 1 := by omega
        rw [e0, h, s1]; simp
      | succ i =>
        have hm := p2.moved i (by omega)
        rw [hsp1] at hm
        have e : vm.sp + 1 + ((i + 1 : Nat) : Int) = vm.sp + 1 + 1 + (i : Int) := by omega
        rw [e, hm, s1]
        have : vm.sp + 1 + 1 + (i : Int) + (q : Int) ≠ vm.sp + 1 := by omega
        rw [if_neg this]
    · intro j hj
      rw [p2.below j (by omega), s1]
      have : j ≠ vm.sp + 1 := by omega
      rw [if_neg this]
    · intro j hj
      rw [p2.above j (by rw [hsp1]; omega), s1]
      have : j ≠ vm.sp + 1 := by omega
      rw [if_neg this]

/-- SLIDE q m (m > 0, q > 0): the top m slots move down by q, sp drops by q -/
theorem slideP_spec (vm : Vm) (q m : Nat) (hs : StackOk vm) (hq : 0 < q) (hm : 0 < m)
    (hlo : -1 ≤ vm.sp - q - m) (hhi : vm.sp < vm.stackSize) :
    ∃ vm', slideP vm q m = .ok vm' ∧ vm'.sp = vm.sp - q ∧ vm'.fp = vm.fp ∧ vm'.pp = vm.pp ∧ vm'.gp = vm.gp ∧ StackOk vm' ∧
      vm'.stackSize = vm.stackSize ∧
      (∀ i : Nat, i < m → slot vm' (vm.sp - q - m + 1 + i) = slot vm (vm.sp - m + 1 + i)) ∧
      (∀ j, j ≤ vm.sp - q - m → slot vm' j = slot vm j) := by
  unfold slideP
  have hq' : (q == 0) = false := by simp; omega
  have hm' : (m == 0) = false := by simp; omega
  simp only [hq', hm', Bool.false_eq_true, if_false]
  obtain ⟨v, e, p⟩ := slideLoopP_spec q hq m { vm with sp := vm.sp - q - m } hs hlo (by show vm.sp - q - m + m + q < vm.stackSize; omega)
  refine ⟨v, e, by rw [p.sp]; show vm.sp - q - m + m = vm.sp - q; omega, p.fp, p.pp, p.gp, p.ok, p.size, ?_, ?_⟩
  · intro i hi
    have := p.moved i hi
    have e1 : (({ vm with sp := vm.sp - q - m } : Vm)).sp = vm.sp - q - m := rfl
    rw [e1] at this
    rw [this]
    show slot vm _ = slot vm _
    congr 1; omega
  · intro j hj
    exact p.below j hj

end Never.Vm
