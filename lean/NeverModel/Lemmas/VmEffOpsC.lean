import NeverModel.Lemmas.VmEffectLoops
set_option linter.unusedSimpArgs false
set_option linter.unusedVariables false
/-! per-opcode stack effects of `exec` (generated list of statements, each proved by the `eff` automation) -/
namespace Never.Vm
open Never Never.Num

set_option maxRecDepth 8000 in
theorem eff_OP_ASS_INT (md : Module) (ins : Instr) (orc : Oracle) (s : Int) (h : ins.op = .OP_ASS_INT) : EffAt s (-1) (exec md ins orc) := by exec_eff h

set_option maxRecDepth 8000 in
theorem eff_OP_ASS_LONG (md : Module) (ins : Instr) (orc : Oracle) (s : Int) (h : ins.op = .OP_ASS_LONG) : EffAt s (-1) (exec md ins orc) := by exec_eff h

set_option maxRecDepth 8000 in
theorem eff_OP_ASS_FLOAT (md : Module) (ins : Instr) (orc : Oracle) (s : Int) (h : ins.op = .OP_ASS_FLOAT) : EffAt s (-1) (exec md ins orc) := by exec_eff h

set_option maxRecDepth 8000 in
theorem eff_OP_ASS_DOUBLE (md : Module) (ins : Instr) (orc : Oracle) (s : Int) (h : ins.op = .OP_ASS_DOUBLE) : EffAt s (-1) (exec md ins orc) := by exec_eff h

set_option maxRecDepth 8000 in
theorem eff_OP_ASS_CHAR (md : Module) (ins : Instr) (orc : Oracle) (s : Int) (h : ins.op = .OP_ASS_CHAR) : EffAt s (-1) (exec md ins orc) := by exec_eff h

set_option maxRecDepth 8000 in
theorem eff_OP_ASS_STRING (md : Module) (ins : Instr) (orc : Oracle) (s : Int) (h : ins.op = .OP_ASS_STRING) : EffAt s (-1) (exec md ins orc) := by exec_eff h

set_option maxRecDepth 8000 in
theorem eff_OP_ASS_C_PTR (md : Module) (ins : Instr) (orc : Oracle) (s : Int) (h : ins.op = .OP_ASS_C_PTR) : EffAt s (-1) (exec md ins orc) := by exec_eff h

set_option maxRecDepth 8000 in
theorem eff_OP_ASS_ARRAY (md : Module) (ins : Instr) (orc : Oracle) (s : Int) (h : ins.op = .OP_ASS_ARRAY) : EffAt s (-1) (exec md ins orc) := by exec_eff h

set_option maxRecDepth 8000 in
theorem eff_OP_ASS_RECORD (md : Module) (ins : Instr) (orc : Oracle) (s : Int) (h : ins.op = .OP_ASS_RECORD) : EffAt s (-1) (exec md ins orc) := by exec_eff h

set_option maxRecDepth 8000 in
theorem eff_OP_ASS_FUNC (md : Module) (ins : Instr) (orc : Oracle) (s : Int) (h : ins.op = .OP_ASS_FUNC) : EffAt s (-1) (exec md ins orc) := by exec_eff h

set_option maxRecDepth 8000 in
theorem eff_OP_ASS_RECORD_NIL (md : Module) (ins : Instr) (orc : Oracle) (s : Int) (h : ins.op = .OP_ASS_RECORD_NIL) : EffAt s (-1) (exec md ins orc) := by exec_eff h

set_option maxRecDepth 8000 in
theorem eff_JUMPZ (md : Module) (ins : Instr) (orc : Oracle) (s : Int) (h : ins.op = .JUMPZ) : EffAt s (-1) (exec md ins orc) := by exec_eff h

set_option maxRecDepth 8000 in
theorem eff_REWRITE (md : Module) (ins : Instr) (orc : Oracle) (s : Int) (h : ins.op = .REWRITE) : EffAt s (-1) (exec md ins orc) := by exec_eff h

end Never.Vm
