/-
The store only grows and printed text is only appended, along every evaluation (whatever its
end: value, exception, stop).  Used for C08: captured cells stay allocated; cells allocated by
distinct activations are distinct.
-/
import NeverModel.Lemmas.SrcMono
namespace Never.Src

/-- `s'` is a later state than `s`: no cell disappeared, output was only appended -/
structure Later (s s' : St) : Prop where
  mem : s.mem.size ≤ s'.mem.size
  out : ∃ o, s'.out = s.out ++ o

theorem Later.refl (s : St) : Later s s := ⟨Nat.le_refl _, [], by simp⟩
theorem Later.trans {a b c : St} (h1 : Later a b) (h2 : Later b c) : Later a c := by
  obtain ⟨o1, ho1⟩ := h1.out
  obtain ⟨o2, ho2⟩ := h2.out
  exact ⟨Nat.le_trans h1.mem h2.mem, o1 ++ o2, by rw [ho2, ho1, List.append_assoc]⟩

def Res.st : Res α → St
  | .ok _ s | .exc _ s | .stop _ s => s

/-- every run of `m` ends in a later state -/
structure Pres (m : M α) : Prop where
  h : ∀ s, Later s (m s).st

theorem Pres.pure (a : α) : Pres (pure a : M α) := ⟨fun s => Later.refl s⟩
theorem Pres.throwE (e : Exc) : Pres (throwE e : M α) :=
  ⟨fun s => ⟨by simp [Never.Src.throwE, Res.st], [], by simp [Never.Src.throwE, Res.st]⟩⟩
theorem Pres.stopM (k : Stop) : Pres (stopM k : M α) := ⟨fun s => Later.refl s⟩
theorem Pres.stuck (m : String) : Pres (stuck m : M α) := ⟨fun s => Later.refl s⟩
theorem Pres.oof : Pres (oof : M α) := ⟨fun s => Later.refl s⟩

theorem Pres.bind {m : M α} {k : α → M β} (h : Pres m) (hk : ∀ a, Pres (k a)) : Pres (m >>= k) := by
  constructor
  intro s
  have h1 := h.h s
  simp only [bind_eq, M.bind]
  cases hm : m s with
  | ok a s1 => rw [hm] at h1; exact Later.trans h1 ((hk a).h s1)
  | exc e s1 => rw [hm] at h1; exact h1
  | stop c s1 => rw [hm] at h1; exact h1

theorem Pres.tryCatch {m : M α} {k : Exc → M α} (h : Pres m) (hk : ∀ e, Pres (k e)) : Pres (tryCatch m k) := by
  constructor
  intro s
  have h1 := h.h s
  simp only [Never.Src.tryCatch]
  cases hm : m s with
  | ok a s1 => rw [hm] at h1; exact h1
  | exc e s1 => rw [hm] at h1; exact Later.trans h1 ((hk e).h s1)
  | stop c s1 => rw [hm] at h1; exact h1

theorem Pres.alloc (v : Val) : Pres (alloc v) :=
  ⟨fun s => ⟨by simp [Never.Src.alloc, Res.st], [], by simp [Never.Src.alloc, Res.st]⟩⟩
theorem Pres.load (l : Loc) : Pres (load l) := by
  constructor
  intro s
  simp only [Never.Src.load]
  split <;> exact Later.refl s
theorem Pres.store (l : Loc) (v : Val) : Pres (store l v) :=
  ⟨fun s => ⟨by simp [Never.Src.store, Res.st], [], by simp [Never.Src.store, Res.st]⟩⟩
theorem Pres.emit (b : Bytes) : Pres (emit b) :=
  ⟨fun s => ⟨by simp [Never.Src.emit, Res.st], b, by simp [Never.Src.emit, Res.st]⟩⟩
theorem Pres.logClo (n : Nat) : Pres (logClo n) :=
  ⟨fun s => ⟨by simp [Never.Src.logClo, Res.st], [], by simp [Never.Src.logClo, Res.st]⟩⟩

/-- decompose a `Pres` goal along the shape of the computation -/
syntax "pres_core" : tactic
macro_rules
  | `(tactic| pres_core) => `(tactic| repeat (first
      | exact Pres.pure _
      | exact Pres.throwE _
      | exact Pres.stopM _
      | exact Pres.stuck _
      | exact Pres.oof
      | exact Pres.alloc _
      | exact Pres.load _
      | exact Pres.store _ _
      | exact Pres.emit _
      | exact Pres.logClo _
      | assumption
      | apply Pres.bind
      | apply Pres.tryCatch
      | intro _
      | split))

theorem Pres.liftOp (r : OpRes) : Pres (liftOp r) := by cases r <;> simp only [Never.Src.liftOp] <;> pres_core
theorem Pres.loadVals (ls : List Loc) : Pres (loadVals ls) := by
  induction ls with
  | nil => simp only [Never.Src.loadVals]; pres_core
  | cons l ls ih => simp only [Never.Src.loadVals]; pres_core
theorem Pres.allocRes (rs : List OpRes) : Pres (allocRes rs) := by
  induction rs with
  | nil => simp only [Never.Src.allocRes]; pres_core
  | cons r rs ih =>
    simp only [Never.Src.allocRes]
    apply Pres.bind (Pres.liftOp _); intro v
    apply Pres.bind (Pres.alloc _); intro c
    apply Pres.bind ih; intro rest
    exact Pres.pure _
theorem Pres.arrObjOf (o : Loc) : Pres (arrObjOf o) := by unfold Never.Src.arrObjOf; pres_core
theorem Pres.newArr (d : List Nat) (cs : List Loc) : Pres (newArr d cs) := by unfold Never.Src.newArr; pres_core
theorem Pres.arrMap (f : Val → OpRes) (a : Option Loc) : Pres (arrMap f a) := by
  unfold Never.Src.arrMap
  split
  · exact Pres.throwE _
  · apply Pres.bind (Pres.arrObjOf _); intro de
    apply Pres.bind (Pres.loadVals _); intro vs
    apply Pres.bind (Pres.allocRes _); intro cells
    exact Pres.newArr _ _
theorem Pres.arrZip (op : BinOp) (a b : Option Loc) : Pres (arrZip op a b) := by
  unfold Never.Src.arrZip
  split
  · apply Pres.bind (Pres.arrObjOf _); intro de1
    apply Pres.bind (Pres.arrObjOf _); intro de2
    split
    · apply Pres.bind (Pres.loadVals _); intro v1
      apply Pres.bind (Pres.loadVals _); intro v2
      apply Pres.bind (Pres.allocRes _); intro cells
      exact Pres.newArr _ _
    · exact Pres.throwE _
  · exact Pres.throwE _
theorem Pres.matMul (a b : Option Loc) : Pres (matMul a b) := by
  unfold Never.Src.matMul
  split
  · apply Pres.bind (Pres.arrObjOf _); intro de1
    apply Pres.bind (Pres.arrObjOf _); intro de2
    split
    · split
      · apply Pres.bind (Pres.loadVals _); intro v1
        apply Pres.bind (Pres.loadVals _); intro v2
        apply Pres.bind (Pres.allocRes _); intro cells
        exact Pres.newArr _ _
      · exact Pres.stuck _
    · exact Pres.throwE _
  · exact Pres.throwE _
theorem Pres.unopM (op : UnOp) (a : Val) : Pres (unopM op a) := by
  unfold Never.Src.unopM
  split
  · exact Pres.arrMap _ _
  · exact Pres.liftOp _
theorem Pres.binopM (op : BinOp) (a b : Val) : Pres (binopM op a b) := by
  unfold Never.Src.binopM
  split
  · apply Pres.bind (Pres.load _); intro x
    apply Pres.bind (Pres.load _); intro y
    split
    · exact Pres.pure _
    · exact Pres.stuck _
  · apply Pres.bind (Pres.load _); intro x
    apply Pres.bind (Pres.load _); intro y
    split
    · exact Pres.pure _
    · exact Pres.stuck _
  · exact Pres.arrZip _ _ _
  · exact Pres.arrZip _ _ _
  · exact Pres.matMul _ _
  · exact Pres.arrMap _ _
  · exact Pres.arrMap _ _
  · exact Pres.arrMap _ _
  · exact Pres.arrMap _ _
  · exact Pres.liftOp _
theorem Pres.truthy (v : Val) : Pres (truthy v) := by unfold Never.Src.truthy; pres_core
theorem Pres.convCell (t : Ty) (l : Loc) : Pres (convCell t l) := by unfold Never.Src.convCell; pres_core
theorem Pres.convCells (ts : List Ty) (ls : List Loc) : Pres (convCells ts ls) := by
  induction ts generalizing ls with
  | nil => simp only [Never.Src.convCells]; pres_core
  | cons t ts ih =>
    cases ls with
    | nil => simp only [Never.Src.convCells]; pres_core
    | cons l ls =>
      simp only [Never.Src.convCells]
      have := ih ls
      have := Pres.convCell t l
      pres_core
theorem Pres.allocN (n : Nat) (v : Val) : Pres (allocN n v) := by
  induction n with
  | zero => simp only [Never.Src.allocN]; pres_core
  | succ n ih => simp only [Never.Src.allocN]; pres_core
theorem Pres.getInt (l : Loc) : Pres (getInt l) := by unfold Never.Src.getInt; pres_core
theorem Pres.getInts (ls : List Loc) : Pres (getInts ls) := by
  induction ls with
  | nil => simp only [Never.Src.getInts]; pres_core
  | cons l ls ih => simp only [Never.Src.getInts]; have := Pres.getInt l; pres_core
theorem Pres.arrDeref (va : Val) (idx : List Int) : Pres (arrDeref va idx) := by unfold Never.Src.arrDeref; pres_core
theorem Pres.runBuiltin (b : Builtin) (args : List Val) : Pres (runBuiltin b args) := by
  unfold Never.Src.runBuiltin; pres_core
theorem Pres.loadAll (ls : List Loc) : Pres (loadAll ls) := by
  induction ls with
  | nil => simp only [Never.Src.loadAll]; pres_core
  | cons l ls ih => simp only [Never.Src.loadAll]; pres_core
theorem Pres.assignVal (a b : Val) : Pres (assignVal a b) := by unfold Never.Src.assignVal; pres_core
/-- `pres_core` with extra closing terms tried first (lemmas about helper functions that `apply Pres.bind`
would otherwise unfold) -/
syntax "pres_with" "[" term,* "]" : tactic
macro_rules
  | `(tactic| pres_with [$ts,*]) => do
    let alts ← ts.getElems.mapM fun t => `(tactic| exact $t)
    `(tactic| repeat (first
      | (first $[| $alts:tactic]*)
      | exact Pres.pure _
      | exact Pres.throwE _
      | exact Pres.stopM _
      | exact Pres.stuck _
      | exact Pres.oof
      | exact Pres.alloc _
      | exact Pres.load _
      | exact Pres.store _ _
      | exact Pres.emit _
      | exact Pres.logClo _
      | assumption
      | apply Pres.bind
      | apply Pres.tryCatch
      | intro _
      | split))

theorem Pres.allocInts (is : List Int) : Pres (allocInts is) := by
  induction is with
  | nil => simp only [Never.Src.allocInts]; pres_core
  | cons i is ih => simp only [Never.Src.allocInts]; pres_core
theorem Pres.rngBounds (o : Loc) : Pres (rngBounds o) := by
  unfold Never.Src.rngBounds; pres_with [Pres.getInts _]
theorem Pres.sliceRangeM (a b c d : Int) : Pres (sliceRangeM a b c d) := by unfold Never.Src.sliceRangeM; pres_core
theorem Pres.composeDims (r1 r2 : List (Int × Int)) : Pres (composeDims r1 r2) := by
  induction r1 generalizing r2 with
  | nil => cases r2 <;> simp only [Never.Src.composeDims] <;> pres_core
  | cons p r1 ih =>
    obtain ⟨a, b⟩ := p
    cases r2 with
    | nil => simp only [Never.Src.composeDims]; pres_core
    | cons q r2 =>
      obtain ⟨c, d⟩ := q
      simp only [Never.Src.composeDims]
      have := ih r2
      pres_with [Pres.sliceRangeM _ _ _ _]
theorem Pres.allocRng (ps : List (Int × Int)) : Pres (allocRng ps) := by
  unfold Never.Src.allocRng; pres_with [Pres.allocInts _]
theorem Pres.sliceOf (v : Val) (rb : Loc) : Pres (sliceOf v rb) := by
  unfold Never.Src.sliceOf; pres_with [Pres.rngBounds _, Pres.composeDims _ _, Pres.allocRng _]
theorem Pres.rangePositions (rs : List (Int × Int)) (is : List Int) : Pres (rangePositions rs is) := by
  induction rs generalizing is with
  | nil => cases is <;> simp only [Never.Src.rangePositions] <;> pres_core
  | cons p rs ih =>
    obtain ⟨a, b⟩ := p
    cases is with
    | nil => simp only [Never.Src.rangePositions]; pres_core
    | cons i is =>
      simp only [Never.Src.rangePositions]
      have := ih is
      pres_with [Pres.sliceRangeM _ _ _ _]
theorem Pres.rangeDeref (r : Option Loc) (idx : List Int) : Pres (rangeDeref r idx) := by
  unfold Never.Src.rangeDeref; pres_with [Pres.rngBounds _, Pres.rangePositions _ _, Pres.allocInts _]
theorem Pres.sliceDeref (r : Option Loc) (idx : List Int) : Pres (sliceDeref r idx) := by
  unfold Never.Src.sliceDeref; pres_with [Pres.rngBounds _, Pres.rangePositions _ _, Pres.arrDeref _ _]
theorem Pres.rngLoopInit (ro : Loc) : Pres (rngLoopInit ro) := by
  unfold Never.Src.rngLoopInit; pres_with [Pres.getInt _]
theorem Pres.slcLoopInit (so : Loc) : Pres (slcLoopInit so) := by
  unfold Never.Src.slcLoopInit; pres_with [Pres.rngLoopInit _]
theorem Pres.rngElem (ao : Option Loc) (cur : Int) : Pres (rngElem ao cur) := by
  unfold Never.Src.rngElem; pres_with [Pres.arrDeref _ _]
theorem Pres.pipeArgs (l : Loc) : Pres (pipeArgs l) := by unfold Never.Src.pipeArgs; pres_core
theorem Pres.dimValue (p : Loc) (k : Nat) : Pres (dimValue p k) := by
  unfold Never.Src.dimValue; pres_with [Pres.rngBounds _]
theorem Pres.bindDimRefs (ds : List Name) (l : Loc) (k : Nat) (env : Env) : Pres (bindDimRefs ds l k env) := by
  induction ds generalizing k env with
  | nil => simp only [Never.Src.bindDimRefs]; pres_core
  | cons d ds ih => simp only [Never.Src.bindDimRefs]; apply Pres.bind (Pres.alloc _); intro c; exact ih _ _
theorem Pres.bindDimsOf (ds : List Name) (l : Loc) (env : Env) : Pres (bindDimsOf ds l env) :=
  Pres.bindDimRefs ds l 0 env
theorem Pres.bindParams (ps : List Param) (args : List Loc) (env : Env) : Pres (bindParams ps args env) := by
  induction ps generalizing args env with
  | nil => simp only [Never.Src.bindParams]; pres_core
  | cons p ps ih =>
    cases args with
    | nil => simp only [Never.Src.bindParams]; pres_core
    | cons l ls =>
      simp only [Never.Src.bindParams]
      apply Pres.bind (Pres.convCell _ _); intro l'
      split
      · exact ih _ _
      · apply Pres.bind (Pres.bindDimsOf _ _ _); intro env2
        exact ih _ _
theorem Pres.fillFuncs (cells : List Loc) (fs : List Func) (l : Loc) : Pres (fillFuncs cells fs l) := by
  induction fs generalizing l with
  | nil => simp only [Never.Src.fillFuncs]; pres_core
  | cons f fs ih => simp only [Never.Src.fillFuncs]; have := ih (l + 1); pres_core
theorem Pres.allocGroup (fs : List Func) (env : Env) : Pres (allocGroup fs env) := by
  constructor
  intro s
  have h : Pres (do
      let _ ← Never.Src.allocN fs.length (.clo none)
      Never.Src.fillFuncs (locs (pushFuncs fs s.mem.size env)) fs s.mem.size
      Pure.pure (pushFuncs fs s.mem.size env) : M Env) := by
    have := Pres.allocN fs.length (.clo none)
    have := Pres.fillFuncs (locs (pushFuncs fs s.mem.size env)) fs s.mem.size
    pres_core
  exact h.h s
theorem Pres.allocArgs (as : List Arg) : Pres (allocArgs as) := by
  induction as with
  | nil => simp only [Never.Src.allocArgs]; pres_core
  | cons a as ih => simp only [Never.Src.allocArgs]; pres_core

end Never.Src
