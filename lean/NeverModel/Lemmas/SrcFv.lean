/-
Free-variable lists are exact: `fv f` contains precisely the names that occur in `f` (body and
catch clauses, transitively through nested functions) outside the scope of every binder of `f`,
each once.
-/
import NeverModel.Model.SrcSyn
namespace Never.Src

mutual
/-- `occE y bound e`: the name `y` is used in `e` at a place where no binder of `e` (nor of
`bound`) is in scope for it -/
def occE (y : Name) (bound : List Name) : Expr → Prop
  | .lit _ | .enumVal _ _ => False
  | .var x | .dimVar x => x = y ∧ y ∉ bound
  | .un _ a => occE y bound a
  | .bin _ a b | .and a b | .or a b | .assign a b | .while a b | .doWhile a b => occE y bound a ∨ occE y bound b
  | .cond c t e => occE y bound c ∨ occE y bound t ∨ occE y bound e
  | .seq items => occItems y bound items
  | .for i c s b => occE y bound i ∨ occE y bound c ∨ occE y bound s ∨ occE y bound b
  | .forIn x coll b => occE y bound coll ∨ occE y (x :: bound) b
  | .call f args => occEs y bound args ∨ occE y bound f
  | .pipe l f args => occEs y bound args ∨ occE y bound l ∨ occE y bound f
  | .builtin _ args | .arrLit _ args _ | .arrNew args _ | .record _ args | .tuple args
  | .enumRec _ _ args | .range args => occEs y bound args
  | .lam fn => occF y bound fn
  | .index a idx | .slice a idx => occE y bound a ∨ occEs y bound idx
  | .field e _ => occE y bound e
  | .matchE e gs => occE y bound e ∨ occGuards y bound gs
  | .ifLet g e els => occE y bound e ∨ occGuard y bound g ∨ occE y bound els
  | .listcomp body quals _ => occQuals y bound quals ∨ occE y (qualBinders quals ++ bound) body
def occEs (y : Name) (bound : List Name) : List Expr → Prop
  | [] => False
  | e :: es => occE y bound e ∨ occEs y bound es
def occItems (y : Name) (bound : List Name) : List Item → Prop
  | [] => False
  | .expr e :: rest => occE y bound e ∨ occItems y bound rest
  | .bind _ x e :: rest => occE y bound e ∨ occItems y (x :: bound) rest
  | .funcs fs :: rest => occFs y (funcNames fs ++ bound) fs ∨ occItems y (funcNames fs ++ bound) rest
def occFs (y : Name) (bound : List Name) : List Func → Prop
  | [] => False
  | fn :: fs => occF y bound fn ∨ occFs y bound fs
def occF (y : Name) (bound : List Name) : Func → Prop
  | .mk _ n ps _ body cs =>
    occE y (paramBinders ps ++ (n :: bound)) body ∨ occCatches y (paramBinders ps ++ (n :: bound)) cs
def occCatches (y : Name) (bound : List Name) : List Catch → Prop
  | [] => False
  | .mk _ b :: cs => occE y bound b ∨ occCatches y bound cs
def occGuard (y : Name) (bound : List Name) : Guard → Prop
  | .item _ _ b | .els b => occE y bound b
  | .recd _ _ binds b => occE y (binds ++ bound) b
def occGuards (y : Name) (bound : List Name) : List Guard → Prop
  | [] => False
  | g :: gs => occGuard y bound g ∨ occGuards y bound gs
def occQuals (y : Name) (bound : List Name) : List Qual → Prop
  | [] => False
  | .filter e :: qs => occE y bound e ∨ occQuals y bound qs
  | .gen x coll :: qs => occE y bound coll ∨ occQuals y (x :: bound) qs
end

theorem mem_addFv (y x : Name) (acc : List Name) : y ∈ addFv acc x ↔ y ∈ acc ∨ x = y := by
  unfold addFv
  split
  · constructor
    · intro h; exact Or.inl h
    · intro h
      cases h with
      | inl h => exact h
      | inr h => subst h; assumption
  · simp [eq_comm]

theorem nodup_addFv (x : Name) (acc : List Name) (h : acc.Nodup) : (addFv acc x).Nodup := by
  unfold addFv
  split
  · exact h
  · rename_i hx
    rw [List.nodup_append]
    refine ⟨h, by simp, ?_⟩
    intro a ha b hb
    simp at hb
    subst hb
    intro heq
    subst heq
    exact hx ha

mutual
theorem mem_fvE (y : Name) (bound acc : List Name) : ∀ e : Expr,
    y ∈ fvE bound acc e ↔ y ∈ acc ∨ occE y bound e
  | .lit _ => by simp [fvE, occE]
  | .enumVal _ _ => by simp [fvE, occE]
  | .var x => by
    simp only [fvE, occE]
    split
    · rename_i hx
      constructor
      · intro h; exact Or.inl h
      · intro h
        cases h with
        | inl h => exact h
        | inr h => obtain ⟨h1, h2⟩ := h; subst h1; exact absurd hx h2
    · rename_i hx
      rw [mem_addFv]
      constructor
      · intro h
        cases h with
        | inl h => exact Or.inl h
        | inr h => subst h; exact Or.inr ⟨rfl, hx⟩
      · intro h
        cases h with
        | inl h => exact Or.inl h
        | inr h => exact Or.inr h.1
  | .dimVar x => by
    simp only [fvE, occE]
    split
    · rename_i hx
      constructor
      · intro h; exact Or.inl h
      · intro h
        cases h with
        | inl h => exact h
        | inr h => obtain ⟨h1, h2⟩ := h; subst h1; exact absurd hx h2
    · rename_i hx
      rw [mem_addFv]
      constructor
      · intro h
        cases h with
        | inl h => exact Or.inl h
        | inr h => subst h; exact Or.inr ⟨rfl, hx⟩
      · intro h
        cases h with
        | inl h => exact Or.inl h
        | inr h => exact Or.inr h.1
  | .un _ a => by simp only [fvE, occE, mem_fvE y bound acc a]
  | .bin _ a b => by simp only [fvE, occE, mem_fvE y bound _ b, mem_fvE y bound acc a, or_assoc]
  | .and a b => by simp only [fvE, occE, mem_fvE y bound _ b, mem_fvE y bound acc a, or_assoc]
  | .or a b => by simp only [fvE, occE, mem_fvE y bound _ b, mem_fvE y bound acc a, or_assoc]
  | .assign a b => by simp only [fvE, occE, mem_fvE y bound _ b, mem_fvE y bound acc a, or_assoc]
  | .while a b => by simp only [fvE, occE, mem_fvE y bound _ b, mem_fvE y bound acc a, or_assoc]
  | .doWhile a b => by simp only [fvE, occE, mem_fvE y bound _ b, mem_fvE y bound acc a, or_assoc]
  | .cond c t e => by
    simp only [fvE, occE, mem_fvE y bound _ e, mem_fvE y bound _ t, mem_fvE y bound acc c, or_assoc]
  | .seq items => by simp only [fvE, occE, mem_fvItems y bound acc items]
  | .for i c s b => by
    simp only [fvE, occE, mem_fvE y bound _ b, mem_fvE y bound _ s, mem_fvE y bound _ c, mem_fvE y bound acc i, or_assoc]
  | .forIn x coll b => by simp only [fvE, occE, mem_fvE y (x :: bound) _ b, mem_fvE y bound acc coll, or_assoc]
  | .call f args => by simp only [fvE, occE, mem_fvE y bound _ f, mem_fvEs y bound acc args, or_assoc]
  | .pipe l f args => by simp only [fvE, occE, mem_fvE y bound _ f, mem_fvE y bound _ l, mem_fvEs y bound acc args, or_assoc]
  | .builtin _ args => by simp only [fvE, occE, mem_fvEs y bound acc args]
  | .arrLit _ args _ => by simp only [fvE, occE, mem_fvEs y bound acc args]
  | .arrNew args _ => by simp only [fvE, occE, mem_fvEs y bound acc args]
  | .record _ args => by simp only [fvE, occE, mem_fvEs y bound acc args]
  | .tuple args => by simp only [fvE, occE, mem_fvEs y bound acc args]
  | .enumRec _ _ args => by simp only [fvE, occE, mem_fvEs y bound acc args]
  | .range args => by simp only [fvE, occE, mem_fvEs y bound acc args]
  | .slice a idx => by simp only [fvE, occE, mem_fvEs y bound _ idx, mem_fvE y bound acc a, or_assoc]
  | .lam fn => by simp only [fvE, occE, mem_fvF y bound acc fn]
  | .index a idx => by simp only [fvE, occE, mem_fvEs y bound _ idx, mem_fvE y bound acc a, or_assoc]
  | .field e _ => by simp only [fvE, occE, mem_fvE y bound acc e]
  | .matchE e gs => by simp only [fvE, occE, mem_fvGuards y bound _ gs, mem_fvE y bound acc e, or_assoc]
  | .ifLet g e els => by
    simp only [fvE, occE, mem_fvE y bound _ els, mem_fvGuard y bound _ g, mem_fvE y bound acc e, or_assoc]
  | .listcomp body quals _ => by
    simp only [fvE, occE, mem_fvE y _ _ body, mem_fvQuals y bound acc quals, or_assoc]
theorem mem_fvEs (y : Name) (bound acc : List Name) : ∀ es : List Expr,
    y ∈ fvEs bound acc es ↔ y ∈ acc ∨ occEs y bound es
  | [] => by simp [fvEs, occEs]
  | e :: es => by simp only [fvEs, occEs, mem_fvEs y bound _ es, mem_fvE y bound acc e, or_assoc]
theorem mem_fvItems (y : Name) (bound acc : List Name) : ∀ items : List Item,
    y ∈ fvItems bound acc items ↔ y ∈ acc ∨ occItems y bound items
  | [] => by simp [fvItems, occItems]
  | .expr e :: rest => by simp only [fvItems, occItems, mem_fvItems y bound _ rest, mem_fvE y bound acc e, or_assoc]
  | .bind _ x e :: rest => by
    simp only [fvItems, occItems, mem_fvItems y (x :: bound) _ rest, mem_fvE y bound acc e, or_assoc]
  | .funcs fs :: rest => by
    simp only [fvItems, occItems, mem_fvItems y _ _ rest, mem_fvFs y _ acc fs, or_assoc]
theorem mem_fvFs (y : Name) (bound acc : List Name) : ∀ fs : List Func,
    y ∈ fvFs bound acc fs ↔ y ∈ acc ∨ occFs y bound fs
  | [] => by simp [fvFs, occFs]
  | fn :: fs => by simp only [fvFs, occFs, mem_fvFs y bound _ fs, mem_fvF y bound acc fn, or_assoc]
theorem mem_fvF (y : Name) (bound acc : List Name) : ∀ fn : Func,
    y ∈ fvF bound acc fn ↔ y ∈ acc ∨ occF y bound fn
  | .mk _ n ps _ body cs => by
    simp only [fvF, occF, mem_fvCatches y _ _ cs, mem_fvE y _ acc body, or_assoc]
theorem mem_fvCatches (y : Name) (bound acc : List Name) : ∀ cs : List Catch,
    y ∈ fvCatches bound acc cs ↔ y ∈ acc ∨ occCatches y bound cs
  | [] => by simp [fvCatches, occCatches]
  | .mk _ b :: cs => by simp only [fvCatches, occCatches, mem_fvCatches y bound _ cs, mem_fvE y bound acc b, or_assoc]
theorem mem_fvGuard (y : Name) (bound acc : List Name) : ∀ g : Guard,
    y ∈ fvGuard bound acc g ↔ y ∈ acc ∨ occGuard y bound g
  | .item _ _ b => by simp only [fvGuard, occGuard, mem_fvE y bound acc b]
  | .els b => by simp only [fvGuard, occGuard, mem_fvE y bound acc b]
  | .recd _ _ binds b => by simp only [fvGuard, occGuard, mem_fvE y _ acc b]
theorem mem_fvGuards (y : Name) (bound acc : List Name) : ∀ gs : List Guard,
    y ∈ fvGuards bound acc gs ↔ y ∈ acc ∨ occGuards y bound gs
  | [] => by simp [fvGuards, occGuards]
  | g :: gs => by simp only [fvGuards, occGuards, mem_fvGuards y bound _ gs, mem_fvGuard y bound acc g, or_assoc]
theorem mem_fvQuals (y : Name) (bound acc : List Name) : ∀ qs : List Qual,
    y ∈ fvQuals bound acc qs ↔ y ∈ acc ∨ occQuals y bound qs
  | [] => by simp [fvQuals, occQuals]
  | .filter e :: qs => by simp only [fvQuals, occQuals, mem_fvQuals y bound _ qs, mem_fvE y bound acc e, or_assoc]
  | .gen x coll :: qs => by
    simp only [fvQuals, occQuals, mem_fvQuals y (x :: bound) _ qs, mem_fvE y bound acc coll, or_assoc]
end

mutual
theorem nodup_fvE (bound acc : List Name) (h : acc.Nodup) : ∀ e : Expr, (fvE bound acc e).Nodup
  | .lit _ => by simpa [fvE] using h
  | .enumVal _ _ => by simpa [fvE] using h
  | .var x => by
    simp only [fvE]
    split
    · exact h
    · exact nodup_addFv x acc h
  | .dimVar x => by
    simp only [fvE]
    split
    · exact h
    · exact nodup_addFv x acc h
  | .un _ a => by simp only [fvE]; exact nodup_fvE bound acc h a
  | .bin _ a b => by simp only [fvE]; exact nodup_fvE bound _ (nodup_fvE bound acc h a) b
  | .and a b => by simp only [fvE]; exact nodup_fvE bound _ (nodup_fvE bound acc h a) b
  | .or a b => by simp only [fvE]; exact nodup_fvE bound _ (nodup_fvE bound acc h a) b
  | .assign a b => by simp only [fvE]; exact nodup_fvE bound _ (nodup_fvE bound acc h a) b
  | .while a b => by simp only [fvE]; exact nodup_fvE bound _ (nodup_fvE bound acc h a) b
  | .doWhile a b => by simp only [fvE]; exact nodup_fvE bound _ (nodup_fvE bound acc h a) b
  | .cond c t e => by
    simp only [fvE]; exact nodup_fvE bound _ (nodup_fvE bound _ (nodup_fvE bound acc h c) t) e
  | .seq items => by simp only [fvE]; exact nodup_fvItems bound acc h items
  | .for i c s b => by
    simp only [fvE]
    exact nodup_fvE bound _ (nodup_fvE bound _ (nodup_fvE bound _ (nodup_fvE bound acc h i) c) s) b
  | .forIn x coll b => by simp only [fvE]; exact nodup_fvE _ _ (nodup_fvE bound acc h coll) b
  | .call f args => by simp only [fvE]; exact nodup_fvE bound _ (nodup_fvEs bound acc h args) f
  | .pipe l f args => by simp only [fvE]; exact nodup_fvE bound _ (nodup_fvE bound _ (nodup_fvEs bound acc h args) l) f
  | .builtin _ args => by simp only [fvE]; exact nodup_fvEs bound acc h args
  | .arrLit _ args _ => by simp only [fvE]; exact nodup_fvEs bound acc h args
  | .arrNew args _ => by simp only [fvE]; exact nodup_fvEs bound acc h args
  | .record _ args => by simp only [fvE]; exact nodup_fvEs bound acc h args
  | .tuple args => by simp only [fvE]; exact nodup_fvEs bound acc h args
  | .enumRec _ _ args => by simp only [fvE]; exact nodup_fvEs bound acc h args
  | .range args => by simp only [fvE]; exact nodup_fvEs bound acc h args
  | .slice a idx => by simp only [fvE]; exact nodup_fvEs bound _ (nodup_fvE bound acc h a) idx
  | .lam fn => by simp only [fvE]; exact nodup_fvF bound acc h fn
  | .index a idx => by simp only [fvE]; exact nodup_fvEs bound _ (nodup_fvE bound acc h a) idx
  | .field e _ => by simp only [fvE]; exact nodup_fvE bound acc h e
  | .matchE e gs => by simp only [fvE]; exact nodup_fvGuards bound _ (nodup_fvE bound acc h e) gs
  | .ifLet g e els => by
    simp only [fvE]; exact nodup_fvE bound _ (nodup_fvGuard bound _ (nodup_fvE bound acc h e) g) els
  | .listcomp body quals _ => by simp only [fvE]; exact nodup_fvE _ _ (nodup_fvQuals bound acc h quals) body
theorem nodup_fvEs (bound acc : List Name) (h : acc.Nodup) : ∀ es : List Expr, (fvEs bound acc es).Nodup
  | [] => by simpa [fvEs] using h
  | e :: es => by simp only [fvEs]; exact nodup_fvEs bound _ (nodup_fvE bound acc h e) es
theorem nodup_fvItems (bound acc : List Name) (h : acc.Nodup) : ∀ items : List Item, (fvItems bound acc items).Nodup
  | [] => by simpa [fvItems] using h
  | .expr e :: rest => by simp only [fvItems]; exact nodup_fvItems bound _ (nodup_fvE bound acc h e) rest
  | .bind _ x e :: rest => by simp only [fvItems]; exact nodup_fvItems _ _ (nodup_fvE bound acc h e) rest
  | .funcs fs :: rest => by simp only [fvItems]; exact nodup_fvItems _ _ (nodup_fvFs _ acc h fs) rest
theorem nodup_fvFs (bound acc : List Name) (h : acc.Nodup) : ∀ fs : List Func, (fvFs bound acc fs).Nodup
  | [] => by simpa [fvFs] using h
  | fn :: fs => by simp only [fvFs]; exact nodup_fvFs bound _ (nodup_fvF bound acc h fn) fs
theorem nodup_fvF (bound acc : List Name) (h : acc.Nodup) : ∀ fn : Func, (fvF bound acc fn).Nodup
  | .mk _ n ps _ body cs => by simp only [fvF]; exact nodup_fvCatches _ _ (nodup_fvE _ acc h body) cs
theorem nodup_fvCatches (bound acc : List Name) (h : acc.Nodup) : ∀ cs : List Catch, (fvCatches bound acc cs).Nodup
  | [] => by simpa [fvCatches] using h
  | .mk _ b :: cs => by simp only [fvCatches]; exact nodup_fvCatches bound _ (nodup_fvE bound acc h b) cs
theorem nodup_fvGuard (bound acc : List Name) (h : acc.Nodup) : ∀ g : Guard, (fvGuard bound acc g).Nodup
  | .item _ _ b => by simp only [fvGuard]; exact nodup_fvE bound acc h b
  | .els b => by simp only [fvGuard]; exact nodup_fvE bound acc h b
  | .recd _ _ binds b => by simp only [fvGuard]; exact nodup_fvE _ acc h b
theorem nodup_fvGuards (bound acc : List Name) (h : acc.Nodup) : ∀ gs : List Guard, (fvGuards bound acc gs).Nodup
  | [] => by simpa [fvGuards] using h
  | g :: gs => by simp only [fvGuards]; exact nodup_fvGuards bound _ (nodup_fvGuard bound acc h g) gs
theorem nodup_fvQuals (bound acc : List Name) (h : acc.Nodup) : ∀ qs : List Qual, (fvQuals bound acc qs).Nodup
  | [] => by simpa [fvQuals] using h
  | .filter e :: qs => by simp only [fvQuals]; exact nodup_fvQuals bound _ (nodup_fvE bound acc h e) qs
  | .gen x coll :: qs => by simp only [fvQuals]; exact nodup_fvQuals _ _ (nodup_fvE bound acc h coll) qs
end

end Never.Src
