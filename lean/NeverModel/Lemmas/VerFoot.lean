import NeverModel.Lemmas.VerCalls
import NeverModel.Lemmas.VmFootSound
set_option linter.unusedSimpArgs false
set_option linter.unusedVariables false
/-! a verified function never writes at or below its frame base `pp`: the frame records of its callers (and the record it was entered
through) are out of reach of every instruction of the effect table and of MARK / SLIDE / CLEAR_STACK / CALL / JUMP / JUMPZ -/
namespace Never.Ver
open Never Never.Vm

theorem wrP_slot_ne {vm vm' : Vm} {i : Int} {s : Slot} (h : wrP vm i s = .ok vm') (j : Int) (hne : j ≠ i) : slot vm' j = slot vm j := by
  unfold wrP at h
  split at h
  · cases h
  · rename_i hb
    cases h
    exact slot_setIfInBounds_ne vm i.toNat s j (by omega)

/-- MARK writes only above the top of stack -/
theorem markP_below {vm vm' : Vm} {ra : Nat} (h : markP vm ra = .ok vm') (j : Int) (hj : j ≤ vm.sp) : slot vm' j = slot vm j := by
  unfold markP at h
  simp only [bind, Except.bind] at h
  split at h
  · cases h
  · rename_i v0 h0
    obtain ⟨e0, _⟩ := checkP_regs h0
    subst e0
    split at h
    · cases h
    · rename_i v1 h1
      split at h
      · cases h
      · rename_i v2 h2
        split at h
        · cases h
        · rename_i v3 h3
          split at h
          · cases h
          · rename_i v4 h4
            split at h
            · cases h
            · rename_i v5 h5
              cases h
              show slot v5 j = slot vm j
              rw [wrP_slot_ne h5 j (by omega), wrP_slot_ne h4 j (by omega), wrP_slot_ne h3 j (by omega), wrP_slot_ne h2 j (by omega),
                wrP_slot_ne h1 j (by omega)]
              rfl

theorem slideLoopP_below (q : Nat) : ∀ (n : Nat) (vm vm' : Vm), slideLoopP q n vm = .ok vm' → ∀ j, j ≤ vm.sp → slot vm' j = slot vm j := by
  intro n
  induction n with
  | zero => intro vm vm' h j _; unfold slideLoopP at h; cases h; rfl
  | succ n ih =>
    intro vm vm' h j hj
    unfold slideLoopP at h
    simp only [bind, Except.bind] at h
    split at h
    · cases h
    · split at h
      · cases h
      · rename_i v1 h1
        have r1 := wrP_regs h1
        simp only at r1
        rw [ih _ _ h j (by omega), wrP_slot_ne h1 j (by omega)]
        rfl

/-- SLIDE q m writes only the `m` slots it moves down: everything at or below `sp − q − m` is left alone -/
theorem slideP_below {vm vm' : Vm} {q m : Nat} (h : slideP vm q m = .ok vm') (j : Int) (hj : j ≤ vm.sp - q - m) : slot vm' j = slot vm j := by
  unfold slideP at h
  split at h
  · cases h; rfl
  · split at h
    · cases h; rfl
    · exact slideLoopP_below q m { vm with sp := vm.sp - q - m } _ h j hj

/-- the stack slots after a step, from the slots after the handler (the exception dispatch writes no slot) -/
theorem step_slots_of_exec {md : Module} (orc : Oracle) (vm vm' : Vm) (i : Instr) (hi : md.code[vm.ip]? = some i)
    (hstep : (step md orc).run vm = .ok ((), vm')) (b : Int)
    (hx : ∀ s2, (exec md i orc).run { vm with ip := vm.ip + 1 } = .ok ((), s2) → ∀ j, j ≤ b → slot s2 j = slot vm j) :
    ∀ j, j ≤ b → slot vm' j = slot vm j := by
  obtain ⟨s2, he, hcase⟩ := step_exec md orc vm vm' i hi hstep
  intro j hj
  rcases hcase with ⟨_, e⟩ | ⟨_, hd, _, e⟩
  · rw [e]; exact hx s2 he j hj
  · rw [e]; exact hx s2 he j hj

section
variable {md : Module} {hm : HMap}

/-- **A verified function never writes at or below its frame base.**  From a machine at its recorded height, a step on any
instruction of the effect table (it writes no slot under its lowest operand, and its operands lie above the parameters), on MARK
(writes above the top), SLIDE (the slots it moves stay above `pp`, also in the last-call case: the parameter block `pp+1 …`), CALL,
CLEAR_STACK, JUMP (no stack write) leaves every stack slot `j ≤ pp` — the frame record the function was entered through and
everything of its callers below it — exactly as it was. -/
theorem step_keeps_below_pp (hf : flowOk md hm = true) (orc : Oracle) (vm vm' : Vm) (i : Instr) (hi : md.code[vm.ip]? = some i)
    (hh : AtHeight md hm vm)
    (hop : (simpleEffect i).isSome = true ∨ i.op = .MARK ∨ i.op = .SLIDE ∨ i.op = .CALL ∨ i.op = .CLEAR_STACK ∨ i.op = .JUMP)
    (hstep : (step md orc).run vm = .ok ((), vm')) : ∀ j, j ≤ vm.pp → slot vm' j = slot vm j := by
  obtain ⟨hrun, st, hs, hinv⟩ := hh
  refine step_slots_of_exec orc vm vm' i hi hstep vm.pp (fun s2 h2 j hj => ?_)
  have sl : ∀ k, slot ({ vm with ip := vm.ip + 1 } : Vm) k = slot vm k := fun _ => rfl
  rcases hop with hop | hop | hop | hop | hop | hop
  · cases he : simpleEffect i with
    | none => rw [he] at hop; cases hop
    | some pq =>
      obtain ⟨p, q⟩ := pq
      have hp : p ≤ st.h := by
        by_cases hj' : i.op = .JUMPZ
        · have e1 : simpleEffect i = some (1, 0) := by simp [simpleEffect, hj', binOpOf, unOpOf, convOf, nilCmpOf, strAddOf, arrOpOf, mkArrayElem]
          rw [e1] at he; cases he
          exact ((flow_branch hf hi hs).1 hj').1
        · obtain ⟨_, _, hp, _⟩ := flow_table hf hi hs he hj'
          exact hp
      have := exec_foot_table md i orc p q he vm.sp { vm with ip := vm.ip + 1 } () s2 rfl h2 j (by omega)
      rw [this, sl]
  · rw [markP_below (exec_MARK md i orc hop _ _ h2) j (by show j ≤ vm.sp; omega), sl]
  · rcases exec_SLIDE md i orc hop _ _ h2 with ⟨_, hg0⟩ | ⟨hq, v1, hsl, hgc⟩
    · have hst : s2.stack = _ := (gcRunPure_regs hg0).2.2.2.2.2.2.2
      have e2 : slot s2 j = slot { vm with ip := vm.ip + 1 } j := by unfold slot; rw [hst]
      rw [e2]; rfl
    · have hst : s2.stack = v1.stack := (gcRunPure_regs hgc).2.2.2.2.2.2.2
      have e2 : slot s2 j = slot v1 j := by unfold slot; rw [hst]
      rw [e2]
      have hc := frameOkAt_SLIDE hi hs hop (frame_at hf hi)
      have hb : j ≤ vm.sp - (i.w0 : Int) - (i.w1 : Int) := by
        rcases hc with ⟨hq', _⟩ | ⟨_, hle, _⟩ | ⟨_, _, hh', hm1, _, _⟩
        · exact absurd hq' hq
        · omega
        · unfold fnParamsAt at hinv; omega
      rw [slideP_below hsl j (by show j ≤ vm.sp - _ - _; exact hb), sl]
  · obtain ⟨a, env, fip, _, _, e⟩ := exec_CALL md i orc hop _ _ h2
    rw [e]; unfold callP; split <;> rfl
  · rw [exec_CLEAR_STACK md i orc hop _ _ h2]; rfl
  · exec_unfold hop at h2
    obtain ⟨sp, s0, h0, hA⟩ := (run_bind_ok _ _ _ _ _).mp h2
    obtain ⟨_, e0'⟩ := getSp_run _ _ _ h0
    rw [e0'] at hA
    rw [modify_run _ _ _ _ hA]; rfl

/-- … hence every live frame record at or below `pp` keeps its words -/
theorem framesKept_below_pp (hf : flowOk md hm = true) (orc : Oracle) (vm vm' : Vm) (i : Instr) (hi : md.code[vm.ip]? = some i)
    (hh : AtHeight md hm vm)
    (hop : (simpleEffect i).isSome = true ∨ i.op = .MARK ∨ i.op = .SLIDE ∨ i.op = .CALL ∨ i.op = .CLEAR_STACK ∨ i.op = .JUMP)
    (hstep : (step md orc).run vm = .ok ((), vm')) (r : Rec) (hr : r.F ≤ vm.pp) :
    slot vm' (r.F - 4) = slot vm (r.F - 4) ∧ slot vm' (r.F - 1) = slot vm (r.F - 1) ∧ slot vm' r.F = slot vm r.F := by
  have k := step_keeps_below_pp hf orc vm vm' i hi hh hop hstep
  exact ⟨k _ (by omega), k _ (by omega), k _ hr⟩


/-- the opcodes whose writes at or below `pp` are not excluded by `step_keeps_below_pp`: MK_INIT_ARRAY and PUSH_PARAM (no footprint
lemma), RET and RETHROW (they write the lowest word of the record they pop) -/
def uncoveredOp (o : Opc) : Bool := o == .MK_INIT_ARRAY || o == .PUSH_PARAM || o == .RET || o == .RETHROW

/-- the side conditions of one step, with "frame words are not overwritten" asked only where it is not proved: for the records ABOVE
`pp` (calls in preparation in the running function), and for the four opcodes of `uncoveredOp` -/
def StepOkP (md : Module) (hm : HMap) (vm vm' : Vm) (recs : List Rec) : Prop :=
  (∀ r, r ∈ recs → r ∈ ghostNext md vm recs → (vm.pp < r.F ∨ ∀ i, md.code[vm.ip]? = some i → uncoveredOp i.op = true) →
     slot vm' (r.F - 4) = slot vm (r.F - 4) ∧ slot vm' (r.F - 1) = slot vm (r.F - 1) ∧ slot vm' r.F = slot vm r.F) ∧
  (∀ i, md.code[vm.ip]? = some i →
     (i.op = .CALL → CallOk md vm) ∧
     ((i.op = .RET ∨ i.op = .RETHROW) → recs ≠ []) ∧
     (i.op = .MK_INIT_ARRAY → ∀ st, hm[vm.ip]? = some (some st) → stackInts vm i.w0 vm.sp = initExts st i.w0))

/-- handlers that write no stack slot at all: HALT, UNHANDLED_EXCEPTION, LABEL -/
theorem exec_stack_same (md : Module) (i : Instr) (orc : Oracle) (hop : i.op = .HALT ∨ i.op = .UNHANDLED_EXCEPTION ∨ i.op = .LABEL)
    (vm s2 : Vm) (h2 : (exec md i orc).run vm = .ok ((), s2)) : s2.stack = vm.stack := by
  rcases hop with hop | hop | hop
  · rw [exec_HALT md i orc hop _ _ h2]
  · exec_unfold hop at h2
    obtain ⟨sp, s0, h0, hA⟩ := (run_bind_ok _ _ _ _ _).mp h2
    obtain ⟨_, e0'⟩ := getSp_run _ _ _ h0
    rw [e0'] at hA
    obtain ⟨v1, s1, h1, hB⟩ := (run_bind_ok _ _ _ _ _).mp hA
    obtain ⟨_, e1'⟩ := get_run _ _ _ h1
    rw [e1'] at hB
    obtain ⟨u2, s2', h2', hC⟩ := (run_bind_ok _ _ _ _ _).mp hB
    have e2 := modify_run _ _ _ _ h2'
    have e3 := modify_run _ _ _ _ hC
    rw [e3, e2]
  · exec_unfold hop at h2
    obtain ⟨sp, s0, h0, hA⟩ := (run_bind_ok _ _ _ _ _).mp h2
    obtain ⟨_, e0'⟩ := getSp_run _ _ _ h0
    obtain ⟨_, e1'⟩ := (run_pure_ok _ _ _ _).mp hA
    rw [e1', e0']

/-- **the weaker side conditions suffice**: in a state satisfying the invariant, `StepOkP` implies `StepOk` — the frame words at or
below `pp` are kept by the step anyway (`step_keeps_below_pp`) -/
theorem stepOk_of_pending (hf : flowOk md hm = true) (orc : Oracle) (vm vm' : Vm) (recs : List Rec) (hg : Good md hm vm)
    (hstep : (step md orc).run vm = .ok ((), vm')) (hp : StepOkP md hm vm vm' recs) : StepOk md hm vm vm' recs := by
  obtain ⟨hkeep, hside⟩ := hp
  refine ⟨fun r hr hgn => ?_, hside⟩
  by_cases hab : vm.pp < r.F
  · exact hkeep r hr hgn (Or.inl hab)
  have hle : r.F ≤ vm.pp := by omega
  cases hi : md.code[vm.ip]? with
  | none =>
    exfalso
    unfold step at hstep
    obtain ⟨v0, s0, h0, hA⟩ := (run_bind_ok _ _ _ _ _).mp hstep
    obtain ⟨e0, e0'⟩ := get_run _ _ _ h0
    rw [e0, e0', hi] at hA
    exact crash_run _ _ _ _ hA
  | some i =>
    by_cases hun : uncoveredOp i.op = true
    · exact hkeep r hr hgn (Or.inr (fun j hj => by rw [hi] at hj; cases hj; exact hun))
    have hun' : i.op ≠ .MK_INIT_ARRAY ∧ i.op ≠ .PUSH_PARAM ∧ i.op ≠ .RET ∧ i.op ≠ .RETHROW := by
      unfold uncoveredOp at hun
      simp only [Bool.or_eq_true, beq_iff_eq, not_or] at hun
      exact ⟨hun.1.1.1, hun.1.1.2, hun.1.2, hun.2⟩
    obtain ⟨u1, u2, u3, u4⟩ := hun'
    have same : vm'.stack = vm.stack → slot vm' (r.F - 4) = slot vm (r.F - 4) ∧ slot vm' (r.F - 1) = slot vm (r.F - 1) ∧ slot vm' r.F = slot vm r.F := by
      intro h; unfold slot; rw [h]; exact ⟨rfl, rfl, rfl⟩
    have noW : (i.op = .HALT ∨ i.op = .UNHANDLED_EXCEPTION ∨ i.op = .LABEL) → vm'.stack = vm.stack := fun h =>
      step_stack_of_exec orc vm vm' i hi hstep (fun s2 h2 => exec_stack_same md i orc h { vm with ip := vm.ip + 1 } s2 h2)
    rcases hg with hah | hhd
    · -- at the recorded height: the footprint theorem
      cases he : simpleEffect i with
      | some pq => exact framesKept_below_pp hf orc vm vm' i hi hah (Or.inl (by rw [he]; rfl)) hstep r hle
      | none =>
        rcases simpleEffect_none_cases i he with h | h | h | h | h | h | h | h | h | h | h | h | h | h
        · obtain ⟨s2, hx, _⟩ := step_exec md orc vm vm' i hi hstep
          exact absurd hx (exec_unmodelled_fails md i orc _ _ (Or.inl h))
        · obtain ⟨s2, hx, _⟩ := step_exec md orc vm vm' i hi hstep
          exact absurd hx (exec_unmodelled_fails md i orc _ _ (Or.inr (Or.inl h)))
        · obtain ⟨s2, hx, _⟩ := step_exec md orc vm vm' i hi hstep
          exact absurd hx (exec_unmodelled_fails md i orc _ _ (Or.inr (Or.inr h)))
        · exact framesKept_below_pp hf orc vm vm' i hi hah (Or.inr (Or.inr (Or.inr (Or.inr (Or.inr h))))) hstep r hle
        · exact absurd h u1
        · exact framesKept_below_pp hf orc vm vm' i hi hah (Or.inr (Or.inl h)) hstep r hle
        · exact framesKept_below_pp hf orc vm vm' i hi hah (Or.inr (Or.inr (Or.inr (Or.inl h)))) hstep r hle
        · exact framesKept_below_pp hf orc vm vm' i hi hah (Or.inr (Or.inr (Or.inl h))) hstep r hle
        · exact framesKept_below_pp hf orc vm vm' i hi hah (Or.inr (Or.inr (Or.inr (Or.inr (Or.inl h))))) hstep r hle
        · exact absurd h u3
        · exact absurd h u4
        · exact absurd h u2
        · exact same (noW (Or.inr (Or.inl h)))
        · exact same (noW (Or.inl h))
    · -- at a handler entry: CLEAR_STACK / UNHANDLED_EXCEPTION / LABEL write nothing; RETHROW is among the four
      rcases atHandler_op hhd hi with h | h | h | h
      · exact framesKept_control orc vm vm' recs i hi (Or.inr (Or.inl h)) hstep r hr hgn
      · exact absurd h u4
      · exact same (noW (Or.inr (Or.inl h)))
      · exact same (noW (Or.inr (Or.inr h)))

end

/-- `n` steps of M-VM, live records followed by `ghostNext`, every step meeting the weaker side conditions `StepOkP` -/
inductive RunsP (md : Module) (hm : HMap) : Nat → Vm → List Rec → Vm → List Rec → Prop
  | zero (vm : Vm) (recs : List Rec) : RunsP md hm 0 vm recs vm recs
  | succ {n : Nat} {vm v1 v2 : Vm} {recs recs2 : List Rec} (orc : Oracle) : vm.running = 1 →
      (step md orc).run vm = .ok ((), v1) → StepOkP md hm vm v1 recs → RunsP md hm n v1 (ghostNext md vm recs) v2 recs2 →
      RunsP md hm (n + 1) vm recs v2 recs2

theorem runsP_runsG {md : Module} {hm : HMap} {bot : Int} (hf : flowOk md hm = true) : ∀ (n : Nat) (vm vm' : Vm) (recs recs' : List Rec),
    Sound md hm bot vm recs → RunsP md hm n vm recs vm' recs' → RunsG md hm n vm recs vm' recs' := by
  intro n
  induction n with
  | zero => intro vm vm' recs recs' _ hr; cases hr; exact .zero _ _
  | succ n ih =>
    intro vm vm' recs recs' hs hr
    cases hr with
    | succ orc hrun hstep hok hrest =>
      rename_i v1
      have hok' := stepOk_of_pending hf orc vm v1 recs hs.2.1 hstep hok
      refine .succ orc hrun hstep hok' ?_
      rcases step_sound hf orc vm v1 recs hs hstep hok' with h | h | h
      · exact ih _ _ _ _ h hrest
      · cases hrest with
        | zero => exact .zero _ _
        | succ _ hr' _ _ _ => omega
      · cases hrest with
        | zero => exact .zero _ _
        | succ _ hr' _ _ _ => omega

theorem runsG_runsP {md : Module} {hm : HMap} : ∀ (n : Nat) (vm vm' : Vm) (recs recs' : List Rec),
    RunsG md hm n vm recs vm' recs' → RunsP md hm n vm recs vm' recs' := by
  intro n
  induction n with
  | zero => intro vm vm' recs recs' hr; cases hr; exact .zero _ _
  | succ n ih =>
    intro vm vm' recs recs' hr
    cases hr with
    | succ orc hrun hstep hok hrest => exact .succ orc hrun hstep ⟨fun r hr hg _ => hok.1 r hr hg, hok.2⟩ (ih _ _ _ _ hrest)

end Never.Ver
