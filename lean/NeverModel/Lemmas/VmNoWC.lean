import NeverModel.Lemmas.VmEffectLoops
import NeverModel.Lemmas.Frame
set_option linter.unusedSimpArgs false
set_option linter.unusedVariables false
/-! which computations can end in the "stack write out of bounds" crash (the model's outcome for a store outside the stack array: the
C code's undefined behaviour).  `NoWC f`: `f` never does, from any machine — every helper that does not write the stack (same list of
lemmas as `NoWr`). -/
namespace Never.Vm
open Never Never.Num

/-- the outcome of a stack store outside `[0, stackSize)` -/
def wildWrite : Stop := .crash "stack write out of bounds"

/-- a computation that never ends in a stack store outside the stack array -/
def NoWC {α} (f : M α) : Prop := ∀ vm, f.run vm ≠ .error wildWrite

theorem run_bind_err {α β} (f : M α) (g : α → M β) (vm : Vm) (e : Stop) :
    (f >>= g).run vm = .error e ↔ f.run vm = .error e ∨ ∃ a vm', f.run vm = .ok (a, vm') ∧ (g a).run vm' = .error e := by
  simp only [StateT.run, bind, StateT.bind, Except.bind]
  cases h : f vm with
  | error e' => simp
  | ok p =>
    obtain ⟨a, vm'⟩ := p
    simp only [reduceCtorEq, false_or, Except.ok.injEq, Prod.mk.injEq]
    constructor
    · intro hg; exact ⟨a, vm', ⟨rfl, rfl⟩, hg⟩
    · rintro ⟨a1, v1, ⟨rfl, rfl⟩, hg⟩; exact hg

theorem NoWC.bind {α β} {f : M α} {g : α → M β} (hf : NoWC f) (hg : ∀ a, NoWC (g a)) : NoWC (f >>= g) := by
  intro vm h
  rcases (run_bind_err f g vm _).mp h with h1 | ⟨a, vm', _, h2⟩
  · exact hf vm h1
  · exact hg a vm' h2

theorem NoWC.pure {α} (a : α) : NoWC (Pure.pure a : M α) := by
  intro vm h; simp [StateT.run, Pure.pure, StateT.pure, Except.pure] at h

theorem crash_run_err {α} (w : String) (vm : Vm) : (crash w : M α).run vm = .error (.crash w) := by
  simp [crash, throw, throwThe, MonadExceptOf.throw, StateT.run, StateT.lift, liftM, monadLift, MonadLift.monadLift, Except.bind, Bind.bind]

/-- a crash for another reason -/
theorem nowc_crash {α} (w : String) (hw : w ≠ "stack write out of bounds") : NoWC (crash w : M α) := by
  intro vm h
  rw [crash_run_err] at h
  unfold wildWrite at h
  simp only [Except.error.injEq, Stop.crash.injEq] at h
  exact hw h

theorem nowc_exit {α} (w : String) (o : List UInt8) : NoWC (exitVm w o : M α) := by
  intro vm h; simp [exitVm, wildWrite, throw, throwThe, MonadExceptOf.throw, StateT.run, StateT.lift, liftM, monadLift, MonadLift.monadLift, Except.bind, Bind.bind] at h

theorem nowc_get : NoWC (get : M Vm) := by
  intro vm h; simp [get, getThe, MonadStateOf.get, StateT.get, StateT.run, Pure.pure, Except.pure] at h

theorem nowc_set (v : Vm) : NoWC (set v : M PUnit) := by
  intro vm h; simp [set, StateT.set, StateT.run, Pure.pure, Except.pure] at h

theorem nowc_modify (f : Vm → Vm) : NoWC (modify f : M PUnit) := by
  intro v h; simp [modify, modifyGet, MonadStateOf.modifyGet, StateT.modifyGet, StateT.run, Pure.pure, Except.pure] at h

theorem nowc_rdSlot (i : Int) : NoWC (rdSlot i) := by
  unfold rdSlot
  apply NoWC.bind nowc_get; intro vm
  split
  · exact nowc_crash _ (by decide)
  · exact NoWC.pure _

theorem nowc_alloc (o : Obj) : NoWC (alloc o) := by
  unfold alloc
  apply NoWC.bind nowc_get; intro vm
  split
  · exact nowc_exit _ _
  · exact NoWC.bind (nowc_set _) (fun _ => NoWC.pure _)

theorem nowc_objOf (a : Nat) : NoWC (objOf a) := by
  unfold objOf
  apply NoWC.bind nowc_get; intro vm
  split
  · exact nowc_crash _ (by decide)
  · split
    · exact NoWC.pure _
    · exact nowc_crash _ (by decide)

theorem nowc_checkStack : NoWC checkStack := by
  unfold checkStack
  apply NoWC.bind nowc_get; intro vm
  split
  · exact nowc_exit _ _
  · exact NoWC.pure _

/-- automation for `NoWC` goals -/
syntax "nowc" : tactic
macro_rules
  | `(tactic| nowc) => `(tactic|
      first
      | with_reducible exact NoWC.pure _
      | with_reducible exact nowc_crash _ (by decide)
      | with_reducible exact nowc_exit _ _
      | with_reducible exact nowc_get
      | with_reducible exact nowc_set _
      | with_reducible exact nowc_rdSlot _
      | with_reducible exact nowc_alloc _
      | with_reducible exact nowc_objOf _
      | with_reducible exact nowc_checkStack
      | with_reducible exact nowc_modify _
      | with_reducible apply_assumption (exfalso := false)
      | (with_reducible refine NoWC.bind ?hf (fun _ => ?hg); (case hf => nowc); (case hg => nowc))
      | (split <;> nowc)
      | (dsimp only; nowc)
      | fail "nowc: no rule")

/-- the numeric model's own crash outcomes (SIGFPE, shift count) are not the wild stack write -/
def NResOk (r : NRes) : Prop := ∀ w, r = .crash w → w ≠ "stack write out of bounds"

theorem binInt_ok (op : BinOp) (a b : BitVec 32) : NResOk (binInt op a b) := by
  unfold binInt NResOk; intro w h; (repeat' split at h) <;> first | (cases h; done) | (cases h; decide)
theorem binLong_ok (op : BinOp) (a b : BitVec 64) : NResOk (binLong op a b) := by
  unfold binLong NResOk; intro w h; (repeat' split at h) <;> first | (cases h; done) | (cases h; decide)
theorem binFloat_ok (op : BinOp) (a b : BitVec 32) : NResOk (binFloat op a b) := by
  unfold binFloat NResOk; intro w h; simp only at h; (repeat' split at h) <;> first | (cases h; done) | (cases h; decide)
theorem binDouble_ok (op : BinOp) (a b : BitVec 64) : NResOk (binDouble op a b) := by
  unfold binDouble NResOk; intro w h; simp only at h; (repeat' split at h) <;> first | (cases h; done) | (cases h; decide)
theorem binChar_ok (op : BinOp) (a b : BitVec 8) : NResOk (binChar op a b) := by
  unfold binChar NResOk; intro w h; (repeat' split at h) <;> first | (cases h; done) | (cases h; decide)
theorem bin_ok (ty : NTy) (op : BinOp) (a b : NVal) : NResOk (bin ty op a b) := by
  unfold bin
  split
  · exact binInt_ok _ _ _
  · exact binLong_ok _ _ _
  · exact binFloat_ok _ _ _
  · exact binDouble_ok _ _ _
  · exact binChar_ok _ _ _
  · intro w h; cases h
theorem un_ok (ty : NTy) (op : UnOp) (a : NVal) : NResOk (un ty op a) := by
  unfold un NResOk; intro w h; (repeat' split at h) <;> first | (cases h; done) | (cases h; decide)
theorem conv_ok (src dst : NTy) (a : NVal) : NResOk (conv src dst a) := by
  unfold conv NResOk; intro w h; (repeat' split at h) <;> first | (cases h; done) | (cases h; decide)

theorem nowc_rdAddr (i : Int) : NoWC (rdAddr i) := by unfold rdAddr; nowc
theorem nowc_getSp : NoWC getSp := by unfold getSp; nowc
theorem nowc_setSp (v : Int) : NoWC (setSp v) := by unfold setSp; nowc
theorem nowc_raise (e : Nat) : NoWC (raise e) := by unfold raise; nowc
theorem nowc_setObj (a : Nat) (o : Obj) : NoWC (setObj a o) := by unfold setObj; nowc
theorem nowc_emit (bs : List UInt8) : NoWC (emit bs) := by unfold emit; nowc

macro_rules
  | `(tactic| nowc) => `(tactic|
      first | with_reducible exact nowc_rdAddr _ | with_reducible exact nowc_getSp | with_reducible exact nowc_setSp _
            | with_reducible exact nowc_raise _ | with_reducible exact nowc_setObj _ _ | with_reducible exact nowc_emit _ | fail "nowc: no rule")

theorem nowc_getInt (a : Nat) : NoWC (getInt a) := by unfold getInt; nowc
theorem nowc_getLong (a : Nat) : NoWC (getLong a) := by unfold getLong; nowc
theorem nowc_getFloat (a : Nat) : NoWC (getFloat a) := by unfold getFloat; nowc
theorem nowc_getDouble (a : Nat) : NoWC (getDouble a) := by unfold getDouble; nowc
theorem nowc_getChar (a : Nat) : NoWC (getChar a) := by unfold getChar; nowc
theorem nowc_getStr (a : Nat) : NoWC (getStr a) := by unfold getStr; nowc
theorem nowc_getStrRef (a : Nat) : NoWC (getStrRef a) := by unfold getStrRef; nowc
theorem nowc_getVecRef (a : Nat) : NoWC (getVecRef a) := by unfold getVecRef; nowc
theorem nowc_getArrRef (a : Nat) : NoWC (getArrRef a) := by unfold getArrRef; nowc
theorem nowc_getVecObj (a : Nat) : NoWC (getVecObj a) := by unfold getVecObj; nowc
theorem nowc_getArrObj (a : Nat) : NoWC (getArrObj a) := by unfold getArrObj; nowc
theorem nowc_getFunc (a : Nat) : NoWC (getFunc a) := by unfold getFunc; nowc
theorem nowc_getCPtr (a : Nat) : NoWC (getCPtr a) := by unfold getCPtr; nowc

macro_rules
  | `(tactic| nowc) => `(tactic|
      first | with_reducible exact nowc_getInt _ | with_reducible exact nowc_getLong _ | with_reducible exact nowc_getFloat _
            | with_reducible exact nowc_getDouble _ | with_reducible exact nowc_getChar _ | with_reducible exact nowc_getStr _
            | with_reducible exact nowc_getStrRef _ | with_reducible exact nowc_getVecRef _ | with_reducible exact nowc_getArrRef _
            | with_reducible exact nowc_getVecObj _ | with_reducible exact nowc_getArrObj _ | with_reducible exact nowc_getFunc _
            | with_reducible exact nowc_getCPtr _ | fail "nowc: no rule")

theorem nowc_scalarOf (ty : NTy) (a : Nat) : NoWC (scalarOf ty a) := by unfold scalarOf; cases ty <;> simp only <;> nowc
theorem nowc_resOf (r : NRes) (hr : NResOk r) : NoWC (resOf r) := by
  unfold resOf
  cases r with
  | ok v => nowc
  | exc e => nowc
  | crash w => exact nowc_crash _ (hr w rfl)
  | tag => nowc
theorem nowc_okVal (r : NRes) (hr : NResOk r) : NoWC (okVal r) := by
  unfold okVal
  cases r with
  | ok v => nowc
  | exc e => nowc
  | crash w => exact nowc_crash _ (hr w rfl)
  | tag => nowc
theorem nowc_getVec (a i : Nat) : NoWC (getVec a i) := by unfold getVec; nowc
theorem nowc_setVec (a i v : Nat) : NoWC (setVec a i v) := by unfold setVec; nowc
theorem nowc_getArrElem (a i : Nat) : NoWC (getArrElem a i) := by unfold getArrElem; nowc
theorem nowc_setArrElem (a i v : Nat) : NoWC (setArrElem a i v) := by unfold setArrElem; nowc
theorem nowc_allocArr (e : List Nat) : NoWC (allocArr e) := by unfold allocArr; nowc

macro_rules
  | `(tactic| nowc) => `(tactic|
      first | with_reducible exact nowc_scalarOf _ _ | with_reducible exact nowc_resOf _ (bin_ok _ _ _ _) | with_reducible exact nowc_resOf _ (un_ok _ _ _) | with_reducible exact nowc_resOf _ (conv_ok _ _ _) | with_reducible exact nowc_okVal _ (bin_ok _ _ _ _)
            | with_reducible exact nowc_getVec _ _ | with_reducible exact nowc_setVec _ _ _ | with_reducible exact nowc_getArrElem _ _
            | with_reducible exact nowc_setArrElem _ _ _ | with_reducible exact nowc_allocArr _ | fail "nowc: no rule")

theorem nowc_rangePair (r d : Nat) : NoWC (rangePair r d) := by unfold rangePair; nowc
theorem nowc_feCheck (orc : Oracle) : NoWC (feCheck orc) := by unfold feCheck; nowc

macro_rules
  | `(tactic| nowc) => `(tactic| first | with_reducible exact nowc_rangePair _ _ | with_reducible exact nowc_feCheck _ | fail "nowc: no rule")


theorem nowc_allocEach (o : Obj) (n : Nat) : NoWC (allocEach o n) := by
  induction n with
  | zero => unfold allocEach; nowc
  | succ n ih => unfold allocEach; nowc

theorem nowc_mapElems (ty : NTy) (f : NVal → M NVal) (hf : ∀ v, NoWC (f v)) (es : List Nat) : NoWC (mapElems ty f es) := by
  induction es with
  | nil => unfold mapElems; nowc
  | cons e es ih => unfold mapElems; nowc

theorem nowc_zipArith (ty : NTy) (bop : BinOp) (xs ys : List Nat) : NoWC (zipArith ty bop xs ys) := by
  induction xs generalizing ys with
  | nil => unfold zipArith; nowc
  | cons x xs ih =>
    cases ys with
    | nil => unfold zipArith; nowc
    | cons y ys => unfold zipArith; have := ih ys; nowc

theorem nowc_dotSum (ty : NTy) (es1 es2 : List Nat) (i j inner cols k n : Nat) (acc : NVal) :
    NoWC (dotSum ty es1 es2 i j inner cols k n acc) := by
  induction n generalizing k acc with
  | zero => unfold dotSum; nowc
  | succ n ih => unfold dotSum; nowc

theorem nowc_matCols (ty : NTy) (es1 es2 : List Nat) (mres i inner cols j m : Nat) :
    NoWC (matCols ty es1 es2 mres i inner cols j m) := by
  induction m generalizing j with
  | zero => unfold matCols; nowc
  | succ m ih => unfold matCols; have := nowc_dotSum ty es1 es2 i j inner cols 0 inner (zeroOf ty); nowc

theorem nowc_matRows (ty : NTy) (es1 es2 : List Nat) (mres inner cols i n : Nat) :
    NoWC (matRows ty es1 es2 mres inner cols i n) := by
  induction n generalizing i with
  | zero => unfold matRows; nowc
  | succ n ih => unfold matRows; have := nowc_matCols ty es1 es2 mres i inner cols 0 cols; nowc

theorem nowc_composeRanges (r1 r2 res d n : Nat) : NoWC (composeRanges r1 r2 res d n) := by
  induction n generalizing d with
  | zero => unfold composeRanges; nowc
  | succ n ih => unfold composeRanges; nowc

theorem nowc_rangePairs (r d n : Nat) : NoWC (rangePairs r d n) := by
  induction n generalizing d with
  | zero => unfold rangePairs; nowc
  | succ n ih => unfold rangePairs; nowc


theorem nowc_popAddrs (n : Nat) : NoWC (popAddrs n) := by
  induction n with
  | zero => unfold popAddrs; nowc
  | succ n ih => unfold popAddrs; nowc

theorem nowc_popInts (n : Nat) : NoWC (popInts n) := by
  induction n with
  | zero => unfold popInts; nowc
  | succ n ih => unfold popInts; nowc

theorem nowc_popExts (n : Nat) : NoWC (popExts n) := by
  induction n with
  | zero => unfold popExts; nowc
  | succ n ih => unfold popExts; nowc

theorem nowc_popIndices (n : Nat) : NoWC (popIndices n) := by
  induction n with
  | zero => unfold popIndices; nowc
  | succ n ih => unfold popIndices; nowc

theorem nowc_rangeDerefLoop (range array d n : Nat) : NoWC (rangeDerefLoop range array d n) := by
  induction n generalizing d with
  | zero => unfold rangeDerefLoop; nowc
  | succ n ih => unfold rangeDerefLoop; nowc


macro_rules
  | `(tactic| nowc) => `(tactic|
      first
      | with_reducible exact nowc_allocEach _ _ | with_reducible exact nowc_zipArith _ _ _ _
      | with_reducible exact nowc_dotSum _ _ _ _ _ _ _ _ _ _ | with_reducible exact nowc_matCols _ _ _ _ _ _ _ _ _
      | with_reducible exact nowc_matRows _ _ _ _ _ _ _ _ | with_reducible exact nowc_composeRanges _ _ _ _ _
      | with_reducible exact nowc_rangePairs _ _ _ 
      | with_reducible exact nowc_popAddrs _ | with_reducible exact nowc_popInts _ | with_reducible exact nowc_popExts _
      | with_reducible exact nowc_popIndices _ | with_reducible exact nowc_rangeDerefLoop _ _ _ _ 
      | (with_reducible refine nowc_mapElems _ _ (fun _ => ?hf) _; (case hf => nowc)) | fail "nowc: no rule")





/-- the leaf rules of `nowc` only (no search through binds): one action that does not write the stack -/
syntax "nowc1" : tactic
macro_rules
  | `(tactic| nowc1) => `(tactic|
      first
      | with_reducible exact NoWC.pure _
      | with_reducible exact nowc_modify _
      | with_reducible exact nowc_crash _ (by decide)
      | with_reducible exact nowc_exit _ _
      | with_reducible exact nowc_get
      | with_reducible exact nowc_rdSlot _
      | with_reducible exact nowc_alloc _
      | with_reducible exact nowc_objOf _
      | with_reducible exact nowc_checkStack
      | with_reducible exact nowc_rdAddr _
      | with_reducible exact nowc_getSp
      | with_reducible exact nowc_setSp _
      | with_reducible exact nowc_raise _
      | with_reducible exact nowc_setObj _ _
      | with_reducible exact nowc_emit _
      | with_reducible exact nowc_getInt _
      | with_reducible exact nowc_getLong _
      | with_reducible exact nowc_getFloat _
      | with_reducible exact nowc_getDouble _
      | with_reducible exact nowc_getChar _
      | with_reducible exact nowc_getStr _
      | with_reducible exact nowc_getStrRef _
      | with_reducible exact nowc_getVecRef _
      | with_reducible exact nowc_getArrRef _
      | with_reducible exact nowc_getVecObj _
      | with_reducible exact nowc_getArrObj _
      | with_reducible exact nowc_getFunc _
      | with_reducible exact nowc_getCPtr _
      | with_reducible exact nowc_scalarOf _ _
      | with_reducible exact nowc_resOf _ (bin_ok _ _ _ _) | with_reducible exact nowc_resOf _ (un_ok _ _ _) | with_reducible exact nowc_resOf _ (conv_ok _ _ _)
      | with_reducible exact nowc_okVal _ (bin_ok _ _ _ _)
      | with_reducible exact nowc_getVec _ _
      | with_reducible exact nowc_setVec _ _ _
      | with_reducible exact nowc_getArrElem _ _
      | with_reducible exact nowc_setArrElem _ _ _
      | with_reducible exact nowc_allocArr _
      | with_reducible exact nowc_rangePair _ _
      | with_reducible exact nowc_feCheck _
      | with_reducible exact nowc_allocEach _ _
      | with_reducible exact nowc_zipArith _ _ _ _
      | with_reducible exact nowc_dotSum _ _ _ _ _ _ _ _ _ _
      | with_reducible exact nowc_matCols _ _ _ _ _ _ _ _ _
      | with_reducible exact nowc_matRows _ _ _ _ _ _ _ _
      | with_reducible exact nowc_composeRanges _ _ _ _ _
      | with_reducible exact nowc_rangePairs _ _ _
      | with_reducible exact nowc_popAddrs _
      | with_reducible exact nowc_popInts _
      | with_reducible exact nowc_popExts _
      | with_reducible exact nowc_popIndices _
      | with_reducible exact nowc_rangeDerefLoop _ _ _ _
      | with_reducible apply_assumption (exfalso := false)
      | (with_reducible refine nowc_mapElems _ _ (fun _ => ?hf) _; (case hf => nowc)) | fail "nowc: no rule")

end Never.Vm
