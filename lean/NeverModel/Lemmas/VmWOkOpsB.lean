import NeverModel.Lemmas.VmWOk
set_option linter.unusedSimpArgs false
set_option linter.unusedVariables false
/-! per-opcode: from `-1 ≤ sp < stackSize` the handler never stores outside the stack array (generated list, each proved by the `wok`
automation) -/
namespace Never.Vm
open Never Never.Num

set_option maxRecDepth 8000 in
theorem wok_LABEL (md : Module) (ins : Instr) (orc : Oracle) (N : Nat) (s : Int) (h0 : -1 ≤ s) (h1 : s < N) (h : ins.op = .LABEL) : WOk N s (exec md ins orc) := by exec_wok h

set_option maxRecDepth 8000 in
theorem wok_LINE (md : Module) (ins : Instr) (orc : Oracle) (N : Nat) (s : Int) (h0 : -1 ≤ s) (h1 : s < N) (h : ins.op = .LINE) : WOk N s (exec md ins orc) := by exec_wok h

set_option maxRecDepth 8000 in
theorem wok_FUNC_DEF (md : Module) (ins : Instr) (orc : Oracle) (N : Nat) (s : Int) (h0 : -1 ≤ s) (h1 : s < N) (h : ins.op = .FUNC_DEF) : WOk N s (exec md ins orc) := by exec_wok h

set_option maxRecDepth 8000 in
theorem wok_FUNC_OBJ (md : Module) (ins : Instr) (orc : Oracle) (N : Nat) (s : Int) (h0 : -1 ≤ s) (h1 : s < N) (h : ins.op = .FUNC_OBJ) : WOk N s (exec md ins orc) := by exec_wok h

set_option maxRecDepth 8000 in
theorem wok_OP_INC_INT (md : Module) (ins : Instr) (orc : Oracle) (N : Nat) (s : Int) (h0 : -1 ≤ s) (h1 : s < N) (h : ins.op = .OP_INC_INT) : WOk N s (exec md ins orc) := by exec_wok h

set_option maxRecDepth 8000 in
theorem wok_OP_DEC_INT (md : Module) (ins : Instr) (orc : Oracle) (N : Nat) (s : Int) (h0 : -1 ≤ s) (h1 : s < N) (h : ins.op = .OP_DEC_INT) : WOk N s (exec md ins orc) := by exec_wok h

set_option maxRecDepth 8000 in
theorem wok_ID_FUNC_ADDR (md : Module) (ins : Instr) (orc : Oracle) (N : Nat) (s : Int) (h0 : -1 ≤ s) (h1 : s < N) (h : ins.op = .ID_FUNC_ADDR) : WOk N s (exec md ins orc) := by exec_wok h

set_option maxRecDepth 8000 in
theorem wok_ID_FUNC_ENTRY (md : Module) (ins : Instr) (orc : Oracle) (N : Nat) (s : Int) (h0 : -1 ≤ s) (h1 : s < N) (h : ins.op = .ID_FUNC_ENTRY) : WOk N s (exec md ins orc) := by exec_wok h

set_option maxRecDepth 8000 in
theorem wok_ENUMTYPE_RECORD_TO_INT (md : Module) (ins : Instr) (orc : Oracle) (N : Nat) (s : Int) (h0 : -1 ≤ s) (h1 : s < N) (h : ins.op = .ENUMTYPE_RECORD_TO_INT) : WOk N s (exec md ins orc) := by exec_wok h

set_option maxRecDepth 8000 in
theorem wok_VECREF_DEREF (md : Module) (ins : Instr) (orc : Oracle) (N : Nat) (s : Int) (h0 : -1 ≤ s) (h1 : s < N) (h : ins.op = .VECREF_DEREF) : WOk N s (exec md ins orc) := by exec_wok h

set_option maxRecDepth 8000 in
theorem wok_JUMPZ (md : Module) (ins : Instr) (orc : Oracle) (N : Nat) (s : Int) (h0 : -1 ≤ s) (h1 : s < N) (h : ins.op = .JUMPZ) : WOk N s (exec md ins orc) := by exec_wok h

set_option maxRecDepth 8000 in
theorem wok_REWRITE (md : Module) (ins : Instr) (orc : Oracle) (N : Nat) (s : Int) (h0 : -1 ≤ s) (h1 : s < N) (h : ins.op = .REWRITE) : WOk N s (exec md ins orc) := by exec_wok h

set_option maxRecDepth 8000 in
theorem wok_OP_ADD_STRING (md : Module) (ins : Instr) (orc : Oracle) (N : Nat) (s : Int) (h0 : -1 ≤ s) (h1 : s < N) (h : ins.op = .OP_ADD_STRING) : WOk N s (exec md ins orc) := by exec_wok h

set_option maxHeartbeats 2000000 in
set_option maxRecDepth 8000 in
theorem wok_OP_EQ_STRING (md : Module) (ins : Instr) (orc : Oracle) (N : Nat) (s : Int) (h0 : -1 ≤ s) (h1 : s < N) (h : ins.op = .OP_EQ_STRING) : WOk N s (exec md ins orc) := by exec_wok h

set_option maxHeartbeats 2000000 in
set_option maxRecDepth 8000 in
theorem wok_OP_NEQ_STRING (md : Module) (ins : Instr) (orc : Oracle) (N : Nat) (s : Int) (h0 : -1 ≤ s) (h1 : s < N) (h : ins.op = .OP_NEQ_STRING) : WOk N s (exec md ins orc) := by exec_wok h

set_option maxHeartbeats 2000000 in
set_option maxHeartbeats 2000000 in
set_option maxRecDepth 8000 in
theorem wok_OP_EQ_C_PTR (md : Module) (ins : Instr) (orc : Oracle) (N : Nat) (s : Int) (h0 : -1 ≤ s) (h1 : s < N) (h : ins.op = .OP_EQ_C_PTR) : WOk N s (exec md ins orc) := by exec_wok h

set_option maxHeartbeats 2000000 in
set_option maxHeartbeats 2000000 in
set_option maxRecDepth 8000 in
theorem wok_OP_NEQ_C_PTR (md : Module) (ins : Instr) (orc : Oracle) (N : Nat) (s : Int) (h0 : -1 ≤ s) (h1 : s < N) (h : ins.op = .OP_NEQ_C_PTR) : WOk N s (exec md ins orc) := by exec_wok h

set_option maxHeartbeats 2000000 in
set_option maxRecDepth 8000 in
theorem wok_OP_EQ_NIL (md : Module) (ins : Instr) (orc : Oracle) (N : Nat) (s : Int) (h0 : -1 ≤ s) (h1 : s < N) (h : ins.op = .OP_EQ_NIL) : WOk N s (exec md ins orc) := by exec_wok h

set_option maxHeartbeats 2000000 in
set_option maxRecDepth 8000 in
theorem wok_OP_NEQ_NIL (md : Module) (ins : Instr) (orc : Oracle) (N : Nat) (s : Int) (h0 : -1 ≤ s) (h1 : s < N) (h : ins.op = .OP_NEQ_NIL) : WOk N s (exec md ins orc) := by exec_wok h

end Never.Vm
