import NeverModel.Lemmas.VerStep
set_option linter.unusedSimpArgs false
set_option linter.unusedVariables false
/-! runs of M-VM inside one activation of a verified module -/
namespace Never.Ver
open Never Never.Vm

set_option maxHeartbeats 4000000 in
set_option maxRecDepth 8000 in
/-- the opcodes outside the verifier's effect table -/
theorem simpleEffect_none_cases (i : Instr) (h : simpleEffect i = none) :
    i.op = .UNKNOWN ∨ i.op = .ID_FUNC_FUNC ∨
    (i.op = .FUNC_FFI ∨ i.op = .FUNC_FFI_BOOL ∨ i.op = .FUNC_FFI_INT ∨ i.op = .FUNC_FFI_LONG ∨ i.op = .FUNC_FFI_FLOAT ∨ i.op = .FUNC_FFI_DOUBLE ∨
     i.op = .FUNC_FFI_CHAR ∨ i.op = .FUNC_FFI_STRING ∨ i.op = .FUNC_FFI_VOID ∨ i.op = .FUNC_FFI_C_PTR ∨ i.op = .FUNC_FFI_RECORD) ∨
    i.op = .JUMP ∨ i.op = .MK_INIT_ARRAY ∨ i.op = .MARK ∨ i.op = .CALL ∨ i.op = .SLIDE ∨ i.op = .CLEAR_STACK ∨ i.op = .RET ∨
    i.op = .RETHROW ∨ i.op = .PUSH_PARAM ∨ i.op = .UNHANDLED_EXCEPTION ∨ i.op = .HALT := by
  cases hop : i.op
  case BUILD_IN =>
    exfalso
    simp only [simpleEffect, hop, binOpOf, unOpOf, convOf, nilCmpOf, strAddOf, arrOpOf, mkArrayElem, Option.isSome_none, Bool.false_eq_true, if_false] at h
    repeat' (first | cases h | split at h)
  all_goals first
    | (exfalso; simp [simpleEffect, hop, binOpOf, unOpOf, convOf, nilCmpOf, strAddOf, arrOpOf, mkArrayElem] at h; done)
    | simp

/-- the handlers of the placeholder / unknown / FFI opcodes never complete in M-VM (FFI is not modelled) -/
theorem exec_unmodelled_fails (md : Module) (i : Instr) (orc : Oracle) (vm vm' : Vm)
    (hop : i.op = .UNKNOWN ∨ i.op = .ID_FUNC_FUNC ∨
      (i.op = .FUNC_FFI ∨ i.op = .FUNC_FFI_BOOL ∨ i.op = .FUNC_FFI_INT ∨ i.op = .FUNC_FFI_LONG ∨ i.op = .FUNC_FFI_FLOAT ∨ i.op = .FUNC_FFI_DOUBLE ∨
       i.op = .FUNC_FFI_CHAR ∨ i.op = .FUNC_FFI_STRING ∨ i.op = .FUNC_FFI_VOID ∨ i.op = .FUNC_FFI_C_PTR ∨ i.op = .FUNC_FFI_RECORD)) :
    ¬ ((exec md i orc).run vm = .ok ((), vm')) := by
  intro h
  rcases hop with hop | hop | hop | hop | hop | hop | hop | hop | hop | hop | hop | hop | hop
  all_goals
    exec_unfold hop at h
    obtain ⟨sp, s0, h0, hA⟩ := (run_bind_ok _ _ _ _ _).mp h
    first
      | exact absurd hA (crash_run _ _ _ _)
      | exact absurd hA (exitVm_run _ _ _ _ _)

/-- the step about to be executed stays inside the running activation: it is not a call, a return, a rethrow or the end of the
run; and if it is `MK_INIT_ARRAY`, the extents it finds on the stack are the constants the verifier recorded for that address
(they were pushed by the preceding `INT` instructions; the recorded constants are not re-proved over executions) -/
def Inside (md : Module) (hm : HMap) (vm : Vm) : Prop :=
  ∀ i, md.code[vm.ip]? = some i →
    i.op ≠ .CALL ∧ i.op ≠ .RET ∧ i.op ≠ .RETHROW ∧ i.op ≠ .HALT ∧ i.op ≠ .UNHANDLED_EXCEPTION ∧
    (i.op = .MK_INIT_ARRAY → ∀ st, hm[vm.ip]? = some (some st) → stackInts vm i.w0 vm.sp = initExts st i.w0)

section
variable {md : Module} {hm : HMap}

/-- one step from a state at its recorded height -/
theorem step_atHeight (hf : flowOk md hm = true) (orc : Oracle) (vm vm' : Vm) (hh : AtHeight md hm vm) (hin : Inside md hm vm)
    (hstep : (step md orc).run vm = .ok ((), vm')) : Succ md hm vm vm' := by
  obtain ⟨hrun, st, hs, hinv⟩ := hh
  cases hi : md.code[vm.ip]? with
  | none =>
    exfalso
    unfold step at hstep
    obtain ⟨v0, s0, h0, hA⟩ := (run_bind_ok _ _ _ _ _).mp hstep
    obtain ⟨e0, e0'⟩ := get_run _ _ _ h0
    rw [e0, e0', hi] at hA
    exact crash_run _ _ _ _ hA
  | some i =>
    obtain ⟨n1, n2, n3, n4, n5, n6⟩ := hin i hi
    cases he : simpleEffect i with
    | some pq =>
      obtain ⟨p, q⟩ := pq
      by_cases hj : i.op = .JUMPZ
      · exact succ_branch hf orc vm vm' i st hi hs (Or.inl hj) hrun hinv hstep
      · exact succ_table hf orc vm vm' i st p q hi hs he hj hrun hinv hstep
    | none =>
      rcases simpleEffect_none_cases i he with h | h | h | h | h | h | h | h | h | h | h | h | h | h
      · obtain ⟨s2, hx, _⟩ := step_exec md orc vm vm' i hi hstep
        exact absurd hx (exec_unmodelled_fails md i orc _ _ (Or.inl h))
      · obtain ⟨s2, hx, _⟩ := step_exec md orc vm vm' i hi hstep
        exact absurd hx (exec_unmodelled_fails md i orc _ _ (Or.inr (Or.inl h)))
      · obtain ⟨s2, hx, _⟩ := step_exec md orc vm vm' i hi hstep
        exact absurd hx (exec_unmodelled_fails md i orc _ _ (Or.inr (Or.inr h)))
      · exact succ_branch hf orc vm vm' i st hi hs (Or.inr h) hrun hinv hstep
      · exact succ_MK_INIT_ARRAY hf orc vm vm' i st hi hs h hrun hinv (n6 h st hs) hstep
      · exact succ_MARK hf orc vm vm' i st hi hs h hrun hinv hstep
      · exact absurd h n1
      · exact succ_SLIDE hf orc vm vm' i st hi hs h hrun hinv hstep
      · exact (succ_CLEAR_STACK hf orc vm vm' i st hi hs h hstep).1
      · exact absurd h n2
      · exact absurd h n3
      · exact succ_PUSH_PARAM hf orc vm vm' i st hi hs h hrun hinv hstep
      · exact absurd h n5
      · exact absurd h n4

/-- one step from a handler entry: a `LABEL` is skipped, `CLEAR_STACK` re-establishes the height invariant -/
theorem step_atHandler (hf : flowOk md hm = true) (orc : Oracle) (vm vm' : Vm) (hh : AtHandler md hm vm) (hin : Inside md hm vm)
    (hstep : (step md orc).run vm = .ok ((), vm')) : Succ md hm vm vm' := by
  obtain ⟨hrun, hent, st, hs⟩ := hh
  unfold handlerEntry at hent
  cases hi : md.code[vm.ip]? with
  | none => simp [hi] at hent
  | some i =>
    obtain ⟨n1, n2, n3, n4, n5, n6⟩ := hin i hi
    simp only [hi, Bool.or_eq_true, Bool.and_eq_true, beq_iff_eq] at hent
    rcases hent with hent | ⟨hlab, hnext⟩
    · unfold isHandlerOp at hent
      simp only [Bool.or_eq_true, beq_iff_eq] at hent
      rcases hent with (h | h) | h
      · exact (succ_CLEAR_STACK hf orc vm vm' i st hi hs h hstep).1
      · exact absurd h n3
      · exact absurd h n5
    · -- LABEL: nothing moves but `ip`
      have he : simpleEffect i = some (0, 0) := by simp [simpleEffect, hlab, binOpOf, unOpOf, convOf, nilCmpOf, strAddOf, arrOpOf, mkArrayElem]
      obtain ⟨st', e1, _, _⟩ := flow_table hf hi hs he (by rw [hlab]; decide)
      obtain ⟨s2, hx, hcase⟩ := step_exec md orc vm vm' i hi hstep
      exec_unfold hlab at hx
      obtain ⟨sp, s0, h0, hA⟩ := (run_bind_ok _ _ _ _ _).mp hx
      obtain ⟨_, e0'⟩ := getSp_run _ _ _ h0
      obtain ⟨_, e1'⟩ := (run_pure_ok _ _ _ _).mp hA
      rw [e0'] at e1'
      subst e1'
      rcases hcase with ⟨_, rfl⟩ | ⟨h2, _⟩
      · refine ⟨rfl, rfl, Or.inr (Or.inl ⟨⟨hrun, ?_, st', e1⟩, Or.inl rfl⟩)⟩
        unfold handlerEntry
        cases hn : md.code[vm.ip + 1]? with
        | none => simp [hn] at hnext
        | some j => simp only [hn] at hnext ⊢; simp [hnext]
      · simp only at h2; omega

/-- the invariant of a run inside one activation: at a recorded height, or at a handler entry -/
def Good (md : Module) (hm : HMap) (vm : Vm) : Prop := AtHeight md hm vm ∨ AtHandler md hm vm

theorem step_good (hf : flowOk md hm = true) (orc : Oracle) (vm vm' : Vm) (hg : Good md hm vm) (hin : Inside md hm vm)
    (hstep : (step md orc).run vm = .ok ((), vm')) : Succ md hm vm vm' := by
  rcases hg with hg | hg
  · exact step_atHeight hf orc vm vm' hg hin hstep
  · exact step_atHandler hf orc vm vm' hg hin hstep

end

/-- `vm'` is reached from `vm` by `n` iterations of the `vm_execute` loop — each from a running machine, each with some results
of its external calls —, all of them started in states satisfying `P` -/
inductive RunsTo (md : Module) (P : Vm → Prop) : Nat → Vm → Vm → Prop
  | zero (vm : Vm) : RunsTo md P 0 vm vm
  | succ {n : Nat} {vm v1 v2 : Vm} (orc : Oracle) : vm.running = 1 → P vm → (step md orc).run vm = .ok ((), v1) →
      RunsTo md P n v1 v2 → RunsTo md P (n + 1) vm v2

/-- `n` iterations of the `vm_execute` loop as a function (`while (running == VM_RUNNING) step`), `orc k` = results of the
external calls of the step with `k` steps still to go -/
def run (md : Module) (orc : Nat → Oracle) : Nat → Vm → Except Stop Vm
  | 0, vm => .ok vm
  | n+1, vm =>
    if vm.running ≠ 1 then .ok vm else
    match (step md (orc n)).run vm with
    | .ok (_, vm') => run md orc n vm'
    | .error e => .error e

theorem run_runsTo (md : Module) (orc : Nat → Oracle) : ∀ (n : Nat) (vm vm' : Vm), run md orc n vm = .ok vm' →
    ∃ k, k ≤ n ∧ RunsTo md (fun _ => True) k vm vm' := by
  intro n
  induction n with
  | zero => intro vm vm' h; unfold run at h; cases h; exact ⟨0, Nat.le_refl _, .zero _⟩
  | succ n ih =>
    intro vm vm' h
    unfold run at h
    split at h
    · cases h; exact ⟨0, Nat.zero_le _, .zero _⟩
    · rename_i hr
      split at h
      · rename_i u v1 hs
        obtain ⟨k, hk, r⟩ := ih _ _ h
        cases u
        exact ⟨k + 1, by omega, .succ (orc n) (by omega) trivial hs r⟩
      · cases h

section
variable {md : Module} {hm : HMap}

/-- **runs inside one activation keep the invariant** -/
theorem runsTo_good (hf : flowOk md hm = true) : ∀ (n : Nat) (vm vm' : Vm), Good md hm vm → RunsTo md (Inside md hm) n vm vm' →
    vm'.pp = vm.pp ∧ vm'.stackSize = vm.stackSize ∧ (Good md hm vm' ∨ vm'.running = 3) := by
  intro n
  induction n with
  | zero => intro vm vm' hg hr; cases hr; exact ⟨rfl, rfl, Or.inl hg⟩
  | succ n ih =>
    intro vm vm' hg hr
    cases hr with
    | succ orc hrun hin hstep hrest =>
      rename_i v1
      obtain ⟨a1, a2, a3⟩ := step_good hf orc vm v1 hg hin hstep
      rcases a3 with ⟨a3, _⟩ | ⟨a3, _⟩ | a3
      · obtain ⟨b1, b2, b3⟩ := ih v1 vm' (Or.inl a3) hrest
        exact ⟨by omega, by omega, b3⟩
      · obtain ⟨b1, b2, b3⟩ := ih v1 vm' (Or.inr a3) hrest
        exact ⟨by omega, by omega, b3⟩
      · -- stopped: no further step
        cases hrest with
        | zero => exact ⟨a1, a2, Or.inr a3⟩
        | succ orc' hrun' _ _ _ => omega

end
end Never.Ver

namespace Never.Ver
open Never Never.Vm

/-- a run all of whose intermediate states satisfy `P` is a `P`-run -/
theorem runsTo_strengthen (md : Module) (P : Vm → Prop) : ∀ (n : Nat) (vm vm' : Vm), RunsTo md (fun _ => True) n vm vm' →
    (∀ k v, k < n → RunsTo md (fun _ => True) k vm v → v.running = 1 → P v) → RunsTo md P n vm vm' := by
  intro n
  induction n with
  | zero => intro vm vm' h _; cases h; exact .zero _
  | succ n ih =>
    intro vm vm' h hp
    cases h with
    | succ orc hrun _ hstep hrest =>
      rename_i v1
      refine .succ orc hrun (hp 0 vm (Nat.succ_pos _) (.zero _) hrun) hstep (ih _ _ hrest ?_)
      intro k v hk hr hv
      exact hp (k + 1) v (by omega) (.succ orc hrun trivial hstep hr) hv

end Never.Ver

namespace Never.Ver
open Never Never.Vm

/-! ### `Inside` as a decidable check on concrete runs (for non-vacuity examples) -/

def insideB (md : Module) (hm : HMap) (vm : Vm) : Bool :=
  match md.code[vm.ip]? with
  | some i =>
    i.op != .CALL && i.op != .RET && i.op != .RETHROW && i.op != .HALT && i.op != .UNHANDLED_EXCEPTION &&
    (i.op != .MK_INIT_ARRAY || (match hm[vm.ip]? with | some (some st) => stackInts vm i.w0 vm.sp == initExts st i.w0 | _ => true))
  | none => true

theorem insideB_sound {md : Module} {hm : HMap} {vm : Vm} (h : insideB md hm vm = true) : Inside md hm vm := by
  intro i hi
  unfold insideB at h
  rw [hi] at h
  simp only [Bool.and_eq_true, Bool.or_eq_true, bne_iff_ne, ne_eq] at h
  obtain ⟨⟨⟨⟨⟨c1, c2⟩, c3⟩, c4⟩, c5⟩, c6⟩ := h
  refine ⟨c1, c2, c3, c4, c5, fun hop st hst => ?_⟩
  rcases c6 with c6 | c6
  · exact absurd hop c6
  · rw [hst] at c6; simpa using c6

/-- run up to `n` steps while the machine is running and `Inside` its activation; `none` if a step is not -/
def runInB (md : Module) (hm : HMap) (orc : Nat → Oracle) : Nat → Vm → Option Vm
  | 0, vm => some vm
  | n+1, vm =>
    if vm.running ≠ 1 then some vm else
    if !insideB md hm vm then none else
    match (step md (orc n)).run vm with
    | .ok (_, v1) => runInB md hm orc n v1
    | .error _ => none

theorem runInB_runsTo (md : Module) (hm : HMap) (orc : Nat → Oracle) : ∀ (n : Nat) (vm vm' : Vm),
    runInB md hm orc n vm = some vm' → ∃ k, RunsTo md (Inside md hm) k vm vm' := by
  intro n
  induction n with
  | zero => intro vm vm' h; unfold runInB at h; cases h; exact ⟨0, .zero _⟩
  | succ n ih =>
    intro vm vm' h
    unfold runInB at h
    split at h
    · cases h; exact ⟨0, .zero _⟩
    · rename_i hr
      split at h
      · cases h
      · rename_i hb
        split at h
        · rename_i u v1 hs
          obtain ⟨k, hk⟩ := ih _ _ h
          cases u
          exact ⟨k + 1, .succ (orc n) (by omega) (insideB_sound (by simpa using hb)) hs hk⟩
        · cases h

end Never.Ver
