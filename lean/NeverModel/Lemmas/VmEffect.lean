import NeverModel.Model.Vm
set_option linter.unusedSimpArgs false
set_option linter.unusedVariables false
/-! stack-pointer effect of the arithmetic handler families of M-VM (ties `Ver.simpleEffect` to `Vm.exec`) -/
namespace Never.Vm
open Never Never.Num

theorem run_bind_ok {α β} (f : M α) (g : α → M β) (vm vm'' : Vm) (b : β) :
    (f >>= g).run vm = .ok (b, vm'') ↔ ∃ a vm', f.run vm = .ok (a, vm') ∧ (g a).run vm' = .ok (b, vm'') := by
  simp only [StateT.run, bind, StateT.bind, Except.bind]
  cases h : f vm with
  | error e => simp
  | ok p =>
    obtain ⟨a, vm'⟩ := p
    simp only [Except.ok.injEq, Prod.mk.injEq]
    constructor
    · intro hg; exact ⟨a, vm', ⟨rfl, rfl⟩, hg⟩
    · rintro ⟨a1, v1, ⟨rfl, rfl⟩, hg⟩; exact hg

theorem run_pure_ok {α} (a : α) (vm vm' : Vm) (b : α) : (pure a : M α).run vm = .ok (b, vm') ↔ b = a ∧ vm' = vm := by
  simp [StateT.run, pure, StateT.pure, Except.pure]
  constructor
  · intro h; exact ⟨h.1.symm, h.2.symm⟩
  · intro h; exact ⟨h.1.symm, h.2.symm⟩

/-- a computation that leaves the registers and the stack size alone (it may change the heap, the stack
contents, `running`/`exception`, the output) -/
def KeepsSp {α} (f : M α) : Prop :=
  ∀ vm a vm', f.run vm = .ok (a, vm') → vm'.sp = vm.sp ∧ vm'.fp = vm.fp ∧ vm'.pp = vm.pp ∧ vm'.stackSize = vm.stackSize

theorem KeepsSp.bind {α β} {f : M α} {g : α → M β} (hf : KeepsSp f) (hg : ∀ a, KeepsSp (g a)) : KeepsSp (f >>= g) := by
  intro vm b vm'' h
  obtain ⟨a, vm', h1, h2⟩ := (run_bind_ok f g vm vm'' b).mp h
  obtain ⟨a1, a2, a3, a4⟩ := hf vm a vm' h1
  obtain ⟨b1, b2, b3, b4⟩ := hg a vm' b vm'' h2
  exact ⟨b1.trans a1, b2.trans a2, b3.trans a3, b4.trans a4⟩

theorem KeepsSp.pure {α} (a : α) : KeepsSp (pure a : M α) := by
  intro vm b vm' h
  obtain ⟨_, rfl⟩ := (run_pure_ok a vm vm' b).mp h
  exact ⟨rfl, rfl, rfl, rfl⟩

theorem keeps_crash {α} (w : String) : KeepsSp (crash w : M α) := by
  intro vm a vm' h; simp [crash, throw, throwThe, MonadExceptOf.throw, StateT.run, StateT.lift, liftM, monadLift, MonadLift.monadLift, Except.bind, bind] at h

theorem keeps_exit {α} (w : String) (o : List UInt8) : KeepsSp (exitVm w o : M α) := by
  intro vm a vm' h; simp [exitVm, throw, throwThe, MonadExceptOf.throw, StateT.run, StateT.lift, liftM, monadLift, MonadLift.monadLift, Except.bind, bind] at h

theorem keeps_get : KeepsSp (get : M Vm) := by
  intro vm a vm' h
  simp [get, getThe, MonadStateOf.get, StateT.get, StateT.run, pure, Except.pure] at h
  obtain ⟨_, rfl⟩ := h; exact ⟨rfl, rfl, rfl, rfl⟩


theorem KeepsSp.get_bind {β} (g : Vm → M β)
    (h : ∀ vm a vm', (g vm).run vm = .ok (a, vm') → vm'.sp = vm.sp ∧ vm'.fp = vm.fp ∧ vm'.pp = vm.pp ∧ vm'.stackSize = vm.stackSize) :
    KeepsSp (get >>= g) := by
  intro vm b vm'' hr
  obtain ⟨a, vm', h1, h2⟩ := (run_bind_ok get g vm vm'' b).mp hr
  simp [get, getThe, MonadStateOf.get, StateT.get, StateT.run, pure, Except.pure] at h1
  obtain ⟨rfl, rfl⟩ := h1
  exact h _ _ _ h2

theorem keeps_set_of (v0 : Vm) (vm : Vm) (h : v0.sp = vm.sp ∧ v0.fp = vm.fp ∧ v0.pp = vm.pp ∧ v0.stackSize = vm.stackSize)
    (a : PUnit) (vm' : Vm) (hr : (set v0 : M PUnit).run vm = .ok (a, vm')) :
    vm'.sp = vm.sp ∧ vm'.fp = vm.fp ∧ vm'.pp = vm.pp ∧ vm'.stackSize = vm.stackSize := by
  simp [set, StateT.set, StateT.run, pure, Except.pure] at hr
  obtain ⟨_, rfl⟩ := hr; exact h

theorem keeps_rdSlot (i : Int) : KeepsSp (rdSlot i) := by
  unfold rdSlot
  apply KeepsSp.bind keeps_get; intro vm
  split
  · exact keeps_crash _
  · exact KeepsSp.pure _

theorem keeps_rdAddr (i : Int) : KeepsSp (rdAddr i) := by
  unfold rdAddr
  apply KeepsSp.bind (keeps_rdSlot i); intro s; exact KeepsSp.pure _

theorem keeps_wrSlot (i : Int) (s : Slot) : KeepsSp (wrSlot i s) := by
  unfold wrSlot
  apply KeepsSp.get_bind; intro vm a vm' h
  split at h
  · exact keeps_crash _ _ _ _ h
  · exact keeps_set_of _ vm (by exact ⟨rfl, rfl, rfl, rfl⟩) _ _ h

theorem keeps_alloc (o : Obj) : KeepsSp (alloc o) := by
  unfold alloc
  apply KeepsSp.get_bind; intro vm a vm' h
  split at h
  · exact keeps_exit _ _ _ _ _ h
  · obtain ⟨u, v1, h1, h2⟩ := (run_bind_ok _ _ vm vm' a).mp h
    have k := keeps_set_of _ vm (by exact ⟨rfl, rfl, rfl, rfl⟩) _ _ h1
    obtain ⟨_, rfl⟩ := (run_pure_ok _ v1 vm' a).mp h2
    exact k

theorem keeps_objOf (a : Nat) : KeepsSp (objOf a) := by
  unfold objOf
  apply KeepsSp.bind keeps_get; intro vm
  split
  · exact keeps_crash _
  · split
    · exact KeepsSp.pure _
    · exact keeps_crash _

theorem keeps_getInt (a : Nat) : KeepsSp (getInt a) := by
  unfold getInt; apply KeepsSp.bind (keeps_objOf a); intro o; split <;> first | exact KeepsSp.pure _ | exact keeps_crash _
theorem keeps_getLong (a : Nat) : KeepsSp (getLong a) := by
  unfold getLong; apply KeepsSp.bind (keeps_objOf a); intro o; split <;> first | exact KeepsSp.pure _ | exact keeps_crash _
theorem keeps_getFloat (a : Nat) : KeepsSp (getFloat a) := by
  unfold getFloat; apply KeepsSp.bind (keeps_objOf a); intro o; split <;> first | exact KeepsSp.pure _ | exact keeps_crash _
theorem keeps_getDouble (a : Nat) : KeepsSp (getDouble a) := by
  unfold getDouble; apply KeepsSp.bind (keeps_objOf a); intro o; split <;> first | exact KeepsSp.pure _ | exact keeps_crash _
theorem keeps_getChar (a : Nat) : KeepsSp (getChar a) := by
  unfold getChar; apply KeepsSp.bind (keeps_objOf a); intro o; split <;> first | exact KeepsSp.pure _ | exact keeps_crash _

theorem keeps_scalarOf (ty : NTy) (a : Nat) : KeepsSp (scalarOf ty a) := by
  unfold scalarOf
  cases ty <;> simp only
  · exact KeepsSp.bind (keeps_getInt a) (fun _ => KeepsSp.pure _)
  · exact KeepsSp.bind (keeps_getLong a) (fun _ => KeepsSp.pure _)
  · exact KeepsSp.bind (keeps_getFloat a) (fun _ => KeepsSp.pure _)
  · exact KeepsSp.bind (keeps_getDouble a) (fun _ => KeepsSp.pure _)
  · exact KeepsSp.bind (keeps_getChar a) (fun _ => KeepsSp.pure _)

theorem keeps_raise (e : Nat) : KeepsSp (raise e) := by
  intro v a v' h
  simp [raise, modify, modifyGet, MonadStateOf.modifyGet, StateT.modifyGet, StateT.run, pure, Except.pure] at h
  obtain ⟨_, rfl⟩ := h
  exact ⟨rfl, rfl, rfl, rfl⟩

theorem keeps_resOf (r : NRes) : KeepsSp (resOf r) := by
  unfold resOf
  cases r with
  | ok v => exact KeepsSp.pure _
  | exc e => exact KeepsSp.bind (keeps_raise e) (fun _ => KeepsSp.pure _)
  | crash w => exact keeps_crash _
  | tag => exact keeps_crash _

theorem keeps_getSp : KeepsSp getSp := by
  unfold getSp; exact KeepsSp.bind keeps_get (fun _ => KeepsSp.pure _)


theorem keeps_setSp_run (v : Int) (vm : Vm) (a : Unit) (vm' : Vm) (h : (setSp v).run vm = .ok (a, vm')) :
    vm'.sp = v ∧ vm'.fp = vm.fp ∧ vm'.pp = vm.pp ∧ vm'.stackSize = vm.stackSize ∧ vm'.running = vm.running := by
  simp [setSp, modify, modifyGet, MonadStateOf.modifyGet, StateT.modifyGet, StateT.run, pure, Except.pure] at h
  obtain ⟨_, rfl⟩ := h
  exact ⟨rfl, rfl, rfl, rfl, rfl⟩

theorem getSp_run (vm : Vm) (a : Int) (vm' : Vm) (h : getSp.run vm = .ok (a, vm')) : a = vm.sp ∧ vm' = vm := by
  simp [getSp, get, getThe, MonadStateOf.get, StateT.get, StateT.run, pure, StateT.pure, Except.pure, bind, StateT.bind, Except.bind] at h
  exact ⟨h.1.symm, h.2.symm⟩

theorem resOf_none_raised (r : NRes) (vm vm' : Vm) (h : (resOf r).run vm = .ok (none, vm')) :
    vm'.running = 2 ∧ vm'.sp = vm.sp ∧ vm'.fp = vm.fp ∧ vm'.pp = vm.pp ∧ vm'.stackSize = vm.stackSize := by
  cases r with
  | ok v => simp [resOf, StateT.run, pure, StateT.pure, Except.pure] at h
  | exc e =>
    simp [resOf, raise, modify, modifyGet, MonadStateOf.modifyGet, StateT.modifyGet, StateT.run, pure, StateT.pure, Except.pure, bind, StateT.bind, Except.bind] at h
    subst h; exact ⟨rfl, rfl, rfl, rfl, rfl⟩
  | crash w => exact absurd h (by simp [resOf, crash, throw, throwThe, MonadExceptOf.throw, StateT.run, StateT.lift, liftM, monadLift, MonadLift.monadLift, Except.bind, bind])
  | tag => exact absurd h (by simp [resOf, crash, throw, throwThe, MonadExceptOf.throw, StateT.run, StateT.lift, liftM, monadLift, MonadLift.monadLift, Except.bind, bind])

/-- what one instruction handler does to the registers: `d` slots net popped, or an exception raised with the
registers untouched -/
def PopsOrRaises (f : M Unit) (d : Int) : Prop :=
  ∀ vm vm', f.run vm = .ok ((), vm') →
    vm'.fp = vm.fp ∧ vm'.pp = vm.pp ∧ vm'.stackSize = vm.stackSize ∧
    (vm'.sp = vm.sp - d ∨ (vm'.sp = vm.sp ∧ vm'.running = 2))

/-- the 60-odd typed binary handlers: two operands popped and one result pushed, or an exception raised -/
theorem execBin_effect (ty : NTy) (bop : BinOp) : PopsOrRaises (execBin ty bop) 1 := by
  intro vm vm' h
  unfold execBin at h
  obtain ⟨sp, v0, h0, h⟩ := (run_bind_ok _ _ _ _ _).mp h
  obtain ⟨rfl, rfl⟩ := getSp_run _ _ _ h0
  obtain ⟨a1, v1, h1, h⟩ := (run_bind_ok _ _ _ _ _).mp h
  obtain ⟨k1, k2, k3, k4⟩ := keeps_rdAddr _ _ _ _ h1
  obtain ⟨a, v2, h2, h⟩ := (run_bind_ok _ _ _ _ _).mp h
  obtain ⟨l1, l2, l3, l4⟩ := keeps_scalarOf _ _ _ _ _ h2
  obtain ⟨a3, v3, h3, h⟩ := (run_bind_ok _ _ _ _ _).mp h
  obtain ⟨m1, m2, m3, m4⟩ := keeps_rdAddr _ _ _ _ h3
  obtain ⟨b, v4, h4, h⟩ := (run_bind_ok _ _ _ _ _).mp h
  obtain ⟨n1, n2, n3, n4⟩ := keeps_scalarOf _ _ _ _ _ h4
  obtain ⟨r, v5, h5, h⟩ := (run_bind_ok _ _ _ _ _).mp h
  cases r with
  | none =>
    obtain ⟨q0, q1, q2, q3, q4⟩ := resOf_none_raised _ _ _ h5
    obtain ⟨_, rfl⟩ := (run_pure_ok _ _ _ _).mp h
    refine ⟨by omega, by omega, by omega, Or.inr ⟨by omega, q0⟩⟩
  | some v =>
    obtain ⟨q1, q2, q3, q4⟩ := keeps_resOf _ _ _ _ h5
    obtain ⟨ad, v6, h6, h⟩ := (run_bind_ok _ _ _ _ _).mp h
    obtain ⟨r1, r2, r3, r4⟩ := keeps_alloc _ _ _ _ h6
    obtain ⟨u, v7, h7, h⟩ := (run_bind_ok _ _ _ _ _).mp h
    obtain ⟨s1, s2, s3, s4⟩ := keeps_wrSlot _ _ _ _ _ h7
    obtain ⟨t1, t2, t3, t4, _⟩ := keeps_setSp_run _ _ _ _ h
    refine ⟨by omega, by omega, by omega, Or.inl (by omega)⟩

theorem execUn_effect (ty : NTy) (uop : UnOp) : PopsOrRaises (execUn ty uop) 0 := by
  intro vm vm' h
  unfold execUn at h
  obtain ⟨sp, v0, h0, h⟩ := (run_bind_ok _ _ _ _ _).mp h
  obtain ⟨rfl, rfl⟩ := getSp_run _ _ _ h0
  obtain ⟨a1, v1, h1, h⟩ := (run_bind_ok _ _ _ _ _).mp h
  obtain ⟨k1, k2, k3, k4⟩ := keeps_rdAddr _ _ _ _ h1
  obtain ⟨a, v2, h2, h⟩ := (run_bind_ok _ _ _ _ _).mp h
  obtain ⟨l1, l2, l3, l4⟩ := keeps_scalarOf _ _ _ _ _ h2
  obtain ⟨r, v5, h5, h⟩ := (run_bind_ok _ _ _ _ _).mp h
  obtain ⟨q1, q2, q3, q4⟩ := keeps_resOf _ _ _ _ h5
  cases r with
  | none =>
    obtain ⟨_, rfl⟩ := (run_pure_ok _ _ _ _).mp h
    refine ⟨by omega, by omega, by omega, Or.inl (by omega)⟩
  | some v =>
    obtain ⟨ad, v6, h6, h⟩ := (run_bind_ok _ _ _ _ _).mp h
    obtain ⟨r1, r2, r3, r4⟩ := keeps_alloc _ _ _ _ h6
    obtain ⟨s1, s2, s3, s4⟩ := keeps_wrSlot _ _ _ _ _ h
    refine ⟨by omega, by omega, by omega, Or.inl (by omega)⟩

theorem execConv_effect (src dst : NTy) : PopsOrRaises (execConv src dst) 0 := by
  intro vm vm' h
  unfold execConv at h
  obtain ⟨sp, v0, h0, h⟩ := (run_bind_ok _ _ _ _ _).mp h
  obtain ⟨rfl, rfl⟩ := getSp_run _ _ _ h0
  obtain ⟨a1, v1, h1, h⟩ := (run_bind_ok _ _ _ _ _).mp h
  obtain ⟨k1, k2, k3, k4⟩ := keeps_rdAddr _ _ _ _ h1
  obtain ⟨a, v2, h2, h⟩ := (run_bind_ok _ _ _ _ _).mp h
  obtain ⟨l1, l2, l3, l4⟩ := keeps_scalarOf _ _ _ _ _ h2
  obtain ⟨r, v5, h5, h⟩ := (run_bind_ok _ _ _ _ _).mp h
  obtain ⟨q1, q2, q3, q4⟩ := keeps_resOf _ _ _ _ h5
  cases r with
  | none =>
    obtain ⟨_, rfl⟩ := (run_pure_ok _ _ _ _).mp h
    refine ⟨by omega, by omega, by omega, Or.inl (by omega)⟩
  | some v =>
    obtain ⟨ad, v6, h6, h⟩ := (run_bind_ok _ _ _ _ _).mp h
    obtain ⟨r1, r2, r3, r4⟩ := keeps_alloc _ _ _ _ h6
    obtain ⟨s1, s2, s3, s4⟩ := keeps_wrSlot _ _ _ _ _ h
    refine ⟨by omega, by omega, by omega, Or.inl (by omega)⟩


/-! ### `exec` dispatches these opcodes to the three family handlers -/
theorem exec_bin (md : Module) (ins : Instr) (orc : Oracle) (ty : NTy) (bop : BinOp) (h : binOpOf ins.op = some (ty, bop)) (vm : Vm) :
    (exec md ins orc).run vm = (execBin ty bop).run vm := by
  unfold exec
  simp only [h, getSp, bind, StateT.bind, StateT.run, get, getThe, MonadStateOf.get, StateT.get, pure, StateT.pure, Except.pure, Except.bind]

theorem exec_un (md : Module) (ins : Instr) (orc : Oracle) (ty : NTy) (uop : UnOp)
    (h0 : binOpOf ins.op = none) (h : unOpOf ins.op = some (ty, uop)) (vm : Vm) :
    (exec md ins orc).run vm = (execUn ty uop).run vm := by
  unfold exec
  simp only [h0, h, getSp, bind, StateT.bind, StateT.run, get, getThe, MonadStateOf.get, StateT.get, pure, StateT.pure, Except.pure, Except.bind]

theorem exec_conv (md : Module) (ins : Instr) (orc : Oracle) (src dst : NTy)
    (h0 : binOpOf ins.op = none) (h1 : unOpOf ins.op = none) (h : convOf ins.op = some (src, dst)) (vm : Vm) :
    (exec md ins orc).run vm = (execConv src dst).run vm := by
  unfold exec
  simp only [h0, h1, h, getSp, bind, StateT.bind, StateT.run, get, getThe, MonadStateOf.get, StateT.get, pure, StateT.pure, Except.pure, Except.bind]

end Never.Vm
