import NeverModel.Model.Verify
import NeverModel.Lemmas.VmEffectSound
import NeverModel.Lemmas.VmStkOpsA
import NeverModel.Lemmas.VmStkOpsB
import NeverModel.Lemmas.VmStkOpsC
import NeverModel.Lemmas.VerRun
set_option linter.unusedSimpArgs false
set_option linter.unusedVariables false
/-! every handler of M-VM, hence every `step`, leaves the size of the stack array alone: `StackOk` is an invariant of execution -/
namespace Never.Vm
open Never Never.Num Never.Ver

set_option maxRecDepth 8000 in
theorem kstop_JUMPZ (md : Module) (ins : Instr) (orc : Oracle) (h : ins.op = .JUMPZ) : KeepsStk (exec md ins orc) := by exec_kst h

set_option maxHeartbeats 4000000 in
set_option maxRecDepth 8000 in
/-- every handler of the effect table leaves the size of the stack array alone -/
theorem exec_keeps_stk_table (md : Module) (ins : Instr) (orc : Oracle) (p q : Nat) (h : simpleEffect ins = some (p, q)) :
    KeepsStk (exec md ins orc) := by
  cases hb : binOpOf ins.op with
  | some tb =>
    obtain ⟨ty, bop⟩ := tb
    intro vm a vm' hr; cases a; rw [exec_bin md ins orc ty bop hb] at hr; exact kst_execBin ty bop vm () vm' hr
  | none =>
  cases hu : unOpOf ins.op with
  | some tu =>
    obtain ⟨ty, uop⟩ := tu
    intro vm a vm' hr; cases a; rw [exec_un md ins orc ty uop hb hu] at hr; exact kst_execUn ty uop vm () vm' hr
  | none =>
  cases hc : convOf ins.op with
  | some tc =>
    obtain ⟨src, dst⟩ := tc
    intro vm a vm' hr; cases a; rw [exec_conv md ins orc src dst hb hu hc] at hr; exact kst_execConv src dst vm () vm' hr
  | none =>
  cases hn : nilCmpOf ins.op with
  | some tn => obtain ⟨k, nl, ng⟩ := tn; exact kstop_nilCmp md ins orc k nl ng hb hu hc hn
  | none =>
  cases hs : strAddOf ins.op with
  | some ts => obtain ⟨ty, sl⟩ := ts; exact kstop_strAdd md ins orc ty sl hb hu hc hn hs
  | none =>
  cases ha : arrOpOf ins.op with
  | some ta => obtain ⟨ty, kind⟩ := ta; exact kstop_arrOp md ins orc ty kind hb hu hc hn hs ha
  | none =>
  cases hm : mkArrayElem ins.op with
  | some dflt => exact kstop_mkArray md ins orc dflt hb hu hc hn hs ha hm
  | none =>
  cases hop : ins.op
  all_goals (first
    | (rw [hop] at hb; simp [binOpOf] at hb; done) | (rw [hop] at hu; simp [unOpOf] at hu; done)
    | (rw [hop] at hc; simp [convOf] at hc; done) | (rw [hop] at hn; simp [nilCmpOf] at hn; done)
    | (rw [hop] at hs; simp [strAddOf] at hs; done) | (rw [hop] at ha; simp [arrOpOf] at ha; done)
    | (rw [hop] at hm; simp [mkArrayElem] at hm; done) | skip)
  all_goals simp only [simpleEffect, hop, binOpOf, unOpOf, convOf, nilCmpOf, strAddOf, arrOpOf, mkArrayElem, Option.isSome_none, Bool.false_eq_true, if_false] at h
  all_goals (first | (cases h; done) | skip)
  case JUMPZ => exact kstop_JUMPZ md ins orc hop
  all_goals first
    | exact kstop_INT md ins orc hop
    | exact kstop_LONG md ins orc hop
    | exact kstop_FLOAT md ins orc hop
    | exact kstop_DOUBLE md ins orc hop
    | exact kstop_CHAR md ins orc hop
    | exact kstop_STRING md ins orc hop
    | exact kstop_C_NULL md ins orc hop
    | exact kstop_ID_TOP md ins orc hop
    | exact kstop_ID_LOCAL md ins orc hop
    | exact kstop_ID_DIM_LOCAL md ins orc hop
    | exact kstop_ID_DIM_SLICE md ins orc hop
    | exact kstop_ID_GLOBAL md ins orc hop
    | exact kstop_OP_DUP_INT md ins orc hop
    | exact kstop_COPYGLOB md ins orc hop
    | exact kstop_NIL_RECORD_REF md ins orc hop
    | exact kstop_PUSH_EXCEPT md ins orc hop
    | exact kstop_VEC_DEREF md ins orc hop
    | exact kstop_VECREF_VEC_DEREF md ins orc hop
    | exact kstop_DUP md ins orc hop
    | exact kstop_ID_FUNC_ADDR md ins orc hop
    | exact kstop_ID_FUNC_ENTRY md ins orc hop
    | exact kstop_ENUMTYPE_RECORD_TO_INT md ins orc hop
    | exact kstop_VECREF_DEREF md ins orc hop
    | exact kstop_LABEL md ins orc hop
    | exact kstop_LINE md ins orc hop
    | exact kstop_FUNC_DEF md ins orc hop
    | exact kstop_FUNC_OBJ md ins orc hop
    | exact kstop_OP_INC_INT md ins orc hop
    | exact kstop_OP_DEC_INT md ins orc hop
    | exact kstop_OP_ADD_STRING md ins orc hop
    | exact kstop_OP_EQ_STRING md ins orc hop
    | exact kstop_OP_NEQ_STRING md ins orc hop
    | exact kstop_OP_EQ_C_PTR md ins orc hop
    | exact kstop_OP_NEQ_C_PTR md ins orc hop
    | exact kstop_OP_EQ_NIL md ins orc hop
    | exact kstop_OP_NEQ_NIL md ins orc hop
    | exact kstop_SLICE_ARRAY md ins orc hop
    | exact kstop_SLICE_RANGE md ins orc hop
    | exact kstop_SLICE_SLICE md ins orc hop
    | exact kstop_SLICE_STRING md ins orc hop
    | exact kstop_STRING_DEREF md ins orc hop
    | exact kstop_VECREF_VEC_INDEX_DEREF md ins orc hop
    | exact kstop_OP_ASS_INT md ins orc hop
    | exact kstop_OP_ASS_LONG md ins orc hop
    | exact kstop_OP_ASS_FLOAT md ins orc hop
    | exact kstop_OP_ASS_DOUBLE md ins orc hop
    | exact kstop_OP_ASS_CHAR md ins orc hop
    | exact kstop_OP_ASS_STRING md ins orc hop
    | exact kstop_OP_ASS_C_PTR md ins orc hop
    | exact kstop_OP_ASS_ARRAY md ins orc hop
    | exact kstop_OP_ASS_RECORD md ins orc hop
    | exact kstop_OP_ASS_FUNC md ins orc hop
    | exact kstop_OP_ASS_RECORD_NIL md ins orc hop
    | exact kstop_REWRITE md ins orc hop
    | exact kstop_ARRAY_APPEND md ins orc hop
    | exact kstop_MK_RANGE md ins orc hop
    | exact kstop_RECORD md ins orc hop
    | exact kstop_GLOBAL_VEC md ins orc hop
    | exact kstop_ALLOC md ins orc hop
    | exact kstop_RANGE_DEREF md ins orc hop
    | exact kstop_RECORD_UNPACK md ins orc hop
    | exact kstop_SLICE_DEREF md ins orc hop
    | exact kstop_ARRAY_DEREF md ins orc hop
    | exact kstop_ARRAYREF_DEREF md ins orc hop
    | exact kstop_BUILD_IN md ins orc hop


theorem wrP_size {vm vm' : Vm} {i : Int} {s : Slot} (h : wrP vm i s = .ok vm') :
    vm'.stack.size = vm.stack.size ∧ vm'.stackSize = vm.stackSize := by
  unfold wrP at h
  split at h
  · cases h
  · cases h; exact ⟨by simp, rfl⟩

theorem markP_size {vm vm' : Vm} {ra : Nat} (h : markP vm ra = .ok vm') :
    vm'.stack.size = vm.stack.size ∧ vm'.stackSize = vm.stackSize := by
  unfold markP at h
  simp only [bind, Except.bind] at h
  split at h
  · cases h
  · rename_i v0 h0
    obtain ⟨e0, _⟩ := checkP_regs h0
    subst e0
    split at h
    · cases h
    · rename_i v1 h1
      have r1 := wrP_size h1
      split at h
      · cases h
      · rename_i v2 h2
        have r2 := wrP_size h2
        split at h
        · cases h
        · rename_i v3 h3
          have r3 := wrP_size h3
          split at h
          · cases h
          · rename_i v4 h4
            have r4 := wrP_size h4
            split at h
            · cases h
            · rename_i v5 h5
              have r5 := wrP_size h5
              cases h
              simp only at r1 r2 r3 r4 r5
              refine ⟨?_, ?_⟩ <;> (try simp only) <;> omega

theorem slideLoopP_size (q : Nat) : ∀ (n : Nat) (vm vm' : Vm), slideLoopP q n vm = .ok vm' →
    vm'.stack.size = vm.stack.size ∧ vm'.stackSize = vm.stackSize := by
  intro n
  induction n with
  | zero => intro vm vm' h; unfold slideLoopP at h; cases h; exact ⟨rfl, rfl⟩
  | succ n ih =>
    intro vm vm' h
    unfold slideLoopP at h
    simp only [bind, Except.bind] at h
    split at h
    · cases h
    · split at h
      · cases h
      · rename_i v1 h1
        have r1 := wrP_size h1
        have r2 := ih _ _ h
        simp only at r1
        exact ⟨by omega, by omega⟩

theorem slideP_size {vm vm' : Vm} {q m : Nat} (h : slideP vm q m = .ok vm') :
    vm'.stack.size = vm.stack.size ∧ vm'.stackSize = vm.stackSize := by
  unfold slideP at h
  split at h
  · cases h; exact ⟨rfl, rfl⟩
  · split at h
    · cases h; exact ⟨rfl, rfl⟩
    · exact slideLoopP_size q m { vm with sp := vm.sp - q - m } _ h

theorem retP_size {vm vm' : Vm} (h : retP vm = .ok vm') :
    vm'.stack.size = vm.stack.size ∧ vm'.stackSize = vm.stackSize := by
  unfold retP at h
  simp only [bind, Except.bind] at h
  split at h
  · cases h
  · split at h
    · cases h
    · split at h
      · cases h
      · split at h
        · cases h
        · split at h
          · cases h
          · rename_i v hv
            have rv := wrP_size hv
            split at h
            · cases h
            · cases h
              exact rv

theorem kst_fillStrs (arr : Nat) : ∀ (ss : List (List UInt8)) (i : Nat), KeepsStk (fillStrs arr i ss) := by
  intro ss
  induction ss with
  | nil => intro i; unfold fillStrs; kst
  | cons s rest ih => intro i; unfold fillStrs; have := ih (i + 1); kst

theorem kst_pushParams : ∀ (ps : List Param), KeepsStk (pushParams ps) := by
  intro ps
  induction ps with
  | nil => unfold pushParams; kst
  | cons p rest ih =>
    have := kst_fillStrs
    unfold pushParams
    cases p <;> (dsimp only; kst)

set_option maxHeartbeats 4000000 in
set_option maxRecDepth 8000 in
/-- **every handler of M-VM leaves the size of the stack array (and the configured stack size) alone** -/
theorem exec_keeps_stk (md : Module) (ins : Instr) (orc : Oracle) : KeepsStk (exec md ins orc) := by
  cases he : simpleEffect ins with
  | some pq => exact exec_keeps_stk_table md ins orc pq.1 pq.2 he
  | none =>
    intro vm u vm' h
    cases u
    have gcs : ∀ {v v' : Vm}, gcRunPure v = .ok v' → v'.stack.size = v.stack.size ∧ v'.stackSize = v.stackSize := by
      intro v v' hg
      obtain ⟨_, _, _, _, _, _, g7, g8⟩ := gcRunPure_regs hg
      exact ⟨by rw [g8], g7⟩
    rcases simpleEffect_none_cases ins he with hop | hop | hop | hop | hop | hop | hop | hop | hop | hop | hop | hop | hop | hop
    · exact absurd h (exec_unmodelled_fails md ins orc _ _ (Or.inl hop))
    · exact absurd h (exec_unmodelled_fails md ins orc _ _ (Or.inr (Or.inl hop)))
    · exact absurd h (exec_unmodelled_fails md ins orc _ _ (Or.inr (Or.inr hop)))
    · have := (exec_jump md ins orc hop _ _ h)
      -- only `ip` moves
      exec_unfold hop at h
      obtain ⟨sp, s0, h0, hA⟩ := (run_bind_ok _ _ _ _ _).mp h
      obtain ⟨_, e0'⟩ := getSp_run _ _ _ h0
      rw [e0'] at hA
      rw [modify_run _ _ _ _ hA]; exact ⟨rfl, rfl⟩
    · have hk : KeepsStk (exec md ins orc) := by exec_kst hop
      exact hk _ _ _ h
    · exact markP_size (exec_MARK md ins orc hop _ _ h)
    · obtain ⟨a, env, fip, _, _, e⟩ := exec_CALL md ins orc hop _ _ h
      rw [e]; unfold callP; split <;> exact ⟨rfl, rfl⟩
    · rcases exec_SLIDE md ins orc hop _ _ h with ⟨_, hg0⟩ | ⟨_, v1, hsl, hgc⟩
      · have b := gcs hg0; exact ⟨by omega, by omega⟩
      · have a := slideP_size hsl; have b := gcs hgc; exact ⟨by omega, by omega⟩
    · rw [exec_CLEAR_STACK md ins orc hop _ _ h]; exact ⟨rfl, rfl⟩
    · obtain ⟨v1, hr, hgc⟩ := exec_RET md ins orc hop _ _ h
      have a := retP_size hr; have b := gcs hgc; exact ⟨by omega, by omega⟩
    · obtain ⟨v1, v2, hr, hgc, e⟩ := exec_RETHROW md ins orc hop _ _ h
      have a := retP_size hr; have b := gcs hgc
      rw [e]; exact ⟨by simp only; omega, by simp only; omega⟩
    · have hk : KeepsStk (exec md ins orc) := by
        unfold exec
        simp only [hop, binOpOf, unOpOf, convOf, nilCmpOf, strAddOf, arrOpOf, mkArrayElem]
        have := kst_pushParams
        kst
      exact hk _ _ _ h
    · have hk : KeepsStk (exec md ins orc) := by exec_kst hop
      exact hk _ _ _ h
    · rw [exec_HALT md ins orc hop _ _ h]; exact ⟨rfl, rfl⟩

/-- **`StackOk` is an invariant of execution**: one `step` leaves the size of the stack array and the configured stack size alone -/
theorem step_keeps_stackOk (md : Module) (orc : Oracle) (vm vm' : Vm) (hs : StackOk vm)
    (hstep : (step md orc).run vm = .ok ((), vm')) : StackOk vm' ∧ vm'.stackSize = vm.stackSize := by
  cases hi : md.code[vm.ip]? with
  | none =>
    exfalso
    unfold step at hstep
    obtain ⟨v0, s0, h0, hA⟩ := (run_bind_ok _ _ _ _ _).mp hstep
    obtain ⟨e0, e0'⟩ := get_run _ _ _ h0
    rw [e0, e0', hi] at hA
    exact crash_run _ _ _ _ hA
  | some i =>
    obtain ⟨s2, he, hcase⟩ := step_exec md orc vm vm' i hi hstep
    obtain ⟨a1, a2⟩ := exec_keeps_stk md i orc _ _ _ he
    simp only at a1 a2
    unfold StackOk at hs ⊢
    rcases hcase with ⟨_, e⟩ | ⟨_, hd, _, e⟩
    · rw [e]; exact ⟨by omega, a2⟩
    · rw [e]; exact ⟨by simp only; omega, a2⟩

end Never.Vm
