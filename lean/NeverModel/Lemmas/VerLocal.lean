import NeverModel.Lemmas.VerRun
set_option linter.unusedSimpArgs false
set_option linter.unusedVariables false
/-! register effects of one `step` on the frame opcodes, and the stack slot the frame-relative opcodes address -/
namespace Never.Ver
open Never Never.Vm

/-- a step whose handler cannot raise ends in the handler's final state -/
theorem step_noraise (md : Module) (orc : Oracle) (vm vm' : Vm) (i : Instr) (hi : md.code[vm.ip]? = some i)
    (hstep : (step md orc).run vm = .ok ((), vm'))
    (hnr : ∀ s2, (exec md i orc).run { vm with ip := vm.ip + 1 } = .ok ((), s2) → s2.running ≠ 2) :
    (exec md i orc).run { vm with ip := vm.ip + 1 } = .ok ((), vm') := by
  obtain ⟨s2, hx, hcase⟩ := step_exec md orc vm vm' i hi hstep
  rcases hcase with ⟨_, rfl⟩ | ⟨h2, _⟩
  · exact hx
  · exact absurd h2 (hnr s2 hx)

/-- one `step` on `MARK` from a running machine: the five frame words are pushed (`sp' = fp' = sp + 5`), `pp` is left alone, control
is behind the MARK -/
theorem step_MARK_regs (md : Module) (orc : Oracle) (vm vm' : Vm) (i : Instr) (hi : md.code[vm.ip]? = some i) (hop : i.op = .MARK)
    (hrun : vm.running = 1) (hstep : (step md orc).run vm = .ok ((), vm')) :
    markP { vm with ip := vm.ip + 1 } i.w0 = .ok vm' ∧
    vm'.sp = vm.sp + 5 ∧ vm'.fp = vm.sp + 5 ∧ vm'.pp = vm.pp ∧ vm'.gp = vm.gp ∧ vm'.ip = vm.ip + 1 ∧ vm'.running = 1 ∧
    vm'.stackSize = vm.stackSize := by
  have hx := step_noraise md orc vm vm' i hi hstep (fun s2 h2 => by
    have := (markP_regs (exec_MARK md i orc hop _ _ h2)).2.2.2.2.2.1
    simp only at this; omega)
  have hm := exec_MARK md i orc hop _ _ hx
  obtain ⟨r1, r2, r3, r4, r5, r6, r7, _, _⟩ := markP_regs hm
  simp only at r1 r2 r3 r4 r5 r6 r7
  exact ⟨hm, r1, r2, r3, r4, r5, by omega, r7⟩

/-- one `step` on `SLIDE q m`: `sp` drops by `q`, nothing else moves -/
theorem step_SLIDE_regs (md : Module) (orc : Oracle) (vm vm' : Vm) (i : Instr) (hi : md.code[vm.ip]? = some i) (hop : i.op = .SLIDE)
    (hrun : vm.running = 1) (hstep : (step md orc).run vm = .ok ((), vm')) :
    vm'.sp = vm.sp - (i.w0 : Int) ∧ vm'.fp = vm.fp ∧ vm'.pp = vm.pp ∧ vm'.gp = vm.gp ∧ vm'.ip = vm.ip + 1 ∧ vm'.running = 1 ∧
    vm'.stackSize = vm.stackSize := by
  have key : ∀ s2, (exec md i orc).run { vm with ip := vm.ip + 1 } = .ok ((), s2) →
      s2.sp = vm.sp - (i.w0 : Int) ∧ s2.fp = vm.fp ∧ s2.pp = vm.pp ∧ s2.gp = vm.gp ∧ s2.ip = vm.ip + 1 ∧ s2.running = 1 ∧
      s2.stackSize = vm.stackSize := by
    intro s2 h2
    rcases exec_SLIDE md i orc hop _ _ h2 with ⟨hq, hg0⟩ | ⟨hq, v1, hsl, hgc⟩
    · obtain ⟨b1, b2, b3, b4, b5, b6, b7, _⟩ := gcRunPure_regs hg0
      simp only at b1 b2 b3 b4 b5 b6 b7
      refine ⟨?_, b2, b3, b4, b5, by rw [b6]; exact hrun, b7⟩
      rw [b1, hq]; simp
    · obtain ⟨a1, a2, a3, a4, a5, a6, a7⟩ := slideP_regs hsl
      obtain ⟨b1, b2, b3, b4, b5, b6, b7, _⟩ := gcRunPure_regs hgc
      simp only [hq, if_false] at a1 a2 a3 a4 a5 a6 a7
      exact ⟨by omega, by omega, by omega, by omega, by omega, by omega, by omega⟩
  have hx := step_noraise md orc vm vm' i hi hstep (fun s2 h2 => by have := (key s2 h2).2.2.2.2.2.1; omega)
  exact key vm' hx

/-- one `step` on `CLEAR_STACK n` (any `sp`, any `running` left by the dispatch): `fp = pp`, `sp = pp + n`, running behind it -/
theorem step_CLEAR_STACK_regs (md : Module) (orc : Oracle) (vm vm' : Vm) (i : Instr) (hi : md.code[vm.ip]? = some i)
    (hop : i.op = .CLEAR_STACK) (hstep : (step md orc).run vm = .ok ((), vm')) :
    vm'.sp = vm.pp + (i.w0 : Int) ∧ vm'.fp = vm.pp ∧ vm'.pp = vm.pp ∧ vm'.gp = vm.gp ∧ vm'.ip = vm.ip + 1 ∧ vm'.running = 1 ∧
    vm'.stackSize = vm.stackSize := by
  have hx := step_noraise md orc vm vm' i hi hstep (fun s2 h2 => by
    rw [exec_CLEAR_STACK md i orc hop _ _ h2]; simp [clearStackP])
  rw [exec_CLEAR_STACK md i orc hop _ _ hx]
  exact ⟨rfl, rfl, rfl, rfl, rfl, rfl, rfl⟩

/-! ### the slot a frame-relative opcode addresses -/

theorem rdSlot_val {vm vm' : Vm} {i : Int} {s : Slot} (h : (rdSlot i).run vm = .ok (s, vm')) :
    ¬ (i < 0 ∨ i ≥ vm.stackSize) ∧ vm' = vm := by
  have hro := readOnly_rdSlot _ _ _ _ h
  unfold rdSlot at h
  obtain ⟨v0, v0', h3, h4⟩ := (run_bind_ok _ _ _ _ _).mp h
  obtain ⟨e0, e0'⟩ := get_run _ _ _ h3
  rw [e0, e0'] at h4
  split at h4
  · exact absurd h4 (crash_run _ _ _ _)
  · rename_i hb; exact ⟨hb, hro⟩

/-- **the handler does read the slot `sp − d`**: for a frame-relative opcode with distance `frameDist i = some d`, a handler that
completes (or raises) on a machine with stack pointer `sp` has read stack slot `sp − d`, which therefore lies inside the stack array
(an index outside it is a crash of the model: an out-of-bounds access of the C array) -/
theorem exec_reads_frame_slot (md : Module) (i : Instr) (orc : Oracle) (d : Int) (hd : frameDist i = some d) (vm vm' : Vm)
    (h : (exec md i orc).run vm = .ok ((), vm')) : 0 ≤ vm.sp - d ∧ vm.sp - d < vm.stackSize := by
  unfold frameDist at hd
  split at hd <;> rename_i hop
  -- the nine opcodes whose first action is `rdAddr (sp - d)`
  all_goals first
    | (cases hd
       exec_unfold hop at h
       obtain ⟨sp, s0, h0, hA⟩ := (run_bind_ok _ _ _ _ _).mp h
       obtain ⟨e0, e0'⟩ := getSp_run _ _ _ h0
       rw [e0, e0'] at hA
       obtain ⟨a, s1, h1, hB⟩ := (run_bind_ok _ _ _ _ _).mp hA
       have := (rdAddr_val h1).1
       omega)
    | skip
  · -- DUP: `sp++`, stack check, then the read of `sp + 1 - w0`
    cases hd
    exec_unfold hop at h
    obtain ⟨sp, s0, h0, hA⟩ := (run_bind_ok _ _ _ _ _).mp h
    obtain ⟨e0, e0'⟩ := getSp_run _ _ _ h0
    rw [e0, e0'] at hA
    obtain ⟨u1, s1, h1, hB⟩ := (run_bind_ok _ _ _ _ _).mp hA
    obtain ⟨_, _, _, t4, _⟩ := keeps_setSp_run _ _ _ _ h1
    obtain ⟨u2, s2, h2, hC⟩ := (run_bind_ok _ _ _ _ _).mp hB
    obtain ⟨_, _, _, c4⟩ := keeps_checkStack _ _ _ h2
    obtain ⟨sl, s3, h3, hD⟩ := (run_bind_ok _ _ _ _ _).mp hC
    have := (rdSlot_val h3).1
    omega
  · -- REWRITE: the function object on top first, then the slot `sp - w0`
    cases hd
    exec_unfold hop at h
    obtain ⟨sp, s0, h0, hA⟩ := (run_bind_ok _ _ _ _ _).mp h
    obtain ⟨e0, e0'⟩ := getSp_run _ _ _ h0
    rw [e0, e0'] at hA
    obtain ⟨a, s1, h1, hB⟩ := (run_bind_ok _ _ _ _ _).mp hA
    obtain ⟨_, _, e1⟩ := rdAddr_val h1
    rw [e1] at hB
    obtain ⟨pr, s2, h2, hC⟩ := (run_bind_ok _ _ _ _ _).mp hB
    obtain ⟨_, _, _, c4⟩ := keeps_getFunc _ _ _ _ h2
    obtain ⟨gp, fip⟩ := pr
    simp only at hC
    obtain ⟨a2, s3, h3, hD⟩ := (run_bind_ok _ _ _ _ _).mp hC
    have := (rdAddr_val h3).1
    omega
  · cases hd

section
variable {md : Module} {hm : HMap}

/-- in a function body, the slot a frame-relative opcode addresses lies in the running function's own frame: above `pp` (the
caller's data and the five frame words end at `pp`) and at or below the top of stack -/
theorem local_in_frame (hf : flowOk md hm = true) {a : Nat} {i : Instr} {st : AbsSt} {d : Int}
    (hi : md.code[a]? = some i) (hs : hm[a]? = some (some st)) (hd : frameDist i = some d) (hfn : inFunction md a = true)
    (sp pp : Int) (hsp : sp = pp + (fnParamsAt md a : Int) + (st.h : Int)) : pp < sp - d ∧ sp - d ≤ sp := by
  have hr := frameOkAt_reach hi hs hd (frame_at hf hi)
  unfold reachB at hr
  unfold inFunction at hfn
  have htop : topAt (funcStarts md) a = false := by simpa using hfn
  simp only [htop, Bool.false_or, Bool.and_eq_true, decide_eq_true_eq] at hr
  unfold fnParamsAt at hsp
  omega

end
end Never.Ver
