import NeverModel.Lemmas.VmIpSound
import NeverModel.Lemmas.Frame
set_option linter.unusedSimpArgs false
set_option linter.unusedVariables false
/-! the handlers of the frame opcodes of M-VM (MARK, CALL, SLIDE, CLEAR_STACK, RET, RETHROW, HALT, UNHANDLED_EXCEPTION) expressed by
the pure frame operations of Model/Vm.lean, their register effects, and the decomposition of one `step` into fetch / handler /
exception dispatch -/
namespace Never.Vm
open Never Never.Num

theorem liftE_run {α} (r : Except Stop α) (vm : Vm) (a : α) (vm' : Vm) (h : (liftE r : M α).run vm = .ok (a, vm')) :
    r = .ok a ∧ vm' = vm := by
  cases r with
  | error e => simp [liftE, throw, throwThe, MonadExceptOf.throw, StateT.run, StateT.lift, liftM, monadLift, MonadLift.monadLift, Except.bind, bind] at h
  | ok x =>
    simp [liftE, StateT.run, pure, StateT.pure, Except.pure] at h
    exact ⟨by rw [h.1], h.2.symm⟩

theorem crash_run {α} (w : String) (vm : Vm) (a : α) (vm' : Vm) : ¬ ((crash w : M α).run vm = .ok (a, vm')) := by
  simp [crash, throw, throwThe, MonadExceptOf.throw, StateT.run, StateT.lift, liftM, monadLift, MonadLift.monadLift, Except.bind, bind]

theorem exitVm_run {α} (w : String) (o : List UInt8) (vm : Vm) (a : α) (vm' : Vm) : ¬ ((exitVm w o : M α).run vm = .ok (a, vm')) := by
  simp [exitVm, throw, throwThe, MonadExceptOf.throw, StateT.run, StateT.lift, liftM, monadLift, MonadLift.monadLift, Except.bind, bind]

/-- **one `step` = fetch, `ip++`, handler, exception dispatch.**  A completed step ran the handler of the fetched instruction on
the machine with `ip` advanced; if the handler left `running = 2` the machine continues at the handler address the exception
table gives for the faulting address, otherwise the handler's final state is the step's. -/
theorem step_exec (md : Module) (orc : Oracle) (vm vm' : Vm) (ins : Instr)
    (hf : md.code[vm.ip]? = some ins) (h : (step md orc).run vm = .ok ((), vm')) :
    ∃ s2, (exec md ins orc).run { vm with ip := vm.ip + 1 } = .ok ((), s2) ∧
      ((s2.running ≠ 2 ∧ vm' = s2) ∨
       (s2.running = 2 ∧ ∃ hd, excHandler md.exctab md.excCount (s2.ip - 1) = some hd ∧ vm' = { s2 with ip := hd, running := 1 })) := by
  unfold step at h
  obtain ⟨v0, s0, h0, hA⟩ := (run_bind_ok _ _ _ _ _).mp h
  obtain ⟨e0, e0'⟩ := get_run _ _ _ h0
  rw [e0, e0'] at hA
  rw [hf] at hA
  dsimp only at hA
  obtain ⟨u1, s1, h1, hB⟩ := (run_bind_ok _ _ _ _ _).mp hA
  have e1 := set_run _ _ _ _ h1
  obtain ⟨u2, s2, h2, hC⟩ := (run_bind_ok _ _ _ _ _).mp hB
  obtain ⟨v3, s3, h3, hD⟩ := (run_bind_ok _ _ _ _ _).mp hC
  obtain ⟨e3, e3'⟩ := get_run _ _ _ h3
  rw [e3, e3'] at hD
  subst e1
  refine ⟨s2, by cases u2; exact h2, ?_⟩
  by_cases hr2 : s2.running = 2
  · have hb : (s2.running == 2) = true := by simp [hr2]
    simp only [hb, if_true] at hD
    split at hD
    · rename_i hnd hh
      have e4 := set_run _ _ _ _ hD
      exact Or.inr ⟨hr2, hnd, hh, e4⟩
    · exact absurd hD (crash_run _ _ _ _)
  · have hb : (s2.running == 2) = false := by simp [hr2]
    simp only [hb] at hD
    obtain ⟨_, e5⟩ := (run_pure_ok _ _ _ _).mp hD
    exact Or.inl ⟨hr2, e5⟩

/-! ### the pure frame operations: register effects of any completed run -/

theorem wrP_regs {vm vm' : Vm} {i : Int} {s : Slot} (h : wrP vm i s = .ok vm') :
    vm'.sp = vm.sp ∧ vm'.fp = vm.fp ∧ vm'.pp = vm.pp ∧ vm'.gp = vm.gp ∧ vm'.ip = vm.ip ∧ vm'.running = vm.running ∧
    vm'.stackSize = vm.stackSize ∧ vm'.exception = vm.exception ∧ vm'.gc = vm.gc ∧ 0 ≤ i ∧ i < vm.stackSize := by
  unfold wrP at h
  split at h
  · cases h
  · rename_i hb
    cases h
    exact ⟨rfl, rfl, rfl, rfl, rfl, rfl, rfl, rfl, rfl, by omega, by omega⟩

theorem checkP_regs {vm vm' : Vm} (h : checkP vm = .ok vm') : vm' = vm ∧ vm.sp < vm.stackSize := by
  unfold checkP at h
  split at h
  · cases h
  · cases h; exact ⟨rfl, by omega⟩

/-- MARK: `sp` and `fp` become `sp + 5`; `pp`, `ip`, `running` and the stack size are untouched; the five words fit -/
theorem markP_regs {vm vm' : Vm} {ra : Nat} (h : markP vm ra = .ok vm') :
    vm'.sp = vm.sp + 5 ∧ vm'.fp = vm.sp + 5 ∧ vm'.pp = vm.pp ∧ vm'.gp = vm.gp ∧ vm'.ip = vm.ip ∧ vm'.running = vm.running ∧
    vm'.stackSize = vm.stackSize ∧ -1 ≤ vm.sp ∧ vm.sp + 5 < vm.stackSize := by
  unfold markP at h
  simp only [bind, Except.bind] at h
  split at h
  · cases h
  · rename_i v0 h0
    obtain ⟨e0, b0⟩ := checkP_regs h0
    subst e0
    split at h
    · cases h
    · rename_i v1 h1
      have r1 := wrP_regs h1
      split at h
      · cases h
      · rename_i v2 h2
        have r2 := wrP_regs h2
        split at h
        · cases h
        · rename_i v3 h3
          have r3 := wrP_regs h3
          split at h
          · cases h
          · rename_i v4 h4
            have r4 := wrP_regs h4
            split at h
            · cases h
            · rename_i v5 h5
              have r5 := wrP_regs h5
              cases h
              simp only at b0 r1 r2 r3 r4 r5
              refine ⟨?_, ?_, ?_, ?_, ?_, ?_, ?_, ?_, ?_⟩ <;> (try simp only) <;> omega

theorem rdP_ok_bounds {vm : Vm} {i : Int} {s : Slot} (h : rdP vm i = .ok s) : 0 ≤ i ∧ i < vm.stackSize := by
  unfold rdP at h
  split at h
  · cases h
  · omega

theorem slideLoopP_regs (q : Nat) : ∀ (n : Nat) (vm vm' : Vm), slideLoopP q n vm = .ok vm' →
    vm'.sp = vm.sp + n ∧ vm'.fp = vm.fp ∧ vm'.pp = vm.pp ∧ vm'.gp = vm.gp ∧ vm'.ip = vm.ip ∧ vm'.running = vm.running ∧
    vm'.stackSize = vm.stackSize ∧ vm'.gc = vm.gc := by
  intro n
  induction n with
  | zero => intro vm vm' h; unfold slideLoopP at h; cases h; simp
  | succ n ih =>
    intro vm vm' h
    unfold slideLoopP at h
    simp only [bind, Except.bind] at h
    split at h
    · cases h
    · split at h
      · cases h
      · rename_i v1 h1
        have r1 := wrP_regs h1
        have r2 := ih _ _ h
        simp only at r1
        refine ⟨?_, ?_, ?_, ?_, ?_, ?_, ?_, ?_⟩ <;> first | omega | (rw [r2.2.2.2.2.2.2.2, r1.2.2.2.2.2.2.2.2.1])
        all_goals simp_all

/-- SLIDE q m (q > 0): `sp` drops by `q`; the other registers are untouched -/
theorem slideP_regs {vm vm' : Vm} {q m : Nat} (h : slideP vm q m = .ok vm') :
    vm'.sp = (if q = 0 then vm.sp else vm.sp - q) ∧ vm'.fp = vm.fp ∧ vm'.pp = vm.pp ∧ vm'.gp = vm.gp ∧ vm'.ip = vm.ip ∧
    vm'.running = vm.running ∧ vm'.stackSize = vm.stackSize := by
  unfold slideP at h
  by_cases hq : q = 0
  · simp [hq] at h; subst h; simp [hq]
  · have hq' : (q == 0) = false := by simpa using hq
    simp only [hq', Bool.false_eq_true, if_false] at h
    by_cases hm : m = 0
    · simp [hm] at h; subst h; simp [hq]
    · have hm' : (m == 0) = false := by simpa using hm
      simp only [hm', Bool.false_eq_true, if_false] at h
      obtain ⟨a1, a2, a3, a4, a5, a6, a7, _⟩ := slideLoopP_regs q m _ _ h
      simp only at a1 a2 a3 a4 a5 a6 a7
      simp only [hq, if_false]
      refine ⟨by omega, a2, a3, a4, a5, a6, a7⟩

theorem gcRunPure_regs {vm vm' : Vm} (h : gcRunPure vm = .ok vm') :
    vm'.sp = vm.sp ∧ vm'.fp = vm.fp ∧ vm'.pp = vm.pp ∧ vm'.gp = vm.gp ∧ vm'.ip = vm.ip ∧ vm'.running = vm.running ∧
    vm'.stackSize = vm.stackSize ∧ vm'.stack = vm.stack := by
  unfold gcRunPure at h
  split at h
  · cases h; simp
  · dsimp only at h
    split at h
    · cases h; simp
    · cases h

theorem gcRun_run {vm vm' : Vm} {u : Unit} (h : gcRun.run vm = .ok (u, vm')) : gcRunPure vm = .ok vm' := by
  unfold gcRun at h
  obtain ⟨v0, s0, h0, hA⟩ := (run_bind_ok _ _ _ _ _).mp h
  obtain ⟨e0, e0'⟩ := get_run _ _ _ h0
  rw [e0, e0'] at hA
  cases hg : gcRunPure vm with
  | error e => rw [hg] at hA; simp [throw, throwThe, MonadExceptOf.throw, StateT.run, StateT.lift, liftM, monadLift, MonadLift.monadLift, Except.bind, bind] at hA
  | ok v1 =>
    rw [hg] at hA
    have := set_run _ _ _ _ hA
    rw [this]

/-- RET: `sp` becomes `fp − 4` (the slot of the saved `pp`, now holding the result); the stack size is untouched -/
theorem retP_regs {vm vm' : Vm} (h : retP vm = .ok vm') :
    vm'.sp = vm.fp - 4 ∧ vm'.stackSize = vm.stackSize ∧ vm'.running = vm.running ∧ 4 ≤ vm.fp ∧ vm.fp < vm.stackSize := by
  unfold retP at h
  simp only [bind, Except.bind] at h
  split at h
  · cases h
  · rename_i g hg
    split at h
    · cases h
    · rename_i r hr
      split at h
      · cases h
      · rename_i p hp
        split at h
        · cases h
        · split at h
          · cases h
          · rename_i v hv
            have rv := wrP_regs hv
            split at h
            · cases h
            · cases h
              have b1 := rdP_ok_bounds hp
              have b2 := rdP_ok_bounds hr
              refine ⟨?_, ?_, ?_, ?_, ?_⟩ <;> (try simp only) <;> omega

/-! ### the handlers of the frame opcodes -/

macro "exec_unfold" h:ident " at " l:ident : tactic => `(tactic|
  (unfold exec at $l:ident
   simp only [$h:ident, binOpOf, unOpOf, convOf, nilCmpOf, strAddOf, arrOpOf, mkArrayElem] at $l:ident))

theorem exec_MARK (md : Module) (ins : Instr) (orc : Oracle) (hop : ins.op = .MARK) (vm vm' : Vm)
    (h : (exec md ins orc).run vm = .ok ((), vm')) : markP vm ins.w0 = .ok vm' := by
  exec_unfold hop at h
  obtain ⟨sp, s0, h0, hA⟩ := (run_bind_ok _ _ _ _ _).mp h
  obtain ⟨e0, e0'⟩ := getSp_run _ _ _ h0
  subst e0'
  obtain ⟨v1, s1, h1, hB⟩ := (run_bind_ok _ _ _ _ _).mp hA
  obtain ⟨e1, e1'⟩ := get_run _ _ _ h1
  subst e1 e1'
  obtain ⟨v2, s2, h2, hC⟩ := (run_bind_ok _ _ _ _ _).mp hB
  obtain ⟨e2, e2'⟩ := liftE_run _ _ _ _ h2
  subst e2'
  have := set_run _ _ _ _ hC
  rw [e2, this]

theorem exec_CLEAR_STACK (md : Module) (ins : Instr) (orc : Oracle) (hop : ins.op = .CLEAR_STACK) (vm vm' : Vm)
    (h : (exec md ins orc).run vm = .ok ((), vm')) : vm' = clearStackP vm ins.w0 := by
  exec_unfold hop at h
  obtain ⟨sp, s0, h0, hA⟩ := (run_bind_ok _ _ _ _ _).mp h
  obtain ⟨e0, e0'⟩ := getSp_run _ _ _ h0
  subst e0'
  exact modify_run _ _ _ _ hA

theorem exec_SLIDE (md : Module) (ins : Instr) (orc : Oracle) (hop : ins.op = .SLIDE) (vm vm' : Vm)
    (h : (exec md ins orc).run vm = .ok ((), vm')) :
    (ins.w0 = 0 ∧ gcRunPure vm = .ok vm') ∨ (ins.w0 ≠ 0 ∧ ∃ v1, slideP vm ins.w0 ins.w1 = .ok v1 ∧ gcRunPure v1 = .ok vm') := by
  exec_unfold hop at h
  obtain ⟨sp, s0, h0, hA⟩ := (run_bind_ok _ _ _ _ _).mp h
  obtain ⟨e0, e0'⟩ := getSp_run _ _ _ h0
  subst e0'
  by_cases hq : ins.w0 = 0
  · left
    simp only [hq, beq_self_eq_true, if_true] at hA
    exact ⟨hq, gcRun_run hA⟩
  · right
    have hq' : (ins.w0 == 0) = false := by simpa using hq
    simp only [hq', Bool.false_eq_true, if_false] at hA
    obtain ⟨v1, s1, h1, hB⟩ := (run_bind_ok _ _ _ _ _).mp hA
    obtain ⟨e1, e1'⟩ := get_run _ _ _ h1
    subst e1 e1'
    obtain ⟨v2, s2, h2, hC⟩ := (run_bind_ok _ _ _ _ _).mp hB
    obtain ⟨e2, e2'⟩ := liftE_run _ _ _ _ h2
    subst e2'
    obtain ⟨u3, s3, h3, hD⟩ := (run_bind_ok _ _ _ _ _).mp hC
    have e3 := set_run _ _ _ _ h3
    subst e3
    exact ⟨hq, s3, e2, gcRun_run hD⟩

theorem exec_RET (md : Module) (ins : Instr) (orc : Oracle) (hop : ins.op = .RET) (vm vm' : Vm)
    (h : (exec md ins orc).run vm = .ok ((), vm')) : ∃ v1, retP vm = .ok v1 ∧ gcRunPure v1 = .ok vm' := by
  exec_unfold hop at h
  obtain ⟨sp, s0, h0, hA⟩ := (run_bind_ok _ _ _ _ _).mp h
  obtain ⟨e0, e0'⟩ := getSp_run _ _ _ h0
  subst e0'
  obtain ⟨v1, s1, h1, hB⟩ := (run_bind_ok _ _ _ _ _).mp hA
  obtain ⟨e1, e1'⟩ := get_run _ _ _ h1
  subst e1 e1'
  obtain ⟨v2, s2, h2, hC⟩ := (run_bind_ok _ _ _ _ _).mp hB
  obtain ⟨e2, e2'⟩ := liftE_run _ _ _ _ h2
  subst e2'
  obtain ⟨u3, s1, h3, hB⟩ := (run_bind_ok _ _ _ _ _).mp hC
  have e3 := set_run _ _ _ _ h3
  subst e3
  obtain ⟨u4, s4, h4, hD⟩ := (run_bind_ok _ _ _ _ _).mp hB
  have g := gcRun_run h4
  have hne : (Opc.RET == Opc.RETHROW) = false := by decide
  simp only [hne, Bool.false_eq_true, if_false] at hD
  have := ((run_pure_ok _ _ _ _).mp hD).2
  subst this
  exact ⟨s1, e2, g⟩

theorem exec_RETHROW (md : Module) (ins : Instr) (orc : Oracle) (hop : ins.op = .RETHROW) (vm vm' : Vm)
    (h : (exec md ins orc).run vm = .ok ((), vm')) : ∃ v1 v2, retP vm = .ok v1 ∧ gcRunPure v1 = .ok v2 ∧ vm' = { v2 with running := 2 } := by
  exec_unfold hop at h
  obtain ⟨sp, s0, h0, hA⟩ := (run_bind_ok _ _ _ _ _).mp h
  obtain ⟨e0, e0'⟩ := getSp_run _ _ _ h0
  subst e0'
  obtain ⟨v1, s1, h1, hB⟩ := (run_bind_ok _ _ _ _ _).mp hA
  obtain ⟨e1, e1'⟩ := get_run _ _ _ h1
  subst e1 e1'
  obtain ⟨v2, s2, h2, hC⟩ := (run_bind_ok _ _ _ _ _).mp hB
  obtain ⟨e2, e2'⟩ := liftE_run _ _ _ _ h2
  subst e2'
  obtain ⟨u3, s1, h3, hB⟩ := (run_bind_ok _ _ _ _ _).mp hC
  have e3 := set_run _ _ _ _ h3
  subst e3
  obtain ⟨u4, s4, h4, hD⟩ := (run_bind_ok _ _ _ _ _).mp hB
  have g := gcRun_run h4
  simp only [beq_self_eq_true, if_true] at hD
  have := modify_run _ _ _ _ hD
  exact ⟨s1, s4, e2, g, this⟩

/-- CALL: the function object on top of the stack gives the environment and the address; `callP` does the rest -/
theorem exec_CALL (md : Module) (ins : Instr) (orc : Oracle) (hop : ins.op = .CALL) (vm vm' : Vm)
    (h : (exec md ins orc).run vm = .ok ((), vm')) :
    ∃ a env fip, (rdAddr vm.sp).run vm = .ok (a, vm) ∧ (getFunc a).run vm = .ok ((env, fip), vm) ∧ vm' = callP vm env fip := by
  exec_unfold hop at h
  obtain ⟨sp, s0, h0, hA⟩ := (run_bind_ok _ _ _ _ _).mp h
  obtain ⟨e0, e0'⟩ := getSp_run _ _ _ h0
  subst e0 e0'
  obtain ⟨a, s1, h1, hB⟩ := (run_bind_ok _ _ _ _ _).mp hA
  have e1 := readOnly_rdAddr _ _ _ _ h1
  subst e1
  obtain ⟨p, s2, h2, hC⟩ := (run_bind_ok _ _ _ _ _).mp hB
  obtain ⟨env, fip⟩ := p
  have ro : ReadOnly (getFunc a) := by
    unfold getFunc
    refine ReadOnly.bind (readOnly_objOf a) (fun o => ?_)
    split
    · exact ReadOnly.pure _
    · exact ReadOnly.crash _
  have e2 := ro _ _ _ h2
  subst e2
  exact ⟨a, env, fip, h1, h2, modify_run _ _ _ _ hC⟩

theorem exec_UNHANDLED (md : Module) (ins : Instr) (orc : Oracle) (hop : ins.op = .UNHANDLED_EXCEPTION) (vm vm' : Vm)
    (h : (exec md ins orc).run vm = .ok ((), vm')) : vm'.running = 3 := by
  exec_unfold hop at h
  obtain ⟨sp, s0, h0, hA⟩ := (run_bind_ok _ _ _ _ _).mp h
  obtain ⟨v1, s1, h1, hB⟩ := (run_bind_ok _ _ _ _ _).mp hA
  obtain ⟨u2, s2, h2, hC⟩ := (run_bind_ok _ _ _ _ _).mp hB
  have := modify_run _ _ _ _ hC
  rw [this]

theorem retP_bounds {vm vm' : Vm} (h : retP vm = .ok vm') : 4 ≤ vm.fp ∧ vm.fp < vm.stackSize ∧ 0 ≤ vm.sp ∧ vm.sp < vm.stackSize := by
  unfold retP at h
  simp only [bind, Except.bind] at h
  split at h
  · cases h
  · split at h
    · cases h
    · rename_i r hr
      split at h
      · cases h
      · rename_i p hp
        split at h
        · cases h
        · rename_i t ht
          have b1 := rdP_ok_bounds hp
          have b2 := rdP_ok_bounds hr
          have b3 := rdP_ok_bounds ht
          omega

theorem exec_HALT (md : Module) (ins : Instr) (orc : Oracle) (hop : ins.op = .HALT) (vm vm' : Vm)
    (h : (exec md ins orc).run vm = .ok ((), vm')) : vm' = { vm with running := 0 } := by
  exec_unfold hop at h
  obtain ⟨sp, s0, h0, hA⟩ := (run_bind_ok _ _ _ _ _).mp h
  obtain ⟨e0, e0'⟩ := getSp_run _ _ _ h0
  subst e0'
  exact modify_run _ _ _ _ hA

end Never.Vm
