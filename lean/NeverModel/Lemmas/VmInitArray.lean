import NeverModel.Model.Verify
import NeverModel.Model.VerifyRun
import NeverModel.Lemmas.VmFrameOps
import NeverModel.Lemmas.HeapBasic
import NeverModel.Lemmas.Index
set_option linter.unusedSimpArgs false
set_option linter.unusedVariables false
/-! stack-pointer movement of the two remaining data opcodes outside the verifier's table: PUSH_PARAM (pushes the entry
parameters) and MK_INIT_ARRAY (pops its constant extents, then one slot per element) -/
namespace Never.Vm
open Never Never.Num

/-! ### PUSH_PARAM -/

theorem keeps_fillStrs (arr : Nat) : ∀ (ss : List (List UInt8)) (i : Nat), KeepsSp (fillStrs arr i ss) := by
  intro ss
  induction ss with
  | nil => intro i; unfold fillStrs; keeps
  | cons s rest ih => intro i; unfold fillStrs; have := ih (i + 1); keeps

theorem kip_fillStrs (arr : Nat) : ∀ (ss : List (List UInt8)) (i : Nat), KeepsIp (fillStrs arr i ss) := by
  intro ss
  induction ss with
  | nil => intro i; unfold fillStrs; kip
  | cons s rest ih => intro i; unfold fillStrs; have := ih (i + 1); kip

/-- `pushParams ps` pushes exactly one slot per parameter -/
theorem pushParams_mov : ∀ (ps : List Param) (s : Int), MovAt s (ps.length : Int) (pushParams ps) := by
  intro ps
  induction ps with
  | nil => intro s; unfold pushParams; exact MovAt.of_keeps (KeepsSp.pure _)
  | cons p rest ih =>
    intro s
    have tail : ∀ a : Nat, MovAt s ((rest.length : Int) + 1) (do pushAddr a; pushParams rest) := fun a =>
      MovAt.bind (pushAddr_mov _ _) (fun _ => ih _) (by omega)
    have hlen : (((p :: rest).length : Nat) : Int) = 0 + ((rest.length : Int) + 1) := by simp
    unfold pushParams
    cases p with
    | int v => exact MovAt.bind (MovAt.of_keeps (by keeps)) (fun a => by simpa using tail a) hlen
    | float b => exact MovAt.bind (MovAt.of_keeps (by keeps)) (fun a => by simpa using tail a) hlen
    | str st =>
      refine MovAt.bind (d1 := 0) (MovAt.of_keeps (by keeps)) (fun a => ?_) hlen
      exact MovAt.bind (d1 := 0) (MovAt.of_keeps (by keeps)) (fun a => by simpa using tail a) (by omega)
    | strArr ss =>
      refine MovAt.bind (d1 := 0) (MovAt.of_keeps (by keeps)) (fun a => ?_) hlen
      refine MovAt.bind (d1 := 0) (MovAt.of_keeps (keeps_fillStrs _ _ _)) (fun _ => ?_) (d2 := (rest.length : Int) + 1) (by omega)
      exact MovAt.bind (d1 := 0) (MovAt.of_keeps (by keeps)) (fun a => by simpa using tail a) (by omega)

theorem kip_pushParams : ∀ (ps : List Param), KeepsIp (pushParams ps) := by
  intro ps
  induction ps with
  | nil => unfold pushParams; kip
  | cons p rest ih =>
    have := kip_fillStrs
    unfold pushParams
    cases p <;> (dsimp only; kip)

theorem mov_PUSH_PARAM (md : Module) (ins : Instr) (orc : Oracle) (s : Int) (h : ins.op = .PUSH_PARAM) :
    MovAt s (md.params.length : Int) (exec md ins orc) := by
  unfold exec
  simp only [h, binOpOf, unOpOf, convOf, nilCmpOf, strAddOf, arrOpOf, mkArrayElem]
  refine MovAt.getSp_bind ?_
  have := pushParams_mov md.params.reverse s
  simpa using this

set_option maxRecDepth 8000 in
theorem kipop_PUSH_PARAM (md : Module) (ins : Instr) (orc : Oracle) (h : ins.op = .PUSH_PARAM) : KeepsIp (exec md ins orc) := by
  unfold exec
  simp only [h, binOpOf, unOpOf, convOf, nilCmpOf, strAddOf, arrOpOf, mkArrayElem]
  have := kip_pushParams
  kip

/-! ### MK_INIT_ARRAY -/

theorem stackInts_congr (vm vm2 : Vm) (h1 : vm2.stackSize = vm.stackSize) (h2 : vm2.stack = vm.stack) (h3 : vm2.gc = vm.gc) :
    ∀ (n : Nat) (s : Int), stackInts vm2 n s = stackInts vm n s := by
  intro n
  induction n with
  | zero => intro s; rfl
  | succ n ih => intro s; unfold stackInts; rw [h1, h2, h3, ih]

theorem rdAddr_val {vm vm' : Vm} {i : Int} {a : Nat} (h : (rdAddr i).run vm = .ok (a, vm')) :
    ¬ (i < 0 ∨ i ≥ vm.stackSize) ∧ a = (vm.stack[i.toNat]?.getD .unknown).asAddr ∧ vm' = vm := by
  have hro := readOnly_rdAddr _ _ _ _ h
  unfold rdAddr rdSlot at h
  obtain ⟨s, v1, h1, h2⟩ := (run_bind_ok _ _ _ _ _).mp h
  obtain ⟨v0, v0', h3, h4⟩ := (run_bind_ok _ _ _ _ _).mp h1
  obtain ⟨e0, e0'⟩ := get_run _ _ _ h3
  subst e0 e0'
  split at h4
  · exact absurd h4 (crash_run _ _ _ _)
  · rename_i hb
    obtain ⟨e1, e1'⟩ := (run_pure_ok _ _ _ _).mp h4
    obtain ⟨e2, _⟩ := (run_pure_ok _ _ _ _).mp h2
    subst e1 e2
    exact ⟨hb, rfl, hro⟩

theorem objOf_val {vm vm' : Vm} {a : Nat} {o : Obj} (h : (objOf a).run vm = .ok (o, vm')) :
    ¬ (a > vm.gc.mem.size) ∧ vm.gc.mem.objAt a = some o ∧ vm' = vm := by
  have hro := readOnly_objOf _ _ _ _ h
  unfold objOf at h
  obtain ⟨v0, v0', h3, h4⟩ := (run_bind_ok _ _ _ _ _).mp h
  obtain ⟨e0, e0'⟩ := get_run _ _ _ h3
  subst e0 e0'
  split at h4
  · exact absurd h4 (crash_run _ _ _ _)
  · rename_i hb
    split at h4
    · rename_i o' ho
      obtain ⟨e1, _⟩ := (run_pure_ok _ _ _ _).mp h4
      subst e1
      exact ⟨hb, ho, hro⟩
    · exact absurd h4 (crash_run _ _ _ _)

theorem getInt_val {vm vm' : Vm} {a : Nat} {v : BitVec 32} (h : (getInt a).run vm = .ok (v, vm')) :
    ¬ (a > vm.gc.mem.size) ∧ vm.gc.mem.objAt a = some (.int v) ∧ vm' = vm := by
  unfold getInt at h
  obtain ⟨o, v1, h1, h2⟩ := (run_bind_ok _ _ _ _ _).mp h
  obtain ⟨b, ho, e⟩ := objOf_val h1
  subst e
  split at h2
  · obtain ⟨e1, e2⟩ := (run_pure_ok _ _ _ _).mp h2
    subst e1 e2
    exact ⟨b, ho, rfl⟩
  · exact absurd h2 (crash_run _ _ _ _)

/-- `popInts n` returns the integers the top `n` slots point at and changes nothing but `sp` -/
theorem popInts_reads : ∀ (n : Nat) (vm vm' : Vm) (l : List Int), (popInts n).run vm = .ok (l, vm') →
    stackInts vm n vm.sp = some l ∧ vm'.stack = vm.stack ∧ vm'.gc = vm.gc ∧ vm'.stackSize = vm.stackSize := by
  intro n
  induction n with
  | zero =>
    intro vm vm' l h
    unfold popInts at h
    obtain ⟨e1, e2⟩ := (run_pure_ok _ _ _ _).mp h
    subst e1 e2
    exact ⟨rfl, rfl, rfl, rfl⟩
  | succ n ih =>
    intro vm vm' l h
    unfold popInts at h
    obtain ⟨sp, v0, h0, h⟩ := (run_bind_ok _ _ _ _ _).mp h
    obtain ⟨e0, e0'⟩ := getSp_run _ _ _ h0
    rw [e0, e0'] at h
    obtain ⟨a, v1, h1, h⟩ := (run_bind_ok _ _ _ _ _).mp h
    obtain ⟨b1, ea, e1⟩ := rdAddr_val h1
    rw [e1] at h
    obtain ⟨v, v2, h2, h⟩ := (run_bind_ok _ _ _ _ _).mp h
    obtain ⟨b2, ev, e2⟩ := getInt_val h2
    rw [e2] at h
    obtain ⟨u, v3, h3, h⟩ := (run_bind_ok _ _ _ _ _).mp h
    have e3 := modify_run _ _ _ _ h3
    rw [e3] at h
    obtain ⟨rest, v4, h4, h⟩ := (run_bind_ok _ _ _ _ _).mp h
    obtain ⟨i1, i2, i3, i4⟩ := ih _ _ _ h4
    obtain ⟨e5, e6⟩ := (run_pure_ok _ _ _ _).mp h
    rw [e5, e6]
    simp only at i1 i2 i3 i4
    refine ⟨?_, i2, i3, i4⟩
    unfold stackInts
    rw [if_neg b1]
    simp only
    rw [← ea, if_neg b2, ev]
    simp only
    rw [← stackInts_congr vm { vm with sp := vm.sp - 1 } rfl rfl rfl, i1]
    rfl

/-- an object just allocated is the object read back at its address -/
theorem alloc_objOf {vm vm1 vm2 : Vm} {o o' : Obj} {loc : Nat} (h : (alloc o).run vm = .ok (loc, vm1))
    (h' : (objOf loc).run vm1 = .ok (o', vm2)) : o' = o := by
  obtain ⟨b, ho, _⟩ := objOf_val h'
  unfold alloc at h
  obtain ⟨v0, v0', h3, h4⟩ := (run_bind_ok _ _ _ _ _).mp h
  obtain ⟨e0, e0'⟩ := get_run _ _ _ h3
  rw [e0, e0'] at h4
  split at h4
  · exact absurd h4 (exitVm_run _ _ _ _ _)
  · rename_i g l hg
    obtain ⟨u, v1, h5, h6⟩ := (run_bind_ok _ _ _ _ _).mp h4
    have e5 := set_run _ _ _ _ h5
    obtain ⟨e6, e7⟩ := (run_pure_ok _ _ _ _).mp h6
    rw [e7, e5] at ho
    simp only at ho
    unfold Gc.alloc at hg
    simp only at hg
    split at hg
    · cases hg
    · have hmem : g.mem = vm.gc.mem.setObj vm.gc.free (some o) ∧ l = vm.gc.free := by
        split at hg <;> (cases hg; exact ⟨rfl, rfl⟩)
      rw [hmem.1, e6, hmem.2, Mem.objAt_setObj] at ho
      split at ho
      · cases ho; rfl
      · rename_i hn
        have hlt : ¬ vm.gc.free < vm.gc.mem.size := by intro hl; exact hn ⟨rfl, hl⟩
        rw [Mem.objAt_of_size_le (by omega)] at ho
        cases ho

theorem getArrObj_after_alloc {vm vm1 vm2 : Vm} {dv dv' : List (Nat × Nat)} {es es' : List Nat} {loc : Nat}
    (h : (alloc (.arr dv es)).run vm = .ok (loc, vm1)) (h' : (getArrObj loc).run vm1 = .ok ((dv', es'), vm2)) :
    dv' = dv ∧ es' = es := by
  unfold getArrObj at h'
  obtain ⟨o, v1, h1, h2⟩ := (run_bind_ok _ _ _ _ _).mp h'
  have := alloc_objOf h h1
  subst this
  simp only at h2
  obtain ⟨e1, _⟩ := (run_pure_ok _ _ _ _).mp h2
  cases e1
  exact ⟨rfl, rfl⟩


/-- **MK_INIT_ARRAY moves `sp` by what its extents say.**  If the top `dims` slots point at the integers `ds` (top first) and the
element count they give fits 32 bits, a completed handler has popped the `dims` extents and one slot per element and pushed the
array: `sp' = sp − dims − count + 1`; `fp`, `pp` and the stack size are untouched. -/
theorem exec_MK_INIT_ARRAY (md : Module) (ins : Instr) (orc : Oracle) (hop : ins.op = .MK_INIT_ARRAY) (vm vm' : Vm) (ds : List Int)
    (hpop : stackInts vm ins.w0 vm.sp = some ds) (hc : Ver.extsCount ds < 4294967296)
    (h : (exec md ins orc).run vm = .ok ((), vm')) :
    vm'.sp = vm.sp - (ins.w0 : Int) - (Ver.extsCount ds : Int) + 1 ∧ vm'.fp = vm.fp ∧ vm'.pp = vm.pp ∧ vm'.stackSize = vm.stackSize := by
  exec_unfold hop at h
  obtain ⟨sp, s0, h0, h⟩ := (run_bind_ok _ _ _ _ _).mp h
  obtain ⟨e0, e0'⟩ := getSp_run _ _ _ h0
  rw [e0'] at h
  obtain ⟨exts, v1, h1, h⟩ := (run_bind_ok _ _ _ _ _).mp h
  obtain ⟨a1, a2, a3, a4⟩ := popInts_mov ins.w0 vm.sp vm exts v1 rfl h1
  obtain ⟨r1, _, _, _⟩ := popInts_reads _ _ _ _ h1
  rw [hpop] at r1
  have eds : exts = ds := by cases r1; rfl
  obtain ⟨arr, v2, h2, h⟩ := (run_bind_ok _ _ _ _ _).mp h
  obtain ⟨b1, b2, b3, b4⟩ := keeps_allocArr _ _ _ _ h2
  have h2' : (alloc (.arr (Idx.dimMult (exts.map fun e => (e % 4294967296).toNat)).1
      (List.replicate (Idx.dimMult (exts.map fun e => (e % 4294967296).toNat)).2 0))).run v1 = .ok (arr, v2) := by
    simpa [allocArr] using h2
  obtain ⟨p, v3, h3, h⟩ := (run_bind_ok _ _ _ _ _).mp h
  obtain ⟨dv, es⟩ := p
  obtain ⟨c1, c2, c3, c4⟩ := keeps_getArrObj _ _ _ _ h3
  obtain ⟨_, ees⟩ := getArrObj_after_alloc h2' h3
  have hlen : es.length = Ver.extsCount ds := by
    rw [ees, List.length_replicate, Idx.dimMult_total, eds]
    exact Nat.mod_eq_of_lt hc
  simp only at h
  obtain ⟨elems, v4, h4, h⟩ := (run_bind_ok _ _ _ _ _).mp h
  obtain ⟨d1, d2, d3, d4⟩ := popAddrs_mov es.length v3.sp v3 elems v4 rfl h4
  obtain ⟨u5, v5, h5, h⟩ := (run_bind_ok _ _ _ _ _).mp h
  obtain ⟨f1, f2, f3, f4⟩ := keeps_setObj _ _ _ _ _ h5
  obtain ⟨s6, v6, h6, h⟩ := (run_bind_ok _ _ _ _ _).mp h
  obtain ⟨g1, g2⟩ := getSp_run _ _ _ h6
  rw [g1, g2] at h
  obtain ⟨u7, v7, h7, h⟩ := (run_bind_ok _ _ _ _ _).mp h
  obtain ⟨i1, i2, i3, i4, _⟩ := keeps_setSp_run _ _ _ _ h7
  obtain ⟨u8, v8, h8, h⟩ := (run_bind_ok _ _ _ _ _).mp h
  obtain ⟨j1, j2, j3, j4⟩ := keeps_checkStack _ _ _ h8
  obtain ⟨s9, v9, h9, h⟩ := (run_bind_ok _ _ _ _ _).mp h
  obtain ⟨k1, k2⟩ := getSp_run _ _ _ h9
  rw [k2] at h
  obtain ⟨r, v10, h10, h⟩ := (run_bind_ok _ _ _ _ _).mp h
  obtain ⟨l1, l2, l3, l4⟩ := keeps_alloc _ _ _ _ h10
  obtain ⟨m1, m2, m3, m4⟩ := keeps_wrSlot _ _ _ _ _ h
  refine ⟨by omega, by omega, by omega, by omega⟩

set_option maxRecDepth 8000 in
theorem kipop_MK_INIT_ARRAY (md : Module) (ins : Instr) (orc : Oracle) (h : ins.op = .MK_INIT_ARRAY) : KeepsIp (exec md ins orc) := by exec_kip h

end Never.Vm
