import NeverModel.Lemmas.VmIp
set_option linter.unusedSimpArgs false
set_option linter.unusedVariables false
/-! per-opcode: the handler leaves `ip` alone and leaves the running state only by raising or stopping (generated list) -/
namespace Never.Vm
open Never Never.Num

set_option maxRecDepth 8000 in
theorem kipop_VECREF_DEREF (md : Module) (ins : Instr) (orc : Oracle) (h : ins.op = .VECREF_DEREF) : KeepsIp (exec md ins orc) := by exec_kip h

set_option maxRecDepth 8000 in
theorem kipop_LABEL (md : Module) (ins : Instr) (orc : Oracle) (h : ins.op = .LABEL) : KeepsIp (exec md ins orc) := by exec_kip h

set_option maxRecDepth 8000 in
theorem kipop_LINE (md : Module) (ins : Instr) (orc : Oracle) (h : ins.op = .LINE) : KeepsIp (exec md ins orc) := by exec_kip h

set_option maxRecDepth 8000 in
theorem kipop_FUNC_DEF (md : Module) (ins : Instr) (orc : Oracle) (h : ins.op = .FUNC_DEF) : KeepsIp (exec md ins orc) := by exec_kip h

set_option maxRecDepth 8000 in
theorem kipop_FUNC_OBJ (md : Module) (ins : Instr) (orc : Oracle) (h : ins.op = .FUNC_OBJ) : KeepsIp (exec md ins orc) := by exec_kip h

set_option maxRecDepth 8000 in
theorem kipop_OP_INC_INT (md : Module) (ins : Instr) (orc : Oracle) (h : ins.op = .OP_INC_INT) : KeepsIp (exec md ins orc) := by exec_kip h

set_option maxRecDepth 8000 in
theorem kipop_OP_DEC_INT (md : Module) (ins : Instr) (orc : Oracle) (h : ins.op = .OP_DEC_INT) : KeepsIp (exec md ins orc) := by exec_kip h

set_option maxRecDepth 8000 in
theorem kipop_OP_ADD_STRING (md : Module) (ins : Instr) (orc : Oracle) (h : ins.op = .OP_ADD_STRING) : KeepsIp (exec md ins orc) := by exec_kip h

set_option maxRecDepth 8000 in
theorem kipop_OP_EQ_STRING (md : Module) (ins : Instr) (orc : Oracle) (h : ins.op = .OP_EQ_STRING) : KeepsIp (exec md ins orc) := by exec_kip h

set_option maxRecDepth 8000 in
theorem kipop_OP_NEQ_STRING (md : Module) (ins : Instr) (orc : Oracle) (h : ins.op = .OP_NEQ_STRING) : KeepsIp (exec md ins orc) := by exec_kip h

set_option maxRecDepth 8000 in
theorem kipop_OP_EQ_C_PTR (md : Module) (ins : Instr) (orc : Oracle) (h : ins.op = .OP_EQ_C_PTR) : KeepsIp (exec md ins orc) := by exec_kip h

set_option maxRecDepth 8000 in
theorem kipop_OP_NEQ_C_PTR (md : Module) (ins : Instr) (orc : Oracle) (h : ins.op = .OP_NEQ_C_PTR) : KeepsIp (exec md ins orc) := by exec_kip h

set_option maxRecDepth 8000 in
theorem kipop_OP_EQ_NIL (md : Module) (ins : Instr) (orc : Oracle) (h : ins.op = .OP_EQ_NIL) : KeepsIp (exec md ins orc) := by exec_kip h

set_option maxRecDepth 8000 in
theorem kipop_OP_NEQ_NIL (md : Module) (ins : Instr) (orc : Oracle) (h : ins.op = .OP_NEQ_NIL) : KeepsIp (exec md ins orc) := by exec_kip h

set_option maxRecDepth 8000 in
theorem kipop_SLICE_ARRAY (md : Module) (ins : Instr) (orc : Oracle) (h : ins.op = .SLICE_ARRAY) : KeepsIp (exec md ins orc) := by exec_kip h

set_option maxRecDepth 8000 in
theorem kipop_SLICE_RANGE (md : Module) (ins : Instr) (orc : Oracle) (h : ins.op = .SLICE_RANGE) : KeepsIp (exec md ins orc) := by exec_kip h

set_option maxRecDepth 8000 in
theorem kipop_SLICE_SLICE (md : Module) (ins : Instr) (orc : Oracle) (h : ins.op = .SLICE_SLICE) : KeepsIp (exec md ins orc) := by exec_kip h

set_option maxRecDepth 8000 in
theorem kipop_SLICE_STRING (md : Module) (ins : Instr) (orc : Oracle) (h : ins.op = .SLICE_STRING) : KeepsIp (exec md ins orc) := by exec_kip h

set_option maxRecDepth 8000 in
theorem kipop_STRING_DEREF (md : Module) (ins : Instr) (orc : Oracle) (h : ins.op = .STRING_DEREF) : KeepsIp (exec md ins orc) := by exec_kip h

set_option maxRecDepth 8000 in
theorem kipop_VECREF_VEC_INDEX_DEREF (md : Module) (ins : Instr) (orc : Oracle) (h : ins.op = .VECREF_VEC_INDEX_DEREF) : KeepsIp (exec md ins orc) := by exec_kip h

set_option maxRecDepth 8000 in
theorem kipop_OP_ASS_INT (md : Module) (ins : Instr) (orc : Oracle) (h : ins.op = .OP_ASS_INT) : KeepsIp (exec md ins orc) := by exec_kip h

set_option maxRecDepth 8000 in
theorem kipop_OP_ASS_LONG (md : Module) (ins : Instr) (orc : Oracle) (h : ins.op = .OP_ASS_LONG) : KeepsIp (exec md ins orc) := by exec_kip h

end Never.Vm
