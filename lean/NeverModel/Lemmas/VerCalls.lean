import NeverModel.Lemmas.VerLocal
import NeverModel.Lemmas.VmStkSound
set_option linter.unusedSimpArgs false
set_option linter.unusedVariables false
/-! calls and returns: the frame records MARK pushes, as a ghost list beside the machine; the global invariant -/
namespace Never.Ver
open Never Never.Vm

/-- `pp` is the bottom value or the position of a live record (the one the running function was entered through) -/
def PPIn (bot pp : Int) (recs : List Rec) : Prop := pp = bot ∨ ∃ r, r ∈ recs ∧ r.F = pp

/-- the three words RET reads through are in place, and returning through the record lands at the recorded height of its
return address: `F − 4`, the slot the result is copied to, is `pp_saved + nparams + h(ra)` -/
def RecData (md : Module) (hm : HMap) (vm : Vm) (r : Rec) : Prop :=
  slot vm (r.F - 4) = .stk r.pp ∧ slot vm (r.F - 1) = .stk r.fp ∧ slot vm r.F = .ip r.ra ∧
  ∃ st, hm[r.ra]? = some (some st) ∧ r.F - 4 = r.pp + (fnParamsAt md r.ra : Int) + (st.h : Int)

/-- the live records, innermost first, form the chain RET walks: each saved `fp` is the record below, each saved `pp` a record
below (or the bottom value) -/
def WF (md : Module) (hm : HMap) (bot : Int) (vm : Vm) : List Rec → Prop
  | [] => True
  | r :: rs => r.fp = topF bot rs ∧ PPIn bot r.pp rs ∧ RecData md hm vm r ∧ WF md hm bot vm rs

/-- **the global invariant**: the stack array has its size; the machine is at its recorded height or at a handler entry; `fp` and
`pp` are what the live records say; the records are intact -/
def Sound (md : Module) (hm : HMap) (bot : Int) (vm : Vm) (recs : List Rec) : Prop :=
  StackOk vm ∧ Good md hm vm ∧ vm.fp = topF bot recs ∧ PPIn bot vm.pp recs ∧ WF md hm bot vm recs

/-- "function objects hold entry addresses of functions of the right arity": the function value a CALL finds is nil (address 0:
the VM raises nil_pointer) or the entry of a function with as many parameters as arguments lie above the frame record -/
def CallOk (md : Module) (vm : Vm) : Prop :=
  ∀ env fip, calleeOf vm = some (env, fip) → fip = 0 ∨ (fip ∈ funcStarts md ∧ vm.sp - 1 = vm.fp + (fnParamsAt md fip : Int))

/-- the side conditions of one step that the verifier does not establish:
 * "frame words are not overwritten": the three words of every record that stays live are unchanged by the step;
 * a CALL finds a function value of the right arity (`CallOk`: type soundness of the compiler);
 * a RET / RETHROW finds a live record (the run has not returned from the activation it started in);
 * MK_INIT_ARRAY finds the extents the verifier recorded (its constant propagation) -/
def StepOk (md : Module) (hm : HMap) (vm vm' : Vm) (recs : List Rec) : Prop :=
  (∀ r, r ∈ recs → r ∈ ghostNext md vm recs →
     slot vm' (r.F - 4) = slot vm (r.F - 4) ∧ slot vm' (r.F - 1) = slot vm (r.F - 1) ∧ slot vm' r.F = slot vm r.F) ∧
  (∀ i, md.code[vm.ip]? = some i →
     (i.op = .CALL → CallOk md vm) ∧
     ((i.op = .RET ∨ i.op = .RETHROW) → recs ≠ []) ∧
     (i.op = .MK_INIT_ARRAY → ∀ st, hm[vm.ip]? = some (some st) → stackInts vm i.w0 vm.sp = initExts st i.w0))

section
variable {md : Module} {hm : HMap} {bot : Int}

theorem PPIn.cons {pp : Int} {recs : List Rec} (r : Rec) (h : PPIn bot pp recs) : PPIn bot pp (r :: recs) := by
  rcases h with h | ⟨x, hx, e⟩
  · exact Or.inl h
  · exact Or.inr ⟨x, List.mem_cons_of_mem _ hx, e⟩

theorem PPIn_topF (recs : List Rec) : PPIn bot (topF bot recs) recs := by
  cases recs with
  | nil => exact Or.inl rfl
  | cons r rs => exact Or.inr ⟨r, List.mem_cons_self, rfl⟩

theorem topF_dropWhile {pp : Int} : ∀ (recs : List Rec), PPIn bot pp recs →
    topF bot (recs.dropWhile (fun r => decide (r.F ≠ pp))) = pp ∧ PPIn bot pp (recs.dropWhile (fun r => decide (r.F ≠ pp))) := by
  intro recs
  induction recs with
  | nil =>
    intro h
    rcases h with h | ⟨x, hx, _⟩
    · exact ⟨h.symm, Or.inl h⟩
    · cases hx
  | cons r rs ih =>
    intro h
    by_cases hr : r.F = pp
    · have : (decide (r.F ≠ pp)) = false := by simp [hr]
      rw [List.dropWhile_cons_of_neg (by simp [hr])]
      exact ⟨hr, Or.inr ⟨r, List.mem_cons_self, hr⟩⟩
    · rw [List.dropWhile_cons_of_pos (by simp [hr])]
      apply ih
      rcases h with h | ⟨x, hx, e⟩
      · exact Or.inl h
      · rcases List.mem_cons.mp hx with rfl | hx'
        · exact absurd e hr
        · exact Or.inr ⟨x, hx', e⟩

theorem WF_dropWhile {vm : Vm} (p : Rec → Bool) : ∀ (recs : List Rec), WF md hm bot vm recs → WF md hm bot vm (recs.dropWhile p) := by
  intro recs
  induction recs with
  | nil => intro h; exact h
  | cons r rs ih =>
    intro h
    by_cases hp : p r = true
    · rw [List.dropWhile_cons_of_pos hp]; exact ih h.2.2.2
    · rw [List.dropWhile_cons_of_neg hp]; exact h

/-- records whose words are unchanged stay well-formed -/
theorem WF_transfer {vm vm' : Vm} : ∀ (recs : List Rec), WF md hm bot vm recs →
    (∀ r, r ∈ recs → slot vm' (r.F - 4) = slot vm (r.F - 4) ∧ slot vm' (r.F - 1) = slot vm (r.F - 1) ∧ slot vm' r.F = slot vm r.F) →
    WF md hm bot vm' recs := by
  intro recs
  induction recs with
  | nil => intro _ _; trivial
  | cons r rs ih =>
    intro h hk
    obtain ⟨h1, h2, ⟨d1, d2, d3, d4⟩, h4⟩ := h
    obtain ⟨k1, k2, k3⟩ := hk r List.mem_cons_self
    exact ⟨h1, h2, ⟨by rw [k1]; exact d1, by rw [k2]; exact d2, by rw [k3]; exact d3, d4⟩,
      ih h4 (fun x hx => hk x (List.mem_cons_of_mem _ hx))⟩

/-- at a handler entry the instruction is a handler opcode or a LABEL -/
theorem atHandler_op {vm : Vm} (h : AtHandler md hm vm) {i : Instr} (hi : md.code[vm.ip]? = some i) :
    i.op = .CLEAR_STACK ∨ i.op = .RETHROW ∨ i.op = .UNHANDLED_EXCEPTION ∨ i.op = .LABEL := by
  obtain ⟨_, hent, _⟩ := h
  unfold handlerEntry at hent
  simp only [hi, Bool.or_eq_true, Bool.and_eq_true, beq_iff_eq] at hent
  rcases hent with hent | ⟨hlab, _⟩
  · unfold isHandlerOp at hent
    simp only [Bool.or_eq_true, beq_iff_eq] at hent
    rcases hent with (h | h) | h
    · exact Or.inl h
    · exact Or.inr (Or.inl h)
    · exact Or.inr (Or.inr (Or.inl h))
  · exact Or.inr (Or.inr (Or.inr hlab))

/-- `fp` after a step, from `fp` after the handler (the exception dispatch does not touch it) -/
theorem step_fp_of_exec (orc : Oracle) (vm vm' : Vm) (i : Instr) (hi : md.code[vm.ip]? = some i)
    (hstep : (step md orc).run vm = .ok ((), vm')) (f : Int)
    (hx : ∀ s2, (exec md i orc).run { vm with ip := vm.ip + 1 } = .ok ((), s2) → s2.fp = f) : vm'.fp = f := by
  obtain ⟨s2, he, hcase⟩ := step_exec md orc vm vm' i hi hstep
  rcases hcase with ⟨_, e⟩ | ⟨_, hd, _, e⟩
  · rw [e]; exact hx s2 he
  · rw [e]; exact hx s2 he


theorem ghostNext_other {vm : Vm} {recs : List Rec} {i : Instr} (hi : md.code[vm.ip]? = some i)
    (h1 : i.op ≠ .MARK) (h2 : i.op ≠ .RET) (h3 : i.op ≠ .RETHROW) (h4 : i.op ≠ .CLEAR_STACK) : ghostNext md vm recs = recs := by
  unfold ghostNext
  simp only [hi]

/-- `fp` is left alone by every step that is not a frame operation -/
theorem step_fp_kept (orc : Oracle) (vm vm' : Vm) (i : Instr) (hi : md.code[vm.ip]? = some i) (hrun : vm.running = 1)
    (hstep : (step md orc).run vm = .ok ((), vm'))
    (hnot : i.op ≠ .MARK ∧ i.op ≠ .CLEAR_STACK ∧ i.op ≠ .CALL ∧ i.op ≠ .RET ∧ i.op ≠ .RETHROW ∧ i.op ≠ .HALT ∧ i.op ≠ .UNHANDLED_EXCEPTION)
    (hmk : i.op = .MK_INIT_ARRAY → ∃ ds, stackInts vm i.w0 vm.sp = some ds ∧ extsCount ds < 4294967296) : vm'.fp = vm.fp := by
  obtain ⟨n1, n2, n3, n4, n5, n6, n7⟩ := hnot
  refine step_fp_of_exec orc vm vm' i hi hstep vm.fp (fun s2 h2 => ?_)
  cases he : simpleEffect i with
  | some pq =>
    obtain ⟨p, q⟩ := pq
    exact (Vm.simple_effect_sound md i orc p q he vm.sp { vm with ip := vm.ip + 1 } () s2 rfl h2).1
  | none =>
    rcases simpleEffect_none_cases i he with h | h | h | h | h | h | h | h | h | h | h | h | h | h
    · exact absurd h2 (exec_unmodelled_fails md i orc _ _ (Or.inl h))
    · exact absurd h2 (exec_unmodelled_fails md i orc _ _ (Or.inr (Or.inl h)))
    · exact absurd h2 (exec_unmodelled_fails md i orc _ _ (Or.inr (Or.inr h)))
    · exact (exec_jump md i orc h _ _ h2).1
    · obtain ⟨ds, hd, hc⟩ := hmk h
      have hd' : stackInts { vm with ip := vm.ip + 1 } i.w0 vm.sp = some ds := by
        rw [stackInts_congr vm { vm with ip := vm.ip + 1 } rfl rfl rfl]; exact hd
      exact (exec_MK_INIT_ARRAY md i orc h { vm with ip := vm.ip + 1 } s2 ds hd' hc h2).2.1
    · exact absurd h n1
    · exact absurd h n3
    · rcases exec_SLIDE md i orc h _ _ h2 with ⟨_, hg0⟩ | ⟨_, v1, hsl, hgc⟩
      · exact (gcRunPure_regs hg0).2.1
      · have a := (slideP_regs hsl).2.1
        have b := (gcRunPure_regs hgc).2.1
        rw [b, a]
    · exact absurd h n2
    · exact absurd h n4
    · exact absurd h n5
    · exact (mov_PUSH_PARAM md i orc vm.sp h { vm with ip := vm.ip + 1 } () s2 rfl h2).2.1
    · exact absurd h n7
    · exact absurd h n6

/-- steps inside the running activation keep the global invariant -/
theorem sound_inside (hf : flowOk md hm = true) (orc : Oracle) (vm vm' : Vm) (recs : List Rec)
    (hs : Sound md hm bot vm recs) (hin : Inside md hm vm) (hstep : (step md orc).run vm = .ok ((), vm'))
    (hok : StepOk md hm vm vm' recs) : Sound md hm bot vm' (ghostNext md vm recs) ∨ vm'.running = 3 := by
  obtain ⟨hso, hg, hfp, hpp, hwf⟩ := hs
  obtain ⟨hkeep, hside⟩ := hok
  have hso' := (step_keeps_stackOk md orc vm vm' hso hstep).1
  have hrun : vm.running = 1 := by rcases hg with h | h <;> exact h.1
  obtain ⟨a1, a2, a3⟩ := step_good hf orc vm vm' hg hin hstep
  suffices key : Good md hm vm' → Sound md hm bot vm' (ghostNext md vm recs) by
    rcases a3 with a3 | a3 | hstop
    · exact Or.inl (key (Or.inl a3.1))
    · exact Or.inl (key (Or.inr a3.1))
    · exact Or.inr hstop
  intro hg'
  cases hi : md.code[vm.ip]? with
  | none =>
    exfalso
    unfold step at hstep
    obtain ⟨v0, s0, h0, hA⟩ := (run_bind_ok _ _ _ _ _).mp hstep
    obtain ⟨e0, e0'⟩ := get_run _ _ _ h0
    rw [e0, e0', hi] at hA
    exact crash_run _ _ _ _ hA
  | some i =>
    obtain ⟨n1, n2, n3, n4, n5, n6⟩ := hin i hi
    by_cases hmark : i.op = .MARK
    · -- a new record
      have hah : AtHeight md hm vm := by
        rcases hg with h | h
        · exact h
        · rcases atHandler_op h hi with e | e | e | e <;> rw [hmark] at e <;> cases e
      obtain ⟨_, st, hst, hinv⟩ := hah
      obtain ⟨hm', r1, r2, r3, _, _, _, r7⟩ := step_MARK_regs md orc vm vm' i hi hmark hrun hstep
      obtain ⟨_, _, _, _, _, _, _, b1, b2⟩ := markP_regs hm'
      simp only at b1 b2
      obtain ⟨vmx, ex, mp⟩ := markP_spec { vm with ip := vm.ip + 1 } i.w0 hso b1 b2
      rw [hm'] at ex; cases ex
      obtain ⟨k1, _⟩ := frameOkAt_MARK hi hst hmark (frame_at hf hi)
      obtain ⟨sr, e1, e2, e3⟩ := hAt_spec k1
      have hgn : ghostNext md vm recs = { F := vm.sp + 5, pp := vm.pp, fp := vm.fp, ra := i.w0 } :: recs := by
        unfold ghostNext; simp only [hi, hmark]
      rw [hgn]
      refine ⟨hso', hg', by rw [r2]; rfl, ?_, ?_⟩
      · rw [r3]; exact PPIn.cons _ hpp
      · refine ⟨hfp, hpp, ⟨?_, ?_, ?_, sr, e1, ?_⟩, ?_⟩
        · have := mp.w1; simp only at this ⊢
          have e : vm.sp + 5 - 4 = vm.sp + 1 := by omega
          rw [e]; exact this
        · have := mp.w4; simp only at this ⊢
          have e : vm.sp + 5 - 1 = vm.sp + 4 := by omega
          rw [e]; exact this
        · exact mp.w5
        · simp only
          rw [fnParamsAt_same e3, e2]; omega
        · refine WF_transfer recs hwf (fun r hr => hkeep r hr ?_)
          rw [hgn]; exact List.mem_cons_of_mem _ hr
    · by_cases hclr : i.op = .CLEAR_STACK
      · -- `fp := pp`: the records of calls in preparation are dropped
        obtain ⟨_, c2, c3, _, _, _, _⟩ := step_CLEAR_STACK_regs md orc vm vm' i hi hclr hstep
        have hgn : ghostNext md vm recs = recs.dropWhile (fun r => decide (r.F ≠ vm.pp)) := by
          unfold ghostNext; simp only [hi, hclr]
        obtain ⟨t1, t2⟩ := topF_dropWhile (bot := bot) recs hpp
        rw [hgn]
        refine ⟨hso', hg', by rw [c2, t1], by rw [c3]; exact t2, ?_⟩
        refine WF_transfer _ (WF_dropWhile _ recs hwf) (fun r hr => hkeep r ?_ ?_)
        · exact (List.dropWhile_sublist _).subset hr
        · rw [hgn]; exact hr
      · have hgn := ghostNext_other (md := md) (vm := vm) (recs := recs) hi hmark n2 n3 hclr
        have hfp' : vm'.fp = vm.fp := by
          refine step_fp_kept orc vm vm' i hi hrun hstep ⟨hmark, hclr, n1, n2, n3, n4, n5⟩ (fun hmk => ?_)
          have hah : AtHeight md hm vm := by
            rcases hg with h | h
            · exact h
            · rcases atHandler_op h hi with e | e | e | e <;> rw [hmk] at e <;> cases e
          obtain ⟨_, st, hst, _⟩ := hah
          obtain ⟨ds, hds, hc, _, _⟩ := frameOkAt_MK_INIT_ARRAY hi hst hmk (frame_at hf hi)
          exact ⟨ds, by rw [n6 hmk st hst, hds], hc⟩
        rw [hgn]
        refine ⟨hso', hg', by rw [hfp', hfp], by rw [a1]; exact hpp, ?_⟩
        exact WF_transfer recs hwf (fun r hr => hkeep r hr (by rw [hgn]; exact hr))

theorem getFunc_val {vm vm' : Vm} {a env fip : Nat} (h : (getFunc a).run vm = .ok ((env, fip), vm')) :
    vm.gc.mem.objAt a = some (.func env fip) := by
  unfold getFunc at h
  obtain ⟨o, v1, h1, h2⟩ := (run_bind_ok _ _ _ _ _).mp h
  obtain ⟨_, ho, _⟩ := objOf_val h1
  split at h2
  · obtain ⟨e1, _⟩ := (run_pure_ok _ _ _ _).mp h2
    cases e1; exact ho
  · exact absurd h2 (crash_run _ _ _ _)

/-- **CALL.**  With a function value of the right arity on top (`CallOk`), the callee is entered at its recorded height 0 with
`pp = fp` (its frame base is the record the matching MARK pushed) and `sp = pp + nparams`; a nil function value raises and control
is at the handler of the CALL's address.  The live records are unchanged. -/
theorem sound_CALL (hf : flowOk md hm = true) (orc : Oracle) (vm vm' : Vm) (recs : List Rec) (i : Instr)
    (hi : md.code[vm.ip]? = some i) (hop : i.op = .CALL)
    (hs : Sound md hm bot vm recs) (hstep : (step md orc).run vm = .ok ((), vm'))
    (hok : StepOk md hm vm vm' recs) : Sound md hm bot vm' (ghostNext md vm recs) := by
  obtain ⟨hso, hg, hfp, hpp, hwf⟩ := hs
  obtain ⟨hkeep, hside⟩ := hok
  have hso' := (step_keeps_stackOk md orc vm vm' hso hstep).1
  obtain ⟨hcall, _, _⟩ := hside i hi
  have hgn := ghostNext_other (md := md) (vm := vm) (recs := recs) hi (by rw [hop]; decide) (by rw [hop]; decide) (by rw [hop]; decide) (by rw [hop]; decide)
  rw [hgn]
  have hwf' : WF md hm bot vm' recs := WF_transfer recs hwf (fun r hr => hkeep r hr (by rw [hgn]; exact hr))
  obtain ⟨s2, he, hcase⟩ := step_exec md orc vm vm' i hi hstep
  obtain ⟨a, env, fip, hr1, hr2, hcp⟩ := exec_CALL md i orc hop _ _ he
  obtain ⟨b1, ea, _⟩ := rdAddr_val hr1
  have hobj := getFunc_val hr2
  simp only at b1 ea hobj
  have hcallee : calleeOf vm = some (env, fip) := by
    unfold calleeOf
    rw [if_neg b1, ← ea, hobj]
  have hrun : vm.running = 1 := by rcases hg with h | h <;> exact h.1
  unfold callP at hcp
  by_cases h0 : fip = 0
  · -- nil function value: nil_pointer is raised, the handler of this address is entered
    simp only [h0, beq_self_eq_true, if_true] at hcp
    rcases hcase with ⟨hne, _⟩ | ⟨_, hd, hh, e⟩
    · rw [hcp] at hne; exact absurd rfl hne
    · rw [hcp] at hh e
      simp only at hh e
      have hip : vm.ip + 1 - 1 = vm.ip := by omega
      rw [hip] at hh
      obtain ⟨k1, k2⟩ := handler_entry hf hh
      have f1 : vm'.fp = vm.fp := by rw [e]
      have f2 : vm'.pp = vm.pp := by rw [e]
      have f3 : vm'.ip = hd := by rw [e]
      have f4 : vm'.running = 1 := by rw [e]
      exact ⟨hso', Or.inr ⟨f4, by rw [f3]; exact k1, by rw [f3]; exact k2⟩, by rw [f1]; exact hfp, by rw [f2]; exact hpp, hwf'⟩
  · have hne0 : (fip == 0) = false := by simpa using h0
    simp only [hne0, Bool.false_eq_true, if_false] at hcp
    rcases hcall hop env fip hcallee with h00 | ⟨hmem, harity⟩
    · exact absurd h00 h0
    rcases hcase with ⟨_, e⟩ | ⟨h2, _⟩
    · obtain ⟨st0, hs0, hh0⟩ := flowOk_starts hf hmem
      have f1 : vm'.fp = vm.fp := by rw [e, hcp]
      have f2 : vm'.pp = vm.fp := by rw [e, hcp]
      have f3 : vm'.ip = fip := by rw [e, hcp]
      have f4 : vm'.running = 1 := by rw [e, hcp]; exact hrun
      have f5 : vm'.sp = vm.sp - 1 := by rw [e, hcp]
      refine ⟨hso', Or.inl ⟨f4, st0, by rw [f3]; exact hs0, ?_⟩, by rw [f1]; exact hfp, ?_, hwf'⟩
      · rw [f5, f2, f3, hh0]; omega
      · rw [f2, hfp]; exact PPIn_topF recs
    · rw [hcp] at h2; simp only at h2; omega

/-- what RET does given an intact innermost record: registers restored from it, `sp` at the slot of the result -/
theorem ret_through_record {vm v1 : Vm} {r : Rec} (hso : StackOk vm) (hfp : vm.fp = r.F)
    (hd : RecData md hm vm r) (hret : retP { vm with ip := vm.ip + 1 } = .ok v1) :
    v1.sp = r.F - 4 ∧ v1.fp = r.fp ∧ v1.pp = r.pp ∧ v1.ip = r.ra ∧ v1.running = vm.running ∧ StackOk v1 := by
  obtain ⟨d1, d2, d3, _⟩ := hd
  obtain ⟨b1, b2, b3, b4⟩ := retP_bounds hret
  simp only at b1 b2 b3 b4
  obtain ⟨vx, ex, rp⟩ := retP_spec { vm with ip := vm.ip + 1 } hso b1 b2 b3 b4
  rw [hret] at ex; cases ex
  have sl : ∀ j, slot ({ vm with ip := vm.ip + 1 } : Vm) j = slot vm j := fun _ => rfl
  have e1 := rp.sp; have e2 := rp.fp; have e3 := rp.pp; have e4 := rp.ip
  simp only [sl] at e1 e2 e3 e4
  rw [hfp] at e1 e2 e3 e4
  refine ⟨e1, ?_, ?_, ?_, (retP_regs hret).2.2.1, rp.ok⟩
  · rw [e2, d2]; rfl
  · rw [e3, d1]; rfl
  · rw [e4, d3]; rfl

/-- **RET.**  Through an intact record the machine returns to the MARK's return address at ITS recorded height — the frame is popped
and exactly the result is pushed: `sp = (sp before the MARK) + 1` —, with `fp` and `pp` of the caller restored.  The record is no
longer live. -/
theorem sound_RET (hf : flowOk md hm = true) (orc : Oracle) (vm vm' : Vm) (recs : List Rec) (i : Instr)
    (hi : md.code[vm.ip]? = some i) (hop : i.op = .RET)
    (hs : Sound md hm bot vm recs) (hstep : (step md orc).run vm = .ok ((), vm'))
    (hok : StepOk md hm vm vm' recs) : Sound md hm bot vm' (ghostNext md vm recs) ∧
      ∃ r rs, recs = r :: rs ∧ ghostNext md vm recs = rs ∧ vm'.ip = r.ra ∧ vm'.sp = r.F - 4 ∧ vm'.fp = r.fp ∧ vm'.pp = r.pp ∧ vm'.running = 1 := by
  obtain ⟨hso, hg, hfp, hpp, hwf⟩ := hs
  obtain ⟨hkeep, hside⟩ := hok
  have hso' := (step_keeps_stackOk md orc vm vm' hso hstep).1
  obtain ⟨_, hne, _⟩ := hside i hi
  have hrun : vm.running = 1 := by rcases hg with h | h <;> exact h.1
  cases recs with
  | nil => exact absurd rfl (hne (Or.inl hop))
  | cons r rs =>
    have hgn : ghostNext md vm (r :: rs) = rs := by unfold ghostNext; simp only [hi, hop, List.tail_cons]
    obtain ⟨w1, w2, w3, w4⟩ := hwf
    obtain ⟨s2, he, hcase⟩ := step_exec md orc vm vm' i hi hstep
    obtain ⟨v1, hret, hgc⟩ := exec_RET md i orc hop _ _ he
    obtain ⟨q1, q2, q3, q4, q5, _⟩ := ret_through_record hso hfp w3 hret
    obtain ⟨g1, g2, g3, _, g5, g6, _, _⟩ := gcRunPure_regs hgc
    rcases hcase with ⟨_, e⟩ | ⟨h2, _⟩
    · obtain ⟨_, _, _, st, hst, hht⟩ := w3
      rw [hgn]
      have hwf' : WF md hm bot vm' rs := WF_transfer rs w4 (fun x hx => hkeep x (List.mem_cons_of_mem _ hx) (by rw [hgn]; exact hx))
      refine ⟨⟨hso', Or.inl ⟨by rw [e]; omega, st, by rw [e, g5, q4]; exact hst, ?_⟩, by rw [e, g2, q2]; exact w1, by rw [e, g3, q3]; exact w2, hwf'⟩,
        r, rs, rfl, rfl, by rw [e, g5, q4], by rw [e, g1, q1], by rw [e, g2, q2], by rw [e, g3, q3], by rw [e]; omega⟩
      rw [e, g1, g3, g5, q1, q3, q4]; exact hht
    · omega

/-- **RETHROW.**  The frame is popped like by RET and the exception is raised again in the caller: control is at the handler the
exception table assigns to the address before the MARK's return address (the CALL), `fp`/`pp` of the caller restored. -/
theorem sound_RETHROW (hf : flowOk md hm = true) (orc : Oracle) (vm vm' : Vm) (recs : List Rec) (i : Instr)
    (hi : md.code[vm.ip]? = some i) (hop : i.op = .RETHROW)
    (hs : Sound md hm bot vm recs) (hstep : (step md orc).run vm = .ok ((), vm'))
    (hok : StepOk md hm vm vm' recs) : Sound md hm bot vm' (ghostNext md vm recs) := by
  obtain ⟨hso, hg, hfp, hpp, hwf⟩ := hs
  obtain ⟨hkeep, hside⟩ := hok
  have hso' := (step_keeps_stackOk md orc vm vm' hso hstep).1
  obtain ⟨_, hne, _⟩ := hside i hi
  cases recs with
  | nil => exact absurd rfl (hne (Or.inr hop))
  | cons r rs =>
    have hgn : ghostNext md vm (r :: rs) = rs := by unfold ghostNext; simp only [hi, hop, List.tail_cons]
    obtain ⟨w1, w2, w3, w4⟩ := hwf
    obtain ⟨s2, he, hcase⟩ := step_exec md orc vm vm' i hi hstep
    obtain ⟨v1, v2, hret, hgc, es2⟩ := exec_RETHROW md i orc hop _ _ he
    obtain ⟨q1, q2, q3, q4, q5, _⟩ := ret_through_record hso hfp w3 hret
    obtain ⟨g1, g2, g3, _, g5, g6, _, _⟩ := gcRunPure_regs hgc
    rcases hcase with ⟨hn2, _⟩ | ⟨_, hd, hh, e⟩
    · rw [es2] at hn2; exact absurd rfl hn2
    · obtain ⟨k1, k2⟩ := handler_entry hf hh
      rw [hgn]
      have hwf' : WF md hm bot vm' rs := WF_transfer rs w4 (fun x hx => hkeep x (List.mem_cons_of_mem _ hx) (by rw [hgn]; exact hx))
      have f1 : vm'.fp = v2.fp := by rw [e, es2]
      have f2 : vm'.pp = v2.pp := by rw [e, es2]
      have f3 : vm'.ip = hd := by rw [e]
      have f4 : vm'.running = 1 := by rw [e]
      exact ⟨hso', Or.inr ⟨f4, by rw [f3]; exact k1, by rw [f3]; exact k2⟩, by rw [f1, g2, q2]; exact w1, by rw [f2, g3, q3]; exact w2, hwf'⟩

/-- **One step of a verified module keeps the global invariant**, under the side conditions `StepOk` -/
theorem step_sound (hf : flowOk md hm = true) (orc : Oracle) (vm vm' : Vm) (recs : List Rec)
    (hs : Sound md hm bot vm recs) (hstep : (step md orc).run vm = .ok ((), vm')) (hok : StepOk md hm vm vm' recs) :
    Sound md hm bot vm' (ghostNext md vm recs) ∨ vm'.running = 3 ∨ vm'.running = 0 := by
  cases hi : md.code[vm.ip]? with
  | none =>
    exfalso
    unfold step at hstep
    obtain ⟨v0, s0, h0, hA⟩ := (run_bind_ok _ _ _ _ _).mp hstep
    obtain ⟨e0, e0'⟩ := get_run _ _ _ h0
    rw [e0, e0', hi] at hA
    exact crash_run _ _ _ _ hA
  | some i =>
    by_cases h1 : i.op = .CALL
    · exact Or.inl (sound_CALL hf orc vm vm' recs i hi h1 hs hstep hok)
    by_cases h2 : i.op = .RET
    · exact Or.inl (sound_RET hf orc vm vm' recs i hi h2 hs hstep hok).1
    by_cases h3 : i.op = .RETHROW
    · exact Or.inl (sound_RETHROW hf orc vm vm' recs i hi h3 hs hstep hok)
    by_cases h4 : i.op = .HALT
    · right; right
      obtain ⟨s2, he, hcase⟩ := step_exec md orc vm vm' i hi hstep
      have := exec_HALT md i orc h4 _ _ he
      rcases hcase with ⟨_, e⟩ | ⟨hr2, _⟩
      · rw [e, this]
      · rw [this] at hr2; simp at hr2
    by_cases h5 : i.op = .UNHANDLED_EXCEPTION
    · right; left
      obtain ⟨s2, he, hcase⟩ := step_exec md orc vm vm' i hi hstep
      have := exec_UNHANDLED md i orc h5 _ _ he
      rcases hcase with ⟨_, e⟩ | ⟨hr2, _⟩
      · rw [e, this]
      · omega
    · have hin : Inside md hm vm := by
        intro j hj
        rw [hi] at hj; cases hj
        exact ⟨h1, h2, h3, h4, h5, (hok.2 i hi).2.2⟩
      rcases sound_inside hf orc vm vm' recs hs hin hstep hok with h | h
      · exact Or.inl h
      · exact Or.inr (Or.inl h)

end

/-- `n` steps of M-VM from `(vm, recs)` to `(vm', recs')` — each from a running machine, each with some results of its external
calls, each satisfying the side conditions `StepOk` —, the list of live records updated by `ghostNext` -/
inductive RunsG (md : Module) (hm : HMap) : Nat → Vm → List Rec → Vm → List Rec → Prop
  | zero (vm : Vm) (recs : List Rec) : RunsG md hm 0 vm recs vm recs
  | succ {n : Nat} {vm v1 v2 : Vm} {recs recs2 : List Rec} (orc : Oracle) : vm.running = 1 →
      (step md orc).run vm = .ok ((), v1) → StepOk md hm vm v1 recs → RunsG md hm n v1 (ghostNext md vm recs) v2 recs2 →
      RunsG md hm (n + 1) vm recs v2 recs2

/-- **whole executions keep the global invariant** (calls, returns, exceptions included) -/
theorem runsG_sound {md : Module} {hm : HMap} {bot : Int} (hf : flowOk md hm = true) : ∀ (n : Nat) (vm vm' : Vm) (recs recs' : List Rec),
    Sound md hm bot vm recs → RunsG md hm n vm recs vm' recs' →
    Sound md hm bot vm' recs' ∨ vm'.running = 3 ∨ vm'.running = 0 := by
  intro n
  induction n with
  | zero => intro vm vm' recs recs' hs hr; cases hr; exact Or.inl hs
  | succ n ih =>
    intro vm vm' recs recs' hs hr
    cases hr with
    | succ orc hrun hstep hok hrest =>
      rename_i v1
      rcases step_sound hf orc vm v1 recs hs hstep hok with h | h | h
      · exact ih _ _ _ _ h hrest
      · cases hrest with
        | zero => exact Or.inr (Or.inl h)
        | succ orc' hrun' _ _ _ => omega
      · cases hrest with
        | zero => exact Or.inr (Or.inr h)
        | succ orc' hrun' _ _ _ => omega

/-- the machine `nev_execute` starts on the first time (empty stack, `sp = fp = pp = −1`, control at address 0) satisfies the global
invariant with no live record -/
theorem sound_initial {md : Module} {hm : HMap} (hf : flowOk md hm = true) (mem stack gcMode : Nat) :
    Sound md hm (-1) (beginExecute md (Vm.new mem stack gcMode)) [] := by
  obtain ⟨st, hs, hz⟩ := flowOk_entry hf
  have e : beginExecute md (Vm.new mem stack gcMode) = { Vm.new mem stack gcMode with ip := 0, initialized := true, running := 1 } := by
    unfold beginExecute; simp [Vm.new]
  rw [e]
  refine ⟨?_, Or.inl ⟨rfl, st, hs, ?_⟩, rfl, Or.inl rfl, trivial⟩
  · unfold StackOk Vm.new; simp
  · show (-1 : Int) = -1 + (fnParamsAt md 0 : Int) + (st.h : Int)
    unfold fnParamsAt; omega

/-! ### "frame words are not overwritten": what is proved -/

/-- the three words of every record that stays live are unchanged by the step -/
def FramesKept (md : Module) (vm vm' : Vm) (recs : List Rec) : Prop :=
  ∀ r, r ∈ recs → r ∈ ghostNext md vm recs →
    slot vm' (r.F - 4) = slot vm (r.F - 4) ∧ slot vm' (r.F - 1) = slot vm (r.F - 1) ∧ slot vm' r.F = slot vm r.F

theorem framesKept_of_stack_eq {md : Module} {vm vm' : Vm} {recs : List Rec} (h : vm'.stack = vm.stack) : FramesKept md vm vm' recs := by
  intro r _ _
  unfold slot; rw [h]; exact ⟨rfl, rfl, rfl⟩

/-- the stack array after a step, from the stack array after the handler (the exception dispatch does not touch it) -/
theorem step_stack_of_exec {md : Module} (orc : Oracle) (vm vm' : Vm) (i : Instr) (hi : md.code[vm.ip]? = some i)
    (hstep : (step md orc).run vm = .ok ((), vm'))
    (hx : ∀ s2, (exec md i orc).run { vm with ip := vm.ip + 1 } = .ok ((), s2) → s2.stack = vm.stack) : vm'.stack = vm.stack := by
  obtain ⟨s2, he, hcase⟩ := step_exec md orc vm vm' i hi hstep
  rcases hcase with ⟨_, e⟩ | ⟨_, hd, _, e⟩
  · rw [e]; exact hx s2 he
  · rw [e]; exact hx s2 he

/-- CALL, CLEAR_STACK, JUMP and JUMPZ write no stack slot at all -/
theorem framesKept_control {md : Module} (orc : Oracle) (vm vm' : Vm) (recs : List Rec) (i : Instr) (hi : md.code[vm.ip]? = some i)
    (hop : i.op = .CALL ∨ i.op = .CLEAR_STACK ∨ i.op = .JUMP ∨ i.op = .JUMPZ)
    (hstep : (step md orc).run vm = .ok ((), vm')) : FramesKept md vm vm' recs := by
  refine framesKept_of_stack_eq (step_stack_of_exec orc vm vm' i hi hstep (fun s2 h2 => ?_))
  rcases hop with hop | hop | hop | hop
  · obtain ⟨a, env, fip, _, _, e⟩ := exec_CALL md i orc hop _ _ h2
    rw [e]; unfold callP; split <;> rfl
  · rw [exec_CLEAR_STACK md i orc hop _ _ h2]; rfl
  · exec_unfold hop at h2
    obtain ⟨sp, s0, h0, hA⟩ := (run_bind_ok _ _ _ _ _).mp h2
    obtain ⟨_, e0'⟩ := getSp_run _ _ _ h0
    rw [e0'] at hA
    rw [modify_run _ _ _ _ hA]
  · exec_unfold hop at h2
    obtain ⟨sp, s0, h0, hA⟩ := (run_bind_ok _ _ _ _ _).mp h2
    obtain ⟨e0, e0'⟩ := getSp_run _ _ _ h0
    rw [e0, e0'] at hA
    obtain ⟨a1, s1, h1, hB⟩ := (run_bind_ok _ _ _ _ _).mp hA
    have e1 := readOnly_rdAddr _ _ _ _ h1
    rw [e1] at hB
    obtain ⟨c, s2', h2', hC⟩ := (run_bind_ok _ _ _ _ _).mp hB
    have e2 := readOnly_getInt _ _ _ _ h2'
    rw [e2] at hC
    split at hC
    · obtain ⟨u, s3, h3, hD⟩ := (run_bind_ok _ _ _ _ _).mp hC
      rw [modify_run _ _ _ _ hD, modify_run _ _ _ _ h3]
    · rw [modify_run _ _ _ _ hC]

/-- MARK writes only above the top of stack: every record at or below `sp` keeps its words -/
theorem framesKept_MARK {md : Module} (orc : Oracle) (vm vm' : Vm) (recs : List Rec) (i : Instr) (hi : md.code[vm.ip]? = some i)
    (hop : i.op = .MARK) (hrun : vm.running = 1) (hso : StackOk vm) (hbelow : ∀ r, r ∈ recs → r.F ≤ vm.sp)
    (hstep : (step md orc).run vm = .ok ((), vm')) : FramesKept md vm vm' recs := by
  intro r hr _
  obtain ⟨hm', _⟩ := step_MARK_regs md orc vm vm' i hi hop hrun hstep
  obtain ⟨_, _, _, _, _, _, _, b1, b2⟩ := markP_regs hm'
  simp only at b1 b2
  obtain ⟨vmx, ex, mp⟩ := markP_spec { vm with ip := vm.ip + 1 } i.w0 hso b1 b2
  rw [hm'] at ex; cases ex
  have hb := hbelow r hr
  have sl : ∀ j, slot ({ vm with ip := vm.ip + 1 } : Vm) j = slot vm j := fun _ => rfl
  have k := mp.below
  simp only [sl] at k
  exact ⟨k _ (by omega), k _ (by omega), k _ (by omega)⟩

/-- RET writes exactly one slot, the lowest word of the record it pops (the result goes where the saved `pp` was): every record
strictly below that slot keeps its words -/
theorem framesKept_RET {md : Module} (orc : Oracle) (vm vm' : Vm) (recs : List Rec) (i : Instr) (hi : md.code[vm.ip]? = some i)
    (hop : i.op = .RET) (hso : StackOk vm) (hbelow : ∀ r, r ∈ recs.tail → r.F < vm.fp - 4)
    (hstep : (step md orc).run vm = .ok ((), vm')) : FramesKept md vm vm' recs := by
  intro r _ hr
  have hgn : ghostNext md vm recs = recs.tail := by unfold ghostNext; simp only [hi, hop]
  rw [hgn] at hr
  have hb := hbelow r hr
  obtain ⟨s2, he, hcase⟩ := step_exec md orc vm vm' i hi hstep
  obtain ⟨v1, hret, hgc⟩ := exec_RET md i orc hop _ _ he
  obtain ⟨b1, b2, b3, b4⟩ := retP_bounds hret
  simp only at b1 b2 b3 b4
  obtain ⟨vx, ex, rp⟩ := retP_spec { vm with ip := vm.ip + 1 } hso b1 b2 b3 b4
  rw [hret] at ex; cases ex
  have hst : s2.stack = v1.stack := (gcRunPure_regs hgc).2.2.2.2.2.2.2
  have hr1 : v1.running = vm.running := (retP_regs hret).2.2.1
  have sl : ∀ j, slot ({ vm with ip := vm.ip + 1 } : Vm) j = slot vm j := fun _ => rfl
  have k := rp.other
  simp only [sl] at k
  have hs2 : ∀ j, slot vm' j = slot v1 j := by
    intro j
    rcases hcase with ⟨_, e⟩ | ⟨_, hd, _, e⟩
    · rw [e]; unfold slot; rw [hst]
    · rw [e]; unfold slot; simp only; rw [hst]
  exact ⟨by rw [hs2, k _ (by omega)], by rw [hs2, k _ (by omega)], by rw [hs2, k _ (by omega)]⟩

/-! ### the side conditions as a decidable check on concrete runs (for non-vacuity examples) -/

theorem stepOkB_sound {md : Module} {hm : HMap} {vm vm' : Vm} {recs : List Rec} (h : stepOkB md hm vm vm' recs = true) :
    StepOk md hm vm vm' recs := by
  unfold stepOkB at h
  simp only [Bool.and_eq_true] at h
  obtain ⟨h1, h2⟩ := h
  constructor
  · intro r hr hg
    have := (List.all_eq_true.mp h1) r hr
    simp only [hg, decide_true, Bool.not_true, Bool.false_or, Bool.and_eq_true, beq_iff_eq] at this
    exact ⟨this.1.1, this.1.2, this.2⟩
  · intro i hi
    rw [hi] at h2
    simp only [Bool.and_eq_true, Bool.or_eq_true, bne_iff_ne, ne_eq, Bool.not_eq_true', beq_iff_eq] at h2
    obtain ⟨⟨c1, c2⟩, c3⟩ := h2
    refine ⟨fun hop => ?_, fun hop => ?_, fun hop st hst => ?_⟩
    · rcases c1 with c1 | c1
      · exact absurd hop c1
      · intro env fip hc
        unfold callOkB at c1
        rw [hc] at c1
        simp only [Bool.or_eq_true, beq_iff_eq, Bool.and_eq_true, decide_eq_true_eq] at c1
        exact c1
    · rcases c2 with c2 | c2
      · rcases hop with hop | hop
        · simp [hop] at c2
        · simp [hop] at c2
      · intro he; rw [he] at c2; simp at c2
    · rcases c3 with c3 | c3
      · exact absurd hop (by simpa using c3)
      · rw [hst] at c3; simpa using c3

/-- run `n` steps, following the live records and checking the side conditions of every step; `none` if one fails -/
def runGB (md : Module) (hm : HMap) (orc : Nat → Oracle) : Nat → Vm → List Rec → Option (Vm × List Rec)
  | 0, vm, recs => some (vm, recs)
  | n+1, vm, recs =>
    if vm.running ≠ 1 then some (vm, recs) else
    match (step md (orc n)).run vm with
    | .ok (_, v1) => if stepOkB md hm vm v1 recs then runGB md hm orc n v1 (ghostNext md vm recs) else none
    | .error _ => none

theorem runGB_runsG (md : Module) (hm : HMap) (orc : Nat → Oracle) : ∀ (n : Nat) (vm : Vm) (recs : List Rec) (vm' : Vm) (recs' : List Rec),
    runGB md hm orc n vm recs = some (vm', recs') → ∃ k, RunsG md hm k vm recs vm' recs' := by
  intro n
  induction n with
  | zero => intro vm recs vm' recs' h; unfold runGB at h; cases h; exact ⟨0, .zero _ _⟩
  | succ n ih =>
    intro vm recs vm' recs' h
    unfold runGB at h
    split at h
    · cases h; exact ⟨0, .zero _ _⟩
    · rename_i hr
      split at h
      · rename_i u v1 hs
        split at h
        · rename_i hb
          obtain ⟨k, hk⟩ := ih _ _ _ _ h
          cases u
          exact ⟨k + 1, .succ (orc n) (by omega) hs (stepOkB_sound hb) hk⟩
        · cases h
      · cases h

end Never.Ver
