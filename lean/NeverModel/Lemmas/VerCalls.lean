import NeverModel.Lemmas.VerWrite
import NeverModel.Lemmas.VmFreeSound
set_option linter.unusedSimpArgs false
set_option linter.unusedVariables false
/-! calls and returns: the frame records MARK pushes, as a ghost list beside the machine; the global invariant -/
namespace Never.Ver
open Never Never.Vm

/-- the three words RET reads through are in place; returning through the record lands at the recorded height of its return
address (`F − 4`, the slot the result is copied to, is `pp_saved + nparams + h(ra)`); no run of `INT` pushes continues there -/
def RecData (md : Module) (hm : HMap) (vm : Vm) (r : Rec) : Prop :=
  slot vm (r.F - 4) = .stk r.pp ∧ slot vm (r.F - 1) = .stk r.fp ∧ slot vm r.F = .ip r.ra ∧
  (∃ st, hm[r.ra]? = some (some st) ∧ r.F - 4 = r.pp + (fnParamsAt md r.ra : Int) + (st.h : Int)) ∧ intRun md r.ra = []

/-- the live records lie one below the other, five words apart at least (innermost first) -/
def Desc5 : List Rec → Prop
  | [] => True
  | r :: rs => (∀ x, x ∈ rs → x.F + 5 ≤ r.F) ∧ Desc5 rs

/-- the live records seen from a function with frame base `pp`, parameters up to `base = pp + nparams` and the calls `ms` in
preparation: first the pending records of these calls, at the heights `ms` say, then the record the function was entered through
(`F = pp`; none at the bottom of the run) and the records of its callers -/
def Split (bot pp base : Int) (ms : List Nat) (recs : List Rec) : Prop :=
  ∃ pend rest, recs = pend ++ rest ∧ pend.map (·.F) = ms.map (fun (m : Nat) => base + (m : Int) + 5) ∧ topF bot rest = pp

/-- the same at a handler entry, where the pending records are only known to lie above `pp` (CLEAR_STACK will drop them) -/
def SplitH (bot pp : Int) (recs : List Rec) : Prop :=
  ∃ pend rest, recs = pend ++ rest ∧ (∀ r, r ∈ pend → pp < r.F) ∧ topF bot rest = pp

/-- the live records, innermost first, form the chain RET walks: each saved `fp` is the record below, each record is intact, and
the records below it are what the function that pushed it will find when the call returns -/
def WF (md : Module) (hm : HMap) (bot : Int) (vm : Vm) : List Rec → Prop
  | [] => True
  | r :: rs => r.fp = topF bot rs ∧ RecData md hm vm r ∧
      Split bot r.pp (r.pp + (fnParamsAt md r.ra : Int)) (marksAt hm r.ra) rs ∧ WF md hm bot vm rs

/-- the machine is at the recorded height of its address; the live records are those of the calls in preparation there, then the
callers'; the slots above hold the constants of the `INT` run that ends at `ip` -/
structure Here (md : Module) (hm : HMap) (bot : Int) (vm : Vm) (recs : List Rec) : Prop where
  height : AtHeight md hm vm
  split : Split bot vm.pp (vm.pp + (fnParamsAt md vm.ip : Int)) (marksAt hm vm.ip) recs
  consts : stackInts vm (intRun md vm.ip).length vm.sp = some (intRun md vm.ip)

/-- **the global invariant**: the stack array has its size; `fp` is the innermost live record; the live records are apart, intact and
chained; and the machine is at its recorded height (`Here`) or at a handler entry with the pending records above `pp` -/
def Sound0 (md : Module) (hm : HMap) (bot : Int) (vm : Vm) (recs : List Rec) : Prop :=
  StackOk vm ∧ vm.fp = topF bot recs ∧ Desc5 recs ∧ WF md hm bot vm recs ∧
  (Here md hm bot vm recs ∨ (AtHandler md hm vm ∧ SplitH bot vm.pp recs))

/-- "function objects hold entry addresses of functions of the right arity": the function value a CALL finds is nil (address 0:
the VM raises nil_pointer) or the entry of a function with as many parameters as arguments lie above the frame record -/
def CallOk (md : Module) (vm : Vm) : Prop :=
  ∀ env fip, calleeOf vm = some (env, fip) → fip = 0 ∨ (fip ∈ funcStarts md ∧ vm.sp - 1 = vm.fp + (fnParamsAt md fip : Int))

/-- **the arity condition, as a statement about the function value alone**: the function object a CALL finds on top of the stack holds
the nil address, or the entry address of a function whose parameter count is the number of arguments this call site passes
(`callArgs`, a static property of the site read off the certificate).  Nothing about registers or the stack layout is assumed:
in a state satisfying the invariant it implies `CallOk` (`calleeArity_callOk`). -/
def CalleeArity (md : Module) (hm : HMap) (vm : Vm) : Prop :=
  ∀ env fip, calleeOf vm = some (env, fip) → fip = 0 ∨ (fip ∈ funcStarts md ∧ fnParamsAt md fip = callArgs md hm vm.ip)

/-- the allocator hands out a free cell inside the heap (or the heap is exhausted and the allocation fails) -/
def AllocFresh (vm : Vm) : Prop := vm.gc.free = 0 ∨ (vm.gc.free < vm.gc.mem.size ∧ vm.gc.mem.objAt vm.gc.free = none)

/-- the side conditions of one step that the verifier cannot establish (both are consequences of type soundness, see Props/C07):
 * a CALL finds a function value of the arity of its call site (`CalleeArity`);
 * an `INT` is handed a free cell by the allocator (`AllocFresh`: the collector's free list holds free cells — C09 proves it of
   every history of well-typed heap operations);
and, as a matter of where the considered run starts, a RET / RETHROW finds a live record (the run has not returned from the
activation it started in). -/
def StepOk0 (md : Module) (hm : HMap) (vm : Vm) (recs : List Rec) : Prop :=
  ∀ i, md.code[vm.ip]? = some i →
     (i.op = .CALL → CalleeArity md hm vm) ∧
     ((i.op = .RET ∨ i.op = .RETHROW) → recs ≠ []) ∧
     (i.op = .INT → AllocFresh vm)

section
variable {md : Module} {hm : HMap} {bot : Int}

/-! ### lists of records -/

theorem Split.toH {pp base : Int} {ms : List Nat} {recs : List Rec} (h : Split bot pp base ms recs) (hb : pp ≤ base) : SplitH bot pp recs := by
  obtain ⟨pend, rest, e, hF, ht⟩ := h
  refine ⟨pend, rest, e, fun r hr => ?_, ht⟩
  have : r.F ∈ pend.map (·.F) := List.mem_map_of_mem hr
  rw [hF] at this
  obtain ⟨m, _, hm⟩ := List.mem_map.mp this
  omega

/-- every live record lies at or below `recTop` -/
theorem Split.le_top {pp base : Int} {ms : List Nat} {recs : List Rec} (h : Split bot pp base ms recs) (hd : Desc5 recs) :
    ∀ r, r ∈ recs → r.F ≤ recTop pp base ms := by
  obtain ⟨pend, rest, e, hF, ht⟩ := h
  cases ms with
  | nil =>
    have hp : pend = [] := by cases pend with | nil => rfl | cons p ps => simp at hF
    subst hp
    simp only [List.nil_append] at e
    subst e
    intro r hr
    cases recs with
    | nil => cases hr
    | cons r0 t =>
      simp only [topF] at ht
      simp only [recTop]
      rcases List.mem_cons.mp hr with rfl | hr'
      · omega
      · have := hd.1 r hr'; omega
  | cons m ms' =>
    cases pend with
    | nil => simp at hF
    | cons p0 ps =>
      simp only [List.map_cons, List.cons.injEq] at hF
      subst e
      intro r hr
      simp only [recTop]
      rcases List.mem_cons.mp hr with rfl | hr'
      · omega
      · have := hd.1 r hr'; omega

theorem Desc5.tail {r : Rec} {rs : List Rec} (h : Desc5 (r :: rs)) : Desc5 rs := h.2

theorem Desc5.dropWhile (p : Rec → Bool) : ∀ (recs : List Rec), Desc5 recs → Desc5 (recs.dropWhile p) := by
  intro recs
  induction recs with
  | nil => intro h; exact h
  | cons r rs ih =>
    intro h
    by_cases hp : p r = true
    · rw [List.dropWhile_cons_of_pos hp]; exact ih h.2
    · rw [List.dropWhile_cons_of_neg hp]; exact h

/-- CLEAR_STACK's `fp := pp` drops exactly the pending records -/
theorem SplitH.dropWhile {pp : Int} {recs : List Rec} (h : SplitH bot pp recs) :
    ∃ rest, recs.dropWhile (fun r => decide (r.F ≠ pp)) = rest ∧ topF bot rest = pp ∧ rest <:+ recs := by
  obtain ⟨pend, rest, e, hp, ht⟩ := h
  refine ⟨rest, ?_, ht, by rw [e]; exact List.suffix_append _ _⟩
  subst e
  induction pend with
  | nil =>
    simp only [List.nil_append]
    cases rest with
    | nil => rfl
    | cons r0 t =>
      simp only [topF] at ht
      rw [List.dropWhile_cons_of_neg (by simp [ht])]
  | cons p ps ih =>
    have : p.F ≠ pp := by have := hp p List.mem_cons_self; omega
    simp only [List.cons_append]
    rw [List.dropWhile_cons_of_pos (by simp [this])]
    exact ih (fun r hr => hp r (List.mem_cons_of_mem _ hr))

theorem WF_suffix {vm : Vm} : ∀ (recs rest : List Rec), rest <:+ recs → WF md hm bot vm recs → WF md hm bot vm rest := by
  intro recs
  induction recs with
  | nil => intro rest hs h; have := List.suffix_nil.mp hs; subst this; exact h
  | cons r rs ih =>
    intro rest hs h
    rcases List.suffix_cons_iff.mp hs with e | hs'
    · subst e; exact h
    · exact ih rest hs' h.2.2.2

theorem Desc5_suffix : ∀ (recs rest : List Rec), rest <:+ recs → Desc5 recs → Desc5 rest := by
  intro recs
  induction recs with
  | nil => intro rest hs h; have := List.suffix_nil.mp hs; subst this; exact h
  | cons r rs ih =>
    intro rest hs h
    rcases List.suffix_cons_iff.mp hs with e | hs'
    · subst e; exact h
    · exact ih rest hs' h.2

/-- records whose words are unchanged stay well-formed -/
theorem WF_transfer {vm vm' : Vm} : ∀ (recs : List Rec), WF md hm bot vm recs →
    (∀ r, r ∈ recs → slot vm' (r.F - 4) = slot vm (r.F - 4) ∧ slot vm' (r.F - 1) = slot vm (r.F - 1) ∧ slot vm' r.F = slot vm r.F) →
    WF md hm bot vm' recs := by
  intro recs
  induction recs with
  | nil => intro _ _; trivial
  | cons r rs ih =>
    intro h hk
    obtain ⟨h1, ⟨d1, d2, d3, d4, d5⟩, h3, h4⟩ := h
    obtain ⟨k1, k2, k3⟩ := hk r List.mem_cons_self
    exact ⟨h1, ⟨by rw [k1]; exact d1, by rw [k2]; exact d2, by rw [k3]; exact d3, d4, d5⟩, h3,
      ih h4 (fun x hx => hk x (List.mem_cons_of_mem _ hx))⟩

/-- slots at or below a bound unchanged ⇒ the words of every record at or below the bound unchanged -/
theorem words_of_below {vm vm' : Vm} {b : Int} (hk : ∀ j, j ≤ b → slot vm' j = slot vm j) (r : Rec) (hr : r.F ≤ b) :
    slot vm' (r.F - 4) = slot vm (r.F - 4) ∧ slot vm' (r.F - 1) = slot vm (r.F - 1) ∧ slot vm' r.F = slot vm r.F :=
  ⟨hk _ (by omega), hk _ (by omega), hk _ hr⟩

theorem words_of_stack_eq {vm vm' : Vm} (h : vm'.stack = vm.stack) (r : Rec) :
    slot vm' (r.F - 4) = slot vm (r.F - 4) ∧ slot vm' (r.F - 1) = slot vm (r.F - 1) ∧ slot vm' r.F = slot vm r.F := by
  unfold slot; rw [h]; exact ⟨rfl, rfl, rfl⟩


/-! ### `INT` and the constants of an `INT` run -/

theorem stackInts_zero (vm : Vm) (s : Int) : stackInts vm 0 s = some [] := rfl

theorem stackInts_take (vm : Vm) : ∀ (n : Nat) (s : Int) (l : List Int), stackInts vm n s = some l → ∀ k, k ≤ n → stackInts vm k s = some (l.take k) := by
  intro n
  induction n with
  | zero => intro s l h k hk; have : k = 0 := by omega
            subst this; simp [stackInts_zero]
  | succ n ih =>
    intro s l h k hk
    cases k with
    | zero => simp [stackInts_zero]
    | succ k =>
      unfold stackInts at h ⊢
      split at h
      · cases h
      · rename_i hb
        rw [if_neg hb]
        simp only at h ⊢
        split at h
        · cases h
        · rename_i hsz
          rw [if_neg hsz]
          split at h
          · rename_i v hv
            cases hr : stackInts vm n (s - 1) with
            | none => rw [hr] at h; cases h
            | some l' =>
              rw [hr] at h
              simp only [Option.map_some, Option.some.injEq] at h
              subst h
              rw [ih _ _ hr k (by omega)]
              simp
          · cases h

/-- a machine that differs only above slot `s` and in cells that were free reads the same integers from the top `k` slots -/
theorem stackInts_mono {vm vm2 : Vm} (hsz : vm2.stackSize = vm.stackSize) (hms : vm2.gc.mem.size = vm.gc.mem.size)
    (hobj : ∀ a, vm.gc.mem.objAt a ≠ none → vm2.gc.mem.objAt a = vm.gc.mem.objAt a) :
    ∀ (k : Nat) (s : Int) (l : List Int), (∀ j : Int, 0 ≤ j → j ≤ s → vm2.stack[j.toNat]? = vm.stack[j.toNat]?) →
      stackInts vm k s = some l → stackInts vm2 k s = some l := by
  intro k
  induction k with
  | zero => intro s l _ h; exact h
  | succ k ih =>
    intro s l hst h
    unfold stackInts at h ⊢
    rw [hsz, hms]
    split at h
    · cases h
    · rename_i hb
      rw [if_neg hb]
      simp only at h ⊢
      rw [hst s (by omega) (Int.le_refl _)]
      split at h
      · cases h
      · rename_i hsz'
        rw [if_neg hsz']
        split at h
        · rename_i v hv
          rw [hobj _ (by rw [hv]; simp), hv]
          simp only
          cases hr : stackInts vm k (s - 1) with
          | none => rw [hr] at h; cases h
          | some l' =>
            rw [hr] at h
            rw [ih (s - 1) l' (fun j h0 hj => hst j h0 (by omega)) hr]
            exact h
        · cases h

/-- the handler of `INT c`: one cell from the allocator, one push -/
theorem exec_INT (md : Module) (ins : Instr) (orc : Oracle) (hop : ins.op = .INT) (vm vm' : Vm)
    (h : (exec md ins orc).run vm = .ok ((), vm')) :
    vm.gc.free ≠ 0 ∧ vm'.gc.mem = vm.gc.mem.setObj vm.gc.free (some (.int (bv32 ins.w0))) ∧
    vm'.stack = vm.stack.setIfInBounds (vm.sp + 1).toNat (.addr vm.gc.free) ∧ 0 ≤ vm.sp + 1 ∧ vm.sp + 1 < vm.stackSize ∧
    vm'.sp = vm.sp + 1 ∧ vm'.fp = vm.fp ∧ vm'.pp = vm.pp ∧ vm'.ip = vm.ip ∧ vm'.running = vm.running ∧ vm'.stackSize = vm.stackSize := by
  exec_unfold hop at h
  obtain ⟨sp, s0, h0, hA⟩ := (run_bind_ok _ _ _ _ _).mp h
  obtain ⟨_, e0'⟩ := getSp_run _ _ _ h0
  rw [e0'] at hA
  obtain ⟨loc, v1, h1, hB⟩ := (run_bind_ok _ _ _ _ _).mp hA
  -- the allocation
  unfold alloc at h1
  obtain ⟨v0, v0', h3, h4⟩ := (run_bind_ok _ _ _ _ _).mp h1
  obtain ⟨e3, e3'⟩ := get_run _ _ _ h3
  rw [e3, e3'] at h4
  split at h4
  · exact absurd h4 (exitVm_run _ _ _ _ _)
  · rename_i g l hg
    obtain ⟨u, v2, h5, h6⟩ := (run_bind_ok _ _ _ _ _).mp h4
    have e5 := set_run _ _ _ _ h5
    obtain ⟨e6, e7⟩ := (run_pure_ok _ _ _ _).mp h6
    unfold Gc.alloc at hg
    simp only at hg
    split at hg
    · cases hg
    · rename_i hfree
      have hmem : g.mem = vm.gc.mem.setObj vm.gc.free (some (.int (bv32 ins.w0))) ∧ l = vm.gc.free := by
        split at hg <;> (cases hg; exact ⟨rfl, rfl⟩)
      -- the push
      unfold Vm.pushAddr at hB
      obtain ⟨v3, s3, h7, hC⟩ := (run_bind_ok _ _ _ _ _).mp hB
      obtain ⟨e7a, e7b⟩ := get_run _ _ _ h7
      rw [e7a, e7b] at hC
      obtain ⟨v4, s4, h8, hD⟩ := (run_bind_ok _ _ _ _ _).mp hC
      obtain ⟨e8, e8'⟩ := liftE_run _ _ _ _ h8
      have e9 := set_run _ _ _ _ hD
      rw [e7, e5] at e8
      rw [e9]
      unfold pushP at e8
      simp only [bind, Except.bind] at e8
      split at e8
      · cases e8
      · rename_i vc hc
        obtain ⟨ec, bc⟩ := checkP_regs hc
        subst ec
        simp only at bc
        unfold wrP at e8
        split at e8
        · cases e8
        · rename_i hb
          simp only at hb
          cases e8
          rw [e6, hmem.2] 
          exact ⟨hfree, hmem.1, rfl, by omega, by omega, rfl, rfl, rfl, rfl, rfl, rfl⟩

/-- **`INT` extends the run of constants on the stack**, when the allocator hands it a free cell: the integers the top slots point at
are the new constant followed by those that were there -/
theorem int_extends_consts (md : Module) (ins : Instr) (orc : Oracle) (hop : ins.op = .INT) (vm vm' : Vm) (hso : StackOk vm)
    (hfresh : AllocFresh vm) (k : Nat) (l : List Int) (hl : stackInts vm k vm.sp = some l)
    (h : (exec md ins orc).run vm = .ok ((), vm')) :
    stackInts vm' (k + 1) vm'.sp = some ((bv32 ins.w0).toInt :: l) := by
  obtain ⟨hf0, hmem, hstk, b0, b1, hsp, _, _, _, _, hsz⟩ := exec_INT md ins orc hop vm vm' h
  rcases hfresh with hz | ⟨hlt, hnone⟩
  · exact absurd hz hf0
  have hms : vm'.gc.mem.size = vm.gc.mem.size := by rw [hmem]; simp
  have hobj : ∀ a, vm.gc.mem.objAt a ≠ none → vm'.gc.mem.objAt a = vm.gc.mem.objAt a := by
    intro a ha
    rw [hmem, Mem.objAt_setObj]
    have : ¬ (vm.gc.free = a ∧ vm.gc.free < vm.gc.mem.size) := by
      rintro ⟨e, _⟩; rw [← e] at ha; exact ha hnone
    rw [if_neg this]
  have hnew : vm'.gc.mem.objAt vm.gc.free = some (.int (bv32 ins.w0)) := by
    rw [hmem, Mem.objAt_setObj]; simp [hlt]
  have hst : ∀ j : Int, 0 ≤ j → j ≤ vm.sp → vm'.stack[j.toNat]? = vm.stack[j.toNat]? := by
    intro j h0 hj
    rw [hstk]
    have : (vm.sp + 1).toNat ≠ j.toNat := by omega
    simp [Array.getElem?_setIfInBounds, this]
  have hold := stackInts_mono hsz hms hobj k vm.sp l hst hl
  have htop : vm'.stack[(vm.sp + 1).toNat]? = some (.addr vm.gc.free) := by
    rw [hstk]
    have : (vm.sp + 1).toNat < vm.stack.size := by unfold StackOk at hso; rw [hso]; omega
    simp [Array.getElem?_setIfInBounds, this]
  rw [hsp]
  unfold stackInts
  rw [hsz, if_neg (by omega)]
  simp only
  have ha : ((vm'.stack[(vm.sp + 1).toNat]?).getD .unknown).asAddr = vm.gc.free := by rw [htop]; rfl
  rw [ha, hms]
  have e : vm.sp + 1 - 1 = vm.sp := by omega
  split
  · rename_i hgt; exact absurd hgt (by omega)
  · rw [hnew]
    simp only
    rw [e, hold]
    rfl


/-! ### helpers about one step -/

/-- at a handler entry the instruction is a handler opcode or a LABEL -/
theorem atHandler_op {vm : Vm} (h : AtHandler md hm vm) {i : Instr} (hi : md.code[vm.ip]? = some i) :
    i.op = .CLEAR_STACK ∨ i.op = .RETHROW ∨ i.op = .UNHANDLED_EXCEPTION ∨ i.op = .LABEL := by
  obtain ⟨_, hent, _⟩ := h
  unfold handlerEntry at hent
  simp only [hi, Bool.or_eq_true, Bool.and_eq_true, beq_iff_eq] at hent
  rcases hent with hent | ⟨hlab, _⟩
  · unfold isHandlerOp at hent
    simp only [Bool.or_eq_true, beq_iff_eq] at hent
    rcases hent with (h | h) | h
    · exact Or.inl h
    · exact Or.inr (Or.inl h)
    · exact Or.inr (Or.inr (Or.inl h))
  · exact Or.inr (Or.inr (Or.inr hlab))

/-- `fp` after a step, from `fp` after the handler (the exception dispatch does not touch it) -/
theorem step_fp_of_exec (orc : Oracle) (vm vm' : Vm) (i : Instr) (hi : md.code[vm.ip]? = some i)
    (hstep : (step md orc).run vm = .ok ((), vm')) (f : Int)
    (hx : ∀ s2, (exec md i orc).run { vm with ip := vm.ip + 1 } = .ok ((), s2) → s2.fp = f) : vm'.fp = f := by
  obtain ⟨s2, he, hcase⟩ := step_exec md orc vm vm' i hi hstep
  rcases hcase with ⟨_, e⟩ | ⟨_, hd, _, e⟩
  · rw [e]; exact hx s2 he
  · rw [e]; exact hx s2 he


theorem ghostNext_other {vm : Vm} {recs : List Rec} {i : Instr} (hi : md.code[vm.ip]? = some i)
    (h1 : i.op ≠ .MARK) (h2 : i.op ≠ .RET) (h3 : i.op ≠ .RETHROW) (h4 : i.op ≠ .CLEAR_STACK) : ghostNext md vm recs = recs := by
  unfold ghostNext
  simp only [hi]


/-- `fp` is left alone by every step that is not a frame operation -/
theorem step_fp_kept (orc : Oracle) (vm vm' : Vm) (i : Instr) (hi : md.code[vm.ip]? = some i) (hrun : vm.running = 1)
    (hstep : (step md orc).run vm = .ok ((), vm'))
    (hnot : i.op ≠ .MARK ∧ i.op ≠ .CLEAR_STACK ∧ i.op ≠ .CALL ∧ i.op ≠ .RET ∧ i.op ≠ .RETHROW ∧ i.op ≠ .HALT ∧ i.op ≠ .UNHANDLED_EXCEPTION)
    (hmk : i.op = .MK_INIT_ARRAY → ∃ ds, stackInts vm i.w0 vm.sp = some ds ∧ extsCount ds < 4294967296) : vm'.fp = vm.fp := by
  obtain ⟨n1, n2, n3, n4, n5, n6, n7⟩ := hnot
  refine step_fp_of_exec orc vm vm' i hi hstep vm.fp (fun s2 h2 => ?_)
  cases he : simpleEffect i with
  | some pq =>
    obtain ⟨p, q⟩ := pq
    exact (Vm.simple_effect_sound md i orc p q he vm.sp { vm with ip := vm.ip + 1 } () s2 rfl h2).1
  | none =>
    rcases simpleEffect_none_cases i he with h | h | h | h | h | h | h | h | h | h | h | h | h | h
    · exact absurd h2 (exec_unmodelled_fails md i orc _ _ (Or.inl h))
    · exact absurd h2 (exec_unmodelled_fails md i orc _ _ (Or.inr (Or.inl h)))
    · exact absurd h2 (exec_unmodelled_fails md i orc _ _ (Or.inr (Or.inr h)))
    · exact (exec_jump md i orc h _ _ h2).1
    · obtain ⟨ds, hd, hc⟩ := hmk h
      have hd' : stackInts { vm with ip := vm.ip + 1 } i.w0 vm.sp = some ds := by
        rw [stackInts_congr vm { vm with ip := vm.ip + 1 } rfl rfl rfl]; exact hd
      exact (exec_MK_INIT_ARRAY md i orc h { vm with ip := vm.ip + 1 } s2 ds hd' hc h2).2.1
    · exact absurd h n1
    · exact absurd h n3
    · rcases exec_SLIDE md i orc h _ _ h2 with ⟨_, hg0⟩ | ⟨_, v1, hsl, hgc⟩
      · exact (gcRunPure_regs hg0).2.1
      · have a := (slideP_regs hsl).2.1
        have b := (gcRunPure_regs hgc).2.1
        rw [b, a]
    · exact absurd h n2
    · exact absurd h n4
    · exact absurd h n5
    · exact (mov_PUSH_PARAM md i orc vm.sp h { vm with ip := vm.ip + 1 } () s2 rfl h2).2.1
    · exact absurd h n7
    · exact absurd h n6

theorem getFunc_val {vm vm' : Vm} {a env fip : Nat} (h : (getFunc a).run vm = .ok ((env, fip), vm')) :
    vm.gc.mem.objAt a = some (.func env fip) := by
  unfold getFunc at h
  obtain ⟨o, v1, h1, h2⟩ := (run_bind_ok _ _ _ _ _).mp h
  obtain ⟨_, ho, _⟩ := objOf_val h1
  split at h2
  · obtain ⟨e1, _⟩ := (run_pure_ok _ _ _ _).mp h2
    cases e1; exact ho
  · exact absurd h2 (crash_run _ _ _ _)

/-- what RET does given an intact innermost record: registers restored from it, `sp` at the slot of the result -/
theorem ret_through_record {vm v1 : Vm} {r : Rec} (hso : StackOk vm) (hfp : vm.fp = r.F)
    (hd : RecData md hm vm r) (hret : retP { vm with ip := vm.ip + 1 } = .ok v1) :
    v1.sp = r.F - 4 ∧ v1.fp = r.fp ∧ v1.pp = r.pp ∧ v1.ip = r.ra ∧ v1.running = vm.running ∧ StackOk v1 := by
  obtain ⟨d1, d2, d3, _⟩ := hd
  obtain ⟨b1, b2, b3, b4⟩ := retP_bounds hret
  simp only at b1 b2 b3 b4
  obtain ⟨vx, ex, rp⟩ := retP_spec { vm with ip := vm.ip + 1 } hso b1 b2 b3 b4
  rw [hret] at ex; cases ex
  have sl : ∀ j, slot ({ vm with ip := vm.ip + 1 } : Vm) j = slot vm j := fun _ => rfl
  have e1 := rp.sp; have e2 := rp.fp; have e3 := rp.pp; have e4 := rp.ip
  simp only [sl] at e1 e2 e3 e4
  rw [hfp] at e1 e2 e3 e4
  refine ⟨e1, ?_, ?_, ?_, (retP_regs hret).2.2.1, rp.ok⟩
  · rw [e2, d2]; rfl
  · rw [e3, d1]; rfl
  · rw [e4, d3]; rfl


end

/-- the stack array after a step, from the stack array after the handler (the exception dispatch does not touch it) -/
theorem step_stack_of_exec {md : Module} (orc : Oracle) (vm vm' : Vm) (i : Instr) (hi : md.code[vm.ip]? = some i)
    (hstep : (step md orc).run vm = .ok ((), vm'))
    (hx : ∀ s2, (exec md i orc).run { vm with ip := vm.ip + 1 } = .ok ((), s2) → s2.stack = vm.stack) : vm'.stack = vm.stack := by
  obtain ⟨s2, he, hcase⟩ := step_exec md orc vm vm' i hi hstep
  rcases hcase with ⟨_, e⟩ | ⟨_, hd, _, e⟩
  · rw [e]; exact hx s2 he
  · rw [e]; exact hx s2 he


section
variable {md : Module} {hm : HMap} {bot : Int}

theorem recTop_le_sp {pp : Int} {np h : Nat} {ms : List Nat} (hn : marksNested h ms = true) :
    recTop pp (pp + (np : Int)) ms ≤ pp + (np : Int) + (h : Int) := by
  cases ms with
  | nil => simp only [recTop]; omega
  | cons m rest =>
    unfold marksNested at hn
    simp only [Bool.and_eq_true, decide_eq_true_eq] at hn
    simp only [recTop]; omega

/-- at MK_INIT_ARRAY the extents on the stack are the recorded constants: they are the last `dims` constants of the `INT` run -/
theorem Here.mk_init (hf : flowOk md hm = true) {vm : Vm} {recs : List Rec} (hh : Here md hm bot vm recs) {i : Instr} {st : AbsSt}
    (hi : md.code[vm.ip]? = some i) (hs : hm[vm.ip]? = some (some st)) (hop : i.op = .MK_INIT_ARRAY) :
    stackInts vm i.w0 vm.sp = initExts st i.w0 := by
  obtain ⟨ds, hds, _, _, hlen, hdse⟩ := pendOkAt_MK_INIT_ARRAY hi hs hop (flowOk_pend hf (lt_size_of_getElem? hi))
  rw [hds, hdse]
  exact stackInts_take vm _ _ _ hh.consts _ hlen

/-- a step on LABEL at a handler entry: only `ip` moves, and the next address is a handler entry again -/
theorem step_LABEL_handler (hf : flowOk md hm = true) (orc : Oracle) (vm vm' : Vm) (i : Instr) (hi : md.code[vm.ip]? = some i)
    (hop : i.op = .LABEL) (hh : AtHandler md hm vm) (hstep : (step md orc).run vm = .ok ((), vm')) :
    vm' = { vm with ip := vm.ip + 1 } ∧ AtHandler md hm vm' := by
  obtain ⟨hrun, hent, st, hs⟩ := hh
  have he : simpleEffect i = some (0, 0) := by simp [simpleEffect, hop, binOpOf, unOpOf, convOf, nilCmpOf, strAddOf, arrOpOf, mkArrayElem]
  obtain ⟨st', e1, _, _⟩ := flow_table hf hi hs he (by rw [hop]; decide)
  obtain ⟨s2, hx, hcase⟩ := step_exec md orc vm vm' i hi hstep
  exec_unfold hop at hx
  obtain ⟨sp, s0, h0, hA⟩ := (run_bind_ok _ _ _ _ _).mp hx
  obtain ⟨_, e0'⟩ := getSp_run _ _ _ h0
  obtain ⟨_, e1'⟩ := (run_pure_ok _ _ _ _).mp hA
  rw [e0'] at e1'
  subst e1'
  rcases hcase with ⟨_, rfl⟩ | ⟨h2, _⟩
  · refine ⟨rfl, hrun, ?_, st', e1⟩
    unfold handlerEntry at hent
    simp only [hi, Bool.or_eq_true, Bool.and_eq_true, beq_iff_eq] at hent
    rcases hent with hent | ⟨_, hnext⟩
    · unfold isHandlerOp at hent; rw [hop] at hent; simp at hent
    · unfold handlerEntry
      cases hn : md.code[vm.ip + 1]? with
      | none => simp [hn] at hnext
      | some j => simp only [hn] at hnext ⊢; simp [hnext]
  · simp only at h2; omega

/-- CLEAR_STACK, entered with any `sp` and the pending records above `pp`: they are dropped, the machine is at height 0 -/
theorem sound_CLEAR (hf : flowOk md hm = true) (orc : Oracle) (vm vm' : Vm) (recs : List Rec) (i : Instr) (st : AbsSt)
    (hi : md.code[vm.ip]? = some i) (hs : hm[vm.ip]? = some (some st)) (hop : i.op = .CLEAR_STACK)
    (hso : StackOk vm) (hd : Desc5 recs) (hwf : WF md hm bot vm recs) (hsp : SplitH bot vm.pp recs)
    (hstep : (step md orc).run vm = .ok ((), vm')) : Sound0 md hm bot vm' (ghostNext md vm recs) := by
  have hso' := (step_keeps_stackOk md orc vm vm' hso hstep).1
  obtain ⟨r1, r2, r3, _, r5, r6, r7⟩ := step_CLEAR_STACK_regs md orc vm vm' i hi hop hstep
  have hstk : vm'.stack = vm.stack := step_stack_of_exec orc vm vm' i hi hstep (fun s2 h2 => by
    rw [exec_CLEAR_STACK md i orc hop _ _ h2]; rfl)
  obtain ⟨hn, hk⟩ := frameOkAt_CLEAR_STACK hi hs hop (frame_at hf hi)
  obtain ⟨st', e1, e2, e3⟩ := hAt_spec hk
  have hmk := mAt_marksAt (pendOkAt_CLEAR_STACK hi hs hop (flowOk_pend hf (lt_size_of_getElem? hi)))
  have hgn : ghostNext md vm recs = recs.dropWhile (fun r => decide (r.F ≠ vm.pp)) := by
    unfold ghostNext; simp only [hi, hop]
  obtain ⟨rest, edw, ht, hsuf⟩ := hsp.dropWhile
  rw [hgn, edw]
  refine ⟨hso', by rw [r2, ht], Desc5_suffix recs rest hsuf hd,
    WF_transfer rest (WF_suffix recs rest hsuf hwf) (fun r _ => words_of_stack_eq hstk r), Or.inl ⟨⟨r6, st', by rw [r5]; exact e1, ?_⟩, ?_, ?_⟩⟩
  · rw [r5, fnParamsAt_same e3, r3, r1, e2, hn]; unfold fnParamsAt; omega
  · rw [r5, hmk, r3]
    exact ⟨[], rest, rfl, rfl, ht⟩
  · rw [r5, intRun_succ md vm.ip i hi]
    simp [hop, stackInts_zero]

/-- steps inside the running activation (anything but CALL / RET / RETHROW / HALT / UNHANDLED_EXCEPTION), from a machine at its
recorded height, keep the global invariant -/
theorem sound_inside (hf : flowOk md hm = true) (orc : Oracle) (vm vm' : Vm) (recs : List Rec) (i : Instr)
    (hi : md.code[vm.ip]? = some i)
    (hnot : i.op ≠ .CALL ∧ i.op ≠ .RET ∧ i.op ≠ .RETHROW ∧ i.op ≠ .HALT ∧ i.op ≠ .UNHANDLED_EXCEPTION)
    (hso : StackOk vm) (hfp : vm.fp = topF bot recs) (hd : Desc5 recs) (hwf : WF md hm bot vm recs) (hh : Here md hm bot vm recs)
    (hfresh : i.op = .INT → AllocFresh vm)
    (hstep : (step md orc).run vm = .ok ((), vm')) : Sound0 md hm bot vm' (ghostNext md vm recs) ∨ vm'.running = 3 := by
  obtain ⟨n1, n2, n3, n4, n5⟩ := hnot
  have hah := hh.height
  obtain ⟨hrun, st, hs, hinv⟩ := hah
  have hma : marksAt hm vm.ip = st.marks := marksAt_eq hs
  have hpend := flowOk_pend hf (lt_size_of_getElem? hi)
  have hnest := pendOkAt_nested hi hs hpend
  have hso' := (step_keeps_stackOk md orc vm vm' hso hstep).1
  have hmkinit : i.op = .MK_INIT_ARRAY → stackInts vm i.w0 vm.sp = initExts st i.w0 := fun hop => hh.mk_init hf hi hs hop
  -- no word of a live record is written
  have hsplit := hh.split
  rw [hma] at hsplit
  have hkeep : ∀ r, r ∈ recs → slot vm' (r.F - 4) = slot vm (r.F - 4) ∧ slot vm' (r.F - 1) = slot vm (r.F - 1) ∧ slot vm' r.F = slot vm r.F :=
    fun r hr => words_of_below (step_keeps_records hf orc vm vm' i st hi hs hrun hinv ⟨n2, n3⟩ hmkinit hstep) r (hsplit.le_top hd r hr)
  have hwf' : WF md hm bot vm' recs := WF_transfer recs hwf hkeep
  have htop : ∀ r, r ∈ recs → r.F ≤ vm.sp := fun r hr => by
    have h1 := hsplit.le_top hd r hr
    have h2 := recTop_le_sp (pp := vm.pp) (np := fnParamsAt md vm.ip) hnest
    omega
  by_cases hmark : i.op = .MARK
  · -- MARK: a new pending record
    left
    obtain ⟨hm', r1, r2, r3, _, r5, r6, r7⟩ := step_MARK_regs md orc vm vm' i hi hmark hrun hstep
    obtain ⟨_, _, _, _, _, _, _, b1, b2⟩ := markP_regs hm'
    simp only at b1 b2
    obtain ⟨vmx, ex, mp⟩ := markP_spec { vm with ip := vm.ip + 1 } i.w0 hso b1 b2
    rw [hm'] at ex; cases ex
    obtain ⟨k1, k2⟩ := frameOkAt_MARK hi hs hmark (frame_at hf hi)
    obtain ⟨sr, e1, e2, e3⟩ := hAt_spec k1
    obtain ⟨m1, m2, m3⟩ := pendOkAt_MARK hi hs hmark hpend
    obtain ⟨sn, f1, f2, f3⟩ := hAt_spec k2
    have hgn : ghostNext md vm recs = { F := vm.sp + 5, pp := vm.pp, fp := vm.fp, ra := i.w0 } :: recs := by
      unfold ghostNext; simp only [hi, hmark]
    rw [hgn]
    refine ⟨hso', by rw [r2]; rfl, ⟨fun x hx => by have := htop x hx; simp only; omega, hd⟩, ⟨hfp, ⟨?_, ?_, mp.w5, ⟨sr, e1, ?_⟩, m3⟩, ?_, hwf'⟩, Or.inl ⟨?_, ?_, ?_⟩⟩
    · have := mp.w1; simp only at this ⊢
      have e : vm.sp + 5 - 4 = vm.sp + 1 := by omega
      rw [e]; exact this
    · have := mp.w4; simp only at this ⊢
      have e : vm.sp + 5 - 1 = vm.sp + 4 := by omega
      rw [e]; exact this
    · simp only
      rw [fnParamsAt_same e3, e2]; omega
    · -- what the function will find below the record when the call returns: the live records of now
      simp only
      rw [fnParamsAt_same e3, mAt_marksAt m2]
      exact hsplit
    · exact (atHeight_next hf hinv k2 r6 r5 r3 (by rw [r1]; omega)).1
    · rw [r5, mAt_marksAt m1, r3, fnParamsAt_same f3]
      obtain ⟨pend, rest, e, hF, ht⟩ := hsplit
      refine ⟨{ F := vm.sp + 5, pp := vm.pp, fp := vm.fp, ra := i.w0 } :: pend, rest, by rw [e]; rfl, ?_, ht⟩
      simp only [List.map_cons, hF, List.cons.injEq, and_true]
      omega
    · rw [r5, intRun_succ md vm.ip i hi]
      simp [hmark, stackInts_zero]
  · by_cases hclr : i.op = .CLEAR_STACK
    · exact Or.inl (sound_CLEAR hf orc vm vm' recs i st hi hs hclr hso hd hwf
        (hh.split.toH (by omega)) hstep)
    · have hgn := ghostNext_other (md := md) (vm := vm) (recs := recs) hi hmark n2 n3 hclr
      rw [hgn]
      have hfp' : vm'.fp = vm.fp := by
        refine step_fp_kept orc vm vm' i hi hrun hstep ⟨hmark, hclr, n1, n2, n3, n4, n5⟩ (fun hmk => ?_)
        obtain ⟨ds, hds, hc, _, _⟩ := frameOkAt_MK_INIT_ARRAY hi hs hmk (frame_at hf hi)
        exact ⟨ds, by rw [hmkinit hmk, hds], hc⟩
      have hmn : marksNext md hm vm.ip = st.marks := marksNext_other hi hs hmark hclr
      by_cases hint : i.op = .INT
      · -- INT: one more constant on the stack
        left
        have he : simpleEffect i = some (0, 1) := by simp [simpleEffect, hint, binOpOf, unOpOf, convOf, nilCmpOf, strAddOf, arrOpOf, mkArrayElem]
        obtain ⟨st', q1, _, q3⟩ := flow_table hf hi hs he (by rw [hint]; decide)
        have hsame := frameOkAt_next hi hs he (frame_at hf hi)
        have hmk := (pendOkAt_table hi hs he (by rw [hint]; decide) hpend).2
        obtain ⟨s2, hx, hcase⟩ := step_exec md orc vm vm' i hi hstep
        obtain ⟨_, _, _, _, _, x5, x6, x7, x8, x9, _⟩ := exec_INT md i orc hint _ _ hx
        simp only at x5 x6 x7 x8 x9
        have hvm : vm' = s2 := by
          rcases hcase with ⟨_, e⟩ | ⟨h2, _⟩
          · exact e
          · omega
        have hc := int_extends_consts md i orc hint { vm with ip := vm.ip + 1 } s2 hso (hfresh hint) _ _
          (by rw [stackInts_congr vm { vm with ip := vm.ip + 1 } rfl rfl rfl]; exact hh.consts) hx
        rw [hvm]
        refine ⟨by rw [← hvm]; exact hso', by rw [x6]; exact hfp, hd, by rw [← hvm]; exact hwf', Or.inl ⟨⟨by omega, st', by rw [x8]; exact q1, ?_⟩, ?_, ?_⟩⟩
        · rw [x8, fnParamsAt_same hsame, x7, x5]; omega
        · rw [x8, mAt_marksAt hmk, x7, fnParamsAt_same hsame]; exact hsplit
        · rw [x8, intRun_succ md vm.ip i hi, if_pos hint]
          exact hc
      · -- any other instruction: the successor continues no run of constants
        have hin : Inside md hm vm := by
          intro j hj
          rw [hi] at hj; cases hj
          exact ⟨n1, n2, n3, n4, n5, fun hop st2 hs2 => by rw [hs] at hs2; cases hs2; exact hmkinit hop⟩
        obtain ⟨a1, a2, a3⟩ := step_atHeight hf orc vm vm' hh.height hin hstep
        rcases a3 with ⟨a3, e1, e2, e3⟩ | ⟨a3, _⟩ | a3
        · left
          refine ⟨hso', by rw [hfp', hfp], hd, hwf', Or.inl ⟨a3, ?_, ?_⟩⟩
          · rw [e2, hmn, a1, fnParamsAt_same e1]; exact hsplit
          · rcases e3 with e3 | ⟨_, j, hj, hji⟩
            · rw [e3]; exact stackInts_zero _ _
            · rw [hi] at hj; cases hj; exact absurd hji hint
        · left
          refine ⟨hso', by rw [hfp', hfp], hd, hwf', Or.inr ⟨a3, ?_⟩⟩
          rw [a1]; exact hh.split.toH (by omega)
        · exact Or.inr a3


/-- in a state satisfying the invariant the arity of the callee is all that `CallOk` asks: `fp` is the record of the call in
preparation (or `pp` for a last call), so the number of slots between it and the function value is the site's `callArgs` -/
theorem calleeArity_callOk (hf : flowOk md hm = true) {vm : Vm} {recs : List Rec} {i : Instr} (hi : md.code[vm.ip]? = some i)
    (hop : i.op = .CALL) (hfp : vm.fp = topF bot recs) (hh : Here md hm bot vm recs) (h : CalleeArity md hm vm) : CallOk md vm := by
  intro env fip hc
  rcases h env fip hc with h0 | ⟨hmem, har⟩
  · exact Or.inl h0
  refine Or.inr ⟨hmem, ?_⟩
  obtain ⟨_, st, hs, hinv⟩ := hh.height
  have hsplit := hh.split
  rw [marksAt_eq hs] at hsplit
  have hfl := pendOkAt_CALL hi hs hop (flowOk_pend hf (lt_size_of_getElem? hi))
  have h1 : 1 ≤ st.h := by
    rcases frameOkAt_CALL hi hs hop (frame_at hf hi) with ⟨_, h⟩ | ⟨_, h⟩ <;> omega
  unfold callArgs at har
  rw [hs] at har
  simp only at har
  obtain ⟨pend, rest, e, hF, ht⟩ := hsplit
  cases hms : st.marks with
  | nil =>
    rw [hms] at hF har
    have hp : pend = [] := by cases pend with | nil => rfl | cons p ps => simp at hF
    subst hp
    simp only [List.nil_append] at e
    subst e
    simp only at har
    rw [hfp, ht, hinv, har]
    have : ((fnParamsAt md vm.ip + st.h - 1 : Nat) : Int) = (fnParamsAt md vm.ip : Int) + (st.h : Int) - 1 := by omega
    rw [this]; omega
  | cons m ms' =>
    rw [hms] at hF har hfl
    simp only [pendFloor] at hfl
    cases pend with
    | nil => simp at hF
    | cons p0 ps =>
      simp only [List.map_cons, List.cons.injEq] at hF
      subst e
      simp only at har
      have hfp' : vm.fp = p0.F := hfp
      rw [hfp', hF.1, hinv, har]
      have : ((st.h - (m + 5) - 1 : Nat) : Int) = (st.h : Int) - (m : Int) - 6 := by omega
      rw [this]; omega

/-- **CALL.**  With a function value of the right arity on top (`CallOk`), the callee is entered at its recorded height 0 with
`pp = fp` (its frame base is the record the matching MARK pushed) and `sp = pp + nparams`, no call in preparation; a nil function
value raises and control is at the handler of the CALL's address.  The live records are unchanged. -/
theorem sound_CALL (hf : flowOk md hm = true) (orc : Oracle) (vm vm' : Vm) (recs : List Rec) (i : Instr)
    (hi : md.code[vm.ip]? = some i) (hop : i.op = .CALL)
    (hso : StackOk vm) (hfp : vm.fp = topF bot recs) (hd : Desc5 recs) (hwf : WF md hm bot vm recs) (hh : Here md hm bot vm recs)
    (hcall : CallOk md vm)
    (hstep : (step md orc).run vm = .ok ((), vm')) : Sound0 md hm bot vm' (ghostNext md vm recs) := by
  have hso' := (step_keeps_stackOk md orc vm vm' hso hstep).1
  have hgn := ghostNext_other (md := md) (vm := vm) (recs := recs) hi (by rw [hop]; decide) (by rw [hop]; decide) (by rw [hop]; decide) (by rw [hop]; decide)
  rw [hgn]
  have hstk : vm'.stack = vm.stack := step_stack_of_exec orc vm vm' i hi hstep (fun s2 h2 => by
    obtain ⟨a, env, fip, _, _, e⟩ := exec_CALL md i orc hop _ _ h2
    rw [e]; unfold callP; split <;> rfl)
  have hwf' : WF md hm bot vm' recs := WF_transfer recs hwf (fun r _ => words_of_stack_eq hstk r)
  obtain ⟨s2, he, hcase⟩ := step_exec md orc vm vm' i hi hstep
  obtain ⟨a, env, fip, hr1, hr2, hcp⟩ := exec_CALL md i orc hop _ _ he
  obtain ⟨b1, ea, _⟩ := rdAddr_val hr1
  have hobj := getFunc_val hr2
  simp only at b1 ea hobj
  have hcallee : calleeOf vm = some (env, fip) := by
    unfold calleeOf
    rw [if_neg b1, ← ea, hobj]
  have hrun : vm.running = 1 := hh.height.1
  unfold callP at hcp
  by_cases h0 : fip = 0
  · -- nil function value: nil_pointer is raised, the handler of this address is entered
    simp only [h0, beq_self_eq_true, if_true] at hcp
    rcases hcase with ⟨hne, _⟩ | ⟨_, hdl, hhd, e⟩
    · rw [hcp] at hne; exact absurd rfl hne
    · rw [hcp] at hhd e
      simp only at hhd e
      have hip : vm.ip + 1 - 1 = vm.ip := by omega
      rw [hip] at hhd
      obtain ⟨k1, k2⟩ := handler_entry hf hhd
      have f1 : vm'.fp = vm.fp := by rw [e]
      have f2 : vm'.pp = vm.pp := by rw [e]
      have f3 : vm'.ip = hdl := by rw [e]
      have f4 : vm'.running = 1 := by rw [e]
      exact ⟨hso', by rw [f1]; exact hfp, hd, hwf', Or.inr ⟨⟨f4, by rw [f3]; exact k1, by rw [f3]; exact k2⟩, by rw [f2]; exact hh.split.toH (by omega)⟩⟩
  · have hne0 : (fip == 0) = false := by simpa using h0
    simp only [hne0, Bool.false_eq_true, if_false] at hcp
    rcases hcall env fip hcallee with h00 | ⟨hmem, harity⟩
    · exact absurd h00 h0
    rcases hcase with ⟨_, e⟩ | ⟨h2, _⟩
    · obtain ⟨st0, hs0, hh0, hm0, hr0⟩ := flowOk_starts hf hmem
      have f1 : vm'.fp = vm.fp := by rw [e, hcp]
      have f2 : vm'.pp = vm.fp := by rw [e, hcp]
      have f3 : vm'.ip = fip := by rw [e, hcp]
      have f4 : vm'.running = 1 := by rw [e, hcp]; exact hrun
      have f5 : vm'.sp = vm.sp - 1 := by rw [e, hcp]
      refine ⟨hso', by rw [f1]; exact hfp, hd, hwf', Or.inl ⟨⟨f4, st0, by rw [f3]; exact hs0, ?_⟩, ?_, ?_⟩⟩
      · rw [f5, f2, f3, hh0]; omega
      · rw [f3, marksAt_eq hs0, hm0, f2]
        exact ⟨[], recs, rfl, rfl, hfp.symm⟩
      · rw [f3, hr0]; exact stackInts_zero _ _
    · rw [hcp] at h2; simp only at h2; omega

/-- RET / RETHROW write one slot, the lowest word of the record they pop: the records below keep their words -/
theorem ret_keeps_below {vm v1 : Vm} {r : Rec} {rs : List Rec} (hso : StackOk vm) (hfp : vm.fp = r.F) (hd : Desc5 (r :: rs))
    (hret : retP { vm with ip := vm.ip + 1 } = .ok v1) :
    ∀ x, x ∈ rs → slot v1 (x.F - 4) = slot vm (x.F - 4) ∧ slot v1 (x.F - 1) = slot vm (x.F - 1) ∧ slot v1 x.F = slot vm x.F := by
  obtain ⟨b1, b2, b3, b4⟩ := retP_bounds hret
  simp only at b1 b2 b3 b4
  obtain ⟨vx, ex, rp⟩ := retP_spec { vm with ip := vm.ip + 1 } hso b1 b2 b3 b4
  rw [hret] at ex; cases ex
  have sl : ∀ j, slot ({ vm with ip := vm.ip + 1 } : Vm) j = slot vm j := fun _ => rfl
  have k := rp.other
  simp only [sl] at k
  intro x hx
  have := hd.1 x hx
  exact ⟨k _ (by omega), k _ (by omega), k _ (by omega)⟩

/-- **RET.**  Through the innermost live record the machine returns to the MARK's return address at ITS recorded height — the frame is
popped and exactly the result is pushed: `sp = (sp before the MARK) + 1` —, with `fp` and `pp` of the caller restored, and the
caller finds the records of its own calls in preparation as it left them. -/
theorem sound_RET (hf : flowOk md hm = true) (orc : Oracle) (vm vm' : Vm) (recs : List Rec) (i : Instr)
    (hi : md.code[vm.ip]? = some i) (hop : i.op = .RET)
    (hso : StackOk vm) (hfp : vm.fp = topF bot recs) (hd : Desc5 recs) (hwf : WF md hm bot vm recs) (hrun : vm.running = 1)
    (hne : recs ≠ [])
    (hstep : (step md orc).run vm = .ok ((), vm')) : Sound0 md hm bot vm' (ghostNext md vm recs) ∧
      ∃ r rs, recs = r :: rs ∧ ghostNext md vm recs = rs ∧ vm'.ip = r.ra ∧ vm'.sp = r.F - 4 ∧ vm'.fp = r.fp ∧ vm'.pp = r.pp ∧ vm'.running = 1 := by
  have hso' := (step_keeps_stackOk md orc vm vm' hso hstep).1
  cases recs with
  | nil => exact absurd rfl hne
  | cons r rs =>
    have hgn : ghostNext md vm (r :: rs) = rs := by unfold ghostNext; simp only [hi, hop, List.tail_cons]
    obtain ⟨w1, w3, wsp, w4⟩ := hwf
    obtain ⟨s2, he, hcase⟩ := step_exec md orc vm vm' i hi hstep
    obtain ⟨v1, hret, hgc⟩ := exec_RET md i orc hop _ _ he
    obtain ⟨q1, q2, q3, q4, q5, _⟩ := ret_through_record hso hfp w3 hret
    obtain ⟨g1, g2, g3, _, g5, g6, _, g8⟩ := gcRunPure_regs hgc
    have hk1 := ret_keeps_below hso hfp hd hret
    rcases hcase with ⟨_, e⟩ | ⟨h2, _⟩
    · obtain ⟨_, _, _, ⟨st, hst, hht⟩, hir⟩ := w3
      rw [hgn]
      have hsl : ∀ j, slot vm' j = slot v1 j := fun j => by rw [e]; unfold slot; rw [g8]
      have hwf' : WF md hm bot vm' rs := WF_transfer rs w4 (fun x hx => by
        obtain ⟨k1, k2, k3⟩ := hk1 x hx
        exact ⟨by rw [hsl, k1], by rw [hsl, k2], by rw [hsl, k3]⟩)
      have f1 : vm'.ip = r.ra := by rw [e, g5, q4]
      have f2 : vm'.sp = r.F - 4 := by rw [e, g1, q1]
      have f3 : vm'.fp = r.fp := by rw [e, g2, q2]
      have f4 : vm'.pp = r.pp := by rw [e, g3, q3]
      have f5 : vm'.running = 1 := by rw [e]; omega
      refine ⟨⟨hso', by rw [f3]; exact w1, hd.2, hwf', Or.inl ⟨⟨f5, st, by rw [f1]; exact hst, ?_⟩, ?_, ?_⟩⟩,
        r, rs, rfl, rfl, f1, f2, f3, f4, f5⟩
      · rw [f2, f4, f1]; exact hht
      · rw [f1, f4]; exact wsp
      · rw [f1, hir]; exact stackInts_zero _ _
    · omega

/-- **RETHROW.**  The frame (complete or only MARKed) is popped like by RET and the exception is raised again: control is at the
handler the exception table assigns to the address before the record's return address, `fp`/`pp` restored from the record. -/
theorem sound_RETHROW (hf : flowOk md hm = true) (orc : Oracle) (vm vm' : Vm) (recs : List Rec) (i : Instr)
    (hi : md.code[vm.ip]? = some i) (hop : i.op = .RETHROW)
    (hso : StackOk vm) (hfp : vm.fp = topF bot recs) (hd : Desc5 recs) (hwf : WF md hm bot vm recs)
    (hne : recs ≠ [])
    (hstep : (step md orc).run vm = .ok ((), vm')) : Sound0 md hm bot vm' (ghostNext md vm recs) := by
  have hso' := (step_keeps_stackOk md orc vm vm' hso hstep).1
  cases recs with
  | nil => exact absurd rfl hne
  | cons r rs =>
    have hgn : ghostNext md vm (r :: rs) = rs := by unfold ghostNext; simp only [hi, hop, List.tail_cons]
    obtain ⟨w1, w3, wsp, w4⟩ := hwf
    obtain ⟨s2, he, hcase⟩ := step_exec md orc vm vm' i hi hstep
    obtain ⟨v1, v2, hret, hgc, es2⟩ := exec_RETHROW md i orc hop _ _ he
    obtain ⟨q1, q2, q3, q4, q5, _⟩ := ret_through_record hso hfp w3 hret
    obtain ⟨g1, g2, g3, _, g5, g6, _, g8⟩ := gcRunPure_regs hgc
    have hk1 := ret_keeps_below hso hfp hd hret
    rcases hcase with ⟨hn2, _⟩ | ⟨_, hdl, hhd, e⟩
    · rw [es2] at hn2; exact absurd rfl hn2
    · obtain ⟨k1, k2⟩ := handler_entry hf hhd
      rw [hgn]
      have hsl : ∀ j, slot vm' j = slot v1 j := fun j => by rw [e, es2]; unfold slot; simp only; rw [g8]
      have hwf' : WF md hm bot vm' rs := WF_transfer rs w4 (fun x hx => by
        obtain ⟨c1, c2, c3⟩ := hk1 x hx
        exact ⟨by rw [hsl, c1], by rw [hsl, c2], by rw [hsl, c3]⟩)
      have f1 : vm'.fp = v2.fp := by rw [e, es2]
      have f2 : vm'.pp = v2.pp := by rw [e, es2]
      have f3 : vm'.ip = hdl := by rw [e]
      have f4 : vm'.running = 1 := by rw [e]
      refine ⟨hso', by rw [f1, g2, q2]; exact w1, hd.2, hwf', Or.inr ⟨⟨f4, by rw [f3]; exact k1, by rw [f3]; exact k2⟩, ?_⟩⟩
      rw [f2, g3, q3]
      exact wsp.toH (by omega)

/-- **One step of a verified module keeps the global invariant**, under the side conditions `StepOk0` -/
theorem step_sound0 (hf : flowOk md hm = true) (orc : Oracle) (vm vm' : Vm) (recs : List Rec)
    (hs : Sound0 md hm bot vm recs) (hstep : (step md orc).run vm = .ok ((), vm')) (hok : StepOk0 md hm vm recs) :
    Sound0 md hm bot vm' (ghostNext md vm recs) ∨ vm'.running = 3 ∨ vm'.running = 0 := by
  obtain ⟨hso, hfp, hd, hwf, hcase⟩ := hs
  cases hi : md.code[vm.ip]? with
  | none =>
    exfalso
    unfold step at hstep
    obtain ⟨v0, s0, h0, hA⟩ := (run_bind_ok _ _ _ _ _).mp hstep
    obtain ⟨e0, e0'⟩ := get_run _ _ _ h0
    rw [e0, e0', hi] at hA
    exact crash_run _ _ _ _ hA
  | some i =>
    obtain ⟨c1, c2, c3⟩ := hok i hi
    have hrun : vm.running = 1 := by
      rcases hcase with h | h
      · exact h.height.1
      · exact h.1.1
    by_cases h2 : i.op = .RET
    · exact Or.inl (sound_RET hf orc vm vm' recs i hi h2 hso hfp hd hwf hrun (c2 (Or.inl h2)) hstep).1
    by_cases h3 : i.op = .RETHROW
    · exact Or.inl (sound_RETHROW hf orc vm vm' recs i hi h3 hso hfp hd hwf (c2 (Or.inr h3)) hstep)
    by_cases h4 : i.op = .HALT
    · right; right
      obtain ⟨s2, he, hc⟩ := step_exec md orc vm vm' i hi hstep
      have := exec_HALT md i orc h4 _ _ he
      rcases hc with ⟨_, e⟩ | ⟨hr2, _⟩
      · rw [e, this]
      · rw [this] at hr2; simp at hr2
    by_cases h5 : i.op = .UNHANDLED_EXCEPTION
    · right; left
      obtain ⟨s2, he, hc⟩ := step_exec md orc vm vm' i hi hstep
      have := exec_UNHANDLED md i orc h5 _ _ he
      rcases hc with ⟨_, e⟩ | ⟨hr2, _⟩
      · rw [e, this]
      · omega
    rcases hcase with hh | ⟨hah, hsph⟩
    · -- at the recorded height
      by_cases h1 : i.op = .CALL
      · exact Or.inl (sound_CALL hf orc vm vm' recs i hi h1 hso hfp hd hwf hh (calleeArity_callOk hf hi h1 hfp hh (c1 h1)) hstep)
      · rcases sound_inside hf orc vm vm' recs i hi ⟨h1, h2, h3, h4, h5⟩ hso hfp hd hwf hh c3 hstep with h | h
        · exact Or.inl h
        · exact Or.inr (Or.inl h)
    · -- at a handler entry: CLEAR_STACK or LABEL (RETHROW / UNHANDLED_EXCEPTION are done)
      have hah0 := hah
      obtain ⟨_, _, st, hst⟩ := hah0
      rcases atHandler_op hah hi with h | h | h | h
      · exact Or.inl (sound_CLEAR hf orc vm vm' recs i st hi hst h hso hd hwf hsph hstep)
      · exact absurd h h3
      · exact absurd h h5
      · left
        obtain ⟨e, hah'⟩ := step_LABEL_handler hf orc vm vm' i hi h hah hstep
        have hgn := ghostNext_other (md := md) (vm := vm) (recs := recs) hi (by rw [h]; decide) (by rw [h]; decide) (by rw [h]; decide) (by rw [h]; decide)
        rw [hgn]
        have hstk : vm'.stack = vm.stack := by rw [e]
        refine ⟨(step_keeps_stackOk md orc vm vm' hso hstep).1, by rw [e]; exact hfp, hd,
          WF_transfer recs hwf (fun r _ => words_of_stack_eq hstk r), Or.inr ⟨hah', by rw [e]; exact hsph⟩⟩

end

/-- **the global invariant**: `Sound0` (registers, frame records, heights) and the heap's bookkeeping `FreeInv` -/
def Sound (md : Module) (hm : HMap) (bot : Int) (vm : Vm) (recs : List Rec) : Prop :=
  Sound0 md hm bot vm recs ∧ FreeInv vm.gc

/-- the side conditions of one step that the verifier cannot establish: a CALL finds a function value of the arity of its call site
(`CalleeArity`: type soundness, see Props/C07); and, as a matter of where the considered run starts, a RET / RETHROW finds a live
record.  (That the allocator hands an `INT` a free cell is no longer a condition: the heap's bookkeeping invariant holds along every
execution, Props/C09 `vm_heap_bookkeeping_invariant`.) -/
def StepOk (md : Module) (hm : HMap) (vm : Vm) (recs : List Rec) : Prop :=
  ∀ i, md.code[vm.ip]? = some i →
     (i.op = .CALL → CalleeArity md hm vm) ∧
     ((i.op = .RET ∨ i.op = .RETHROW) → recs ≠ [])

/-- **One step of a verified module keeps the global invariant**, under the side conditions `StepOk` -/
theorem step_sound {md : Module} {hm : HMap} {bot : Int} (hf : flowOk md hm = true) (orc : Oracle) (vm vm' : Vm) (recs : List Rec)
    (hs : Sound md hm bot vm recs) (hstep : (step md orc).run vm = .ok ((), vm')) (hok : StepOk md hm vm recs) :
    Sound md hm bot vm' (ghostNext md vm recs) ∨ vm'.running = 3 ∨ vm'.running = 0 := by
  obtain ⟨h0, hfree⟩ := hs
  have hfree' := step_keeps_freeInv md orc vm vm' hfree hstep
  have hok0 : StepOk0 md hm vm recs := fun i hi => ⟨(hok i hi).1, (hok i hi).2, fun _ => hfree.alloc_fresh⟩
  rcases step_sound0 hf orc vm vm' recs h0 hstep hok0 with h | h | h
  · exact Or.inl ⟨h, hfree'⟩
  · exact Or.inr (Or.inl h)
  · exact Or.inr (Or.inr h)

/-- `n` steps of M-VM from `(vm, recs)` to `(vm', recs')` — each from a running machine, each with some results of its external
calls, each satisfying the side conditions `StepOk` —, the list of live records updated by `ghostNext` -/
inductive RunsG (md : Module) (hm : HMap) : Nat → Vm → List Rec → Vm → List Rec → Prop
  | zero (vm : Vm) (recs : List Rec) : RunsG md hm 0 vm recs vm recs
  | succ {n : Nat} {vm v1 v2 : Vm} {recs recs2 : List Rec} (orc : Oracle) : vm.running = 1 →
      (step md orc).run vm = .ok ((), v1) → StepOk md hm vm recs → RunsG md hm n v1 (ghostNext md vm recs) v2 recs2 →
      RunsG md hm (n + 1) vm recs v2 recs2

/-- **whole executions keep the global invariant** (calls, returns, exceptions included) -/
theorem runsG_sound {md : Module} {hm : HMap} {bot : Int} (hf : flowOk md hm = true) : ∀ (n : Nat) (vm vm' : Vm) (recs recs' : List Rec),
    Sound md hm bot vm recs → RunsG md hm n vm recs vm' recs' →
    Sound md hm bot vm' recs' ∨ vm'.running = 3 ∨ vm'.running = 0 := by
  intro n
  induction n with
  | zero => intro vm vm' recs recs' hs hr; cases hr; exact Or.inl hs
  | succ n ih =>
    intro vm vm' recs recs' hs hr
    cases hr with
    | succ orc hrun hstep hok hrest =>
      rename_i v1
      rcases step_sound hf orc vm v1 recs hs hstep hok with h | h | h
      · exact ih _ _ _ _ h hrest
      · cases hrest with
        | zero => exact Or.inr (Or.inl h)
        | succ orc' hrun' _ _ _ => omega
      · cases hrest with
        | zero => exact Or.inr (Or.inr h)
        | succ orc' hrun' _ _ _ => omega

/-- the machine `nev_execute` starts on the first time (empty stack, `sp = fp = pp = −1`, control at address 0) satisfies the global
invariant with no live record -/
theorem sound0_initial {md : Module} {hm : HMap} (hf : flowOk md hm = true) (mem stack gcMode : Nat) :
    Sound0 md hm (-1) (beginExecute md (Vm.new mem stack gcMode)) [] := by
  obtain ⟨st, hs, hz, hm0⟩ := flowOk_entry hf
  have e : beginExecute md (Vm.new mem stack gcMode) = { Vm.new mem stack gcMode with ip := 0, initialized := true, running := 1 } := by
    unfold beginExecute; simp [Vm.new]
  rw [e]
  refine ⟨?_, rfl, trivial, trivial, Or.inl ⟨⟨rfl, st, hs, ?_⟩, ?_, ?_⟩⟩
  · unfold StackOk Vm.new; simp
  · show (-1 : Int) = -1 + (fnParamsAt md 0 : Int) + (st.h : Int)
    unfold fnParamsAt; omega
  · show Split (-1) (-1) _ (marksAt hm 0) []
    rw [marksAt_eq hs, hm0]
    exact ⟨[], [], rfl, rfl, rfl⟩
  · exact stackInts_zero _ _

/-- … and the whole invariant, on a heap of at least one cell -/
theorem sound_initial {md : Module} {hm : HMap} (hf : flowOk md hm = true) (mem stack gcMode : Nat) (hmem : 1 ≤ mem) :
    Sound md hm (-1) (beginExecute md (Vm.new mem stack gcMode)) [] := by
  refine ⟨sound0_initial hf mem stack gcMode, ?_⟩
  have : (beginExecute md (Vm.new mem stack gcMode)).gc = Gc.new mem := by unfold beginExecute Vm.new; simp
  rw [this]; exact freeInv_new mem hmem

/-! ### the side conditions as a decidable check on concrete runs -/

theorem stepOkB_sound {md : Module} {hm : HMap} {vm vm' : Vm} {recs : List Rec} (h : stepOkB md hm vm vm' recs = true) :
    StepOk md hm vm recs := by
  unfold stepOkB at h
  simp only [Bool.and_eq_true] at h
  obtain ⟨_, h2⟩ := h
  intro i hi
  rw [hi] at h2
  simp only [Bool.and_eq_true, Bool.or_eq_true, bne_iff_ne, ne_eq, Bool.not_eq_true', beq_iff_eq] at h2
  obtain ⟨⟨⟨c1, c2⟩, c3⟩, _⟩ := h2
  refine ⟨fun hop => ?_, fun hop => ?_⟩
  · rcases c1 with c1 | c1
    · exact absurd hop c1
    · intro env fip hc
      unfold callOkB at c1
      rw [hc] at c1
      simp only [Bool.or_eq_true, beq_iff_eq, Bool.and_eq_true, decide_eq_true_eq] at c1
      exact c1
  · rcases c2 with c2 | c2
    · rcases hop with hop | hop
      · simp [hop] at c2
      · simp [hop] at c2
    · intro he; rw [he] at c2; simp at c2

/-- run `n` steps, following the live records and checking `stepOkB` at every step; `none` if one fails -/
def runGB (md : Module) (hm : HMap) (orc : Nat → Oracle) : Nat → Vm → List Rec → Option (Vm × List Rec)
  | 0, vm, recs => some (vm, recs)
  | n+1, vm, recs =>
    if vm.running ≠ 1 then some (vm, recs) else
    match (step md (orc n)).run vm with
    | .ok (_, v1) => if stepOkB md hm vm v1 recs then runGB md hm orc n v1 (ghostNext md vm recs) else none
    | .error _ => none

theorem runGB_runsG (md : Module) (hm : HMap) (orc : Nat → Oracle) : ∀ (n : Nat) (vm : Vm) (recs : List Rec) (vm' : Vm) (recs' : List Rec),
    runGB md hm orc n vm recs = some (vm', recs') → ∃ k, RunsG md hm k vm recs vm' recs' := by
  intro n
  induction n with
  | zero => intro vm recs vm' recs' h; unfold runGB at h; cases h; exact ⟨0, .zero _ _⟩
  | succ n ih =>
    intro vm recs vm' recs' h
    unfold runGB at h
    split at h
    · cases h; exact ⟨0, .zero _ _⟩
    · rename_i hr
      split at h
      · rename_i u v1 hs
        split at h
        · rename_i hb
          obtain ⟨k, hk⟩ := ih _ _ _ _ h
          cases u
          exact ⟨k + 1, .succ (orc n) (by omega) hs (stepOkB_sound hb) hk⟩
        · cases h
      · cases h

end Never.Ver
