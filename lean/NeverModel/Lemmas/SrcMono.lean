/-
Fuel monotonicity of the reference evaluator: a run that does not end in `outOfFuel` is
unchanged by more fuel.
-/
import NeverModel.Lemmas.SrcAlpha
namespace Never.Src

def Res.isOOF : Res α → Prop
  | .stop .outOfFuel _ => True
  | _ => False

/-- `m'` agrees with `m` wherever `m` does not run out of fuel -/
structure Mono (m m' : M α) : Prop where
  h : ∀ s, ¬ (m s).isOOF → m' s = m s

theorem Mono.rfl {m : M α} : Mono m m := ⟨fun _ _ => Eq.refl _⟩

theorem Mono.bind {m m' : M α} {k k' : α → M β} (h : Mono m m') (hk : ∀ a, Mono (k a) (k' a)) :
    Mono (m >>= k) (m' >>= k') := by
  constructor
  intro s hn
  simp only [bind_eq, M.bind] at hn ⊢
  cases hm : m s with
  | ok a s1 =>
    rw [hm] at hn
    have := h.h s (by rw [hm]; exact fun h => h)
    rw [this, hm]
    exact (hk a).h s1 hn
  | exc e s1 =>
    have := h.h s (by rw [hm]; exact fun h => h)
    rw [this, hm]
  | stop c s1 =>
    rw [hm] at hn
    simp only at hn
    have hα : ¬ (Res.stop c s1 : Res α).isOOF := by
      cases c <;> first | exact fun h => h | exact hn
    have := h.h s (by rw [hm]; exact hα)
    rw [this, hm]

theorem Mono.tryCatch {m m' : M α} {k k' : Exc → M α} (h : Mono m m') (hk : ∀ e, Mono (k e) (k' e)) :
    Mono (tryCatch m k) (tryCatch m' k') := by
  constructor
  intro s hn
  simp only [Never.Src.tryCatch] at hn ⊢
  cases hm : m s with
  | ok a s1 =>
    have := h.h s (by rw [hm]; exact fun h => h)
    rw [this, hm]
  | exc e s1 =>
    rw [hm] at hn
    have := h.h s (by rw [hm]; exact fun h => h)
    rw [this, hm]
    exact (hk e).h s1 hn
  | stop c s1 =>
    rw [hm] at hn
    simp only at hn
    have := h.h s (by rw [hm]; exact hn)
    rw [this, hm]

theorem Mono.oof {m' : M α} : Mono (oof : M α) m' := by
  constructor
  intro s hn
  exact absurd trivial hn

structure MonoAt (n : Nat) : Prop where
  e : ∀ ctx env e, Mono (evalE n ctx env e) (evalE (n + 1) ctx env e)
  args : ∀ ctx env es, Mono (evalArgs n ctx env es) (evalArgs (n + 1) ctx env es)
  seq : ∀ ctx env items, Mono (evalSeq n ctx env items) (evalSeq (n + 1) ctx env items)
  whl : ∀ ctx env c b, Mono (evalWhile n ctx env c b) (evalWhile (n + 1) ctx env c b)
  doWhl : ∀ ctx env b c, Mono (evalDoWhile n ctx env b c) (evalDoWhile (n + 1) ctx env b c)
  for_ : ∀ ctx env c s b, Mono (evalFor n ctx env c s b) (evalFor (n + 1) ctx env c s b)
  forIn : ∀ ctx env x lc i b, Mono (evalForIn n ctx env x lc i b) (evalForIn (n + 1) ctx env x lc i b)
  call : ∀ ctx fid cells as, Mono (callClo n ctx fid cells as) (callClo (n + 1) ctx fid cells as)
  hdl : ∀ ctx env cs ex, Mono (handle n ctx env cs ex) (handle (n + 1) ctx env cs ex)
  guards : ∀ ctx env l gs, Mono (evalGuards n ctx env l gs) (evalGuards (n + 1) ctx env l gs)
  quals : ∀ ctx env qs body ty o, Mono (evalQuals n ctx env qs body ty o) (evalQuals (n + 1) ctx env qs body ty o)
  gen : ∀ ctx env x lc i qs body ty o, Mono (evalGen n ctx env x lc i qs body ty o) (evalGen (n + 1) ctx env x lc i qs body ty o)
  forRng : ∀ ctx env x ao cur asc lt b, Mono (evalForRng n ctx env x ao cur asc lt b) (evalForRng (n + 1) ctx env x ao cur asc lt b)
  genRng : ∀ ctx env x ao cur asc lt qs body ty o, Mono (evalGenRng n ctx env x ao cur asc lt qs body ty o) (evalGenRng (n + 1) ctx env x ao cur asc lt qs body ty o)

theorem mono_zero : MonoAt 0 := by
  constructor <;> intros <;> simp only [evalE, evalArgs, evalSeq, evalWhile, evalDoWhile, evalFor, evalForIn, callClo, handle, evalGuards, evalQuals, evalGen, evalForRng, evalGenRng] <;> exact Mono.oof

/-- decompose a goal `Mono lhs rhs` whose two sides have the same shape, closing the leaves
with the induction hypothesis -/
syntax "mono_tac" ident : tactic
macro_rules
  | `(tactic| mono_tac $ih) => `(tactic| repeat (first
      | exact MonoAt.e $ih _ _ _
      | exact MonoAt.args $ih _ _ _
      | exact MonoAt.seq $ih _ _ _
      | exact MonoAt.whl $ih _ _ _ _
      | exact MonoAt.doWhl $ih _ _ _ _
      | exact MonoAt.for_ $ih _ _ _ _ _
      | exact MonoAt.forIn $ih _ _ _ _ _ _
      | exact MonoAt.call $ih _ _ _ _
      | exact MonoAt.hdl $ih _ _ _ _
      | exact MonoAt.guards $ih _ _ _ _
      | exact MonoAt.quals $ih _ _ _ _ _ _
      | exact MonoAt.gen $ih _ _ _ _ _ _ _ _ _
      | exact MonoAt.forRng $ih _ _ _ _ _ _ _ _
      | exact MonoAt.genRng $ih _ _ _ _ _ _ _ _ _ _ _
      | apply Mono.bind
      | apply Mono.tryCatch
      | intro _
      | exact Mono.rfl
      | split))

theorem mono_e (n : Nat) (ih : MonoAt n) (ctx : Ctx) (env : Env) (e : Expr) :
    Mono (evalE (n + 1) ctx env e) (evalE (n + 2) ctx env e) := by
  cases e <;> simp only [evalE] <;> mono_tac ih

theorem mono_args (n : Nat) (ih : MonoAt n) (ctx : Ctx) (env : Env) (es : List Expr) :
    Mono (evalArgs (n + 1) ctx env es) (evalArgs (n + 2) ctx env es) := by
  cases es <;> simp only [evalArgs] <;> mono_tac ih

theorem mono_seq (n : Nat) (ih : MonoAt n) (ctx : Ctx) (env : Env) (items : List Item) :
    Mono (evalSeq (n + 1) ctx env items) (evalSeq (n + 2) ctx env items) := by
  cases items with
  | nil => simp only [evalSeq]; exact Mono.rfl
  | cons it rest =>
    cases it with
    | expr e => cases rest <;> simp only [evalSeq] <;> mono_tac ih
    | bind v x e => simp only [evalSeq]; mono_tac ih
    | funcs fs => simp only [evalSeq]; mono_tac ih

theorem mono_hdl (n : Nat) (ih : MonoAt n) (ctx : Ctx) (env : Env) (cs : List Catch) (ex : Exc) :
    Mono (handle (n + 1) ctx env cs ex) (handle (n + 2) ctx env cs ex) := by
  cases cs <;> simp only [handle] <;> mono_tac ih

theorem mono_guards (n : Nat) (ih : MonoAt n) (ctx : Ctx) (env : Env) (l : Loc) (gs : List Guard) :
    Mono (evalGuards (n + 1) ctx env l gs) (evalGuards (n + 2) ctx env l gs) := by
  cases gs with
  | nil => simp only [evalGuards]; exact Mono.rfl
  | cons g gs => cases g <;> simp only [evalGuards] <;> mono_tac ih

theorem mono_quals (n : Nat) (ih : MonoAt n) (ctx : Ctx) (env : Env) (qs : List Qual) (body : Expr) (ty : Ty) (o : Loc) :
    Mono (evalQuals (n + 1) ctx env qs body ty o) (evalQuals (n + 2) ctx env qs body ty o) := by
  cases qs with
  | nil => simp only [evalQuals]; mono_tac ih
  | cons q qs => cases q <;> simp only [evalQuals] <;> mono_tac ih

theorem monoAt : ∀ n, MonoAt n
  | 0 => mono_zero
  | n + 1 =>
    have ih := monoAt n
    { e := mono_e n ih
      args := mono_args n ih
      seq := mono_seq n ih
      whl := fun ctx env c b => by rw [evalWhile, evalWhile]; mono_tac ih
      doWhl := fun ctx env b c => by rw [evalDoWhile, evalDoWhile]; mono_tac ih
      for_ := fun ctx env c s b => by rw [evalFor, evalFor]; mono_tac ih
      forIn := fun ctx env x lc i b => by rw [evalForIn, evalForIn]; mono_tac ih
      call := fun ctx fid cells as => by rw [callClo, callClo]; mono_tac ih
      hdl := mono_hdl n ih
      guards := mono_guards n ih
      quals := mono_quals n ih
      gen := fun ctx env x lc i qs body ty o => by rw [evalGen, evalGen]; mono_tac ih
      forRng := fun ctx env x ao cur asc lt b => by rw [evalForRng, evalForRng]; mono_tac ih
      genRng := fun ctx env x ao cur asc lt qs body ty o => by rw [evalGenRng, evalGenRng]; mono_tac ih }

/-- more fuel never changes a run that did not run out of fuel -/
theorem mono_le (n m : Nat) (h : n ≤ m) : (∀ ctx fid cells as, Mono (callClo n ctx fid cells as) (callClo m ctx fid cells as)) := by
  induction h with
  | refl => intros; exact Mono.rfl
  | step hle ih =>
    intro ctx fid cells as
    constructor
    intro s hn
    have h1 := (ih ctx fid cells as).h s hn
    have h2 := ((monoAt _).call ctx fid cells as).h s (by rw [h1]; exact hn)
    rw [h2, h1]

end Never.Src
