import NeverModel.Model.Diag
/-!
Helper proofs for `Props/C05.lean` (model: `Model/Diag.lean`).
-/
namespace Never.Diag

/-! ## print_msg -/

theorem inBounds_append (M : Nat) (a b : List Range) : inBounds M (a ++ b) = (inBounds M a && inBounds M b) := by
  simp [inBounds, List.all_append]

theorem inBounds_single (M lo hi : Nat) : inBounds M [⟨lo, hi⟩] = true ↔ hi < M := by
  simp [inBounds]
theorem inBounds_nil (M : Nat) : inBounds M [] = true := rfl

theorem prefix_write_inBounds (M p : Nat) (hM : 0 < M) : inBounds M (snprintfWrites 0 M p) = true := by
  have h : M ≠ 0 := by omega
  rw [snprintfWrites, if_neg h, inBounds_single]
  omega

theorem clamped_inBounds (M p L : Nat) (hM : 0 < M) :
    inBounds M (snprintfWrites (msgLenAfterPrefix M .clamped p) (secondSize M .clamped p) L) = true := by
  unfold snprintfWrites
  split
  · rfl
  · rw [inBounds_single]; simp only [msgLenAfterPrefix, secondSize]; omega

theorem full_inBounds_iff (M p L : Nat) (hM : 0 < M) :
    inBounds M (snprintfWrites (msgLenAfterPrefix M .full p) (secondSize M .full p) L) = true
      ↔ p + min L (M - 1) < M := by
  have h : secondSize M .full p ≠ 0 := by simp only [secondSize]; omega
  rw [snprintfWrites, if_neg h, inBounds_single]
  simp only [msgLenAfterPrefix, secondSize]

theorem secondSize_remaining_le (M p : Nat) (hM : M < 4294967296) (h : p ≤ M) :
    secondSize M .remaining p = M - p := by
  simp only [secondSize]; omega
theorem secondSize_remaining_gt (M p : Nat) (hp : p < 4294967296) (h : M < p) :
    secondSize M .remaining p = M + 4294967296 - p := by
  simp only [secondSize]; omega

theorem remaining_inBounds_iff (M p L : Nat) (hM : 0 < M) (hM2 : M < 4294967296) (hp : p < 4294967296) :
    inBounds M (snprintfWrites (msgLenAfterPrefix M .remaining p) (secondSize M .remaining p) L) = true
      ↔ p ≤ M := by
  by_cases hle : p ≤ M
  · rw [secondSize_remaining_le M p hM2 hle]
    unfold snprintfWrites
    split
    · simp [inBounds_nil, hle]
    · rw [inBounds_single]; simp only [msgLenAfterPrefix]; omega
  · rw [secondSize_remaining_gt M p hp (by omega)]
    unfold snprintfWrites
    split
    · omega
    · rw [inBounds_single]; simp only [msgLenAfterPrefix]; omega

/-! ## message array -/

theorem MsgArr.push_inv (g : Nat) (hg : 0 < g) (a : MsgArr) (h : a.count ≤ a.size) :
    (a.push g).1.count ≤ (a.push g).1.size ∧ (a.push g).2.1 < (a.push g).2.2 := by
  simp only [MsgArr.push]
  split <;> (constructor <;> ((try dsimp only) <;> omega))

theorem MsgArr.pushN_inv (g : Nat) (hg : 0 < g) (k : Nat) (a : MsgArr) (h : a.count ≤ a.size) :
    (MsgArr.pushN g k a).count ≤ (MsgArr.pushN g k a).size := by
  induction k generalizing a with
  | zero => simpa [MsgArr.pushN]
  | succ k ih => simp only [MsgArr.pushN]; exact ih _ (MsgArr.push_inv g hg a h).1

/-! ## use stack -/

def flat : List Descr → List Nat
  | [] => []
  | d :: r => resOf d ++ flat r
def live (s : St) : List Nat := s.yyin.toList ++ [s.cur] ++ flat s.stack
def ind (a h : Nat) : Nat := if a = h then 1 else 0
theorem count_cons' (h a : Nat) (l : List Nat) : List.count h (a :: l) = List.count h l + ind a h := by
  simp [List.count_cons, ind]
theorem ind_eq {a h : Nat} (e : a = h) : ind a h = 1 := by simp [ind, e]
theorem ind_ne {a h : Nat} (e : a ≠ h) : ind a h = 0 := by simp [ind, e]
theorem ind_le (a h : Nat) : ind a h ≤ 1 := by unfold ind; split <;> omega
def accOk (dim : Nat) (acc : List Int) : Prop := ∀ i ∈ acc, 0 ≤ i ∧ i < (dim : Int)

structure Inv (lim dim : Nat) (s : St) : Prop where
  ptr_le : s.ptr ≤ (lim : Int)
  len : 0 ≤ s.ptr → (s.stack.length : Int) = s.ptr
  neg : s.ptr < 0 → s.stack = [] ∧ s.yyin = none
  term : s.terminated = true ↔ s.ptr < 0
  lower : s.calledAfterEof = false → -1 ≤ s.ptr
  acc_ok : s.useAfterEof = false → accOk dim s.acc
  opens_nodup : s.opens.Nodup
  opens_sub : ∀ n ∈ s.opens, n ∈ s.modtab
  bal : s.npush = s.npop + s.stack.length ∧ s.ndestroy = 0
  ledger1 : ∀ h, h < s.fresh → (live s ++ s.released).count h = 1
  ledger0 : ∀ h, s.fresh ≤ h → (live s ++ s.released).count h = 0
  noread : s.calledAfterEof = false → s.nullRead = false

theorem accOk_append {dim : Nat} {a : List Int} {i : Int} (ha : accOk dim a) (hi : 0 ≤ i ∧ i < (dim : Int)) :
    accOk dim (a ++ [i]) := by
  intro j hj
  rcases List.mem_append.1 hj with h | h
  · exact ha j h
  · simp at h; subst h; exact hi

theorem Inv.stepUse (lim dim : Nat) (hld : lim ≤ dim) (s : St) (n : String) (ex : Bool) (hI : Inv lim dim s)
    (hpre : s.useAfterEof = false → s.terminated = false) : Inv lim dim (stepUse lim s n ex) := by
  unfold Never.Diag.stepUse
  split
  · exact { hI with }
  split
  · exact hI
  split
  · exact { hI with }
  split
  · rename_i hneg
    refine { hI with acc_ok := ?_ }
    intro hc
    have := hpre hc
    have h2 := hI.term
    simp [this] at h2
    omega
  · rename_i h1 h2 h3 h4
    have hp0 : 0 ≤ s.ptr := by omega
    have hlen := hI.len hp0
    refine ⟨?_, ?_, ?_, ?_, ?_, ?_, ?_, ?_, ?_, ?_, ?_, hI.noread⟩
    · show s.ptr + 1 ≤ _
      omega
    · intro _; show ((_ :: s.stack).length : Int) = s.ptr + 1
      simp; omega
    · intro h; exfalso; have : s.ptr + 1 < 0 := h; omega
    · show s.terminated = true ↔ s.ptr + 1 < 0
      have := hI.term
      constructor
      · intro h; have := this.1 h; omega
      · intro h; omega
    · intro _; show -1 ≤ s.ptr + 1; omega
    · intro hc; exact accOk_append (hI.acc_ok hc) ⟨hp0, by omega⟩
    · show (s.opens ++ [n]).Nodup
      rw [List.nodup_append]
      refine ⟨hI.opens_nodup, by simp, ?_⟩
      intro a ha b hb
      simp at hb; subst hb
      intro hab; subst hab
      exact h2 (hI.opens_sub _ ha)
    · intro m hm
      show m ∈ s.modtab ++ [n]
      have hm' : m ∈ s.opens ++ [n] := hm
      rcases List.mem_append.1 hm' with h | h
      · exact List.mem_append_left _ (hI.opens_sub _ h)
      · exact List.mem_append_right _ h
    · have := hI.bal
      refine ⟨?_, this.2⟩
      show s.npush + 1 = s.npop + (_ :: s.stack).length
      simp; omega
    · intro h hlt
      have hlt' : h < s.fresh + 2 := hlt
      have e1 := hI.ledger1 h
      have e0 := hI.ledger0 h
      show (live { s with stack := ⟨s.yyin, s.cur⟩ :: s.stack, yyin := some s.fresh, cur := s.fresh + 1 } ++ s.released).count h = 1
      simp only [live, flat, resOf, List.count_append, count_cons', List.count_nil, Option.toList_some, Option.toList_none] at *
      by_cases hh : h < s.fresh
      · have := e1 hh
        have a1 := ind_ne (a := s.fresh) (h := h) (by omega)
        have a2 := ind_ne (a := s.fresh + 1) (h := h) (by omega)
        omega
      · have := e0 (by omega)
        by_cases a1 : s.fresh = h
        · have a2 := ind_ne (a := s.fresh + 1) (h := h) (by omega)
          have a1 := ind_eq a1
          omega
        · have a2 := ind_eq (a := s.fresh + 1) (h := h) (by omega)
          have a1 := ind_ne a1
          omega
    · intro h hge
      have hge' : s.fresh + 2 ≤ h := hge
      have e0 := hI.ledger0 h (by omega)
      show (live { s with stack := ⟨s.yyin, s.cur⟩ :: s.stack, yyin := some s.fresh, cur := s.fresh + 1 } ++ s.released).count h = 0
      simp only [live, flat, resOf, List.count_append, count_cons', List.count_nil, Option.toList_some, Option.toList_none] at *
      have a1 := ind_ne (a := s.fresh) (h := h) (by omega)
      have a2 := ind_ne (a := s.fresh + 1) (h := h) (by omega)
      omega

theorem Inv.init (lim dim : Nat) (m : Option String) : Inv lim dim (St.init m) := by
  refine ⟨by simp [St.init], by simp [St.init], by simp [St.init], by simp [St.init],
    by simp [St.init], by simp [St.init, accOk], by simp [St.init], by simp [St.init], by simp [St.init], ?_, ?_,
    by simp [St.init]⟩
  · intro h hlt
    cases m with
    | none =>
      have hlt' : h < 1 := hlt
      have : h = 0 := by omega
      subst this; decide
    | some f =>
      have hlt' : h < 2 := hlt
      have : h = 0 ∨ h = 1 := by omega
      rcases this with rfl | rfl <;> simp [live, St.init, flat, List.count_cons]
  · intro h hge
    cases m with
    | none =>
      have hge' : 1 ≤ h := hge
      have a0 := ind_ne (a := 0) (h := h) (by omega)
      simp only [live, St.init, Option.map, flat, List.count_append, count_cons', List.count_nil,
        Option.toList_none]
      omega
    | some f =>
      have hge' : 2 ≤ h := hge
      have a0 := ind_ne (a := 0) (h := h) (by omega)
      have a1 := ind_ne (a := 1) (h := h) (by omega)
      simp only [live, St.init, Option.map, flat, List.count_append, count_cons', List.count_nil,
        Option.toList_some]
      omega

theorem closeYyin_fields (s : St) :
    (closeYyin s).yyin = none ∧ (closeYyin s).ptr = s.ptr ∧ (closeYyin s).stack = s.stack ∧
    (closeYyin s).cur = s.cur ∧ (closeYyin s).fresh = s.fresh ∧ (closeYyin s).acc = s.acc ∧
    (closeYyin s).terminated = s.terminated ∧ (closeYyin s).calledAfterEof = s.calledAfterEof ∧
    (closeYyin s).npush = s.npush ∧ (closeYyin s).npop = s.npop ∧ (closeYyin s).ndestroy = s.ndestroy ∧
    (closeYyin s).opens = s.opens ∧ (closeYyin s).modtab = s.modtab ∧
    (∀ h, (live (closeYyin s) ++ (closeYyin s).released).count h = (live s ++ s.released).count h) := by
  unfold closeYyin
  cases hy : s.yyin with
  | none => simp [hy]
  | some f =>
    simp only [true_and]
    intro h
    simp only [live, hy, List.count_append, count_cons', List.count_nil,
      Option.toList_some, Option.toList_none]
    omega

theorem closeYyin_useAfterEof (s : St) : (closeYyin s).useAfterEof = s.useAfterEof := by
  unfold closeYyin; cases s.yyin <;> rfl

theorem closeYyin_nullRead (s : St) : (closeYyin s).nullRead = s.nullRead := by
  unfold closeYyin; cases s.yyin <;> rfl

theorem Inv.closeYyin (lim dim : Nat) (s : St) (hI : Inv lim dim s) : Inv lim dim (closeYyin s) := by
  obtain ⟨h1, h2, h3, h4, h5, h6, h7, h8, h9, h10, h11, h12, h13, h14⟩ := closeYyin_fields s
  refine ⟨?_, ?_, ?_, ?_, ?_, ?_, ?_, ?_, ?_, ?_, ?_, ?_⟩
  rotate_right
  · rw [h8, closeYyin_nullRead]; exact hI.noread
  · rw [h2]; exact hI.ptr_le
  · rw [h2, h3]; exact hI.len
  · rw [h2, h3]; intro h; exact ⟨(hI.neg h).1, h1⟩
  · rw [h2, h7]; exact hI.term
  · rw [h2, h8]; exact hI.lower
  · rw [h6, closeYyin_useAfterEof]; exact hI.acc_ok
  · rw [h12]; exact hI.opens_nodup
  · rw [h12, h13]; exact hI.opens_sub
  · rw [h9, h10, h11, h3]; exact hI.bal
  · intro h hlt; rw [h14]; rw [h5] at hlt; exact hI.ledger1 h hlt
  · intro h hge; rw [h14]; rw [h5] at hge; exact hI.ledger0 h hge

theorem Inv.stepEof (lim dim : Nat) (hld : lim ≤ dim) (s : St) (hI : Inv lim dim s)
    (hpre : s.calledAfterEof = false → s.terminated = false) : Inv lim dim (stepEof s) := by
  have hC := Inv.closeYyin lim dim s hI
  obtain ⟨h1, h2, h3, h4, h5, h6, h7, h8, h9, h10, h11, h12, h13, h14⟩ := closeYyin_fields s
  unfold Never.Diag.stepEof
  generalize Never.Diag.closeYyin s = s1 at *
  simp only []
  split
  · rename_i hp
    refine { hC with ptr_le := ?_, len := ?_, neg := ?_, term := ?_, lower := ?_ }
    · have := hC.ptr_le; show s1.ptr - 1 ≤ _; omega
    · intro h; exfalso; have : 0 ≤ s1.ptr - 1 := h; omega
    · intro _
      refine ⟨?_, h1⟩
      show s1.stack = []
      by_cases hn : s1.ptr < 0
      · exact (hC.neg hn).1
      · have := hC.len (by omega)
        have : s1.stack.length = 0 := by omega
        exact List.eq_nil_of_length_eq_zero this
    · show true = true ↔ s1.ptr - 1 < 0
      simp; omega
    · intro hc
      show -1 ≤ s1.ptr - 1
      have hc' : s1.calledAfterEof = false := hc
      rw [h8] at hc'
      have ht := hpre hc'
      have := hI.term
      rw [ht] at this
      simp at this
      omega
  · rename_i hp
    have hp1 : 1 ≤ s1.ptr := by omega
    have hlen := hC.len (by omega)
    split
    · rename_i d rest hst
      rw [hst] at hlen
      simp at hlen
      refine ⟨?_, ?_, ?_, ?_, ?_, ?_, ?_, ?_, ?_, ?_, ?_, hC.noread⟩
      · have := hC.ptr_le; show s1.ptr - 1 ≤ _; omega
      · intro _; show (rest.length : Int) = s1.ptr - 1; omega
      · intro h; exfalso; have : s1.ptr - 1 < 0 := h; omega
      · show s1.terminated = true ↔ s1.ptr - 1 < 0
        have := hC.term
        constructor
        · intro h; have := this.1 h; omega
        · intro h; omega
      · intro _; show -1 ≤ s1.ptr - 1; omega
      · intro hc
        refine accOk_append (hC.acc_ok hc) ⟨by omega, ?_⟩
        have := hC.ptr_le; omega
      · exact hC.opens_nodup
      · exact hC.opens_sub
      · have := hC.bal
        rw [hst] at this
        refine ⟨?_, this.2⟩
        show s1.npush = s1.npop + 1 + rest.length
        simp at this; omega
      · intro h hlt
        have e1 := hC.ledger1 h hlt
        show (live { s1 with cur := d.buf, yyin := d.yyin, stack := rest } ++ (s1.released ++ [s1.cur])).count h = 1
        simp only [live, hst, h1, flat, resOf, List.count_append, count_cons', List.count_nil,
          Option.toList_none] at *
        omega
      · intro h hge
        have e0 := hC.ledger0 h hge
        show (live { s1 with cur := d.buf, yyin := d.yyin, stack := rest } ++ (s1.released ++ [s1.cur])).count h = 0
        simp only [live, hst, h1, flat, resOf, List.count_append, count_cons', List.count_nil,
          Option.toList_none] at *
        omega
    · rename_i hst
      rw [hst] at hlen
      simp at hlen
      omega

theorem Inv.markCalled (lim dim : Nat) (u : Bool) (s : St) (hI : Inv lim dim s) :
    Inv lim dim (markCalled u s) ∧
    ((markCalled u s).calledAfterEof = false → (markCalled u s).terminated = false) ∧
    (u = true → (markCalled u s).useAfterEof = false → (markCalled u s).terminated = false) := by
  unfold Never.Diag.markCalled
  by_cases ht : s.terminated = true
  · rw [if_pos ht]
    refine ⟨?_, ?_, ?_⟩
    rotate_left
    · intro h; cases h
    · intro hu h
      have h' : (s.useAfterEof || u) = false := h
      subst hu
      simp at h'
    · refine { hI with lower := (by intro h; cases h), acc_ok := ?_, noread := (by intro h; cases h) }
      intro h
      have h' : (s.useAfterEof || u) = false := h
      exact hI.acc_ok (by cases hu : s.useAfterEof <;> simp_all)
  · rw [if_neg ht]
    have : s.terminated = false := by
      cases h : s.terminated
      · rfl
      · exact absurd h ht
    exact ⟨hI, fun _ => this, fun _ _ => this⟩

theorem Inv.step (lim dim : Nat) (hld : lim ≤ dim) (s : St) (e : Ev) (hI : Inv lim dim s) :
    Inv lim dim (step lim s e) := by
  cases e with
  | use n ex =>
    have hm := Inv.markCalled lim dim true s hI
    exact Inv.stepUse lim dim hld _ n ex hm.1 (hm.2.2 rfl)
  | eof =>
    have hm := Inv.markCalled lim dim false s hI
    exact Inv.stepEof lim dim hld _ hm.1 hm.2.1

theorem Inv.run (lim dim : Nat) (hld : lim ≤ dim) (s : St) (evs : List Ev) (hI : Inv lim dim s) :
    Inv lim dim (run lim s evs) := by
  induction evs generalizing s with
  | nil => exact hI
  | cons e r ih => exact ih _ (Inv.step lim dim hld s e hI)

/-- `scanner_destroy`'s loop releases exactly the entries below `ptr`, touching only valid slots -/
theorem destroyLoop_spec (dim : Nat) (l : List Descr) (s : St)
    (hlen : 0 ≤ s.ptr → (l.length : Int) = s.ptr) (hneg : s.ptr < 0 → l = [])
    (hle : s.ptr ≤ (dim : Int)) :
    (destroyLoop l s).ptr = (if s.ptr < 0 then s.ptr - 1 else -1) ∧
    (accOk dim s.acc → accOk dim (destroyLoop l s).acc) ∧
    (destroyLoop l s).ndestroy = s.ndestroy + l.length ∧ (destroyLoop l s).cur = s.cur ∧
    (destroyLoop l s).fresh = s.fresh ∧ (destroyLoop l s).npush = s.npush ∧
    (destroyLoop l s).npop = s.npop ∧ (destroyLoop l s).opens = s.opens ∧
    (∀ h, (destroyLoop l s).released.count h = s.released.count h + (flat l).count h) := by
  induction l generalizing s with
  | nil =>
    simp only [destroyLoop, flat, List.count_nil, List.length_nil]
    refine ⟨?_, fun h => h, by simp, by simp, by simp, by simp, by simp, by simp, by intro h; simp⟩
    show s.ptr - 1 = _
    split
    · rfl
    · have := hlen (by omega); simp at this; omega
  | cons d rest ih =>
    have hp : 0 ≤ s.ptr := by
      by_cases h : s.ptr < 0
      · have := hneg h; cases this
      · omega
    have hl := hlen hp
    simp at hl
    simp only [destroyLoop]
    have hnot : ¬ (s.ptr - 1 < 0) := by omega
    rw [if_neg hnot]
    obtain ⟨r1, r2, r3, r4, r5, r6, r7, r8, r9⟩ := ih (destroyEntry d rest s)
      (by intro _; show (rest.length : Int) = s.ptr - 1; omega)
      (by intro h; exfalso; have : s.ptr - 1 < 0 := h; omega)
      (by show s.ptr - 1 ≤ _; omega)
    refine ⟨?_, ?_, ?_, r4, r5, r6, r7, r8, ?_⟩
    · rw [r1]
      have : (destroyEntry d rest s).ptr = s.ptr - 1 := rfl
      rw [this]
      split <;> split <;> omega
    · intro ha; apply r2
      show accOk dim (s.acc ++ [s.ptr - 1])
      exact accOk_append ha ⟨by omega, by omega⟩
    · rw [r3]
      show s.ndestroy + 1 + rest.length = s.ndestroy + (d :: rest).length
      simp only [List.length_cons]; omega
    · intro h
      rw [r9]
      show (s.released ++ resOf d).count h + _ = _
      simp only [flat, List.count_append]
      omega

/-! ## session -/

theorem session_spec (lim dim : Nat) (hld : lim ≤ dim) (m : Option String) (evs : List Ev) :
    let s0 := run lim (St.init m) evs
    let s := session lim m evs
    s.npush = s.npop + s.ndestroy ∧
    s.fresh = s0.fresh ∧
    (∀ h, s.released.count h = if h < s.fresh then 1 else 0) ∧
    (s0.useAfterEof = false → accOk dim s.acc) ∧ s.ptr ≤ -1 ∧
    (s0.calledAfterEof = false → -2 ≤ s.ptr) := by
  intro s0 s
  have hI : Inv lim dim s0 := Inv.run lim dim hld _ evs (Inv.init lim dim m)
  have hC := Inv.closeYyin lim dim s0 hI
  obtain ⟨h1, h2, h3, h4, h5, h6, h7, h8, h9, h10, h11, h12, h13, h14⟩ := closeYyin_fields s0
  obtain ⟨r1, r2, r3, r4, r5, r6, r7, r8, r9⟩ :=
    destroyLoop_spec dim (closeYyin s0).stack (closeYyin s0) hC.len (fun h => (hC.neg h).1) (by have := hC.ptr_le; omega)
  have hs : s = { destroyLoop (closeYyin s0).stack (closeYyin s0) with
                  modtab := [],
                  released := (destroyLoop (closeYyin s0).stack (closeYyin s0)).released ++
                    [(destroyLoop (closeYyin s0).stack (closeYyin s0)).cur] } := rfl
  refine ⟨?_, ?_, ?_, ?_, ?_, ?_⟩
  · rw [hs]
    show (destroyLoop _ _).npush = (destroyLoop _ _).npop + (destroyLoop _ _).ndestroy
    rw [r6, r7, r3]
    have := hC.bal
    omega
  · rw [hs]; show (destroyLoop _ _).fresh = _; rw [r5, h5]
  · intro h
    rw [hs]
    show ((destroyLoop _ _).released ++ [(destroyLoop _ _).cur]).count h = if h < (destroyLoop _ _).fresh then 1 else 0
    rw [r5, r4]
    simp only [List.count_append, count_cons', List.count_nil, r9]
    have e1 := hC.ledger1 h
    have e0 := hC.ledger0 h
    simp only [live, h1, List.count_append, count_cons', List.count_nil, Option.toList_none] at e1 e0
    split
    · rename_i hlt; have := e1 hlt; omega
    · rename_i hge; have := e0 (by omega); omega
  · intro hc
    have hu := closeYyin_useAfterEof s0
    rw [hs]
    exact r2 (hC.acc_ok (by rw [hu]; exact hc))
  · rw [hs]
    show (destroyLoop _ _).ptr ≤ -1
    rw [r1]; split <;> omega
  · intro hc
    have hc' : (closeYyin s0).calledAfterEof = false := by rw [h8]; exact hc
    rw [hs]
    show -2 ≤ (destroyLoop _ _).ptr
    rw [r1]; have := hC.lower hc'; split <;> omega

/-! ## pipeline -/

theorem pipeline_sound (l : List StageOut) (h : ∀ s ∈ ran l, s.sound) :
    (pipeline l).2 = 0 → (pipeline l).1 = 0 := by
  induction l with
  | nil => intro _; rfl
  | cons s rest ih =>
    simp only [pipeline, ran] at *
    by_cases hr : s.rc ≠ 0
    · rw [if_pos hr]; intro h0; exact absurd h0 hr
    · rw [if_neg hr] at h ⊢
      intro h0
      have hs : s.sound := h s (by simp)
      have hrest := ih (fun x hx => h x (by simp [hx])) h0
      have : s.errs = 0 := by
        by_cases he : s.errs > 0
        · exact absurd (hs he) hr
        · omega
      show s.errs + (pipeline rest).1 = 0
      omega

theorem pipeline_complete (l : List StageOut) (h : ∀ s ∈ ran l, s.complete) :
    (pipeline l).2 ≠ 0 → (pipeline l).1 > 0 := by
  induction l with
  | nil => intro h0; exact absurd rfl h0
  | cons s rest ih =>
    simp only [pipeline, ran] at *
    by_cases hr : s.rc ≠ 0
    · rw [if_pos hr] at h ⊢; intro _; exact h s (by simp) hr
    · rw [if_neg hr] at h ⊢
      intro h0
      have hrest := ih (fun x hx => h x (by simp [hx])) h0
      show s.errs + (pipeline rest).1 > 0
      omega

end Never.Diag
