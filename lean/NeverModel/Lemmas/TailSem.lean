/-
The reference evaluator along tail children: once control has reached a tail child, the value of the construct IS
the value of the child (same result cell, same state, same exception, same stop).
-/
import NeverModel.Lemmas.TailRec
namespace Never.Src.Tail
open Never.Src

theorem load_ok {s : St} {l : Loc} {v : Val} (h : s.mem[l]? = some v) : load l s = .ok v s := by
  simp [load, h]

/-- a block whose items before the last complete normally evaluates to its last expression -/
theorem seqReach_eval {ctx : Ctx} {f : Nat} {env : Env} {s : St} {items : List Item} {i f' : Nat} {env' : Env} {s' : St} {e : Expr}
    (h : SeqReach ctx f env s items i f' env' s' e) :
    evalSeq f ctx env items s = evalE f' ctx env' e s' ∧ i + 1 = items.length ∧ items[i]? = some (.expr e) := by
  induction h with
  | last => simp [evalSeq]
  | @expr f env s a rest l s1 i f' env' s' e ha hne _ ih =>
    obtain ⟨ih1, ih2, ih3⟩ := ih
    refine ⟨?_, by simp [ih2], by simpa using ih3⟩
    cases rest with
    | nil => exact absurd rfl hne
    | cons r rs => simp only [evalSeq, bind_eq, M.bind, ha]; exact ih1
  | @bind f env s v n a rest l s1 i f' env' s' e ha _ ih =>
    obtain ⟨ih1, ih2, ih3⟩ := ih
    refine ⟨?_, by simp [ih2], by simpa using ih3⟩
    simp only [evalSeq, bind_eq, M.bind, ha]; exact ih1
  | @funcs f env s fs rest env1 s1 i f' env' s' e ha _ ih =>
    obtain ⟨ih1, ih2, ih3⟩ := ih
    refine ⟨?_, by simp [ih2], by simpa using ih3⟩
    simp only [evalSeq, bind_eq, M.bind, ha]; exact ih1

/-- matching selects the first guard that applies; the result is the value of its body -/
theorem guardReach_eval {ctx : Ctx} {f : Nat} {env : Env} {s : St} {l : Loc} {gs : List Guard} {sl : Slot} {i f' : Nat} {env' : Env} {b : Expr}
    (h : GuardReach ctx f env s l gs sl i f' env' b) :
    evalGuards f ctx env l gs s = evalE f' ctx env' b s ∧ kid (.matchE (.lit .nil) gs) sl i = some b ∧ specTail sl = true := by
  induction h with
  | els => simp [evalGuards, kid, specTail]
  | itemInt hf hl hv =>
    refine ⟨?_, by simp [kid], rfl⟩
    simp only [evalGuards, bind_eq, M.bind, hf, load, hl, hv, if_true]
  | itemRec hf hl ho ht =>
    refine ⟨?_, by simp [kid], rfl⟩
    simp only [evalGuards, bind_eq, M.bind, hf, load, hl, ho, ht, if_true]
  | recd hl ho ht =>
    refine ⟨?_, by simp [kid], rfl⟩
    simp only [evalGuards, bind_eq, M.bind, load, hl, ho, ht, if_true]
  | skipItemInt hf hl hv _ ih =>
    obtain ⟨ih1, ih2, ih3⟩ := ih
    refine ⟨?_, ?_, ih3⟩
    · simp only [evalGuards, bind_eq, M.bind, hf, load, hl, hv, if_false]; exact ih1
    · cases ih3' : ‹Slot› <;> simp_all [kid, specTail]
  | skipItemRec hf hl ho ht _ ih =>
    obtain ⟨ih1, ih2, ih3⟩ := ih
    refine ⟨?_, ?_, ih3⟩
    · simp only [evalGuards, bind_eq, M.bind, hf, load, hl, ho, ht, if_false]; exact ih1
    · cases ih3' : ‹Slot› <;> simp_all [kid, specTail]
  | skipRecd hl ho ht _ ih =>
    obtain ⟨ih1, ih2, ih3⟩ := ih
    refine ⟨?_, ?_, ih3⟩
    · simp only [evalGuards, bind_eq, M.bind, load, hl, ho, ht, if_false]; exact ih1
    · cases ih3' : ‹Slot› <;> simp_all [kid, specTail]
  | skipRecdInt hl _ ih =>
    obtain ⟨ih1, ih2, ih3⟩ := ih
    refine ⟨?_, ?_, ih3⟩
    · simp only [evalGuards, bind_eq, M.bind, load, hl]; exact ih1
    · cases ih3' : ‹Slot› <;> simp_all [kid, specTail]

theorem kid_matchE_arm (sc sc' : Expr) (gs : List Guard) (sl : Slot) (i : Nat) (b : Expr) (hsl : specTail sl = true)
    (h : kid (.matchE sc gs) sl i = some b) : kid (.matchE sc' gs) sl i = some b := by
  cases sl <;> simp_all [kid, specTail]

/-- **reaching a node along tail children: the construct's result is the node's result** -/
theorem reach_eval {ctx : Ctx} {f : Nat} {env : Env} {s : St} {e : Expr} {p : Path} {f' : Nat} {env' : Env} {s' : St} {x : Expr}
    (h : Reach ctx f env s e p f' env' s' x) :
    evalE f ctx env e s = evalE f' ctx env' x s' ∧ sub e p = some x ∧ ∀ st ∈ p, specTail st.1 = true := by
  induction h with
  | here => exact ⟨rfl, rfl, by simp⟩
  | condT hc hl hv _ ih =>
    obtain ⟨ih1, ih2, ih3⟩ := ih
    refine ⟨?_, by simpa [sub, kid] using ih2, ?_⟩
    · simp only [evalE, bind_eq, M.bind, hc, load, hl, truthy, pure, M.pure, hv, if_true]; exact ih1
    · intro st hst
      rcases List.mem_cons.mp hst with rfl | hst
      · rfl
      · exact ih3 st hst
  | condE hc hl hv _ ih =>
    obtain ⟨ih1, ih2, ih3⟩ := ih
    refine ⟨?_, by simpa [sub, kid] using ih2, ?_⟩
    · simp only [evalE, bind_eq, M.bind, hc, load, hl, truthy, pure, M.pure, hv]; exact ih1
    · intro st hst
      rcases List.mem_cons.mp hst with rfl | hst
      · rfl
      · exact ih3 st hst
  | seqLast hs _ ih =>
    obtain ⟨ih1, ih2, ih3⟩ := ih
    obtain ⟨h1, h2, h3⟩ := seqReach_eval hs
    refine ⟨?_, ?_, ?_⟩
    · simp only [evalE]; rw [h1]; exact ih1
    · simp only [sub, kid, h3, h2, if_true]; exact ih2
    · intro st hst
      rcases List.mem_cons.mp hst with rfl | hst
      · rfl
      · exact ih3 st hst
  | arm hsc hg _ ih =>
    obtain ⟨ih1, ih2, ih3⟩ := ih
    obtain ⟨h1, h2, h3⟩ := guardReach_eval hg
    refine ⟨?_, ?_, ?_⟩
    · simp only [evalE, bind_eq, M.bind, hsc]; rw [h1]; exact ih1
    · simp only [sub, kid_matchE_arm _ _ _ _ _ _ h3 h2]; exact ih2
    · intro st hst
      rcases List.mem_cons.mp hst with rfl | hst
      · exact h3
      · exact ih3 st hst
  | @ifLetThen f env s g sc els l s1 sl f1 env1 b p f' env' s' x hsc hg _ ih =>
    obtain ⟨ih1, ih2, ih3⟩ := ih
    obtain ⟨h1, h2, h3⟩ := guardReach_eval hg
    have hb : kid (.ifLet g sc els) .ifLetThen 0 = some b := by
      cases sl <;> cases g <;> simp_all [kid, specTail, Guard.body]
    refine ⟨?_, ?_, ?_⟩
    · simp only [evalE, bind_eq, M.bind, hsc]; rw [h1]; exact ih1
    · simp only [sub, hb]; exact ih2
    · intro st hst
      rcases List.mem_cons.mp hst with rfl | hst
      · rfl
      · exact ih3 st hst
  | @ifLetElse f env s g sc els l s1 sl f1 env1 b p f' env' s' x hsc hg _ ih =>
    obtain ⟨ih1, ih2, ih3⟩ := ih
    obtain ⟨h1, h2, h3⟩ := guardReach_eval hg
    have hb : kid (.ifLet g sc els) .ifLetElse 0 = some b := by
      cases sl <;> simp_all [kid, specTail]
    refine ⟨?_, ?_, ?_⟩
    · simp only [evalE, bind_eq, M.bind, hsc]; rw [h1]; exact ih1
    · simp only [sub, hb]; exact ih2
    · intro st hst
      rcases List.mem_cons.mp hst with rfl | hst
      · rfl
      · exact ih3 st hst

/-! ### the function around the body: conversion of the result, catch clauses -/

theorem convTo_idem {t : Ty} {v v' : Val} (h : convTo t v = some v') : convTo t v' = none := by
  cases t <;> cases v <;> simp_all [convTo] <;> subst h <;> rfl

/-- the result cell of a call already holds a value of the declared result type: converting it again changes nothing -/
theorem convCell_idem {t : Ty} {r l : Loc} {s s1 : St} (h : convCell t r s = .ok l s1) : convCell t l s1 = .ok l s1 := by
  simp only [convCell, bind_eq, M.bind, load] at h ⊢
  cases hv : s.mem[r]? with
  | none => rw [hv] at h; cases h
  | some v =>
    rw [hv] at h
    simp only [] at h
    cases hc : convTo t v with
    | none =>
      rw [hc] at h
      simp only [pure, M.pure] at h
      injection h with h1 h2
      subst h1; subst h2
      simp [hv, hc, pure, M.pure]
    | some v' =>
      rw [hc] at h
      simp only [alloc] at h
      injection h with h1 h2
      subst h1; subst h2
      simp [convTo_idem hc, pure, M.pure]

theorem callClo_result_converted {n : Nat} {ctx : Ctx} {fid : Nat} {cells args : List Loc} {s s1 : St} {l : Loc} {fn : FunEntry}
    (hfn : ctx.findFun fid = some fn) (h : callClo n ctx fid cells args s = .ok l s1) : convCell fn.ret l s1 = .ok l s1 := by
  cases n with
  | zero => simp [callClo, oof, stopM] at h
  | succ n =>
    simp only [callClo, hfn] at h
    split at h
    · simp [stuck, stopM] at h
    · simp only [bind_eq, M.bind] at h
      split at h
      · rename_i env s0 _
        split at h
        · exact convCell_idem h
        · cases h
        · cases h
      · cases h
      · cases h

/-- with no fuel nothing but the node itself is reached, and it does not evaluate -/
theorem reach_zero {ctx : Ctx} {env : Env} {s : St} {e : Expr} {p : Path} {f' : Nat} {env' : Env} {s' : St} {x : Expr}
    (h : Reach ctx 0 env s e p f' env' s' x) : f' = 0 := by
  cases h; rfl

/-! ### a concrete enum context for the counterexamples of Props/C13 -/

def exCtx : Ctx :=
  { enums := [{ name := "E", items := [{ name := "one", value := 0, fields := none }, { name := "two", value := 1, fields := none }] }] }
/-- `match E::one { E::one -> E::two; E::two -> E::one; }` -/
def exFlip : Expr := .matchE (.enumVal "E" "one") [.item "E" "one" (.enumVal "E" "two"), .item "E" "two" (.enumVal "E" "one")]

theorem exCtx_one : exCtx.findItem "E" "one" = some (0, { name := "one", value := 0, fields := none }) := by rfl
theorem exCtx_two : exCtx.findItem "E" "two" = some (1, { name := "two", value := 1, fields := none }) := by rfl
theorem exCtx_rec : exCtx.enumIsRec "E" = false := by rfl

end Never.Src.Tail
