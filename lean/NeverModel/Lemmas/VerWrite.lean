import NeverModel.Lemmas.VerLocal
import NeverModel.Lemmas.VmFootSound
import NeverModel.Lemmas.VmStkSound
set_option linter.unusedSimpArgs false
set_option linter.unusedVariables false
/-! which stack slots a step of a verified module can write: never at or below `pp`, never into the frame record of a call in
preparation (pending), for every opcode but RET / RETHROW (which write exactly the lowest word of the record they pop) -/
namespace Never.Ver
open Never Never.Vm

theorem wrP_slot_ne {vm vm' : Vm} {i : Int} {s : Slot} (h : wrP vm i s = .ok vm') (j : Int) (hne : j ≠ i) : slot vm' j = slot vm j := by
  unfold wrP at h
  split at h
  · cases h
  · rename_i hb
    cases h
    exact slot_setIfInBounds_ne vm i.toNat s j (by omega)

/-- MARK writes only above the top of stack -/
theorem markP_below {vm vm' : Vm} {ra : Nat} (h : markP vm ra = .ok vm') (j : Int) (hj : j ≤ vm.sp) : slot vm' j = slot vm j := by
  unfold markP at h
  simp only [bind, Except.bind] at h
  split at h
  · cases h
  · rename_i v0 h0
    obtain ⟨e0, _⟩ := checkP_regs h0
    subst e0
    split at h
    · cases h
    · rename_i v1 h1
      split at h
      · cases h
      · rename_i v2 h2
        split at h
        · cases h
        · rename_i v3 h3
          split at h
          · cases h
          · rename_i v4 h4
            split at h
            · cases h
            · rename_i v5 h5
              cases h
              show slot v5 j = slot vm j
              rw [wrP_slot_ne h5 j (by omega), wrP_slot_ne h4 j (by omega), wrP_slot_ne h3 j (by omega), wrP_slot_ne h2 j (by omega),
                wrP_slot_ne h1 j (by omega)]
              rfl

theorem slideLoopP_below (q : Nat) : ∀ (n : Nat) (vm vm' : Vm), slideLoopP q n vm = .ok vm' → ∀ j, j ≤ vm.sp → slot vm' j = slot vm j := by
  intro n
  induction n with
  | zero => intro vm vm' h j _; unfold slideLoopP at h; cases h; rfl
  | succ n ih =>
    intro vm vm' h j hj
    unfold slideLoopP at h
    simp only [bind, Except.bind] at h
    split at h
    · cases h
    · split at h
      · cases h
      · rename_i v1 h1
        have r1 := wrP_regs h1
        simp only at r1
        rw [ih _ _ h j (by omega), wrP_slot_ne h1 j (by omega)]
        rfl

/-- SLIDE q m writes only the `m` slots it moves down: everything at or below `sp − q − m` is left alone -/
theorem slideP_below {vm vm' : Vm} {q m : Nat} (h : slideP vm q m = .ok vm') (j : Int) (hj : j ≤ vm.sp - q - m) : slot vm' j = slot vm j := by
  unfold slideP at h
  split at h
  · cases h; rfl
  · split at h
    · cases h; rfl
    · exact slideLoopP_below q m { vm with sp := vm.sp - q - m } _ h j hj

/-- the stack slots after a step, from the slots after the handler (the exception dispatch writes no slot) -/
theorem step_slots_of_exec {md : Module} (orc : Oracle) (vm vm' : Vm) (i : Instr) (hi : md.code[vm.ip]? = some i)
    (hstep : (step md orc).run vm = .ok ((), vm')) (b : Int)
    (hx : ∀ s2, (exec md i orc).run { vm with ip := vm.ip + 1 } = .ok ((), s2) → ∀ j, j ≤ b → slot s2 j = slot vm j) :
    ∀ j, j ≤ b → slot vm' j = slot vm j := by
  obtain ⟨s2, he, hcase⟩ := step_exec md orc vm vm' i hi hstep
  intro j hj
  rcases hcase with ⟨_, e⟩ | ⟨_, hd, _, e⟩
  · rw [e]; exact hx s2 he j hj
  · rw [e]; exact hx s2 he j hj

section
variable {md : Module} {hm : HMap}

/-- **A verified function never writes at or below its frame base.**  From a machine at its recorded height, a step on any
instruction of the effect table (it writes no slot under its lowest operand, and its operands lie above the parameters), on MARK
(writes above the top), SLIDE (the slots it moves stay above `pp`, also in the last-call case: the parameter block `pp+1 …`), CALL,
CLEAR_STACK, JUMP (no stack write) leaves every stack slot `j ≤ pp` — the frame record the function was entered through and
everything of its callers below it — exactly as it was. -/
theorem step_keeps_below_pp (hf : flowOk md hm = true) (orc : Oracle) (vm vm' : Vm) (i : Instr) (hi : md.code[vm.ip]? = some i)
    (hh : AtHeight md hm vm)
    (hop : (simpleEffect i).isSome = true ∨ i.op = .MARK ∨ i.op = .SLIDE ∨ i.op = .CALL ∨ i.op = .CLEAR_STACK ∨ i.op = .JUMP)
    (hstep : (step md orc).run vm = .ok ((), vm')) : ∀ j, j ≤ vm.pp → slot vm' j = slot vm j := by
  obtain ⟨hrun, st, hs, hinv⟩ := hh
  refine step_slots_of_exec orc vm vm' i hi hstep vm.pp (fun s2 h2 j hj => ?_)
  have sl : ∀ k, slot ({ vm with ip := vm.ip + 1 } : Vm) k = slot vm k := fun _ => rfl
  rcases hop with hop | hop | hop | hop | hop | hop
  · cases he : simpleEffect i with
    | none => rw [he] at hop; cases hop
    | some pq =>
      obtain ⟨p, q⟩ := pq
      have hp : p ≤ st.h := by
        by_cases hj' : i.op = .JUMPZ
        · have e1 : simpleEffect i = some (1, 0) := by simp [simpleEffect, hj', binOpOf, unOpOf, convOf, nilCmpOf, strAddOf, arrOpOf, mkArrayElem]
          rw [e1] at he; cases he
          exact ((flow_branch hf hi hs).1 hj').1
        · obtain ⟨_, _, hp, _⟩ := flow_table hf hi hs he hj'
          exact hp
      have := exec_foot_table md i orc p q he vm.sp { vm with ip := vm.ip + 1 } () s2 rfl h2 j (by omega)
      rw [this, sl]
  · rw [markP_below (exec_MARK md i orc hop _ _ h2) j (by show j ≤ vm.sp; omega), sl]
  · rcases exec_SLIDE md i orc hop _ _ h2 with ⟨_, hg0⟩ | ⟨hq, v1, hsl, hgc⟩
    · have hst : s2.stack = _ := (gcRunPure_regs hg0).2.2.2.2.2.2.2
      have e2 : slot s2 j = slot { vm with ip := vm.ip + 1 } j := by unfold slot; rw [hst]
      rw [e2]; rfl
    · have hst : s2.stack = v1.stack := (gcRunPure_regs hgc).2.2.2.2.2.2.2
      have e2 : slot s2 j = slot v1 j := by unfold slot; rw [hst]
      rw [e2]
      have hc := frameOkAt_SLIDE hi hs hop (frame_at hf hi)
      have hb : j ≤ vm.sp - (i.w0 : Int) - (i.w1 : Int) := by
        rcases hc with ⟨hq', _⟩ | ⟨_, hle, _⟩ | ⟨_, _, hh', hm1, _, _⟩
        · exact absurd hq' hq
        · omega
        · unfold fnParamsAt at hinv; omega
      rw [slideP_below hsl j (by show j ≤ vm.sp - _ - _; exact hb), sl]
  · obtain ⟨a, env, fip, _, _, e⟩ := exec_CALL md i orc hop _ _ h2
    rw [e]; unfold callP; split <;> rfl
  · rw [exec_CLEAR_STACK md i orc hop _ _ h2]; rfl
  · exec_unfold hop at h2
    obtain ⟨sp, s0, h0, hA⟩ := (run_bind_ok _ _ _ _ _).mp h2
    obtain ⟨_, e0'⟩ := getSp_run _ _ _ h0
    rw [e0'] at hA
    rw [modify_run _ _ _ _ hA]; rfl

/-- … hence every live frame record at or below `pp` keeps its words -/
theorem framesKept_below_pp (hf : flowOk md hm = true) (orc : Oracle) (vm vm' : Vm) (i : Instr) (hi : md.code[vm.ip]? = some i)
    (hh : AtHeight md hm vm)
    (hop : (simpleEffect i).isSome = true ∨ i.op = .MARK ∨ i.op = .SLIDE ∨ i.op = .CALL ∨ i.op = .CLEAR_STACK ∨ i.op = .JUMP)
    (hstep : (step md orc).run vm = .ok ((), vm')) (r : Rec) (hr : r.F ≤ vm.pp) :
    slot vm' (r.F - 4) = slot vm (r.F - 4) ∧ slot vm' (r.F - 1) = slot vm (r.F - 1) ∧ slot vm' r.F = slot vm r.F := by
  have k := step_keeps_below_pp hf orc vm vm' i hi hh hop hstep
  exact ⟨k _ (by omega), k _ (by omega), k _ hr⟩

end

/-- handlers that write no stack slot at all: HALT, UNHANDLED_EXCEPTION, LABEL -/
theorem exec_stack_same (md : Module) (i : Instr) (orc : Oracle) (hop : i.op = .HALT ∨ i.op = .UNHANDLED_EXCEPTION ∨ i.op = .LABEL)
    (vm s2 : Vm) (h2 : (exec md i orc).run vm = .ok ((), s2)) : s2.stack = vm.stack := by
  rcases hop with hop | hop | hop
  · rw [exec_HALT md i orc hop _ _ h2]
  · exec_unfold hop at h2
    obtain ⟨sp, s0, h0, hA⟩ := (run_bind_ok _ _ _ _ _).mp h2
    obtain ⟨_, e0'⟩ := getSp_run _ _ _ h0
    rw [e0'] at hA
    obtain ⟨v1, s1, h1, hB⟩ := (run_bind_ok _ _ _ _ _).mp hA
    obtain ⟨_, e1'⟩ := get_run _ _ _ h1
    rw [e1'] at hB
    obtain ⟨u2, s2', h2', hC⟩ := (run_bind_ok _ _ _ _ _).mp hB
    have e2 := modify_run _ _ _ _ h2'
    have e3 := modify_run _ _ _ _ hC
    rw [e3, e2]
  · exec_unfold hop at h2
    obtain ⟨sp, s0, h0, hA⟩ := (run_bind_ok _ _ _ _ _).mp h2
    obtain ⟨_, e0'⟩ := getSp_run _ _ _ h0
    obtain ⟨_, e1'⟩ := (run_pure_ok _ _ _ _).mp hA
    rw [e1', e0']

/-! ### PUSH_PARAM and MK_INIT_ARRAY -/

theorem nowr_fillStrs (arr : Nat) : ∀ (ss : List (List UInt8)) (i : Nat), NoWr (fillStrs arr i ss) := by
  intro ss
  induction ss with
  | nil => intro i; unfold fillStrs; nowr
  | cons s rest ih => intro i; unfold fillStrs; have := ih (i + 1); nowr

/-- `pushParams` only pushes: it writes above the top of stack -/
theorem pushParams_foot : ∀ (ps : List Param) (s lo : Int), lo ≤ s + 1 → FootAt s lo (pushParams ps) := by
  intro ps
  induction ps with
  | nil => intro s lo _; unfold pushParams; exact FootAt.of_foot (Foot.of_nowr (NoWr.pure _))
  | cons p rest ih =>
    intro s lo h
    have tail : ∀ a : Nat, FootAt s lo (do pushAddr a; pushParams rest) := fun a =>
      FootAt.mov_bind (pushAddr_mov _ _) (FootAt.pushAddr _ _ _ h) (fun _ => ih _ _ (by omega))
    have := nowr_fillStrs
    unfold pushParams
    cases p with
    | int v => exact FootAt.keeps_bind (by keeps) (Foot.of_nowr (by nowr)) (fun a => by simpa using tail a)
    | float b => exact FootAt.keeps_bind (by keeps) (Foot.of_nowr (by nowr)) (fun a => by simpa using tail a)
    | str st =>
      refine FootAt.keeps_bind (by keeps) (Foot.of_nowr (by nowr)) (fun a => ?_)
      exact FootAt.keeps_bind (by keeps) (Foot.of_nowr (by nowr)) (fun a => by simpa using tail a)
    | strArr ss =>
      refine FootAt.keeps_bind (by keeps) (Foot.of_nowr (by nowr)) (fun a => ?_)
      refine FootAt.keeps_bind (keeps_fillStrs _ _ _) (Foot.of_nowr (nowr_fillStrs _ _ _)) (fun _ => ?_)
      exact FootAt.keeps_bind (by keeps) (Foot.of_nowr (by nowr)) (fun a => by simpa using tail a)

theorem foot_PUSH_PARAM (md : Module) (ins : Instr) (orc : Oracle) (s : Int) (h : ins.op = .PUSH_PARAM) :
    FootAt s (s + 1) (exec md ins orc) := by
  unfold exec
  simp only [h, binOpOf, unOpOf, convOf, nilCmpOf, strAddOf, arrOpOf, mkArrayElem]
  exact FootAt.getSp_bind (pushParams_foot _ _ _ (by omega))

/-- MK_INIT_ARRAY writes one slot, the one its result is pushed to: everything at or below `sp − dims − count` is left alone -/
theorem exec_MK_INIT_ARRAY_slots (md : Module) (ins : Instr) (orc : Oracle) (hop : ins.op = .MK_INIT_ARRAY) (vm vm' : Vm) (ds : List Int)
    (hpop : stackInts vm ins.w0 vm.sp = some ds) (hc : extsCount ds < 4294967296)
    (h : (exec md ins orc).run vm = .ok ((), vm')) :
    ∀ j, j ≤ vm.sp - (ins.w0 : Int) - (extsCount ds : Int) → slot vm' j = slot vm j := by
  exec_unfold hop at h
  obtain ⟨sp, s0, h0, h⟩ := (run_bind_ok _ _ _ _ _).mp h
  obtain ⟨e0, e0'⟩ := getSp_run _ _ _ h0
  rw [e0'] at h
  obtain ⟨exts, v1, h1, h⟩ := (run_bind_ok _ _ _ _ _).mp h
  obtain ⟨a1, a2, a3, a4⟩ := popInts_mov ins.w0 vm.sp vm exts v1 rfl h1
  obtain ⟨r1, _, _, _⟩ := popInts_reads _ _ _ _ h1
  have w1 := nowr_popInts _ _ _ _ h1
  rw [hpop] at r1
  have eds : exts = ds := by cases r1; rfl
  obtain ⟨arr, v2, h2, h⟩ := (run_bind_ok _ _ _ _ _).mp h
  obtain ⟨b1, b2, b3, b4⟩ := keeps_allocArr _ _ _ _ h2
  have w2 := nowr_allocArr _ _ _ _ h2
  have h2' : (alloc (.arr (Idx.dimMult (exts.map fun e => (e % 4294967296).toNat)).1
      (List.replicate (Idx.dimMult (exts.map fun e => (e % 4294967296).toNat)).2 0))).run v1 = .ok (arr, v2) := by
    simpa [allocArr] using h2
  obtain ⟨p, v3, h3, h⟩ := (run_bind_ok _ _ _ _ _).mp h
  obtain ⟨dv, es⟩ := p
  obtain ⟨c1, c2, c3, c4⟩ := keeps_getArrObj _ _ _ _ h3
  have w3 := nowr_getArrObj _ _ _ _ h3
  obtain ⟨_, ees⟩ := getArrObj_after_alloc h2' h3
  have hlen : es.length = extsCount ds := by
    rw [ees, List.length_replicate, Idx.dimMult_total, eds]
    exact Nat.mod_eq_of_lt hc
  simp only at h
  obtain ⟨elems, v4, h4, h⟩ := (run_bind_ok _ _ _ _ _).mp h
  obtain ⟨d1, d2, d3, d4⟩ := popAddrs_mov es.length v3.sp v3 elems v4 rfl h4
  have w4 := nowr_popAddrs _ _ _ _ h4
  obtain ⟨u5, v5, h5, h⟩ := (run_bind_ok _ _ _ _ _).mp h
  obtain ⟨f1, f2, f3, f4⟩ := keeps_setObj _ _ _ _ _ h5
  have w5 := nowr_setObj _ _ _ _ _ h5
  obtain ⟨s6, v6, h6, h⟩ := (run_bind_ok _ _ _ _ _).mp h
  obtain ⟨g1, g2⟩ := getSp_run _ _ _ h6
  rw [g1, g2] at h
  obtain ⟨u7, v7, h7, h⟩ := (run_bind_ok _ _ _ _ _).mp h
  obtain ⟨i1, i2, i3, i4, _⟩ := keeps_setSp_run _ _ _ _ h7
  have w7 := setSp_slot _ _ _ _ h7
  obtain ⟨u8, v8, h8, h⟩ := (run_bind_ok _ _ _ _ _).mp h
  obtain ⟨j1, j2, j3, j4⟩ := keeps_checkStack _ _ _ h8
  have w8 := nowr_checkStack _ _ _ h8
  obtain ⟨s9, v9, h9, h⟩ := (run_bind_ok _ _ _ _ _).mp h
  obtain ⟨k1, k2⟩ := getSp_run _ _ _ h9
  rw [k2] at h
  obtain ⟨r, v10, h10, h⟩ := (run_bind_ok _ _ _ _ _).mp h
  have w10 := nowr_alloc _ _ _ _ h10
  intro j hj
  have hw := Foot.wrSlot s9 s9 (.addr r) (Int.le_refl _) _ _ _ h j (by omega)
  rw [hw]
  unfold slot
  rw [w10, w8, w7, w5, w4, w3, w2, w1]

/-- the highest stack slot that can hold a word of a live frame record while the running function (frame base `pp`, `base = pp +
nparams`) has the calls `ms` in preparation: the top word of the innermost pending record, or `pp` when there is none -/
def recTop (pp base : Int) (ms : List Nat) : Int := match ms with | [] => pp | m :: _ => base + (m : Int) + 5

section
variable {md : Module} {hm : HMap}

/-- **No step of a verified module writes into a live frame record** — except the RET / RETHROW that pops it.  From a machine at its
recorded height, with the calls `marks(ip)` in preparation, a step on any instruction other than RET / RETHROW leaves every slot
`j ≤ recTop` as it was: the words of the pending records of the running function, the record it was entered through, and everything of
its callers.  (For MK_INIT_ARRAY: provided the extents on the stack are the recorded constants.) -/
theorem step_keeps_records (hf : flowOk md hm = true) (orc : Oracle) (vm vm' : Vm) (i : Instr) (st : AbsSt)
    (hi : md.code[vm.ip]? = some i) (hs : hm[vm.ip]? = some (some st)) (hrun : vm.running = 1)
    (hinv : vm.sp = vm.pp + (fnParamsAt md vm.ip : Int) + (st.h : Int))
    (hnot : i.op ≠ .RET ∧ i.op ≠ .RETHROW)
    (hmk : i.op = .MK_INIT_ARRAY → stackInts vm i.w0 vm.sp = initExts st i.w0)
    (hstep : (step md orc).run vm = .ok ((), vm')) :
    ∀ j, j ≤ recTop vm.pp (vm.pp + (fnParamsAt md vm.ip : Int)) st.marks → slot vm' j = slot vm j := by
  have hpend := flowOk_pend hf (lt_size_of_getElem? hi)
  have hnest := pendOkAt_nested hi hs hpend
  have hfl := marksNested_floor hnest
  -- in terms of the floor: every `j ≤ recTop` is at or below `pp` (no pending record) or at or below `base + floor`
  have hb : ∀ j, j ≤ recTop vm.pp (vm.pp + (fnParamsAt md vm.ip : Int)) st.marks →
      (st.marks = [] ∧ j ≤ vm.pp) ∨ (st.marks ≠ [] ∧ j ≤ vm.pp + (fnParamsAt md vm.ip : Int) + (pendFloor st.marks : Int)) := by
    intro j hj
    cases hm' : st.marks with
    | nil => rw [hm'] at hj; exact Or.inl ⟨rfl, hj⟩
    | cons m rest =>
      rw [hm'] at hj
      refine Or.inr ⟨by simp, ?_⟩
      simp only [recTop] at hj
      simp only [pendFloor]; omega
  refine step_slots_of_exec orc vm vm' i hi hstep _ (fun s2 h2 j hj => ?_)
  have sl : ∀ k, slot ({ vm with ip := vm.ip + 1 } : Vm) k = slot vm k := fun _ => rfl
  have hjb := hb j hj
  cases he : simpleEffect i with
  | some pq =>
    obtain ⟨p, q⟩ := pq
    have hp : p ≤ st.h ∧ pendFloor st.marks + p ≤ st.h := by
      by_cases hj' : i.op = .JUMPZ
      · have e1 : simpleEffect i = some (1, 0) := by simp [simpleEffect, hj', binOpOf, unOpOf, convOf, nilCmpOf, strAddOf, arrOpOf, mkArrayElem]
        rw [e1] at he; cases he
        exact ⟨((flow_branch hf hi hs).1 hj').1, (pendOkAt_JUMPZ hi hs hj' hpend).1⟩
      · obtain ⟨_, _, hp, _⟩ := flow_table hf hi hs he hj'
        exact ⟨hp, (pendOkAt_table hi hs he hj' hpend).1⟩
    have := exec_foot_table md i orc p q he vm.sp { vm with ip := vm.ip + 1 } () s2 rfl h2 j (by rcases hjb with ⟨_, h⟩ | ⟨_, h⟩ <;> omega)
    rw [this, sl]
  | none =>
    rcases simpleEffect_none_cases i he with h | h | h | h | h | h | h | h | h | h | h | h | h | h
    · exact absurd h2 (exec_unmodelled_fails md i orc _ _ (Or.inl h))
    · exact absurd h2 (exec_unmodelled_fails md i orc _ _ (Or.inr (Or.inl h)))
    · exact absurd h2 (exec_unmodelled_fails md i orc _ _ (Or.inr (Or.inr h)))
    · -- JUMP
      exec_unfold h at h2
      obtain ⟨sp, s0, h0, hA⟩ := (run_bind_ok _ _ _ _ _).mp h2
      obtain ⟨_, e0'⟩ := getSp_run _ _ _ h0
      rw [e0'] at hA
      rw [modify_run _ _ _ _ hA]; rfl
    · -- MK_INIT_ARRAY
      obtain ⟨ds, hds, hc, hle, _⟩ := frameOkAt_MK_INIT_ARRAY hi hs h (frame_at hf hi)
      obtain ⟨ds', hds', hfl', _⟩ := pendOkAt_MK_INIT_ARRAY hi hs h hpend
      rw [hds] at hds'; cases hds'
      have hext := hmk h
      rw [hds] at hext
      have hext' : stackInts { vm with ip := vm.ip + 1 } i.w0 vm.sp = some ds := by
        rw [stackInts_congr vm { vm with ip := vm.ip + 1 } rfl rfl rfl]; exact hext
      have := exec_MK_INIT_ARRAY_slots md i orc h { vm with ip := vm.ip + 1 } s2 ds hext' hc h2 j
        (by show j ≤ vm.sp - _ - _; rcases hjb with ⟨_, h⟩ | ⟨_, h⟩ <;> omega)
      rw [this, sl]
    · rw [markP_below (exec_MARK md i orc h _ _ h2) j (by show j ≤ vm.sp; rcases hjb with ⟨_, h⟩ | ⟨_, h⟩ <;> omega), sl]
    · obtain ⟨a, env, fip, _, _, e⟩ := exec_CALL md i orc h _ _ h2
      rw [e]; unfold callP; split <;> rfl
    · -- SLIDE
      rcases exec_SLIDE md i orc h _ _ h2 with ⟨_, hg0⟩ | ⟨hq, v1, hsl, hgc⟩
      · have hst : s2.stack = _ := (gcRunPure_regs hg0).2.2.2.2.2.2.2
        have e2 : slot s2 j = slot { vm with ip := vm.ip + 1 } j := by unfold slot; rw [hst]
        rw [e2]; rfl
      · have hst : s2.stack = v1.stack := (gcRunPure_regs hgc).2.2.2.2.2.2.2
        have e2 : slot s2 j = slot v1 j := by unfold slot; rw [hst]
        rw [e2]
        have hc := frameOkAt_SLIDE hi hs h (frame_at hf hi)
        have hpc := pendOkAt_SLIDE hi hs h hpend
        have hbd : j ≤ vm.sp - (i.w0 : Int) - (i.w1 : Int) := by
          rcases hpc with ⟨hq', _⟩ | ⟨_, hle, hfl', _⟩ | ⟨_, hlt, hnil, _⟩
          · exact absurd hq' hq
          · rcases hjb with ⟨_, hh⟩ | ⟨_, hh⟩ <;> omega
          · rcases hc with ⟨hq', _⟩ | ⟨_, hle, _⟩ | ⟨_, _, hh', hm1, _, _⟩
            · exact absurd hq' hq
            · omega
            · rcases hjb with ⟨_, hh⟩ | ⟨hne, _⟩
              · unfold fnParamsAt at hinv; omega
              · exact absurd hnil hne
        rw [slideP_below hsl j (by show j ≤ vm.sp - _ - _; exact hbd), sl]
    · rw [exec_CLEAR_STACK md i orc h _ _ h2]; rfl
    · exact absurd h hnot.1
    · exact absurd h hnot.2
    · -- PUSH_PARAM
      have := foot_PUSH_PARAM md i orc vm.sp h { vm with ip := vm.ip + 1 } () s2 rfl h2 j (by rcases hjb with ⟨_, h⟩ | ⟨_, h⟩ <;> omega)
      rw [this, sl]
    · have := exec_stack_same md i orc (Or.inr (Or.inl h)) _ s2 h2
      unfold slot; rw [this]
    · have := exec_stack_same md i orc (Or.inl h) _ s2 h2
      unfold slot; rw [this]

end
end Never.Ver
