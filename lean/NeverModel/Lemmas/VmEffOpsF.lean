import NeverModel.Lemmas.VmEffectLoops
set_option linter.unusedSimpArgs false
set_option linter.unusedVariables false
/-! stack effect of `BUILD_IN id` -/
namespace Never.Vm
open Never Never.Num

/-- net stack movement of build-in `id` (pow and assertf take two operands, read takes none) -/
def buildInDelta (id : Nat) : Int := if id = 7 ∨ id = 22 then -1 else if id = 12 then 1 else 0

set_option maxRecDepth 16000 in
set_option maxHeartbeats 4000000 in
theorem buildIn_eff (id : Nat) (orc : Oracle) (s : Int) : EffAt s (buildInDelta id) (buildIn id orc) := by
  unfold buildIn
  refine EffAt.getSp_bind ?_
  refine EffAt.keeps_bind (by keeps) (fun top => ?_)
  dsimp only
  split
  all_goals (first | (simp only [buildInDelta]; eff) | (simp [buildInDelta]; eff) | eff)

end Never.Vm
