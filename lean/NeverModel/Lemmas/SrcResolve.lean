/-
Lexical resolution: `resolveIdx` is the innermost binder; the evaluator reads exactly that
binder's cell; resolution (the binder index of every use of a program) is invariant under
admissible renaming.
-/
import NeverModel.Lemmas.SrcCollect
namespace Never.Src

variable {ν : Ren}

theorem resolveIdx_spec (x : Name) (bs : List Name) (i : Nat) :
    resolveIdx x bs = some i ↔ (bs[i]? = some x ∧ ∀ j, j < i → bs[j]? ≠ some x) := by
  induction bs generalizing i with
  | nil => simp [resolveIdx]
  | cons y bs ih =>
    by_cases h : x = y
    · subst h
      simp only [resolveIdx, if_true]
      constructor
      · intro hi
        injection hi with hi
        subst hi
        exact ⟨by simp, fun j hj => absurd hj (Nat.not_lt_zero j)⟩
      · intro ⟨h1, h2⟩
        cases i with
        | zero => rfl
        | succ i => exact absurd (by simp) (h2 0 (Nat.succ_pos i))
    · simp only [resolveIdx, h, if_false]
      cases i with
      | zero =>
        constructor
        · intro hi
          cases hr : resolveIdx x bs <;> simp [hr] at hi
        · intro ⟨h1, _⟩
          simp at h1
          exact absurd h1.symm h
      | succ i =>
        rw [Option.map_eq_some_iff]
        constructor
        · intro ⟨k, hk, hki⟩
          have hki' : k = i := by omega
          subst hki'
          obtain ⟨h1, h2⟩ := (ih k).mp hk
          refine ⟨by simpa using h1, ?_⟩
          intro j hj
          cases j with
          | zero => simp; exact fun heq => h heq.symm
          | succ j => simpa using h2 j (by omega)
        · intro ⟨h1, h2⟩
          refine ⟨i, (ih i).mpr ⟨by simpa using h1, ?_⟩, rfl⟩
          intro j hj
          have := h2 (j + 1) (by omega)
          simpa using this

theorem resolveIdx_none (x : Name) (bs : List Name) : resolveIdx x bs = none ↔ x ∉ bs := by
  induction bs with
  | nil => simp [resolveIdx]
  | cons y bs ih =>
    by_cases h : x = y
    · subst h; simp [resolveIdx]
    · simp [resolveIdx, h, ih]

/-- the evaluator's environment lookup reads the cell of the resolved binder -/
theorem lookup_eq_resolve (x : Name) (env : Env) :
    lookup x env = (resolveIdx x (names env)).bind (fun i => (locs env)[i]?) := by
  induction env with
  | nil => rfl
  | cons p env ih =>
    obtain ⟨y, l⟩ := p
    by_cases h : x = y
    · subst h; simp [lookup, resolveIdx]
    · simp only [lookup, h, if_false, names_cons, resolveIdx, locs_cons, ih]
      cases resolveIdx x (names env) <;> simp

theorem resolveIdx_rnD (hν : Adm ν) (x : Name) (bs : List Name) (L : Nat) (hL : bs.length ≤ L) :
    resolveIdx (rnVarD ν L bs x) (rnStack ν bs) = resolveIdx x bs := by
  induction bs with
  | nil => simp [resolveIdx, rnStack]
  | cons y bs ih =>
    simp only [List.length_cons] at hL
    by_cases h : x = y
    · subst h; simp [rnVarD, rnStack, resolveIdx]
    · have hne : rnVarD ν L bs x ≠ ν y bs.length := by
        obtain ⟨d, hd, hlt⟩ := rnVarD_form (ν := ν) L bs x
        rw [hd]
        intro heq
        cases hν.inj _ _ _ _ heq with
        | inl h1 => exact h h1
        | inr h1 =>
          cases hlt with
          | inl h2 => omega
          | inr h2 => omega
      simp only [rnVarD, h, if_false, rnStack, resolveIdx, hne]
      rw [ih (by omega)]

/-- **resolution is invariant under renaming** (one use) -/
theorem resolveIdx_rn (hν : Adm ν) (x : Name) (bs : List Name) :
    resolveIdx (rnVar ν bs x) (rnStack ν bs) = resolveIdx x bs :=
  resolveIdx_rnD hν x bs _ (Nat.le_refl _)

def rnUse (ν : Ren) (u : Name × List Name) : Name × List Name := (rnVar ν u.2 u.1, rnStack ν u.2)

mutual
theorem usesE_rn (hν : Adm ν) (bs : List Name) : ∀ e : Expr,
    usesE (rnStack ν bs) (rnE ν bs e) = (usesE bs e).map (rnUse ν)
  | .lit _ => rfl
  | .var _ => rfl
  | .dimVar _ => rfl
  | .enumVal _ _ => rfl
  | .un _ a => by simp only [rnE, usesE, usesE_rn hν bs a]
  | .bin _ a b => by simp only [rnE, usesE, usesE_rn hν bs a, usesE_rn hν bs b, List.map_append]
  | .and a b => by simp only [rnE, usesE, usesE_rn hν bs a, usesE_rn hν bs b, List.map_append]
  | .or a b => by simp only [rnE, usesE, usesE_rn hν bs a, usesE_rn hν bs b, List.map_append]
  | .assign a b => by simp only [rnE, usesE, usesE_rn hν bs a, usesE_rn hν bs b, List.map_append]
  | .while a b => by simp only [rnE, usesE, usesE_rn hν bs a, usesE_rn hν bs b, List.map_append]
  | .doWhile a b => by simp only [rnE, usesE, usesE_rn hν bs a, usesE_rn hν bs b, List.map_append]
  | .cond c t e => by simp only [rnE, usesE, usesE_rn hν bs c, usesE_rn hν bs t, usesE_rn hν bs e, List.map_append]
  | .seq items => by simp only [rnE, usesE, usesItems_rn hν bs items]
  | .for i c s b => by
    simp only [rnE, usesE, usesE_rn hν bs i, usesE_rn hν bs c, usesE_rn hν bs s, usesE_rn hν bs b, List.map_append]
  | .forIn x coll b => by
    have := usesE_rn hν (x :: bs) b
    rw [rnStack_cons] at this
    simp only [rnE, usesE, usesE_rn hν bs coll, this, List.map_append]
  | .call f args => by simp only [rnE, usesE, usesE_rn hν bs f, usesEs_rn hν bs args, List.map_append]
  | .pipe l f args => by
    simp only [rnE, usesE, usesE_rn hν bs l, usesE_rn hν bs f, usesEs_rn hν bs args, List.map_append]
  | .builtin _ args => by simp only [rnE, usesE, usesEs_rn hν bs args]
  | .arrLit _ args _ => by simp only [rnE, usesE, usesEs_rn hν bs args]
  | .arrNew args _ => by simp only [rnE, usesE, usesEs_rn hν bs args]
  | .record _ args => by simp only [rnE, usesE, usesEs_rn hν bs args]
  | .tuple args => by simp only [rnE, usesE, usesEs_rn hν bs args]
  | .enumRec _ _ args => by simp only [rnE, usesE, usesEs_rn hν bs args]
  | .range args => by simp only [rnE, usesE, usesEs_rn hν bs args]
  | .slice a idx => by simp only [rnE, usesE, usesE_rn hν bs a, usesEs_rn hν bs idx, List.map_append]
  | .lam (.mk id n ps r body cs) => by
    by_cases hn : n = ""
    · have := usesF_rn hν bs "" (.mk id n ps r body cs)
      simp only [rnE, hn, if_true, usesE, rnF] at this ⊢
      exact this
    · have hne : ν n bs.length ≠ "" := hν.nonempty _ _
      have := usesF_rn hν (n :: bs) (ν n bs.length) (.mk id n ps r body cs)
      rw [rnStack_cons] at this
      simp only [rnE, hn, if_false, usesE, rnF, hne] at this ⊢
      exact this
  | .index a idx => by simp only [rnE, usesE, usesE_rn hν bs a, usesEs_rn hν bs idx, List.map_append]
  | .field e _ => by simp only [rnE, usesE, usesE_rn hν bs e]
  | .matchE e gs => by simp only [rnE, usesE, usesE_rn hν bs e, usesGuards_rn hν bs gs, List.map_append]
  | .ifLet g e els => by
    simp only [rnE, usesE, usesE_rn hν bs e, usesGuard_rn hν bs g, usesE_rn hν bs els, List.map_append]
  | .listcomp body quals _ => by
    have := usesE_rn hν (qualBinders quals ++ bs) body
    rw [← qualBinders_rn] at this
    simp only [rnE, usesE, usesQuals_rn hν bs quals, this, List.map_append]
theorem usesEs_rn (hν : Adm ν) (bs : List Name) : ∀ es : List Expr,
    usesEs (rnStack ν bs) (rnEs ν bs es) = (usesEs bs es).map (rnUse ν)
  | [] => rfl
  | e :: es => by simp only [rnEs, usesEs, usesE_rn hν bs e, usesEs_rn hν bs es, List.map_append]
theorem usesItems_rn (hν : Adm ν) (bs : List Name) : ∀ items : List Item,
    usesItems (rnStack ν bs) (rnItems ν bs items) = (usesItems bs items).map (rnUse ν)
  | [] => rfl
  | .expr e :: rest => by simp only [rnItems, usesItems, usesE_rn hν bs e, usesItems_rn hν bs rest, List.map_append]
  | .bind _ x e :: rest => by
    have := usesItems_rn hν (x :: bs) rest
    rw [rnStack_cons] at this
    simp only [rnItems, usesItems, usesE_rn hν bs e, this, List.map_append]
  | .funcs fs :: rest => by
    have h1 := usesFs_rn hν ((funcNames fs).reverse ++ bs) bs.length fs
    have h2 := usesItems_rn hν ((funcNames fs).reverse ++ bs) rest
    rw [rnStack_rev_append] at h1 h2
    simp only [rnItems, usesItems, funcNames_rnFs, h1, h2, List.map_append]
theorem usesFs_rn (hν : Adm ν) (bs : List Name) (d : Nat) : ∀ fs : List Func,
    usesFs (rnStack ν bs) (rnFs ν bs d fs) = (usesFs bs fs).map (rnUse ν)
  | [] => rfl
  | .mk id n ps r body cs :: fs => by
    simp only [rnFs, usesFs, usesF_rn hν bs (ν n d) (.mk id n ps r body cs), usesFs_rn hν bs (d + 1) fs, List.map_append]
theorem usesF_rn (hν : Adm ν) (bs : List Name) (nn : Name) : ∀ fn : Func,
    usesF (rnStack ν bs) (rnF ν bs nn fn) = (usesF bs fn).map (rnUse ν)
  | .mk id n ps r body cs => by
    have hb := usesE_rn hν ((paramBinders ps).reverse ++ bs) body
    have hc := usesCatches_rn hν ((paramBinders ps).reverse ++ bs) cs
    rw [rnStack_rev_append] at hb hc
    simp only [rnF, usesF, paramBinders_rn, hb, hc, List.map_append]
theorem usesCatches_rn (hν : Adm ν) (bs : List Name) : ∀ cs : List Catch,
    usesCatches (rnStack ν bs) (rnCatches ν bs cs) = (usesCatches bs cs).map (rnUse ν)
  | [] => rfl
  | .mk _ b :: cs => by simp only [rnCatches, usesCatches, usesE_rn hν bs b, usesCatches_rn hν bs cs, List.map_append]
theorem usesGuard_rn (hν : Adm ν) (bs : List Name) : ∀ g : Guard,
    usesGuard (rnStack ν bs) (rnGuard ν bs g) = (usesGuard bs g).map (rnUse ν)
  | .item _ _ b => by simp only [rnGuard, usesGuard, usesE_rn hν bs b]
  | .els b => by simp only [rnGuard, usesGuard, usesE_rn hν bs b]
  | .recd _ _ binds b => by
    have := usesE_rn hν (binds.reverse ++ bs) b
    rw [rnStack_rev_append] at this
    simp only [rnGuard, usesGuard, this]
theorem usesGuards_rn (hν : Adm ν) (bs : List Name) : ∀ gs : List Guard,
    usesGuards (rnStack ν bs) (rnGuards ν bs gs) = (usesGuards bs gs).map (rnUse ν)
  | [] => rfl
  | g :: gs => by simp only [rnGuards, usesGuards, usesGuard_rn hν bs g, usesGuards_rn hν bs gs, List.map_append]
theorem usesQuals_rn (hν : Adm ν) (bs : List Name) : ∀ qs : List Qual,
    usesQuals (rnStack ν bs) (rnQuals ν bs qs) = (usesQuals bs qs).map (rnUse ν)
  | [] => rfl
  | .filter e :: qs => by simp only [rnQuals, usesQuals, usesE_rn hν bs e, usesQuals_rn hν bs qs, List.map_append]
  | .gen x coll :: qs => by
    have := usesQuals_rn hν (x :: bs) qs
    rw [rnStack_cons] at this
    simp only [rnQuals, usesQuals, usesE_rn hν bs coll, this, List.map_append]
end

end Never.Src
