import NeverModel.Lemmas.VmFree
set_option linter.unusedSimpArgs false
set_option linter.unusedVariables false
/-! per-opcode: the handler keeps the heap's bookkeeping invariant (generated list) -/
namespace Never.Vm
open Never Never.Num

set_option maxRecDepth 8000 in
theorem kfop_OP_ASS_FLOAT (md : Module) (ins : Instr) (orc : Oracle) (h : ins.op = .OP_ASS_FLOAT) : KF none (exec md ins orc) := by exec_kf h

set_option maxRecDepth 8000 in
theorem kfop_OP_ASS_DOUBLE (md : Module) (ins : Instr) (orc : Oracle) (h : ins.op = .OP_ASS_DOUBLE) : KF none (exec md ins orc) := by exec_kf h

set_option maxRecDepth 8000 in
theorem kfop_OP_ASS_CHAR (md : Module) (ins : Instr) (orc : Oracle) (h : ins.op = .OP_ASS_CHAR) : KF none (exec md ins orc) := by exec_kf h

set_option maxRecDepth 8000 in
theorem kfop_OP_ASS_STRING (md : Module) (ins : Instr) (orc : Oracle) (h : ins.op = .OP_ASS_STRING) : KF none (exec md ins orc) := by exec_kf h

set_option maxRecDepth 8000 in
theorem kfop_OP_ASS_C_PTR (md : Module) (ins : Instr) (orc : Oracle) (h : ins.op = .OP_ASS_C_PTR) : KF none (exec md ins orc) := by exec_kf h

set_option maxRecDepth 8000 in
theorem kfop_OP_ASS_ARRAY (md : Module) (ins : Instr) (orc : Oracle) (h : ins.op = .OP_ASS_ARRAY) : KF none (exec md ins orc) := by exec_kf h

set_option maxRecDepth 8000 in
theorem kfop_OP_ASS_RECORD (md : Module) (ins : Instr) (orc : Oracle) (h : ins.op = .OP_ASS_RECORD) : KF none (exec md ins orc) := by exec_kf h

set_option maxRecDepth 8000 in
theorem kfop_OP_ASS_FUNC (md : Module) (ins : Instr) (orc : Oracle) (h : ins.op = .OP_ASS_FUNC) : KF none (exec md ins orc) := by exec_kf h

set_option maxRecDepth 8000 in
theorem kfop_OP_ASS_RECORD_NIL (md : Module) (ins : Instr) (orc : Oracle) (h : ins.op = .OP_ASS_RECORD_NIL) : KF none (exec md ins orc) := by exec_kf h

set_option maxRecDepth 8000 in
theorem kfop_REWRITE (md : Module) (ins : Instr) (orc : Oracle) (h : ins.op = .REWRITE) : KF none (exec md ins orc) := by exec_kf h

set_option maxRecDepth 8000 in
theorem kfop_MK_RANGE (md : Module) (ins : Instr) (orc : Oracle) (h : ins.op = .MK_RANGE) : KF none (exec md ins orc) := by exec_kf h

set_option maxRecDepth 8000 in
theorem kfop_RECORD (md : Module) (ins : Instr) (orc : Oracle) (h : ins.op = .RECORD) : KF none (exec md ins orc) := by exec_kf h

set_option maxRecDepth 8000 in
theorem kfop_GLOBAL_VEC (md : Module) (ins : Instr) (orc : Oracle) (h : ins.op = .GLOBAL_VEC) : KF none (exec md ins orc) := by exec_kf h

set_option maxRecDepth 8000 in
theorem kfop_ALLOC (md : Module) (ins : Instr) (orc : Oracle) (h : ins.op = .ALLOC) : KF none (exec md ins orc) := by exec_kf h

set_option maxRecDepth 8000 in
theorem kfop_RANGE_DEREF (md : Module) (ins : Instr) (orc : Oracle) (h : ins.op = .RANGE_DEREF) : KF none (exec md ins orc) := by exec_kf h

set_option maxRecDepth 8000 in
theorem kfop_RECORD_UNPACK (md : Module) (ins : Instr) (orc : Oracle) (h : ins.op = .RECORD_UNPACK) : KF none (exec md ins orc) := by exec_kf h

set_option maxRecDepth 8000 in
theorem kfop_SLICE_DEREF (md : Module) (ins : Instr) (orc : Oracle) (h : ins.op = .SLICE_DEREF) : KF none (exec md ins orc) := by exec_kf h

set_option maxRecDepth 8000 in
theorem kfop_ARRAY_DEREF (md : Module) (ins : Instr) (orc : Oracle) (h : ins.op = .ARRAY_DEREF) : KF none (exec md ins orc) := by exec_kf h

set_option maxRecDepth 8000 in
theorem kfop_ARRAYREF_DEREF (md : Module) (ins : Instr) (orc : Oracle) (h : ins.op = .ARRAYREF_DEREF) : KF none (exec md ins orc) := by exec_kf h

set_option maxRecDepth 8000 in
theorem kfop_BUILD_IN (md : Module) (ins : Instr) (orc : Oracle) (h : ins.op = .BUILD_IN) : KF none (exec md ins orc) := by
  unfold exec
  simp only [h, binOpOf, unOpOf, convOf, nilCmpOf, strAddOf, arrOpOf, mkArrayElem]
  exact KF.bind kf_getSp (fun _ => kf_buildIn _ _)

theorem kf_appendTail (array obj : Nat) :
    KF none (do let vm ← get
                match vm.gc.appendArrElem array obj with
                | some g => set { vm with gc := g }
                | none => (crash "assert: append to a non 1-dimensional array" : M PUnit)) := by
  refine KF.get_bind _ ?_
  intro vm a vm' hr
  split at hr
  · rename_i g hg
    simp [set, StateT.set, StateT.run, Pure.pure, Except.pure] at hr
    rw [← hr]
    refine ⟨fun x hx => ?_, fun _ hi => freeInv_appendArrElem hi hg⟩
    unfold Alive at hx ⊢
    unfold Gc.appendArrElem at hg
    split at hg
    · cases hg
      show ((vm.gc.mem.setObj array _).objAt x).isSome = true
      rw [Mem.objAt_setObj]
      split
      · rfl
      · exact hx
    · cases hg
  · exact kf_crash _ _ _ _ hr

theorem kfop_ARRAY_APPEND (md : Module) (ins : Instr) (orc : Oracle) (h : ins.op = .ARRAY_APPEND) : KF none (exec md ins orc) := by
  unfold exec
  simp only [h, binOpOf, unOpOf, convOf, nilCmpOf, strAddOf, arrOpOf, mkArrayElem]
  refine KF.bind (by kf) (fun _ => ?_)
  refine KF.bind (by kf) (fun _ => ?_)
  refine KF.bind (by kf) (fun _ => ?_)
  split
  · kf
  · refine KF.bind (by kf) (fun _ => ?_)
    refine KF.bind (by kf) (fun _ => ?_)
    exact kf_appendTail _ _

set_option maxRecDepth 8000 in
theorem kfop_nilCmp (md : Module) (ins : Instr) (orc : Oracle) (k : Nat) (nl ng : Bool)
    (hb : binOpOf ins.op = none) (hu : unOpOf ins.op = none) (hc : convOf ins.op = none)
    (h : nilCmpOf ins.op = some (k, nl, ng)) : KF none (exec md ins orc) := by
  unfold exec; simp only [hb, hu, hc, h]; kf

set_option maxRecDepth 8000 in
theorem kfop_strAdd (md : Module) (ins : Instr) (orc : Oracle) (ty : NTy) (sl : Bool)
    (hb : binOpOf ins.op = none) (hu : unOpOf ins.op = none) (hc : convOf ins.op = none) (hn : nilCmpOf ins.op = none)
    (h : strAddOf ins.op = some (ty, sl)) : KF none (exec md ins orc) := by
  unfold exec; simp only [hb, hu, hc, hn, h]; kf

set_option maxRecDepth 8000 in
theorem kfop_arrOp (md : Module) (ins : Instr) (orc : Oracle) (ty : NTy) (kind : Nat)
    (hb : binOpOf ins.op = none) (hu : unOpOf ins.op = none) (hc : convOf ins.op = none) (hn : nilCmpOf ins.op = none)
    (hs : strAddOf ins.op = none) (h : arrOpOf ins.op = some (ty, kind)) : KF none (exec md ins orc) := by
  unfold exec; simp only [hb, hu, hc, hn, hs, h]; kf

set_option maxRecDepth 8000 in
theorem kfop_mkArray (md : Module) (ins : Instr) (orc : Oracle) (dflt : Obj)
    (hb : binOpOf ins.op = none) (hu : unOpOf ins.op = none) (hc : convOf ins.op = none) (hn : nilCmpOf ins.op = none)
    (hs : strAddOf ins.op = none) (ha : arrOpOf ins.op = none)
    (h : mkArrayElem ins.op = some dflt) : KF none (exec md ins orc) := by
  unfold exec; simp only [hb, hu, hc, hn, hs, ha, h]; kf

end Never.Vm
