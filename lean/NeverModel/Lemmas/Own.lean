import NeverModel.Model.Own
/-! helper lemmas for the ownership-table theorems of `Props/C16.lean` -/
namespace Never.Own
open Never.Gen.OwnTab

theorem eqN_iff {a b : Nat} : eqN a b = true ↔ a = b :=
  ⟨Nat.eq_of_beq_eq_true, fun h => h ▸ Nat.beq_refl a⟩

theorem isOwned_iff {f t : Nat} : isOwned f t = true ↔ classify f t = .owned := by
  unfold isOwned; split <;> simp_all

theorem nodupNat_nodup : ∀ {xs : List Nat}, nodupNat xs = true → xs.Nodup
  | [], _ => List.nodup_nil
  | x :: xs, h => by
    simp only [nodupNat, Bool.and_eq_true, Bool.not_eq_true', List.any_eq_false] at h
    refine List.nodup_cons.mpr ⟨fun hm => ?_, nodupNat_nodup h.2⟩
    have := h.1 x hm
    rw [eqN_iff.mpr rfl] at this
    exact this rfl

end Never.Own
