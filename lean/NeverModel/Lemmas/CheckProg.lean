import NeverModel.Lemmas.CheckPlug
set_option linter.unusedSimpArgs false
set_option linter.unusedVariables false
/-! # whole-program contexts: a program with an expression-shaped or a function-shaped hole -/
namespace Never.Tc

theorem nonEmptyUnit_app (fpre : FuncList) (f : Func) (fpost : FuncList) :
    nonEmptyUnit (fpre.app (.cons f fpost)) = .ok () := by
  cases fpre <;> rfl

theorem check_eq (p : Prog) :
    check p = globalEnv p.decls >>= fun Γ => nonEmptyUnit p.funcs >>= fun _ =>
      declFuncs Γ p.funcs >>= fun q => tcBodies q.1 p.funcs q.2 := by
  simp only [check]

/-- a program with one expression-shaped hole: the declarations, the top-level functions around
the one that contains the hole, where in that function the hole is (body or a catch clause), and
the frames from there down to the hole (outermost first) -/
structure ProgCtx where
  decls : List Decl
  fpre : FuncList
  h : FuncHole
  fpost : FuncList
  frames : List Frame

def ProgCtx.plug (P : ProgCtx) (e : Expr) : Prog :=
  ⟨P.decls, P.fpre.app (.cons (P.h.plug (plugFrames P.frames e)) P.fpost)⟩

/-- the symbol table in force at the hole, if everything the checker visits BEFORE the hole is
free of errors; otherwise the error it stops with -/
def ProgCtx.holeEnv (P : ProgCtx) : Except Diag Env := do
  let Γ ← globalEnv P.decls
  let (Γf, s) ← runEnv Γ P.fpre (P.h.plug default) P.fpost
  P.h.pre Γf s
  framesEnv P.frames Γf

theorem runEnv_plug (Γ : Env) (fpre fpost : FuncList) (h : FuncHole) (e e' : Expr) :
    runEnv Γ fpre (h.plug e) fpost = runEnv Γ fpre (h.plug e') fpost := by
  have : ∀ Γ', declFuncs Γ' (.cons (h.plug e) fpost) = declFuncs Γ' (.cons (h.plug e') fpost) :=
    fun Γ' => declFuncs_plug h e e' fpost Γ'
  simp only [runEnv, this, FuncHole.plug_name]

theorem ProgCtx.plug_error (P : ProgCtx) (Γ' : Env) (e : Expr) (d : Diag)
    (henv : P.holeEnv = .ok Γ') (he : tc Γ' e = .error d) : check (P.plug e) = .error d := by
  simp only [ProgCtx.holeEnv] at henv
  rw [check_eq]
  simp only [ProgCtx.plug]
  cases h1 : globalEnv P.decls with
  | error d' => simp [h1] at henv
  | ok Γ =>
    simp only [h1, bind_ok] at henv ⊢
    cases h2 : runEnv Γ P.fpre (P.h.plug default) P.fpost with
    | error d' => simp [h2] at henv
    | ok q =>
      obtain ⟨Γf, s⟩ := q
      simp only [h2, bind_ok] at henv
      cases h3 : P.h.pre Γf s with
      | error d' => simp [h3] at henv
      | ok u =>
        simp only [h3, bind_ok] at henv
        have hx := frames_plug_error P.frames Γf Γ' e d henv he
        have hr := FuncHole.plug_error Γf s P.h _ d h3 hx
        rw [runEnv_plug Γ P.fpre P.fpost P.h default (plugFrames P.frames e)] at h2
        rw [nonEmptyUnit_app]; exact run_error Γ P.fpre _ P.fpost Γf s d h2 hr

theorem ProgCtx.plug_prefix (P : ProgCtx) (e : Expr) (d : Diag)
    (henv : P.holeEnv = .error d) : check (P.plug e) = .error d := by
  simp only [ProgCtx.holeEnv] at henv
  rw [check_eq]
  simp only [ProgCtx.plug]
  cases h1 : globalEnv P.decls with
  | error d' => simp [h1] at henv; subst henv; simp
  | ok Γ =>
    simp only [h1, bind_ok] at henv ⊢
    cases h2 : runEnv Γ P.fpre (P.h.plug default) P.fpost with
    | error d' =>
      simp [h2] at henv; subst henv
      rw [runEnv_plug Γ P.fpre P.fpost P.h default (plugFrames P.frames e)] at h2
      rw [nonEmptyUnit_app]; exact run_prefix Γ P.fpre _ P.fpost d' h2
    | ok q =>
      obtain ⟨Γf, s⟩ := q
      simp only [h2, bind_ok] at henv
      rw [runEnv_plug Γ P.fpre P.fpost P.h default (plugFrames P.frames e)] at h2
      cases h3 : P.h.pre Γf s with
      | error d' =>
        simp [h3] at henv; subst henv
        rw [nonEmptyUnit_app]; exact run_error Γ P.fpre _ P.fpost Γf s d' h2 (FuncHole.plug_prefix Γf s P.h _ d' h3)
      | ok u =>
        simp only [h3, bind_ok] at henv
        have hx := frames_plug_prefix P.frames Γf e d henv
        rw [nonEmptyUnit_app]; exact run_error Γ P.fpre _ P.fpost Γf s d h2 (FuncHole.plug_error Γf s P.h _ d h3 hx)

/-- an expression that is rejected in every symbol table is rejected in every program context,
whatever surrounds it (either by itself or because something before it already was) -/
theorem ProgCtx.never_accepts (P : ProgCtx) (e : Expr)
    (hbad : ∀ Γ, ∃ d, tc Γ e = .error d) : ∃ d, check (P.plug e) = .error d := by
  cases h : P.holeEnv with
  | error d => exact ⟨d, P.plug_prefix e d h⟩
  | ok Γ' =>
    obtain ⟨d, hd⟩ := hbad Γ'
    exact ⟨d, P.plug_error Γ' e d h hd⟩

/-! ## function-shaped holes -/

/-- where a whole function can stand: at top level, as an item of a block (inside a run of
functions), or as a literal `let func …`; the latter two anywhere in a program -/
inductive FuncCtx
  | top (decls : List Decl) (fpre fpost : FuncList)
  | nested (P : ProgCtx) (ln : Ln) (pre : SeqList) (fpre fpost : FuncList) (post : SeqList)
  | lit (P : ProgCtx)

def FuncCtx.plug : FuncCtx → Func → Prog
  | .top ds fpre fpost, f => ⟨ds, fpre.app (.cons f fpost)⟩
  | .nested P ln pre fpre fpost post, f =>
    P.plug (.seq ln (pre.app (.cons (.funcs (fpre.app (.cons f fpost))) post)))
  | .lit P, f => P.plug (.funcLit f)

/-- the function's own table and resolved signature, if everything visited before its catch
clauses is free of errors -/
def FuncCtx.env : FuncCtx → Func → Except Diag (Env × Sig)
  | .top ds fpre fpost, f => do
    let Γ ← globalEnv ds
    runEnv Γ fpre f fpost
  | .nested P _ pre fpre fpost _, f => do
    let Γ ← P.holeEnv
    let Γ1 ← seqEnv Γ.push pre
    runEnv Γ1 fpre f fpost
  | .lit P, f => do
    let Γ ← P.holeEnv
    let s ← declFunc Γ f.name f.params f.rc f.rty
    pure (funcEnv Γ f.name s, s)

theorem tcSeq_funcs_error (Γ1 : Env) (F : FuncList) (post : SeqList) (d : Diag)
    (h : (declFuncs Γ1 F >>= fun p => tcBodies p.1 F p.2) = .error d) :
    tcSeq Γ1 (.cons (.funcs F) post) = .error d := by
  simp only [tcSeq]
  cases h1 : declFuncs Γ1 F with
  | error d' => simp [h1] at h; subst h; rfl
  | ok p =>
    obtain ⟨Γ2, ss⟩ := p
    simp [h1] at h
    simp [h]

theorem FuncCtx.plug_error (C : FuncCtx) (f : Func) (Γf : Env) (s : Sig) (d : Diag)
    (henv : C.env f = .ok (Γf, s)) (hf : tcRest Γf s f = .error d) : check (C.plug f) = .error d := by
  cases C with
  | top ds fpre fpost =>
    simp only [FuncCtx.env] at henv
    rw [check_eq]
    simp only [FuncCtx.plug]
    cases h1 : globalEnv ds with
    | error d' => simp [h1] at henv
    | ok Γ =>
      simp only [h1, bind_ok] at henv ⊢
      rw [nonEmptyUnit_app]; exact run_error Γ fpre f fpost Γf s d henv hf
  | nested P ln pre fpre fpost post =>
    simp only [FuncCtx.env] at henv
    cases h1 : P.holeEnv with
    | error d' => simp [h1] at henv
    | ok Γ =>
      simp only [h1, bind_ok] at henv
      cases h2 : seqEnv Γ.push pre with
      | error d' => simp [h2] at henv
      | ok Γ1 =>
        simp only [h2, bind_ok] at henv
        have hrun := run_error Γ1 fpre f fpost Γf s d henv hf
        have hseq := tcSeq_app_error pre Γ.push Γ1 _ d h2 (tcSeq_funcs_error Γ1 _ post d hrun)
        apply P.plug_error Γ _ d h1
        simp [tc, hseq]
  | lit P =>
    simp only [FuncCtx.env] at henv
    cases h1 : P.holeEnv with
    | error d' => simp [h1] at henv
    | ok Γ =>
      simp only [h1, bind_ok] at henv
      cases h2 : declFunc Γ f.name f.params f.rc f.rty with
      | error d' => simp [h2] at henv
      | ok s' =>
        simp [h2] at henv
        obtain ⟨hΓ, hs⟩ := henv
        subst hs; subst hΓ
        apply P.plug_error Γ _ d h1
        simp [tc, h2, hf]

end Never.Tc
