import NeverModel.Lemmas.VmWOk
set_option linter.unusedSimpArgs false
set_option linter.unusedVariables false
/-! per-opcode: from `-1 ≤ sp < stackSize` the handler never stores outside the stack array (generated list, each proved by the `wok`
automation) -/
namespace Never.Vm
open Never Never.Num

set_option maxRecDepth 8000 in
theorem wok_INT (md : Module) (ins : Instr) (orc : Oracle) (N : Nat) (s : Int) (h0 : -1 ≤ s) (h1 : s < N) (h : ins.op = .INT) : WOk N s (exec md ins orc) := by exec_wok h

set_option maxRecDepth 8000 in
theorem wok_LONG (md : Module) (ins : Instr) (orc : Oracle) (N : Nat) (s : Int) (h0 : -1 ≤ s) (h1 : s < N) (h : ins.op = .LONG) : WOk N s (exec md ins orc) := by exec_wok h

set_option maxRecDepth 8000 in
theorem wok_FLOAT (md : Module) (ins : Instr) (orc : Oracle) (N : Nat) (s : Int) (h0 : -1 ≤ s) (h1 : s < N) (h : ins.op = .FLOAT) : WOk N s (exec md ins orc) := by exec_wok h

set_option maxRecDepth 8000 in
theorem wok_DOUBLE (md : Module) (ins : Instr) (orc : Oracle) (N : Nat) (s : Int) (h0 : -1 ≤ s) (h1 : s < N) (h : ins.op = .DOUBLE) : WOk N s (exec md ins orc) := by exec_wok h

set_option maxRecDepth 8000 in
theorem wok_CHAR (md : Module) (ins : Instr) (orc : Oracle) (N : Nat) (s : Int) (h0 : -1 ≤ s) (h1 : s < N) (h : ins.op = .CHAR) : WOk N s (exec md ins orc) := by exec_wok h

set_option maxRecDepth 8000 in
theorem wok_STRING (md : Module) (ins : Instr) (orc : Oracle) (N : Nat) (s : Int) (h0 : -1 ≤ s) (h1 : s < N) (h : ins.op = .STRING) : WOk N s (exec md ins orc) := by exec_wok h

set_option maxRecDepth 8000 in
theorem wok_C_NULL (md : Module) (ins : Instr) (orc : Oracle) (N : Nat) (s : Int) (h0 : -1 ≤ s) (h1 : s < N) (h : ins.op = .C_NULL) : WOk N s (exec md ins orc) := by exec_wok h

set_option maxRecDepth 8000 in
theorem wok_ID_TOP (md : Module) (ins : Instr) (orc : Oracle) (N : Nat) (s : Int) (h0 : -1 ≤ s) (h1 : s < N) (h : ins.op = .ID_TOP) : WOk N s (exec md ins orc) := by exec_wok h

set_option maxRecDepth 8000 in
theorem wok_ID_LOCAL (md : Module) (ins : Instr) (orc : Oracle) (N : Nat) (s : Int) (h0 : -1 ≤ s) (h1 : s < N) (h : ins.op = .ID_LOCAL) : WOk N s (exec md ins orc) := by exec_wok h

set_option maxRecDepth 8000 in
theorem wok_ID_DIM_LOCAL (md : Module) (ins : Instr) (orc : Oracle) (N : Nat) (s : Int) (h0 : -1 ≤ s) (h1 : s < N) (h : ins.op = .ID_DIM_LOCAL) : WOk N s (exec md ins orc) := by exec_wok h

set_option maxRecDepth 8000 in
theorem wok_ID_DIM_SLICE (md : Module) (ins : Instr) (orc : Oracle) (N : Nat) (s : Int) (h0 : -1 ≤ s) (h1 : s < N) (h : ins.op = .ID_DIM_SLICE) : WOk N s (exec md ins orc) := by exec_wok h

set_option maxRecDepth 8000 in
theorem wok_ID_GLOBAL (md : Module) (ins : Instr) (orc : Oracle) (N : Nat) (s : Int) (h0 : -1 ≤ s) (h1 : s < N) (h : ins.op = .ID_GLOBAL) : WOk N s (exec md ins orc) := by exec_wok h

set_option maxRecDepth 8000 in
theorem wok_OP_DUP_INT (md : Module) (ins : Instr) (orc : Oracle) (N : Nat) (s : Int) (h0 : -1 ≤ s) (h1 : s < N) (h : ins.op = .OP_DUP_INT) : WOk N s (exec md ins orc) := by exec_wok h

set_option maxRecDepth 8000 in
theorem wok_COPYGLOB (md : Module) (ins : Instr) (orc : Oracle) (N : Nat) (s : Int) (h0 : -1 ≤ s) (h1 : s < N) (h : ins.op = .COPYGLOB) : WOk N s (exec md ins orc) := by exec_wok h

set_option maxRecDepth 8000 in
theorem wok_NIL_RECORD_REF (md : Module) (ins : Instr) (orc : Oracle) (N : Nat) (s : Int) (h0 : -1 ≤ s) (h1 : s < N) (h : ins.op = .NIL_RECORD_REF) : WOk N s (exec md ins orc) := by exec_wok h

set_option maxRecDepth 8000 in
theorem wok_PUSH_EXCEPT (md : Module) (ins : Instr) (orc : Oracle) (N : Nat) (s : Int) (h0 : -1 ≤ s) (h1 : s < N) (h : ins.op = .PUSH_EXCEPT) : WOk N s (exec md ins orc) := by exec_wok h

set_option maxRecDepth 8000 in
theorem wok_VEC_DEREF (md : Module) (ins : Instr) (orc : Oracle) (N : Nat) (s : Int) (h0 : -1 ≤ s) (h1 : s < N) (h : ins.op = .VEC_DEREF) : WOk N s (exec md ins orc) := by exec_wok h

set_option maxRecDepth 8000 in
theorem wok_VECREF_VEC_DEREF (md : Module) (ins : Instr) (orc : Oracle) (N : Nat) (s : Int) (h0 : -1 ≤ s) (h1 : s < N) (h : ins.op = .VECREF_VEC_DEREF) : WOk N s (exec md ins orc) := by exec_wok h

set_option maxRecDepth 8000 in
theorem wok_DUP (md : Module) (ins : Instr) (orc : Oracle) (N : Nat) (s : Int) (h0 : -1 ≤ s) (h1 : s < N) (h : ins.op = .DUP) : WOk N s (exec md ins orc) := by exec_wok h

end Never.Vm
