import NeverModel.Model.Verify
import NeverModel.Lemmas.VmEffectSound
import NeverModel.Lemmas.VmIpOpsA
import NeverModel.Lemmas.VmIpOpsB
import NeverModel.Lemmas.VmIpOpsC
set_option linter.unusedSimpArgs false
set_option linter.unusedVariables false
/-! one `step` of M-VM on an instruction of the verifier's effect table: where the machine is afterwards -/
namespace Never.Vm
open Never Never.Num Never.Ver

set_option maxHeartbeats 4000000 in
set_option maxRecDepth 8000 in
/-- every handler of the effect table except `JUMPZ` leaves `ip` alone and leaves the running state only by raising or stopping -/
theorem exec_keeps_ip (md : Module) (ins : Instr) (orc : Oracle) (p q : Nat) (h : simpleEffect ins = some (p, q))
    (hj : ins.op ≠ .JUMPZ) : KeepsIp (exec md ins orc) := by
  cases hb : binOpOf ins.op with
  | some tb =>
    obtain ⟨ty, bop⟩ := tb
    intro vm a vm' hr; cases a; rw [exec_bin md ins orc ty bop hb] at hr; exact kip_execBin ty bop vm () vm' hr
  | none =>
  cases hu : unOpOf ins.op with
  | some tu =>
    obtain ⟨ty, uop⟩ := tu
    intro vm a vm' hr; cases a; rw [exec_un md ins orc ty uop hb hu] at hr; exact kip_execUn ty uop vm () vm' hr
  | none =>
  cases hc : convOf ins.op with
  | some tc =>
    obtain ⟨src, dst⟩ := tc
    intro vm a vm' hr; cases a; rw [exec_conv md ins orc src dst hb hu hc] at hr; exact kip_execConv src dst vm () vm' hr
  | none =>
  cases hn : nilCmpOf ins.op with
  | some tn => obtain ⟨k, nl, ng⟩ := tn; exact kipop_nilCmp md ins orc k nl ng hb hu hc hn
  | none =>
  cases hs : strAddOf ins.op with
  | some ts => obtain ⟨ty, sl⟩ := ts; exact kipop_strAdd md ins orc ty sl hb hu hc hn hs
  | none =>
  cases ha : arrOpOf ins.op with
  | some ta => obtain ⟨ty, kind⟩ := ta; exact kipop_arrOp md ins orc ty kind hb hu hc hn hs ha
  | none =>
  cases hm : mkArrayElem ins.op with
  | some dflt => exact kipop_mkArray md ins orc dflt hb hu hc hn hs ha hm
  | none =>
  cases hop : ins.op
  all_goals (first
    | (rw [hop] at hb; simp [binOpOf] at hb; done) | (rw [hop] at hu; simp [unOpOf] at hu; done)
    | (rw [hop] at hc; simp [convOf] at hc; done) | (rw [hop] at hn; simp [nilCmpOf] at hn; done)
    | (rw [hop] at hs; simp [strAddOf] at hs; done) | (rw [hop] at ha; simp [arrOpOf] at ha; done)
    | (rw [hop] at hm; simp [mkArrayElem] at hm; done) | skip)
  all_goals simp only [simpleEffect, hop, binOpOf, unOpOf, convOf, nilCmpOf, strAddOf, arrOpOf, mkArrayElem, Option.isSome_none, Bool.false_eq_true, if_false] at h
  all_goals (first | (cases h; done) | skip)
  case JUMPZ => exact absurd hop hj
  all_goals first
    | exact kipop_INT md ins orc hop
    | exact kipop_LONG md ins orc hop
    | exact kipop_FLOAT md ins orc hop
    | exact kipop_DOUBLE md ins orc hop
    | exact kipop_CHAR md ins orc hop
    | exact kipop_STRING md ins orc hop
    | exact kipop_C_NULL md ins orc hop
    | exact kipop_ID_TOP md ins orc hop
    | exact kipop_ID_LOCAL md ins orc hop
    | exact kipop_ID_DIM_LOCAL md ins orc hop
    | exact kipop_ID_DIM_SLICE md ins orc hop
    | exact kipop_ID_GLOBAL md ins orc hop
    | exact kipop_OP_DUP_INT md ins orc hop
    | exact kipop_COPYGLOB md ins orc hop
    | exact kipop_NIL_RECORD_REF md ins orc hop
    | exact kipop_PUSH_EXCEPT md ins orc hop
    | exact kipop_VEC_DEREF md ins orc hop
    | exact kipop_VECREF_VEC_DEREF md ins orc hop
    | exact kipop_DUP md ins orc hop
    | exact kipop_ID_FUNC_ADDR md ins orc hop
    | exact kipop_ID_FUNC_ENTRY md ins orc hop
    | exact kipop_ENUMTYPE_RECORD_TO_INT md ins orc hop
    | exact kipop_VECREF_DEREF md ins orc hop
    | exact kipop_LABEL md ins orc hop
    | exact kipop_LINE md ins orc hop
    | exact kipop_FUNC_DEF md ins orc hop
    | exact kipop_FUNC_OBJ md ins orc hop
    | exact kipop_OP_INC_INT md ins orc hop
    | exact kipop_OP_DEC_INT md ins orc hop
    | exact kipop_OP_ADD_STRING md ins orc hop
    | exact kipop_OP_EQ_STRING md ins orc hop
    | exact kipop_OP_NEQ_STRING md ins orc hop
    | exact kipop_OP_EQ_C_PTR md ins orc hop
    | exact kipop_OP_NEQ_C_PTR md ins orc hop
    | exact kipop_OP_EQ_NIL md ins orc hop
    | exact kipop_OP_NEQ_NIL md ins orc hop
    | exact kipop_SLICE_ARRAY md ins orc hop
    | exact kipop_SLICE_RANGE md ins orc hop
    | exact kipop_SLICE_SLICE md ins orc hop
    | exact kipop_SLICE_STRING md ins orc hop
    | exact kipop_STRING_DEREF md ins orc hop
    | exact kipop_VECREF_VEC_INDEX_DEREF md ins orc hop
    | exact kipop_OP_ASS_INT md ins orc hop
    | exact kipop_OP_ASS_LONG md ins orc hop
    | exact kipop_OP_ASS_FLOAT md ins orc hop
    | exact kipop_OP_ASS_DOUBLE md ins orc hop
    | exact kipop_OP_ASS_CHAR md ins orc hop
    | exact kipop_OP_ASS_STRING md ins orc hop
    | exact kipop_OP_ASS_C_PTR md ins orc hop
    | exact kipop_OP_ASS_ARRAY md ins orc hop
    | exact kipop_OP_ASS_RECORD md ins orc hop
    | exact kipop_OP_ASS_FUNC md ins orc hop
    | exact kipop_OP_ASS_RECORD_NIL md ins orc hop
    | exact kipop_REWRITE md ins orc hop
    | exact kipop_ARRAY_APPEND md ins orc hop
    | exact kipop_MK_RANGE md ins orc hop
    | exact kipop_RECORD md ins orc hop
    | exact kipop_GLOBAL_VEC md ins orc hop
    | exact kipop_ALLOC md ins orc hop
    | exact kipop_RANGE_DEREF md ins orc hop
    | exact kipop_RECORD_UNPACK md ins orc hop
    | exact kipop_SLICE_DEREF md ins orc hop
    | exact kipop_ARRAY_DEREF md ins orc hop
    | exact kipop_ARRAYREF_DEREF md ins orc hop
    | exact kipop_BUILD_IN md ins orc hop

theorem get_run (vm : Vm) (a : Vm) (vm' : Vm) (h : (get : M Vm).run vm = .ok (a, vm')) : a = vm ∧ vm' = vm := by
  simp [get, getThe, MonadStateOf.get, StateT.get, StateT.run, pure, Except.pure] at h
  exact ⟨h.1.symm, h.2.symm⟩

theorem set_run (v0 vm : Vm) (a : PUnit) (vm' : Vm) (h : (set v0 : M PUnit).run vm = .ok (a, vm')) : vm' = v0 := by
  simp [set, StateT.set, StateT.run, pure, Except.pure] at h
  exact h.symm

/-- **One step of M-VM on an instruction of the effect table** (any except `JUMPZ`), from a running machine: the frame
registers are untouched and either the instruction completed — control is at the next address and `sp` moved by exactly
`pushes − pops` —, or it raised and control is at the handler the exception table assigns to the faulting address (running
again), or the machine stopped in VM_ERROR. -/
theorem step_table (md : Module) (orc : Oracle) (vm vm' : Vm) (ins : Instr) (p q : Nat)
    (hf : md.code[vm.ip]? = some ins) (hrun : vm.running = 1) (he : simpleEffect ins = some (p, q)) (hj : ins.op ≠ .JUMPZ)
    (h : (step md orc).run vm = .ok ((), vm')) :
    vm'.fp = vm.fp ∧ vm'.pp = vm.pp ∧ vm'.stackSize = vm.stackSize ∧
    ((vm'.running = 1 ∧ vm'.ip = vm.ip + 1 ∧ vm'.sp = vm.sp + ((q : Int) - (p : Int))) ∨
     (vm'.running = 1 ∧ excHandler md.exctab md.excCount vm.ip = some vm'.ip) ∨
     vm'.running = 3) := by
  unfold step at h
  obtain ⟨v0, s0, h0, hA⟩ := (run_bind_ok _ _ _ _ _).mp h
  obtain ⟨e0, e0'⟩ := get_run _ _ _ h0
  rw [e0, e0'] at hA
  rw [hf] at hA
  dsimp only at hA
  obtain ⟨u1, s1, h1, hB⟩ := (run_bind_ok _ _ _ _ _).mp hA
  have e1 := set_run _ _ _ _ h1
  obtain ⟨u2, s2, h2, hC⟩ := (run_bind_ok _ _ _ _ _).mp hB
  obtain ⟨f1, f2, f3, f4⟩ := simple_effect_sound md ins orc p q he s1.sp s1 u2 s2 rfl h2
  obtain ⟨k1, k2⟩ := exec_keeps_ip md ins orc p q he hj s1 u2 s2 h2
  obtain ⟨v3, s3, h3, hD⟩ := (run_bind_ok _ _ _ _ _).mp hC
  obtain ⟨e3, e3'⟩ := get_run _ _ _ h3
  rw [e3, e3'] at hD
  have hs1 : s1.sp = vm.sp ∧ s1.fp = vm.fp ∧ s1.pp = vm.pp ∧ s1.stackSize = vm.stackSize ∧ s1.ip = vm.ip + 1 ∧ s1.running = vm.running := by
    subst e1; exact ⟨rfl, rfl, rfl, rfl, rfl, rfl⟩
  obtain ⟨g1, g2, g3, g4, g5, g6⟩ := hs1
  by_cases hr2 : s2.running = 2
  · have hb : (s2.running == 2) = true := by simp [hr2]
    simp only [hb, if_true] at hD
    have hip : s2.ip - 1 = vm.ip := by omega
    rw [hip] at hD
    split at hD
    · rename_i hnd hh
      have e4 := set_run _ _ _ _ hD
      subst e4
      exact ⟨by simp; omega, by simp; omega, by simp; omega, Or.inr (Or.inl ⟨rfl, by simpa using hh⟩)⟩
    · exact absurd hD (by simp [crash, throw, throwThe, MonadExceptOf.throw, StateT.run, StateT.lift, liftM, monadLift, MonadLift.monadLift, Except.bind, bind])
  · have hb : (s2.running == 2) = false := by simp [hr2]
    simp only [hb] at hD
    obtain ⟨_, e5⟩ := (run_pure_ok _ _ _ _).mp hD
    subst e5
    refine ⟨by omega, by omega, by omega, ?_⟩
    have hk : vm'.running = 1 ∨ vm'.running = 3 := by
      unfold RunOk at k2; omega
    rcases hk with hk | hk
    · left
      refine ⟨hk, by omega, ?_⟩
      rcases f4 with f4 | f4 | f4 <;> omega
    · right; right; exact hk

theorem modify_run (f : Vm → Vm) (vm : Vm) (a : PUnit) (vm' : Vm) (h : (modify f : M PUnit).run vm = .ok (a, vm')) : vm' = f vm := by
  simp [modify, modifyGet, MonadStateOf.modifyGet, StateT.modifyGet, StateT.run, pure, Except.pure] at h
  exact h.symm

/-- a computation that reads the machine and changes nothing -/
def ReadOnly {α} (f : M α) : Prop := ∀ vm a vm', f.run vm = .ok (a, vm') → vm' = vm

theorem ReadOnly.bind {α β} {f : M α} {g : α → M β} (hf : ReadOnly f) (hg : ∀ a, ReadOnly (g a)) : ReadOnly (f >>= g) := by
  intro vm b vm'' h
  obtain ⟨a, vm', h1, h2⟩ := (run_bind_ok f g vm vm'' b).mp h
  rw [hg a vm' b vm'' h2, hf vm a vm' h1]

theorem ReadOnly.pure {α} (a : α) : ReadOnly (Pure.pure a : M α) := by
  intro vm b vm' h; exact ((run_pure_ok a vm vm' b).mp h).2

theorem ReadOnly.crash {α} (w : String) : ReadOnly (Vm.crash w : M α) := by
  intro vm a vm' h; exact absurd h (by simp [Vm.crash, throw, throwThe, MonadExceptOf.throw, StateT.run, StateT.lift, liftM, monadLift, MonadLift.monadLift, Except.bind, Bind.bind])

theorem ReadOnly.get : ReadOnly (get : M Vm) := by
  intro vm a vm' h; exact (get_run _ _ _ h).2

theorem readOnly_rdSlot (i : Int) : ReadOnly (rdSlot i) := by
  unfold rdSlot
  refine ReadOnly.bind ReadOnly.get (fun vm => ?_)
  split
  · exact ReadOnly.crash _
  · exact ReadOnly.pure _

theorem readOnly_rdAddr (i : Int) : ReadOnly (rdAddr i) := by
  unfold rdAddr; exact ReadOnly.bind (readOnly_rdSlot i) (fun _ => ReadOnly.pure _)

theorem readOnly_objOf (a : Nat) : ReadOnly (objOf a) := by
  unfold objOf
  refine ReadOnly.bind ReadOnly.get (fun vm => ?_)
  split
  · exact ReadOnly.crash _
  · split
    · exact ReadOnly.pure _
    · exact ReadOnly.crash _

theorem readOnly_getInt (a : Nat) : ReadOnly (getInt a) := by
  unfold getInt
  refine ReadOnly.bind (readOnly_objOf a) (fun o => ?_)
  split
  · exact ReadOnly.pure _
  · exact ReadOnly.crash _

/-- the handler of `JUMPZ`: pops the condition; `ip` stays or moves by the operand; nothing else moves -/
theorem exec_jumpz (md : Module) (ins : Instr) (orc : Oracle) (hop : ins.op = .JUMPZ) (vm vm' : Vm)
    (h : (exec md ins orc).run vm = .ok ((), vm')) :
    vm'.fp = vm.fp ∧ vm'.pp = vm.pp ∧ vm'.stackSize = vm.stackSize ∧ vm'.running = vm.running ∧ vm'.sp = vm.sp - 1 ∧
    (vm'.ip = vm.ip ∨ vm'.ip = ((vm.ip : Int) + i32 ins.w0).toNat) := by
  unfold exec at h
  simp only [hop, binOpOf, unOpOf, convOf, nilCmpOf, strAddOf, arrOpOf, mkArrayElem] at h
  obtain ⟨sp, s0, h0, hA⟩ := (run_bind_ok _ _ _ _ _).mp h
  obtain ⟨e0, e0'⟩ := getSp_run _ _ _ h0
  rw [e0, e0'] at hA
  obtain ⟨a1, s1, h1, hB⟩ := (run_bind_ok _ _ _ _ _).mp hA
  have e1 := readOnly_rdAddr _ _ _ _ h1
  rw [e1] at hB
  obtain ⟨c, s2, h2, hC⟩ := (run_bind_ok _ _ _ _ _).mp hB
  have e2 := readOnly_getInt _ _ _ _ h2
  rw [e2] at hC
  by_cases hc : c = 0
  · simp only [hc, beq_self_eq_true, if_true] at hC
    obtain ⟨u, s3, h3, hD⟩ := (run_bind_ok _ _ _ _ _).mp hC
    have e3 := modify_run _ _ _ _ h3
    have e4 := modify_run _ _ _ _ hD
    subst e4 e3
    exact ⟨rfl, rfl, rfl, rfl, rfl, Or.inr rfl⟩
  · have hcf : (c == 0) = false := by simpa using hc
    simp only [hcf] at hC
    have e4 := modify_run _ _ _ _ hC
    subst e4
    exact ⟨rfl, rfl, rfl, rfl, rfl, Or.inl rfl⟩

/-- the handler of `JUMP`: only `ip` moves -/
theorem exec_jump (md : Module) (ins : Instr) (orc : Oracle) (hop : ins.op = .JUMP) (vm vm' : Vm)
    (h : (exec md ins orc).run vm = .ok ((), vm')) :
    vm'.fp = vm.fp ∧ vm'.pp = vm.pp ∧ vm'.stackSize = vm.stackSize ∧ vm'.running = vm.running ∧ vm'.sp = vm.sp ∧
    vm'.ip = ((vm.ip : Int) + i32 ins.w0).toNat := by
  unfold exec at h
  simp only [hop, binOpOf, unOpOf, convOf, nilCmpOf, strAddOf, arrOpOf, mkArrayElem] at h
  obtain ⟨sp, s0, h0, hA⟩ := (run_bind_ok _ _ _ _ _).mp h
  obtain ⟨e0, e0'⟩ := getSp_run _ _ _ h0
  rw [e0'] at hA
  have e4 := modify_run _ _ _ _ hA
  subst e4
  exact ⟨rfl, rfl, rfl, rfl, rfl, rfl⟩

/-- one `step` on a `JUMPZ` / `JUMP`: running on, `sp` popped by one / unchanged, control at `a + 1` or at the target -/
theorem step_branch (md : Module) (orc : Oracle) (vm vm' : Vm) (ins : Instr)
    (hf : md.code[vm.ip]? = some ins) (hrun : vm.running = 1) (hop : ins.op = .JUMPZ ∨ ins.op = .JUMP)
    (h : (step md orc).run vm = .ok ((), vm')) :
    vm'.fp = vm.fp ∧ vm'.pp = vm.pp ∧ vm'.stackSize = vm.stackSize ∧ vm'.running = 1 ∧
    ((ins.op = .JUMPZ ∧ vm'.sp = vm.sp - 1 ∧ (vm'.ip = vm.ip + 1 ∨ vm'.ip = ((vm.ip : Int) + 1 + i32 ins.w0).toNat)) ∨
     (ins.op = .JUMP ∧ vm'.sp = vm.sp ∧ vm'.ip = ((vm.ip : Int) + 1 + i32 ins.w0).toNat)) := by
  unfold step at h
  obtain ⟨v0, s0, h0, hA⟩ := (run_bind_ok _ _ _ _ _).mp h
  obtain ⟨e0, e0'⟩ := get_run _ _ _ h0
  rw [e0, e0'] at hA
  rw [hf] at hA
  dsimp only at hA
  obtain ⟨u1, s1, h1, hB⟩ := (run_bind_ok _ _ _ _ _).mp hA
  have e1 := set_run _ _ _ _ h1
  obtain ⟨u2, s2, h2, hC⟩ := (run_bind_ok _ _ _ _ _).mp hB
  obtain ⟨v3, s3, h3, hD⟩ := (run_bind_ok _ _ _ _ _).mp hC
  obtain ⟨e3, e3'⟩ := get_run _ _ _ h3
  rw [e3, e3'] at hD
  have hs1 : s1.sp = vm.sp ∧ s1.fp = vm.fp ∧ s1.pp = vm.pp ∧ s1.stackSize = vm.stackSize ∧ s1.ip = vm.ip + 1 ∧ s1.running = vm.running := by
    subst e1; exact ⟨rfl, rfl, rfl, rfl, rfl, rfl⟩
  obtain ⟨g1, g2, g3, g4, g5, g6⟩ := hs1
  rcases hop with hop | hop
  · obtain ⟨a1, a2, a3, a4, a5, a6⟩ := exec_jumpz md ins orc hop s1 s2 (by cases u2; exact h2)
    have hb : (s2.running == 2) = false := by simp; omega
    simp only [hb] at hD
    obtain ⟨_, e5⟩ := (run_pure_ok _ _ _ _).mp hD
    subst e5
    refine ⟨by omega, by omega, by omega, by omega, Or.inl ⟨hop, by omega, ?_⟩⟩
    rcases a6 with a6 | a6
    · left; omega
    · right; rw [a6, g5]; simp only [Int.natCast_add, Int.cast_ofNat_Int]
  · obtain ⟨a1, a2, a3, a4, a5, a6⟩ := exec_jump md ins orc hop s1 s2 (by cases u2; exact h2)
    have hb : (s2.running == 2) = false := by simp; omega
    simp only [hb] at hD
    obtain ⟨_, e5⟩ := (run_pure_ok _ _ _ _).mp hD
    subst e5
    refine ⟨by omega, by omega, by omega, by omega, Or.inr ⟨hop, by omega, ?_⟩⟩
    rw [a6, g5]; simp only [Int.natCast_add, Int.cast_ofNat_Int]

end Never.Vm
