import NeverModel.Model.OwnSem
/-! Agreement of two table-driven walks of a heap whose edge tables agree, at every node, on the non-NULL slots. -/
namespace Never.OwnSem

theorem Agree.refl : ∀ o, Agree o o
  | none => trivial
  | some _ => List.Perm.refl _

theorem Agree.symm : ∀ {o₁ o₂}, Agree o₁ o₂ → Agree o₂ o₁
  | none, none, _ => trivial
  | some _, some _, h => List.Perm.symm h
  | none, some _, h => h.elim
  | some _, none, h => h.elim

theorem Agree.trans : ∀ {o₁ o₂ o₃}, Agree o₁ o₂ → Agree o₂ o₃ → Agree o₁ o₃
  | none, none, none, _, _ => trivial
  | some _, some _, some _, h₁, h₂ => List.Perm.trans h₁ h₂
  | none, none, some _, _, h => h.elim
  | none, some _, _, h, _ => h.elim
  | some _, none, _, h, _ => h.elim
  | some _, some _, none, _, h => h.elim

/-- combining a child's result with the rest of the children -/
def comb (r k : Option (List Nat)) : Option (List Nat) :=
  match r, k with
  | some x, some y => some (x ++ y)
  | _, _ => none

theorem comb_agree : ∀ {r₁ r₂ k₁ k₂}, Agree r₁ r₂ → Agree k₁ k₂ → Agree (comb r₁ k₁) (comb r₂ k₂)
  | none, none, _, _, _, _ => by simp [comb, Agree]
  | some _, some _, none, none, _, _ => by simp [comb, Agree]
  | some _, some _, some _, some _, h₁, h₂ => by simpa [comb, Agree] using List.Perm.append h₁ h₂
  | none, some _, _, _, h, _ => h.elim
  | some _, none, _, _, h, _ => h.elim
  | some _, some _, none, some _, _, h => h.elim
  | some _, some _, some _, none, _, h => h.elim

theorem comb_swap : ∀ (a b k : Option (List Nat)), Agree (comb a (comb b k)) (comb b (comb a k))
  | none, none, _ => by simp [comb, Agree]
  | none, some _, none => by simp [comb, Agree]
  | none, some _, some _ => by simp [comb, Agree]
  | some _, none, none => by simp [comb, Agree]
  | some _, none, some _ => by simp [comb, Agree]
  | some _, some _, none => by simp [comb, Agree]
  | some x, some y, some z => by
    simp only [comb, Agree]
    rw [← List.append_assoc, ← List.append_assoc]
    exact List.Perm.append_right z List.perm_append_comm

variable (w : Nat → Nat → Option (List Nat)) (wc : Nat → Nat → Nat → Option (List Nat)) (n : Node)

/-- the result of the edge `e` at node `n` (`some []` for a NULL slot) -/
def edgeRes (e : Edge) : Option (List Nat) :=
  match n.slot e.off with
  | none => some []
  | some c => if e.link = 0 then w e.ty c else wc e.ty (e.link - 1) c

theorem kids_cons (e : Edge) (es : List Edge) :
    kids w wc n (e :: es) = comb (edgeRes w wc n e) (kids w wc n es) := by
  simp only [kids, edgeRes]
  cases hs : n.slot e.off with
  | none => cases kids w wc n es <;> simp [comb]
  | some c => rfl

/-- one system: the order of the edges does not matter -/
theorem kids_perm {es₁ es₂ : List Edge} (hp : es₁.Perm es₂) : Agree (kids w wc n es₁) (kids w wc n es₂) := by
  induction hp with
  | nil => exact Agree.refl _
  | cons e _ ih => rw [kids_cons, kids_cons]; exact comb_agree (Agree.refl _) ih
  | swap x y l => rw [kids_cons, kids_cons, kids_cons, kids_cons]; exact comb_swap _ _ _
  | trans _ _ ih₁ ih₂ => exact Agree.trans ih₁ ih₂

/-- edges whose slot is NULL at this node do not matter -/
theorem kids_filter (p : Edge → Bool) : ∀ (es : List Edge),
    (∀ e ∈ es, p e = false → n.slot e.off = none) → kids w wc n es = kids w wc n (es.filter p)
  | [], _ => rfl
  | e :: es, h => by
    have ih := kids_filter p es (fun e' he' => h e' (List.mem_cons_of_mem _ he'))
    cases hp : p e with
    | true => rw [List.filter_cons_of_pos (by simpa using hp), kids_cons, kids_cons, ih]
    | false =>
      rw [List.filter_cons_of_neg (by simp [hp]), ← ih]
      have hn := h e (List.mem_cons_self) hp
      simp only [kids, hn]

variable {w} {wc}
/-- two systems, the same edges: children that agree give kids that agree -/
theorem kids_congr {w' : Nat → Nat → Option (List Nat)} {wc' : Nat → Nat → Nat → Option (List Nat)}
    (hw : ∀ τ a, Agree (w τ a) (w' τ a)) (hwc : ∀ τ nx c, Agree (wc τ nx c) (wc' τ nx c)) :
    ∀ es : List Edge, Agree (kids w wc n es) (kids w' wc' n es)
  | [] => Agree.refl _
  | e :: es => by
    rw [kids_cons, kids_cons]
    refine comb_agree ?_ (kids_congr hw hwc es)
    simp only [edgeRes]
    cases n.slot e.off with
    | none => exact Agree.refl _
    | some c =>
      by_cases hl : e.link = 0
      · simp only [hl, if_true]; exact hw _ _
      · simp only [hl, if_false]; exact hwc _ _ _

theorem map_agree {o₁ o₂ : Option (List Nat)} (a : Nat) (h : Agree o₁ o₂) :
    Agree (o₁.map (· ++ [a])) (o₂.map (· ++ [a])) := by
  cases o₁ <;> cases o₂ <;> simp_all [Agree]
  exact List.Perm.append_right _ h

/-- **two edge tables that agree, at every node of the heap, on the edges whose slot is not NULL (up to order) give walks
that agree (up to order)**, for every fuel, every start -/
theorem walkP_agree (E₁ E₂ : Edges) (h : Heap)
    (hm : ∀ a n, h a = some n → ∃ p : Edge → Bool,
      (∀ e ∈ E₁ n.ty n.tag, p e = false → n.slot e.off = none) ∧ ((E₁ n.ty n.tag).filter p).Perm (E₂ n.ty n.tag)) :
    ∀ fuel, (∀ τ a, Agree ((walkP E₁ h fuel).1 τ a) ((walkP E₂ h fuel).1 τ a)) ∧
            (∀ τ nx c, Agree ((walkP E₁ h fuel).2 τ nx c) ((walkP E₂ h fuel).2 τ nx c))
  | 0 => ⟨fun _ _ => trivial, fun _ _ _ => trivial⟩
  | f + 1 => by
    obtain ⟨ihw, ihc⟩ := walkP_agree E₁ E₂ h hm f
    have hw : ∀ τ a, Agree ((walkP E₁ h (f + 1)).1 τ a) ((walkP E₂ h (f + 1)).1 τ a) := by
      intro τ a
      simp only [walkP]
      cases hn : h a with
      | none => trivial
      | some n =>
        by_cases ht : n.ty = τ
        · simp only [ht, if_true]
          obtain ⟨p, hnull, hperm⟩ := hm a n hn
          apply map_agree
          rw [ht] at hnull hperm
          rw [kids_filter _ _ n p _ hnull]
          exact Agree.trans (kids_perm _ _ n hperm) (kids_congr n ihw ihc _)
        · simp only [ht, if_false]; trivial
    refine ⟨hw, fun τ nx c => ?_⟩
    simp only [walkP]
    cases hn : h c with
    | none => trivial
    | some n =>
      have h1 := ihw τ c
      have h2 : Agree (match n.slot nx with | none => some [] | some c' => (walkP E₁ h f).2 τ nx c')
                      (match n.slot nx with | none => some [] | some c' => (walkP E₂ h f).2 τ nx c') := by
        cases n.slot nx with
        | none => exact Agree.refl _
        | some c' => exact ihc τ nx c'
      exact comb_agree h1 h2

end Never.OwnSem
