import NeverModel.Model.Check
set_option linter.unusedSimpArgs false
set_option linter.unusedVariables false
/-!
# Contexts for M-Src `check` and the propagation lemmas

A `Frame` is a one-level context `Expr → Expr` (one per child position that `tc` traverses);
`Frame.env Γ` replays exactly what `tc` does before it reaches the hole and returns the symbol
table in force there.  Two lemmas per frame:
* `Frame.plug_error`  : an error found in the hole is the error of the whole;
* `Frame.plug_prefix` : an error found before the hole is the error of the whole.
-/
namespace Never.Tc

@[simp] theorem bind_ok {ε α β} (a : α) (f : α → Except ε β) : (Except.ok a >>= f) = f a := rfl
@[simp] theorem bind_err {ε α β} (d : ε) (f : α → Except ε β) :
    ((Except.error d : Except ε α) >>= f) = Except.error d := rfl
@[simp] theorem pure_eq_ok {ε α} (a : α) : (pure a : Except ε α) = Except.ok a := rfl

/-! ## appends on the AST's own list types -/

def ExprList.app : ExprList → ExprList → ExprList
  | .nil, r => r
  | .cons e t, r => .cons e (t.app r)
def SeqList.app : SeqList → SeqList → SeqList
  | .nil, r => r
  | .cons e t, r => .cons e (t.app r)
def GuardList.app : GuardList → GuardList → GuardList
  | .nil, r => r
  | .cons e t, r => .cons e (t.app r)
def QualList.app : QualList → QualList → QualList
  | .nil, r => r
  | .cons e t, r => .cons e (t.app r)
def FuncList.app : FuncList → FuncList → FuncList
  | .nil, r => r
  | .cons e t, r => .cons e (t.app r)
def ExcList.app : ExcList → ExcList → ExcList
  | .nil, r => r
  | .cons e t, r => .cons e (t.app r)

/-! ## list lemmas (errors only) -/

theorem tcArgs_app_prefix (Γ : Env) : (pre rest : ExprList) → (d : Diag) →
    tcArgs Γ pre = .error d → tcArgs Γ (pre.app rest) = .error d
  | .nil, _, _, h => by simp [tcArgs] at h
  | .cons e t, rest, d, h => by
    have ih := tcArgs_app_prefix Γ t rest
    simp only [ExprList.app, tcArgs] at *
    cases he : tc Γ e with
    | error d' => simp [he] at h ⊢; exact h
    | ok c =>
      simp [he] at h ⊢
      cases ht : tcArgs Γ t with
      | error d' => simp [ht] at h; subst h; simp [ih d' ht]
      | ok cs => simp [ht] at h

theorem tcArgs_app_error (Γ : Env) (e : Expr) (post : ExprList) (d : Diag) (he : tc Γ e = .error d) :
    (pre : ExprList) → (cs : List (Ln × Comb)) → tcArgs Γ pre = .ok cs →
    tcArgs Γ (pre.app (.cons e post)) = .error d
  | .nil, _, _ => by simp [ExprList.app, tcArgs, he]
  | .cons e' t, cs, hp => by
    have ih := tcArgs_app_error Γ e post d he t
    simp only [ExprList.app, tcArgs] at *
    cases he' : tc Γ e' with
    | error d' => simp [he'] at hp
    | ok c =>
      simp [he'] at hp ⊢
      cases ht : tcArgs Γ t with
      | error d' => simp [ht] at hp
      | ok cs' => simp [ih cs' ht]

/-! ## rows of an array literal -/

theorem sub_or_not (e : Expr) : (∃ es, e = .sub es) ∨ (∀ es, e = .sub es → False) := by
  cases e <;> simp

theorem tcRows_cons_sub (Γ : Env) (es r : ExprList) :
    tcRows Γ (.cons (.sub es) r) = tcRows Γ es >>= fun lv => tcRows Γ r >>= fun lr =>
      pure (zipLevels ([Item.sub es.length] :: lv) lr) := by
  rw [tcRows.eq_2]
  cases tcRows Γ es <;> simp

theorem tcRows_cons_leaf (Γ : Env) (e : Expr) (r : ExprList) (hne : ∀ es, e = .sub es → False) :
    tcRows Γ (.cons e r) = tc Γ e >>= fun c => tcRows Γ r >>= fun lr =>
      pure (zipLevels [[Item.leaf e.ln c]] lr) := by
  rw [tcRows.eq_3 _ _ _ hne]
  cases tc Γ e <;> simp

theorem tc_sub (Γ : Env) (es : ExprList) :
    tc Γ (.sub es) = tcRows Γ es >>= fun _ => pure ⟨.val .int, .temp⟩ := by
  simp only [tc]

theorem tcRows_head_error (Γ : Env) (e : Expr) (post : ExprList) (d : Diag) (he : tc Γ e = .error d) :
    tcRows Γ (.cons e post) = .error d := by
  rcases sub_or_not e with ⟨es, rfl⟩ | hne
  · rw [tc_sub] at he
    rw [tcRows_cons_sub]
    cases hr : tcRows Γ es with
    | error d' => simp [hr] at he ⊢; exact he
    | ok lv => simp [hr] at he
  · rw [tcRows_cons_leaf _ _ _ hne]; simp [he]

theorem tcRows_app_prefix (Γ : Env) : (pre rest : ExprList) → (d : Diag) →
    tcRows Γ pre = .error d → tcRows Γ (pre.app rest) = .error d
  | .nil, _, _, h => by simp [tcRows] at h
  | .cons e t, rest, d, h => by
    have ih := tcRows_app_prefix Γ t rest
    simp only [ExprList.app] at *
    rcases sub_or_not e with ⟨es, rfl⟩ | hne
    · rw [tcRows_cons_sub] at h ⊢
      cases he : tcRows Γ es with
      | error d' => simp [he] at h ⊢; exact h
      | ok lv =>
        simp [he] at h ⊢
        cases ht : tcRows Γ t with
        | error d' => simp [ht] at h; subst h; simp [ih d' ht]
        | ok cs => simp [ht] at h
    · rw [tcRows_cons_leaf _ _ _ hne] at h ⊢
      cases he : tc Γ e with
      | error d' => simp [he] at h ⊢; exact h
      | ok c =>
        simp [he] at h ⊢
        cases ht : tcRows Γ t with
        | error d' => simp [ht] at h; subst h; simp [ih d' ht]
        | ok cs => simp [ht] at h

theorem tcRows_app_error (Γ : Env) (e : Expr) (post : ExprList) (d : Diag) (he : tc Γ e = .error d) :
    (pre : ExprList) → (lv : Levels) → tcRows Γ pre = .ok lv →
    tcRows Γ (pre.app (.cons e post)) = .error d
  | .nil, _, _ => by simpa [ExprList.app] using tcRows_head_error Γ e post d he
  | .cons e' t, lv, hp => by
    have ih := tcRows_app_error Γ e post d he t
    simp only [ExprList.app] at *
    rcases sub_or_not e' with ⟨es, rfl⟩ | hne
    · rw [tcRows_cons_sub] at hp ⊢
      cases he' : tcRows Γ es with
      | error d' => simp [he'] at hp
      | ok lv' =>
        simp [he'] at hp ⊢
        cases ht : tcRows Γ t with
        | error d' => simp [ht] at hp
        | ok cs' => simp [ih cs' ht]
    · rw [tcRows_cons_leaf _ _ _ hne] at hp ⊢
      cases he' : tc Γ e' with
      | error d' => simp [he'] at hp
      | ok c =>
        simp [he'] at hp ⊢
        cases ht : tcRows Γ t with
        | error d' => simp [ht] at hp
        | ok cs' => simp [ih cs' ht]

/-! ## bounds of a range / slice -/

/-- `f1 .. t1, f2 .. t2, …` in front of `rest` -/
def flatPairs : List (Expr × Expr) → ExprList → ExprList
  | [], r => r
  | (f, t) :: ps, r => .cons f (.cons t (flatPairs ps r))

theorem tcBounds_from_error (Γ : Env) (x t : Expr) (post : ExprList) (d : Diag) (he : tc Γ x = .error d) :
    tcBounds Γ (.cons x (.cons t post)) = .error d := by
  simp [tcBounds, he]

theorem tcBounds_to_error (Γ : Env) (f x : Expr) (post : ExprList) (cf : Comb) (d : Diag)
    (hf : tc Γ f = .ok cf) (he : tc Γ x = .error d) :
    tcBounds Γ (.cons f (.cons x post)) = .error d := by
  simp [tcBounds, hf, he]

theorem tcBounds_to_prefix (Γ : Env) (f x : Expr) (post : ExprList) (d : Diag)
    (hf : tc Γ f = .error d) : tcBounds Γ (.cons f (.cons x post)) = .error d := by
  simp [tcBounds, hf]

theorem tcBounds_flat_prefix (Γ : Env) (rest : ExprList) : (ps : List (Expr × Expr)) → (d : Diag) →
    tcBounds Γ (flatPairs ps .nil) = .error d → tcBounds Γ (flatPairs ps rest) = .error d
  | [], d, h => by simp [flatPairs, tcBounds] at h
  | (f, t) :: ps, d, h => by
    have ih := tcBounds_flat_prefix Γ rest ps
    simp only [flatPairs, tcBounds] at h ⊢
    cases hf : tc Γ f with
    | error d' => simp [hf] at h ⊢; exact h
    | ok cf =>
      cases ht : tc Γ t with
      | error d' => simp [hf, ht] at h ⊢; exact h
      | ok ct =>
        simp only [hf, ht, bind_ok] at h ⊢
        by_cases h1 : boundOk cf.ct = true
        · by_cases h2 : boundOk ct.ct = true
          · simp only [h1, h2, ↓reduceIte] at h ⊢
            cases hr : tcBounds Γ (flatPairs ps .nil) with
            | error d' => simp [hr] at h; subst h; simp [ih d' hr]
            | ok n => simp [hr] at h
          · simp only [h1, h2, ↓reduceIte] at h ⊢; exact h
        · simp only [h1, ↓reduceIte] at h ⊢; exact h

theorem tcBounds_flat_error (Γ : Env) (rest : ExprList) (d : Diag) (hr : tcBounds Γ rest = .error d) :
    (ps : List (Expr × Expr)) → (n : Nat) → tcBounds Γ (flatPairs ps .nil) = .ok n →
    tcBounds Γ (flatPairs ps rest) = .error d
  | [], _, _ => by simpa [flatPairs] using hr
  | (f, t) :: ps, n, h => by
    have ih := tcBounds_flat_error Γ rest d hr ps
    simp only [flatPairs, tcBounds] at h ⊢
    cases hf : tc Γ f with
    | error d' => simp [hf] at h
    | ok cf =>
      cases ht : tc Γ t with
      | error d' => simp [hf, ht] at h
      | ok ct =>
        simp only [hf, ht, bind_ok] at h ⊢
        by_cases h1 : boundOk cf.ct = true
        · by_cases h2 : boundOk ct.ct = true
          · simp only [h1, h2, ↓reduceIte] at h ⊢
            cases hr' : tcBounds Γ (flatPairs ps .nil) with
            | error d' => simp [hr'] at h
            | ok m => simp [ih m hr']
          · simp [h1, h2] at h
        · simp [h1] at h

/-! ## sequences -/

/-- table after the items `pre` of a block (what `tcSeq` does to them) -/
def seqEnv (Γ : Env) : SeqList → Except Diag Env
  | .nil => .ok Γ
  | .cons (.bind ln v x e) rest => do
    let c ← tc Γ e
    if varOfConst v c then .error ⟨ln, .varFromConst⟩ else do
      let Γ' ← Γ.add ln x (.bind v c.ct)
      seqEnv Γ' rest
  | .cons (.funcs fs) rest => do
    let (Γ', ss) ← declFuncs Γ fs
    tcBodies Γ' fs ss
    seqEnv Γ' rest
  | .cons (.expr e) rest => do
    let _ ← tc Γ e
    seqEnv Γ rest

theorem tcSeq_app_error : (pre : SeqList) → (Γ Γ' : Env) → (rest : SeqList) → (d : Diag) →
    seqEnv Γ pre = .ok Γ' → tcSeq Γ' rest = .error d → tcSeq Γ (pre.app rest) = .error d
  | .nil, Γ, Γ', rest, d, h, hr => by
    simp [seqEnv] at h; subst h; simpa [SeqList.app] using hr
  | .cons (.bind ln v x e) t, Γ, Γ', rest, d, h, hr => by
    have ih := tcSeq_app_error t
    simp only [SeqList.app, tcSeq, seqEnv] at *
    cases he : tc Γ e with
    | error d' => simp [he] at h
    | ok c =>
      simp [he] at h ⊢
      by_cases hv : varOfConst v c = true
      · simp [hv] at h
      · simp [hv] at h ⊢
        cases ha : Γ.add ln x (.bind v c.ct) with
        | error d' => simp [ha] at h
        | ok Γ1 => simp [ha] at h ⊢; exact ih Γ1 Γ' rest d h hr
  | .cons (.funcs fs) t, Γ, Γ', rest, d, h, hr => by
    have ih := tcSeq_app_error t
    simp only [SeqList.app, tcSeq, seqEnv] at *
    cases hd : declFuncs Γ fs with
    | error d' => simp [hd] at h
    | ok p =>
      obtain ⟨Γ1, ss⟩ := p
      simp [hd] at h ⊢
      cases hb : tcBodies Γ1 fs ss with
      | error d' => simp [hb] at h
      | ok u => simp [hb] at h ⊢; exact ih Γ1 Γ' rest d h hr
  | .cons (.expr e) t, Γ, Γ', rest, d, h, hr => by
    have ih := tcSeq_app_error t
    simp only [SeqList.app, tcSeq, seqEnv] at *
    cases he : tc Γ e with
    | error d' => simp [he] at h
    | ok c => simp [he] at h ⊢; simp [ih Γ Γ' rest d h hr]

theorem tcSeq_app_prefix : (pre : SeqList) → (Γ : Env) → (rest : SeqList) → (d : Diag) →
    seqEnv Γ pre = .error d → tcSeq Γ (pre.app rest) = .error d
  | .nil, Γ, rest, d, h => by simp [seqEnv] at h
  | .cons (.bind ln v x e) t, Γ, rest, d, h => by
    have ih := tcSeq_app_prefix t
    simp only [SeqList.app, tcSeq, seqEnv] at *
    cases he : tc Γ e with
    | error d' => simp [he] at h ⊢; exact h
    | ok c =>
      simp [he] at h ⊢
      by_cases hv : varOfConst v c = true
      · simp [hv] at h ⊢; exact h
      · simp [hv] at h ⊢
        cases ha : Γ.add ln x (.bind v c.ct) with
        | error d' => simp [ha] at h ⊢; exact h
        | ok Γ1 => simp [ha] at h ⊢; exact ih Γ1 rest d h
  | .cons (.funcs fs) t, Γ, rest, d, h => by
    have ih := tcSeq_app_prefix t
    simp only [SeqList.app, tcSeq, seqEnv] at *
    cases hd : declFuncs Γ fs with
    | error d' => simp [hd] at h ⊢; exact h
    | ok p =>
      obtain ⟨Γ1, ss⟩ := p
      simp [hd] at h ⊢
      cases hb : tcBodies Γ1 fs ss with
      | error d' => simp [hb] at h ⊢; exact h
      | ok u => simp [hb] at h ⊢; exact ih Γ1 rest d h
  | .cons (.expr e) t, Γ, rest, d, h => by
    have ih := tcSeq_app_prefix t
    simp only [SeqList.app, tcSeq, seqEnv] at *
    cases he : tc Γ e with
    | error d' => simp [he] at h ⊢; exact h
    | ok c => simp [he] at h ⊢; simp [ih Γ rest d h]

/-! ## match guards -/

inductive GuardK
  | item (ln : Ln) (en it : String)
  | else_ (ln : Ln)

def GuardK.mk : GuardK → Expr → Guard
  | .item ln en it, e => .item ln en it e
  | .else_ ln, e => .else_ ln e

/-- the guard's own resolution, done before its arm is checked -/
def GuardK.pre (Γ : Env) : GuardK → Except Diag Unit
  | .item ln en it =>
    match Γ.lookup en with
    | none => .error ⟨ln, .matchGuardEnum⟩
    | some .enum => if Γ.hasItem en it then .ok () else .error ⟨ln, .matchGuardItem⟩
    | some _ => .error ⟨ln, .matchGuardNotEnum⟩
  | .else_ _ => .ok ()

theorem GuardK.pre_item_ok (Γ : Env) (ln : Ln) (en it : String)
    (hk : (GuardK.item ln en it).pre Γ = .ok ()) : Γ.lookup en = some .enum ∧ Γ.hasItem en it = true := by
  simp only [GuardK.pre] at hk
  cases hl : Γ.lookup en with
  | none => simp [hl] at hk
  | some ent =>
    cases ent <;> simp [hl] at hk
    by_cases hc : Γ.hasItem en it = true
    · exact ⟨rfl, hc⟩
    · simp [hc] at hk

theorem tcGuards_head_error (Γ : Env) (k : GuardK) (e : Expr) (post : GuardList) (d : Diag)
    (hk : k.pre Γ = .ok ()) (he : tc Γ e = .error d) :
    tcGuards Γ (.cons (k.mk e) post) = .error d := by
  cases k with
  | item ln en it =>
    obtain ⟨hl, hc⟩ := GuardK.pre_item_ok Γ ln en it hk
    simp [GuardK.mk, tcGuards, hl, hc, he]
  | else_ ln => simp [GuardK.mk, tcGuards, he]

theorem tcGuards_head_prefix (Γ : Env) (k : GuardK) (e : Expr) (post : GuardList) (d : Diag)
    (hk : k.pre Γ = .error d) : tcGuards Γ (.cons (k.mk e) post) = .error d := by
  cases k with
  | item ln en it =>
    simp only [GuardK.pre] at hk
    simp only [GuardK.mk, tcGuards]
    cases hl : Γ.lookup en with
    | none => simpa [hl] using hk
    | some ent =>
      cases ent
      case enum =>
        by_cases hc : Γ.hasItem en it = true
        · simp [hl, hc] at hk
        · simpa [hl, hc] using hk
      all_goals simpa [hl] using hk
  | else_ ln => simp [GuardK.pre] at hk

/-- what `tcGuards` does with a record guard before it goes on: resolve, count the binds, open
the block of the binds, check the arm -/
def recdHead (Γ : Env) (ln : Ln) (en it : String) (binds : List (Ln × String)) (e : Expr) : Except Diag Comb := do
  guardItemPre Γ ln en it
  guardBindsOk Γ ln en it binds
  let Γb ← bindsEnv Γ en it binds
  tc Γb e

theorem tcGuards_recd (Γ : Env) (ln : Ln) (en it : String) (binds : List (Ln × String)) (e : Expr)
    (t : GuardList) :
    tcGuards Γ (.cons (.recd ln en it binds e) t) =
      recdHead Γ ln en it binds e >>= fun c => tcGuards Γ t >>= fun cs => pure (c :: cs) := by
  simp only [tcGuards, recdHead]
  cases guardItemPre Γ ln en it <;> simp

theorem tcGuards_app_error (Γ : Env) (rest : GuardList) (d : Diag) (hr : tcGuards Γ rest = .error d) :
    (pre : GuardList) → (cs : List Comb) → tcGuards Γ pre = .ok cs →
    tcGuards Γ (pre.app rest) = .error d
  | .nil, _, _ => by simpa [GuardList.app] using hr
  | .cons (.item ln en it e) t, cs, hp => by
    have ih := tcGuards_app_error Γ rest d hr t
    simp only [GuardList.app, tcGuards] at *
    cases hl : Γ.lookup en with
    | none => simp [hl] at hp
    | some ent =>
      cases ent
      case enum =>
        by_cases hc : Γ.hasItem en it = true
        · simp only [hl, hc] at hp ⊢
          cases he : tc Γ e with
          | error d' => simp [he] at hp
          | ok c =>
            simp [he] at hp ⊢
            cases ht : tcGuards Γ t with
            | error d' => simp [ht] at hp
            | ok cs' => simp [ih cs' ht]
        · simp [hl, hc] at hp
      all_goals simp [hl] at hp
  | .cons (.recd ln en it binds e) t, cs, hp => by
    have ih := tcGuards_app_error Γ rest d hr t
    simp only [GuardList.app] at *
    rw [tcGuards_recd] at hp ⊢
    cases he : recdHead Γ ln en it binds e with
    | error d' => simp [he] at hp
    | ok c =>
      simp [he] at hp ⊢
      cases ht : tcGuards Γ t with
      | error d' => simp [ht] at hp
      | ok cs' => simp [ih cs' ht]
  | .cons (.else_ ln e) t, cs, hp => by
    have ih := tcGuards_app_error Γ rest d hr t
    simp only [GuardList.app, tcGuards] at *
    cases he : tc Γ e with
    | error d' => simp [he] at hp
    | ok c =>
      simp [he] at hp ⊢
      cases ht : tcGuards Γ t with
      | error d' => simp [ht] at hp
      | ok cs' => simp [ih cs' ht]

theorem tcGuards_app_prefix (Γ : Env) (rest : GuardList) :
    (pre : GuardList) → (d : Diag) → tcGuards Γ pre = .error d →
    tcGuards Γ (pre.app rest) = .error d
  | .nil, _, h => by simp [tcGuards] at h
  | .cons (.item ln en it e) t, d, hp => by
    have ih := tcGuards_app_prefix Γ rest t
    simp only [GuardList.app, tcGuards] at *
    cases hl : Γ.lookup en with
    | none => simpa [hl] using hp
    | some ent =>
      cases ent
      case enum =>
        by_cases hc : Γ.hasItem en it = true
        · simp only [hl, hc] at hp ⊢
          cases he : tc Γ e with
          | error d' => simpa [he] using hp
          | ok c =>
            simp [he] at hp ⊢
            cases ht : tcGuards Γ t with
            | error d' => simp [ht] at hp; subst hp; simp [ih d' ht]
            | ok cs' => simp [ht] at hp
        · simpa [hl, hc] using hp
      all_goals simpa [hl] using hp
  | .cons (.recd ln en it binds e) t, d, hp => by
    have ih := tcGuards_app_prefix Γ rest t
    simp only [GuardList.app] at *
    rw [tcGuards_recd] at hp ⊢
    cases he : recdHead Γ ln en it binds e with
    | error d' => simpa [he] using hp
    | ok c =>
      simp [he] at hp ⊢
      cases ht : tcGuards Γ t with
      | error d' => simp [ht] at hp; subst hp; simp [ih d' ht]
      | ok cs' => simp [ht] at hp
  | .cons (.else_ ln e) t, d, hp => by
    have ih := tcGuards_app_prefix Γ rest t
    simp only [GuardList.app, tcGuards] at *
    cases he : tc Γ e with
    | error d' => simpa [he] using hp
    | ok c =>
      simp [he] at hp ⊢
      cases ht : tcGuards Γ t with
      | error d' => simp [ht] at hp; subst hp; simp [ih d' ht]
      | ok cs' => simp [ht] at hp

/-! ## comprehension qualifiers -/

inductive QualK
  | gen (ln : Ln) (x : String)
  | filter (ln : Ln)

def QualK.mk : QualK → Expr → Qual
  | .gen ln x, e => .gen ln x e
  | .filter ln, e => .filter ln e

theorem tcQuals_app : (pre : QualList) → (Γ : Env) → (rest : QualList) →
    tcQuals Γ (pre.app rest) = tcQuals Γ pre >>= fun Γ' => tcQuals Γ' rest
  | .nil, Γ, rest => by simp [QualList.app, tcQuals]
  | .cons (.gen ln x e) t, Γ, rest => by
    have ih := tcQuals_app t
    simp only [QualList.app, tcQuals]
    cases he : tc Γ e with
    | error d' => simp
    | ok c =>
      simp
      cases hq : qualIter c with
      | none => simp
      | some it =>
        simp
        cases ha : Γ.add ln x (.qual it) with
        | error d' => simp
        | ok Γ1 => simp [ih]
  | .cons (.filter ln e) t, Γ, rest => by
    have ih := tcQuals_app t
    simp only [QualList.app, tcQuals]
    cases he : tc Γ e with
    | error d' => simp
    | ok c =>
      simp
      by_cases hb : isBool c.ct = true
      · simp [hb, ih]
      · simp [hb]

theorem tcQuals_head_error (Γ : Env) (k : QualK) (e : Expr) (post : QualList) (d : Diag)
    (he : tc Γ e = .error d) : tcQuals Γ (.cons (k.mk e) post) = .error d := by
  cases k <;> simp [QualK.mk, tcQuals, he]

/-! ## catch clauses -/

theorem tcExcs_app (Γf : Env) (s : Sig) : (pre rest : ExcList) →
    tcExcs Γf s (pre.app rest) = tcExcs Γf s pre >>= fun _ => tcExcs Γf s rest
  | .nil, rest => by simp [ExcList.app, tcExcs]
  | .cons (.mk ln name body) t, rest => by
    have ih := tcExcs_app Γf s t rest
    simp only [ExcList.app, tcExcs]
    by_cases hn : unknownExc name = true
    · simp [hn]
    · simp [hn]
      cases hb : tc Γf body with
      | error d' => simp
      | ok c =>
        simp
        cases hc : (paramExprCmp false s.rc s.r body.ln c).toExcept ⟨ln, .returnType⟩ with
        | error d' => simp
        | ok u => simp [ih]

/-! ## runs of functions -/

theorem declFuncs_app : (fpre : FuncList) → (Γ : Env) → (rest : FuncList) →
    declFuncs Γ (fpre.app rest) =
      declFuncs Γ fpre >>= fun p => declFuncs p.1 rest >>= fun q => pure (q.1, p.2 ++ q.2)
  | .nil, Γ, rest => by
    simp [FuncList.app, declFuncs]
    cases declFuncs Γ rest <;> simp
  | .cons f t, Γ, rest => by
    have ih := declFuncs_app t
    simp only [FuncList.app, declFuncs]
    cases h1 : addFunc Γ f.ln f.name (.func .nil .dflt .int) with
    | error d' => simp
    | ok Γ1 =>
      simp
      cases h2 : declFunc Γ1 f.name f.params f.rc f.rty with
      | error d' => simp
      | ok sg =>
        simp
        cases h3 : Γ.add f.ln f.name sg.entry with
        | error d' => simp
        | ok Γ2 =>
          simp only [bind_ok, ih]
          cases h4 : declFuncs Γ2 t with
          | error d' => simp
          | ok p => cases h5 : declFuncs p.1 rest <;> simp [h5]

def FuncList.length : FuncList → Nat
  | .nil => 0
  | .cons _ t => t.length + 1

theorem declFuncs_length : (fs : FuncList) → (Γ Γ' : Env) → (ss : List Sig) →
    declFuncs Γ fs = .ok (Γ', ss) → ss.length = fs.length
  | .nil, Γ, Γ', ss, h => by
    simp [declFuncs] at h; simp [h.2.symm, FuncList.length]
  | .cons f t, Γ, Γ', ss, h => by
    have ih := declFuncs_length t
    simp only [declFuncs] at h
    cases h1 : addFunc Γ f.ln f.name (.func .nil .dflt .int) with
    | error d' => simp [h1] at h
    | ok Γ1 =>
      simp only [h1, bind_ok] at h
      cases h2 : declFunc Γ1 f.name f.params f.rc f.rty with
      | error d' => simp [h2] at h
      | ok sg =>
        simp only [h2, bind_ok] at h
        cases h3 : Γ.add f.ln f.name sg.entry with
        | error d' => simp [h3] at h
        | ok Γ2 =>
          simp only [h3, bind_ok] at h
          cases h4 : declFuncs Γ2 t with
          | error d' => simp [h4] at h
          | ok p =>
            obtain ⟨Γ3, ss'⟩ := p
            simp [h4] at h
            have := ih Γ2 Γ3 ss' h4
            simp [← h.2, this, FuncList.length]

theorem tcBodies_app_error (Γ : Env) (rest : FuncList) (srest : List Sig) (d : Diag)
    (hr : tcBodies Γ rest srest = .error d) :
    (fpre : FuncList) → (spre : List Sig) → spre.length = fpre.length →
    tcBodies Γ fpre spre = .ok () → tcBodies Γ (fpre.app rest) (spre ++ srest) = .error d
  | .nil, spre, hl, _ => by
    cases spre with
    | nil => simpa [FuncList.app] using hr
    | cons a b => simp [FuncList.length] at hl
  | .cons f t, spre, hl, hp => by
    have ih := tcBodies_app_error Γ rest srest d hr t
    cases spre with
    | nil => simp [FuncList.length] at hl
    | cons sg ss =>
      simp only [FuncList.app, List.cons_append, tcBodies] at *
      cases h1 : tcRest (funcEnv Γ f.name sg) sg f with
      | error d' => simp [h1] at hp
      | ok u =>
        simp [h1] at hp ⊢
        exact ih ss (by simpa [FuncList.length] using hl) hp

theorem tcBodies_app_prefix (Γ : Env) (rest : FuncList) (srest : List Sig) :
    (fpre : FuncList) → (spre : List Sig) → (d : Diag) →
    tcBodies Γ fpre spre = .error d → tcBodies Γ (fpre.app rest) (spre ++ srest) = .error d
  | .nil, spre, d, hp => by simp [tcBodies] at hp
  | .cons f t, spre, d, hp => by
    have ih := tcBodies_app_prefix Γ rest srest t
    cases spre with
    | nil => simp [tcBodies] at hp
    | cons sg ss =>
      simp only [FuncList.app, List.cons_append, tcBodies] at *
      cases h1 : tcRest (funcEnv Γ f.name sg) sg f with
      | error d' => simpa [h1] using hp
      | ok u =>
        simp [h1] at hp ⊢
        exact ih ss d hp

/-! ## a function with a hole (in its body, or in the body of one catch clause) -/

inductive FuncHole
  | body (ln : Ln) (name : String) (ps : List Param) (rc : PCst) (rty : Ty) (excs : ExcList)
  | exc (ln : Ln) (name : String) (ps : List Param) (rc : PCst) (rty : Ty) (body : Expr)
        (xpre : ExcList) (xln : Ln) (xname : String) (xpost : ExcList)

def FuncHole.plug : FuncHole → Expr → Func
  | .body ln n ps rc rty excs, e => .mk ln n ps rc rty e excs
  | .exc ln n ps rc rty bd xpre xln xname xpost, e =>
    .mk ln n ps rc rty bd (xpre.app (.cons (.mk xln xname e) xpost))

def FuncHole.ln : FuncHole → Ln
  | .body ln .. => ln
  | .exc ln .. => ln
def FuncHole.name : FuncHole → String
  | .body _ n .. => n
  | .exc _ n .. => n
def FuncHole.params : FuncHole → List Param
  | .body _ _ ps .. => ps
  | .exc _ _ ps .. => ps
def FuncHole.rc : FuncHole → PCst
  | .body _ _ _ rc .. => rc
  | .exc _ _ _ rc .. => rc
def FuncHole.rty : FuncHole → Ty
  | .body _ _ _ _ rty _ => rty
  | .exc _ _ _ _ rty .. => rty

@[simp] theorem FuncHole.plug_ln (h : FuncHole) (e : Expr) : (h.plug e).ln = h.ln := by
  cases h <;> rfl
@[simp] theorem FuncHole.plug_name (h : FuncHole) (e : Expr) : (h.plug e).name = h.name := by
  cases h <;> rfl
@[simp] theorem FuncHole.plug_params (h : FuncHole) (e : Expr) : (h.plug e).params = h.params := by
  cases h <;> rfl
@[simp] theorem FuncHole.plug_rc (h : FuncHole) (e : Expr) : (h.plug e).rc = h.rc := by
  cases h <;> rfl
@[simp] theorem FuncHole.plug_rty (h : FuncHole) (e : Expr) : (h.plug e).rty = h.rty := by
  cases h <;> rfl

/-- what `tcRest` does, in the function's table, before it reaches the hole -/
def FuncHole.pre (Γf : Env) (s : Sig) : FuncHole → Except Diag Unit
  | .body _ _ _ _ _ excs => tcExcs Γf s excs
  | .exc _ _ _ _ _ _ xpre xln xname _ => do
    tcExcs Γf s xpre
    if unknownExc xname then .error ⟨xln, .unknownException⟩ else .ok ()

theorem FuncHole.plug_error (Γf : Env) (s : Sig) (h : FuncHole) (e : Expr) (d : Diag)
    (hp : h.pre Γf s = .ok ()) (he : tc Γf e = .error d) : tcRest Γf s (h.plug e) = .error d := by
  cases h with
  | body ln n ps rc rty excs =>
    simp only [FuncHole.pre] at hp
    simp [FuncHole.plug, tcRest, hp, he]
  | exc ln n ps rc rty bd xpre xln xname xpost =>
    simp only [FuncHole.pre] at hp
    cases h1 : tcExcs Γf s xpre with
    | error d' => simp [h1] at hp
    | ok u =>
      simp [h1] at hp
      by_cases hn : unknownExc xname = true
      · simp [hn] at hp
      · simp [FuncHole.plug, tcRest, tcExcs_app, h1, tcExcs, hn, he]

theorem FuncHole.plug_prefix (Γf : Env) (s : Sig) (h : FuncHole) (e : Expr) (d : Diag)
    (hp : h.pre Γf s = .error d) : tcRest Γf s (h.plug e) = .error d := by
  cases h with
  | body ln n ps rc rty excs =>
    simp only [FuncHole.pre] at hp
    simp [FuncHole.plug, tcRest, hp]
  | exc ln n ps rc rty bd xpre xln xname xpost =>
    simp only [FuncHole.pre] at hp
    cases h1 : tcExcs Γf s xpre with
    | error d' => simp [h1] at hp; subst hp; simp [FuncHole.plug, tcRest, tcExcs_app, h1]
    | ok u =>
      simp [h1] at hp
      by_cases hn : unknownExc xname = true
      · simp [hn] at hp; subst hp
        simp [FuncHole.plug, tcRest, tcExcs_app, h1, tcExcs, hn]
      · simp [hn] at hp

/-- the declaration pass does not look at bodies -/
theorem declFuncs_plug (h : FuncHole) (e e' : Expr) (fpost : FuncList) (Γ : Env) :
    declFuncs Γ (.cons (h.plug e) fpost) = declFuncs Γ (.cons (h.plug e') fpost) := by
  simp [declFuncs]

theorem bind_eq_ok' {ε α β} {m : Except ε α} {f : α → Except ε β} {b : β} :
    (m >>= f) = .ok b ↔ ∃ a, m = .ok a ∧ f a = .ok b := by
  cases m <;> simp

theorem bind_eq_error' {ε α β} {m : Except ε α} {f : α → Except ε β} {d : ε} :
    (m >>= f) = .error d ↔ m = .error d ∨ ∃ a, m = .ok a ∧ f a = .error d := by
  cases m <;> simp

/-! ## frames -/

inductive Frame
  | enumVal (ln : Ln) (item : String)
  | un (ln : Ln) (op : UnOp)
  | binL (ln : Ln) (op : BinOp) (r : Expr)
  | binR (ln : Ln) (op : BinOp) (l : Expr)
  | sup (ln : Ln)
  | condC (ln : Ln) (t e : Expr)
  | condT (ln : Ln) (c e : Expr)
  | condE (ln : Ln) (c t : Expr)
  | assL (ln : Ln) (r : Expr)
  | assR (ln : Ln) (l : Expr)
  | whileC (ln : Ln) (b : Expr)
  | whileB (ln : Ln) (c : Expr)
  | forInA (ln : Ln) (x : String) (b : Expr)
  | forInB (ln : Ln) (x : String) (a : Expr)
  | callF (ln : Ln) (args : ExprList)
  | callA (ln : Ln) (f : Expr) (pre post : ExprList)
  | attr (ln : Ln) (fld : String)
  | matchS (ln : Ln) (gs : GuardList)
  | matchArm (ln : Ln) (s : Expr) (pre : GuardList) (k : GuardK) (post : GuardList)
  | arrayE (ln : Ln) (pre post : ExprList) (ec : PCst) (ety : Ty)
  | derefA (ln : Ln) (idx : ExprList)
  | derefI (ln : Ln) (a : Expr) (pre post : ExprList)
  | lcE (ln : Ln) (qs : QualList) (rc : PCst) (rty : Ty)
  | lcQ (ln : Ln) (e : Expr) (pre : QualList) (k : QualK) (post : QualList) (rc : PCst) (rty : Ty)
  | seqBind (ln : Ln) (pre : SeqList) (bln : Ln) (v : Bool) (x : String) (post : SeqList)
  | seqExpr (ln : Ln) (pre post : SeqList)
  | seqFunc (ln : Ln) (pre : SeqList) (fpre : FuncList) (h : FuncHole) (fpost : FuncList)
      (post : SeqList)
  | funcLit (h : FuncHole)
  -- D11 round 2: holes inside the new constructs
  | tupleE (ln : Ln) (pre post : ExprList) (ms : TyList)
  | projE (ln iln : Ln) (i : Nat)
  | rangeF (ln : Ln) (ps : List (Expr × Expr)) (t : Expr) (post : ExprList)
  | rangeT (ln : Ln) (ps : List (Expr × Expr)) (f : Expr) (post : ExprList)
  | sliceA (ln : Ln) (bounds : ExprList)
  | sliceF (ln : Ln) (a : Expr) (ps : List (Expr × Expr)) (t : Expr) (post : ExprList)
  | sliceT (ln : Ln) (a : Expr) (ps : List (Expr × Expr)) (f : Expr) (post : ExprList)
  | pipeL (ln : Ln) (f : Expr) (args : ExprList)
  | pipeF (ln : Ln) (l : Expr) (args : ExprList)
  | pipeA (ln : Ln) (l f : Expr) (pre post : ExprList)
  | subE (pre post : ExprList)
  | ifLetE (ln gln : Ln) (en it : String) (t f : Expr)
  | ifLetT (ln gln : Ln) (en it : String) (e f : Expr)
  | ifLetF (ln gln : Ln) (en it : String) (e t : Expr)

def Frame.plug : Frame → Expr → Expr
  | .enumVal ln item, x => .enumVal ln x item
  | .un ln op, x => .un ln op x
  | .binL ln op r, x => .bin ln op x r
  | .binR ln op l, x => .bin ln op l x
  | .sup ln, x => .sup ln x
  | .condC ln t e, x => .cond ln x t e
  | .condT ln c e, x => .cond ln c x e
  | .condE ln c t, x => .cond ln c t x
  | .assL ln r, x => .ass ln x r
  | .assR ln l, x => .ass ln l x
  | .whileC ln b, x => .while_ ln x b
  | .whileB ln c, x => .while_ ln c x
  | .forInA ln v b, x => .forIn ln v x b
  | .forInB ln v a, x => .forIn ln v a x
  | .callF ln args, x => .call ln x args
  | .callA ln f pre post, x => .call ln f (pre.app (.cons x post))
  | .attr ln fld, x => .attr ln x fld
  | .matchS ln gs, x => .match_ ln x gs
  | .matchArm ln s pre k post, x => .match_ ln s (pre.app (.cons (k.mk x) post))
  | .arrayE ln pre post ec ety, x => .array ln (pre.app (.cons x post)) ec ety
  | .derefA ln idx, x => .deref ln x idx
  | .derefI ln a pre post, x => .deref ln a (pre.app (.cons x post))
  | .lcE ln qs rc rty, x => .listcomp ln x qs rc rty
  | .lcQ ln e pre k post rc rty, x => .listcomp ln e (pre.app (.cons (k.mk x) post)) rc rty
  | .seqBind ln pre bln v n post, x => .seq ln (pre.app (.cons (.bind bln v n x) post))
  | .seqExpr ln pre post, x => .seq ln (pre.app (.cons (.expr x) post))
  | .seqFunc ln pre fpre h fpost post, x =>
    .seq ln (pre.app (.cons (.funcs (fpre.app (.cons (h.plug x) fpost))) post))
  | .funcLit h, x => .funcLit (h.plug x)
  | .tupleE ln pre post ms, x => .tuple ln (pre.app (.cons x post)) ms
  | .projE ln iln i, x => .proj ln x iln i
  | .rangeF ln ps t post, x => .range ln (flatPairs ps (.cons x (.cons t post)))
  | .rangeT ln ps f post, x => .range ln (flatPairs ps (.cons f (.cons x post)))
  | .sliceA ln bounds, x => .slice ln x bounds
  | .sliceF ln a ps t post, x => .slice ln a (flatPairs ps (.cons x (.cons t post)))
  | .sliceT ln a ps f post, x => .slice ln a (flatPairs ps (.cons f (.cons x post)))
  | .pipeL ln f args, x => .pipe ln x f args
  | .pipeF ln l args, x => .pipe ln l x args
  | .pipeA ln l f pre post, x => .pipe ln l f (pre.app (.cons x post))
  | .subE pre post, x => .sub (pre.app (.cons x post))
  | .ifLetE ln gln en it t f, x => .ifLet ln gln en it x t f
  | .ifLetT ln gln en it e f, x => .ifLet ln gln en it e x f
  | .ifLetF ln gln en it e t, x => .ifLet ln gln en it e t x

/-- the symbol table in force at the hole, computed by replaying what `tc` does before it gets
there; an error means `tc` stops before the hole with that very diagnostic -/
def Frame.env (Γ : Env) : Frame → Except Diag Env
  | .enumVal _ _ => .ok Γ
  | .un _ _ => .ok Γ
  | .binL _ _ _ => .ok Γ
  | .binR _ _ l => do let _ ← tc Γ l; pure Γ
  | .sup _ => .ok Γ
  | .condC _ _ _ => .ok Γ
  | .condT _ c _ => do let _ ← tc Γ c; pure Γ
  | .condE _ c t => do let _ ← tc Γ c; let _ ← tc Γ t; pure Γ
  | .assL _ _ => .ok Γ
  | .assR _ l => do let _ ← tc Γ l; pure Γ
  | .whileC _ _ => .ok Γ
  | .whileB _ c => do let _ ← tc Γ c; pure Γ
  | .forInA _ _ _ => .ok Γ
  | .forInB ln x a => do
    let ca ← tc Γ a
    match forinIter ca with
    | some it => pure (Γ.push [(x, .forin it)])
    | none => .error ⟨ln, .forinNotArray⟩
  | .callF _ _ => .ok Γ
  | .callA _ f pre _ => do let _ ← tc Γ f; let _ ← tcArgs Γ pre; pure Γ
  | .attr _ _ => .ok Γ
  | .matchS _ _ => .ok Γ
  | .matchArm _ s pre k _ => do
    let cs ← tc Γ s
    match cs.ct with
    | .val (.enum _) => do
      let _ ← tcGuards Γ pre
      k.pre Γ
      pure Γ
    | _ => .error ⟨s.ln, .matchNotEnum⟩
  | .arrayE _ pre _ _ _ => do let _ ← tcRows Γ pre; pure Γ
  | .derefA _ _ => .ok Γ
  | .derefI _ a pre _ => do let _ ← tc Γ a; let _ ← tcArgs Γ pre; pure Γ
  | .lcE _ qs _ _ => tcQuals Γ.push qs
  | .lcQ _ _ pre _ _ _ _ => tcQuals Γ.push pre
  | .seqBind _ pre _ _ _ _ => seqEnv Γ.push pre
  | .seqExpr _ pre _ => seqEnv Γ.push pre
  | .seqFunc _ pre fpre h fpost _ => do
    let Γ1 ← seqEnv Γ.push pre
    let (Γa, spre) ← declFuncs Γ1 fpre
    let (Γ2, srest) ← declFuncs Γa (.cons (h.plug default) fpost)
    match srest with
    | s :: _ => do
      tcBodies Γ2 fpre spre
      h.pre (funcEnv Γ2 h.name s) s
      pure (funcEnv Γ2 h.name s)
    | [] => .ok Γ2
  | .funcLit h => do
    let s ← declFunc Γ h.name h.params h.rc h.rty
    h.pre (funcEnv Γ h.name s) s
    pure (funcEnv Γ h.name s)
  | .tupleE _ pre _ _ => do let _ ← tcArgs Γ pre; pure Γ
  | .projE _ _ _ => .ok Γ
  | .rangeF _ ps _ _ => do let _ ← tcBounds Γ (flatPairs ps .nil); pure Γ
  | .rangeT _ ps f _ => do let _ ← tcBounds Γ (flatPairs ps .nil); let _ ← tc Γ f; pure Γ
  | .sliceA _ _ => .ok Γ
  | .sliceF _ a ps _ _ => do let _ ← tc Γ a; let _ ← tcBounds Γ (flatPairs ps .nil); pure Γ
  | .sliceT _ a ps f _ => do
    let _ ← tc Γ a; let _ ← tcBounds Γ (flatPairs ps .nil); let _ ← tc Γ f; pure Γ
  | .pipeL _ _ _ => .ok Γ
  | .pipeF _ l _ => do let _ ← tc Γ l; pure Γ
  | .pipeA _ l f pre _ => do let _ ← tc Γ l; let _ ← tc Γ f; let _ ← tcArgs Γ pre; pure Γ
  | .subE pre _ => do let _ ← tcRows Γ pre; pure Γ
  | .ifLetE _ _ _ _ _ _ => .ok Γ
  | .ifLetT _ gln en it e _ => do
    let ce ← tc Γ e
    match ce.ct with
    | .val (.enum _) => do guardItemPre Γ gln en it; pure Γ
    | _ => .error ⟨e.ln, .matchNotEnum⟩
  | .ifLetF _ gln en it e t => do
    let ce ← tc Γ e
    match ce.ct with
    | .val (.enum _) => do guardItemPre Γ gln en it; let _ ← tc Γ t; pure Γ
    | _ => .error ⟨e.ln, .matchNotEnum⟩

end Never.Tc
