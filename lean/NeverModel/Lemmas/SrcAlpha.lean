/-
Helper lemmas for C08 `eval_alpha`: the evaluator commutes with every admissible renaming of
bound names.  The functional invariant: the renamed program runs in `rnEnv ν env` (same cells,
renamed names) over the SAME store; values never mention names (closures hold a function id and
the cells of the defining environment), so both runs are equal as computations.
-/
import NeverModel.Model.SrcSyn
namespace Never.Src

variable {ν : Ren}

/-! ### environments -/

@[simp] theorem names_cons (x : Name) (l : Loc) (env : Env) : names ((x, l) :: env) = x :: names env := rfl
@[simp] theorem locs_cons (x : Name) (l : Loc) (env : Env) : locs ((x, l) :: env) = l :: locs env := rfl
@[simp] theorem names_nil : names ([] : Env) = [] := rfl
@[simp] theorem length_names (env : Env) : (names env).length = env.length := by simp [names]

@[simp] theorem rnEnv_length (env : Env) : (rnEnv ν env).length = env.length := by
  induction env with
  | nil => rfl
  | cons p env ih => cases p; simp [rnEnv, ih]

@[simp] theorem locs_rnEnv (env : Env) : locs (rnEnv ν env) = locs env := by
  induction env with
  | nil => rfl
  | cons p env ih => cases p; simp [rnEnv, ih]

theorem names_rnEnv (env : Env) : names (rnEnv ν env) = rnStack ν (names env) := by
  induction env with
  | nil => rfl
  | cons p env ih => cases p; simp [rnEnv, rnStack, ih]

theorem rnEnv_cons (x : Name) (l : Loc) (env : Env) :
    rnEnv ν ((x, l) :: env) = (ν x env.length, l) :: rnEnv ν env := rfl

theorem rnVarD_form (L : Nat) (bs : List Name) (x : Name) :
    ∃ d, rnVarD ν L bs x = ν x d ∧ (d < bs.length ∨ d = L) := by
  induction bs with
  | nil => exact ⟨L, rfl, Or.inr rfl⟩
  | cons y bs ih =>
    by_cases h : x = y
    · subst h; exact ⟨bs.length, by simp [rnVarD], Or.inl (by simp)⟩
    · obtain ⟨d, hd, hlt⟩ := ih
      refine ⟨d, by simp [rnVarD, h, hd], ?_⟩
      cases hlt with
      | inl h1 => exact Or.inl (by simp; omega)
      | inr h1 => exact Or.inr h1

theorem lookup_rnD (hν : Adm ν) (x : Name) (env : Env) (L : Nat) (hL : env.length ≤ L) :
    lookup (rnVarD ν L (names env) x) (rnEnv ν env) = lookup x env := by
  induction env with
  | nil => simp [lookup, rnEnv]
  | cons p env ih =>
    obtain ⟨y, l⟩ := p
    simp only [names_cons, rnEnv_cons, List.length_cons] at *
    by_cases h : x = y
    · subst h; simp [rnVarD, lookup]
    · have hne : rnVarD ν L (names env) x ≠ ν y env.length := by
        obtain ⟨d, hd, hlt⟩ := rnVarD_form (ν := ν) L (names env) x
        rw [hd]
        intro heq
        cases hν.inj _ _ _ _ heq with
        | inl h1 => exact h h1
        | inr h1 =>
          cases hlt with
          | inl h2 => simp at h2; omega
          | inr h2 => omega
      simp only [rnVarD, h, if_false, lookup, hne]
      exact ih (by omega)

theorem lookup_rn (hν : Adm ν) (x : Name) (env : Env) :
    lookup (rnVar ν (names env) x) (rnEnv ν env) = lookup x env := by
  unfold rnVar
  exact lookup_rnD hν x env _ (by simp)

theorem names_mkEnv (bs : List Name) (cells : List Loc) : names (mkEnv bs cells) = bs := by
  induction bs generalizing cells with
  | nil => rfl
  | cons x bs ih => cases cells <;> simp [mkEnv, ih]

theorem mkEnv_length (bs : List Name) (cells : List Loc) : (mkEnv bs cells).length = bs.length := by
  rw [← length_names, names_mkEnv]

theorem mkEnv_rn (bs : List Name) (cells : List Loc) :
    mkEnv (rnStack ν bs) cells = rnEnv ν (mkEnv bs cells) := by
  induction bs generalizing cells with
  | nil => rfl
  | cons x bs ih => cases cells <;> simp [mkEnv, rnStack, rnEnv_cons, ih, mkEnv_length]

theorem bindNames_rn (binds : List Name) (ls : List Loc) (env : Env) :
    bindNames (rnNames ν env.length binds) ls (rnEnv ν env) = rnEnv ν (bindNames binds ls env) := by
  induction binds generalizing ls env with
  | nil => rfl
  | cons x xs ih =>
    cases ls with
    | nil =>
      simp only [rnNames, bindNames]
      rw [← rnEnv_cons x 0 env]
      have := ih [] ((x, 0) :: env)
      simpa using this
    | cons l ls =>
      simp only [rnNames, bindNames]
      rw [← rnEnv_cons x l env]
      have := ih ls ((x, l) :: env)
      simpa using this

theorem names_bindNames (binds : List Name) (ls : List Loc) (env : Env) :
    names (bindNames binds ls env) = binds.reverse ++ names env := by
  induction binds generalizing ls env with
  | nil => rfl
  | cons x xs ih => cases ls <;> simp [bindNames, ih]

theorem pushFuncs_rn (fs : List Func) (l : Loc) (env : Env) (bs : List Name) :
    pushFuncs (rnFs ν bs env.length fs) l (rnEnv ν env) = rnEnv ν (pushFuncs fs l env) := by
  induction fs generalizing l env with
  | nil => rfl
  | cons f fs ih =>
    obtain ⟨id, n, ps, r, body, cs⟩ := f
    simp only [rnFs, pushFuncs, rnF, Func.name]
    rw [← rnEnv_cons n l env]
    have := ih (l + 1) ((n, l) :: env)
    simpa using this

theorem names_pushFuncs (fs : List Func) (l : Loc) (env : Env) :
    names (pushFuncs fs l env) = (funcNames fs).reverse ++ names env := by
  induction fs generalizing l env with
  | nil => rfl
  | cons f fs ih => simp [pushFuncs, funcNames, ih]

theorem rnFs_length (bs : List Name) (d : Nat) (fs : List Func) : (rnFs ν bs d fs).length = fs.length := by
  induction fs generalizing d with
  | nil => rfl
  | cons f fs ih => obtain ⟨id, n, ps, r, body, cs⟩ := f; simp [rnFs, ih]

theorem fillFuncs_rn (cells : List Loc) (bs : List Name) (d : Nat) (fs : List Func) (l : Loc) :
    fillFuncs cells (rnFs ν bs d fs) l = fillFuncs cells fs l := by
  induction fs generalizing d l with
  | nil => rfl
  | cons f fs ih =>
    obtain ⟨id, n, ps, r, body, cs⟩ := f
    simp [rnFs, fillFuncs, rnF, Func.id, ih]

/-! ### the monad -/

theorem bind_eq (m : M α) (k : α → M β) : (m >>= k) = M.bind m k := rfl

/-- congruence of `bind` under a postcondition of the first computation -/
theorem bind_congr_post {m : M α} {k k' : α → M β} (P : α → Prop)
    (hP : ∀ s a s', m s = .ok a s' → P a) (hk : ∀ a, P a → k a = k' a) :
    (m >>= k) = (m >>= k') := by
  funext s
  simp only [bind_eq, M.bind]
  cases h : m s with
  | ok a s' => simp [hk a (hP s a s' h)]
  | exc e s' => rfl
  | stop c s' => rfl

def M.map (f : α → β) (m : M α) : M β := m >>= fun a => pure (f a)

theorem map_bind (f : α → β) (m : M α) (k : β → M γ) : (M.map f m >>= k) = (m >>= fun a => k (f a)) := by
  funext s
  simp only [M.map, bind_eq, M.bind]
  cases m s <;> rfl

theorem allocGroup_rn (fs : List Func) (env : Env) (bs : List Name) :
    allocGroup (rnFs ν bs env.length fs) (rnEnv ν env) = M.map (rnEnv ν) (allocGroup fs env) := by
  funext st
  simp only [allocGroup, M.map, pushFuncs_rn, locs_rnEnv, rnFs_length, fillFuncs_rn, bind_eq, M.bind]
  cases allocN fs.length (Val.clo none) st with
  | ok a s' =>
    simp only
    cases fillFuncs (locs (pushFuncs fs st.mem.size env)) fs st.mem.size s' <;> rfl
  | exc e s' => rfl
  | stop c s' => rfl

theorem allocGroup_names (fs : List Func) (env : Env) (s : St) (env' : Env) (s' : St)
    (h : allocGroup fs env s = .ok env' s') : names env' = (funcNames fs).reverse ++ names env := by
  simp only [allocGroup, bind_eq, M.bind] at h
  cases h1 : allocN fs.length (Val.clo none) s with
  | ok a s1 =>
    rw [h1] at h
    simp only at h
    cases h2 : fillFuncs (locs (pushFuncs fs s.mem.size env)) fs s.mem.size s1 with
    | ok u s2 =>
      rw [h2] at h
      simp only [pure, M.pure] at h
      injection h with h3 h4
      rw [← h3, names_pushFuncs]
    | exc e s2 => rw [h2] at h; cases h
    | stop c s2 => rw [h2] at h; cases h
  | exc e s1 => rw [h1] at h; cases h
  | stop c s1 => rw [h1] at h; cases h

/-! ### parameters -/

theorem bindDimRefs_rn (ds : List Name) (l : Loc) (k : Nat) (env : Env) :
    bindDimRefs (rnNames ν env.length ds) l k (rnEnv ν env) = M.map (rnEnv ν) (bindDimRefs ds l k env) := by
  induction ds generalizing k env with
  | nil => funext s; rfl
  | cons d ds ih =>
    simp only [rnNames, bindDimRefs]
    funext s
    simp only [M.map, bind_eq, M.bind]
    cases h : alloc (Val.dimRef l k) s with
    | ok c s1 =>
      simp only
      have := ih (k + 1) ((d, c) :: env)
      rw [rnEnv_cons] at this
      simp only [List.length_cons] at this
      rw [this]
      simp only [M.map, bind_eq, M.bind]
    | exc e s1 => rfl
    | stop c s1 => rfl

theorem bindDimRefs_names (ds : List Name) (l : Loc) (k : Nat) (env : Env) (s : St) (env' : Env) (s' : St)
    (h : bindDimRefs ds l k env s = .ok env' s') : names env' = ds.reverse ++ names env := by
  induction ds generalizing k env s with
  | nil => simp only [bindDimRefs, pure, M.pure] at h; injection h with h1; simp [← h1]
  | cons d ds ih =>
    simp only [bindDimRefs, bind_eq, M.bind] at h
    cases h1 : alloc (Val.dimRef l k) s with
    | ok c s1 => rw [h1] at h; simp only at h; rw [ih _ _ _ h]; simp
    | exc e s1 => rw [h1] at h; cases h
    | stop c s1 => rw [h1] at h; cases h

theorem bindDimsOf_rn (ds : List Name) (l : Loc) (env : Env) :
    bindDimsOf (rnNames ν env.length ds) l (rnEnv ν env) = M.map (rnEnv ν) (bindDimsOf ds l env) :=
  bindDimRefs_rn ds l 0 env

theorem bindDimsOf_names (ds : List Name) (l : Loc) (env : Env) (s : St) (env' : Env) (s' : St)
    (h : bindDimsOf ds l env s = .ok env' s') : names env' = ds.reverse ++ names env :=
  bindDimRefs_names ds l 0 env s env' s' h

theorem rnNames_isEmpty (d : Nat) (xs : List Name) : (rnNames ν d xs).isEmpty = xs.isEmpty := by
  cases xs <;> rfl

theorem rnNames_length (d : Nat) (xs : List Name) : (rnNames ν d xs).length = xs.length := by
  induction xs generalizing d with
  | nil => rfl
  | cons x xs ih => simp [rnNames, ih]

theorem bindParams_rn (ps : List Param) (args : List Loc) (env : Env) :
    bindParams (rnParams ν env.length ps) args (rnEnv ν env) = M.map (rnEnv ν) (bindParams ps args env) := by
  induction ps generalizing args env with
  | nil => funext s; rfl
  | cons p ps ih =>
    cases args with
    | nil => funext s; rfl
    | cons l ls =>
      simp only [rnParams, bindParams, rnNames_isEmpty]
      funext s
      simp only [M.map, bind_eq, M.bind]
      cases h : convCell p.ty l s with
      | ok l' s1 =>
        simp only
        by_cases hd : p.dims.isEmpty = true
        · simp only [hd, if_true]
          have hl : p.dims.length = 0 := by
            cases hp : p.dims with
            | nil => rfl
            | cons a b => rw [hp] at hd; simp at hd
          have := ih ls ((p.name, l') :: env)
          rw [rnEnv_cons] at this
          simp only [List.length_cons] at this
          rw [hl]
          simp only [Nat.add_zero]
          rw [this]
          simp only [M.map, bind_eq, M.bind]
        · simp only [hd]
          simp only [Bool.false_eq_true, if_false, bind_eq, M.bind]
          have hb := bindDimsOf_rn (ν := ν) p.dims l' ((p.name, l') :: env)
          rw [rnEnv_cons] at hb
          simp only [List.length_cons] at hb
          rw [hb]
          simp only [M.map, bind_eq, M.bind]
          cases h3 : bindDimsOf p.dims l' ((p.name, l') :: env) s1 with
          | ok env2 s3 =>
            simp only [pure, M.pure]
            have hn := bindDimsOf_names _ _ _ _ _ _ h3
            have hlen : env2.length = env.length + 1 + p.dims.length := by
              have := congrArg List.length hn
              simp at this
              omega
            have := ih ls env2
            rw [hlen] at this
            rw [this]
            simp only [M.map, bind_eq, M.bind]
            cases bindParams ps ls env2 s3 <;> rfl
          | exc e s3 => rfl
          | stop k s3 => rfl
      | exc e s1 => rfl
      | stop k s1 => rfl

theorem bindParams_names (ps : List Param) (args : List Loc) (env : Env) (s : St) (env' : Env) (s' : St)
    (h : bindParams ps args env s = .ok env' s') : names env' = (paramBinders ps).reverse ++ names env := by
  induction ps generalizing args env s with
  | nil => simp only [bindParams, pure, M.pure] at h; injection h with h1; simp [← h1, paramBinders]
  | cons p ps ih =>
    cases args with
    | nil => simp [bindParams, stuck, stopM] at h
    | cons l ls =>
      simp only [bindParams, bind_eq, M.bind] at h
      cases h1 : convCell p.ty l s with
      | ok l' s1 =>
        rw [h1] at h
        simp only at h
        by_cases hd : p.dims.isEmpty = true
        · simp only [hd, if_true] at h
          have hl : p.dims = [] := by
            cases hp : p.dims with
            | nil => rfl
            | cons a b => rw [hp] at hd; simp at hd
          rw [ih _ _ _ h]
          simp [paramBinders, hl]
        · simp only [hd, Bool.false_eq_true, if_false, bind_eq, M.bind] at h
          cases h3 : bindDimsOf p.dims l' ((p.name, l') :: env) s1 with
          | ok env2 s3 =>
            rw [h3] at h
            simp only at h
            rw [ih _ _ _ h, bindDimsOf_names _ _ _ _ _ _ h3]
            simp [paramBinders]
          | exc e s3 => rw [h3] at h; cases h
          | stop k s3 => rw [h3] at h; cases h
      | exc e s1 => rw [h1] at h; cases h
      | stop k s1 => rw [h1] at h; cases h

theorem findFun_rn (ctx : Ctx) (fid : Nat) :
    (rnCtx ν ctx).findFun fid = (ctx.findFun fid).map (rnEntry ν) := by
  simp only [Ctx.findFun, rnCtx]
  induction ctx.funs with
  | nil => rfl
  | cons e es ih =>
    simp only [List.map_cons, List.find?_cons]
    have : (rnEntry ν e).id = e.id := rfl
    rw [this]
    cases e.id == fid <;> simp [ih]

end Never.Src
