import NeverModel.Lemmas.FfiLayout
/-! the unpacking walk (`newField`/`newLoop`, i.e. `vm_execute_func_ffi_record_new`) reads back
what the packing walk stored -/
namespace Never.Ffi

theorem sextByte_small (x : Nat) (h : x < 2) : sextByte x = x := by
  simp [sextByte]; omega

theorem loadPrim_spec (p : Prim) (v : FVal) (buf2 b' : Buf) (o : Nat)
    (hty : HasTy v (.prim p) = true) (hnf : NilFree v = true) (hb : o + primSize p ≤ buf2.size)
    (hag : ∀ i, o ≤ i → i < o + primSize p → buf2.get i = b'.get i)
    (hrd : readLE b'.get o (primSize p) = payload v) : loadPrim p buf2 o = some v := by
  have hc := readLE_congr buf2.get b'.get o (primSize p) hag
  cases p <;> cases v <;> simp only [HasTy, decide_eq_true_eq, Bool.false_eq_true] at hty
  all_goals simp only [primSize] at hb hc hrd
  all_goals simp only [loadPrim, Buf.read, hb, if_true, Option.map_some, hc, hrd, payload]
  · rw [sextByte_small _ hty]
  · rename_i q
    cases q with
    | none => simp [NilFree] at hnf
    | some q => simp

mutual
theorem newField_spec : (t : FTy) → (d : Desc) → (code rest : List Desc) →
    (hemit : (emitParam t).1 ++ rest = d :: code) → (v : FVal) → (hty : HasTy v t = true) →
    (hnf : NilFree v = true) →
    (base rel : Nat) → (buf : Buf) → (off : BitVec 32) → (hoff : off.toNat = base + rel) →
    (hal : cAlign t ∣ base) → (hb : base + roundUp rel (cAlign t) + cSize t ≤ buf.size) →
    (hs : buf.size < 2 ^ 32) →
    (r : VRes) → (hr : valueField t d v code buf off = some r) →
    (buf2 : Buf) → (hsz : buf2.size = buf.size) →
    (hag : ∀ i, base + roundUp rel (cAlign t) ≤ i → i < base + roundUp rel (cAlign t) + cSize t →
      buf2.get i = r.buf.get i) →
    ∃ r', newField t d code buf2 off = some r' ∧ r'.val = v ∧ r'.code = rest ∧
      r'.off.toNat = base + roundUp rel (cAlign t) + cSize t ∧
      r'.trace = cLeaves t (base + roundUp rel (cAlign t))
  | .prim p, d, code, rest, hemit, v, hty, hnf, base, rel, buf, off, hoff, hal, hb, hs, r, hr, buf2, hsz, hag => by
    simp only [emitParam, List.cons_append, List.nil_append, List.cons.injEq] at hemit
    obtain ⟨rfl, rfl⟩ := hemit
    have hA := cAlign_isAl (.prim p)
    have hru : roundUp (base + rel) (cAlign (.prim p)) = base + roundUp rel (cAlign (.prim p)) :=
      roundUp_base_add base rel _ hA.pos hal
    have ho : (align32 off (BitVec.ofNat 32 (elAlign (.prim p)))).toNat
        = base + roundUp rel (cAlign (.prim p)) := by
      rw [align32_toNat off _ hA (by rw [hoff, hru]; simp only [cSize] at hb; omega), hoff, hru]
    simp only [cSize] at hb hag
    obtain ⟨b', isNil, h1, h2, h3, h4, h5⟩ := storePrim_spec p v buf
      (align32 off (BitVec.ofNat 32 (elAlign (.prim p)))).toNat hty (by rw [ho]; exact hb)
    simp only [valueField, h1, Option.some.injEq] at hr
    subst hr
    simp only at hag
    have hl := loadPrim_spec p v buf2 b' (align32 off (BitVec.ofNat 32 (elAlign (.prim p)))).toNat
      hty hnf (by rw [ho, hsz]; exact hb) (by rw [ho]; exact hag) (h5 hnf).1
    simp only [newField, hl]
    refine ⟨_, rfl, rfl, rfl, ?_, ?_⟩
    · simp only [elSize, cSize]
      rw [add32_toNat _ _ (by rw [ho]; omega), ho]
    · simp only [cLeaves, ho]
  | .record fs, d, code, rest, hemit, v, hty, hnf, base, rel, buf, off, hoff, hal, hb, hs, r, hr, buf2, hsz, hag => by
    rw [emitParam_record] at hemit
    simp only [List.cons_append, List.cons.injEq] at hemit
    obtain ⟨rfl, rfl⟩ := hemit
    have hA := cAlign_isAl (.record fs)
    have hru : roundUp (base + rel) (cAlign (.record fs)) = base + roundUp rel (cAlign (.record fs)) :=
      roundUp_base_add base rel _ hA.pos hal
    have hsz2 := cEnd_le_cSize fs
    have ho : (align32 off (BitVec.ofNat 32 (elAlign (.record fs)))).toNat
        = base + roundUp rel (cAlign (.record fs)) := by
      rw [align32_toNat off _ hA (by rw [hoff, hru]; omega), hoff, hru]
    have hoe : (add32 (align32 off (BitVec.ofNat 32 (elAlign (.record fs)))) (elSize (.record fs))).toNat
        = base + roundUp rel (cAlign (.record fs)) + cSize (.record fs) := by
      rw [add32_toNat _ _ (by rw [ho]; simp only [elSize]; omega), ho]
    have hdv : cAlignF fs ∣ base + roundUp rel (cAlign (.record fs)) :=
      Nat.dvd_add (by simpa [cAlign] using hal) (by simpa [cAlign] using roundUp_dvd rel (cAlign (.record fs)))
    -- the callee's own align is the identity: the offset is already aligned
    have hro2 : align32 (align32 off (BitVec.ofNat 32 (elAlign (.record fs)))) (BitVec.ofNat 32 (cAlignF fs))
        = align32 off (BitVec.ofNat 32 (elAlign (.record fs))) := by
      apply BitVec.eq_of_toNat_eq
      have hfix : roundUp (base + roundUp rel (cAlign (.record fs))) (cAlignF fs)
          = base + roundUp rel (cAlign (.record fs)) :=
        roundUp_of_dvd _ _ (cAlignF_isAl fs).pos hdv
      rw [align32_toNat _ _ (cAlignF_isAl fs) (by rw [ho, hfix]; omega), ho, hfix]
    cases v with
    | record inner =>
      simp only [HasTy] at hty
      simp only [NilFree] at hnf
      obtain ⟨r0, hr0, s0⟩ := valueLoop_spec fs rest inner hty
        (base + roundUp rel (cAlign (.record fs))) 0 buf _ (by rw [ho]; rfl) hdv (by omega) hs
      simp only [valueField, hr0, Option.some.injEq] at hr
      subst hr
      simp only at hag
      obtain ⟨r', hr', e1, e2, _, e4⟩ := newLoop_spec fs rest inner hty hnf
        (base + roundUp rel (cAlign (.record fs))) 0 buf _ (by rw [ho]; rfl) hdv (by omega) hs
        r0 hr0 buf2 hsz (fun i h1 h2 => hag i (by omega) (by omega))
      simp only [newField, hro2, hr']
      refine ⟨_, rfl, ?_, e2, hoe, ?_⟩
      · simp only [e1]
      · simpa [cLeaves] using e4
    | nilrec => simp [NilFree] at hnf
    | bool _ => simp [HasTy] at hty
    | int _ => simp [HasTy] at hty
    | long _ => simp [HasTy] at hty
    | float _ => simp [HasTy] at hty
    | double _ => simp [HasTy] at hty
    | char _ => simp [HasTy] at hty
    | string _ => simp [HasTy] at hty
    | cptr _ => simp [HasTy] at hty
theorem newLoop_spec : (fs : FTys) → (rest : List Desc) → (vs : FVals) → (hty : HasTys vs fs = true) →
    (hnf : NilFreeL vs = true) →
    (base rel : Nat) → (buf : Buf) → (off : BitVec 32) → (hoff : off.toNat = base + rel) →
    (hal : cAlignF fs ∣ base) → (hb : base + cEnd fs rel ≤ buf.size) → (hs : buf.size < 2 ^ 32) →
    (r : VRes) → (hr : valueLoop fs fs.length vs ((emitList fs).1 ++ rest) buf off = some r) →
    (buf2 : Buf) → (hsz : buf2.size = buf.size) →
    (hag : ∀ i, base + rel ≤ i → i < base + cEnd fs rel → buf2.get i = r.buf.get i) →
    ∃ r', newLoop fs fs.length ((emitList fs).1 ++ rest) buf2 off = some r' ∧ r'.vals = vs ∧
      r'.code = rest ∧ r'.off.toNat = base + cEnd fs rel ∧ r'.trace = cLeavesF fs base rel
  | .nil, rest, vs, hty, hnf, base, rel, buf, off, hoff, hal, hb, hs, r, hr, buf2, hsz, hag => by
    cases vs <;> simp only [HasTys, Bool.false_eq_true] at hty
    simp only [FTys.length, newLoop, emitList, List.nil_append]
    exact ⟨_, rfl, rfl, rfl, by simp [cEnd, hoff], by simp [cLeavesF]⟩
  | .cons t ts, rest, vs, hty, hnf, base, rel, buf, off, hoff, hal, hb, hs, r, hr, buf2, hsz, hag => by
    cases vs with
    | nil => simp [HasTys] at hty
    | cons v vs =>
      simp only [HasTys, Bool.and_eq_true] at hty
      simp only [NilFreeL, Bool.and_eq_true] at hnf
      obtain ⟨hal1, hal2⟩ := cAlign_dvd_of_cons t ts base hal
      simp only [cEnd] at hb hag
      have hge := cEnd_ge ts (roundUp rel (cAlign t) + cSize t)
      have hrg := roundUp_ge rel (cAlign t) (cAlign_isAl t).pos
      rw [emitList_cons, List.append_assoc] at hr ⊢
      obtain ⟨d, code, hdc⟩ : ∃ d code, (emitParam t).1 ++ ((emitList ts).1 ++ rest) = d :: code := by
        cases t with
        | prim p => exact ⟨.prim p, _, rfl⟩
        | record fs => exact ⟨_, _, by rw [emitParam_record]; rfl⟩
      obtain ⟨r1, hr1, s1⟩ := valueField_spec t d code ((emitList ts).1 ++ rest) hdc v hty.1 base rel buf off
        hoff hal1 (by omega) hs
      obtain ⟨r2, hr2, s2⟩ := valueLoop_spec ts rest vs hty.2 base (roundUp rel (cAlign t) + cSize t)
        r1.buf r1.off (by rw [s1.off]; omega) hal2 (by rw [s1.size]; omega) (by rw [s1.size]; exact hs)
      rw [hdc] at hr ⊢
      simp only [FTys.length, valueLoop, hr1, s1.code, hr2, Option.some.injEq] at hr
      subst hr
      simp only at hag
      obtain ⟨n1, hn1, a1, a2, a3, a4⟩ := newField_spec t d code ((emitList ts).1 ++ rest) hdc v hty.1 hnf.1
        base rel buf off hoff hal1 (by omega) hs r1 hr1 buf2 hsz
        (fun i h1 h2 => by rw [hag i (by omega) (by omega), s2.frame i (by omega)])
      obtain ⟨n2, hn2, b1, b2, b3, b4⟩ := newLoop_spec ts rest vs hty.2 hnf.2 base
        (roundUp rel (cAlign t) + cSize t) r1.buf r1.off (by rw [s1.off]; omega) hal2
        (by rw [s1.size]; omega) (by rw [s1.size]; exact hs) r2 hr2 buf2 (by rw [hsz, s1.size])
        (fun i h1 h2 => hag i (by omega) (by omega))
      have hoff1 : n1.off = r1.off := by
        apply BitVec.eq_of_toNat_eq; rw [a3, s1.off]
      simp only [FTys.length, newLoop, hn1, a2, hoff1, hn2]
      refine ⟨_, rfl, ?_, b2, ?_, ?_⟩
      · simp only [a1, b1]
      · simp only [cEnd]; rw [b3]
      · simp only [cLeavesF, a4, b4]
end

end Never.Ffi
