import NeverModel.Lemmas.VmEffectLoops
set_option linter.unusedSimpArgs false
set_option linter.unusedVariables false
/-! stack effects of the opcode families selected by `nilCmpOf` / `strAddOf` / `arrOpOf` -/
namespace Never.Vm
open Never Never.Num

set_option maxRecDepth 8000 in
theorem eff_nilCmp (md : Module) (ins : Instr) (orc : Oracle) (s : Int) (k : Nat) (nl ng : Bool)
    (hb : binOpOf ins.op = none) (hu : unOpOf ins.op = none) (hc : convOf ins.op = none)
    (h : nilCmpOf ins.op = some (k, nl, ng)) : EffAt s (-1) (exec md ins orc) := by
  unfold exec
  simp only [hb, hu, hc, h]
  eff

set_option maxRecDepth 8000 in
theorem eff_strAdd (md : Module) (ins : Instr) (orc : Oracle) (s : Int) (ty : NTy) (sl : Bool)
    (hb : binOpOf ins.op = none) (hu : unOpOf ins.op = none) (hc : convOf ins.op = none) (hn : nilCmpOf ins.op = none)
    (h : strAddOf ins.op = some (ty, sl)) : EffAt s (-1) (exec md ins orc) := by
  unfold exec
  simp only [hb, hu, hc, hn, h]
  eff

set_option maxRecDepth 8000 in
theorem eff_arrOp (md : Module) (ins : Instr) (orc : Oracle) (s : Int) (ty : NTy) (kind : Nat)
    (hb : binOpOf ins.op = none) (hu : unOpOf ins.op = none) (hc : convOf ins.op = none) (hn : nilCmpOf ins.op = none)
    (hs : strAddOf ins.op = none)
    (h : arrOpOf ins.op = some (ty, kind)) : EffAt s (if kind = 0 then 0 else -1) (exec md ins orc) := by
  unfold exec
  simp only [hb, hu, hc, hn, hs, h]
  refine EffAt.getSp_bind ?_
  split
  · rename_i hk; subst hk
    split
    · eff
    all_goals (first | (rename_i hx; exact absurd rfl hx) | (rename_i h0 _ _ _; exact absurd rfl h0) | (rename_i hx; simp at hx))
  · rename_i hk
    split
    · exact absurd rfl hk
    all_goals eff

end Never.Vm
