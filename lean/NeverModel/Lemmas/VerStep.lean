import NeverModel.Lemmas.VerSound
set_option linter.unusedSimpArgs false
set_option linter.unusedVariables false
/-! one step of M-VM from a state at its recorded height, opcode class by opcode class -/
namespace Never.Ver
open Never Never.Vm

section
variable {md : Module} {hm : HMap}

/-- a state at the next address with the given `sp` is at its recorded height -/
theorem atHeight_next (hf : flowOk md hm = true) {vm s2 : Vm} {st : AbsSt} {k : Nat}
    (hinv : vm.sp = vm.pp + (fnParamsAt md vm.ip : Int) + (st.h : Int))
    (hk : hAt (funcStarts md) hm vm.ip (vm.ip + 1) k = true)
    (hr : s2.running = 1) (hip : s2.ip = vm.ip + 1) (hpp : s2.pp = vm.pp)
    (hsp : s2.sp = vm.sp - (st.h : Int) + (k : Int)) :
    AtHeight md hm s2 ∧ sameFn (funcStarts md) vm.ip s2.ip = true := by
  obtain ⟨st', e1, e2, e3⟩ := hAt_spec hk
  refine ⟨⟨hr, st', by rw [hip]; exact e1, ?_⟩, by rw [hip]; exact e3⟩
  rw [hip, fnParamsAt_same e3, hpp, hsp, e2]; omega

/-- … with the edge facts -/
theorem atHeight_edge (hf : flowOk md hm = true) {vm s2 : Vm} {st : AbsSt} {k : Nat} {i : Instr}
    (hi : md.code[vm.ip]? = some i)
    (hinv : vm.sp = vm.pp + (fnParamsAt md vm.ip : Int) + (st.h : Int))
    (hk : hAt (funcStarts md) hm vm.ip (vm.ip + 1) k = true)
    (hm' : mAt hm (vm.ip + 1) (marksNext md hm vm.ip) = true)
    (hr : s2.running = 1) (hip : s2.ip = vm.ip + 1) (hpp : s2.pp = vm.pp)
    (hsp : s2.sp = vm.sp - (st.h : Int) + (k : Int)) :
    AtHeight md hm s2 ∧ EdgeOk md hm vm.ip s2.ip := by
  obtain ⟨h1, h2⟩ := atHeight_next hf hinv hk hr hip hpp hsp
  refine ⟨h1, ?_⟩
  rw [hip] at h2 ⊢
  exact edge_next hi h2 hm'

/-- the edge to a jump target -/
theorem edge_jump {a t : Nat} {i : Instr} {st : AbsSt} (hi : md.code[a]? = some i) (hs : hm[a]? = some (some st))
    (hop : i.op = .JUMPZ ∨ i.op = .JUMP) (hsame : sameFn (funcStarts md) a t = true) (hm' : mAt hm t st.marks = true)
    (hrun : intRun md t = []) : EdgeOk md hm a t := by
  refine ⟨hsame, ?_, Or.inl hrun⟩
  rw [mAt_marksAt hm', marksNext_other hi hs (by rcases hop with h | h <;> rw [h] <;> decide) (by rcases hop with h | h <;> rw [h] <;> decide)]

/-- instructions of the effect table other than `JUMPZ` -/
theorem succ_table (hf : flowOk md hm = true) (orc : Oracle) (vm vm' : Vm) (i : Instr) (st : AbsSt) (p q : Nat)
    (hi : md.code[vm.ip]? = some i) (hs : hm[vm.ip]? = some (some st)) (he : simpleEffect i = some (p, q)) (hj : i.op ≠ .JUMPZ)
    (hrun : vm.running = 1)
    (hinv : vm.sp = vm.pp + (fnParamsAt md vm.ip : Int) + (st.h : Int))
    (hstep : (step md orc).run vm = .ok ((), vm')) : Succ md hm vm vm' := by
  refine succ_generic hf orc vm vm' i hi hstep (fun s2 h2 => ?_)
  obtain ⟨st', n1, n2, n3⟩ := flow_table hf hi hs he hj
  have hsame := frameOkAt_next hi hs he (frame_at hf hi)
  have hmk := (pendOkAt_table hi hs he hj (flowOk_pend hf (lt_size_of_getElem? hi))).2
  have hnm : i.op ≠ .MARK ∧ i.op ≠ .CLEAR_STACK := by
    constructor <;> (intro hop; simp [simpleEffect, hop, binOpOf, unOpOf, convOf, nilCmpOf, strAddOf, arrOpOf, mkArrayElem] at he)
  rw [← marksNext_other hi hs hnm.1 hnm.2] at hmk
  obtain ⟨f1, f2, f3, f4⟩ := Vm.simple_effect_sound md i orc p q he vm.sp { vm with ip := vm.ip + 1 } () s2 rfl h2
  obtain ⟨k1, k2⟩ := exec_keeps_ip md i orc p q he hj _ _ _ h2
  simp only at f1 f2 f3 k1 k2
  refine ⟨f2, f3, ?_, fun _ => k1, fun hr => ?_⟩
  · unfold RunOk at k2; omega
  · refine ⟨⟨hr, st', by rw [k1]; exact n1, ?_⟩, by rw [k1]; exact edge_next hi hsame hmk⟩
    rw [k1, fnParamsAt_same hsame, f2]
    rcases f4 with f4 | f4 | f4
    · rw [f4]; omega
    · omega
    · omega

/-- `JUMPZ` and `JUMP` -/
theorem succ_branch (hf : flowOk md hm = true) (orc : Oracle) (vm vm' : Vm) (i : Instr) (st : AbsSt)
    (hi : md.code[vm.ip]? = some i) (hs : hm[vm.ip]? = some (some st)) (hop : i.op = .JUMPZ ∨ i.op = .JUMP)
    (hrun : vm.running = 1)
    (hinv : vm.sp = vm.pp + (fnParamsAt md vm.ip : Int) + (st.h : Int))
    (hstep : (step md orc).run vm = .ok ((), vm')) : Succ md hm vm vm' := by
  refine succ_generic hf orc vm vm' i hi hstep (fun s2 h2 => ?_)
  obtain ⟨fz, fj⟩ := flow_branch hf hi hs
  have e : ((((vm.ip + 1 : Nat) : Int)) + i32 i.w0).toNat = ((vm.ip : Int) + 1 + i32 i.w0).toNat := by
    simp only [Int.natCast_add, Int.cast_ofNat_Int]
  rcases hop with hop | hop
  · obtain ⟨a1, a2, a3, a4, a5, a6⟩ := exec_jumpz md i orc hop _ _ h2
    simp only at a1 a2 a3 a4 a5 a6
    obtain ⟨h1, ⟨s1, e1, r1⟩, ⟨sj, ej, rj⟩⟩ := fz hop
    obtain ⟨g1, g2⟩ := frameOkAt_JUMPZ hi hs hop (frame_at hf hi)
    obtain ⟨_, m1, m2, m3⟩ := pendOkAt_JUMPZ hi hs hop (flowOk_pend hf (lt_size_of_getElem? hi))
    refine ⟨a2, a3, Or.inl (by omega), fun h => by omega, fun hr => ?_⟩
    rcases a6 with a6 | a6
    · refine ⟨⟨hr, s1, by rw [a6]; exact e1, ?_⟩, ?_⟩
      · rw [a6, fnParamsAt_same g2, a2, a5]; omega
      · rw [a6]
        refine edge_next hi g2 ?_
        rw [marksNext_other hi hs (by rw [hop]; decide) (by rw [hop]; decide)]; exact m2
    · rw [e] at a6
      refine ⟨⟨hr, sj, by rw [a6]; exact ej, ?_⟩, by rw [a6]; exact edge_jump hi hs (Or.inl hop) g1 m1 m3⟩
      rw [a6, fnParamsAt_same g1, a2, a5]; omega
  · obtain ⟨a1, a2, a3, a4, a5, a6⟩ := exec_jump md i orc hop _ _ h2
    simp only at a1 a2 a3 a4 a5 a6
    obtain ⟨sj, ej, rj⟩ := fj hop
    have g1 := frameOkAt_JUMP hi hs hop (frame_at hf hi)
    obtain ⟨m1, m3⟩ := pendOkAt_JUMP hi hs hop (flowOk_pend hf (lt_size_of_getElem? hi))
    rw [e] at a6
    refine ⟨a2, a3, Or.inl (by omega), fun h => by omega, fun hr => ?_⟩
    refine ⟨⟨hr, sj, by rw [a6]; exact ej, ?_⟩, by rw [a6]; exact edge_jump hi hs (Or.inr hop) g1 m1 m3⟩
    rw [a6, fnParamsAt_same g1, a2, a5]; omega

/-- `MARK`: five frame words pushed; control continues behind it at height `h + 5` -/
theorem succ_MARK (hf : flowOk md hm = true) (orc : Oracle) (vm vm' : Vm) (i : Instr) (st : AbsSt)
    (hi : md.code[vm.ip]? = some i) (hs : hm[vm.ip]? = some (some st)) (hop : i.op = .MARK) (hrun : vm.running = 1)
    (hinv : vm.sp = vm.pp + (fnParamsAt md vm.ip : Int) + (st.h : Int))
    (hstep : (step md orc).run vm = .ok ((), vm')) : Succ md hm vm vm' := by
  refine succ_generic hf orc vm vm' i hi hstep (fun s2 h2 => ?_)
  obtain ⟨_, hk⟩ := frameOkAt_MARK hi hs hop (frame_at hf hi)
  obtain ⟨r1, r2, r3, r4, r5, r6, r7, _, _⟩ := markP_regs (exec_MARK md i orc hop _ _ h2)
  simp only at r1 r2 r3 r4 r5 r6 r7
  have hmk := (pendOkAt_MARK hi hs hop (flowOk_pend hf (lt_size_of_getElem? hi))).1
  rw [← marksNext_MARK hi hs hop] at hmk
  refine ⟨r3, r7, Or.inl (by omega), fun h => by omega, fun hr => ?_⟩
  exact atHeight_edge hf hi hinv hk hmk hr r5 r3 (by rw [r1]; omega)

/-- `SLIDE`, ordinary or the last-call slide into the parameter block -/
theorem succ_SLIDE (hf : flowOk md hm = true) (orc : Oracle) (vm vm' : Vm) (i : Instr) (st : AbsSt)
    (hi : md.code[vm.ip]? = some i) (hs : hm[vm.ip]? = some (some st)) (hop : i.op = .SLIDE) (hrun : vm.running = 1)
    (hinv : vm.sp = vm.pp + (fnParamsAt md vm.ip : Int) + (st.h : Int))
    (hstep : (step md orc).run vm = .ok ((), vm')) : Succ md hm vm vm' := by
  refine succ_generic hf orc vm vm' i hi hstep (fun s2 h2 => ?_)
  have hc := frameOkAt_SLIDE hi hs hop (frame_at hf hi)
  have hmk : mAt hm (vm.ip + 1) (marksNext md hm vm.ip) = true := by
    rw [marksNext_other hi hs (by rw [hop]; decide) (by rw [hop]; decide)]
    rcases pendOkAt_SLIDE hi hs hop (flowOk_pend hf (lt_size_of_getElem? hi)) with ⟨_, h⟩ | ⟨_, _, _, h⟩ | ⟨_, _, hn, h⟩
    · exact h
    · exact h
    · rw [hn]; exact h
  rcases exec_SLIDE md i orc hop _ _ h2 with ⟨hq, hg0⟩ | ⟨hq, v1, hsl, hgc⟩
  · obtain ⟨b1, b2, b3, b4, b5, b6, b7, _⟩ := gcRunPure_regs hg0
    simp only at b1 b2 b3 b4 b5 b6 b7
    refine ⟨by omega, by omega, Or.inl (by omega), fun h => by omega, fun hr => ?_⟩
    rcases hc with ⟨_, hk⟩ | ⟨hq', _⟩ | ⟨hq', _⟩
    · exact atHeight_edge hf hi hinv hk hmk hr (by omega) (by omega) (by omega)
    · exact absurd hq hq'
    · exact absurd hq hq'
  · obtain ⟨a1, a2, a3, a4, a5, a6, a7⟩ := slideP_regs hsl
    obtain ⟨b1, b2, b3, b4, b5, b6, b7, _⟩ := gcRunPure_regs hgc
    simp only [hq, if_false] at a1 a2 a3 a4 a5 a6 a7
    refine ⟨by omega, by omega, Or.inl (by omega), fun h => by omega, fun hr => ?_⟩
    rcases hc with ⟨hq', _⟩ | ⟨_, hle, hk⟩ | ⟨_, hlt, hh, _, _, hk⟩
    · exact absurd hq' hq
    · exact atHeight_edge hf hi hinv hk hmk hr (by omega) (by omega) (by omega)
    · exact atHeight_edge hf hi hinv hk hmk hr (by omega) (by omega) (by omega)

/-- `CLEAR_STACK n`: the catch clause starts with `fp = pp` and `sp = pp + nparams`, whatever `sp` was -/
theorem succ_CLEAR_STACK (hf : flowOk md hm = true) (orc : Oracle) (vm vm' : Vm) (i : Instr) (st : AbsSt)
    (hi : md.code[vm.ip]? = some i) (hs : hm[vm.ip]? = some (some st)) (hop : i.op = .CLEAR_STACK)
    (hstep : (step md orc).run vm = .ok ((), vm')) : Succ md hm vm vm' ∧ vm'.fp = vm.pp := by
  obtain ⟨hn, hk⟩ := frameOkAt_CLEAR_STACK hi hs hop (frame_at hf hi)
  obtain ⟨st', e1, e2, e3⟩ := hAt_spec hk
  have key : ∀ s2, (exec md i orc).run { vm with ip := vm.ip + 1 } = .ok ((), s2) → s2 = clearStackP { vm with ip := vm.ip + 1 } i.w0 :=
    fun s2 h2 => exec_CLEAR_STACK md i orc hop _ _ h2
  constructor
  · refine succ_generic hf orc vm vm' i hi hstep (fun s2 h2 => ?_)
    rw [key s2 h2]
    refine ⟨rfl, rfl, Or.inl rfl, fun h => absurd h (by simp [clearStackP]), fun hr => ?_⟩
    have hmk := pendOkAt_CLEAR_STACK hi hs hop (flowOk_pend hf (lt_size_of_getElem? hi))
    rw [← marksNext_CLEAR hi hs hop] at hmk
    refine ⟨⟨rfl, st', e1, ?_⟩, edge_next hi e3 hmk⟩
    show vm.pp + (i.w0 : Int) = vm.pp + (fnParamsAt md (vm.ip + 1) : Int) + (st'.h : Int)
    rw [fnParamsAt_same e3, e2, hn]; unfold fnParamsAt; omega
  · obtain ⟨s2, he, hcase⟩ := step_exec md orc vm vm' i hi hstep
    rw [key s2 he] at hcase
    rcases hcase with ⟨_, rfl⟩ | ⟨h2, _⟩
    · rfl
    · simp [clearStackP] at h2

/-- `PUSH_PARAM` (entry stub): one slot per entry parameter -/
theorem succ_PUSH_PARAM (hf : flowOk md hm = true) (orc : Oracle) (vm vm' : Vm) (i : Instr) (st : AbsSt)
    (hi : md.code[vm.ip]? = some i) (hs : hm[vm.ip]? = some (some st)) (hop : i.op = .PUSH_PARAM) (hrun : vm.running = 1)
    (hinv : vm.sp = vm.pp + (fnParamsAt md vm.ip : Int) + (st.h : Int))
    (hstep : (step md orc).run vm = .ok ((), vm')) : Succ md hm vm vm' := by
  refine succ_generic hf orc vm vm' i hi hstep (fun s2 h2 => ?_)
  have hk := frameOkAt_PUSH_PARAM hi hs hop (frame_at hf hi)
  obtain ⟨f1, f2, f3, f4⟩ := mov_PUSH_PARAM md i orc vm.sp hop { vm with ip := vm.ip + 1 } () s2 rfl h2
  obtain ⟨k1, k2⟩ := kipop_PUSH_PARAM md i orc hop _ _ _ h2
  simp only at f2 f3 f4 k1 k2
  refine ⟨f3, f4, ?_, fun _ => k1, fun hr => ?_⟩
  · unfold RunOk at k2; omega
  · have hmk := pendOkAt_PUSH_PARAM hi hs hop (flowOk_pend hf (lt_size_of_getElem? hi))
    rw [← marksNext_other hi hs (by rw [hop]; decide) (by rw [hop]; decide)] at hmk
    exact atHeight_edge hf hi hinv hk hmk hr k1 f3 (by rw [f1]; omega)

/-- `MK_INIT_ARRAY`, provided the extents on the stack are the constants the verifier recorded -/
theorem succ_MK_INIT_ARRAY (hf : flowOk md hm = true) (orc : Oracle) (vm vm' : Vm) (i : Instr) (st : AbsSt)
    (hi : md.code[vm.ip]? = some i) (hs : hm[vm.ip]? = some (some st)) (hop : i.op = .MK_INIT_ARRAY) (hrun : vm.running = 1)
    (hinv : vm.sp = vm.pp + (fnParamsAt md vm.ip : Int) + (st.h : Int))
    (hext : stackInts vm i.w0 vm.sp = initExts st i.w0)
    (hstep : (step md orc).run vm = .ok ((), vm')) : Succ md hm vm vm' := by
  refine succ_generic hf orc vm vm' i hi hstep (fun s2 h2 => ?_)
  obtain ⟨ds, hds, hc, hle, hk⟩ := frameOkAt_MK_INIT_ARRAY hi hs hop (frame_at hf hi)
  rw [hds] at hext
  have hext' : stackInts { vm with ip := vm.ip + 1 } i.w0 vm.sp = some ds := by
    rw [stackInts_congr vm { vm with ip := vm.ip + 1 } rfl rfl rfl]; exact hext
  obtain ⟨f1, f2, f3, f4⟩ := exec_MK_INIT_ARRAY md i orc hop { vm with ip := vm.ip + 1 } s2 ds hext' hc h2
  obtain ⟨k1, k2⟩ := kipop_MK_INIT_ARRAY md i orc hop _ _ _ h2
  simp only at f1 f2 f3 f4 k1 k2
  refine ⟨f3, f4, ?_, fun _ => k1, fun hr => ?_⟩
  · unfold RunOk at k2; omega
  · obtain ⟨_, _, _, hmk, _⟩ := pendOkAt_MK_INIT_ARRAY hi hs hop (flowOk_pend hf (lt_size_of_getElem? hi))
    rw [← marksNext_other hi hs (by rw [hop]; decide) (by rw [hop]; decide)] at hmk
    exact atHeight_edge hf hi hinv hk hmk hr k1 f3 (by rw [f1]; omega)

end
end Never.Ver
