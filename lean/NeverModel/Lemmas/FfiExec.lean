import NeverModel.Lemmas.FfiRoundtrip
/-! the phase logic of `vm_execute_func_ffi`: signature parse, the "prepare values" loop with
its `prep_vals` flag, the decision to call -/
namespace Never.Ffi

/-- the value `prep_vals` has after the "prepare values" loop, as the C code computes it
(since 7f404f9): a non-nil record argument ORs in the result of its walk, a nil string / nil
record sets it; it never goes down -/
def prepFinal : Bool → FVals → Bool
  | prep, .nil => prep
  | prep, .cons (.record vs) rest => prepFinal (prep || !NilFreeL vs) rest
  | prep, .cons v rest => prepFinal (if NilFree v then prep else true) rest

/-- the flag is set exactly when it was set before or some operand holds a nil -/
theorem prepFinal_eq : (prep : Bool) → (stack : FVals) → prepFinal prep stack = (prep || !NilFreeL stack)
  | prep, .nil => by simp [prepFinal, NilFreeL]
  | prep, .cons v vs => by
    cases v <;> simp only [prepFinal, NilFreeL, NilFree, prepFinal_eq _ vs]
    all_goals cases prep <;> simp
    all_goals (rename_i q; cases q <;> simp)

/-- every record parameter fits `unsigned int` offsets -/
def FitsL : FTys → Prop
  | .nil => True
  | .cons t ts => cSize t < 2 ^ 32 ∧ FitsL ts

/-- what `param_values[i]` must be for parameter type `t`, operand `v`; `tail` is the descriptor
stream after this parameter's descriptor -/
def ArgOk (t : FTy) (v : FVal) (a : Arg) (tail : List Desc) : Prop :=
  match t, v with
  | .prim p, v => ∃ isNil, scalarArg p v = some (a, isNil)
  | .record fs, .record inner =>
    ∃ buf, a = .struct buf ∧ buf.size = cSize (.record fs) ∧
      (NilFreeL inner = true →
        ∃ r', newLoop fs fs.length ((emitList fs).1 ++ tail) buf 0#32 = some r' ∧ r'.vals = inner ∧
          r'.trace = cLeaves (.record fs) 0)
  | .record _, _ => True

def ArgsOk : FTys → FVals → List Arg → List Desc → Prop
  | .nil, .nil, [], _ => True
  | .cons t ts, .cons v vs, a :: as, rest => ArgOk t v a ((emitList ts).1 ++ rest) ∧ ArgsOk ts vs as rest
  | _, _, _, _ => False

theorem scalarArg_spec (p : Prim) (v : FVal) (hty : HasTy v (.prim p) = true) :
    ∃ a, scalarArg p v = some (a, !NilFree v) := by
  cases p <;> cases v <;> simp only [HasTy, decide_eq_true_eq, Bool.false_eq_true] at hty
  all_goals first
    | (simp only [scalarArg, NilFree]; exact ⟨_, rfl⟩)
    | skip
  rename_i q
  cases q <;> (simp only [scalarArg, NilFree]; exact ⟨_, rfl⟩)

theorem prepFinal_scalar (p : Prim) (v : FVal) (hty : HasTy v (.prim p) = true) (prep : Bool)
    (rest : FVals) :
    prepFinal prep (.cons v rest) = prepFinal (if (!NilFree v) = true then true else prep) rest := by
  cases v <;> first
    | (simp [HasTy] at hty; done)
    | (cases hnf : NilFree _ <;> simp [prepFinal, hnf])

theorem Buf.zero_size (n : Nat) : (Buf.zero n).size = n := rfl

theorem prepValues_spec : (ps : FTys) → (stack : FVals) → (hty : HasTys stack ps = true) →
    (hfit : FitsL ps) → (rest : List Desc) → (prep : Bool) →
    ∃ pr, prepValues ps ps.length stack ((emitList ps).1 ++ rest) prep = some pr ∧
      pr.prep = prepFinal prep stack ∧ pr.code = rest ∧ ArgsOk ps stack pr.args rest
  | .nil, stack, hty, _, rest, prep => by
    cases stack <;> simp only [HasTys, Bool.false_eq_true] at hty
    exact ⟨⟨prep, [], rest⟩, by simp [FTys.length, prepValues, emitList], by simp [prepFinal], rfl, by simp [ArgsOk]⟩
  | .cons t ts, stack, hty, hfit, rest, prep => by
    cases stack with
    | nil => simp [HasTys] at hty
    | cons v vs =>
      simp only [HasTys, Bool.and_eq_true] at hty
      rw [emitList_cons, List.append_assoc]
      cases t with
      | prim p =>
        obtain ⟨a, ha⟩ := scalarArg_spec p v hty.1
        obtain ⟨pr, hpr, h1, h2, h3⟩ := prepValues_spec ts vs hty.2 hfit.2 rest
          (if (!NilFree v) = true then true else prep)
        simp only [emitParam, List.cons_append, List.nil_append, FTys.length, prepValues, ha, hpr]
        refine ⟨_, rfl, ?_, h2, ?_⟩
        · rw [h1, prepFinal_scalar p v hty.1]
        · exact ⟨⟨_, ha⟩, h3⟩
      | record fs =>
        rw [emitParam_record]
        have hsz := cEnd_le_cSize fs
        have hlt : cSize (.record fs) < 2 ^ 32 := hfit.1
        cases v with
        | record inner =>
          have hty1 : HasTys inner fs = true := by simpa [HasTy] using hty.1
          obtain ⟨r1, hr1, s1⟩ := valueLoop_spec fs ((emitList ts).1 ++ rest) inner hty1 0 0
            (Buf.zero (cSize (.record fs))) 0#32 (by simp) (Nat.dvd_zero _)
            (by simp only [Buf.zero_size]; omega) (by simp only [Buf.zero_size]; exact hlt)
          obtain ⟨pr, hpr, h1, h2, h3⟩ := prepValues_spec ts vs hty.2 hfit.2 rest (prep || r1.ret)
          simp only [List.cons_append, FTys.length, prepValues, hr1, s1.code, hpr]
          refine ⟨_, rfl, ?_, h2, ?_⟩
          · rw [h1, s1.ret]; simp [prepFinal]
          · refine ⟨⟨r1.buf, rfl, s1.size, fun hnf => ?_⟩, h3⟩
            obtain ⟨r', hr', e1, _, _, e4⟩ := newLoop_spec fs ((emitList ts).1 ++ rest) inner hty1 hnf 0 0
              (Buf.zero (cSize (.record fs))) 0#32 (by simp) (Nat.dvd_zero _)
              (by simp only [Buf.zero_size]; omega) (by simp only [Buf.zero_size]; exact hlt)
              r1 hr1 r1.buf s1.size (fun _ _ _ => rfl)
            exact ⟨r', hr', e1, by simpa [cLeaves] using e4⟩
        | nilrec =>
          obtain ⟨pr, hpr, h1, h2, h3⟩ := prepValues_spec ts vs hty.2 hfit.2 rest true
          have h0 : (1 + (emitList fs).1.length = 0) = False := by simp
          have hd : List.drop (1 + (emitList fs).1.length - 1) ((emitList fs).1 ++ ((emitList ts).1 ++ rest))
              = (emitList ts).1 ++ rest := by simp
          simp only [List.cons_append, FTys.length, prepValues, h0, if_false, hd, hpr]
          refine ⟨_, rfl, ?_, h2, ?_⟩
          · rw [h1]; simp [prepFinal, NilFree]
          · exact ⟨trivial, h3⟩
        | bool _ => simp [HasTy] at hty
        | int _ => simp [HasTy] at hty
        | long _ => simp [HasTy] at hty
        | float _ => simp [HasTy] at hty
        | double _ => simp [HasTy] at hty
        | char _ => simp [HasTy] at hty
        | string _ => simp [HasTy] at hty
        | cptr _ => simp [HasTy] at hty

/-! ### libffi accepts every non-empty struct -/
mutual
theorem cSize_pos : (t : FTy) → (h : WfTy t = true) → 0 < cSize t
  | .prim p, _ => by cases p <;> simp [cSize, primSize]
  | .record fs, h => by
    simp only [WfTy, Bool.and_eq_true, bne_iff_ne, ne_eq] at h
    have h1 := cEnd_pos fs h.2 h.1 0
    have h2 := cEnd_le_cSize fs
    omega
theorem cEnd_pos : (fs : FTys) → (h : WfTys fs = true) → (hne : ¬fs.length = 0) → (rel : Nat) →
    rel < cEnd fs rel
  | .nil, _, hne, _ => by simp [FTys.length] at hne
  | .cons t ts, h, _, rel => by
    simp only [WfTys, Bool.and_eq_true] at h
    simp only [cEnd]
    have h1 := cSize_pos t h.1
    have h2 := cEnd_ge ts (roundUp rel (cAlign t) + cSize t)
    have h3 := roundUp_ge rel (cAlign t) (cAlign_isAl t).pos
    omega
end

mutual
theorem prepOk_of_wf : (t : FTy) → (h : WfTy t = true) → prepOk t = true
  | .prim _, _ => by simp [prepOk]
  | .record fs, h => by
    have hp := cSize_pos (.record fs) h
    simp only [WfTy, Bool.and_eq_true] at h
    simp only [prepOk, Bool.and_eq_true, bne_iff_ne, ne_eq]
    exact ⟨by omega, prepOkF_of_wf fs h.2⟩
theorem prepOkF_of_wf : (fs : FTys) → (h : WfTys fs = true) → prepOkF fs = true
  | .nil, _ => by simp [prepOkF]
  | .cons t ts, h => by
    simp only [WfTys, Bool.and_eq_true] at h
    simp only [prepOkF, Bool.and_eq_true]
    exact ⟨prepOk_of_wf t h.1, prepOkF_of_wf ts h.2⟩
end

def WfRet : RetTy → Bool
  | .void => true
  | .ty t => WfTy t

/-! ### phase 1 reads back the declared signature -/
theorem parseSig_emit (ps : FTys) (r : RetTy) (tail : List Desc) :
    parseSig ps.length (emitSig ps r ++ tail) = some (ps, r, .other :: tail) := by
  have e : emitSig ps r ++ tail = (emitList ps).1 ++ (emitRet r ++ .other :: tail) := by
    simp [emitSig]
  have h1 := recordType_emitList ps (emitRet r ++ .other :: tail) (emitSig ps r ++ tail).length
    (by rw [e, List.length_append]; omega)
  rw [e] at h1 ⊢
  simp only [parseSig, h1]
  cases r with
  | void => simp [emitRet]
  | ty t =>
    cases t with
    | prim p => simp [emitRet, emitParam]
    | record fs =>
      simp only [emitRet]
      rw [emitParam_record]
      simp only [List.cons_append]
      rw [recordType_emitList fs (.other :: tail) _ (by rw [List.length_append]; omega)]

/-- `vm_execute_func_ffi` on the descriptor the emitter wrote for `(ps) -> r`, operands `stack`
of the declared types: every decision it takes -/
theorem ffiExec_spec (ps : FTys) (r : RetTy) (stack : FVals) (tail : List Desc) (libOk symOk : Bool)
    (hwf : WfTys ps = true) (hwr : WfRet r = true) (hty : HasTys stack ps = true) (hfit : FitsL ps) :
    ∃ args, ArgsOk ps stack args (emitRet r ++ .other :: tail) ∧
      ffiExec ps.length (emitSig ps r ++ tail) stack libOk symOk =
        if prepFinal false stack then .ffiFail .values
        else if !libOk then .ffiFail .library
        else if !symOk then .ffiFail .symbol
        else .call args r (emitRet r ++ .other :: tail) := by
  have e : emitSig ps r ++ tail = (emitList ps).1 ++ (emitRet r ++ .other :: tail) := by
    simp [emitSig]
  obtain ⟨pr, hpr, h1, h2, h3⟩ := prepValues_spec ps stack hty hfit (emitRet r ++ .other :: tail) false
  have hok : (prepOkF ps && retOk r) = true := by
    rw [prepOkF_of_wf ps hwf]
    cases r with
    | void => rfl
    | ty t => simpa [retOk] using prepOk_of_wf t hwr
  refine ⟨pr.args, h3, ?_⟩
  simp only [ffiExec, parseSig_emit, hok, Bool.not_true, Bool.false_eq_true, if_false]
  rw [e, hpr]
  simp only [h1, h2]

/-! ### the `prep_vals` flag -/

theorem prepFinal_nilfree (stack : FVals) (h : NilFreeL stack = true) : prepFinal false stack = false := by
  simp [prepFinal_eq, h]

/-! ### top-level statements (used by Props/C17) -/

theorem align32_zero (fs : FTys) : align32 0#32 (BitVec.ofNat 32 (cAlignF fs)) = 0#32 := by
  apply BitVec.eq_of_toNat_eq
  have h0 : roundUp 0 (cAlignF fs) = 0 := roundUp_of_dvd 0 _ (cAlignF_isAl fs).pos (Nat.dvd_zero _)
  rw [align32_toNat _ _ (cAlignF_isAl fs) (by simp [h0])]
  simp [h0]

theorem pack_unpack_top (fs : FTys) (vs : FVals) (rest : List Desc)
    (hty : HasTys vs fs = true) (hnf : NilFreeL vs = true) (hfit : cSize (.record fs) < 2 ^ 32) :
    ∃ r r', valueLoop fs fs.length vs ((emitList fs).1 ++ rest) (Buf.zero (cSize (.record fs))) 0#32 = some r ∧
      r.trace = cLeaves (.record fs) 0 ∧ r.ret = false ∧ r.code = rest ∧
      r.buf.size = cSize (.record fs) ∧
      recordNew fs fs.length ((emitList fs).1 ++ rest) r.buf 0#32 = some r' ∧
      r'.val = .record vs ∧ r'.trace = cLeaves (.record fs) 0 ∧
      r'.off.toNat = cSize (.record fs) ∧ r'.code = rest := by
  have hsz := cEnd_le_cSize fs
  obtain ⟨r, hr, s⟩ := valueLoop_spec fs rest vs hty 0 0 (Buf.zero (cSize (.record fs))) 0#32
    (by simp) (Nat.dvd_zero _) (by simp only [Buf.zero_size]; omega) (by simp only [Buf.zero_size]; exact hfit)
  obtain ⟨r', hr', e1, e2, _, e4⟩ := newLoop_spec fs rest vs hty hnf 0 0 (Buf.zero (cSize (.record fs))) 0#32
    (by simp) (Nat.dvd_zero _) (by simp only [Buf.zero_size]; omega) (by simp only [Buf.zero_size]; exact hfit)
    r hr r.buf s.size (fun _ _ _ => rfl)
  refine ⟨r, ⟨.record r'.vals, r'.code, add32 0#32 (cSize (.record fs)), r'.trace⟩, hr,
    by simpa [cLeaves] using s.trace hnf, by simp [s.ret, hnf], s.code, s.size, ?_, by simp [e1],
    by simpa [cLeaves] using e4, ?_, e2⟩
  · simp only [recordNew, align32_zero, hr']
  · simp [add32]; omega

theorem result_struct (fs : FTys) (vs : FVals) (tail : List Desc)
    (hty : HasTys vs fs = true) (hnf : NilFreeL vs = true) (hfit : cSize (.record fs) < 2 ^ 32) :
    ∃ r, valueLoop fs fs.length vs ((emitList fs).1 ++ .other :: tail) (Buf.zero (cSize (.record fs))) 0#32 = some r ∧
      ffiResult (emitRet (.ty (.record fs)) ++ .other :: tail) r.buf = some (.record vs, .other :: tail) := by
  obtain ⟨r, r', hr, _, _, _, _, hr', hv, _, _, hc⟩ := pack_unpack_top fs vs (.other :: tail) hty hnf hfit
  refine ⟨r, hr, ?_⟩
  have hps := parseSig_emit .nil (.ty (.record fs)) tail
  simp only [emitSig, emitList, List.nil_append, FTys.length, emitRet] at hps
  simp only [emitRet]
  rw [emitParam_record] at hps ⊢
  simp only [List.cons_append, List.append_assoc, List.nil_append] at hps ⊢
  simp only [ffiResult, hps, hr', hv, hc]

theorem exec_nilfree (ps : FTys) (r : RetTy) (stack : FVals) (tail : List Desc)
    (hwf : WfTys ps = true) (hwr : WfRet r = true) (hty : HasTys stack ps = true) (hfit : FitsL ps) :
    parseSig ps.length (emitSig ps r ++ tail) = some (ps, r, .other :: tail) ∧
    ∃ pr, prepValues ps ps.length stack (emitSig ps r ++ tail) false = some pr ∧
      pr.code = emitRet r ++ .other :: tail ∧ ArgsOk ps stack pr.args (emitRet r ++ .other :: tail) ∧
      (NilFreeL stack = true →
        ffiExec ps.length (emitSig ps r ++ tail) stack true true
          = .call pr.args r (emitRet r ++ .other :: tail)) := by
  have e : emitSig ps r ++ tail = (emitList ps).1 ++ (emitRet r ++ .other :: tail) := by
    simp [emitSig]
  refine ⟨parseSig_emit ps r tail, ?_⟩
  obtain ⟨pr, hpr, h1, h2, h3⟩ := prepValues_spec ps stack hty hfit (emitRet r ++ .other :: tail) false
  refine ⟨pr, by rw [e]; exact hpr, h2, h3, fun hnf => ?_⟩
  have hok : (prepOkF ps && retOk r) = true := by
    rw [prepOkF_of_wf ps hwf]
    cases r with
    | void => rfl
    | ty t => simpa [retOk] using prepOk_of_wf t hwr
  have hpf : prepFinal false stack = false := prepFinal_nilfree stack hnf
  simp only [ffiExec, parseSig_emit, hok, Bool.not_true, Bool.false_eq_true, if_false]
  rw [e, hpr]
  simp [h1, h2, hpf]

theorem exec_missing (count : Nat) (code : List Desc) (stack : FVals) (libOk symOk : Bool)
    (h : libOk = false ∨ symOk = false) :
    ∀ args r rest, ffiExec count code stack libOk symOk ≠ .call args r rest := by
  intro args r rest
  unfold ffiExec
  split
  · simp
  · split
    · simp
    · split
      · simp
      · split
        · simp
        · rcases h with h | h <;> subst h <;> simp
          split <;> simp

/-- full strength: on the emitted descriptor, with operands of the declared types, a nil string /
nil record anywhere among the operands (top level or nested) stops the call with `ffi_fail`, and
without any the call is made -/
theorem exec_full (ps : FTys) (r : RetTy) (stack : FVals) (tail : List Desc)
    (hwf : WfTys ps = true) (hwr : WfRet r = true) (hty : HasTys stack ps = true) (hfit : FitsL ps) :
    (NilFreeL stack = false →
      ffiExec ps.length (emitSig ps r ++ tail) stack true true = .ffiFail .values) ∧
    (NilFreeL stack = true →
      ∃ args, ArgsOk ps stack args (emitRet r ++ .other :: tail) ∧
        ffiExec ps.length (emitSig ps r ++ tail) stack true true
          = .call args r (emitRet r ++ .other :: tail)) := by
  obtain ⟨args, hok, hx⟩ := ffiExec_spec ps r stack tail true true hwf hwr hty hfit
  constructor
  · intro h; rw [hx]; simp [prepFinal_eq, h]
  · intro h; exact ⟨args, hok, by rw [hx]; simp [prepFinal_eq, h]⟩

def FVals.append : FVals → FVals → FVals
  | .nil, ys => ys
  | .cons x xs, ys => .cons x (xs.append ys)

/-- an operand holding a nil, at any position, makes the operand list not nil-free -/
theorem nilFreeL_append_cons : (pre : FVals) → (v : FVal) → (post : FVals) → (h : NilFree v = false) →
    NilFreeL (pre.append (.cons v post)) = false
  | .nil, v, post, h => by simp [FVals.append, NilFreeL, h]
  | .cons x pre, v, post, h => by
    simp [FVals.append, NilFreeL, nilFreeL_append_cons pre v post h]

end Never.Ffi
