import NeverModel.Lemmas.VmEffect2
set_option linter.unusedSimpArgs false
set_option linter.unusedVariables false
/-! exact stack-pointer movement of the popping / pushing loops of M-VM -/
namespace Never.Vm
open Never Never.Num

/-- started with `sp = s`, a completed run of `f` ends with `sp = s + d` exactly (fp/pp/stack size untouched) -/
def MovAt {α} (s d : Int) (f : M α) : Prop :=
  ∀ vm a vm', vm.sp = s → f.run vm = .ok (a, vm') →
    vm'.sp = s + d ∧ vm'.fp = vm.fp ∧ vm'.pp = vm.pp ∧ vm'.stackSize = vm.stackSize

theorem MovAt.bind {α β} {s d1 d2 d : Int} {f : M α} {g : α → M β} (hf : MovAt s d1 f) (hg : ∀ a, MovAt (s + d1) d2 (g a))
    (hd : d = d1 + d2) : MovAt s d (f >>= g) := by
  intro vm b vm'' hs h
  obtain ⟨a, vm', h1, h2⟩ := (run_bind_ok f g vm vm'' b).mp h
  obtain ⟨a1, a2, a3, a4⟩ := hf vm a vm' hs h1
  obtain ⟨b1, b2, b3, b4⟩ := hg a vm' b vm'' a1 h2
  exact ⟨by omega, by omega, by omega, by omega⟩

theorem MovAt.of_keeps {α} {s : Int} {f : M α} (hf : KeepsSp f) : MovAt s 0 f := by
  intro vm a vm' hs h
  obtain ⟨a1, a2, a3, a4⟩ := hf vm a vm' h
  exact ⟨by omega, a2, a3, a4⟩

theorem MovAt.setSp (s v : Int) : MovAt s (v - s) (Vm.setSp v) := by
  intro vm a vm' hs h
  obtain ⟨t1, t2, t3, t4, _⟩ := keeps_setSp_run _ _ _ _ h
  exact ⟨by omega, t2, t3, t4⟩

theorem MovAt.getSp_bind {β} {s d : Int} {g : Int → M β} (hg : MovAt s d (g s)) : MovAt s d (getSp >>= g) := by
  intro vm b vm'' hs h
  obtain ⟨a, vm', h1, h2⟩ := (run_bind_ok getSp g vm vm'' b).mp h
  obtain ⟨rfl, rfl⟩ := getSp_run _ _ _ h1
  subst hs
  exact hg _ _ _ rfl h2

theorem MovAt.toEff {α} {s d : Int} {f : M α} (h : MovAt s d f) : EffAt s d f := by
  intro vm a vm' hs hr
  obtain ⟨a1, a2, a3, a4⟩ := h vm a vm' hs hr
  exact ⟨a2, a3, a4, Or.inl a1⟩

theorem pushAddr_mov (s : Int) (a : Nat) : MovAt s 1 (Vm.pushAddr a) := by
  intro vm u vm' hs h
  unfold Vm.pushAddr at h
  simp only [Bind.bind, StateT.bind, StateT.run, get, getThe, MonadStateOf.get, StateT.get, pure, StateT.pure, Except.pure, Except.bind] at h
  cases hp : pushP vm a with
  | error e =>
    rw [hp] at h
    simp [liftE, throw, throwThe, MonadExceptOf.throw, StateT.lift, liftM, monadLift, MonadLift.monadLift, Except.bind, Bind.bind] at h
  | ok v1 =>
    rw [hp] at h
    simp [liftE, set, StateT.set, pure, StateT.pure, Except.pure] at h
    obtain ⟨_, rfl⟩ := h
    obtain ⟨q1, q2, q3, q4⟩ := pushP_regs vm _ a hp
    exact ⟨by omega, q2, q3, q4⟩

/-- `popAddrs n` pops exactly `n` slots -/
theorem popAddrs_mov (n : Nat) : ∀ s, MovAt s (-(n : Int)) (popAddrs n) := by
  induction n with
  | zero => intro s; unfold popAddrs; exact MovAt.of_keeps (KeepsSp.pure _)
  | succ n ih =>
    intro s
    unfold popAddrs
    apply MovAt.getSp_bind
    refine MovAt.bind (MovAt.of_keeps (keeps_rdAddr s)) (fun a => ?_) (d2 := -((n : Int) + 1)) (by omega)
    refine MovAt.bind (MovAt.setSp _ _) (fun _ => ?_) (d2 := -(n : Int)) (by omega)
    refine MovAt.bind (ih _) (fun _ => MovAt.of_keeps (KeepsSp.pure _)) (by omega)

/-- `popInts n` pops exactly `n` slots -/
theorem popInts_mov (n : Nat) : ∀ s, MovAt s (-(n : Int)) (popInts n) := by
  induction n with
  | zero => intro s; unfold popInts; exact MovAt.of_keeps (KeepsSp.pure _)
  | succ n ih =>
    intro s
    unfold popInts
    apply MovAt.getSp_bind
    refine MovAt.bind (MovAt.of_keeps (by keeps)) (fun a => ?_) (d2 := -((n : Int) + 1)) (by omega)
    refine MovAt.bind (MovAt.of_keeps (by keeps)) (fun a => ?_) (d2 := -((n : Int) + 1)) (by omega)
    refine MovAt.bind (MovAt.setSp _ _) (fun _ => ?_) (d2 := -(n : Int)) (by omega)
    refine MovAt.bind (ih _) (fun _ => MovAt.of_keeps (KeepsSp.pure _)) (by omega)

/-- `allocLoop n` pushes exactly `n` slots -/
theorem allocLoop_mov (n : Nat) : ∀ s, MovAt s (n : Int) (allocLoop n) := by
  induction n with
  | zero => intro s; unfold allocLoop; exact MovAt.of_keeps (KeepsSp.pure _)
  | succ n ih =>
    intro s
    unfold allocLoop
    refine MovAt.bind (MovAt.of_keeps (keeps_alloc _)) (fun a => ?_) (d2 := (n : Int) + 1) (by omega)
    refine MovAt.bind (pushAddr_mov _ _) (fun _ => ih _) (by omega)


/-- a popping loop that may stop early with an exception: `some` = all `n` slots popped, `none` = raised -/
def PopOpt {α} (s : Int) (n : Nat) (f : M (Option α)) : Prop :=
  ∀ vm r vm', vm.sp = s → f.run vm = .ok (r, vm') →
    vm'.fp = vm.fp ∧ vm'.pp = vm.pp ∧ vm'.stackSize = vm.stackSize ∧
    (r.isSome = true → vm'.sp = s - (n : Int)) ∧ (r = none → vm'.running = 2)

theorem raise_run (e : Nat) (vm : Vm) (u : Unit) (vm' : Vm) (h : (raise e).run vm = .ok (u, vm')) :
    vm'.running = 2 ∧ vm'.sp = vm.sp ∧ vm'.fp = vm.fp ∧ vm'.pp = vm.pp ∧ vm'.stackSize = vm.stackSize := by
  simp [raise, modify, modifyGet, MonadStateOf.modifyGet, StateT.modifyGet, StateT.run, pure, Except.pure] at h
  obtain ⟨_, rfl⟩ := h
  exact ⟨rfl, rfl, rfl, rfl, rfl⟩

theorem popExts_spec (n : Nat) : ∀ s, PopOpt s n (popExts n) := by
  induction n with
  | zero =>
    intro s vm r vm' hs h
    unfold popExts at h
    obtain ⟨rfl, rfl⟩ := (run_pure_ok _ _ _ _).mp h
    exact ⟨rfl, rfl, rfl, fun _ => by simp [hs], fun h => by cases h⟩
  | succ n ih =>
    intro s vm r vm' hs h
    unfold popExts at h
    obtain ⟨sp, v0, h0, h⟩ := (run_bind_ok _ _ _ _ _).mp h
    obtain ⟨rfl, rfl⟩ := getSp_run _ _ _ h0
    obtain ⟨a1, v1, h1, h⟩ := (run_bind_ok _ _ _ _ _).mp h
    obtain ⟨k1, k2, k3, k4⟩ := keeps_rdAddr _ _ _ _ h1
    obtain ⟨e, v2, h2, h⟩ := (run_bind_ok _ _ _ _ _).mp h
    obtain ⟨l1, l2, l3, l4⟩ := keeps_getInt _ _ _ _ h2
    obtain ⟨u, v3, h3, h⟩ := (run_bind_ok _ _ _ _ _).mp h
    obtain ⟨m1, m2, m3, m4, _⟩ := keeps_setSp_run _ _ _ _ h3
    split at h
    · obtain ⟨u2, v4, h4, h⟩ := (run_bind_ok _ _ _ _ _).mp h
      obtain ⟨q0, q1, q2, q3, q4⟩ := raise_run _ _ _ _ h4
      obtain ⟨rfl, rfl⟩ := (run_pure_ok _ _ _ _).mp h
      exact ⟨by omega, by omega, by omega, fun h => by simp at h, fun _ => q0⟩
    · obtain ⟨r2, v4, h4, h⟩ := (run_bind_ok _ _ _ _ _).mp h
      obtain ⟨p1, p2, p3, p4, p5⟩ := ih _ v3 r2 v4 m1 h4
      cases r2 with
      | none =>
        obtain ⟨rfl, rfl⟩ := (run_pure_ok _ _ _ _).mp h
        exact ⟨by omega, by omega, by omega, fun h => by simp at h, fun _ => p5 rfl⟩
      | some rr =>
        obtain ⟨rfl, rfl⟩ := (run_pure_ok _ _ _ _).mp h
        have := p4 rfl
        exact ⟨by omega, by omega, by omega, fun _ => by omega, fun h => by cases h⟩

theorem popIndices_spec (n : Nat) : ∀ s, PopOpt s n (popIndices n) := by
  induction n with
  | zero =>
    intro s vm r vm' hs h
    unfold popIndices at h
    obtain ⟨rfl, rfl⟩ := (run_pure_ok _ _ _ _).mp h
    exact ⟨rfl, rfl, rfl, fun _ => by simp [hs], fun h => by cases h⟩
  | succ n ih =>
    intro s vm r vm' hs h
    unfold popIndices at h
    obtain ⟨sp, v0, h0, h⟩ := (run_bind_ok _ _ _ _ _).mp h
    obtain ⟨rfl, rfl⟩ := getSp_run _ _ _ h0
    obtain ⟨a1, v1, h1, h⟩ := (run_bind_ok _ _ _ _ _).mp h
    obtain ⟨k1, k2, k3, k4⟩ := keeps_rdAddr _ _ _ _ h1
    obtain ⟨e, v2, h2, h⟩ := (run_bind_ok _ _ _ _ _).mp h
    obtain ⟨l1, l2, l3, l4⟩ := keeps_getInt _ _ _ _ h2
    obtain ⟨u, v3, h3, h⟩ := (run_bind_ok _ _ _ _ _).mp h
    obtain ⟨m1, m2, m3, m4, _⟩ := keeps_setSp_run _ _ _ _ h3
    split at h
    · obtain ⟨u2, v4, h4, h⟩ := (run_bind_ok _ _ _ _ _).mp h
      obtain ⟨q0, q1, q2, q3, q4⟩ := raise_run _ _ _ _ h4
      obtain ⟨rfl, rfl⟩ := (run_pure_ok _ _ _ _).mp h
      exact ⟨by omega, by omega, by omega, fun h => by simp at h, fun _ => q0⟩
    · obtain ⟨r2, v4, h4, h⟩ := (run_bind_ok _ _ _ _ _).mp h
      obtain ⟨p1, p2, p3, p4, p5⟩ := ih _ v3 r2 v4 m1 h4
      cases r2 with
      | none =>
        obtain ⟨rfl, rfl⟩ := (run_pure_ok _ _ _ _).mp h
        exact ⟨by omega, by omega, by omega, fun h => by simp at h, fun _ => p5 rfl⟩
      | some rr =>
        obtain ⟨rfl, rfl⟩ := (run_pure_ok _ _ _ _).mp h
        have := p4 rfl
        exact ⟨by omega, by omega, by omega, fun _ => by omega, fun h => by cases h⟩


/-- a Boolean-returning loop that keeps `sp`; `false` means it raised -/
theorem EffAt.bool_bind {β} {s d : Int} {f : M Bool} {g : Bool → M β} (hk : KeepsSp f)
    (hf : ∀ vm vm', f.run vm = .ok (false, vm') → vm'.running = 2)
    (ht : EffAt s d (g true)) (hfalse : ∀ vm b vm', (g false).run vm = .ok (b, vm') → vm' = vm) : EffAt s d (f >>= g) := by
  intro vm b vm'' hs h
  obtain ⟨r, vm', h1, h2⟩ := (run_bind_ok f g vm vm'' b).mp h
  obtain ⟨a1, a2, a3, a4⟩ := hk vm r vm' h1
  cases r with
  | true =>
    obtain ⟨b1, b2, b3, b4⟩ := ht vm' b vm'' (by omega) h2
    exact ⟨by omega, by omega, by omega, b4⟩
  | false =>
    have := hfalse vm' b vm'' h2
    subst this
    exact ⟨a2, a3, a4, Or.inr (Or.inl (hf vm _ h1))⟩

theorem composeRanges_false (r1 r2 res : Nat) (n : Nat) : ∀ d vm vm', (composeRanges r1 r2 res d n).run vm = .ok (false, vm') → vm'.running = 2 := by
  induction n with
  | zero =>
    intro d vm vm' h
    unfold composeRanges at h
    obtain ⟨h1, _⟩ := (run_pure_ok _ _ _ _).mp h
    cases h1
  | succ n ih =>
    intro d vm vm' h
    unfold composeRanges at h
    obtain ⟨p1, v1, h1, h⟩ := (run_bind_ok _ _ _ _ _).mp h
    obtain ⟨a, b⟩ := p1
    obtain ⟨p2, v2, h2, h⟩ := (run_bind_ok _ _ _ _ _).mp h
    obtain ⟨c, e⟩ := p2
    simp only at h
    split at h
    · obtain ⟨u, v3, h3, h⟩ := (run_bind_ok _ _ _ _ _).mp h
      obtain ⟨q0, _⟩ := raise_run _ _ _ _ h3
      obtain ⟨_, rfl⟩ := (run_pure_ok _ _ _ _).mp h
      exact q0
    · obtain ⟨fa, v3, h3, h⟩ := (run_bind_ok _ _ _ _ _).mp h
      obtain ⟨ta, v4, h4, h⟩ := (run_bind_ok _ _ _ _ _).mp h
      obtain ⟨u1, v5, h5, h⟩ := (run_bind_ok _ _ _ _ _).mp h
      obtain ⟨u2, v6, h6, h⟩ := (run_bind_ok _ _ _ _ _).mp h
      exact ih _ _ _ h


theorem EffAt.mov_bind {α β} {s d1 d2 d : Int} {f : M α} {g : α → M β} (hf : MovAt s d1 f) (hg : ∀ a, EffAt (s + d1) d2 (g a))
    (hd : d = d1 + d2) : EffAt s d (f >>= g) := by
  intro vm b vm'' hs h
  obtain ⟨a, vm', h1, h2⟩ := (run_bind_ok f g vm vm'' b).mp h
  obtain ⟨a1, a2, a3, a4⟩ := hf vm a vm' hs h1
  obtain ⟨b1, b2, b3, b4⟩ := hg a vm' b vm'' a1 h2
  refine ⟨by omega, by omega, by omega, ?_⟩
  rcases b4 with b4 | b4
  · left; omega
  · right; exact b4

theorem EffAt.popOpt_bind {α β} {s d2 d : Int} {n : Nat} {f : M (Option α)} {g : Option α → M β} (hf : PopOpt s n f)
    (hnone : ∀ vm b vm', (g none).run vm = .ok (b, vm') → vm' = vm)
    (hsome : ∀ x, EffAt (s - (n : Int)) d2 (g (some x))) (hd : d = -(n : Int) + d2) : EffAt s d (f >>= g) := by
  intro vm b vm'' hs h
  obtain ⟨r, vm', h1, h2⟩ := (run_bind_ok f g vm vm'' b).mp h
  obtain ⟨a1, a2, a3, a4, a5⟩ := hf vm r vm' hs h1
  cases r with
  | none =>
    have := hnone vm' b vm'' h2
    subst this
    exact ⟨a1, a2, a3, Or.inr (Or.inl (a5 rfl))⟩
  | some x =>
    obtain ⟨b1, b2, b3, b4⟩ := hsome x vm' b vm'' (a4 rfl) h2
    refine ⟨by omega, by omega, by omega, ?_⟩
    rcases b4 with b4 | b4
    · left; omega
    · right; exact b4

/-- a Boolean-returning popping loop: `true` = `n` slots popped, `false` = raised -/
theorem EffAt.boolmov_bind {β} {s d2 d : Int} {n : Nat} {f : M Bool} {g : Bool → M β}
    (hf : ∀ vm r vm', vm.sp = s → f.run vm = .ok (r, vm') →
      vm'.fp = vm.fp ∧ vm'.pp = vm.pp ∧ vm'.stackSize = vm.stackSize ∧ (r = true → vm'.sp = s - (n : Int)) ∧ (r = false → vm'.running = 2))
    (ht : EffAt (s - (n : Int)) d2 (g true)) (hfalse : ∀ vm b vm', (g false).run vm = .ok (b, vm') → vm' = vm)
    (hd : d = -(n : Int) + d2) : EffAt s d (f >>= g) := by
  intro vm b vm'' hs h
  obtain ⟨r, vm', h1, h2⟩ := (run_bind_ok f g vm vm'' b).mp h
  obtain ⟨a1, a2, a3, a4, a5⟩ := hf vm r vm' hs h1
  cases r with
  | true =>
    obtain ⟨b1, b2, b3, b4⟩ := ht vm' b vm'' (a4 rfl) h2
    refine ⟨by omega, by omega, by omega, ?_⟩
    rcases b4 with b4 | b4
    · left; omega
    · right; exact b4
  | false =>
    have := hfalse vm' b vm'' h2
    subst this
    exact ⟨a1, a2, a3, Or.inr (Or.inl (a5 rfl))⟩

theorem rangeDerefLoop_spec (range array : Nat) (n : Nat) : ∀ d s vm r vm', vm.sp = s → (rangeDerefLoop range array d n).run vm = .ok (r, vm') →
    vm'.fp = vm.fp ∧ vm'.pp = vm.pp ∧ vm'.stackSize = vm.stackSize ∧ (r = true → vm'.sp = s - (n : Int)) ∧ (r = false → vm'.running = 2) := by
  induction n with
  | zero =>
    intro d s vm r vm' hs h
    unfold rangeDerefLoop at h
    obtain ⟨rfl, rfl⟩ := (run_pure_ok _ _ _ _).mp h
    exact ⟨rfl, rfl, rfl, fun _ => by simp [hs], fun h => by cases h⟩
  | succ n ih =>
    intro d s vm r vm' hs h
    unfold rangeDerefLoop at h
    obtain ⟨p1, v1, h1, h⟩ := (run_bind_ok _ _ _ _ _).mp h
    obtain ⟨k1, k2, k3, k4⟩ := keeps_rangePair _ _ _ _ _ h1
    obtain ⟨f, t⟩ := p1
    simp only at h
    obtain ⟨sp, v0, h0, h⟩ := (run_bind_ok _ _ _ _ _).mp h
    obtain ⟨rfl, rfl⟩ := getSp_run _ _ _ h0
    obtain ⟨a1, v2, h2, h⟩ := (run_bind_ok _ _ _ _ _).mp h
    obtain ⟨l1, l2, l3, l4⟩ := keeps_rdAddr _ _ _ _ h2
    obtain ⟨i, v3, h3, h⟩ := (run_bind_ok _ _ _ _ _).mp h
    obtain ⟨m1, m2, m3, m4⟩ := keeps_getInt _ _ _ _ h3
    obtain ⟨u, v4, h4, h⟩ := (run_bind_ok _ _ _ _ _).mp h
    obtain ⟨n1, n2, n3, n4, _⟩ := keeps_setSp_run _ _ _ _ h4
    split at h
    · obtain ⟨u2, v5, h5, h⟩ := (run_bind_ok _ _ _ _ _).mp h
      obtain ⟨q0, q1, q2, q3, q4⟩ := raise_run _ _ _ _ h5
      obtain ⟨rfl, rfl⟩ := (run_pure_ok _ _ _ _).mp h
      exact ⟨by omega, by omega, by omega, fun h => Bool.noConfusion h, fun _ => q0⟩
    · obtain ⟨ra, v5, h5, h⟩ := (run_bind_ok _ _ _ _ _).mp h
      obtain ⟨o1, o2, o3, o4⟩ := keeps_alloc _ _ _ _ h5
      obtain ⟨u3, v6, h6, h⟩ := (run_bind_ok _ _ _ _ _).mp h
      obtain ⟨p1, p2, p3, p4⟩ := keeps_setArrElem _ _ _ _ _ _ h6
      obtain ⟨r1, r2, r3, r4, r5⟩ := ih _ _ v6 r vm' rfl h
      exact ⟨by omega, by omega, by omega, fun e => by have := r4 e; omega, r5⟩

/-- selects the handler of a concrete opcode inside `exec` and runs the effect automation -/
macro "exec_eff" h:ident : tactic => `(tactic|
  (unfold exec
   simp only [$h:ident, binOpOf, unOpOf, convOf, nilCmpOf, strAddOf, arrOpOf, mkArrayElem]
   eff))

macro "exec_sel" h:ident : tactic => `(tactic|
  (unfold exec
   simp only [$h:ident, binOpOf, unOpOf, convOf, nilCmpOf, strAddOf, arrOpOf, mkArrayElem]
   refine EffAt.getSp_bind ?_))

end Never.Vm
