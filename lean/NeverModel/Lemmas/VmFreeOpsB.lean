import NeverModel.Lemmas.VmFree
set_option linter.unusedSimpArgs false
set_option linter.unusedVariables false
/-! per-opcode: the handler keeps the heap's bookkeeping invariant (generated list) -/
namespace Never.Vm
open Never Never.Num

set_option maxRecDepth 8000 in
theorem kfop_VECREF_DEREF (md : Module) (ins : Instr) (orc : Oracle) (h : ins.op = .VECREF_DEREF) : KF none (exec md ins orc) := by exec_kf h

set_option maxRecDepth 8000 in
theorem kfop_LABEL (md : Module) (ins : Instr) (orc : Oracle) (h : ins.op = .LABEL) : KF none (exec md ins orc) := by exec_kf h

set_option maxRecDepth 8000 in
theorem kfop_LINE (md : Module) (ins : Instr) (orc : Oracle) (h : ins.op = .LINE) : KF none (exec md ins orc) := by exec_kf h

set_option maxRecDepth 8000 in
theorem kfop_FUNC_DEF (md : Module) (ins : Instr) (orc : Oracle) (h : ins.op = .FUNC_DEF) : KF none (exec md ins orc) := by exec_kf h

set_option maxRecDepth 8000 in
theorem kfop_FUNC_OBJ (md : Module) (ins : Instr) (orc : Oracle) (h : ins.op = .FUNC_OBJ) : KF none (exec md ins orc) := by exec_kf h

set_option maxRecDepth 8000 in
theorem kfop_OP_INC_INT (md : Module) (ins : Instr) (orc : Oracle) (h : ins.op = .OP_INC_INT) : KF none (exec md ins orc) := by exec_kf h

set_option maxRecDepth 8000 in
theorem kfop_OP_DEC_INT (md : Module) (ins : Instr) (orc : Oracle) (h : ins.op = .OP_DEC_INT) : KF none (exec md ins orc) := by exec_kf h

set_option maxRecDepth 8000 in
theorem kfop_OP_ADD_STRING (md : Module) (ins : Instr) (orc : Oracle) (h : ins.op = .OP_ADD_STRING) : KF none (exec md ins orc) := by exec_kf h

set_option maxRecDepth 8000 in
theorem kfop_OP_EQ_STRING (md : Module) (ins : Instr) (orc : Oracle) (h : ins.op = .OP_EQ_STRING) : KF none (exec md ins orc) := by exec_kf h

set_option maxRecDepth 8000 in
theorem kfop_OP_NEQ_STRING (md : Module) (ins : Instr) (orc : Oracle) (h : ins.op = .OP_NEQ_STRING) : KF none (exec md ins orc) := by exec_kf h

set_option maxRecDepth 8000 in
theorem kfop_OP_EQ_C_PTR (md : Module) (ins : Instr) (orc : Oracle) (h : ins.op = .OP_EQ_C_PTR) : KF none (exec md ins orc) := by exec_kf h

set_option maxRecDepth 8000 in
theorem kfop_OP_NEQ_C_PTR (md : Module) (ins : Instr) (orc : Oracle) (h : ins.op = .OP_NEQ_C_PTR) : KF none (exec md ins orc) := by exec_kf h

set_option maxRecDepth 8000 in
theorem kfop_OP_EQ_NIL (md : Module) (ins : Instr) (orc : Oracle) (h : ins.op = .OP_EQ_NIL) : KF none (exec md ins orc) := by exec_kf h

set_option maxRecDepth 8000 in
theorem kfop_OP_NEQ_NIL (md : Module) (ins : Instr) (orc : Oracle) (h : ins.op = .OP_NEQ_NIL) : KF none (exec md ins orc) := by exec_kf h

set_option maxRecDepth 8000 in
theorem kfop_SLICE_ARRAY (md : Module) (ins : Instr) (orc : Oracle) (h : ins.op = .SLICE_ARRAY) : KF none (exec md ins orc) := by exec_kf h

set_option maxRecDepth 8000 in
theorem kfop_SLICE_RANGE (md : Module) (ins : Instr) (orc : Oracle) (h : ins.op = .SLICE_RANGE) : KF none (exec md ins orc) := by exec_kf h

set_option maxRecDepth 8000 in
theorem kfop_SLICE_SLICE (md : Module) (ins : Instr) (orc : Oracle) (h : ins.op = .SLICE_SLICE) : KF none (exec md ins orc) := by exec_kf h

set_option maxRecDepth 8000 in
theorem kfop_SLICE_STRING (md : Module) (ins : Instr) (orc : Oracle) (h : ins.op = .SLICE_STRING) : KF none (exec md ins orc) := by exec_kf h

set_option maxRecDepth 8000 in
theorem kfop_STRING_DEREF (md : Module) (ins : Instr) (orc : Oracle) (h : ins.op = .STRING_DEREF) : KF none (exec md ins orc) := by exec_kf h

set_option maxRecDepth 8000 in
theorem kfop_VECREF_VEC_INDEX_DEREF (md : Module) (ins : Instr) (orc : Oracle) (h : ins.op = .VECREF_VEC_INDEX_DEREF) : KF none (exec md ins orc) := by exec_kf h

set_option maxRecDepth 8000 in
theorem kfop_OP_ASS_INT (md : Module) (ins : Instr) (orc : Oracle) (h : ins.op = .OP_ASS_INT) : KF none (exec md ins orc) := by exec_kf h

set_option maxRecDepth 8000 in
theorem kfop_OP_ASS_LONG (md : Module) (ins : Instr) (orc : Oracle) (h : ins.op = .OP_ASS_LONG) : KF none (exec md ins orc) := by exec_kf h

end Never.Vm
