import NeverModel.Model.Ledger
import NeverModel.Lemmas.InvCollect
set_option linter.unusedSimpArgs false
set_option linter.unusedVariables false
/-!
the allocator ledger: every operation of the collector frees only live blocks, each once,
never hands out a live name again, and the allocator's live set is exactly what the
collector state accounts for (`Gc.owned`); `gc_delete` releases everything.
-/
namespace Never
open Mem

/-! ### blocks of a cell -/

theorem mem_blocksOfCell {b : Block} {a' : Nat} {oo : Option Obj} :
    b ∈ blocksOfCell a' oo ↔ b.1 = a' ∧ ∃ o, oo = some o ∧ b.2 < blocksOf o := by
  obtain ⟨a, k⟩ := b
  cases oo with
  | none => simp [blocksOfCell]
  | some o =>
    simp only [blocksOfCell, List.mem_map, List.mem_range, Prod.mk.injEq, Option.some.injEq]
    constructor
    · rintro ⟨x, hx, h1, h2⟩; subst h2; exact ⟨h1.symm, o, rfl, hx⟩
    · rintro ⟨h1, o', h2, h3⟩; subst h2; exact ⟨k, h3, h1.symm, rfl⟩

theorem mem_blocksAt {b : Block} {m : Mem} {a' : Nat} :
    b ∈ blocksAt m a' ↔ b.1 = a' ∧ ∃ o, objAt m b.1 = some o ∧ b.2 < blocksOf o := by
  unfold blocksAt
  rw [mem_blocksOfCell]
  constructor
  · rintro ⟨h1, h2⟩; rw [h1]; exact ⟨rfl, h2⟩
  · rintro ⟨h1, h2⟩; rw [h1] at h2; exact ⟨h1, h2⟩

theorem nodup_blocksOfCell (a : Nat) (oo : Option Obj) : (blocksOfCell a oo).Nodup := by
  cases oo with
  | none => simp [blocksOfCell]
  | some o =>
    simp only [blocksOfCell]
    apply List.pairwise_map.mpr
    exact List.Pairwise.imp (fun h => by simpa using h) List.nodup_range

theorem length_blocksOfCell (a : Nat) (o : Obj) : (blocksOfCell a (some o)).length = blocksOf o := by
  simp [blocksOfCell]

theorem nodup_blocksAt (m : Mem) (a : Nat) : (blocksAt m a).Nodup := nodup_blocksOfCell _ _

theorem nodup_flatMap_blocksAt (m : Mem) {l : List Nat} (h : l.Nodup) : (l.flatMap (blocksAt m)).Nodup := by
  apply List.pairwise_flatMap.mpr
  refine ⟨fun a _ => nodup_blocksAt m a, ?_⟩
  refine List.Pairwise.imp ?_ h
  intro a1 a2 hne x hx y hy hxy
  subst hxy
  exact hne ((mem_blocksAt.mp hx).1.symm.trans (mem_blocksAt.mp hy).1)

theorem mem_flatMap_blocksAt {m : Mem} {l : List Nat} {b : Block} :
    b ∈ l.flatMap (blocksAt m) ↔ b.1 ∈ l ∧ ∃ o, objAt m b.1 = some o ∧ b.2 < blocksOf o := by
  rw [List.mem_flatMap]
  constructor
  · rintro ⟨a, ha, hb⟩
    obtain ⟨h1, h2⟩ := mem_blocksAt.mp hb
    exact ⟨h1 ▸ ha, h2⟩
  · rintro ⟨h1, h2⟩
    exact ⟨b.1, h1, mem_blocksAt.mpr ⟨rfl, h2⟩⟩

theorem mem_gcBlocks {b : Block} : b ∈ gcBlocks ↔ b.1 = 0 ∧ b.2 < 4 := by
  obtain ⟨a, k⟩ := b
  simp only [gcBlocks, List.mem_cons, Prod.mk.injEq, List.mem_nil_iff, or_false]
  omega

/-! ### the owned set -/

/-- balance invariant: the allocator's live set is duplicate-free and is exactly what the collector state accounts for -/
structure Bal (s : LSt) : Prop where
  nodup : s.live.Nodup
  mem : ∀ b, b ∈ s.live ↔ b ∈ s.g.owned

theorem owned_nodup {g : Gc} {fl : List Nat} (inv : InvL g fl) : g.owned.Nodup := by
  unfold Gc.owned
  apply List.nodup_append.mpr
  refine ⟨by decide, nodup_flatMap_blocksAt _ inv.cur_nodup, ?_⟩
  intro x hx y hy hxy
  subst hxy
  obtain ⟨_, o, ho, _⟩ := mem_flatMap_blocksAt.mp hy
  rw [(mem_gcBlocks.mp hx).1, inv.nil_none] at ho
  cases ho

/-- membership in `owned` in terms of cells -/
theorem mem_owned {g : Gc} {fl : List Nat} (inv : InvL g fl) (b : Block) :
    b ∈ g.owned ↔ b ∈ gcBlocks ∨ ∃ o, objAt g.mem b.1 = some o ∧ b.2 < blocksOf o := by
  unfold Gc.owned
  rw [List.mem_append, mem_flatMap_blocksAt]
  constructor
  · rintro (h | ⟨_, h⟩)
    · exact Or.inl h
    · exact Or.inr h
  · rintro (h | ⟨o, ho, hk⟩)
    · exact Or.inl h
    · exact Or.inr ⟨(inv.cur_alloc _).mpr (by simp [ho]), o, ho, hk⟩

theorem bal_new (n : Nat) (h : 2 ≤ n) : Bal (LSt.new n) := by
  refine ⟨by show gcBlocks.Nodup; decide, ?_⟩
  intro b
  simp [LSt.new, Gc.owned, Gc.cur, Gc.new]

/-! ### the allocator -/

theorem runEvents_append (live : List Block) (xs ys : List Ev) :
    runEvents live (xs ++ ys) = (runEvents live xs).bind (fun l => runEvents l ys) := by
  induction xs generalizing live with
  | nil => simp [runEvents]
  | cons e xs ih =>
    cases e with
    | malloc b =>
      simp only [List.cons_append, runEvents]
      split
      · simp
      · exact ih _
    | free b =>
      simp only [List.cons_append, runEvents]
      split
      · exact ih _
      · simp

theorem runEvents_frees : ∀ (F live : List Block), F.Nodup → (∀ b ∈ F, b ∈ live) → live.Nodup →
    ∃ l', runEvents live (F.map .free) = some l' ∧ l'.Nodup ∧ ∀ b, b ∈ l' ↔ b ∈ live ∧ b ∉ F := by
  intro F
  induction F with
  | nil => intro live _ _ hl; exact ⟨live, by simp [runEvents], hl, by simp⟩
  | cons b F ih =>
    intro live hF hsub hl
    obtain ⟨hbF, hF'⟩ := List.nodup_cons.mp hF
    have hb : b ∈ live := hsub b (by simp)
    obtain ⟨l', h1, h2, h3⟩ := ih (live.erase b) hF'
      (by intro c hc
          rw [hl.mem_erase_iff]
          exact ⟨fun h => hbF (h ▸ hc), hsub c (List.mem_cons_of_mem _ hc)⟩)
      (hl.erase b)
    refine ⟨l', by simp only [List.map_cons, runEvents, hb, if_true]; exact h1, h2, ?_⟩
    intro c
    rw [h3 c, hl.mem_erase_iff, List.mem_cons]
    constructor
    · rintro ⟨⟨h4, h5⟩, h6⟩; exact ⟨h5, fun h => h.elim h4 h6⟩
    · rintro ⟨h4, h5⟩; exact ⟨⟨fun h => h5 (Or.inl h), h4⟩, fun h => h5 (Or.inr h)⟩

theorem runEvents_mallocs : ∀ (bs live : List Block), bs.Nodup → (∀ b ∈ bs, b ∉ live) →
    runEvents live (bs.map .malloc) = some (live ++ bs) := by
  intro bs
  induction bs with
  | nil => intro live _ _; simp [runEvents]
  | cons b bs ih =>
    intro live hbs hdis
    obtain ⟨hb, hbs'⟩ := List.nodup_cons.mp hbs
    have hbl : b ∉ live := hdis b (by simp)
    simp only [List.map_cons, runEvents, hbl, if_false]
    rw [ih (live ++ [b]) hbs' (by
      intro c hc hmem
      rcases List.mem_append.mp hmem with h | h
      · exact hdis c (List.mem_cons_of_mem _ hc) h
      · simp at h; subst h; exact hb hc)]
    simp

/-! ### the instrumented sweep -/

theorem sweepStep_frame (m : Mem) (free : Nat) (bl : List Nat) {x y : Nat} (h : x ≠ y) :
    marked (sweepStep (m, free, bl) x).1 y = marked m y ∧ objAt (sweepStep (m, free, bl) x).1 y = objAt m y := by
  unfold sweepStep
  simp only
  split
  · simp [objAt_setObj, h]
  · split
    · simp [marked_setMark, h]
    · simp

theorem foldl_sweepStepL_fst (l : List Nat) : ∀ (s : Mem × Nat × List Nat) (F : List Block),
    (l.foldl sweepStepL (s, F)).1 = l.foldl sweepStep s := by
  induction l with
  | nil => intro s F; rfl
  | cons x xs ih => intro s F; rw [List.foldl_cons, List.foldl_cons]; exact ih _ _

theorem filter_flatMap_congr {α β : Type} {p q : α → Bool} {f g : α → List β} : ∀ (l : List α),
    (∀ y ∈ l, p y = q y ∧ f y = g y) → (l.filter p).flatMap f = (l.filter q).flatMap g := by
  intro l
  induction l with
  | nil => intro _; rfl
  | cons x xs ih =>
    intro h
    have hx := h x (by simp)
    have := ih (fun y hy => h y (List.mem_cons_of_mem _ hy))
    by_cases hq : q x = true
    · simp [List.filter_cons, hx.1, hq, hx.2, this]
    · simp [List.filter_cons, hx.1, hq, this]

theorem foldl_sweepStepL_snd : ∀ (l : List Nat) (m : Mem) (free : Nat) (bl : List Nat) (F : List Block), l.Nodup →
    (l.foldl sweepStepL ((m, free, bl), F)).2 = F ++ (l.filter (fun x => !marked m x)).flatMap (blocksAt m) := by
  intro l
  induction l with
  | nil => intro m free bl F _; simp
  | cons x xs ih =>
    intro m free bl F hnd
    obtain ⟨hx, hnd'⟩ := List.nodup_cons.mp hnd
    have hstep : sweepStepL ((m, free, bl), F) x =
        (((sweepStep (m, free, bl) x).1, (sweepStep (m, free, bl) x).2.1, (sweepStep (m, free, bl) x).2.2),
          F ++ (if marked m x = false then blocksAt m x else [])) := rfl
    rw [List.foldl_cons, hstep, ih _ _ _ _ hnd']
    have hc : (xs.filter (fun y => !marked (sweepStep (m, free, bl) x).1 y)).flatMap (blocksAt (sweepStep (m, free, bl) x).1)
        = (xs.filter (fun y => !marked m y)).flatMap (blocksAt m) := by
      apply filter_flatMap_congr
      intro y hy
      have hxy : x ≠ y := fun h => hx (h ▸ hy)
      obtain ⟨h1, h2⟩ := sweepStep_frame m free bl hxy
      refine ⟨by simp only [h1], ?_⟩
      unfold blocksAt; rw [h2]
    rw [hc]
    by_cases hm : marked m x = true
    · simp [List.filter_cons, hm]
    · have hm' : marked m x = false := by simpa using hm
      simp [List.filter_cons, hm']

theorem sweepFrees_eq (g : Gc) (h : g.cur.Nodup) :
    g.sweepFrees = (g.cur.filter (fun x => !marked g.mem x)).flatMap (blocksAt g.mem) := by
  unfold Gc.sweepFrees
  rw [foldl_sweepStepL_snd _ _ _ _ _ h]; simp

/-! ### a whole collection -/

theorem markOnly_eq (g : Gc) (st : List Slot) (gp : Nat) : g.markOnly st gp = markPhase g.fuel g.mem st gp := rfl

/-- what the mark phase leaves behind on a consistent heap -/
theorem markOnly_spec {g : Gc} {fl : List Nat} {st : List Slot} {gp : Nat} (inv : InvL g fl)
    (hs : st.all (slotOk g.mem) = true) (hg : gp < g.mem.size) :
    ∃ m', g.markOnly st gp = some m' ∧ (∀ x, objAt m' x = objAt g.mem x) ∧
      (∀ x, marked m' x = true ↔ Live g.mem (allRoots st gp) x) := by
  have hfuel : 2 * U g.mem + 3 ≤ g.fuel := by have := U_le_size g.mem; unfold Gc.fuel; omega
  have htot := markPhase_total (f := g.fuel) (st := st) (gp := gp) inv.wk hs hg hfuel
  cases hmp : markPhase g.fuel g.mem st gp with
  | none => simp [hmp] at htot
  | some m' =>
    have sp := markPhase_spec hmp
    exact ⟨m', by rw [markOnly_eq, hmp], fun x => sp.post.mono.obj x, marked_iff_live sp inv.unmarked inv.nil_none⟩

/-- a collection frees exactly the blocks of the cells that are not reachable from the roots, each once -/
theorem collectFrees_spec {g : Gc} {fl : List Nat} {st : List Slot} {gp : Nat} (inv : InvL g fl)
    (hs : st.all (slotOk g.mem) = true) (hg : gp < g.mem.size) :
    (g.collectFrees st gp).Nodup ∧
    ∀ b, b ∈ g.collectFrees st gp ↔
      ∃ o, objAt g.mem b.1 = some o ∧ b.2 < blocksOf o ∧ ¬ Live g.mem (allRoots st gp) b.1 := by
  obtain ⟨m', hmk, hobj, hlive⟩ := markOnly_spec inv hs hg
  have hcur : ({ g with mem := m' } : Gc).cur = g.cur := rfl
  have heq : g.collectFrees st gp = (g.cur.filter (fun x => !marked m' x)).flatMap (blocksAt m') := by
    unfold Gc.collectFrees
    rw [hmk]
    simp only
    rw [sweepFrees_eq _ (by rw [hcur]; exact inv.cur_nodup), hcur]
  rw [heq]
  refine ⟨nodup_flatMap_blocksAt _ (List.Nodup.sublist List.filter_sublist inv.cur_nodup), ?_⟩
  intro b
  rw [mem_flatMap_blocksAt, List.mem_filter, hobj, ← hlive]
  constructor
  · rintro ⟨⟨_, hm⟩, o, ho, hk⟩
    exact ⟨o, ho, hk, by simpa using hm⟩
  · rintro ⟨o, ho, hk, hm⟩
    exact ⟨⟨(inv.cur_alloc _).mpr (by simp [ho]), by simpa using hm⟩, o, ho, hk⟩

theorem bal_collect {g g' : Gc} {live : List Block} {fl : List Nat} {st : List Slot} {gp : Nat}
    (inv : InvL g fl) (bal : Bal ⟨g, live⟩) (hs : st.all (slotOk g.mem) = true) (hg : gp < g.mem.size)
    (h : g.collect st gp = some g') :
    ∃ l, runEvents live ((g.collectFrees st gp).map .free) = some l ∧ Bal ⟨g', l⟩ := by
  obtain ⟨g2, h2, _, ⟨fl', il'⟩, e2, k2, _, _⟩ := collect_spec inv hs hg
  rw [h2] at h; cases h
  obtain ⟨hnd, hmem⟩ := collectFrees_spec inv hs hg
  obtain ⟨l, hl, hlnd, hlmem⟩ := runEvents_frees (g.collectFrees st gp) live hnd
    (by intro b hb
        obtain ⟨o, ho, hk, _⟩ := (hmem b).mp hb
        exact (bal.mem b).mpr ((mem_owned inv b).mpr (Or.inr ⟨o, ho, hk⟩)))
    bal.nodup
  refine ⟨l, hl, hlnd, ?_⟩
  intro b
  show b ∈ l ↔ b ∈ g'.owned
  rw [hlmem b, hmem b, mem_owned il' b]
  have hbal : b ∈ live ↔ b ∈ g.owned := bal.mem b
  rw [hbal, mem_owned inv b]
  by_cases hL : Live g.mem (allRoots st gp) b.1
  · rw [k2 _ hL]
    constructor
    · exact fun h => h.1
    · exact fun h => ⟨h, fun ⟨_, _, _, hn⟩ => hn hL⟩
  · have hnone : objAt g'.mem b.1 = none := by
      cases ho : objAt g'.mem b.1 with
      | none => rfl
      | some o => exact absurd ((e2 b.1).mp (by simp [ho])) hL
    rw [hnone]
    constructor
    · rintro ⟨h1 | ⟨o, ho, hk⟩, h2⟩
      · exact Or.inl h1
      · exact absurd ⟨o, ho, hk, hL⟩ h2
    · rintro (h1 | ⟨o, ho, _⟩)
      · refine ⟨Or.inl h1, ?_⟩
        rintro ⟨o, ho, _⟩
        rw [(mem_gcBlocks.mp h1).1, inv.nil_none] at ho; cases ho
      · cases ho

/-! ### one operation -/

/-- a store that replaces an object by one with the same number of blocks -/
theorem bal_store {g g' : Gc} {live : List Block} {fl fl' : List Nat} {a : Nat} {o o' : Obj}
    (inv : InvL g fl) (bal : Bal ⟨g, live⟩) (inv' : InvL g' fl')
    (ho : objAt g.mem a = some o) (hm : g'.mem = g.mem.setObj a (some o')) (hb : blocksOf o' = blocksOf o) :
    Bal ⟨g', live⟩ := by
  refine ⟨bal.nodup, ?_⟩
  intro b
  show b ∈ live ↔ b ∈ g'.owned
  have hbal : b ∈ live ↔ b ∈ g.owned := bal.mem b
  rw [hbal, mem_owned inv b, mem_owned inv' b, hm, objAt_setObj]
  have hlt := objAt_some_lt ho
  by_cases hab : a = b.1
  · rw [← hab]; simp [hlt, ho, hb]
  · simp [hab]

theorem bal_step' {g g' : Gc} {live : List Block} {op : Op} (inv : Inv g) (bal : Bal ⟨g, live⟩)
    (wt : g.wellTyped op = true) (h : g.apply op = some g') :
    ∃ l, runEvents live (g.events op) = some l ∧ Bal ⟨g', l⟩ := by
  obtain ⟨fl, il⟩ := inv
  cases op with
  | alloc o =>
    simp only [Gc.wellTyped] at wt
    simp only [Gc.apply] at h
    cases ha : g.alloc o with
    | none =>
      simp [ha] at h; subst h
      exact ⟨live, by simp [Gc.events, ha, runEvents], bal⟩
    | some r =>
      obtain ⟨g1, loc⟩ := r
      simp [ha] at h; subst h
      obtain ⟨fl', hfl, i', hnone, h0, hmem, hcur⟩ := inv_alloc il wt ha
      have hlt : loc < g.mem.size := by have := il.chain; rw [hfl] at this; exact this.2.2.1
      have hev : g.events (.alloc o) = (blocksOfCell loc (some o)).map .malloc := by simp [Gc.events, ha]
      have hdis : ∀ b ∈ blocksOfCell loc (some o), b ∉ live := by
        intro b hb hbl
        have h1 := (mem_blocksOfCell.mp hb).1
        rcases (mem_owned il b).mp ((bal.mem b).mp hbl) with h | ⟨o1, ho1, _⟩
        · exact h0 (h1 ▸ (mem_gcBlocks.mp h).1)
        · rw [h1, hnone] at ho1; cases ho1
      refine ⟨live ++ blocksOfCell loc (some o),
        by rw [hev]; exact runEvents_mallocs _ _ (nodup_blocksOfCell _ _) hdis, ?_, ?_⟩
      · exact List.nodup_append.mpr ⟨bal.nodup, nodup_blocksOfCell _ _,
          fun x hx y hy hxy => hdis y hy (hxy ▸ hx)⟩
      · intro b
        show b ∈ live ++ _ ↔ b ∈ Gc.owned _
        rw [List.mem_append, mem_owned i' b, hmem, objAt_setObj, mem_blocksOfCell]
        have hbal : b ∈ live ↔ b ∈ g.owned := bal.mem b
        rw [hbal, mem_owned il b]
        by_cases hlb : loc = b.1
        · rw [← hlb]; simp [hlt, hnone]
        · have : ¬ b.1 = loc := fun h => hlb h.symm
          simp [hlb, this]
  | setVec a i v =>
    have inv' := inv_setVec il (by simpa [Gc.wellTyped] using wt) h
    refine ⟨live, rfl, ?_⟩
    simp only [Gc.apply] at h
    unfold Gc.setVec at h
    split at h
    · rename_i fs ho
      split at h
      · cases h; exact bal_store il bal inv' ho rfl (by simp [blocksOf])
      · cases h
    · cases h
  | setArr a i v =>
    have inv' := inv_setArrElem il (by simpa [Gc.wellTyped] using wt) h
    refine ⟨live, rfl, ?_⟩
    simp only [Gc.apply] at h
    unfold Gc.setArrElem at h
    split at h
    · rename_i dv es ho
      split at h
      · cases h; exact bal_store il bal inv' ho rfl (by simp [blocksOf])
      · cases h
    · cases h
  | append a v =>
    have inv' := inv_appendArrElem il (by simpa [Gc.wellTyped] using wt) h
    simp only [Gc.apply] at h
    unfold Gc.appendArrElem at h
    split at h
    · rename_i n mult es ho
      cases h
      cases es with
      | nil =>
        have hev : g.events (.append a v) = [.malloc (a, 3)] := by simp [Gc.events, ho]
        have ha0 : a ≠ 0 := by intro h0; subst h0; rw [il.nil_none] at ho; cases ho
        have hnl : (a, 3) ∉ live := by
          intro hbl
          rcases (mem_owned il _).mp ((bal.mem _).mp hbl) with h | ⟨o1, ho1, hk⟩
          · exact ha0 (mem_gcBlocks.mp h).1
          · simp only at ho1 hk; rw [ho] at ho1; cases ho1; simp [blocksOf] at hk
        have hlt := objAt_some_lt ho
        refine ⟨live ++ [(a, 3)], by rw [hev]; simp [runEvents, hnl], ?_, ?_⟩
        · exact List.nodup_append.mpr ⟨bal.nodup, by simp, by
            intro x hx y hy hxy; simp at hy; subst hy; subst hxy; exact hnl hx⟩
        · intro b
          show b ∈ live ++ [(a, 3)] ↔ b ∈ Gc.owned _
          rw [List.mem_append, mem_owned inv' b]
          have hbal : b ∈ live ↔ b ∈ g.owned := bal.mem b
          rw [hbal, mem_owned il b]
          obtain ⟨a', k⟩ := b
          simp only [objAt_setObj, List.mem_singleton, Prod.mk.injEq]
          by_cases hab : a = a'
          · subst hab; simp [mem_gcBlocks, ha0, hlt, ho, blocksOf]; omega
          · have : ¬ a' = a := fun h => hab h.symm
            simp [hab, this]
      | cons e es =>
        have hev : g.events (.append a v) = [] := by simp [Gc.events, ho]
        refine ⟨live, by rw [hev]; rfl, ?_⟩
        exact bal_store il bal inv' ho rfl (by simp [blocksOf])
    · cases h
  | setFuncVec a v =>
    have inv' := inv_setFuncVec il (by simpa [Gc.wellTyped] using wt) h
    refine ⟨live, rfl, ?_⟩
    simp only [Gc.apply] at h
    unfold Gc.setFuncVec at h
    split at h
    · rename_i e ip ho; cases h; exact bal_store il bal inv' ho rfl (by simp [blocksOf])
    · cases h
  | setVecRef a v =>
    have inv' := inv_setVecRef il (by simpa [Gc.wellTyped] using wt) h
    refine ⟨live, rfl, ?_⟩
    simp only [Gc.apply] at h
    unfold Gc.setVecRef at h
    split at h
    · rename_i p ho; cases h; exact bal_store il bal inv' ho rfl (by simp [blocksOf])
    · cases h
  | setArrRef a v =>
    have inv' := inv_setArrRef il (by simpa [Gc.wellTyped] using wt) h
    refine ⟨live, rfl, ?_⟩
    simp only [Gc.apply] at h
    unfold Gc.setArrRef at h
    split at h
    · rename_i p ho; cases h; exact bal_store il bal inv' ho rfl (by simp [blocksOf])
    · cases h
  | setStrRef a v =>
    have inv' := inv_setStringRef il (by simpa [Gc.wellTyped] using wt) h
    refine ⟨live, rfl, ?_⟩
    simp only [Gc.apply] at h
    unfold Gc.setStringRef at h
    split at h
    · rename_i p ho; cases h; exact bal_store il bal inv' ho rfl (by simp [blocksOf])
    · cases h
  | collect st gp =>
    simp only [Gc.wellTyped, Bool.and_eq_true, decide_eq_true_eq] at wt
    exact bal_collect il bal wt.1 wt.2 h
  | omfalos st =>
    simp only [Gc.wellTyped] at wt
    have hpos : 0 < g.mem.size := by have := il.count; omega
    simp only [Gc.apply, runOmfalos_eq] at h
    exact bal_collect il bal wt hpos h
  | run st gp =>
    simp only [Gc.apply] at h
    unfold Gc.run at h
    by_cases hw : g.wantsCollect = true
    · simp only [hw, if_true] at h
      simp only [Gc.wellTyped, Bool.and_eq_true, decide_eq_true_eq] at wt
      have := bal_collect il bal wt.1 wt.2 h
      simpa [Gc.events, hw] using this
    · simp only [hw, if_false] at h
      cases h
      exact ⟨live, by simp [Gc.events, hw, runEvents], bal⟩

/-- one well-typed operation: the allocator never sees an invalid/double free nor a clashing malloc, and balance is kept -/
theorem bal_step {s : LSt} {op : Op} {g' : Gc} (inv : Inv s.g) (bal : Bal s)
    (wt : s.g.wellTyped op = true) (h : s.g.apply op = some g') :
    ∃ l, runEvents s.live (s.g.events op) = some l ∧ Bal ⟨g', l⟩ := by
  obtain ⟨g, live⟩ := s
  exact bal_step' inv bal wt h

/-! ### histories -/

/-- every well-typed operation preserves the heap invariant (as `C09.inv_step`) -/
theorem inv_apply {g g' : Gc} {op : Op} (inv : Inv g) (wt : g.wellTyped op = true)
    (h : g.apply op = some g') : Inv g' := by
  obtain ⟨fl, il⟩ := inv
  cases op with
  | alloc o =>
    simp only [Gc.apply] at h
    simp only [Gc.wellTyped] at wt
    cases ha : g.alloc o with
    | none => simp [ha] at h; subst h; exact ⟨fl, il⟩
    | some r =>
      obtain ⟨g1, loc⟩ := r
      simp [ha] at h; subst h
      obtain ⟨fl', _, i', _⟩ := inv_alloc il wt ha
      exact ⟨fl', i'⟩
  | setVec a i v => exact ⟨fl, inv_setVec il (by simpa [Gc.wellTyped] using wt) h⟩
  | setArr a i v => exact ⟨fl, inv_setArrElem il (by simpa [Gc.wellTyped] using wt) h⟩
  | append a v => exact ⟨fl, inv_appendArrElem il (by simpa [Gc.wellTyped] using wt) h⟩
  | setFuncVec a v => exact ⟨fl, inv_setFuncVec il (by simpa [Gc.wellTyped] using wt) h⟩
  | setVecRef a v => exact ⟨fl, inv_setVecRef il (by simpa [Gc.wellTyped] using wt) h⟩
  | setArrRef a v => exact ⟨fl, inv_setArrRef il (by simpa [Gc.wellTyped] using wt) h⟩
  | setStrRef a v => exact ⟨fl, inv_setStringRef il (by simpa [Gc.wellTyped] using wt) h⟩
  | collect st gp =>
    simp only [Gc.wellTyped, Bool.and_eq_true, decide_eq_true_eq] at wt
    obtain ⟨g2, h2, _, i2, _⟩ := collect_spec il wt.1 wt.2
    simp only [Gc.apply] at h
    rw [h2] at h; cases h; exact i2
  | omfalos st =>
    simp only [Gc.wellTyped] at wt
    have hpos : 0 < g.mem.size := by have := il.count; omega
    obtain ⟨g2, h2, _, i2, _⟩ := collect_spec (gp := 0) il wt hpos
    simp only [Gc.apply, runOmfalos_eq] at h
    rw [h2] at h; cases h; exact i2
  | run st gp =>
    simp only [Gc.apply] at h
    unfold Gc.run at h
    split at h
    · simp only [Gc.wellTyped, Bool.and_eq_true, decide_eq_true_eq] at wt
      obtain ⟨g2, h2, _, i2, _⟩ := collect_spec il wt.1 wt.2
      rw [h2] at h; cases h; exact i2
    · cases h; exact ⟨fl, il⟩

theorem exec_bal_aux (ops : List Op) : ∀ (s : LSt), Inv s.g → Bal s →
    ∃ s', s.exec ops = some s' ∧ s'.g = s.g.exec ops ∧ Inv s'.g ∧ Bal s' := by
  induction ops with
  | nil => intro s i b; exact ⟨s, rfl, rfl, i, b⟩
  | cons op ops ih =>
    intro s i b
    simp only [LSt.exec, Gc.exec]
    by_cases wt : s.g.wellTyped op = true
    · rw [if_pos wt, if_pos wt]
      cases ha : s.g.apply op with
      | none => exact ih s i b
      | some g' =>
        obtain ⟨l, hl, bl⟩ := bal_step i b wt ha
        simp only [hl]
        exact ih ⟨g', l⟩ (inv_apply i wt ha) bl
    · rw [if_neg wt, if_neg wt]; exact ih s i b

/-- over any history -/
theorem exec_bal (n : Nat) (h : 2 ≤ n) (ops : List Op) :
    ∃ s, (LSt.new n).exec ops = some s ∧ s.g = (Gc.new n).exec ops ∧ Inv s.g ∧ Bal s :=
  exec_bal_aux ops (LSt.new n) (inv_new n (by omega)) (bal_new n h)

/-! ### counting -/

theorem length_blocksAt (m : Mem) (a : Nat) :
    (blocksAt m a).length = match objAt m a with | some o => blocksOf o | none => 0 := by
  unfold blocksAt; cases objAt m a <;> simp [blocksOfCell]

theorem owned_length (g : Gc) : g.owned.length = g.ownedCount := by
  unfold Gc.owned Gc.ownedCount
  rw [List.length_append, List.length_flatMap]
  simp only [length_blocksAt]; rfl

theorem bal_count {s : LSt} (inv : Inv s.g) (bal : Bal s) :
    s.live.Perm s.g.owned ∧ s.live.length = s.g.ownedCount := by
  obtain ⟨fl, il⟩ := inv
  have hp : s.live.Perm s.g.owned := (List.perm_ext_iff_of_nodup bal.nodup (owned_nodup il)).mpr bal.mem
  exact ⟨hp, by rw [hp.length_eq, owned_length]⟩

/-! ### gc_delete -/

theorem mem_gcBlocks' {b : Block} : b ∈ [((0 : Nat), (1 : Nat)), (0, 2), (0, 3), (0, 0)] ↔ b ∈ gcBlocks := by
  rw [mem_gcBlocks]
  obtain ⟨a, k⟩ := b
  simp only [List.mem_cons, Prod.mk.injEq, List.mem_nil_iff, or_false]
  omega

/-- gc_delete releases everything, nothing twice -/
theorem delete_all {s : LSt} (inv : Inv s.g) (bal : Bal s) : s.delete = some [] := by
  obtain ⟨fl, il⟩ := inv
  unfold LSt.delete Gc.deleteEvents
  have hF2 : [Ev.free (0, 1), .free (0, 2), .free (0, 3), .free (0, 0)] =
      [((0 : Nat), (1 : Nat)), (0, 2), (0, 3), (0, 0)].map .free := rfl
  rw [hF2, runEvents_append]
  have hcells : ∀ b, b ∈ (List.range s.g.mem.size).flatMap (blocksAt s.g.mem) ↔
      ∃ o, objAt s.g.mem b.1 = some o ∧ b.2 < blocksOf o := by
    intro b
    rw [mem_flatMap_blocksAt, List.mem_range]
    constructor
    · exact fun h => h.2
    · rintro ⟨o, ho, hk⟩; exact ⟨objAt_some_lt ho, o, ho, hk⟩
  obtain ⟨l1, h1, nd1, m1⟩ := runEvents_frees _ s.live (nodup_flatMap_blocksAt s.g.mem List.nodup_range)
    (by intro b hb
        exact (bal.mem b).mpr ((mem_owned il b).mpr (Or.inr ((hcells b).mp hb))))
    bal.nodup
  rw [h1]
  simp only [Option.bind_some]
  obtain ⟨l2, h2, nd2, m2⟩ := runEvents_frees [((0 : Nat), (1 : Nat)), (0, 2), (0, 3), (0, 0)] l1 (by decide)
    (by intro b hb
        have hg : b ∈ gcBlocks := mem_gcBlocks'.mp hb
        rw [m1 b]
        refine ⟨(bal.mem b).mpr ((mem_owned il b).mpr (Or.inl hg)), ?_⟩
        intro hc
        obtain ⟨o, ho, _⟩ := (hcells b).mp hc
        rw [(mem_gcBlocks.mp hg).1, il.nil_none] at ho; cases ho)
    nd1
  rw [h2]
  congr 1
  apply List.eq_nil_iff_forall_not_mem.mpr
  intro b hb
  obtain ⟨hb1, hb2⟩ := (m2 b).mp hb
  obtain ⟨hb3, hb4⟩ := (m1 b).mp hb1
  rcases (mem_owned il b).mp ((bal.mem b).mp hb3) with h | h
  · exact hb2 (mem_gcBlocks'.mpr h)
  · exact hb4 ((hcells b).mpr h)

end Never
