import NeverModel.Lemmas.VmEffectLoops
set_option linter.unusedSimpArgs false
set_option linter.unusedVariables false
/-! per-opcode stack effects of `exec` (generated list of statements, each proved by the `eff` automation) -/
namespace Never.Vm
open Never Never.Num

set_option maxRecDepth 8000 in
theorem eff_ID_FUNC_ADDR (md : Module) (ins : Instr) (orc : Oracle) (s : Int) (h : ins.op = .ID_FUNC_ADDR) : EffAt s (0) (exec md ins orc) := by exec_eff h

set_option maxRecDepth 8000 in
theorem eff_ID_FUNC_ENTRY (md : Module) (ins : Instr) (orc : Oracle) (s : Int) (h : ins.op = .ID_FUNC_ENTRY) : EffAt s (0) (exec md ins orc) := by exec_eff h

set_option maxRecDepth 8000 in
theorem eff_ENUMTYPE_RECORD_TO_INT (md : Module) (ins : Instr) (orc : Oracle) (s : Int) (h : ins.op = .ENUMTYPE_RECORD_TO_INT) : EffAt s (0) (exec md ins orc) := by exec_eff h

set_option maxRecDepth 8000 in
theorem eff_VECREF_DEREF (md : Module) (ins : Instr) (orc : Oracle) (s : Int) (h : ins.op = .VECREF_DEREF) : EffAt s (0) (exec md ins orc) := by exec_eff h

set_option maxRecDepth 8000 in
theorem eff_LABEL (md : Module) (ins : Instr) (orc : Oracle) (s : Int) (h : ins.op = .LABEL) : EffAt s (0) (exec md ins orc) := by exec_eff h

set_option maxRecDepth 8000 in
theorem eff_LINE (md : Module) (ins : Instr) (orc : Oracle) (s : Int) (h : ins.op = .LINE) : EffAt s (0) (exec md ins orc) := by exec_eff h

set_option maxRecDepth 8000 in
theorem eff_FUNC_DEF (md : Module) (ins : Instr) (orc : Oracle) (s : Int) (h : ins.op = .FUNC_DEF) : EffAt s (0) (exec md ins orc) := by exec_eff h

set_option maxRecDepth 8000 in
theorem eff_FUNC_OBJ (md : Module) (ins : Instr) (orc : Oracle) (s : Int) (h : ins.op = .FUNC_OBJ) : EffAt s (0) (exec md ins orc) := by exec_eff h

set_option maxRecDepth 8000 in
theorem eff_OP_INC_INT (md : Module) (ins : Instr) (orc : Oracle) (s : Int) (h : ins.op = .OP_INC_INT) : EffAt s (0) (exec md ins orc) := by exec_eff h

set_option maxRecDepth 8000 in
theorem eff_OP_DEC_INT (md : Module) (ins : Instr) (orc : Oracle) (s : Int) (h : ins.op = .OP_DEC_INT) : EffAt s (0) (exec md ins orc) := by exec_eff h

set_option maxRecDepth 8000 in
theorem eff_OP_ADD_STRING (md : Module) (ins : Instr) (orc : Oracle) (s : Int) (h : ins.op = .OP_ADD_STRING) : EffAt s (-1) (exec md ins orc) := by exec_eff h

set_option maxRecDepth 8000 in
theorem eff_OP_EQ_STRING (md : Module) (ins : Instr) (orc : Oracle) (s : Int) (h : ins.op = .OP_EQ_STRING) : EffAt s (-1) (exec md ins orc) := by exec_eff h

set_option maxRecDepth 8000 in
theorem eff_OP_NEQ_STRING (md : Module) (ins : Instr) (orc : Oracle) (s : Int) (h : ins.op = .OP_NEQ_STRING) : EffAt s (-1) (exec md ins orc) := by exec_eff h

set_option maxRecDepth 8000 in
theorem eff_OP_EQ_C_PTR (md : Module) (ins : Instr) (orc : Oracle) (s : Int) (h : ins.op = .OP_EQ_C_PTR) : EffAt s (-1) (exec md ins orc) := by exec_eff h

set_option maxRecDepth 8000 in
theorem eff_OP_NEQ_C_PTR (md : Module) (ins : Instr) (orc : Oracle) (s : Int) (h : ins.op = .OP_NEQ_C_PTR) : EffAt s (-1) (exec md ins orc) := by exec_eff h

set_option maxRecDepth 8000 in
theorem eff_OP_EQ_NIL (md : Module) (ins : Instr) (orc : Oracle) (s : Int) (h : ins.op = .OP_EQ_NIL) : EffAt s (-1) (exec md ins orc) := by exec_eff h

set_option maxRecDepth 8000 in
theorem eff_OP_NEQ_NIL (md : Module) (ins : Instr) (orc : Oracle) (s : Int) (h : ins.op = .OP_NEQ_NIL) : EffAt s (-1) (exec md ins orc) := by exec_eff h

set_option maxRecDepth 8000 in
theorem eff_SLICE_ARRAY (md : Module) (ins : Instr) (orc : Oracle) (s : Int) (h : ins.op = .SLICE_ARRAY) : EffAt s (-1) (exec md ins orc) := by exec_eff h



set_option maxRecDepth 8000 in
theorem eff_SLICE_STRING (md : Module) (ins : Instr) (orc : Oracle) (s : Int) (h : ins.op = .SLICE_STRING) : EffAt s (-1) (exec md ins orc) := by exec_eff h

set_option maxRecDepth 8000 in
theorem eff_STRING_DEREF (md : Module) (ins : Instr) (orc : Oracle) (s : Int) (h : ins.op = .STRING_DEREF) : EffAt s (-1) (exec md ins orc) := by exec_eff h

set_option maxRecDepth 8000 in
theorem eff_VECREF_VEC_INDEX_DEREF (md : Module) (ins : Instr) (orc : Oracle) (s : Int) (h : ins.op = .VECREF_VEC_INDEX_DEREF) : EffAt s (-1) (exec md ins orc) := by exec_eff h


theorem eff_SLICE_RANGE (md : Module) (ins : Instr) (orc : Oracle) (s : Int) (h : ins.op = .SLICE_RANGE) : EffAt s (-1) (exec md ins orc) := by
  unfold exec
  simp only [h, binOpOf, unOpOf, convOf, nilCmpOf, strAddOf, arrOpOf, mkArrayElem]
  refine EffAt.getSp_bind ?_
  refine EffAt.keeps_bind (by keeps) (fun _ => ?_)
  refine EffAt.keeps_bind (by keeps) (fun _ => ?_)
  refine EffAt.keeps_bind (by keeps) (fun _ => ?_)
  refine EffAt.keeps_bind (by keeps) (fun _ => ?_)
  split
  · eff
  · refine EffAt.keeps_bind (by keeps) (fun _ => ?_)
    refine EffAt.bool_bind (keeps_composeRanges _ _ _ _ _) (composeRanges_false _ _ _ _ _) ?_ ?_
    · simp only [if_true]; eff
    · intro vm b vm' hr
      simp only [Bool.false_eq_true, if_false] at hr
      exact ((run_pure_ok _ _ _ _).mp hr).2

theorem eff_SLICE_SLICE (md : Module) (ins : Instr) (orc : Oracle) (s : Int) (h : ins.op = .SLICE_SLICE) : EffAt s (-1) (exec md ins orc) := by
  unfold exec
  simp only [h, binOpOf, unOpOf, convOf, nilCmpOf, strAddOf, arrOpOf, mkArrayElem]
  refine EffAt.getSp_bind ?_
  refine EffAt.keeps_bind (by keeps) (fun _ => ?_)
  refine EffAt.keeps_bind (by keeps) (fun _ => ?_)
  refine EffAt.keeps_bind (by keeps) (fun _ => ?_)
  refine EffAt.keeps_bind (by keeps) (fun _ => ?_)
  split
  · eff
  · refine EffAt.keeps_bind (by keeps) (fun _ => ?_)
    refine EffAt.keeps_bind (by keeps) (fun _ => ?_)
    split
    · eff
    · refine EffAt.keeps_bind (by keeps) (fun _ => ?_)
      refine EffAt.bool_bind (keeps_composeRanges _ _ _ _ _) (composeRanges_false _ _ _ _ _) ?_ ?_
      · simp only [if_true]; eff
      · intro vm b vm' hr
        simp only [Bool.false_eq_true, if_false] at hr
        exact ((run_pure_ok _ _ _ _).mp hr).2

end Never.Vm
