import NeverModel.Lemmas.VmEffectLoops
import NeverModel.Lemmas.Frame
set_option linter.unusedSimpArgs false
set_option linter.unusedVariables false
/-! which stack slots a handler can write.  `NoWr f`: `f` leaves the stack array alone (every helper that only reads the stack and works
on the heap / registers; same list of lemmas as `KeepsIp` / `KeepsStk`).  `Foot lo f`: `f` leaves every slot below `lo` alone. -/
namespace Never.Vm
open Never Never.Num

/-- a computation that does not write the stack array -/
def NoWr {α} (f : M α) : Prop := ∀ vm a vm', f.run vm = .ok (a, vm') → vm'.stack = vm.stack

theorem NoWr.bind {α β} {f : M α} {g : α → M β} (hf : NoWr f) (hg : ∀ a, NoWr (g a)) : NoWr (f >>= g) := by
  intro vm b vm'' h
  obtain ⟨a, vm', h1, h2⟩ := (run_bind_ok f g vm vm'' b).mp h
  exact (hg a vm' b vm'' h2).trans (hf vm a vm' h1)

theorem NoWr.pure {α} (a : α) : NoWr (Pure.pure a : M α) := by
  intro vm b vm' h
  obtain ⟨_, rfl⟩ := (run_pure_ok a vm vm' b).mp h
  rfl

theorem nowr_crash {α} (w : String) : NoWr (crash w : M α) := by
  intro vm a vm' h; simp [crash, throw, throwThe, MonadExceptOf.throw, StateT.run, StateT.lift, liftM, monadLift, MonadLift.monadLift, Except.bind, Bind.bind] at h

theorem nowr_exit {α} (w : String) (o : List UInt8) : NoWr (exitVm w o : M α) := by
  intro vm a vm' h; simp [exitVm, throw, throwThe, MonadExceptOf.throw, StateT.run, StateT.lift, liftM, monadLift, MonadLift.monadLift, Except.bind, Bind.bind] at h

theorem nowr_get : NoWr (get : M Vm) := by
  intro vm a vm' h
  simp [get, getThe, MonadStateOf.get, StateT.get, StateT.run, Pure.pure, Except.pure] at h
  obtain ⟨_, rfl⟩ := h; rfl

theorem NoWr.get_bind {β} (g : Vm → M β) (h : ∀ vm a vm', (g vm).run vm = .ok (a, vm') → vm'.stack = vm.stack) : NoWr (get >>= g) := by
  intro vm b vm'' hr
  obtain ⟨a, vm', h1, h2⟩ := (run_bind_ok get g vm vm'' b).mp hr
  simp [get, getThe, MonadStateOf.get, StateT.get, StateT.run, Pure.pure, Except.pure] at h1
  obtain ⟨rfl, rfl⟩ := h1
  exact h _ _ _ h2

theorem nowr_set_of (v0 vm : Vm) (h : v0.stack = vm.stack) (a : PUnit) (vm' : Vm)
    (hr : (set v0 : M PUnit).run vm = .ok (a, vm')) : vm'.stack = vm.stack := by
  simp [set, StateT.set, StateT.run, Pure.pure, Except.pure] at hr
  obtain ⟨_, rfl⟩ := hr; exact h

theorem nowr_modify (f : Vm → Vm) (hf : ∀ vm, (f vm).stack = vm.stack) : NoWr (modify f : M PUnit) := by
  intro v x v' h
  simp [modify, modifyGet, MonadStateOf.modifyGet, StateT.modifyGet, StateT.run, Pure.pure, Except.pure] at h
  obtain ⟨_, rfl⟩ := h
  exact hf v

theorem nowr_rdSlot (i : Int) : NoWr (rdSlot i) := by
  unfold rdSlot
  apply NoWr.bind nowr_get; intro vm
  split
  · exact nowr_crash _
  · exact NoWr.pure _

theorem nowr_alloc (o : Obj) : NoWr (alloc o) := by
  unfold alloc
  apply NoWr.get_bind; intro vm a vm' h
  split at h
  · exact nowr_exit _ _ _ _ _ h
  · obtain ⟨u, v1, h1, h2⟩ := (run_bind_ok _ _ vm vm' a).mp h
    have k := nowr_set_of _ vm (by rfl) _ _ h1
    obtain ⟨_, rfl⟩ := (run_pure_ok _ v1 vm' a).mp h2
    exact k

theorem nowr_objOf (a : Nat) : NoWr (objOf a) := by
  unfold objOf
  apply NoWr.bind nowr_get; intro vm
  split
  · exact nowr_crash _
  · split
    · exact NoWr.pure _
    · exact nowr_crash _

theorem nowr_checkStack : NoWr checkStack := by
  unfold checkStack
  apply NoWr.bind nowr_get; intro vm
  split
  · exact nowr_exit _ _
  · exact NoWr.pure _

/-- automation for `NoWr` goals -/
syntax "nowr" : tactic
macro_rules
  | `(tactic| nowr) => `(tactic|
      first
      | with_reducible exact NoWr.pure _
      | with_reducible exact nowr_crash _
      | with_reducible exact nowr_exit _ _
      | with_reducible exact nowr_get
      | with_reducible exact nowr_rdSlot _
      | with_reducible exact nowr_alloc _
      | with_reducible exact nowr_objOf _
      | with_reducible exact nowr_checkStack
      | with_reducible exact nowr_modify _ (fun _ => rfl)
      | with_reducible apply_assumption (exfalso := false)
      | (with_reducible refine NoWr.bind ?hf (fun _ => ?hg); (case hf => nowr); (case hg => nowr))
      | (split <;> nowr)
      | (dsimp only; nowr))

theorem nowr_rdAddr (i : Int) : NoWr (rdAddr i) := by unfold rdAddr; nowr
theorem nowr_getSp : NoWr getSp := by unfold getSp; nowr
theorem nowr_setSp (v : Int) : NoWr (setSp v) := by unfold setSp; nowr
theorem nowr_raise (e : Nat) : NoWr (raise e) := by unfold raise; nowr
theorem nowr_setObj (a : Nat) (o : Obj) : NoWr (setObj a o) := by unfold setObj; nowr
theorem nowr_emit (bs : List UInt8) : NoWr (emit bs) := by unfold emit; nowr

macro_rules
  | `(tactic| nowr) => `(tactic|
      first | with_reducible exact nowr_rdAddr _ | with_reducible exact nowr_getSp | with_reducible exact nowr_setSp _
            | with_reducible exact nowr_raise _ | with_reducible exact nowr_setObj _ _ | with_reducible exact nowr_emit _)

theorem nowr_getInt (a : Nat) : NoWr (getInt a) := by unfold getInt; nowr
theorem nowr_getLong (a : Nat) : NoWr (getLong a) := by unfold getLong; nowr
theorem nowr_getFloat (a : Nat) : NoWr (getFloat a) := by unfold getFloat; nowr
theorem nowr_getDouble (a : Nat) : NoWr (getDouble a) := by unfold getDouble; nowr
theorem nowr_getChar (a : Nat) : NoWr (getChar a) := by unfold getChar; nowr
theorem nowr_getStr (a : Nat) : NoWr (getStr a) := by unfold getStr; nowr
theorem nowr_getStrRef (a : Nat) : NoWr (getStrRef a) := by unfold getStrRef; nowr
theorem nowr_getVecRef (a : Nat) : NoWr (getVecRef a) := by unfold getVecRef; nowr
theorem nowr_getArrRef (a : Nat) : NoWr (getArrRef a) := by unfold getArrRef; nowr
theorem nowr_getVecObj (a : Nat) : NoWr (getVecObj a) := by unfold getVecObj; nowr
theorem nowr_getArrObj (a : Nat) : NoWr (getArrObj a) := by unfold getArrObj; nowr
theorem nowr_getFunc (a : Nat) : NoWr (getFunc a) := by unfold getFunc; nowr
theorem nowr_getCPtr (a : Nat) : NoWr (getCPtr a) := by unfold getCPtr; nowr

macro_rules
  | `(tactic| nowr) => `(tactic|
      first | with_reducible exact nowr_getInt _ | with_reducible exact nowr_getLong _ | with_reducible exact nowr_getFloat _
            | with_reducible exact nowr_getDouble _ | with_reducible exact nowr_getChar _ | with_reducible exact nowr_getStr _
            | with_reducible exact nowr_getStrRef _ | with_reducible exact nowr_getVecRef _ | with_reducible exact nowr_getArrRef _
            | with_reducible exact nowr_getVecObj _ | with_reducible exact nowr_getArrObj _ | with_reducible exact nowr_getFunc _
            | with_reducible exact nowr_getCPtr _)

theorem nowr_scalarOf (ty : NTy) (a : Nat) : NoWr (scalarOf ty a) := by unfold scalarOf; cases ty <;> simp only <;> nowr
theorem nowr_resOf (r : NRes) : NoWr (resOf r) := by unfold resOf; nowr
theorem nowr_okVal (r : NRes) : NoWr (okVal r) := by unfold okVal; nowr
theorem nowr_getVec (a i : Nat) : NoWr (getVec a i) := by unfold getVec; nowr
theorem nowr_setVec (a i v : Nat) : NoWr (setVec a i v) := by unfold setVec; nowr
theorem nowr_getArrElem (a i : Nat) : NoWr (getArrElem a i) := by unfold getArrElem; nowr
theorem nowr_setArrElem (a i v : Nat) : NoWr (setArrElem a i v) := by unfold setArrElem; nowr
theorem nowr_allocArr (e : List Nat) : NoWr (allocArr e) := by unfold allocArr; nowr

macro_rules
  | `(tactic| nowr) => `(tactic|
      first | with_reducible exact nowr_scalarOf _ _ | with_reducible exact nowr_resOf _ | with_reducible exact nowr_okVal _
            | with_reducible exact nowr_getVec _ _ | with_reducible exact nowr_setVec _ _ _ | with_reducible exact nowr_getArrElem _ _
            | with_reducible exact nowr_setArrElem _ _ _ | with_reducible exact nowr_allocArr _)

theorem nowr_rangePair (r d : Nat) : NoWr (rangePair r d) := by unfold rangePair; nowr
theorem nowr_feCheck (orc : Oracle) : NoWr (feCheck orc) := by unfold feCheck; nowr

macro_rules
  | `(tactic| nowr) => `(tactic| first | with_reducible exact nowr_rangePair _ _ | with_reducible exact nowr_feCheck _)


theorem nowr_allocEach (o : Obj) (n : Nat) : NoWr (allocEach o n) := by
  induction n with
  | zero => unfold allocEach; nowr
  | succ n ih => unfold allocEach; nowr

theorem nowr_mapElems (ty : NTy) (f : NVal → M NVal) (hf : ∀ v, NoWr (f v)) (es : List Nat) : NoWr (mapElems ty f es) := by
  induction es with
  | nil => unfold mapElems; nowr
  | cons e es ih => unfold mapElems; nowr

theorem nowr_zipArith (ty : NTy) (bop : BinOp) (xs ys : List Nat) : NoWr (zipArith ty bop xs ys) := by
  induction xs generalizing ys with
  | nil => unfold zipArith; nowr
  | cons x xs ih =>
    cases ys with
    | nil => unfold zipArith; nowr
    | cons y ys => unfold zipArith; have := ih ys; nowr

theorem nowr_dotSum (ty : NTy) (es1 es2 : List Nat) (i j inner cols k n : Nat) (acc : NVal) :
    NoWr (dotSum ty es1 es2 i j inner cols k n acc) := by
  induction n generalizing k acc with
  | zero => unfold dotSum; nowr
  | succ n ih => unfold dotSum; nowr

theorem nowr_matCols (ty : NTy) (es1 es2 : List Nat) (mres i inner cols j m : Nat) :
    NoWr (matCols ty es1 es2 mres i inner cols j m) := by
  induction m generalizing j with
  | zero => unfold matCols; nowr
  | succ m ih => unfold matCols; have := nowr_dotSum ty es1 es2 i j inner cols 0 inner (zeroOf ty); nowr

theorem nowr_matRows (ty : NTy) (es1 es2 : List Nat) (mres inner cols i n : Nat) :
    NoWr (matRows ty es1 es2 mres inner cols i n) := by
  induction n generalizing i with
  | zero => unfold matRows; nowr
  | succ n ih => unfold matRows; have := nowr_matCols ty es1 es2 mres i inner cols 0 cols; nowr

theorem nowr_composeRanges (r1 r2 res d n : Nat) : NoWr (composeRanges r1 r2 res d n) := by
  induction n generalizing d with
  | zero => unfold composeRanges; nowr
  | succ n ih => unfold composeRanges; nowr

theorem nowr_rangePairs (r d n : Nat) : NoWr (rangePairs r d n) := by
  induction n generalizing d with
  | zero => unfold rangePairs; nowr
  | succ n ih => unfold rangePairs; nowr


theorem nowr_popAddrs (n : Nat) : NoWr (popAddrs n) := by
  induction n with
  | zero => unfold popAddrs; nowr
  | succ n ih => unfold popAddrs; nowr

theorem nowr_popInts (n : Nat) : NoWr (popInts n) := by
  induction n with
  | zero => unfold popInts; nowr
  | succ n ih => unfold popInts; nowr

theorem nowr_popExts (n : Nat) : NoWr (popExts n) := by
  induction n with
  | zero => unfold popExts; nowr
  | succ n ih => unfold popExts; nowr

theorem nowr_popIndices (n : Nat) : NoWr (popIndices n) := by
  induction n with
  | zero => unfold popIndices; nowr
  | succ n ih => unfold popIndices; nowr

theorem nowr_rangeDerefLoop (range array d n : Nat) : NoWr (rangeDerefLoop range array d n) := by
  induction n generalizing d with
  | zero => unfold rangeDerefLoop; nowr
  | succ n ih => unfold rangeDerefLoop; nowr


macro_rules
  | `(tactic| nowr) => `(tactic|
      first
      | with_reducible exact nowr_allocEach _ _ | with_reducible exact nowr_zipArith _ _ _ _
      | with_reducible exact nowr_dotSum _ _ _ _ _ _ _ _ _ _ | with_reducible exact nowr_matCols _ _ _ _ _ _ _ _ _
      | with_reducible exact nowr_matRows _ _ _ _ _ _ _ _ | with_reducible exact nowr_composeRanges _ _ _ _ _
      | with_reducible exact nowr_rangePairs _ _ _ 
      | with_reducible exact nowr_popAddrs _ | with_reducible exact nowr_popInts _ | with_reducible exact nowr_popExts _
      | with_reducible exact nowr_popIndices _ | with_reducible exact nowr_rangeDerefLoop _ _ _ _ 
      | (with_reducible refine nowr_mapElems _ _ (fun _ => ?hf) _; (case hf => nowr)))





/-- the leaf rules of `nowr` only (no search through binds): one action that does not write the stack -/
syntax "nowr1" : tactic
macro_rules
  | `(tactic| nowr1) => `(tactic|
      first
      | with_reducible exact NoWr.pure _
      | with_reducible exact nowr_modify _ (fun _ => rfl)
      | with_reducible exact nowr_crash _
      | with_reducible exact nowr_exit _ _
      | with_reducible exact nowr_get
      | with_reducible exact nowr_rdSlot _
      | with_reducible exact nowr_alloc _
      | with_reducible exact nowr_objOf _
      | with_reducible exact nowr_checkStack
      | with_reducible exact nowr_rdAddr _
      | with_reducible exact nowr_getSp
      | with_reducible exact nowr_setSp _
      | with_reducible exact nowr_raise _
      | with_reducible exact nowr_setObj _ _
      | with_reducible exact nowr_emit _
      | with_reducible exact nowr_getInt _
      | with_reducible exact nowr_getLong _
      | with_reducible exact nowr_getFloat _
      | with_reducible exact nowr_getDouble _
      | with_reducible exact nowr_getChar _
      | with_reducible exact nowr_getStr _
      | with_reducible exact nowr_getStrRef _
      | with_reducible exact nowr_getVecRef _
      | with_reducible exact nowr_getArrRef _
      | with_reducible exact nowr_getVecObj _
      | with_reducible exact nowr_getArrObj _
      | with_reducible exact nowr_getFunc _
      | with_reducible exact nowr_getCPtr _
      | with_reducible exact nowr_scalarOf _ _
      | with_reducible exact nowr_resOf _
      | with_reducible exact nowr_okVal _
      | with_reducible exact nowr_getVec _ _
      | with_reducible exact nowr_setVec _ _ _
      | with_reducible exact nowr_getArrElem _ _
      | with_reducible exact nowr_setArrElem _ _ _
      | with_reducible exact nowr_allocArr _
      | with_reducible exact nowr_rangePair _ _
      | with_reducible exact nowr_feCheck _
      | with_reducible exact nowr_allocEach _ _
      | with_reducible exact nowr_zipArith _ _ _ _
      | with_reducible exact nowr_dotSum _ _ _ _ _ _ _ _ _ _
      | with_reducible exact nowr_matCols _ _ _ _ _ _ _ _ _
      | with_reducible exact nowr_matRows _ _ _ _ _ _ _ _
      | with_reducible exact nowr_composeRanges _ _ _ _ _
      | with_reducible exact nowr_rangePairs _ _ _
      | with_reducible exact nowr_popAddrs _
      | with_reducible exact nowr_popInts _
      | with_reducible exact nowr_popExts _
      | with_reducible exact nowr_popIndices _
      | with_reducible exact nowr_rangeDerefLoop _ _ _ _
      | with_reducible apply_assumption (exfalso := false)
      | (with_reducible refine nowr_mapElems _ _ (fun _ => ?hf) _; (case hf => nowr)))

end Never.Vm
