import NeverModel.Model.Index
/-! helper lemmas for Props/C12.lean (written by a sub-agent, checked here) -/
namespace Never.Idx

theorem U32_pos : 0 < U32 := by decide

theorem prodWrap_eq (exts : List Nat) (e : Nat) (he : e < U32) :
    prodWrap exts e = (e * prod exts) % U32 := by
  induction exts generalizing e with
  | nil => simp [prodWrap, prod, Nat.mod_eq_of_lt he]
  | cons x xs ih =>
    rw [prodWrap, ih _ (Nat.mod_lt _ U32_pos), prod, Nat.mod_mul_mod, Nat.mul_assoc]

theorem dimMult_total (exts : List Nat) : (dimMult exts).2 = prod exts % U32 := by
  simp [dimMult, prodWrap_eq exts 1 (by decide)]

theorem dimMult_of_lt (exts : List Nat) (hp : prod exts < U32) :
    dimMult exts = (multPass exts (prod exts), prod exts) := by
  simp [dimMult, prodWrap_eq exts 1 (by decide), Nat.mod_eq_of_lt hp]

def InRangeR : List Nat → List Nat → Prop
  | [], [] => True
  | e :: es, i :: is => i < e ∧ InRangeR es is
  | _, _ => False

theorem inRangeR_iff (exts : List Nat) : ∀ idx : List Nat, InRangeR exts idx ↔
    (idx.length = exts.length ∧ ∀ k (h1 : k < idx.length) (h2 : k < exts.length), idx[k] < exts[k]) := by
  induction exts with
  | nil => intro idx; cases idx <;> simp [InRangeR]
  | cons x xs ih =>
    intro idx
    cases idx with
    | nil => simp [InRangeR]
    | cons i is =>
      simp only [InRangeR, ih, List.length_cons]
      constructor
      · rintro ⟨h0, hl, h⟩
        refine ⟨by omega, ?_⟩
        intro k h1 h2
        cases k with
        | zero => simpa using h0
        | succ k => simpa using h k (by omega) (by omega)
      · rintro ⟨hl, h⟩
        refine ⟨by simpa using h 0 (by omega) (by omega), by omega, ?_⟩
        intro k h1 h2
        have := h (k+1) (by omega) (by omega)
        simp only [List.getElem_cons_succ] at this
        exact this

theorem rowMajor_lt (exts : List Nat) : ∀ idx, InRangeR exts idx → rowMajor exts idx < prod exts := by
  induction exts with
  | nil => intro idx h; cases idx <;> simp_all [InRangeR, rowMajor, prod]
  | cons x xs ih =>
    intro idx h
    cases idx with
    | nil => simp [InRangeR] at h
    | cons i is =>
      obtain ⟨h0, h⟩ := h
      have hr := ih is h
      have h1 : (i + 1) * prod xs ≤ x * prod xs := Nat.mul_le_mul_right _ h0
      rw [Nat.add_mul, Nat.one_mul] at h1
      simp only [rowMajor, prod]
      omega

theorem dimAddrAux_multPass_ok (exts : List Nat) : ∀ (idx : List Nat) (m acc : Nat),
    InRangeR exts idx → acc + rowMajor exts idx < U32 →
    dimAddrAux (multPass exts (prod exts)) idx m acc = .ok (acc + rowMajor exts idx) := by
  induction exts with
  | nil => intro idx m acc h _; cases idx <;> simp_all [InRangeR, rowMajor, multPass, dimAddrAux]
  | cons x xs ih =>
    intro idx m acc h hb
    cases idx with
    | nil => simp [InRangeR] at h
    | cons i is =>
      obtain ⟨h0, h⟩ := h
      have hx : x ≠ 0 := by omega
      have hdiv : x * prod xs / x = prod xs := Nat.mul_div_cancel_left _ (by omega)
      simp only [rowMajor] at hb ⊢
      have hcomm : prod xs * i = i * prod xs := Nat.mul_comm _ _
      have hmod : (acc + prod xs * i) % U32 = acc + i * prod xs := by
        rw [hcomm]; exact Nat.mod_eq_of_lt (by omega)
      simp only [multPass, prod, hx, ne_eq, not_false_eq_true, if_true, hdiv, dimAddrAux]
      rw [if_neg (by omega), hmod, ih is (m+1) _ h (by omega)]
      simp [Nat.add_assoc]

theorem dimAddrAux_multPass_error (exts : List Nat) : ∀ (e : Nat) (idx : List Nat) (m acc k0 : Nat)
    (h1 : k0 < exts.length) (h2 : k0 < idx.length),
    exts[k0] ≤ idx[k0] → (∀ k (hk : k < k0), idx[k] < exts[k]) →
    dimAddrAux (multPass exts e) idx m acc = .error (m + k0) := by
  induction exts with
  | nil => intro e idx m acc k0 h1; simp at h1
  | cons x xs ih =>
    intro e idx m acc k0 h1 h2 hle hfirst
    cases idx with
    | nil => simp at h2
    | cons i is =>
      cases k0 with
      | zero =>
        have : x ≤ i := by simpa using hle
        simp only [multPass]; split <;> simp [dimAddrAux, this]
      | succ k =>
        have h0 : i < x := by simpa using hfirst 0 (by omega)
        have hn : ¬ x ≤ i := by omega
        have hrec : ∀ e' acc', dimAddrAux (multPass xs e') is (m+1) acc' = .error (m + 1 + k) :=
          fun e' acc' => ih e' is (m+1) acc' k (by simpa using h1) (by simpa using h2) (by simpa using hle)
            (fun j hj => by simpa using hfirst (j+1) (by omega))
        simp only [multPass]; split <;> simp only [dimAddrAux, if_neg hn, hrec] <;> congr 1 <;> omega

theorem rowMajor_inj (exts : List Nat) : ∀ i1 i2, InRangeR exts i1 → InRangeR exts i2 →
    rowMajor exts i1 = rowMajor exts i2 → i1 = i2 := by
  induction exts with
  | nil => intro i1 i2 h1 h2 _; cases i1 <;> cases i2 <;> simp_all [InRangeR]
  | cons x xs ih =>
    intro i1 i2 h1 h2 heq
    cases i1 with
    | nil => simp [InRangeR] at h1
    | cons a as =>
      cases i2 with
      | nil => simp [InRangeR] at h2
      | cons b bs =>
        obtain ⟨_, h1⟩ := h1
        obtain ⟨_, h2⟩ := h2
        have r1 := rowMajor_lt xs as h1
        have r2 := rowMajor_lt xs bs h2
        simp only [rowMajor] at heq
        have hab : a = b := by
          rcases Nat.lt_trichotomy a b with hlt | he | hgt
          · have := Nat.mul_le_mul_right (prod xs) (show a + 1 ≤ b from hlt)
            rw [Nat.add_mul, Nat.one_mul] at this; omega
          · exact he
          · have := Nat.mul_le_mul_right (prod xs) (show b + 1 ≤ a from hgt)
            rw [Nat.add_mul, Nat.one_mul] at this; omega
        subst hab
        have : rowMajor xs as = rowMajor xs bs := by omega
        rw [ih as bs h1 h2 this]

theorem firstNeg_some (idx : List Int) : ∀ (m d : Nat) (h : d < idx.length),
    idx[d] < 0 → (∀ k (hk : k < d), 0 ≤ idx[k]) → firstNeg idx m = some (m + d) := by
  induction idx with
  | nil => intro m d h; simp at h
  | cons e es ih =>
    intro m d h hneg hfirst
    cases d with
    | zero => have : e < 0 := by simpa using hneg
              simp [firstNeg, this]
    | succ d =>
      have h0 : ¬ e < 0 := by have := hfirst 0 (by omega); simp at this; omega
      simp only [firstNeg, if_neg h0]
      rw [ih (m+1) d (by simpa using h) (by simpa using hneg)
        (fun k hk => by have := hfirst (k+1) (by omega); simpa using this)]
      congr 1; omega

theorem firstNeg_none (idx : List Int) : ∀ (m : Nat),
    (∀ k (hk : k < idx.length), 0 ≤ idx[k]) → firstNeg idx m = none := by
  induction idx with
  | nil => intro m _; rfl
  | cons e es ih =>
    intro m h
    have h0 : ¬ e < 0 := by have := h 0 (by simp); simp at this; omega
    simp only [firstNeg, if_neg h0]
    exact ih (m+1) (fun k hk => by have := h (k+1) (by simpa using hk); simpa using this)

/-- the composed index tuple: position `idx_k` of the range `ranges_k`, per dimension. -/
def composed (ranges : List (Int × Int)) (idx : List Int) : List Int :=
  List.zipWith (fun r i => rangePos r.1 r.2 i) ranges idx

theorem le_prod_of_pos (exts : List Nat) (hpos : ∀ x ∈ exts, 0 < x) :
    ∀ k (h : k < exts.length), exts[k] ≤ prod exts := by
  induction exts with
  | nil => intro k h; simp at h
  | cons x xs ih =>
    intro k h
    have hx : 0 < x := hpos x (by simp)
    have hxs : ∀ y ∈ xs, 0 < y := fun y hy => hpos y (by simp [hy])
    have hp : 0 < prod xs := by
      clear ih h
      induction xs with
      | nil => simp [prod]
      | cons y ys ih2 =>
        simp only [prod]
        exact Nat.mul_pos (hxs y (by simp)) (ih2 (fun z hz => hpos z (by
          rcases List.mem_cons.1 hz with h | h
          · simp [h]
          · simp [h])) (fun z hz => hxs z (by simp [hz])))
    cases k with
    | zero => simp only [List.getElem_cons_zero, prod]; exact Nat.le_mul_of_pos_right _ hp
    | succ k =>
      simp only [List.getElem_cons_succ, prod]
      exact Nat.le_trans (ih hxs k (by simpa using h)) (Nat.le_mul_of_pos_left _ hx)

theorem toU32_eq_toNat (x : Int) (h0 : 0 ≤ x) (h1 : x < (U32 : Int)) : toU32 x = x.toNat := by
  simp only [toU32, U32] at *
  omega

theorem extsEq_iff (dv1 : List (Nat × Nat)) : ∀ dv2 : List (Nat × Nat), dv1.length = dv2.length →
    (extsEq dv1 dv2 = true ↔ dv1.map Prod.fst = dv2.map Prod.fst) := by
  induction dv1 with
  | nil => intro dv2 h; cases dv2 <;> simp_all [extsEq]
  | cons p ps ih =>
    intro dv2 h
    cases dv2 with
    | nil => simp at h
    | cons q qs =>
      obtain ⟨e1, m1⟩ := p
      obtain ⟨e2, m2⟩ := q
      have := ih qs (by simpa using h)
      by_cases he : e1 = e2 <;> simp [extsEq, he, this]

end Never.Idx
