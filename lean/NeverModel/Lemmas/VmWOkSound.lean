import NeverModel.Model.Verify
import NeverModel.Lemmas.VmWOkOpsA
import NeverModel.Lemmas.VmWOkOpsB
import NeverModel.Lemmas.VmWOkOpsC
import NeverModel.Lemmas.VmWOkOpsD
import NeverModel.Lemmas.VerRun
import NeverModel.Lemmas.VmInitArray
set_option linter.unusedSimpArgs false
set_option linter.unusedVariables false
/-! no handler of `exec`, and no `step`, ends in the crash of a stack store outside `[0, stackSize)`: every store is preceded by a read
of the same or a lower slot (lower bound) and by a read of the same or a higher slot or by `vm_check_stack` (upper bound) -/
namespace Never.Vm
open Never Never.Num Never.Ver

/-! ### the pure frame operations -/

theorem wrP_bind_not_wild {vm : Vm} {i : Int} {x : Slot} {k : Vm → Except Stop Vm} (h0 : 0 ≤ i) (h1 : i < vm.stackSize)
    (hk : ∀ v, v.stackSize = vm.stackSize → v.sp = vm.sp → k v ≠ .error wildWrite) : (wrP vm i x >>= k) ≠ .error wildWrite := by
  unfold wrP
  have : ¬ (i < 0 ∨ i ≥ vm.stackSize) := by omega
  simp only [this, if_false, bind, Except.bind]
  exact hk _ rfl rfl

theorem rdP_bind_not_wild {vm : Vm} {i : Int} {k : Slot → Except Stop Vm}
    (hk : ∀ x, 0 ≤ i → i < vm.stackSize → k x ≠ .error wildWrite) : (rdP vm i >>= k) ≠ .error wildWrite := by
  unfold rdP
  by_cases hb : i < 0 ∨ i ≥ vm.stackSize
  · simp only [hb, if_true, bind, Except.bind]; intro h; injection h with h; injection h with h; exact absurd h (by decide)
  · simp only [hb, if_false, bind, Except.bind]; exact hk _ (by omega) (by omega)

theorem checkP_bind_not_wild {vm : Vm} {k : Vm → Except Stop Vm}
    (hk : vm.sp < vm.stackSize → k vm ≠ .error wildWrite) : (checkP vm >>= k) ≠ .error wildWrite := by
  unfold checkP
  by_cases hb : vm.sp ≥ vm.stackSize
  · simp only [hb, if_true, bind, Except.bind]; intro h; cases h
  · simp only [hb, if_false, bind, Except.bind]; exact hk (by omega)

/-- MARK (repaired order): the check comes before the five stores -/
theorem markP_not_wild (vm : Vm) (ra : Nat) (h : -1 ≤ vm.sp) : markP vm ra ≠ .error wildWrite := by
  unfold markP
  refine checkP_bind_not_wild (fun hc => ?_)
  try simp only at hc
  refine wrP_bind_not_wild (by first | omega | (simp only; omega)) (by first | omega | (simp only; omega)) (fun v1 e1 _ => ?_)
  try simp only at e1
  refine wrP_bind_not_wild (by omega) (by omega) (fun v2 e2 _ => ?_)
  refine wrP_bind_not_wild (by omega) (by omega) (fun v3 e3 _ => ?_)
  refine wrP_bind_not_wild (by omega) (by omega) (fun v4 e4 _ => ?_)
  refine wrP_bind_not_wild (by omega) (by omega) (fun v5 e5 _ => ?_)
  intro hh; cases hh

theorem slideLoopP_not_wild (q : Nat) : ∀ (n : Nat) (vm : Vm), -1 ≤ vm.sp → slideLoopP q n vm ≠ .error wildWrite := by
  intro n
  induction n with
  | zero => intro vm _; unfold slideLoopP; intro h; cases h
  | succ n ih =>
    intro vm h
    unfold slideLoopP
    refine rdP_bind_not_wild (fun x _ hb => ?_)
    refine wrP_bind_not_wild (by omega) (by first | omega | (simp only; omega)) (fun v _ e => ?_)
    try simp only at e
    exact ih v (by omega)

/-- SLIDE q m: the first slot stored to is `sp − q − m + 1` -/
theorem slideP_not_wild (vm : Vm) (q m : Nat) (h : q ≠ 0 → m ≠ 0 → -1 ≤ vm.sp - (q : Int) - (m : Int)) :
    slideP vm q m ≠ .error wildWrite := by
  unfold slideP
  split
  · intro hh; cases hh
  · rename_i hq
    split
    · intro hh; cases hh
    · rename_i hm
      exact slideLoopP_not_wild q m _ (by simp only; exact h (by simpa using hq) (by simpa using hm))

/-- RET / RETHROW: the one store goes to `fp − 4`, a slot read just before -/
theorem retP_not_wild (vm : Vm) : retP vm ≠ .error wildWrite := by
  unfold retP
  refine rdP_bind_not_wild (fun _ _ _ => ?_)
  refine rdP_bind_not_wild (fun _ _ _ => ?_)
  refine rdP_bind_not_wild (fun _ b0 b1 => ?_)
  refine rdP_bind_not_wild (fun _ _ _ => ?_)
  refine wrP_bind_not_wild b0 b1 (fun v _ _ => ?_)
  refine rdP_bind_not_wild (fun _ _ _ => ?_)
  intro hh; cases hh

theorem liftE_run_err {α} (r : Except Stop α) (vm : Vm) (e : Stop) (h : (liftE r : M α).run vm = .error e) : r = .error e := by
  unfold liftE at h
  cases r with
  | ok a => simp [pure, StateT.pure, StateT.run, Except.pure] at h
  | error e' =>
    simp [throw, throwThe, MonadExceptOf.throw, StateT.run, StateT.lift, liftM, monadLift, MonadLift.monadLift, Except.bind, bind] at h
    rw [h]

theorem wok_liftP {β} (P : Vm → Except Stop Vm) (k : Vm → M β) (N : Nat) (s : Int)
    (h : ∀ vm, vm.stackSize = N → vm.sp = s → P vm ≠ .error wildWrite) (hk : ∀ v, NoWC (k v)) :
    WOk N s (get >>= fun vm => liftE (P vm) >>= fun v => k v) := by
  intro vm hN hs he
  rcases (run_bind_err _ _ vm _).mp he with h1 | ⟨x, vm1, h1, h2⟩
  · exact nowc_get vm h1
  · obtain ⟨e1, e1'⟩ := get_run _ _ _ h1
    subst e1 e1'
    rcases (run_bind_err _ _ _ _).mp h2 with h3 | ⟨v, vm2, h3, h4⟩
    · exact h _ hN hs (liftE_run_err _ _ _ h3)
    · exact hk v vm2 h4

theorem nowc_gcRun : NoWC gcRun := by
  unfold gcRun
  refine NoWC.bind nowc_get (fun vm => ?_)
  split
  · exact nowc_set _
  · rename_i e he
    have : e = .crash "collector reads a foreign or wrongly typed object" := by
      unfold gcRunPure at he
      split at he
      · cases he
      · dsimp only at he
        split at he
        · cases he
        · cases he; rfl
    subst this
    exact nowc_crash _ (by decide)

/-! ### the opcodes outside the effect table -/

theorem wok_MARK (md : Module) (ins : Instr) (orc : Oracle) (N : Nat) (s : Int) (h0 : -1 ≤ s) (h : ins.op = .MARK) :
    WOk N s (exec md ins orc) := by
  exec_wsel h
  exact wok_liftP (fun vm => markP vm ins.w0) _ N s (fun vm _ hs => markP_not_wild vm _ (by omega)) (fun v => nowc_set v)

theorem wok_SLIDE (md : Module) (ins : Instr) (orc : Oracle) (N : Nat) (s : Int)
    (hf : ins.w0 ≠ 0 → ins.w1 ≠ 0 → -1 ≤ s - (ins.w0 : Int) - (ins.w1 : Int)) (h : ins.op = .SLIDE) :
    WOk N s (exec md ins orc) := by
  exec_wsel h
  split
  · exact WOk.of_nowc nowc_gcRun
  · exact wok_liftP (fun vm => slideP vm ins.w0 ins.w1) _ N s (fun vm _ hs => slideP_not_wild vm _ _ (by rw [hs]; exact hf))
      (fun v => NoWC.bind (nowc_set v) (fun _ => nowc_gcRun))

theorem wok_RET (md : Module) (ins : Instr) (orc : Oracle) (N : Nat) (s : Int) (h : ins.op = .RET ∨ ins.op = .RETHROW) :
    WOk N s (exec md ins orc) := by
  rcases h with h | h
  all_goals
    exec_wsel h
    refine wok_liftP (fun vm => retP vm) _ N s (fun vm _ _ => retP_not_wild vm) (fun v => ?_)
    refine NoWC.bind (nowc_set v) (fun _ => NoWC.bind nowc_gcRun (fun _ => ?_))
    split
    · exact nowc_modify _
    · exact NoWC.pure _

theorem nowc_exec_nostore (md : Module) (ins : Instr) (orc : Oracle)
    (h : ins.op = .CALL ∨ ins.op = .CLEAR_STACK ∨ ins.op = .JUMP ∨ ins.op = .HALT ∨ ins.op = .UNHANDLED_EXCEPTION ∨
      ins.op = .UNKNOWN ∨ ins.op = .ID_FUNC_FUNC ∨
      (ins.op = .FUNC_FFI ∨ ins.op = .FUNC_FFI_BOOL ∨ ins.op = .FUNC_FFI_INT ∨ ins.op = .FUNC_FFI_LONG ∨ ins.op = .FUNC_FFI_FLOAT ∨
       ins.op = .FUNC_FFI_DOUBLE ∨ ins.op = .FUNC_FFI_CHAR ∨ ins.op = .FUNC_FFI_STRING ∨ ins.op = .FUNC_FFI_VOID ∨
       ins.op = .FUNC_FFI_C_PTR ∨ ins.op = .FUNC_FFI_RECORD)) : NoWC (exec md ins orc) := by
  rcases h with h | h | h | h | h | h | h | h | h | h | h | h | h | h | h | h | h | h
  all_goals
    unfold exec
    simp only [h, binOpOf, unOpOf, convOf, nilCmpOf, strAddOf, arrOpOf, mkArrayElem]
    nowc

theorem nowc_fillStrs (arr : Nat) : ∀ (ss : List (List UInt8)) (i : Nat), NoWC (fillStrs arr i ss) := by
  intro ss
  induction ss with
  | nil => intro i; unfold fillStrs; nowc
  | cons s rest ih => intro i; unfold fillStrs; have := ih (i + 1); nowc

/-- `pushParams` only pushes (each push checked) -/
theorem pushParams_wok (N : Nat) : ∀ (ps : List Param) (s : Int), -1 ≤ s → WOk N s (pushParams ps) := by
  intro ps
  induction ps with
  | nil => intro s _; unfold pushParams; exact WOk.of_nowc (NoWC.pure _)
  | cons p rest ih =>
    intro s h
    have tail : ∀ a : Nat, WOk N s (do pushAddr a; pushParams rest) := fun a =>
      WOk.mov_bind (pushAddr_mov _ _) (WOk.pushAddr _ _ _ h) (fun _ => ih _ (by omega))
    unfold pushParams
    cases p with
    | int v => exact WOk.keeps_bind (by keeps) (WOk.of_nowc (by nowc)) (fun a => by simpa using tail a)
    | float b => exact WOk.keeps_bind (by keeps) (WOk.of_nowc (by nowc)) (fun a => by simpa using tail a)
    | str st =>
      refine WOk.keeps_bind (by keeps) (WOk.of_nowc (by nowc)) (fun a => ?_)
      exact WOk.keeps_bind (by keeps) (WOk.of_nowc (by nowc)) (fun a => by simpa using tail a)
    | strArr ss =>
      refine WOk.keeps_bind (by keeps) (WOk.of_nowc (by nowc)) (fun a => ?_)
      refine WOk.keeps_bind (keeps_fillStrs _ _ _) (WOk.of_nowc (nowc_fillStrs _ _ _)) (fun _ => ?_)
      exact WOk.keeps_bind (by keeps) (WOk.of_nowc (by nowc)) (fun a => by simpa using tail a)

theorem wok_PUSH_PARAM (md : Module) (ins : Instr) (orc : Oracle) (N : Nat) (s : Int) (h0 : -1 ≤ s) (h : ins.op = .PUSH_PARAM) :
    WOk N s (exec md ins orc) := by
  exec_wsel h
  exact pushParams_wok _ _ _ h0

set_option maxRecDepth 8000 in
set_option maxHeartbeats 1000000 in
theorem wok_MK_INIT_ARRAY (md : Module) (ins : Instr) (orc : Oracle) (N : Nat) (s : Int) (h0 : -1 ≤ s) (h1 : s < N) (h : ins.op = .MK_INIT_ARRAY) :
    WOk N s (exec md ins orc) := by
  exec_wsel h
  refine WOk.popInts_bind (fun exts hl => ?_)
  refine WOk.keeps_bind (by keeps) (WOk.of_nowc (by nowc)) (fun arr => ?_)
  refine WOk.keeps_bind (by keeps) (WOk.of_nowc (by nowc)) (fun p => ?_)
  obtain ⟨dv, es⟩ := p
  dsimp only
  refine WOk.popAddrs_bind (fun _ hl2 => ?_)
  wok

/-! ### the effect table -/

set_option maxHeartbeats 4000000 in
set_option maxRecDepth 8000 in
theorem exec_wok_table (md : Module) (ins : Instr) (orc : Oracle) (p q : Nat) (h : simpleEffect ins = some (p, q))
    (N : Nat) (s : Int) (h0 : -1 ≤ s) (h1 : s < N) :
    WOk N s (exec md ins orc) := by
  cases hb : binOpOf ins.op with
  | some tb =>
    obtain ⟨ty, bop⟩ := tb
    intro vm hN hs he; rw [exec_bin md ins orc ty bop hb] at he; exact wok_execBin ty bop N s h0 h1 vm hN hs he
  | none =>
  cases hu : unOpOf ins.op with
  | some tu =>
    obtain ⟨ty, uop⟩ := tu
    intro vm hN hs he; rw [exec_un md ins orc ty uop hb hu] at he; exact wok_execUn ty uop N s h0 h1 vm hN hs he
  | none =>
  cases hc : convOf ins.op with
  | some tc =>
    obtain ⟨src, dst⟩ := tc
    intro vm hN hs he; rw [exec_conv md ins orc src dst hb hu hc] at he; exact wok_execConv src dst N s h0 h1 vm hN hs he
  | none =>
  cases hn : nilCmpOf ins.op with
  | some tn =>
    obtain ⟨k, nl, ng⟩ := tn
    exact wok_nilCmp md ins orc N s h0 h1 k nl ng hb hu hc hn
  | none =>
  cases hs : strAddOf ins.op with
  | some ts =>
    obtain ⟨ty, sl⟩ := ts
    exact wok_strAdd md ins orc N s h0 h1 ty sl hb hu hc hn hs
  | none =>
  cases ha : arrOpOf ins.op with
  | some ta =>
    obtain ⟨ty, kind⟩ := ta
    exact wok_arrOp md ins orc N s h0 h1 ty kind hb hu hc hn hs ha
  | none =>
  cases hm : mkArrayElem ins.op with
  | some dflt =>
    exact wok_mkArray md ins orc N s h0 h1 dflt hb hu hc hn hs ha hm
  | none =>
  cases hop : ins.op
  all_goals (first
    | (rw [hop] at hb; simp [binOpOf] at hb; done) | (rw [hop] at hu; simp [unOpOf] at hu; done)
    | (rw [hop] at hc; simp [convOf] at hc; done) | (rw [hop] at hn; simp [nilCmpOf] at hn; done)
    | (rw [hop] at hs; simp [strAddOf] at hs; done) | (rw [hop] at ha; simp [arrOpOf] at ha; done)
    | (rw [hop] at hm; simp [mkArrayElem] at hm; done) | skip)
  all_goals simp only [simpleEffect, hop, binOpOf, unOpOf, convOf, nilCmpOf, strAddOf, arrOpOf, mkArrayElem, Option.isSome_none, Bool.false_eq_true, if_false] at h
  all_goals (first | (cases h; done) | skip)
  case BUILD_IN => exact wok_BUILD_IN md ins orc N s h0 h1 hop
  all_goals first
    | exact wok_INT md ins orc N s h0 h1 hop
    | exact wok_LONG md ins orc N s h0 h1 hop
    | exact wok_FLOAT md ins orc N s h0 h1 hop
    | exact wok_DOUBLE md ins orc N s h0 h1 hop
    | exact wok_CHAR md ins orc N s h0 h1 hop
    | exact wok_STRING md ins orc N s h0 h1 hop
    | exact wok_C_NULL md ins orc N s h0 h1 hop
    | exact wok_ID_TOP md ins orc N s h0 h1 hop
    | exact wok_ID_LOCAL md ins orc N s h0 h1 hop
    | exact wok_ID_DIM_LOCAL md ins orc N s h0 h1 hop
    | exact wok_ID_DIM_SLICE md ins orc N s h0 h1 hop
    | exact wok_ID_GLOBAL md ins orc N s h0 h1 hop
    | exact wok_OP_DUP_INT md ins orc N s h0 h1 hop
    | exact wok_COPYGLOB md ins orc N s h0 h1 hop
    | exact wok_NIL_RECORD_REF md ins orc N s h0 h1 hop
    | exact wok_PUSH_EXCEPT md ins orc N s h0 h1 hop
    | exact wok_VEC_DEREF md ins orc N s h0 h1 hop
    | exact wok_VECREF_VEC_DEREF md ins orc N s h0 h1 hop
    | exact wok_DUP md ins orc N s h0 h1 hop
    | exact wok_ID_FUNC_ADDR md ins orc N s h0 h1 hop
    | exact wok_ID_FUNC_ENTRY md ins orc N s h0 h1 hop
    | exact wok_ENUMTYPE_RECORD_TO_INT md ins orc N s h0 h1 hop
    | exact wok_VECREF_DEREF md ins orc N s h0 h1 hop
    | exact wok_LABEL md ins orc N s h0 h1 hop
    | exact wok_LINE md ins orc N s h0 h1 hop
    | exact wok_FUNC_DEF md ins orc N s h0 h1 hop
    | exact wok_FUNC_OBJ md ins orc N s h0 h1 hop
    | exact wok_OP_INC_INT md ins orc N s h0 h1 hop
    | exact wok_OP_DEC_INT md ins orc N s h0 h1 hop
    | exact wok_OP_ADD_STRING md ins orc N s h0 h1 hop
    | exact wok_OP_EQ_STRING md ins orc N s h0 h1 hop
    | exact wok_OP_NEQ_STRING md ins orc N s h0 h1 hop
    | exact wok_OP_EQ_C_PTR md ins orc N s h0 h1 hop
    | exact wok_OP_NEQ_C_PTR md ins orc N s h0 h1 hop
    | exact wok_OP_EQ_NIL md ins orc N s h0 h1 hop
    | exact wok_OP_NEQ_NIL md ins orc N s h0 h1 hop
    | exact wok_SLICE_ARRAY md ins orc N s h0 h1 hop
    | exact wok_SLICE_RANGE md ins orc N s h0 h1 hop
    | exact wok_SLICE_SLICE md ins orc N s h0 h1 hop
    | exact wok_SLICE_STRING md ins orc N s h0 h1 hop
    | exact wok_STRING_DEREF md ins orc N s h0 h1 hop
    | exact wok_VECREF_VEC_INDEX_DEREF md ins orc N s h0 h1 hop
    | exact wok_OP_ASS_INT md ins orc N s h0 h1 hop
    | exact wok_OP_ASS_LONG md ins orc N s h0 h1 hop
    | exact wok_OP_ASS_FLOAT md ins orc N s h0 h1 hop
    | exact wok_OP_ASS_DOUBLE md ins orc N s h0 h1 hop
    | exact wok_OP_ASS_CHAR md ins orc N s h0 h1 hop
    | exact wok_OP_ASS_STRING md ins orc N s h0 h1 hop
    | exact wok_OP_ASS_C_PTR md ins orc N s h0 h1 hop
    | exact wok_OP_ASS_ARRAY md ins orc N s h0 h1 hop
    | exact wok_OP_ASS_RECORD md ins orc N s h0 h1 hop
    | exact wok_OP_ASS_FUNC md ins orc N s h0 h1 hop
    | exact wok_OP_ASS_RECORD_NIL md ins orc N s h0 h1 hop
    | exact wok_JUMPZ md ins orc N s h0 h1 hop
    | exact wok_REWRITE md ins orc N s h0 h1 hop
    | exact wok_ARRAY_APPEND md ins orc N s h0 h1 hop
    | exact wok_MK_RANGE md ins orc N s h0 h1 hop
    | exact wok_RECORD md ins orc N s h0 h1 hop
    | exact wok_GLOBAL_VEC md ins orc N s h0 h1 hop
    | exact wok_ALLOC md ins orc N s h0 h1 hop
    | exact wok_RANGE_DEREF md ins orc N s h0 h1 hop
    | exact wok_RECORD_UNPACK md ins orc N s h0 h1 hop
    | exact wok_SLICE_DEREF md ins orc N s h0 h1 hop
    | exact wok_ARRAY_DEREF md ins orc N s h0 h1 (Or.inl hop)
    | exact wok_ARRAY_DEREF md ins orc N s h0 h1 (Or.inr hop)


/-- **every handler.**  From `−1 ≤ sp < stackSize` no handler of `exec` ends in the crash of a stack store outside the array, with one
proviso that is stated, not assumed away: SLIDE `q m` with both operands non-zero needs `−1 ≤ sp − q − m` (its first store goes to
`sp − q − m + 1`; the certificate of a verified module gives this at the recorded height). -/
theorem exec_wok (md : Module) (ins : Instr) (orc : Oracle) (N : Nat) (s : Int) (h0 : -1 ≤ s) (h1 : s < N)
    (hslide : ins.op = .SLIDE → ins.w0 ≠ 0 → ins.w1 ≠ 0 → -1 ≤ s - (ins.w0 : Int) - (ins.w1 : Int)) : WOk N s (exec md ins orc) := by
  cases he : simpleEffect ins with
  | some pq => exact exec_wok_table md ins orc pq.1 pq.2 he N s h0 h1
  | none =>
    rcases simpleEffect_none_cases ins he with h | h | h | h | h | h | h | h | h | h | h | h | h | h
    · exact WOk.of_nowc (nowc_exec_nostore md ins orc (by simp [h]))
    · exact WOk.of_nowc (nowc_exec_nostore md ins orc (by simp [h]))
    · exact WOk.of_nowc (nowc_exec_nostore md ins orc (Or.inr (Or.inr (Or.inr (Or.inr (Or.inr (Or.inr (Or.inr h))))))))
    · exact WOk.of_nowc (nowc_exec_nostore md ins orc (by simp [h]))
    · exact wok_MK_INIT_ARRAY md ins orc N s h0 h1 h
    · exact wok_MARK md ins orc N s h0 h
    · exact WOk.of_nowc (nowc_exec_nostore md ins orc (by simp [h]))
    · exact wok_SLIDE md ins orc N s (hslide h) h
    · exact WOk.of_nowc (nowc_exec_nostore md ins orc (by simp [h]))
    · exact wok_RET md ins orc N s (Or.inl h)
    · exact wok_RET md ins orc N s (Or.inr h)
    · exact wok_PUSH_PARAM md ins orc N s h0 h
    · exact WOk.of_nowc (nowc_exec_nostore md ins orc (by simp [h]))
    · exact WOk.of_nowc (nowc_exec_nostore md ins orc (by simp [h]))

/-- **`step`.**  fetch, `ip++`, handler, exception dispatch: the fetch and the dispatch store nothing -/
theorem step_wok (md : Module) (orc : Oracle) (vm : Vm) (h0 : -1 ≤ vm.sp) (h1 : vm.sp < vm.stackSize)
    (hslide : ∀ ins, md.code[vm.ip]? = some ins → ins.op = .SLIDE → ins.w0 ≠ 0 → ins.w1 ≠ 0 → -1 ≤ vm.sp - (ins.w0 : Int) - (ins.w1 : Int)) :
    (step md orc).run vm ≠ .error wildWrite := by
  intro he
  unfold step at he
  rcases (run_bind_err _ _ vm _).mp he with e1 | ⟨v0, s0, g0, he1⟩
  · exact nowc_get vm e1
  obtain ⟨e0, e0'⟩ := get_run _ _ _ g0
  rw [e0, e0'] at he1
  cases hf : md.code[vm.ip]? with
  | none =>
    rw [hf] at he1
    exact nowc_crash _ (by decide) _ he1
  | some ins =>
    rw [hf] at he1
    dsimp only at he1
    rcases (run_bind_err _ _ _ _).mp he1 with e1 | ⟨u1, s1, g1, he2⟩
    · exact nowc_set _ _ e1
    have e1 := set_run _ _ _ _ g1
    rw [e1] at he2
    rcases (run_bind_err _ _ _ _).mp he2 with e2 | ⟨u2, s2, g2, he3⟩
    · exact exec_wok md ins orc vm.stackSize vm.sp h0 h1 (hslide ins hf) { vm with ip := vm.ip + 1 } rfl rfl e2
    rcases (run_bind_err _ _ _ _).mp he3 with e3 | ⟨v3, s3, g3, he4⟩
    · exact nowc_get _ e3
    obtain ⟨e3, e3'⟩ := get_run _ _ _ g3
    rw [e3, e3'] at he4
    split at he4
    · split at he4
      · exact nowc_set _ _ he4
      · exact nowc_crash _ (by decide) _ he4
    · exact NoWC.pure _ _ he4

end Never.Vm
