import NeverModel.Lemmas.VmFree
set_option linter.unusedSimpArgs false
set_option linter.unusedVariables false
/-! per-opcode: the handler keeps the heap's bookkeeping invariant (generated list) -/
namespace Never.Vm
open Never Never.Num

set_option maxRecDepth 8000 in
theorem kfop_INT (md : Module) (ins : Instr) (orc : Oracle) (h : ins.op = .INT) : KF none (exec md ins orc) := by exec_kf h

set_option maxRecDepth 8000 in
theorem kfop_LONG (md : Module) (ins : Instr) (orc : Oracle) (h : ins.op = .LONG) : KF none (exec md ins orc) := by exec_kf h

set_option maxRecDepth 8000 in
theorem kfop_FLOAT (md : Module) (ins : Instr) (orc : Oracle) (h : ins.op = .FLOAT) : KF none (exec md ins orc) := by exec_kf h

set_option maxRecDepth 8000 in
theorem kfop_DOUBLE (md : Module) (ins : Instr) (orc : Oracle) (h : ins.op = .DOUBLE) : KF none (exec md ins orc) := by exec_kf h

set_option maxRecDepth 8000 in
theorem kfop_CHAR (md : Module) (ins : Instr) (orc : Oracle) (h : ins.op = .CHAR) : KF none (exec md ins orc) := by exec_kf h

set_option maxRecDepth 8000 in
theorem kfop_STRING (md : Module) (ins : Instr) (orc : Oracle) (h : ins.op = .STRING) : KF none (exec md ins orc) := by exec_kf h

set_option maxRecDepth 8000 in
theorem kfop_C_NULL (md : Module) (ins : Instr) (orc : Oracle) (h : ins.op = .C_NULL) : KF none (exec md ins orc) := by exec_kf h

set_option maxRecDepth 8000 in
theorem kfop_ID_TOP (md : Module) (ins : Instr) (orc : Oracle) (h : ins.op = .ID_TOP) : KF none (exec md ins orc) := by exec_kf h

set_option maxRecDepth 8000 in
theorem kfop_ID_LOCAL (md : Module) (ins : Instr) (orc : Oracle) (h : ins.op = .ID_LOCAL) : KF none (exec md ins orc) := by exec_kf h

set_option maxRecDepth 8000 in
theorem kfop_ID_DIM_LOCAL (md : Module) (ins : Instr) (orc : Oracle) (h : ins.op = .ID_DIM_LOCAL) : KF none (exec md ins orc) := by exec_kf h

set_option maxRecDepth 8000 in
theorem kfop_ID_DIM_SLICE (md : Module) (ins : Instr) (orc : Oracle) (h : ins.op = .ID_DIM_SLICE) : KF none (exec md ins orc) := by exec_kf h

set_option maxRecDepth 8000 in
theorem kfop_ID_GLOBAL (md : Module) (ins : Instr) (orc : Oracle) (h : ins.op = .ID_GLOBAL) : KF none (exec md ins orc) := by exec_kf h

set_option maxRecDepth 8000 in
theorem kfop_OP_DUP_INT (md : Module) (ins : Instr) (orc : Oracle) (h : ins.op = .OP_DUP_INT) : KF none (exec md ins orc) := by exec_kf h

set_option maxRecDepth 8000 in
theorem kfop_COPYGLOB (md : Module) (ins : Instr) (orc : Oracle) (h : ins.op = .COPYGLOB) : KF none (exec md ins orc) := by exec_kf h

set_option maxRecDepth 8000 in
theorem kfop_NIL_RECORD_REF (md : Module) (ins : Instr) (orc : Oracle) (h : ins.op = .NIL_RECORD_REF) : KF none (exec md ins orc) := by exec_kf h

set_option maxRecDepth 8000 in
theorem kfop_PUSH_EXCEPT (md : Module) (ins : Instr) (orc : Oracle) (h : ins.op = .PUSH_EXCEPT) : KF none (exec md ins orc) := by exec_kf h

set_option maxRecDepth 8000 in
theorem kfop_VEC_DEREF (md : Module) (ins : Instr) (orc : Oracle) (h : ins.op = .VEC_DEREF) : KF none (exec md ins orc) := by exec_kf h

set_option maxRecDepth 8000 in
theorem kfop_VECREF_VEC_DEREF (md : Module) (ins : Instr) (orc : Oracle) (h : ins.op = .VECREF_VEC_DEREF) : KF none (exec md ins orc) := by exec_kf h

set_option maxRecDepth 8000 in
theorem kfop_DUP (md : Module) (ins : Instr) (orc : Oracle) (h : ins.op = .DUP) : KF none (exec md ins orc) := by exec_kf h

set_option maxRecDepth 8000 in
theorem kfop_ID_FUNC_ADDR (md : Module) (ins : Instr) (orc : Oracle) (h : ins.op = .ID_FUNC_ADDR) : KF none (exec md ins orc) := by exec_kf h

set_option maxRecDepth 8000 in
theorem kfop_ID_FUNC_ENTRY (md : Module) (ins : Instr) (orc : Oracle) (h : ins.op = .ID_FUNC_ENTRY) : KF none (exec md ins orc) := by exec_kf h

set_option maxRecDepth 8000 in
theorem kfop_ENUMTYPE_RECORD_TO_INT (md : Module) (ins : Instr) (orc : Oracle) (h : ins.op = .ENUMTYPE_RECORD_TO_INT) : KF none (exec md ins orc) := by exec_kf h

end Never.Vm
