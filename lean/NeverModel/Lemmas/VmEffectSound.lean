import NeverModel.Model.Verify
import NeverModel.Lemmas.VmEffOpsA
import NeverModel.Lemmas.VmEffOpsB
import NeverModel.Lemmas.VmEffOpsC
import NeverModel.Lemmas.VmEffOpsD
import NeverModel.Lemmas.VmEffOpsE
import NeverModel.Lemmas.VmEffOpsF
set_option linter.unusedSimpArgs false
set_option linter.unusedVariables false
/-! the verifier's stack-effect table (`Ver.simpleEffect`) against the handlers of M-VM (`Vm.exec`), all opcodes of the table -/
namespace Never.Vm
open Never Never.Num Never.Ver

theorem EffAt.of_pops {s : Int} {d : Int} {f : M Unit} (h : PopsOrRaises f d) : EffAt s (-d) f := by
  intro vm a vm' hs hr
  obtain ⟨a1, a2, a3, a4⟩ := h vm vm' hr
  refine ⟨a1, a2, a3, ?_⟩
  rcases a4 with a4 | ⟨_, a4⟩
  · left; omega
  · right; left; exact a4

theorem eff_BUILD_IN (md : Module) (ins : Instr) (orc : Oracle) (s : Int) (h : ins.op = .BUILD_IN) :
    EffAt s (buildInDelta ins.w0) (exec md ins orc) := by
  unfold exec
  simp only [h, binOpOf, unOpOf, convOf, nilCmpOf, strAddOf, arrOpOf, mkArrayElem]
  refine EffAt.getSp_bind ?_
  exact buildIn_eff _ _ _

set_option maxHeartbeats 4000000 in
set_option maxRecDepth 8000 in
/-- **Soundness of the verifier's stack-effect table.** Whenever `simpleEffect` assigns `(pops, pushes)` to an
instruction, the M-VM handler of that instruction, started on ANY machine state with `sp = s` and run to
completion, leaves `fp`, `pp` and the stack size alone and ends with `sp = s + pushes - pops`, or with an exception
raised (the handler that is entered next resets `sp`), or with the machine stopped in `VM_ERROR`. -/
theorem simple_effect_sound (md : Module) (ins : Instr) (orc : Oracle) (p q : Nat) (h : simpleEffect ins = some (p, q)) (s : Int) :
    EffAt s ((q : Int) - (p : Int)) (exec md ins orc) := by
  cases hb : binOpOf ins.op with
  | some tb =>
    obtain ⟨ty, bop⟩ := tb
    simp [simpleEffect, hb] at h; obtain ⟨rfl, rfl⟩ := h
    refine EffAt.congr_d (EffAt.of_pops (d := 1) ?_) (by omega)
    intro vm vm' hr; rw [exec_bin md ins orc ty bop hb] at hr; exact execBin_effect ty bop vm vm' hr
  | none =>
  cases hu : unOpOf ins.op with
  | some tu =>
    obtain ⟨ty, uop⟩ := tu
    simp [simpleEffect, hb, hu] at h; obtain ⟨rfl, rfl⟩ := h
    refine EffAt.congr_d (EffAt.of_pops (d := 0) ?_) (by omega)
    intro vm vm' hr; rw [exec_un md ins orc ty uop hb hu] at hr; exact execUn_effect ty uop vm vm' hr
  | none =>
  cases hc : convOf ins.op with
  | some tc =>
    obtain ⟨src, dst⟩ := tc
    simp [simpleEffect, hb, hu, hc] at h; obtain ⟨rfl, rfl⟩ := h
    refine EffAt.congr_d (EffAt.of_pops (d := 0) ?_) (by omega)
    intro vm vm' hr; rw [exec_conv md ins orc src dst hb hu hc] at hr; exact execConv_effect src dst vm vm' hr
  | none =>
  cases hn : nilCmpOf ins.op with
  | some tn =>
    obtain ⟨k, nl, ng⟩ := tn
    simp [simpleEffect, hb, hu, hc, hn] at h; obtain ⟨rfl, rfl⟩ := h
    exact EffAt.congr_d (eff_nilCmp md ins orc s k nl ng hb hu hc hn) (by omega)
  | none =>
  cases hs : strAddOf ins.op with
  | some ts =>
    obtain ⟨ty, sl⟩ := ts
    simp [simpleEffect, hb, hu, hc, hn, hs] at h; obtain ⟨rfl, rfl⟩ := h
    exact EffAt.congr_d (eff_strAdd md ins orc s ty sl hb hu hc hn hs) (by omega)
  | none =>
  cases ha : arrOpOf ins.op with
  | some ta =>
    obtain ⟨ty, kind⟩ := ta
    by_cases hk : kind = 0
    · subst hk
      simp [simpleEffect, hb, hu, hc, hn, hs, ha] at h; obtain ⟨rfl, rfl⟩ := h
      exact EffAt.congr_d (eff_arrOp md ins orc s ty 0 hb hu hc hn hs ha) (by simp)
    · have e := eff_arrOp md ins orc s ty kind hb hu hc hn hs ha
      simp only [hk, if_false] at e
      cases kind with
      | zero => exact absurd rfl hk
      | succ k =>
        simp [simpleEffect, hb, hu, hc, hn, hs, ha] at h; obtain ⟨rfl, rfl⟩ := h
        exact EffAt.congr_d e (by omega)
  | none =>
  cases hm : mkArrayElem ins.op with
  | some dflt =>
    simp [simpleEffect, hb, hu, hc, hn, hs, ha, hm] at h; obtain ⟨rfl, rfl⟩ := h
    exact EffAt.congr_d (eff_mkArray md ins orc s dflt hb hu hc hn hs ha hm) (by omega)
  | none =>
  cases hop : ins.op
  all_goals (first
    | (rw [hop] at hb; simp [binOpOf] at hb; done) | (rw [hop] at hu; simp [unOpOf] at hu; done)
    | (rw [hop] at hc; simp [convOf] at hc; done) | (rw [hop] at hn; simp [nilCmpOf] at hn; done)
    | (rw [hop] at hs; simp [strAddOf] at hs; done) | (rw [hop] at ha; simp [arrOpOf] at ha; done)
    | (rw [hop] at hm; simp [mkArrayElem] at hm; done) | skip)
  all_goals simp only [simpleEffect, hop, binOpOf, unOpOf, convOf, nilCmpOf, strAddOf, arrOpOf, mkArrayElem, Option.isSome_none, Bool.false_eq_true, if_false] at h
  all_goals (first | (cases h; done) | skip)
  case BUILD_IN =>
    have e := eff_BUILD_IN md ins orc s hop
    unfold buildInDelta at e
    by_cases h1 : ins.w0 = 7 ∨ ins.w0 = 22
    · simp only [h1, if_true] at e
      have : (ins.w0 == 7) = true ∨ (ins.w0 == 22) = true := by rcases h1 with h1 | h1 <;> simp [h1]
      simp only [this, if_true, Option.some.injEq, Prod.mk.injEq] at h; obtain ⟨rfl, rfl⟩ := h
      exact EffAt.congr_d e (by omega)
    · simp only [h1, if_false] at e
      have : ¬((ins.w0 == 7) = true ∨ (ins.w0 == 22) = true) := by simpa using h1
      simp only [this, if_false] at h
      by_cases h2 : ins.w0 = 12
      · simp only [h2, if_true] at e
        simp [h2] at h; obtain ⟨rfl, rfl⟩ := h
        exact EffAt.congr_d e (by omega)
      · simp only [h2, if_false] at e
        have : ¬(ins.w0 == 12) = true := by simpa using h2
        simp only [this, if_false] at h
        simp only [ite_self, Option.some.injEq, Prod.mk.injEq] at h; obtain ⟨rfl, rfl⟩ := h; exact EffAt.congr_d e (by omega)
  all_goals (simp only [Option.some.injEq, Prod.mk.injEq] at h; obtain ⟨rfl, rfl⟩ := h)
  all_goals first
    | exact EffAt.congr_d (eff_INT md ins orc s hop) (by omega)
    | exact EffAt.congr_d (eff_LONG md ins orc s hop) (by omega)
    | exact EffAt.congr_d (eff_FLOAT md ins orc s hop) (by omega)
    | exact EffAt.congr_d (eff_DOUBLE md ins orc s hop) (by omega)
    | exact EffAt.congr_d (eff_CHAR md ins orc s hop) (by omega)
    | exact EffAt.congr_d (eff_STRING md ins orc s hop) (by omega)
    | exact EffAt.congr_d (eff_C_NULL md ins orc s hop) (by omega)
    | exact EffAt.congr_d (eff_ID_TOP md ins orc s hop) (by omega)
    | exact EffAt.congr_d (eff_ID_LOCAL md ins orc s hop) (by omega)
    | exact EffAt.congr_d (eff_ID_DIM_LOCAL md ins orc s hop) (by omega)
    | exact EffAt.congr_d (eff_ID_DIM_SLICE md ins orc s hop) (by omega)
    | exact EffAt.congr_d (eff_ID_GLOBAL md ins orc s hop) (by omega)
    | exact EffAt.congr_d (eff_OP_DUP_INT md ins orc s hop) (by omega)
    | exact EffAt.congr_d (eff_COPYGLOB md ins orc s hop) (by omega)
    | exact EffAt.congr_d (eff_NIL_RECORD_REF md ins orc s hop) (by omega)
    | exact EffAt.congr_d (eff_PUSH_EXCEPT md ins orc s hop) (by omega)
    | exact EffAt.congr_d (eff_VEC_DEREF md ins orc s hop) (by omega)
    | exact EffAt.congr_d (eff_VECREF_VEC_DEREF md ins orc s hop) (by omega)
    | exact EffAt.congr_d (eff_DUP md ins orc s hop) (by omega)
    | exact EffAt.congr_d (eff_ID_FUNC_ADDR md ins orc s hop) (by omega)
    | exact EffAt.congr_d (eff_ID_FUNC_ENTRY md ins orc s hop) (by omega)
    | exact EffAt.congr_d (eff_ENUMTYPE_RECORD_TO_INT md ins orc s hop) (by omega)
    | exact EffAt.congr_d (eff_VECREF_DEREF md ins orc s hop) (by omega)
    | exact EffAt.congr_d (eff_LABEL md ins orc s hop) (by omega)
    | exact EffAt.congr_d (eff_LINE md ins orc s hop) (by omega)
    | exact EffAt.congr_d (eff_FUNC_DEF md ins orc s hop) (by omega)
    | exact EffAt.congr_d (eff_FUNC_OBJ md ins orc s hop) (by omega)
    | exact EffAt.congr_d (eff_OP_INC_INT md ins orc s hop) (by omega)
    | exact EffAt.congr_d (eff_OP_DEC_INT md ins orc s hop) (by omega)
    | exact EffAt.congr_d (eff_OP_ADD_STRING md ins orc s hop) (by omega)
    | exact EffAt.congr_d (eff_OP_EQ_STRING md ins orc s hop) (by omega)
    | exact EffAt.congr_d (eff_OP_NEQ_STRING md ins orc s hop) (by omega)
    | exact EffAt.congr_d (eff_OP_EQ_C_PTR md ins orc s hop) (by omega)
    | exact EffAt.congr_d (eff_OP_NEQ_C_PTR md ins orc s hop) (by omega)
    | exact EffAt.congr_d (eff_OP_EQ_NIL md ins orc s hop) (by omega)
    | exact EffAt.congr_d (eff_OP_NEQ_NIL md ins orc s hop) (by omega)
    | exact EffAt.congr_d (eff_SLICE_ARRAY md ins orc s hop) (by omega)
    | exact EffAt.congr_d (eff_SLICE_RANGE md ins orc s hop) (by omega)
    | exact EffAt.congr_d (eff_SLICE_SLICE md ins orc s hop) (by omega)
    | exact EffAt.congr_d (eff_SLICE_STRING md ins orc s hop) (by omega)
    | exact EffAt.congr_d (eff_STRING_DEREF md ins orc s hop) (by omega)
    | exact EffAt.congr_d (eff_VECREF_VEC_INDEX_DEREF md ins orc s hop) (by omega)
    | exact EffAt.congr_d (eff_OP_ASS_INT md ins orc s hop) (by omega)
    | exact EffAt.congr_d (eff_OP_ASS_LONG md ins orc s hop) (by omega)
    | exact EffAt.congr_d (eff_OP_ASS_FLOAT md ins orc s hop) (by omega)
    | exact EffAt.congr_d (eff_OP_ASS_DOUBLE md ins orc s hop) (by omega)
    | exact EffAt.congr_d (eff_OP_ASS_CHAR md ins orc s hop) (by omega)
    | exact EffAt.congr_d (eff_OP_ASS_STRING md ins orc s hop) (by omega)
    | exact EffAt.congr_d (eff_OP_ASS_C_PTR md ins orc s hop) (by omega)
    | exact EffAt.congr_d (eff_OP_ASS_ARRAY md ins orc s hop) (by omega)
    | exact EffAt.congr_d (eff_OP_ASS_RECORD md ins orc s hop) (by omega)
    | exact EffAt.congr_d (eff_OP_ASS_FUNC md ins orc s hop) (by omega)
    | exact EffAt.congr_d (eff_OP_ASS_RECORD_NIL md ins orc s hop) (by omega)
    | exact EffAt.congr_d (eff_JUMPZ md ins orc s hop) (by omega)
    | exact EffAt.congr_d (eff_REWRITE md ins orc s hop) (by omega)
    | exact EffAt.congr_d (eff_ARRAY_APPEND md ins orc s hop) (by omega)
    | exact EffAt.congr_d (eff_MK_RANGE md ins orc s hop) (by omega)
    | exact EffAt.congr_d (eff_RECORD md ins orc s hop) (by omega)
    | exact EffAt.congr_d (eff_GLOBAL_VEC md ins orc s hop) (by omega)
    | exact EffAt.congr_d (eff_ALLOC md ins orc s hop) (by omega)
    | exact EffAt.congr_d (eff_RANGE_DEREF md ins orc s hop) (by omega)
    | exact EffAt.congr_d (eff_RECORD_UNPACK md ins orc s hop) (by omega)
    | exact EffAt.congr_d (eff_SLICE_DEREF md ins orc s hop) (by omega)
    | exact EffAt.congr_d (eff_ARRAY_DEREF md ins orc s (Or.inl hop)) (by omega)
    | exact EffAt.congr_d (eff_ARRAY_DEREF md ins orc s (Or.inr hop)) (by omega)

end Never.Vm
